//! HARNESS GLUE (not grin code): stands in for the `self` of grin_servers' NetToChainAdapter so that the
//! extracted source text of `locate_headers` / `find_common_header` (OUT_DIR/adapter_extracted.rs, see
//! build.rs) compiles: `self.chain()`, the module aliases `chain`, `core`, `p2p`, `Hash`, `BlockHeader`
//! and the log macros. These two functions take the chain's header-MMR lock through the handle that
//! `Chain::header_pmmr()` gives out and call back into the chain while they hold it.
#[allow(unused_imports)]
use grin_chain as chain;
#[allow(unused_imports)]
use grin_core::core;
#[allow(unused_imports)]
use grin_core::core::hash::{Hash, Hashed};
#[allow(unused_imports)]
use grin_core::core::BlockHeader;
#[allow(unused_imports)]
use grin_p2p as p2p;
#[allow(unused_imports)]
use log::{debug, error, info, trace, warn};
use std::sync::Arc;

pub struct AdapterNode {
	pub chain: Arc<grin_chain::Chain>,
}

impl AdapterNode {
	fn chain(&self) -> Arc<grin_chain::Chain> {
		self.chain.clone()
	}

	/// What the p2p layer calls for a GetHeaders request.
	pub fn serve_locator(&self, locator: &[Hash]) -> Result<Vec<BlockHeader>, grin_chain::Error> {
		self.locate_headers(locator)
	}
}

include!(concat!(env!("OUT_DIR"), "/adapter_extracted.rs"));
