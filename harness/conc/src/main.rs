//! C17 engine: real threads run programs of chain calls (block / header deliveries from several
//! "peers", readers) on one Chain; the cfg(grin_verif) traced RwLock records every lock
//! acquisition with a global sequence number. Output: per scenario the lock log, the per-call log
//! (start/end sequence numbers, results), reader observations and the final projection.
#[allow(dead_code)]
#[path = "../../chain/src/main.rs"]
mod chainmod;
mod adapter_glue;

use chainmod::*;
use grin_chain::Options;
use grin_core::core::hash::Hashed;
use grin_core::core::pmmr;
use grin_core::global::{self, ChainTypes};
use grin_util::verif;
use serde_json::{json, Value};
use std::collections::BTreeMap;
use std::sync::atomic::{AtomicBool, AtomicUsize, Ordering};
use std::sync::{Arc, Mutex};
use std::time::{Duration, Instant};
use vcommon::*;

fn run_one(case: &Value, dir: &str, seed: u64, delay_us: u64) -> Value {
	let _ = std::fs::remove_dir_all(dir);
	std::fs::create_dir_all(dir).unwrap();
	if case["profile"].as_str() == Some("flood") {
		let (w, chain) = flood_world(case, dir);
		return run_threads(case, Arc::new(w), Arc::new(chain), dir, seed, delay_us);
	}
	let w = Arc::new(build_world(case, dir));
	let node_dir = format!("{}/node", dir);
	let chain = Arc::new(init_chain(&node_dir));
	let trunk = case["trunk"].as_u64().unwrap_or(0);
	// (long trunks come as a templated node directory that already holds the trunk)
	if chain.head().unwrap().height < trunk {
		for k in 1..=trunk {
			let _ = chain.process_block(w.blocks[&k].clone(), Options::SKIP_POW);
		}
	}
	run_threads(case, w, chain, dir, seed, delay_us)
}

/// The threads of one scenario on a prepared node: writers run their programs, readers observe.
fn run_threads(case: &Value, w: Arc<World>, chain: Arc<grin_chain::Chain>, dir: &str, seed: u64, delay_us: u64) -> Value {
	let tx_addr = Arc::as_ptr(&chain.txhashset()) as *const () as usize;
	let hp_addr = Arc::as_ptr(&chain.header_pmmr()) as *const () as usize;
	// NB: Arc::as_ptr points at the lock inside the Arc allocation = the address the lock logs
	let _ = verif::take_events();
	verif::trace(true);
	verif::perturb(seed | 1);
	verif::delay_other_writes(delay_us, &[tx_addr, hp_addr]);
	let calls: Arc<Mutex<Vec<Value>>> = Arc::new(Mutex::new(vec![]));
	let panics = Arc::new(AtomicUsize::new(0));
	let stop_readers = Arc::new(AtomicBool::new(false));
	let mut handles = vec![];
	let progs = case["threads"].as_object().unwrap().clone();
	let nwriters = progs.len();
	let done_writers = Arc::new(AtomicUsize::new(0));
	// number of calls each writer has finished (start gates: "start_after": {"2": [1, 212]} = thread 2
	// starts once thread 1 has finished 212 calls)
	let progress: Arc<Vec<AtomicUsize>> = Arc::new((0..=nwriters + 1).map(|_| AtomicUsize::new(0)).collect());
	for (tname, prog) in progs {
		let t: u64 = tname.parse().unwrap();
		let prog = prog.as_array().unwrap().clone();
		let gate: Option<(usize, usize)> = case["start_after"][&tname].as_array().map(|a| (a[0].as_u64().unwrap() as usize, a[1].as_u64().unwrap() as usize));
		let (chain, w, calls, panics, done_writers, progress) = (chain.clone(), w.clone(), calls.clone(), panics.clone(), done_writers.clone(), progress.clone());
		handles.push(std::thread::spawn(move || {
			global::set_local_chain_type(ChainTypes::AutomatedTesting);
			global::set_local_nrd_enabled(true);
			verif::set_thread_tag(t);
			if let Some((t0, k)) = gate {
				while progress[t0].load(Ordering::SeqCst) < k {
					std::thread::sleep(Duration::from_micros(200));
				}
			}
			for (i, op) in prog.iter().enumerate() {
				let k = op["k"].as_str().unwrap().to_string();
				let b = op["b"].as_u64().unwrap();
				let s0 = verif::event("call_start", i);
				let r = std::panic::catch_unwind(std::panic::AssertUnwindSafe(|| match k.as_str() {
					"ProcessBlock" => class_of(&chain.process_block(w.blocks[&b].clone(), Options::SKIP_POW)),
					"Compact" => match chain.compact() {
						Ok(()) => "ok".to_string(),
						Err(_) => "reject".to_string(),
					},
					_ => match chain.process_block_header(&w.blocks[&b].header, Options::SKIP_POW) {
						Ok(()) => "ok".to_string(),
						Err(_) => "reject".to_string(),
					},
				}));
				let res = match r {
					Ok(x) => x,
					Err(_) => {
						panics.fetch_add(1, Ordering::SeqCst);
						"panic".to_string()
					}
				};
				let s1 = verif::event("call_end", i);
				calls.lock().unwrap().push(json!({"t": t, "i": i + 1, "k": k, "b": b, "s0": s0, "s1": s1, "res": res}));
				progress[t as usize].store(i + 1, Ordering::SeqCst);
			}
			done_writers.fetch_add(1, Ordering::SeqCst);
		}));
	}
	// reader threads: get_unspent of every commitment + head(), validate_tx of block transactions
	let nreaders = case["readers"].as_u64().unwrap_or(3);
	// observations per reader thread (long scenarios cap them: the trace grows with every observation)
	let case_reader_cap = case["reader_cap"].as_u64().unwrap_or(4000) as usize;
	let done_others = Arc::new(AtomicUsize::new(0));
	for r in 0..nreaders {
		let t = 100 + r;
		let (chain, w, calls, panics, stop) = (chain.clone(), w.clone(), calls.clone(), panics.clone(), stop_readers.clone());
		let done_others = done_others.clone();
		handles.push(std::thread::spawn(move || {
			let _done = DoneGuard(done_others);
			global::set_local_chain_type(ChainTypes::AutomatedTesting);
			global::set_local_nrd_enabled(true);
			verif::set_thread_tag(t);
			let commits: Vec<(u64, _)> = w.commit_of.iter().map(|(c, k)| (*c, *k)).collect();
			let max_h = w.tree.values().map(|b| b.height).max().unwrap_or(0);
			let mut n = 0usize;
			let mut last_work = 0u64;
			// reader kinds: 0 = get_unspent + UTXO scan, 1 = head, 2 = validate_tx, 3 = header-MMR views
			let kind = r % 4;
			let cap = case_reader_cap;
			while !stop.load(Ordering::SeqCst) && n < cap {
				let (c, commit) = commits[n % commits.len()];
				let res = std::panic::catch_unwind(std::panic::AssertUnwindSafe(|| {
					if kind == 3 {
						// views that involve the header MMR: the header at a height (header_pmmr.read()) and the
						// header of the block that created an unspent output (header_pmmr.read() + txhashset.read()
						// held together); positioned by the header-MMR read-lock acquisition
						let idv = |r: Result<grin_core::core::BlockHeader, grin_chain::Error>| -> i64 {
							match r {
								Ok(h) => w.id_of.get(&h.hash()).map(|x| *x as i64).unwrap_or(-2),
								Err(_) => -1,
							}
						};
						if n % 2 == 0 {
							let h = (n as u64 / 2) % (max_h + 2);
							let s0 = verif::event("hat_start", h as usize);
							let v = chain.get_header_by_height(h);
							let s1 = verif::event("hat_end", h as usize);
							return json!({"t": t, "k": "HdrAt", "h": h, "s0": s0, "s1": s1, "id": idv(v)});
						}
						let (c, commit) = commits[(n / 2) % commits.len()];
						let s0 = verif::event("hfo_start", c as usize);
						let v = chain.get_header_for_output(commit);
						let s1 = verif::event("hfo_end", c as usize);
						return json!({"t": t, "k": "HdrOf", "c": c, "s0": s0, "s1": s1, "id": idv(v)});
					}
					if kind == 2 {
						// validate_tx of a block's transaction under the read locks: Ok iff its inputs are
						// unspent and its outputs are not (positioned by the txhashset read-lock acquisition)
						let ids: Vec<u64> = w.tree.iter().filter(|(_, b)| !b.tx.outs.is_empty() && b.tx2.outs.is_empty() && b.tx.lock < 1000).map(|(id, _)| *id).collect();
						if ids.is_empty() {
							return json!({"t": t, "k": "Noop"});
						}
						let b = ids[n % ids.len()];
						let blk = &w.blocks[&b];
						// the block's transaction = its non-coinbase part
						let tx = grin_core::core::Transaction::new(
							blk.inputs(),
							&blk.outputs().iter().filter(|o| !o.is_coinbase()).cloned().collect::<Vec<_>>(),
							&blk.kernels().iter().filter(|k| !k.is_coinbase()).cloned().collect::<Vec<_>>(),
						);
						let s0 = verif::event("vtx_start", b as usize);
						let v = chain.validate_tx(&tx);
						let s1 = verif::event("vtx_end", b as usize);
						return json!({"t": t, "k": "ValidateTx", "b": b, "s0": s0, "s1": s1, "ok": v.is_ok()});
					}
					if kind == 0 && n % 4 == 3 {
						// the paginated UTXO scan behind the node API: one consistent view of size, outputs and proofs
						let s0 = verif::event("scan_start", 0);
						let v = chain.unspent_outputs_by_pmmr_index(1, 100_000, None);
						let s1 = verif::event("scan_end", 0);
						return match v {
							Ok((highest, _last, outs)) => json!({"t": t, "k": "Scan", "s0": s0, "s1": s1, "ok": true,
								"cnt": outs.len(), "nl": grin_core::core::pmmr::n_leaves(highest)}),
							Err(e) => json!({"t": t, "k": "Scan", "s0": s0, "s1": s1, "ok": false, "cnt": 0, "nl": 0, "err": format!("{:?}", e)}),
						};
					}
					if kind == 0 {
						// read under the txhashset read lock: position in the log = its r_acq event
						let s0 = verif::event("read_start", c as usize);
						let v = chain.get_unspent(commit);
						let s1 = verif::event("read_end", c as usize);
						let val: i64 = match v {
							Ok(Some((_, pos))) => pos.height as i64,
							Ok(None) => -1,
							Err(_) => -2,
						};
						json!({"t": t, "k": "GetUnspent", "c": c, "s0": s0, "s1": s1, "val": val})
					} else {
						// unlocked read of the committed head
						let s0 = verif::event("head_start", 0);
						let h = chain.head();
						let s1 = verif::event("head_end", 0);
						match h {
							Ok(tip) => {
								let stored = chain.get_block(&tip.last_block_h).is_ok() && chain.get_block_header(&tip.last_block_h).is_ok();
								json!({"t": t, "k": "Head", "s0": s0, "s1": s1, "head": w.id_of.get(&tip.last_block_h),
									"work": tip.total_difficulty.to_num(), "stored": stored})
							}
							Err(e) => json!({"t": t, "k": "Head", "s0": s0, "s1": s1, "err": format!("{:?}", e)}),
						}
					}
				}));
				match res {
					Ok(v) => {
						if let Some(wk) = v["work"].as_u64() {
							if wk < last_work {
								calls.lock().unwrap().push(json!({"t": t, "k": "HeadWentBack", "from": last_work, "to": wk}));
							}
							last_work = wk;
						}
						calls.lock().unwrap().push(v);
					}
					Err(_) => {
						panics.fetch_add(1, Ordering::SeqCst);
						calls.lock().unwrap().push(json!({"t": t, "k": "ReaderPanic", "c": c}));
					}
				}
				n += 1;
				if n % 7 == 0 {
					std::thread::sleep(Duration::from_micros(300));
				}
			}
		}));
	}
	// a block-template builder: set_txhashset_roots takes both write locks and runs a read-only
	// extension (rewind to the parent, apply, discard); it must never leak into the committed state
	{
		let (chain, w, panics, stop) = (chain.clone(), w.clone(), panics.clone(), stop_readers.clone());
		let done_others = done_others.clone();
		handles.push(std::thread::spawn(move || {
			let _done = DoneGuard(done_others);
			global::set_local_chain_type(ChainTypes::AutomatedTesting);
			global::set_local_nrd_enabled(true);
			verif::set_thread_tag(200);
			let ids: Vec<u64> = w.blocks.keys().cloned().filter(|b| *b != 0).collect();
			let mut n = 0usize;
			while !stop.load(Ordering::SeqCst) && n < 400 {
				let b = ids[n % ids.len()];
				let mut blk = w.blocks[&b].clone();
				let r = std::panic::catch_unwind(std::panic::AssertUnwindSafe(|| {
					let _ = chain.set_txhashset_roots(&mut blk);
				}));
				if r.is_err() {
					panics.fetch_add(1, Ordering::SeqCst);
				}
				n += 1;
				std::thread::sleep(Duration::from_micros(700));
			}
		}));
	}
	// watchdog: all writers must finish
	let t0 = Instant::now();
	let mut deadlock = false;
	while done_writers.load(Ordering::SeqCst) < nwriters {
		if t0.elapsed() > Duration::from_secs(90) {
			deadlock = true;
			break;
		}
		std::thread::sleep(Duration::from_millis(5));
	}
	stop_readers.store(true, Ordering::SeqCst);
	// ... and so must the readers and the template builder once they are told to stop
	let mut who = "writers";
	if !deadlock {
		let t1 = Instant::now();
		while done_others.load(Ordering::SeqCst) < nreaders as usize + 1 {
			if t1.elapsed() > Duration::from_secs(45) {
				deadlock = true;
				who = "readers";
				break;
			}
			std::thread::sleep(Duration::from_millis(5));
		}
	}
	if deadlock {
		verif::trace(false);
		let ev = verif::take_events();
		let tail: Vec<Value> = ev.iter().rev().take(40).map(|e| json!([e.seq, e.thread, e.kind, e.id])).collect();
		return json!({"deadlock": true, "who": who, "tail": tail, "tx_addr": tx_addr, "hp_addr": hp_addr});
	}
	for h in handles {
		let _ = h.join();
	}
	verif::trace(false);
	verif::perturb(0);
	verif::delay_other_writes(0, &[]);
	let events = verif::take_events();
	// final projection (same fields as the replay projection)
	let head = chain.head().unwrap();
	let mut unspent: BTreeMap<String, u64> = BTreeMap::new();
	for (c, commit) in &w.commit_of {
		if let Ok(Some((_, pos))) = chain.get_unspent(*commit) {
			unspent.insert(c.to_string(), pos.height);
		}
	}
	let mut orph = vec![];
	let mut bodies = vec![];
	let mut hdrs = vec![];
	for (id, b) in &w.blocks {
		if chain.is_orphan(&b.hash()) {
			orph.push(*id);
		}
		if chain.get_block(&b.hash()).is_ok() {
			bodies.push(*id);
		}
		if chain.get_block_header(&b.hash()).is_ok() {
			hdrs.push(*id);
		}
	}
	orph.sort();
	bodies.sort();
	hdrs.sort();
	let validate = format!("{:?}", chain.validate(false));
	let fin = json!({"head": w.id_of.get(&head.last_block_h), "hhead": w.id_of.get(&chain.header_head().unwrap().last_block_h),
		"unspent": unspent, "nleaves": pmmr::n_leaves(chain.txhashset().read().output_mmr_size()),
		"orph": orph, "bodies": bodies, "hdrs": hdrs, "validate": validate});
	let evs: Vec<Value> = events.iter().map(|e| json!([e.seq, e.thread, e.kind, e.id])).collect();
	let calls = calls.lock().unwrap().clone();
	drop(chain);
	// (the directory itself stays: a long-trunk template of this process is addressed through it)
	let _ = std::fs::remove_dir_all(format!("{}/node", dir));
	let _ = std::fs::remove_dir_all(format!("{}/builder", dir));
	json!({"deadlock": false, "panics": panics.load(Ordering::SeqCst), "events": evs, "calls": calls, "final": fin,
		"tx_addr": tx_addr, "hp_addr": hp_addr})
}


/// A block that costs nothing to make: `parent`'s header moved one height up (honest prev_root from the
/// builder's header MMR, sizes grown by one output and one kernel, one unit of work more) over a copy of
/// `body`. Its header is valid, its body is not (roots) - enough to be an orphan candidate.
fn header_variant(builder: &grin_chain::Chain, parent: &grin_core::core::BlockHeader, body: &grin_core::core::TransactionBody, diff: u64) -> grin_core::core::Block {
	let mut h = parent.clone();
	h.height = parent.height + 1;
	h.version = grin_core::consensus::header_version(h.height);
	h.prev_hash = parent.hash();
	h.timestamp = parent.timestamp + chrono::Duration::seconds(60);
	h.output_mmr_size = pmmr::insertion_to_pmmr_index(pmmr::n_leaves(parent.output_mmr_size) + 1);
	h.kernel_mmr_size = pmmr::insertion_to_pmmr_index(pmmr::n_leaves(parent.kernel_mmr_size) + 1);
	h.pow.total_difficulty = parent.pow.total_difficulty + grin_core::pow::Difficulty::from_num(diff);
	// the header hash is the hash of the proof of work: a fresh proof makes a fresh block
	h.pow.proof = grin_core::pow::Proof::random(global::proofsize());
	builder.set_prev_root_only(&mut h).expect("prev root");
	grin_core::core::Block { header: h, body: body.clone() }
}

/// World of the orphan-flood profile: blocks flagged "ok" are real (empty) blocks minted on a builder
/// chain, every other block is a header variant of its parent (valid header, invalid body), so that
/// hundreds of orphan candidates cost milliseconds. The node holds the trunk.
fn flood_world(case: &Value, dir: &str) -> (World, grin_chain::Chain) {
	use grin_core::libtx::{reward, ProofBuilder};
	use grin_keychain::{ExtKeychain, ExtKeychainPath, Keychain};
	let builder = init_chain(&format!("{}/builder", dir));
	let node = init_chain(&format!("{}/node", dir));
	let trunk = case["trunk"].as_u64().unwrap_or(0);
	let g = builder.get_block(&builder.genesis().hash()).unwrap();
	let kc = ExtKeychain::from_seed(&[7u8; 32], false).unwrap();
	let mut tree = BTreeMap::new();
	let entries: Vec<(u64, &Value)> = match &case["tree"] {
		Value::Array(a) => a.iter().enumerate().map(|(i, v)| (i as u64, v)).collect(),
		Value::Object(o) => o.iter().map(|(k, v)| (k.parse().unwrap(), v)).collect(),
		_ => panic!("tree"),
	};
	for (id, v) in entries {
		tree.insert(id, Blk { parent: v["parent"].as_u64().unwrap(), height: v["height"].as_u64().unwrap(), diff: v["diff"].as_u64().unwrap(),
			tx: Default::default(), tx2: Default::default(), flag: v["flag"].as_str().unwrap().to_string() });
	}
	let mut blocks: std::collections::HashMap<u64, grin_core::core::Block> = std::collections::HashMap::new();
	let mut id_of = std::collections::HashMap::new();
	let mut commit_of = BTreeMap::new();
	let mut outputs = std::collections::HashMap::new();
	blocks.insert(0, g.clone());
	id_of.insert(g.hash(), 0);
	commit_of.insert(0, g.outputs()[0].commitment());
	let mut last_body = g.body.clone();
	for (id, b) in &tree {
		if *id == 0 {
			continue;
		}
		let prev = blocks[&b.parent].header.clone();
		let blk = if b.flag == "ok" {
			let key = ExtKeychainPath::new(3, 1, *id as u32, 0, 0).to_identifier();
			let rw = reward::output(&kc, &ProofBuilder::new(&kc), &key, 0, false).unwrap();
			commit_of.insert(*id, rw.0.commitment());
			let mut blk = grin_core::core::Block::new(&prev, &[], grin_core::pow::Difficulty::from_num(b.diff), rw).expect("block new");
			blk.header.timestamp = prev.timestamp + chrono::Duration::seconds(60);
			builder.set_txhashset_roots(&mut blk).expect("roots");
			builder.process_block(blk.clone(), Options::SKIP_POW).expect("builder accepts");
			last_body = blk.body.clone();
			blk
		} else {
			let blk = header_variant(&builder, &prev, &last_body, b.diff);
			builder.process_block_header(&blk.header, Options::SKIP_POW).expect("builder accepts the header");
			blk
		};
		id_of.insert(blk.hash(), *id);
		for o in blk.outputs() {
			outputs.entry(o.commitment()).or_insert_with(|| o.clone());
		}
		blocks.insert(*id, blk);
	}
	for k in 1..=trunk {
		node.process_block(blocks[&k].clone(), Options::SKIP_POW).expect("trunk");
	}
	drop(builder);
	(World { tree, pool: std::collections::HashMap::new(), blocks, id_of, commit_of, outputs }, node)
}

/// Counts a finished thread (also when it unwinds).
struct DoneGuard(Arc<AtomicUsize>);
impl Drop for DoneGuard {
	fn drop(&mut self) {
		self.0.fetch_add(1, Ordering::SeqCst);
	}
}

/// Record the lock protocol of every public operation (single-threaded, one call each).
fn protocols(args: &Args) -> i32 {
	use vcommon::chainkit as ck;
	let dir = args.req("work").to_string();
	let _ = std::fs::remove_dir_all(&dir);
	std::fs::create_dir_all(&dir).unwrap();
	let chain = Arc::new(ck::init_chain(&format!("{}/node", dir)).unwrap());
	// long enough for Chain::compact() to really compact (head >= tail + horizon 20 + 60)
	let blocks = ck::grow_chain(&chain, 1, 84, 2);
	let tx_addr = Arc::as_ptr(&chain.txhashset()) as *const () as usize;
	let hp_addr = Arc::as_ptr(&chain.header_pmmr()) as *const () as usize;
	// material for the calls
	let head = chain.head_header().unwrap();
	let next = {
		let h = head.height + 1;
		let tx = ck::coinbase_fanout_tx(h - 3, ck::cb_value_of(&chain, h - 3), h, 2);
		ck::make_block(&chain, &head, h, 1, &[tx])
	};
	let fork = {
		let prev = blocks[blocks.len() - 2].header.clone();
		ck::make_block(&chain, &prev, 500, 1, &[])
	};
	let some_tx = next.clone();
	let spend = ck::coinbase_fanout_tx(head.height - 3, ck::cb_value_of(&chain, head.height - 3), 900, 2);
	let out_commit = blocks[5].outputs()[0].commitment();
	// a transaction with a no-recent-duplicate kernel whose inputs are unspent (validate_tx reaches its NRD branch)
	let nrd_tx = {
		use grin_core::core::{FeeFields, KernelFeatures, NRDRelativeHeight};
		use grin_core::libtx::{build, ProofBuilder};
		let kc = ck::keychain();
		let pb = ProofBuilder::new(&kc);
		let v = ck::cb_value_of(&chain, head.height - 1);
		let tx = build::transaction(
			KernelFeatures::NoRecentDuplicate { fee: FeeFields::new(0, ck::FEE).unwrap(), relative_height: NRDRelativeHeight::new(1).unwrap() },
			&[build::coinbase_input(v, ck::kid_cb(head.height - 1)), build::output(v - ck::FEE, ck::kid_out(901, 0))],
			&kc,
			&pb,
		)
		.expect("nrd tx");
		tx
	};
	// an unspent output (for merkle proofs): the coinbase of the head block
	let live_commit = blocks[blocks.len() - 1].outputs().iter().find(|o| o.is_coinbase()).unwrap().commitment();
	let live_id = chain.get_unspent(live_commit).unwrap().map(|x| x.0);
	let sid = |h: u8| grin_core::core::SegmentIdentifier { height: h, idx: 0 };
	let _ = verif::take_events();
	verif::set_thread_tag(1);
	verif::trace(true);
	let mut res: Vec<Value> = vec![];
	let okflag = std::cell::Cell::new(true);
	let mut rec = |name: &str, f: &mut dyn FnMut()| {
		let s0 = verif::event("call_start", 0);
		let r = std::panic::catch_unwind(std::panic::AssertUnwindSafe(|| f()));
		let s1 = verif::event("call_end", 0);
		res.push(json!({"op": name, "s0": s0, "s1": s1, "panic": r.is_err(), "ok": okflag.get()}));
		okflag.set(true);
	};
	rec("head", &mut || { let _ = chain.head(); });
	rec("header_head", &mut || { let _ = chain.header_head(); });
	rec("get_unspent", &mut || { let _ = chain.get_unspent(out_commit); });
	rec("get_unspent_output_at", &mut || { let _ = chain.get_unspent_output_at(3); });
	rec("validate_tx", &mut || { let _ = chain.validate_tx(&spend); });
	rec("validate_tx_nrd", &mut || { okflag.set(chain.validate_tx(&nrd_tx).is_ok()); });
	rec("validate_inputs", &mut || { let _ = chain.validate_inputs(&spend.inputs()); });
	rec("verify_coinbase_maturity", &mut || { let _ = chain.verify_coinbase_maturity(&spend.inputs()); });
	rec("verify_tx_lock_height", &mut || { let _ = chain.verify_tx_lock_height(&spend); });
	rec("get_header_by_height", &mut || { let _ = chain.get_header_by_height(3); });
	rec("get_header_for_output", &mut || { okflag.set(chain.get_header_for_output(live_commit).is_ok()); });
	rec("get_output_pos", &mut || { let _ = chain.get_output_pos(&out_commit); });
	rec("unspent_outputs_by_pmmr_index", &mut || { let _ = chain.unspent_outputs_by_pmmr_index(1, 100, None); });
	rec("block_height_range_to_pmmr_indices", &mut || { let _ = chain.block_height_range_to_pmmr_indices(1, None); });
	rec("get_kernel_height", &mut || { let _ = chain.get_kernel_height(&blocks[3].kernels()[0].excess(), None, None); });
	rec("get_header_for_kernel_index", &mut || { let _ = chain.get_header_for_kernel_index(5, None, None); });
	rec("get_last_n_output", &mut || { let _ = chain.get_last_n_output(3); });
	rec("get_last_n_rangeproof", &mut || { let _ = chain.get_last_n_rangeproof(3); });
	rec("get_last_n_kernel", &mut || { let _ = chain.get_last_n_kernel(3); });
	rec("fork_point", &mut || { let _ = chain.fork_point(); });
	rec("txhashset_archive_header_header_only", &mut || { let _ = chain.txhashset_archive_header_header_only(); });
	// a GetHeaders request served by the network adapter (its own guard on the chain's header-MMR lock handle)
	{
		let node = adapter_glue::AdapterNode { chain: chain.clone() };
		let locator = vec![blocks[60].hash(), blocks[20].hash(), chain.genesis().hash()];
		rec("adapter_locate_headers", &mut || { okflag.set(node.serve_locator(&locator).map(|v| !v.is_empty()).unwrap_or(false)); });
	}
	rec("get_merkle_proof_for_pos", &mut || { let _ = chain.get_merkle_proof_for_pos(out_commit); });
	if let Some(id) = live_id.clone() {
		rec("get_merkle_proof", &mut || { okflag.set(chain.get_merkle_proof(&id, &head).is_ok()); });
	}
	rec("set_txhashset_roots", &mut || { let mut b = some_tx.clone(); let _ = chain.set_txhashset_roots(&mut b); });
	rec("set_prev_root_only", &mut || { let mut h = some_tx.header.clone(); let _ = chain.set_prev_root_only(&mut h); });
	rec("is_known", &mut || { let _ = chain.is_known(&head); });
	rec("validate_fast", &mut || { let _ = chain.validate(true); });
	rec("validate_full", &mut || { okflag.set(chain.validate(false).is_ok()); });
	rec("segmenter", &mut || { let _ = chain.segmenter(); });
	// serving state to a syncing peer: the four segment kinds of the cached segmenter and the zip archive
	if let Ok(sg) = chain.segmenter() {
		rec("segment_bitmap", &mut || { okflag.set(sg.bitmap_segment(sid(9)).is_ok()); });
		rec("segment_output", &mut || { okflag.set(sg.output_segment(sid(11)).is_ok()); });
		rec("segment_rangeproof", &mut || { okflag.set(sg.rangeproof_segment(sid(11)).is_ok()); });
		rec("segment_kernel", &mut || { okflag.set(sg.kernel_segment(sid(11)).is_ok()); });
	}
	rec("txhashset_archive_header", &mut || { let _ = chain.txhashset_archive_header(); });
	if let Ok(arch) = chain.txhashset_archive_header() {
		rec("txhashset_read", &mut || { okflag.set(chain.txhashset_read(arch.hash()).is_ok()); });
	}
	let tail0 = chain.tail().map(|t| t.height).unwrap_or(0);
	rec("compact", &mut || { let _ = chain.compact(); });
	let compacted = chain.tail().map(|t| t.height).unwrap_or(0) > tail0;
	rec("get_locator_hashes", &mut || { let _ = chain.get_locator_hashes(chain.header_head().unwrap(), &[8, 4, 0]); });
	rec("process_block_header", &mut || { let _ = chain.process_block_header(&next.header, Options::SKIP_POW); });
	rec("process_block_fork", &mut || { let _ = chain.process_block(fork.clone(), Options::SKIP_POW); });
	rec("process_block_next", &mut || { let _ = chain.process_block(next.clone(), Options::SKIP_POW); });
	rec("process_block_known", &mut || { let _ = chain.process_block(next.clone(), Options::SKIP_POW); });
	rec("sync_block_headers", &mut || { let _ = chain.sync_block_headers(&[fork.header.clone()], chain.header_head().unwrap(), Options::SKIP_POW); });
	// a delivery that ends in the orphan pool (parent header known, parent body missing) ...
	{
		let hh = chain.head_header().unwrap();
		let b1 = header_variant(&chain, &hh, &next.body, 1);
		let _ = chain.process_block_header(&b1.header, Options::SKIP_POW);
		let b2 = header_variant(&chain, &b1.header, &next.body, 1);
		rec("process_block_orphan", &mut || {
			let r = chain.process_block(b2.clone(), Options::SKIP_POW);
			if std::env::var("H_CONC_DEBUG").is_ok() {
				eprintln!("process_block_orphan: {:?} head {:?} b1 {} {:?} b2 {} {:?} exists {:?}", r.as_ref().map(|_| ()), chain.head(), b1.hash(), b1.header.pow.total_difficulty, b2.hash(), b2.header.pow.total_difficulty, chain.block_exists(b2.hash()));
			}
			okflag.set(matches!(r, Err(grin_chain::Error::Orphan)));
		});
	}
	// ... and one that reorganises the chain (a heavier sibling of the head)
	{
		let prev = chain.get_previous_header(&chain.head_header().unwrap()).unwrap();
		let heavy = ck::make_block(&chain, &prev, 501, 7, &[]);
		let before = chain.head().unwrap().last_block_h;
		rec("process_block_reorg", &mut || {
			let _ = chain.process_block(heavy.clone(), Options::SKIP_POW);
			let after = chain.head().unwrap();
			okflag.set(after.last_block_h == heavy.hash() && after.last_block_h != before);
		});
	}
	// the owner API's resets
	rec("reset_chain_head", &mut || { okflag.set(chain.reset_chain_head(chain.head().unwrap(), true).is_ok()); });
	// the state-sync (PIBD) side works on the same two locks through the desegmenter's own handles
	if let Ok(arch) = chain.txhashset_archive_header() {
		rec("desegmenter", &mut || { let _ = chain.desegmenter(&arch); });
		if let Ok(d) = chain.desegmenter(&arch) {
			let status = Arc::new(grin_chain::SyncState::new());
			rec("deseg_check_progress", &mut || {
				if let Some(x) = d.write().as_mut() {
					let _ = x.check_progress(status.clone());
				}
			});
			rec("deseg_check_update_leaf_set_state", &mut || {
				if let Some(x) = d.write().as_mut() {
					let _ = x.check_update_leaf_set_state();
				}
			});
			rec("deseg_next_desired_segments", &mut || {
				if let Some(x) = d.write().as_mut() {
					let _ = x.next_desired_segments(10);
				}
			});
			rec("deseg_apply_next_segments", &mut || {
				if let Some(x) = d.write().as_mut() {
					let _ = x.apply_next_segments();
				}
			});
		}
	}
	rec("reset_pibd_head", &mut || { okflag.set(chain.reset_pibd_head().is_ok()); });
	rec("reset_prune_lists", &mut || { okflag.set(chain.reset_prune_lists().is_ok()); });
	rec("reset_chain_head_to_genesis", &mut || { okflag.set(chain.reset_chain_head_to_genesis().is_ok()); });
	verif::trace(false);
	let events = verif::take_events();
	let evs: Vec<Value> = events.iter().map(|e| json!([e.seq, e.thread, e.kind, e.id])).collect();
	println!("{}", json!({"calls": res, "events": evs, "tx_addr": tx_addr, "hp_addr": hp_addr, "compacted": compacted}));
	let _ = std::fs::remove_dir_all(&dir);
	0
}

/// Directed schedule for the orphan-pool insertion window predicted by ChainConc.tla (StepK / StepKA):
/// thread 1 delivers a child whose parent body is missing and is slowed down right before it
/// inserts the child into the orphan pool; thread 2 delivers the parent meanwhile (its retry loop
/// finds the pool still empty). Reports whether the child ends up stranded.
fn race(args: &Args) -> i32 {
	use vcommon::chainkit as ck;
	let dir = args.req("work").to_string();
	let delay = args.u64("delay-us", 600_000);
	let _ = std::fs::remove_dir_all(&dir);
	std::fs::create_dir_all(&dir).unwrap();
	// blocks are built on a builder node, the node under test gets headers first
	let builder = ck::init_chain(&format!("{}/builder", dir)).unwrap();
	let blocks = ck::grow_chain(&builder, 1, 8, 0);
	let chain = Arc::new(ck::init_chain(&format!("{}/node", dir)).unwrap());
	for b in &blocks[..3] {
		chain.process_block(b.clone(), Options::SKIP_POW).unwrap();
	}
	let parent = blocks[3].clone();
	let child = blocks[4].clone();
	chain.process_block_header(&parent.header, Options::SKIP_POW).unwrap();
	chain.process_block_header(&child.header, Options::SKIP_POW).unwrap();
	let tx_addr = Arc::as_ptr(&chain.txhashset()) as *const () as usize;
	let hp_addr = Arc::as_ptr(&chain.header_pmmr()) as *const () as usize;
	// find the orphan pool's lock: deliver an unrelated far-ahead orphan with tracing on; the pool is the
	// first write lock (other than the chain locks) that is held while another write lock is taken
	for b in &blocks[5..8] {
		chain.process_block_header(&b.header, Options::SKIP_POW).unwrap();
	}
	let _ = verif::take_events();
	verif::set_thread_tag(9);
	verif::trace(true);
	let _ = chain.process_block(blocks[7].clone(), Options::SKIP_POW);
	verif::trace(false);
	let ev = verif::take_events();
	let mut held: Vec<usize> = vec![];
	let mut pool_lock = 0usize;
	for e in &ev {
		match e.kind {
			"w_acq" => {
				if let Some(outer) = held.last() {
					if *outer != tx_addr && *outer != hp_addr && e.id != tx_addr && e.id != hp_addr && pool_lock == 0 {
						pool_lock = *outer;
					}
				}
				held.push(e.id);
			}
			"w_rel" => {
				if let Some(p) = held.iter().rposition(|x| *x == e.id) {
					held.remove(p);
				}
			}
			_ => {}
		}
	}
	if pool_lock == 0 {
		println!("{}", json!({"error": "orphan pool lock not identified"}));
		return 0;
	}
	verif::delay_only_locks(&[pool_lock]);
	verif::delay_only_thread(1);
	verif::delay_other_writes(delay, &[tx_addr, hp_addr]);
	let c1 = chain.clone();
	let ch = child.clone();
	let t1 = std::thread::spawn(move || {
		global::set_local_chain_type(ChainTypes::AutomatedTesting);
		verif::set_thread_tag(1);
		class_of(&c1.process_block(ch, Options::SKIP_POW))
	});
	let c2 = chain.clone();
	let pa = parent.clone();
	let d2 = delay;
	let t2 = std::thread::spawn(move || {
		global::set_local_chain_type(ChainTypes::AutomatedTesting);
		verif::set_thread_tag(2);
		std::thread::sleep(Duration::from_micros(d2 / 4));
		class_of(&c2.process_block(pa, Options::SKIP_POW))
	});
	let r1 = t1.join().unwrap_or_else(|_| "panic".into());
	let r2 = t2.join().unwrap_or_else(|_| "panic".into());
	verif::delay_other_writes(0, &[]);
	verif::delay_only_thread(0);
	verif::delay_only_locks(&[]);
	let stranded = chain.is_orphan(&child.hash()) && chain.get_block(&parent.hash()).is_ok() && chain.get_block(&child.hash()).is_err();
	println!("{}", json!({"child_result": r1, "parent_result": r2, "head_height": chain.head().unwrap().height,
		"child_in_orphan_pool": chain.is_orphan(&child.hash()), "parent_stored": chain.get_block(&parent.hash()).is_ok(),
		"child_stored": chain.get_block(&child.hash()).is_ok(), "stranded": stranded}));
	let _ = std::fs::remove_dir_all(&dir);
	0
}

/// Directed, single-threaded probe of a two-lock view: the body head is A4, the header head is on the heavier
/// header-only fork B4-B5; which header does get_header_for_output return for A4's coinbase?
fn hfo(args: &Args) -> i32 {
	use vcommon::chainkit as ck;
	let dir = args.req("work").to_string();
	let _ = std::fs::remove_dir_all(&dir);
	std::fs::create_dir_all(&dir).unwrap();
	let builder = ck::init_chain(&format!("{}/builder", dir)).unwrap();
	let trunk = ck::grow_chain(&builder, 1, 3, 0);
	let h3 = trunk[2].header.clone();
	let a4 = ck::make_block(&builder, &h3, 4, 1, &[]);
	builder.process_block(a4.clone(), Options::SKIP_POW).unwrap();
	let b4 = ck::make_block(&builder, &h3, 5, 2, &[]);
	builder.process_block(b4.clone(), Options::SKIP_POW).unwrap();
	let b5 = ck::make_block(&builder, &b4.header, 6, 2, &[]);
	let chain = ck::init_chain(&format!("{}/node", dir)).unwrap();
	for b in trunk.iter().chain(std::iter::once(&a4)) {
		chain.process_block(b.clone(), Options::SKIP_POW).unwrap();
	}
	let r1 = chain.process_block_header(&b4.header, Options::SKIP_POW).is_ok();
	let r2 = chain.process_block_header(&b5.header, Options::SKIP_POW).is_ok();
	let commit = a4.outputs().iter().find(|o| o.is_coinbase()).unwrap().commitment();
	let name = |h: &grin_core::core::hash::Hash| {
		if *h == a4.hash() { "A4" } else if *h == b4.hash() { "B4" } else if *h == b5.hash() { "B5" } else { "other" }
	};
	let head = chain.head().unwrap();
	let hhead = chain.header_head().unwrap();
	let unspent_height = chain.get_unspent(commit).ok().flatten().map(|x| x.1.height);
	let out = match chain.get_header_for_output(commit) {
		Ok(h) => json!({"returned": name(&h.hash()), "returned_height": h.height, "created_by": "A4", "contains_output": h.hash() == a4.hash(),
			"head": name(&head.last_block_h), "header_head": name(&hhead.last_block_h), "headers_accepted": [r1, r2], "unspent_at_height": unspent_height}),
		Err(e) => json!({"returned": format!("error: {:?}", e), "created_by": "A4", "contains_output": true, "errored": true,
			"head": name(&head.last_block_h), "header_head": name(&hhead.last_block_h), "headers_accepted": [r1, r2], "unspent_at_height": unspent_height}),
	};
	println!("{}", out);
	drop(chain);
	drop(builder);
	let _ = std::fs::remove_dir_all(&dir);
	0
}

fn main() {
	quiet_panics();
	global::set_local_chain_type(ChainTypes::AutomatedTesting);
	global::set_local_nrd_enabled(true);
	let a: Vec<String> = std::env::args().skip(1).collect();
	let args = Args::parse(&a);
	if args.pos.get(0).map(|s| s.as_str()) == Some("protocols") {
		std::process::exit(protocols(&args));
	}
	if args.pos.get(0).map(|s| s.as_str()) == Some("race") {
		std::process::exit(race(&args));
	}
	if args.pos.get(0).map(|s| s.as_str()) == Some("hfo") {
		std::process::exit(hfo(&args));
	}
	let cases = read_ndjson(args.req("cases"));
	let mut out = NdWriter::create(args.req("out"));
	let work = args.req("work").to_string();
	let seed = args.u64("seed", 1);
	let delay = args.u64("delay-us", 0);
	for (i, c) in cases.iter().enumerate() {
		let r = run_one(c, &format!("{}/c{}", work, i), seed.wrapping_add(i as u64 * 7919), delay);
		out.put(&r);
	}
	out.finish();
}
