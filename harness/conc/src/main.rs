//! C17 engine: real threads run programs of chain calls (block / header deliveries from several
//! "peers", readers) on one Chain; the cfg(grin_verif) traced RwLock records every lock
//! acquisition with a global sequence number. Output: per scenario the lock log, the per-call log
//! (start/end sequence numbers, results), reader observations and the final projection.
#[allow(dead_code)]
#[path = "../../chain/src/main.rs"]
mod chainmod;

use chainmod::*;
use grin_chain::Options;
use grin_core::core::hash::Hashed;
use grin_core::core::pmmr;
use grin_core::global::{self, ChainTypes};
use grin_util::verif;
use serde_json::{json, Value};
use std::collections::BTreeMap;
use std::sync::atomic::{AtomicBool, AtomicUsize, Ordering};
use std::sync::{Arc, Mutex};
use std::time::{Duration, Instant};
use vcommon::*;

fn run_one(case: &Value, dir: &str, seed: u64, delay_us: u64) -> Value {
	let _ = std::fs::remove_dir_all(dir);
	std::fs::create_dir_all(dir).unwrap();
	let w = Arc::new(build_world(case, dir));
	let node_dir = format!("{}/node", dir);
	let chain = Arc::new(init_chain(&node_dir));
	let trunk = case["trunk"].as_u64().unwrap_or(0);
	for k in 1..=trunk {
		let _ = chain.process_block(w.blocks[&k].clone(), Options::SKIP_POW);
	}
	let tx_addr = Arc::as_ptr(&chain.txhashset()) as *const () as usize;
	let hp_addr = Arc::as_ptr(&chain.header_pmmr()) as *const () as usize;
	// NB: Arc::as_ptr points at the lock inside the Arc allocation = the address the lock logs
	let _ = verif::take_events();
	verif::trace(true);
	verif::perturb(seed | 1);
	verif::delay_other_writes(delay_us, &[tx_addr, hp_addr]);
	let calls: Arc<Mutex<Vec<Value>>> = Arc::new(Mutex::new(vec![]));
	let panics = Arc::new(AtomicUsize::new(0));
	let stop_readers = Arc::new(AtomicBool::new(false));
	let mut handles = vec![];
	let progs = case["threads"].as_object().unwrap().clone();
	let nwriters = progs.len();
	let done_writers = Arc::new(AtomicUsize::new(0));
	for (tname, prog) in progs {
		let t: u64 = tname.parse().unwrap();
		let prog = prog.as_array().unwrap().clone();
		let (chain, w, calls, panics, done_writers) = (chain.clone(), w.clone(), calls.clone(), panics.clone(), done_writers.clone());
		handles.push(std::thread::spawn(move || {
			global::set_local_chain_type(ChainTypes::AutomatedTesting);
			global::set_local_nrd_enabled(true);
			verif::set_thread_tag(t);
			for (i, op) in prog.iter().enumerate() {
				let k = op["k"].as_str().unwrap().to_string();
				let b = op["b"].as_u64().unwrap();
				let s0 = verif::event("call_start", i);
				let r = std::panic::catch_unwind(std::panic::AssertUnwindSafe(|| match k.as_str() {
					"ProcessBlock" => class_of(&chain.process_block(w.blocks[&b].clone(), Options::SKIP_POW)),
					_ => match chain.process_block_header(&w.blocks[&b].header, Options::SKIP_POW) {
						Ok(()) => "ok".to_string(),
						Err(_) => "reject".to_string(),
					},
				}));
				let res = match r {
					Ok(x) => x,
					Err(_) => {
						panics.fetch_add(1, Ordering::SeqCst);
						"panic".to_string()
					}
				};
				let s1 = verif::event("call_end", i);
				calls.lock().unwrap().push(json!({"t": t, "i": i + 1, "k": k, "b": b, "s0": s0, "s1": s1, "res": res}));
			}
			done_writers.fetch_add(1, Ordering::SeqCst);
		}));
	}
	// reader threads: get_unspent of every commitment + head(), validate_tx of block transactions
	let nreaders = case["readers"].as_u64().unwrap_or(3);
	for r in 0..nreaders {
		let t = 100 + r;
		let (chain, w, calls, panics, stop) = (chain.clone(), w.clone(), calls.clone(), panics.clone(), stop_readers.clone());
		handles.push(std::thread::spawn(move || {
			global::set_local_chain_type(ChainTypes::AutomatedTesting);
			global::set_local_nrd_enabled(true);
			verif::set_thread_tag(t);
			let commits: Vec<(u64, _)> = w.commit_of.iter().map(|(c, k)| (*c, *k)).collect();
			let mut n = 0usize;
			let mut last_work = 0u64;
			while !stop.load(Ordering::SeqCst) && n < 4000 {
				let (c, commit) = commits[n % commits.len()];
				let res = std::panic::catch_unwind(std::panic::AssertUnwindSafe(|| {
					if r % 3 == 2 {
						// validate_tx of a block's transaction under the read locks: Ok iff its inputs are
						// unspent and its outputs are not (positioned by the txhashset read-lock acquisition)
						let ids: Vec<u64> = w.tree.iter().filter(|(_, b)| !b.outs.is_empty() && b.lock < 1000).map(|(id, _)| *id).collect();
						if ids.is_empty() {
							return json!({"t": t, "k": "Noop"});
						}
						let b = ids[n % ids.len()];
						let blk = &w.blocks[&b];
						// the block's transaction = its non-coinbase part
						let tx = grin_core::core::Transaction::new(
							blk.inputs(),
							&blk.outputs().iter().filter(|o| !o.is_coinbase()).cloned().collect::<Vec<_>>(),
							&blk.kernels().iter().filter(|k| !k.is_coinbase()).cloned().collect::<Vec<_>>(),
						);
						let s0 = verif::event("vtx_start", b as usize);
						let v = chain.validate_tx(&tx);
						let s1 = verif::event("vtx_end", b as usize);
						return json!({"t": t, "k": "ValidateTx", "b": b, "s0": s0, "s1": s1, "ok": v.is_ok()});
					}
					if r % 3 == 0 && n % 4 == 3 {
						// the paginated UTXO scan behind the node API: one consistent view of size, outputs and proofs
						let s0 = verif::event("scan_start", 0);
						let v = chain.unspent_outputs_by_pmmr_index(1, 100_000, None);
						let s1 = verif::event("scan_end", 0);
						return match v {
							Ok((highest, _last, outs)) => json!({"t": t, "k": "Scan", "s0": s0, "s1": s1, "ok": true,
								"cnt": outs.len(), "nl": grin_core::core::pmmr::n_leaves(highest)}),
							Err(e) => json!({"t": t, "k": "Scan", "s0": s0, "s1": s1, "ok": false, "cnt": 0, "nl": 0, "err": format!("{:?}", e)}),
						};
					}
					if r % 3 == 0 {
						// read under the txhashset read lock: position in the log = its r_acq event
						let s0 = verif::event("read_start", c as usize);
						let v = chain.get_unspent(commit);
						let s1 = verif::event("read_end", c as usize);
						let val: i64 = match v {
							Ok(Some((_, pos))) => pos.height as i64,
							Ok(None) => -1,
							Err(_) => -2,
						};
						json!({"t": t, "k": "GetUnspent", "c": c, "s0": s0, "s1": s1, "val": val})
					} else {
						// unlocked read of the committed head
						let s0 = verif::event("head_start", 0);
						let h = chain.head();
						let s1 = verif::event("head_end", 0);
						match h {
							Ok(tip) => {
								let stored = chain.get_block(&tip.last_block_h).is_ok() && chain.get_block_header(&tip.last_block_h).is_ok();
								json!({"t": t, "k": "Head", "s0": s0, "s1": s1, "head": w.id_of.get(&tip.last_block_h),
									"work": tip.total_difficulty.to_num(), "stored": stored})
							}
							Err(e) => json!({"t": t, "k": "Head", "s0": s0, "s1": s1, "err": format!("{:?}", e)}),
						}
					}
				}));
				match res {
					Ok(v) => {
						if let Some(wk) = v["work"].as_u64() {
							if wk < last_work {
								calls.lock().unwrap().push(json!({"t": t, "k": "HeadWentBack", "from": last_work, "to": wk}));
							}
							last_work = wk;
						}
						calls.lock().unwrap().push(v);
					}
					Err(_) => {
						panics.fetch_add(1, Ordering::SeqCst);
						calls.lock().unwrap().push(json!({"t": t, "k": "ReaderPanic", "c": c}));
					}
				}
				n += 1;
				if n % 7 == 0 {
					std::thread::sleep(Duration::from_micros(300));
				}
			}
		}));
	}
	// a block-template builder: set_txhashset_roots takes both write locks and runs a read-only
	// extension (rewind to the parent, apply, discard); it must never leak into the committed state
	{
		let (chain, w, panics, stop) = (chain.clone(), w.clone(), panics.clone(), stop_readers.clone());
		handles.push(std::thread::spawn(move || {
			global::set_local_chain_type(ChainTypes::AutomatedTesting);
			global::set_local_nrd_enabled(true);
			verif::set_thread_tag(200);
			let ids: Vec<u64> = w.blocks.keys().cloned().filter(|b| *b != 0).collect();
			let mut n = 0usize;
			while !stop.load(Ordering::SeqCst) && n < 400 {
				let b = ids[n % ids.len()];
				let mut blk = w.blocks[&b].clone();
				let r = std::panic::catch_unwind(std::panic::AssertUnwindSafe(|| {
					let _ = chain.set_txhashset_roots(&mut blk);
				}));
				if r.is_err() {
					panics.fetch_add(1, Ordering::SeqCst);
				}
				n += 1;
				std::thread::sleep(Duration::from_micros(700));
			}
		}));
	}
	// watchdog: all writers must finish
	let t0 = Instant::now();
	let mut deadlock = false;
	while done_writers.load(Ordering::SeqCst) < nwriters {
		if t0.elapsed() > Duration::from_secs(90) {
			deadlock = true;
			break;
		}
		std::thread::sleep(Duration::from_millis(5));
	}
	stop_readers.store(true, Ordering::SeqCst);
	if deadlock {
		verif::trace(false);
		let ev = verif::take_events();
		let tail: Vec<Value> = ev.iter().rev().take(40).map(|e| json!([e.seq, e.thread, e.kind, e.id])).collect();
		return json!({"deadlock": true, "tail": tail, "tx_addr": tx_addr, "hp_addr": hp_addr});
	}
	for h in handles {
		let _ = h.join();
	}
	verif::trace(false);
	verif::perturb(0);
	verif::delay_other_writes(0, &[]);
	let events = verif::take_events();
	// final projection (same fields as the replay projection)
	let head = chain.head().unwrap();
	let mut unspent: BTreeMap<String, u64> = BTreeMap::new();
	for (c, commit) in &w.commit_of {
		if let Ok(Some((_, pos))) = chain.get_unspent(*commit) {
			unspent.insert(c.to_string(), pos.height);
		}
	}
	let mut orph = vec![];
	let mut bodies = vec![];
	let mut hdrs = vec![];
	for (id, b) in &w.blocks {
		if chain.is_orphan(&b.hash()) {
			orph.push(*id);
		}
		if chain.get_block(&b.hash()).is_ok() {
			bodies.push(*id);
		}
		if chain.get_block_header(&b.hash()).is_ok() {
			hdrs.push(*id);
		}
	}
	orph.sort();
	bodies.sort();
	hdrs.sort();
	let validate = format!("{:?}", chain.validate(false));
	let fin = json!({"head": w.id_of.get(&head.last_block_h), "hhead": w.id_of.get(&chain.header_head().unwrap().last_block_h),
		"unspent": unspent, "nleaves": pmmr::n_leaves(chain.txhashset().read().output_mmr_size()),
		"orph": orph, "bodies": bodies, "hdrs": hdrs, "validate": validate});
	let evs: Vec<Value> = events.iter().map(|e| json!([e.seq, e.thread, e.kind, e.id])).collect();
	let calls = calls.lock().unwrap().clone();
	drop(chain);
	let _ = std::fs::remove_dir_all(dir);
	json!({"deadlock": false, "panics": panics.load(Ordering::SeqCst), "events": evs, "calls": calls, "final": fin,
		"tx_addr": tx_addr, "hp_addr": hp_addr})
}

/// Record the lock protocol of every public operation (single-threaded, one call each).
fn protocols(args: &Args) -> i32 {
	use vcommon::chainkit as ck;
	let dir = args.req("work").to_string();
	let _ = std::fs::remove_dir_all(&dir);
	std::fs::create_dir_all(&dir).unwrap();
	let chain = ck::init_chain(&format!("{}/node", dir)).unwrap();
	// long enough for Chain::compact() to really compact (head >= tail + horizon 20 + 60)
	let blocks = ck::grow_chain(&chain, 1, 84, 2);
	let tx_addr = Arc::as_ptr(&chain.txhashset()) as *const () as usize;
	let hp_addr = Arc::as_ptr(&chain.header_pmmr()) as *const () as usize;
	// material for the calls
	let head = chain.head_header().unwrap();
	let next = {
		let h = head.height + 1;
		let tx = ck::coinbase_fanout_tx(h - 3, ck::cb_value_of(&chain, h - 3), h, 2);
		ck::make_block(&chain, &head, h, 1, &[tx])
	};
	let fork = {
		let prev = blocks[blocks.len() - 2].header.clone();
		ck::make_block(&chain, &prev, 500, 1, &[])
	};
	let some_tx = next.clone();
	let spend = ck::coinbase_fanout_tx(head.height - 3, ck::cb_value_of(&chain, head.height - 3), 900, 2);
	let out_commit = blocks[5].outputs()[0].commitment();
	let _ = verif::take_events();
	verif::set_thread_tag(1);
	verif::trace(true);
	let mut res: Vec<Value> = vec![];
	let mut rec = |name: &str, f: &mut dyn FnMut()| {
		let s0 = verif::event("call_start", 0);
		let r = std::panic::catch_unwind(std::panic::AssertUnwindSafe(|| f()));
		let s1 = verif::event("call_end", 0);
		res.push(json!({"op": name, "s0": s0, "s1": s1, "panic": r.is_err()}));
	};
	rec("head", &mut || { let _ = chain.head(); });
	rec("header_head", &mut || { let _ = chain.header_head(); });
	rec("get_unspent", &mut || { let _ = chain.get_unspent(out_commit); });
	rec("get_unspent_output_at", &mut || { let _ = chain.get_unspent_output_at(3); });
	rec("validate_tx", &mut || { let _ = chain.validate_tx(&spend); });
	rec("validate_inputs", &mut || { let _ = chain.validate_inputs(&spend.inputs()); });
	rec("verify_coinbase_maturity", &mut || { let _ = chain.verify_coinbase_maturity(&spend.inputs()); });
	rec("verify_tx_lock_height", &mut || { let _ = chain.verify_tx_lock_height(&spend); });
	rec("get_header_by_height", &mut || { let _ = chain.get_header_by_height(3); });
	rec("get_header_for_output", &mut || { let _ = chain.get_header_for_output(out_commit); });
	rec("get_output_pos", &mut || { let _ = chain.get_output_pos(&out_commit); });
	rec("unspent_outputs_by_pmmr_index", &mut || { let _ = chain.unspent_outputs_by_pmmr_index(1, 100, None); });
	rec("block_height_range_to_pmmr_indices", &mut || { let _ = chain.block_height_range_to_pmmr_indices(1, None); });
	rec("get_kernel_height", &mut || { let _ = chain.get_kernel_height(&blocks[3].kernels()[0].excess(), None, None); });
	rec("get_merkle_proof_for_pos", &mut || { let _ = chain.get_merkle_proof_for_pos(out_commit); });
	rec("set_txhashset_roots", &mut || { let mut b = some_tx.clone(); let _ = chain.set_txhashset_roots(&mut b); });
	rec("set_prev_root_only", &mut || { let mut h = some_tx.header.clone(); let _ = chain.set_prev_root_only(&mut h); });
	rec("is_known", &mut || { let _ = chain.is_known(&head); });
	rec("validate_fast", &mut || { let _ = chain.validate(true); });
	rec("segmenter", &mut || { let _ = chain.segmenter(); });
	rec("txhashset_archive_header", &mut || { let _ = chain.txhashset_archive_header(); });
	rec("compact", &mut || { let _ = chain.compact(); });
	rec("get_locator_hashes", &mut || { let _ = chain.get_locator_hashes(chain.header_head().unwrap(), &[8, 4, 0]); });
	rec("process_block_header", &mut || { let _ = chain.process_block_header(&next.header, Options::SKIP_POW); });
	rec("process_block_fork", &mut || { let _ = chain.process_block(fork.clone(), Options::SKIP_POW); });
	rec("process_block_next", &mut || { let _ = chain.process_block(next.clone(), Options::SKIP_POW); });
	rec("process_block_known", &mut || { let _ = chain.process_block(next.clone(), Options::SKIP_POW); });
	rec("sync_block_headers", &mut || { let _ = chain.sync_block_headers(&[fork.header.clone()], chain.header_head().unwrap(), Options::SKIP_POW); });
	// the state-sync (PIBD) side works on the same two locks through the desegmenter's own handles
	if let Ok(arch) = chain.txhashset_archive_header() {
		rec("desegmenter", &mut || { let _ = chain.desegmenter(&arch); });
		if let Ok(d) = chain.desegmenter(&arch) {
			let status = Arc::new(grin_chain::SyncState::new());
			rec("deseg_check_progress", &mut || {
				if let Some(x) = d.write().as_mut() {
					let _ = x.check_progress(status.clone());
				}
			});
			rec("deseg_check_update_leaf_set_state", &mut || {
				if let Some(x) = d.write().as_mut() {
					let _ = x.check_update_leaf_set_state();
				}
			});
			rec("deseg_next_desired_segments", &mut || {
				if let Some(x) = d.write().as_mut() {
					let _ = x.next_desired_segments(10);
				}
			});
			rec("deseg_apply_next_segments", &mut || {
				if let Some(x) = d.write().as_mut() {
					let _ = x.apply_next_segments();
				}
			});
		}
	}
	verif::trace(false);
	let events = verif::take_events();
	let evs: Vec<Value> = events.iter().map(|e| json!([e.seq, e.thread, e.kind, e.id])).collect();
	println!("{}", json!({"calls": res, "events": evs, "tx_addr": tx_addr, "hp_addr": hp_addr}));
	let _ = std::fs::remove_dir_all(&dir);
	0
}

/// Directed schedule for the orphan-pool insertion window predicted by ChainConc.tla (StepK / StepKA):
/// thread 1 delivers a child whose parent body is missing and is slowed down right before it
/// inserts the child into the orphan pool; thread 2 delivers the parent meanwhile (its retry loop
/// finds the pool still empty). Reports whether the child ends up stranded.
fn race(args: &Args) -> i32 {
	use vcommon::chainkit as ck;
	let dir = args.req("work").to_string();
	let delay = args.u64("delay-us", 600_000);
	let _ = std::fs::remove_dir_all(&dir);
	std::fs::create_dir_all(&dir).unwrap();
	// blocks are built on a builder node, the node under test gets headers first
	let builder = ck::init_chain(&format!("{}/builder", dir)).unwrap();
	let blocks = ck::grow_chain(&builder, 1, 8, 0);
	let chain = Arc::new(ck::init_chain(&format!("{}/node", dir)).unwrap());
	for b in &blocks[..3] {
		chain.process_block(b.clone(), Options::SKIP_POW).unwrap();
	}
	let parent = blocks[3].clone();
	let child = blocks[4].clone();
	chain.process_block_header(&parent.header, Options::SKIP_POW).unwrap();
	chain.process_block_header(&child.header, Options::SKIP_POW).unwrap();
	let tx_addr = Arc::as_ptr(&chain.txhashset()) as *const () as usize;
	let hp_addr = Arc::as_ptr(&chain.header_pmmr()) as *const () as usize;
	// find the orphan pool's lock: deliver an unrelated far-ahead orphan with tracing on; the pool is the
	// first write lock (other than the chain locks) that is held while another write lock is taken
	for b in &blocks[5..8] {
		chain.process_block_header(&b.header, Options::SKIP_POW).unwrap();
	}
	let _ = verif::take_events();
	verif::set_thread_tag(9);
	verif::trace(true);
	let _ = chain.process_block(blocks[7].clone(), Options::SKIP_POW);
	verif::trace(false);
	let ev = verif::take_events();
	let mut held: Vec<usize> = vec![];
	let mut pool_lock = 0usize;
	for e in &ev {
		match e.kind {
			"w_acq" => {
				if let Some(outer) = held.last() {
					if *outer != tx_addr && *outer != hp_addr && e.id != tx_addr && e.id != hp_addr && pool_lock == 0 {
						pool_lock = *outer;
					}
				}
				held.push(e.id);
			}
			"w_rel" => {
				if let Some(p) = held.iter().rposition(|x| *x == e.id) {
					held.remove(p);
				}
			}
			_ => {}
		}
	}
	if pool_lock == 0 {
		println!("{}", json!({"error": "orphan pool lock not identified"}));
		return 0;
	}
	verif::delay_only_locks(&[pool_lock]);
	verif::delay_only_thread(1);
	verif::delay_other_writes(delay, &[tx_addr, hp_addr]);
	let c1 = chain.clone();
	let ch = child.clone();
	let t1 = std::thread::spawn(move || {
		global::set_local_chain_type(ChainTypes::AutomatedTesting);
		verif::set_thread_tag(1);
		class_of(&c1.process_block(ch, Options::SKIP_POW))
	});
	let c2 = chain.clone();
	let pa = parent.clone();
	let d2 = delay;
	let t2 = std::thread::spawn(move || {
		global::set_local_chain_type(ChainTypes::AutomatedTesting);
		verif::set_thread_tag(2);
		std::thread::sleep(Duration::from_micros(d2 / 4));
		class_of(&c2.process_block(pa, Options::SKIP_POW))
	});
	let r1 = t1.join().unwrap_or_else(|_| "panic".into());
	let r2 = t2.join().unwrap_or_else(|_| "panic".into());
	verif::delay_other_writes(0, &[]);
	verif::delay_only_thread(0);
	verif::delay_only_locks(&[]);
	let stranded = chain.is_orphan(&child.hash()) && chain.get_block(&parent.hash()).is_ok() && chain.get_block(&child.hash()).is_err();
	println!("{}", json!({"child_result": r1, "parent_result": r2, "head_height": chain.head().unwrap().height,
		"child_in_orphan_pool": chain.is_orphan(&child.hash()), "parent_stored": chain.get_block(&parent.hash()).is_ok(),
		"child_stored": chain.get_block(&child.hash()).is_ok(), "stranded": stranded}));
	let _ = std::fs::remove_dir_all(&dir);
	0
}

fn main() {
	quiet_panics();
	global::set_local_chain_type(ChainTypes::AutomatedTesting);
	global::set_local_nrd_enabled(true);
	let a: Vec<String> = std::env::args().skip(1).collect();
	let args = Args::parse(&a);
	if args.pos.get(0).map(|s| s.as_str()) == Some("protocols") {
		std::process::exit(protocols(&args));
	}
	if args.pos.get(0).map(|s| s.as_str()) == Some("race") {
		std::process::exit(race(&args));
	}
	let cases = read_ndjson(args.req("cases"));
	let mut out = NdWriter::create(args.req("out"));
	let work = args.req("work").to_string();
	let seed = args.u64("seed", 1);
	let delay = args.u64("delay-us", 0);
	for (i, c) in cases.iter().enumerate() {
		let r = run_one(c, &format!("{}/c{}", work, i), seed.wrapping_add(i as u64 * 7919), delay);
		out.put(&r);
	}
	out.finish();
}
