//! txbal engine (C01, C12): realises model bodies over small-integer commitments (v, r) with real
//! secp256k1-zkp crypto and calls the real Transaction::validate / Block::validate /
//! aggregate / deaggregate / CompactBlock / Block::hydrate_from; batch plans on
//! TxKernel::batch_sig_verify / Output::batch_verify_proofs (batch.rs) and full-state plans on
//! Chain::validate over a real chain directory (state.rs).
//!
//! The harness never decides validity: it builds the object the case describes, calls the code
//! under test, and reports the result class and the projection of the resulting object back to
//! model values. All comparison against the specification's verdict happens in the check driver.
use vcommon::*;

use grin_core::consensus;
use grin_core::core::block::{Block, BlockHeader, HeaderVersion};
use grin_core::core::compact_block::CompactBlock;
use grin_core::core::hash::{Hash, Hashed};
use grin_core::core::id::ShortIdentifiable;
use grin_core::core::transaction::{
	self, CommitWrapper, FeeFields, Input, Inputs, KernelFeatures, NRDRelativeHeight, Output,
	OutputFeatures, Transaction, TransactionBody, TxKernel, Weighting,
};
use grin_core::global;
use grin_core::libtx::aggsig;
use grin_core::ser;
use grin_core::core::id::ShortId;
use grin_core::core::{BlockSums, OutputIdentifier};
use grin_keychain::BlindingFactor;
use grin_pool::{BlockChain, Pool, PoolEntry, PoolError, TxSource};
use std::sync::Arc;
use grin_util::secp::key::SecretKey;
use grin_util::secp::pedersen::{Commitment, RangeProof};
use grin_util::static_secp_instance;
use serde_json::{json, Value};
use std::collections::{HashMap, HashSet};
use std::convert::TryFrom;
use std::panic::{catch_unwind, AssertUnwindSafe};

mod batch;
mod state;

/// One model value unit = 15 grin, so that the 60-grin reward is 4 units (DESIGN 2.4).
const UNIT: u64 = 15_000_000_000;
/// FeeFields::FEE_MASK: the largest fee one kernel can carry, in nanogrin
const FEE_MAX: u64 = (1u64 << 40) - 1;

/// Model amount -> nanogrin. A model amount is written in three digits (spec/TxBalance.tla):
/// v = a + 1000*b + 1000000*c  stands for  a*15 grin + b*(2^40-1) nanogrin + c*1 nanogrin.
/// Every amount below 1000 is a plain multiple of 15 grin.
fn amount(v: i64) -> u64 {
	assert!(v >= 0, "negative amount");
	let v = v as u64;
	(v % 1000) * UNIT + ((v / 1000) % 1000) * FEE_MAX + (v / 1_000_000)
}

fn main() {
	quiet_panics();
	let a: Vec<String> = std::env::args().skip(1).collect();
	let args = Args::parse(&a);
	global::set_local_chain_type(global::ChainTypes::AutomatedTesting);
	global::set_local_nrd_enabled(true);
	assert_eq!(consensus::REWARD, 4 * UNIT);
	let rc = match args.pos.get(0).map(|s| s.as_str()) {
		Some("validate") => validate_cmd(&args),
		Some("agg") => agg_cmd(&args),
		Some("batch") => batch::batch_cmd(&args),
		Some("state") => state::state_cmd(&args),
		_ => {
			eprintln!("txbal validate|agg|batch|state --cases F --out F [--dir D]");
			2
		}
	};
	std::process::exit(rc);
}

// ------------------------------------------------------------------------------------------
// model_secp: model scalars -> real secp objects

struct ModelSecp {
	proofs: HashMap<(i64, i64), RangeProof>,
	/// further valid proofs of the same commitment, (v, r, variant > 0): a commitment created twice
	/// inside one aggregation family may carry a different proof each time (C12)
	alt_proofs: HashMap<(i64, i64, i64), RangeProof>,
	kernels: HashMap<String, TxKernel>,
	commits: HashMap<Vec<u8>, (i64, i64)>,
	kernel_ids: HashMap<Hash, i64>,
	offsets: HashMap<Vec<u8>, i64>,
	/// kernels realised with `sg = false` or a value-carrying excess; (commitment, proof) of outputs with `pf = false`
	pub forged_kernels: HashSet<Hash>,
	pub forged_outputs: HashSet<(Vec<u8>, Vec<u8>)>,
	pub proofs_made: usize,
	pub sigs_made: usize,
}

fn scalar(r: i64) -> Option<SecretKey> {
	if r == 0 {
		return None;
	}
	let secp = static_secp_instance();
	let secp = secp.lock();
	let mut b = [0u8; 32];
	b[24..32].copy_from_slice(&(r.unsigned_abs()).to_be_bytes());
	let k = SecretKey::from_slice(&secp, &b).expect("small scalar");
	if r > 0 {
		Some(k)
	} else {
		// n - |r|
		Some(secp.blind_sum(vec![], vec![k]).expect("negated scalar"))
	}
}

fn blind(r: i64) -> BlindingFactor {
	match scalar(r) {
		None => BlindingFactor::zero(),
		Some(k) => BlindingFactor::from_secret_key(k),
	}
}

/// v*U*H + r*G ; r = 0 gives the pure value commitment (used only for probing, never for an
/// output that needs a proof).
fn commit(v: i64, r: i64) -> Commitment {
	assert!(v >= 0);
	let secp = static_secp_instance();
	match scalar(r) {
		Some(k) => secp.lock().commit(amount(v), k).expect("commit"),
		None => secp.lock().commit_value(amount(v)).expect("commit_value"),
	}
}

impl ModelSecp {
	fn new() -> ModelSecp {
		ModelSecp {
			proofs: HashMap::new(),
			alt_proofs: HashMap::new(),
			kernels: HashMap::new(),
			commits: HashMap::new(),
			kernel_ids: HashMap::new(),
			offsets: HashMap::new(),
			forged_kernels: HashSet::new(),
			forged_outputs: HashSet::new(),
			proofs_made: 0,
			sigs_made: 0,
		}
	}

	fn commit(&mut self, v: i64, r: i64) -> Commitment {
		let c = commit(v, r);
		self.commits.insert(c.0.to_vec(), (v, r));
		c
	}

	fn proof(&mut self, v: i64, r: i64) -> RangeProof {
		if let Some(p) = self.proofs.get(&(v, r)) {
			return *p;
		}
		let k = scalar(r).expect("output blinding must be non-zero");
		// deterministic nonces per (v, r): the proof bytes are a function of the model value
		let mut nb = [7u8; 32];
		nb[0..8].copy_from_slice(&(v as u64).to_be_bytes());
		nb[8..16].copy_from_slice(&(r as u64).to_be_bytes());
		let secp = static_secp_instance();
		let secp = secp.lock();
		let nonce = SecretKey::from_slice(&secp, &nb).expect("nonce");
		let p = secp.bullet_proof(amount(v), k, nonce.clone(), nonce, None, None);
		drop(secp);
		self.proofs.insert((v, r), p);
		self.proofs_made += 1;
		p
	}

	/// A second, third, ... valid proof of the commitment (v, r): same value and blinding, other nonces.
	fn proof_variant(&mut self, v: i64, r: i64, pv: i64) -> RangeProof {
		if pv == 0 {
			return self.proof(v, r);
		}
		if let Some(p) = self.alt_proofs.get(&(v, r, pv)) {
			return *p;
		}
		let k = scalar(r).expect("output blinding must be non-zero");
		let mut nb = [11u8; 32];
		nb[0..8].copy_from_slice(&(v as u64).to_be_bytes());
		nb[8..16].copy_from_slice(&(r as u64).to_be_bytes());
		nb[16..24].copy_from_slice(&(pv as u64).to_be_bytes());
		let secp = static_secp_instance();
		let secp = secp.lock();
		let nonce = SecretKey::from_slice(&secp, &nb).expect("nonce");
		let p = secp.bullet_proof(amount(v), k, nonce.clone(), nonce, None, None);
		drop(secp);
		self.alt_proofs.insert((v, r, pv), p);
		self.proofs_made += 1;
		p
	}

	fn output(&mut self, o: &Value) -> Output {
		let v = o["v"].as_i64().unwrap();
		let r = o["r"].as_i64().unwrap();
		let cb = o["cb"].as_bool().unwrap();
		let pf = o["pf"].as_bool().unwrap();
		let c = self.commit(v, r);
		// a bad proof is a perfectly good proof of a different commitment
		let pv = o.get("pv").and_then(|x| x.as_i64()).unwrap_or(0);
		let p = if pf { self.proof_variant(v, r, pv) } else { self.proof(v + 1, r) };
		if !pf {
			self.forged_outputs.insert((c.0.to_vec(), p.proof.to_vec()));
		}
		Output::new(
			if cb { OutputFeatures::Coinbase } else { OutputFeatures::Plain },
			c,
			p,
		)
	}

	/// The inputs of a model body in the representation `iv` names: "co" = Inputs::CommitOnly,
	/// "fc" = Inputs::FeaturesAndCommit with the features each input claims (field f = "cb": coinbase,
	/// else plain), "fcb" = FeaturesAndCommit with every input claiming coinbase features.
	fn inputs(&mut self, ins: &Value, iv: &str) -> Inputs {
		let ins = ins.as_array().unwrap();
		if iv == "co" {
			let v: Vec<CommitWrapper> = ins
				.iter()
				.map(|i| CommitWrapper::from(self.commit(i["v"].as_i64().unwrap(), i["r"].as_i64().unwrap())))
				.collect();
			return Inputs::from(&v[..]);
		}
		assert!(iv == "fc" || iv == "fcb", "iv {}", iv);
		let v: Vec<Input> = ins
			.iter()
			.map(|i| {
				let cb = iv == "fcb" || i.get("f").and_then(|f| f.as_str()) == Some("cb");
				Input::new(
					if cb { OutputFeatures::Coinbase } else { OutputFeatures::Plain },
					self.commit(i["v"].as_i64().unwrap(), i["r"].as_i64().unwrap()),
				)
			})
			.collect();
		Inputs::from(&v[..])
	}

	fn features(k: &Value) -> KernelFeatures {
		let fee_units = k["fee"].as_i64().unwrap();
		// fs: the fee_shift bits (40..43) of the fee field
		let fs = k.get("fs").and_then(|v| v.as_u64()).unwrap_or(0);
		let fee = if fee_units == 0 {
			FeeFields::zero()
		} else if fs > 0 {
			FeeFields::new(fs, amount(fee_units)).expect("fee fields with shift")
		} else {
			FeeFields::try_from(amount(fee_units)).expect("fee fields")
		};
		match k["kind"].as_str().unwrap() {
			"plain" => KernelFeatures::Plain { fee },
			"cb" => KernelFeatures::Coinbase,
			"hl" => KernelFeatures::HeightLocked {
				fee,
				lock_height: k["lock"].as_u64().unwrap(),
			},
			"nrd" => KernelFeatures::NoRecentDuplicate {
				fee,
				relative_height: NRDRelativeHeight::new(k["rel"].as_u64().unwrap()).expect("rel"),
			},
			x => panic!("kind {}", x),
		}
	}

	/// Kernel with excess x*G signed with x over the real kernel_sig_msg (sg = true) or over the
	/// message of a different kernel (sg = false). Cached per model record, so identical model
	/// kernels are byte-identical real kernels and kernels differing in `sid` carry different
	/// signatures.
	fn kernel(&mut self, k: &Value) -> TxKernel {
		let key = k.to_string();
		if let Some(kk) = self.kernels.get(&key) {
			return *kk;
		}
		let x = k["x"].as_i64().unwrap();
		// state plans: an excess x*G + xv*U*H hides xv value units; nobody can sign for it, the
		// kernel carries a genuine signature for x*G
		let xv = k.get("xv").and_then(|v| v.as_i64()).unwrap_or(0);
		let features = Self::features(k);
		let excess = commit(xv, x);
		let msg = if k["sg"].as_bool().unwrap() {
			features.kernel_sig_msg().unwrap()
		} else {
			KernelFeatures::HeightLocked {
				fee: FeeFields::try_from(77u64).unwrap(),
				lock_height: 777,
			}
			.kernel_sig_msg()
			.unwrap()
		};
		let bx = blind(x);
		let signer = if xv == 0 { excess } else { commit(0, x) };
		let sig = {
			let secp = static_secp_instance();
			let secp = secp.lock();
			let pk = signer.to_pubkey(&secp).expect("excess pubkey");
			aggsig::sign_with_blinding(&secp, &msg, &bx, Some(&pk)).expect("sign")
		};
		let kern = TxKernel {
			features,
			excess,
			excess_sig: sig,
		};
		self.sigs_made += 1;
		if xv != 0 || !k["sg"].as_bool().unwrap() {
			self.forged_kernels.insert(kern.hash());
		}
		self.kernel_ids.insert(kern.hash(), k["sid"].as_i64().unwrap_or(-1));
		self.kernels.insert(key, kern);
		kern
	}

	fn parts(&mut self, b: &Value, iv: &str) -> (Inputs, Vec<Output>, Vec<TxKernel>) {
		let ins = self.inputs(&b["ins"], iv);
		let outs: Vec<_> = b["outs"].as_array().unwrap().iter().map(|o| self.output(o)).collect();
		let kerns: Vec<_> = b["kerns"].as_array().unwrap().iter().map(|k| self.kernel(k)).collect();
		(ins, outs, kerns)
	}

	/// A model transaction; its own field `iv` (C12 libraries) names the representation of its inputs.
	fn tx(&mut self, b: &Value) -> Transaction {
		let iv = b.get("iv").and_then(|v| v.as_str()).unwrap_or("co").to_string();
		self.tx_iv(b, &iv)
	}

	fn tx_iv(&mut self, b: &Value, iv: &str) -> Transaction {
		let (ins, outs, kerns) = self.parts(b, iv);
		Transaction::new(ins, &outs, &kerns).with_offset(blind(b["off"].as_i64().unwrap()))
	}

	fn block(&mut self, b: &Value, ctx: &Value, iv: &str) -> Block {
		let (ins, outs, kerns) = self.parts(b, iv);
		let body = TransactionBody::init(ins, &outs, &kerns, false).expect("init sorts");
		Block {
			header: BlockHeader {
				height: ctx["height"].as_u64().unwrap(),
				version: HeaderVersion(ctx["ver"].as_u64().unwrap() as u16),
				total_kernel_offset: blind(ctx["total"].as_i64().unwrap()),
				..Default::default()
			},
			body,
		}
	}

	// ---- projection of real objects back to model values

	fn proj_commit(&self, c: &Commitment) -> Value {
		match self.commits.get(&c.0.to_vec()) {
			Some((v, r)) => json!([v, r]),
			None => json!(["?", grin_util::ToHex::to_hex(&c.0.to_vec())]),
		}
	}

	fn proj_offset(&mut self, off: &BlindingFactor) -> Value {
		if self.offsets.is_empty() {
			for k in -40000i64..=40000 {
				self.offsets.insert(blind(k).as_ref().to_vec(), k);
			}
		}
		match self.offsets.get(&off.as_ref().to_vec()) {
			Some(k) => json!(k),
			None => json!("?"),
		}
	}

	fn proj_body(&self, body: &TransactionBody) -> Value {
		let mut i: Vec<Value> = input_commits(&body.inputs()).iter().map(|c| self.proj_commit(c)).collect();
		let mut o: Vec<Value> = body
			.outputs()
			.iter()
			.map(|o| {
				let mut p = self.proj_commit(&o.commitment());
				p.as_array_mut().unwrap().push(json!(o.is_coinbase()));
				// the proof must be the one the model output carried
				let ok = match self.commits.get(&o.commitment().0.to_vec()) {
					Some(vr) => self.proofs.get(vr).map(|p| p.proof[..] == o.proof.proof[..]).unwrap_or(false),
					None => false,
				};
				p.as_array_mut().unwrap().push(json!(ok));
				if !ok {
					// one of the other proofs made for this commitment: [v, r, cb, false, variant]
					if let Some((v, r)) = self.commits.get(&o.commitment().0.to_vec()) {
						for ((av, ar, pv), ap) in self.alt_proofs.iter() {
							if av == v && ar == r && ap.proof[..] == o.proof.proof[..] {
								p.as_array_mut().unwrap().push(json!(pv));
							}
						}
					}
				}
				p
			})
			.collect();
		let mut k: Vec<Value> = body
			.kernels()
			.iter()
			.map(|k| match self.kernel_ids.get(&k.hash()) {
				Some(id) => json!(id),
				None => json!("?"),
			})
			.collect();
		let key = |v: &Value| v.to_string();
		i.sort_by_key(key);
		o.sort_by_key(key);
		k.sort_by_key(|v| v.as_i64().unwrap_or(i64::MAX));
		json!({"ins": i, "outs": o, "kerns": k})
	}

	fn proj_tx(&mut self, tx: &Transaction) -> Value {
		let mut p = self.proj_body(&tx.body);
		p["off"] = self.proj_offset(&tx.offset);
		p
	}
}

fn class<T, E: std::fmt::Debug>(r: std::thread::Result<Result<T, E>>) -> (String, String) {
	match r {
		Ok(Ok(_)) => ("ok".into(), "".into()),
		Ok(Err(e)) => ("err".into(), format!("{:?}", e)),
		Err(_) => ("panic".into(), "".into()),
	}
}

// ------------------------------------------------------------------------------------------
// C01: validate model bodies as transaction / as block

fn validate_cmd(args: &Args) -> i32 {
	let cases = read_ndjson(args.req("cases"));
	let mut out = NdWriter::create(args.req("out"));
	let mut ms = ModelSecp::new();
	let mut runs_total = 0usize;
	for c in &cases {
		let ctx = &c["ctx"];
		global::set_local_nrd_enabled(ctx["nrd"].as_bool().unwrap_or(true));
		// the realisations to run: representation of the inputs x weighting; the first one is the base run
		// (CommitOnly inputs, AsTransaction / AsBlock) whose result is also reported at the top level
		let default_runs = vec![json!({"iv": "co", "w": if ctx["as"] == "tx" { "tx" } else { "block" }})];
		let runs = c.get("run_list").and_then(|r| r.as_array()).unwrap_or(&default_runs);
		let mut rr = vec![];
		for run in runs {
			let iv = run["iv"].as_str().unwrap_or("co");
			let (res, err) = if ctx["as"] == "tx" {
				let w = match run["w"].as_str().unwrap_or("tx") {
					"tx" => Weighting::AsTransaction,
					"limited" => Weighting::AsLimitedTransaction(c["limited_max"].as_u64().expect("limited_max")),
					"nolimit" => Weighting::NoLimit,
					x => panic!("weighting {}", x),
				};
				let tx = ms.tx_iv(&c["body"], iv);
				class(catch_unwind(AssertUnwindSafe(|| tx.validate(w))))
			} else {
				let b = ms.block(&c["body"], ctx, iv);
				let prev = blind(ctx["prev"].as_i64().unwrap());
				class(catch_unwind(AssertUnwindSafe(|| b.validate(&prev))))
			};
			rr.push(json!({"iv": iv, "w": run["w"], "res": res, "err": err}));
			runs_total += 1;
		}
		out.put(&json!({"id": c["id"], "res": rr[0]["res"], "err": rr[0]["err"], "runs": rr}));
	}
	out.finish();
	println!("{}", json!({"cases": cases.len(), "runs": runs_total, "proofs_made": ms.proofs_made, "sigs_made": ms.sigs_made}));
	0
}

// ------------------------------------------------------------------------------------------
// C12: aggregate / deaggregate / compact + hydrate

/// A plan is an index into the case's txs, or an array of plans aggregated in that order.
fn eval_plan(plan: &Value, txs: &[Transaction]) -> Result<Transaction, transaction::Error> {
	match plan {
		Value::Number(n) => Ok(txs[n.as_u64().unwrap() as usize].clone()),
		Value::Array(a) => {
			let mut parts = vec![];
			for p in a {
				parts.push(eval_plan(p, txs)?);
			}
			transaction::aggregate(&parts)
		}
		_ => panic!("bad plan"),
	}
}

/// The commitments of the inputs in either representation, sorted - read off the enum directly (the
/// conversions From<&Inputs> are code under test).
fn input_commits(inputs: &Inputs) -> Vec<Commitment> {
	let mut v: Vec<Commitment> = match inputs {
		Inputs::CommitOnly(c) => c.iter().map(|x| x.commitment()).collect(),
		Inputs::FeaturesAndCommit(i) => i.iter().map(|x| x.commitment()).collect(),
	};
	v.sort_by(|a, b| a.0.cmp(&b.0));
	v
}

fn body_bytes(b: &TransactionBody) -> Vec<u8> {
	ser::ser_vec(b, ser::ProtocolVersion(3)).expect("ser body")
}

/// The same body: the same input commitments, outputs (with their proofs) and kernels in the same order,
/// and the same bytes on the wire. The REPRESENTATION of the inputs (Inputs::CommitOnly / FeaturesAndCommit)
/// is not part of it: a block built from a single FeaturesAndCommit transaction keeps that representation
/// while a hydrated block is always CommitOnly; `same_repr` reports it separately.
fn same_body(a: &TransactionBody, b: &TransactionBody) -> bool {
	input_commits(&a.inputs()) == input_commits(&b.inputs()) && a.outputs() == b.outputs() && a.kernels() == b.kernels() && body_bytes(a) == body_bytes(b)
}

fn agg_cmd(args: &Args) -> i32 {
	let cases = read_ndjson(args.req("cases"));
	let mut out = NdWriter::create(args.req("out"));
	let mut ms = ModelSecp::new();
	let mut valid_cache: HashMap<Vec<u8>, (String, String)> = HashMap::new();
	for c in &cases {
		let txs: Vec<Transaction> = c["txs"].as_array().unwrap().iter().map(|b| ms.tx(b)).collect();
		let mut o = json!({"id": c["id"]});
		// every operand is itself valid (precondition of the property; reported, not assumed)
		let mut operands_ok = true;
		for t in &txs {
			let key = ser::ser_vec(t, ser::ProtocolVersion(3)).unwrap();
			let r = valid_cache
				.entry(key)
				.or_insert_with(|| class(catch_unwind(AssertUnwindSafe(|| t.validate(Weighting::AsTransaction)))));
			operands_ok &= r.0 == "ok";
		}
		o["operands_ok"] = json!(operands_ok);

		// aggregation in the given order / grouping
		if let Some(plans) = c.get("plans").and_then(|p| p.as_array()) {
			let mut res = vec![];
			for plan in plans {
				let r = catch_unwind(AssertUnwindSafe(|| eval_plan(plan, &txs)));
				match r {
					Ok(Ok(tx)) => {
						let key = ser::ser_vec(&tx, ser::ProtocolVersion(3)).unwrap();
						let v = valid_cache
							.entry(key)
							.or_insert_with(|| class(catch_unwind(AssertUnwindSafe(|| tx.validate(Weighting::AsTransaction)))))
							.clone();
						res.push(json!({"res": "ok", "proj": ms.proj_tx(&tx), "valid": v.0, "verr": v.1}));
					}
					Ok(Err(e)) => res.push(json!({"res": "err", "err": format!("{:?}", e)})),
					Err(_) => res.push(json!({"res": "panic"})),
				}
			}
			o["plans"] = json!(res);
		}

		// deaggregation: deaggregate(aggregate(all in mk), txs in sub)
		if let Some(ds) = c.get("deaggs").and_then(|p| p.as_array()) {
			let mut res = vec![];
			for d in ds {
				let r = catch_unwind(AssertUnwindSafe(|| {
					let mk = eval_plan(&d["mk"], &txs)?;
					let sub: Vec<Transaction> = d["sub"]
						.as_array()
						.unwrap()
						.iter()
						.map(|p| eval_plan(p, &txs))
						.collect::<Result<Vec<_>, _>>()?;
					transaction::deaggregate(mk, &sub)
				}));
				match r {
					Ok(Ok(tx)) => {
						let v = class(catch_unwind(AssertUnwindSafe(|| tx.validate(Weighting::AsTransaction))));
						res.push(json!({"res": "ok", "proj": ms.proj_tx(&tx), "valid": v.0, "verr": v.1}));
					}
					Ok(Err(e)) => res.push(json!({"res": "err", "err": format!("{:?}", e)})),
					Err(_) => res.push(json!({"res": "panic"})),
				}
			}
			o["deaggs"] = json!(res);
		}

		// block from the txs + reward, compact form, hydration from the same txs in each grouping:
		// one block per previous offset (`blocks`); a single `block` is the form of older replay files
		let bystanders: Vec<Transaction> = c
			.get("bystanders")
			.and_then(|b| b.as_array())
			.map(|a| a.iter().map(|b| ms.tx(b)).collect())
			.unwrap_or_default();
		let run_block = |ms: &mut ModelSecp, bl: &Value| -> Value {
			match catch_unwind(AssertUnwindSafe(|| hydrate_case(ms, bl, &txs, &bystanders))) {
				Ok(v) => v,
				Err(_) => json!({"res": "panic"}),
			}
		};
		if let Some(bl) = c.get("block") {
			o["block"] = run_block(&mut ms, bl);
		}
		if let Some(bls) = c.get("blocks").and_then(|b| b.as_array()) {
			let rs: Vec<Value> = bls.iter().map(|bl| run_block(&mut ms, bl)).collect();
			o["blocks"] = json!(rs);
		}
		out.put(&o);
	}
	out.finish();
	println!("{}", json!({"cases": cases.len(), "proofs_made": ms.proofs_made, "sigs_made": ms.sigs_made}));
	0
}

/// Pool::retrieve_transactions never talks to the chain.
struct NoChain;

impl BlockChain for NoChain {
	fn verify_coinbase_maturity(&self, _: &Inputs) -> Result<(), PoolError> {
		unimplemented!()
	}
	fn verify_tx_lock_height(&self, _: &Transaction) -> Result<(), PoolError> {
		unimplemented!()
	}
	fn validate_tx(&self, _: &Transaction) -> Result<(), PoolError> {
		unimplemented!()
	}
	fn validate_inputs(&self, _: &Inputs) -> Result<Vec<OutputIdentifier>, PoolError> {
		unimplemented!()
	}
	fn chain_head(&self) -> Result<BlockHeader, PoolError> {
		unimplemented!()
	}
	fn get_block_header(&self, _: &Hash) -> Result<BlockHeader, PoolError> {
		unimplemented!()
	}
	fn get_block_sums(&self, _: &Hash) -> Result<BlockSums, PoolError> {
		unimplemented!()
	}
}

/// The compact form of `b` under a given nonce. Nonce 0 stands for "whatever CompactBlock::from draws";
/// any other nonce is put into the serialised compact block (with the short ids of the non-coinbase
/// kernels under that nonce, sorted as the type sorts them) and the bytes go through the real reader.
fn compact_with_nonce(b: &Block, nonce: u64) -> Result<CompactBlock, String> {
	let cb: CompactBlock = b.clone().into();
	if nonce == 0 {
		return Ok(cb);
	}
	let v = ser::ProtocolVersion(3);
	let bytes = ser::ser_vec(&cb, v).map_err(|e| format!("ser compact block: {:?}", e))?;
	let hl = ser::ser_vec(&b.header, v).map_err(|e| format!("ser header: {:?}", e))?.len();
	let n = cb.kern_ids().len();
	let hash = cb.hash();
	let mut ids: Vec<ShortId> = b.kernels().iter().filter(|k| !k.is_coinbase()).map(|k| k.short_id(&hash, nonce)).collect();
	ids.sort_unstable();
	if ids.len() != n || bytes.len() < hl + 8 + 6 * n || bytes[hl..hl + 8] != cb.nonce.to_be_bytes() {
		return Err("compact block layout is not header | nonce | body with the short ids last".to_string());
	}
	let mut nb = bytes[..hl].to_vec();
	nb.extend_from_slice(&nonce.to_be_bytes());
	nb.extend_from_slice(&bytes[hl + 8..bytes.len() - 6 * n]);
	for id in &ids {
		nb.extend_from_slice(id.as_ref());
	}
	let cb2 = ser::deserialize::<CompactBlock, _>(&mut &nb[..], v, ser::DeserializationMode::default())
		.map_err(|e| format!("compact block with chosen nonce not readable: {:?}", e))?;
	if cb2.nonce != nonce || cb2.header != b.header || cb2.kern_ids().len() != n || cb2.kern_full() != cb.kern_full() || cb2.out_full() != cb.out_full() {
		return Err("compact block with chosen nonce read back differently".to_string());
	}
	Ok(cb2)
}

/// The node's route (NetToChainAdapter::compact_block_received): the pool holds `entries`; the real
/// Pool::retrieve_transactions looks the compact block's short ids up, and when nothing is missing
/// Block::hydrate_from builds the block from what was returned. One record per distinct outcome over the
/// nonces: the kernels (model ids) of every transaction returned, the kernels reported missing, and how
/// the hydrated block compares with `b`.
fn via_pool(ms: &ModelSecp, b: &Block, want_bytes: &[u8], entries: &[Transaction], nonces: &[u64]) -> Value {
	let mut pool = Pool::new(Arc::new(NoChain), "txpool".to_string());
	for tx in entries {
		pool.entries.push(PoolEntry::new(tx.clone(), TxSource::Broadcast));
	}
	let mut outcomes: Vec<(Value, Vec<u64>)> = vec![];
	for nonce in nonces {
		// building the compact block under the chosen nonce is the harness's business, not a verdict
		let cb = match catch_unwind(AssertUnwindSafe(|| compact_with_nonce(b, *nonce))) {
			Ok(Ok(cb)) => cb,
			Ok(Err(e)) => {
				outcomes.push((json!({"res": "setup", "err": e}), vec![*nonce]));
				continue;
			}
			Err(_) => {
				outcomes.push((json!({"res": "setup", "err": "panic while building the compact block"}), vec![*nonce]));
				continue;
			}
		};
		let r = catch_unwind(AssertUnwindSafe(|| {
			let used = cb.nonce;
			let hash = cb.hash();
			let (found, missing) = pool.retrieve_transactions(hash.clone(), cb.nonce, cb.kern_ids());
			let mut f: Vec<Vec<i64>> = found
				.iter()
				.map(|t| {
					let mut k: Vec<i64> = t.kernels().iter().map(|k| *ms.kernel_ids.get(&k.hash()).unwrap_or(&-1)).collect();
					k.sort();
					k
				})
				.collect();
			f.sort();
			let mut m: Vec<i64> = missing
				.iter()
				.map(|id| {
					b.kernels()
						.iter()
						.find(|k| k.short_id(&hash, used).as_ref() == id.as_ref())
						.and_then(|k| ms.kernel_ids.get(&k.hash()).cloned())
						.unwrap_or(-1)
				})
				.collect();
			m.sort();
			let hyd = if missing.is_empty() {
				match Block::hydrate_from(cb, &found) {
					Ok(hb) => {
						let same_hash = hb.header.hash() == b.header.hash() && hb.header == b.header;
						let same_body = same_body(&hb.body, &b.body) && body_bytes(&hb.body) == want_bytes;
						let mut h = json!({"res": "ok", "same_hash": same_hash, "same_body": same_body, "same_repr": hb.body == b.body});
						if !same_body {
							h["proj"] = ms.proj_body(&hb.body);
						}
						h
					}
					Err(e) => json!({"res": "err", "err": format!("{:?}", e)}),
				}
			} else {
				json!({"res": "not_attempted"})
			};
			(json!({"found": f, "missing": m, "hyd": hyd}), used)
		}));
		let (v, used) = match r {
			Ok(x) => x,
			Err(_) => (json!({"res": "panic"}), *nonce),
		};
		match outcomes.iter_mut().find(|(o, _)| *o == v) {
			Some((_, ns)) => ns.push(used),
			None => outcomes.push((v, vec![used])),
		}
	}
	json!(outcomes
		.into_iter()
		.map(|(mut v, ns)| {
			v["n"] = json!(ns.len());
			v["nonce"] = json!(ns[0].to_string());
			v
		})
		.collect::<Vec<Value>>())
}

fn hydrate_case(ms: &mut ModelSecp, bl: &Value, txs: &[Transaction], bystanders: &[Transaction]) -> Value {
	let reward_out = ms.output(&bl["cb_out"]);
	let reward_kern = ms.kernel(&bl["cb_kern"]);
	let prev = BlockHeader {
		height: bl["height"].as_u64().unwrap() - 1,
		total_kernel_offset: blind(bl["prev"].as_i64().unwrap()),
		..Default::default()
	};
	// The block is built from the transactions as given (flat) and, when the case lists `builds`,
	// from each of those groupings as well (a miner aggregating pre-aggregated pool entries): every
	// build whose parts exist must give the same body and total offset. Hydration below is run on
	// the first block that could be built.
	let mut build_plans: Vec<Value> = vec![json!((0..txs.len()).collect::<Vec<usize>>())];
	if let Some(bs) = bl.get("builds").and_then(|b| b.as_array()) {
		build_plans.extend(bs.iter().cloned());
	}
	let mut builds = vec![];
	let mut reference: Option<(usize, Block)> = None;
	for (bi, g) in build_plans.iter().enumerate() {
		let parts: Result<Vec<Transaction>, _> = g.as_array().unwrap().iter().map(|p| eval_plan(p, txs)).collect();
		let parts = match parts {
			Ok(p) => p,
			Err(e) => {
				builds.push(json!({"res": "parts_err", "err": format!("{:?}", e)}));
				continue;
			}
		};
		match Block::from_reward(&prev, &parts, reward_out, reward_kern, grin_core::pow::Difficulty::min_dma()) {
			Ok(b) => {
				let mut r = json!({"res": "ok"});
				match &reference {
					Some((_, rb)) => {
						r["same_body"] = json!(same_body(&rb.body, &b.body));
						r["same_total"] = json!(rb.header.total_kernel_offset == b.header.total_kernel_offset);
						if r["same_body"] != json!(true) {
							r["proj"] = ms.proj_body(&b.body);
						}
					}
					None => reference = Some((bi, b)),
				}
				builds.push(r);
			}
			Err(e) => builds.push(json!({"res": "err", "err": format!("{:?}", e)})),
		}
	}
	let (ref_ix, b) = match reference {
		Some(x) => x,
		None => return json!({"res": "err", "err": builds[0]["err"], "builds": builds}),
	};
	let (bv, bverr) = class(catch_unwind(AssertUnwindSafe(|| b.validate(&prev.total_kernel_offset))));
	let mut res = json!({"res": "ok", "proj": ms.proj_body(&b.body), "total": ms.proj_offset(&b.header.total_kernel_offset),
		"valid": bv, "verr": bverr, "builds": builds, "ref": ref_ix});
	let want_bytes = body_bytes(&b.body);
	let mut hyd = vec![];
	// the route through the pool (when the case asks for it): nonces and, per grouping, the part a lacking pool lacks
	let nonces: Vec<u64> = bl
		.get("nonces")
		.and_then(|n| n.as_array())
		.map(|a| a.iter().map(|x| x.as_str().and_then(|s| s.parse().ok()).or(x.as_u64()).unwrap_or(0)).collect())
		.unwrap_or_default();
	let drops = bl.get("pool_drop").and_then(|d| d.as_array()).cloned().unwrap_or_default();
	for (gi, g) in bl["groupings"].as_array().unwrap().iter().enumerate() {
		// a grouping is a list of plans: each plan is one (possibly pre-aggregated) transaction
		let cb: CompactBlock = b.clone().into();
		// short ids announced by the compact block are those of the non-coinbase kernels under its nonce
		let mut ids_ok = cb.kern_ids().len() == b.kernels().iter().filter(|k| !k.is_coinbase()).count();
		for k in b.kernels().iter().filter(|k| !k.is_coinbase()) {
			let sid = k.short_id(&cb.header.hash(), cb.nonce);
			ids_ok &= cb.kern_ids().contains(&sid);
		}
		let parts: Result<Vec<Transaction>, _> = g.as_array().unwrap().iter().map(|p| eval_plan(p, txs)).collect();
		let parts = match parts {
			Ok(p) => p,
			Err(e) => {
				hyd.push(json!({"res": "parts_err", "err": format!("{:?}", e)}));
				continue;
			}
		};
		let full_out = cb.out_full().len();
		let full_kern = cb.kern_full().len();
		let mut h = match Block::hydrate_from(cb, &parts) {
			Ok(hb) => {
				let same_hash = hb.header.hash() == b.header.hash() && hb.header == b.header;
				let same_body = same_body(&hb.body, &b.body) && body_bytes(&hb.body) == want_bytes;
				let mut h = json!({"res": "ok", "same_hash": same_hash, "same_body": same_body, "same_repr": hb.body == b.body,
					"ids_ok": ids_ok, "full_out": full_out, "full_kern": full_kern});
				if !same_body {
					h["proj"] = ms.proj_body(&hb.body);
				}
				h
			}
			Err(e) => json!({"res": "err", "err": format!("{:?}", e)}),
		};
		if !nonces.is_empty() && !parts.is_empty() {
			// pool = [bystander] ++ the grouping ++ [bystander]; and the same pool lacking one group
			let entries = |skip: Option<usize>| -> Vec<Transaction> {
				let mut e: Vec<Transaction> = bystanders.iter().take(1).cloned().collect();
				e.extend(parts.iter().enumerate().filter(|(i, _)| Some(*i) != skip).map(|(_, t)| t.clone()));
				e.extend(bystanders.iter().skip(1).cloned());
				e
			};
			h["pool"] = via_pool(ms, &b, &want_bytes, &entries(None), &nonces);
			if let Some(j) = drops.get(gi).and_then(|d| d.as_u64()) {
				h["pool_lacking"] = via_pool(ms, &b, &want_bytes, &entries(Some(j as usize)), &nonces[..1.min(nonces.len())]);
			}
		}
		hyd.push(h);
	}
	res["hydrated"] = json!(hyd);
	res
}
