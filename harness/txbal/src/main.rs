//! txbal engine (C01, C12): realises model bodies over small-integer commitments (v, r) with real
//! secp256k1-zkp crypto and calls the real Transaction::validate / Block::validate /
//! aggregate / deaggregate / CompactBlock / Block::hydrate_from; batch plans on
//! TxKernel::batch_sig_verify / Output::batch_verify_proofs (batch.rs) and full-state plans on
//! Chain::validate over a real chain directory (state.rs).
//!
//! The harness never decides validity: it builds the object the case describes, calls the code
//! under test, and reports the result class and the projection of the resulting object back to
//! model values. All comparison against the specification's verdict happens in the check driver.
use vcommon::*;

use grin_core::consensus;
use grin_core::core::block::{Block, BlockHeader, HeaderVersion};
use grin_core::core::compact_block::CompactBlock;
use grin_core::core::hash::{Hash, Hashed};
use grin_core::core::id::ShortIdentifiable;
use grin_core::core::transaction::{
	self, CommitWrapper, FeeFields, Inputs, KernelFeatures, NRDRelativeHeight, Output,
	OutputFeatures, Transaction, TransactionBody, TxKernel, Weighting,
};
use grin_core::global;
use grin_core::libtx::aggsig;
use grin_core::ser;
use grin_keychain::BlindingFactor;
use grin_util::secp::key::SecretKey;
use grin_util::secp::pedersen::{Commitment, RangeProof};
use grin_util::static_secp_instance;
use serde_json::{json, Value};
use std::collections::{HashMap, HashSet};
use std::convert::TryFrom;
use std::panic::{catch_unwind, AssertUnwindSafe};

mod batch;
mod state;

/// One model value unit = 15 grin, so that the 60-grin reward is 4 units (DESIGN 2.4).
const UNIT: u64 = 15_000_000_000;
/// FeeFields::FEE_MASK: the largest fee one kernel can carry, in nanogrin
const FEE_MAX: u64 = (1u64 << 40) - 1;

/// Model amount -> nanogrin. A model amount is written in three digits (spec/TxBalance.tla):
/// v = a + 1000*b + 1000000*c  stands for  a*15 grin + b*(2^40-1) nanogrin + c*1 nanogrin.
/// Every amount below 1000 is a plain multiple of 15 grin.
fn amount(v: i64) -> u64 {
	assert!(v >= 0, "negative amount");
	let v = v as u64;
	(v % 1000) * UNIT + ((v / 1000) % 1000) * FEE_MAX + (v / 1_000_000)
}

fn main() {
	quiet_panics();
	let a: Vec<String> = std::env::args().skip(1).collect();
	let args = Args::parse(&a);
	global::set_local_chain_type(global::ChainTypes::AutomatedTesting);
	global::set_local_nrd_enabled(true);
	assert_eq!(consensus::REWARD, 4 * UNIT);
	let rc = match args.pos.get(0).map(|s| s.as_str()) {
		Some("validate") => validate_cmd(&args),
		Some("agg") => agg_cmd(&args),
		Some("batch") => batch::batch_cmd(&args),
		Some("state") => state::state_cmd(&args),
		_ => {
			eprintln!("txbal validate|agg|batch|state --cases F --out F [--dir D]");
			2
		}
	};
	std::process::exit(rc);
}

// ------------------------------------------------------------------------------------------
// model_secp: model scalars -> real secp objects

struct ModelSecp {
	proofs: HashMap<(i64, i64), RangeProof>,
	/// further valid proofs of the same commitment, (v, r, variant > 0): a commitment created twice
	/// inside one aggregation family may carry a different proof each time (C12)
	alt_proofs: HashMap<(i64, i64, i64), RangeProof>,
	kernels: HashMap<String, TxKernel>,
	commits: HashMap<Vec<u8>, (i64, i64)>,
	kernel_ids: HashMap<Hash, i64>,
	offsets: HashMap<Vec<u8>, i64>,
	/// kernels realised with `sg = false` or a value-carrying excess; (commitment, proof) of outputs with `pf = false`
	pub forged_kernels: HashSet<Hash>,
	pub forged_outputs: HashSet<(Vec<u8>, Vec<u8>)>,
	pub proofs_made: usize,
	pub sigs_made: usize,
}

fn scalar(r: i64) -> Option<SecretKey> {
	if r == 0 {
		return None;
	}
	let secp = static_secp_instance();
	let secp = secp.lock();
	let mut b = [0u8; 32];
	b[24..32].copy_from_slice(&(r.unsigned_abs()).to_be_bytes());
	let k = SecretKey::from_slice(&secp, &b).expect("small scalar");
	if r > 0 {
		Some(k)
	} else {
		// n - |r|
		Some(secp.blind_sum(vec![], vec![k]).expect("negated scalar"))
	}
}

fn blind(r: i64) -> BlindingFactor {
	match scalar(r) {
		None => BlindingFactor::zero(),
		Some(k) => BlindingFactor::from_secret_key(k),
	}
}

/// v*U*H + r*G ; r = 0 gives the pure value commitment (used only for probing, never for an
/// output that needs a proof).
fn commit(v: i64, r: i64) -> Commitment {
	assert!(v >= 0);
	let secp = static_secp_instance();
	match scalar(r) {
		Some(k) => secp.lock().commit(amount(v), k).expect("commit"),
		None => secp.lock().commit_value(amount(v)).expect("commit_value"),
	}
}

impl ModelSecp {
	fn new() -> ModelSecp {
		ModelSecp {
			proofs: HashMap::new(),
			alt_proofs: HashMap::new(),
			kernels: HashMap::new(),
			commits: HashMap::new(),
			kernel_ids: HashMap::new(),
			offsets: HashMap::new(),
			forged_kernels: HashSet::new(),
			forged_outputs: HashSet::new(),
			proofs_made: 0,
			sigs_made: 0,
		}
	}

	fn commit(&mut self, v: i64, r: i64) -> Commitment {
		let c = commit(v, r);
		self.commits.insert(c.0.to_vec(), (v, r));
		c
	}

	fn proof(&mut self, v: i64, r: i64) -> RangeProof {
		if let Some(p) = self.proofs.get(&(v, r)) {
			return *p;
		}
		let k = scalar(r).expect("output blinding must be non-zero");
		// deterministic nonces per (v, r): the proof bytes are a function of the model value
		let mut nb = [7u8; 32];
		nb[0..8].copy_from_slice(&(v as u64).to_be_bytes());
		nb[8..16].copy_from_slice(&(r as u64).to_be_bytes());
		let secp = static_secp_instance();
		let secp = secp.lock();
		let nonce = SecretKey::from_slice(&secp, &nb).expect("nonce");
		let p = secp.bullet_proof(amount(v), k, nonce.clone(), nonce, None, None);
		drop(secp);
		self.proofs.insert((v, r), p);
		self.proofs_made += 1;
		p
	}

	/// A second, third, ... valid proof of the commitment (v, r): same value and blinding, other nonces.
	fn proof_variant(&mut self, v: i64, r: i64, pv: i64) -> RangeProof {
		if pv == 0 {
			return self.proof(v, r);
		}
		if let Some(p) = self.alt_proofs.get(&(v, r, pv)) {
			return *p;
		}
		let k = scalar(r).expect("output blinding must be non-zero");
		let mut nb = [11u8; 32];
		nb[0..8].copy_from_slice(&(v as u64).to_be_bytes());
		nb[8..16].copy_from_slice(&(r as u64).to_be_bytes());
		nb[16..24].copy_from_slice(&(pv as u64).to_be_bytes());
		let secp = static_secp_instance();
		let secp = secp.lock();
		let nonce = SecretKey::from_slice(&secp, &nb).expect("nonce");
		let p = secp.bullet_proof(amount(v), k, nonce.clone(), nonce, None, None);
		drop(secp);
		self.alt_proofs.insert((v, r, pv), p);
		self.proofs_made += 1;
		p
	}

	fn output(&mut self, o: &Value) -> Output {
		let v = o["v"].as_i64().unwrap();
		let r = o["r"].as_i64().unwrap();
		let cb = o["cb"].as_bool().unwrap();
		let pf = o["pf"].as_bool().unwrap();
		let c = self.commit(v, r);
		// a bad proof is a perfectly good proof of a different commitment
		let pv = o.get("pv").and_then(|x| x.as_i64()).unwrap_or(0);
		let p = if pf { self.proof_variant(v, r, pv) } else { self.proof(v + 1, r) };
		if !pf {
			self.forged_outputs.insert((c.0.to_vec(), p.proof.to_vec()));
		}
		Output::new(
			if cb { OutputFeatures::Coinbase } else { OutputFeatures::Plain },
			c,
			p,
		)
	}

	fn input(&mut self, i: &Value) -> CommitWrapper {
		let c = self.commit(i["v"].as_i64().unwrap(), i["r"].as_i64().unwrap());
		CommitWrapper::from(c)
	}

	fn features(k: &Value) -> KernelFeatures {
		let fee_units = k["fee"].as_i64().unwrap();
		let fee = if fee_units == 0 {
			FeeFields::zero()
		} else {
			FeeFields::try_from(amount(fee_units)).expect("fee fields")
		};
		match k["kind"].as_str().unwrap() {
			"plain" => KernelFeatures::Plain { fee },
			"cb" => KernelFeatures::Coinbase,
			"hl" => KernelFeatures::HeightLocked {
				fee,
				lock_height: k["lock"].as_u64().unwrap(),
			},
			"nrd" => KernelFeatures::NoRecentDuplicate {
				fee,
				relative_height: NRDRelativeHeight::new(k["rel"].as_u64().unwrap()).expect("rel"),
			},
			x => panic!("kind {}", x),
		}
	}

	/// Kernel with excess x*G signed with x over the real kernel_sig_msg (sg = true) or over the
	/// message of a different kernel (sg = false). Cached per model record, so identical model
	/// kernels are byte-identical real kernels and kernels differing in `sid` carry different
	/// signatures.
	fn kernel(&mut self, k: &Value) -> TxKernel {
		let key = k.to_string();
		if let Some(kk) = self.kernels.get(&key) {
			return *kk;
		}
		let x = k["x"].as_i64().unwrap();
		// state plans: an excess x*G + xv*U*H hides xv value units; nobody can sign for it, the
		// kernel carries a genuine signature for x*G
		let xv = k.get("xv").and_then(|v| v.as_i64()).unwrap_or(0);
		let features = Self::features(k);
		let excess = commit(xv, x);
		let msg = if k["sg"].as_bool().unwrap() {
			features.kernel_sig_msg().unwrap()
		} else {
			KernelFeatures::HeightLocked {
				fee: FeeFields::try_from(77u64).unwrap(),
				lock_height: 777,
			}
			.kernel_sig_msg()
			.unwrap()
		};
		let bx = blind(x);
		let signer = if xv == 0 { excess } else { commit(0, x) };
		let sig = {
			let secp = static_secp_instance();
			let secp = secp.lock();
			let pk = signer.to_pubkey(&secp).expect("excess pubkey");
			aggsig::sign_with_blinding(&secp, &msg, &bx, Some(&pk)).expect("sign")
		};
		let kern = TxKernel {
			features,
			excess,
			excess_sig: sig,
		};
		self.sigs_made += 1;
		if xv != 0 || !k["sg"].as_bool().unwrap() {
			self.forged_kernels.insert(kern.hash());
		}
		self.kernel_ids.insert(kern.hash(), k["sid"].as_i64().unwrap_or(-1));
		self.kernels.insert(key, kern);
		kern
	}

	fn parts(&mut self, b: &Value) -> (Vec<CommitWrapper>, Vec<Output>, Vec<TxKernel>) {
		let ins: Vec<_> = b["ins"].as_array().unwrap().iter().map(|i| self.input(i)).collect();
		let outs: Vec<_> = b["outs"].as_array().unwrap().iter().map(|o| self.output(o)).collect();
		let kerns: Vec<_> = b["kerns"].as_array().unwrap().iter().map(|k| self.kernel(k)).collect();
		(ins, outs, kerns)
	}

	fn tx(&mut self, b: &Value) -> Transaction {
		let (ins, outs, kerns) = self.parts(b);
		Transaction::new(Inputs::from(&ins[..]), &outs, &kerns)
			.with_offset(blind(b["off"].as_i64().unwrap()))
	}

	fn block(&mut self, b: &Value, ctx: &Value) -> Block {
		let (ins, outs, kerns) = self.parts(b);
		let body = TransactionBody::init(Inputs::from(&ins[..]), &outs, &kerns, false).expect("init sorts");
		Block {
			header: BlockHeader {
				height: ctx["height"].as_u64().unwrap(),
				version: HeaderVersion(ctx["ver"].as_u64().unwrap() as u16),
				total_kernel_offset: blind(ctx["total"].as_i64().unwrap()),
				..Default::default()
			},
			body,
		}
	}

	// ---- projection of real objects back to model values

	fn proj_commit(&self, c: &Commitment) -> Value {
		match self.commits.get(&c.0.to_vec()) {
			Some((v, r)) => json!([v, r]),
			None => json!(["?", grin_util::ToHex::to_hex(&c.0.to_vec())]),
		}
	}

	fn proj_offset(&mut self, off: &BlindingFactor) -> Value {
		if self.offsets.is_empty() {
			for k in -40000i64..=40000 {
				self.offsets.insert(blind(k).as_ref().to_vec(), k);
			}
		}
		match self.offsets.get(&off.as_ref().to_vec()) {
			Some(k) => json!(k),
			None => json!("?"),
		}
	}

	fn proj_body(&self, body: &TransactionBody) -> Value {
		let ins: Vec<CommitWrapper> = body.inputs().into();
		let mut i: Vec<Value> = ins.iter().map(|c| self.proj_commit(&c.commitment())).collect();
		let mut o: Vec<Value> = body
			.outputs()
			.iter()
			.map(|o| {
				let mut p = self.proj_commit(&o.commitment());
				p.as_array_mut().unwrap().push(json!(o.is_coinbase()));
				// the proof must be the one the model output carried
				let ok = match self.commits.get(&o.commitment().0.to_vec()) {
					Some(vr) => self.proofs.get(vr).map(|p| p.proof[..] == o.proof.proof[..]).unwrap_or(false),
					None => false,
				};
				p.as_array_mut().unwrap().push(json!(ok));
				if !ok {
					// one of the other proofs made for this commitment: [v, r, cb, false, variant]
					if let Some((v, r)) = self.commits.get(&o.commitment().0.to_vec()) {
						for ((av, ar, pv), ap) in self.alt_proofs.iter() {
							if av == v && ar == r && ap.proof[..] == o.proof.proof[..] {
								p.as_array_mut().unwrap().push(json!(pv));
							}
						}
					}
				}
				p
			})
			.collect();
		let mut k: Vec<Value> = body
			.kernels()
			.iter()
			.map(|k| match self.kernel_ids.get(&k.hash()) {
				Some(id) => json!(id),
				None => json!("?"),
			})
			.collect();
		let key = |v: &Value| v.to_string();
		i.sort_by_key(key);
		o.sort_by_key(key);
		k.sort_by_key(|v| v.as_i64().unwrap_or(i64::MAX));
		json!({"ins": i, "outs": o, "kerns": k})
	}

	fn proj_tx(&mut self, tx: &Transaction) -> Value {
		let mut p = self.proj_body(&tx.body);
		p["off"] = self.proj_offset(&tx.offset);
		p
	}
}

fn class<T, E: std::fmt::Debug>(r: std::thread::Result<Result<T, E>>) -> (String, String) {
	match r {
		Ok(Ok(_)) => ("ok".into(), "".into()),
		Ok(Err(e)) => ("err".into(), format!("{:?}", e)),
		Err(_) => ("panic".into(), "".into()),
	}
}

// ------------------------------------------------------------------------------------------
// C01: validate model bodies as transaction / as block

fn validate_cmd(args: &Args) -> i32 {
	let cases = read_ndjson(args.req("cases"));
	let mut out = NdWriter::create(args.req("out"));
	let mut ms = ModelSecp::new();
	for c in &cases {
		let ctx = &c["ctx"];
		global::set_local_nrd_enabled(ctx["nrd"].as_bool().unwrap_or(true));
		let (res, err) = if ctx["as"] == "tx" {
			let tx = ms.tx(&c["body"]);
			class(catch_unwind(AssertUnwindSafe(|| tx.validate(Weighting::AsTransaction))))
		} else {
			let b = ms.block(&c["body"], ctx);
			let prev = blind(ctx["prev"].as_i64().unwrap());
			class(catch_unwind(AssertUnwindSafe(|| b.validate(&prev))))
		};
		out.put(&json!({"id": c["id"], "res": res, "err": err}));
	}
	out.finish();
	println!("{}", json!({"cases": cases.len(), "proofs_made": ms.proofs_made, "sigs_made": ms.sigs_made}));
	0
}

// ------------------------------------------------------------------------------------------
// C12: aggregate / deaggregate / compact + hydrate

/// A plan is an index into the case's txs, or an array of plans aggregated in that order.
fn eval_plan(plan: &Value, txs: &[Transaction]) -> Result<Transaction, transaction::Error> {
	match plan {
		Value::Number(n) => Ok(txs[n.as_u64().unwrap() as usize].clone()),
		Value::Array(a) => {
			let mut parts = vec![];
			for p in a {
				parts.push(eval_plan(p, txs)?);
			}
			transaction::aggregate(&parts)
		}
		_ => panic!("bad plan"),
	}
}

fn body_bytes(b: &TransactionBody) -> Vec<u8> {
	ser::ser_vec(b, ser::ProtocolVersion(3)).expect("ser body")
}

fn agg_cmd(args: &Args) -> i32 {
	let cases = read_ndjson(args.req("cases"));
	let mut out = NdWriter::create(args.req("out"));
	let mut ms = ModelSecp::new();
	let mut valid_cache: HashMap<Vec<u8>, (String, String)> = HashMap::new();
	for c in &cases {
		let txs: Vec<Transaction> = c["txs"].as_array().unwrap().iter().map(|b| ms.tx(b)).collect();
		let mut o = json!({"id": c["id"]});
		// every operand is itself valid (precondition of the property; reported, not assumed)
		let mut operands_ok = true;
		for t in &txs {
			let key = ser::ser_vec(t, ser::ProtocolVersion(3)).unwrap();
			let r = valid_cache
				.entry(key)
				.or_insert_with(|| class(catch_unwind(AssertUnwindSafe(|| t.validate(Weighting::AsTransaction)))));
			operands_ok &= r.0 == "ok";
		}
		o["operands_ok"] = json!(operands_ok);

		// aggregation in the given order / grouping
		if let Some(plans) = c.get("plans").and_then(|p| p.as_array()) {
			let mut res = vec![];
			for plan in plans {
				let r = catch_unwind(AssertUnwindSafe(|| eval_plan(plan, &txs)));
				match r {
					Ok(Ok(tx)) => {
						let key = ser::ser_vec(&tx, ser::ProtocolVersion(3)).unwrap();
						let v = valid_cache
							.entry(key)
							.or_insert_with(|| class(catch_unwind(AssertUnwindSafe(|| tx.validate(Weighting::AsTransaction)))))
							.clone();
						res.push(json!({"res": "ok", "proj": ms.proj_tx(&tx), "valid": v.0, "verr": v.1}));
					}
					Ok(Err(e)) => res.push(json!({"res": "err", "err": format!("{:?}", e)})),
					Err(_) => res.push(json!({"res": "panic"})),
				}
			}
			o["plans"] = json!(res);
		}

		// deaggregation: deaggregate(aggregate(all in mk), txs in sub)
		if let Some(ds) = c.get("deaggs").and_then(|p| p.as_array()) {
			let mut res = vec![];
			for d in ds {
				let r = catch_unwind(AssertUnwindSafe(|| {
					let mk = eval_plan(&d["mk"], &txs)?;
					let sub: Vec<Transaction> = d["sub"]
						.as_array()
						.unwrap()
						.iter()
						.map(|p| eval_plan(p, &txs))
						.collect::<Result<Vec<_>, _>>()?;
					transaction::deaggregate(mk, &sub)
				}));
				match r {
					Ok(Ok(tx)) => {
						let v = class(catch_unwind(AssertUnwindSafe(|| tx.validate(Weighting::AsTransaction))));
						res.push(json!({"res": "ok", "proj": ms.proj_tx(&tx), "valid": v.0, "verr": v.1}));
					}
					Ok(Err(e)) => res.push(json!({"res": "err", "err": format!("{:?}", e)})),
					Err(_) => res.push(json!({"res": "panic"})),
				}
			}
			o["deaggs"] = json!(res);
		}

		// block from the txs + reward, compact form, hydration from the same txs in each grouping
		if let Some(bl) = c.get("block") {
			let r = catch_unwind(AssertUnwindSafe(|| hydrate_case(&mut ms, bl, &txs)));
			o["block"] = match r {
				Ok(v) => v,
				Err(_) => json!({"res": "panic"}),
			};
		}
		out.put(&o);
	}
	out.finish();
	println!("{}", json!({"cases": cases.len(), "proofs_made": ms.proofs_made, "sigs_made": ms.sigs_made}));
	0
}

fn hydrate_case(ms: &mut ModelSecp, bl: &Value, txs: &[Transaction]) -> Value {
	let reward_out = ms.output(&bl["cb_out"]);
	let reward_kern = ms.kernel(&bl["cb_kern"]);
	let prev = BlockHeader {
		height: bl["height"].as_u64().unwrap() - 1,
		total_kernel_offset: blind(bl["prev"].as_i64().unwrap()),
		..Default::default()
	};
	// The block is built from the transactions as given (flat) and, when the case lists `builds`,
	// from each of those groupings as well (a miner aggregating pre-aggregated pool entries): every
	// build whose parts exist must give the same body and total offset. Hydration below is run on
	// the first block that could be built.
	let mut build_plans: Vec<Value> = vec![json!((0..txs.len()).collect::<Vec<usize>>())];
	if let Some(bs) = bl.get("builds").and_then(|b| b.as_array()) {
		build_plans.extend(bs.iter().cloned());
	}
	let mut builds = vec![];
	let mut reference: Option<(usize, Block)> = None;
	for (bi, g) in build_plans.iter().enumerate() {
		let parts: Result<Vec<Transaction>, _> = g.as_array().unwrap().iter().map(|p| eval_plan(p, txs)).collect();
		let parts = match parts {
			Ok(p) => p,
			Err(e) => {
				builds.push(json!({"res": "parts_err", "err": format!("{:?}", e)}));
				continue;
			}
		};
		match Block::from_reward(&prev, &parts, reward_out, reward_kern, grin_core::pow::Difficulty::min_dma()) {
			Ok(b) => {
				let mut r = json!({"res": "ok"});
				match &reference {
					Some((_, rb)) => {
						r["same_body"] = json!(rb.body == b.body && body_bytes(&rb.body) == body_bytes(&b.body));
						r["same_total"] = json!(rb.header.total_kernel_offset == b.header.total_kernel_offset);
						if r["same_body"] != json!(true) {
							r["proj"] = ms.proj_body(&b.body);
						}
					}
					None => reference = Some((bi, b)),
				}
				builds.push(r);
			}
			Err(e) => builds.push(json!({"res": "err", "err": format!("{:?}", e)})),
		}
	}
	let (ref_ix, b) = match reference {
		Some(x) => x,
		None => return json!({"res": "err", "err": builds[0]["err"], "builds": builds}),
	};
	let (bv, bverr) = class(catch_unwind(AssertUnwindSafe(|| b.validate(&prev.total_kernel_offset))));
	let mut res = json!({"res": "ok", "proj": ms.proj_body(&b.body), "total": ms.proj_offset(&b.header.total_kernel_offset),
		"valid": bv, "verr": bverr, "builds": builds, "ref": ref_ix});
	let want_bytes = body_bytes(&b.body);
	let mut hyd = vec![];
	for g in bl["groupings"].as_array().unwrap() {
		// a grouping is a list of plans: each plan is one (possibly pre-aggregated) transaction
		let cb: CompactBlock = b.clone().into();
		// short ids announced by the compact block are those of the non-coinbase kernels under its nonce
		let mut ids_ok = cb.kern_ids().len() == b.kernels().iter().filter(|k| !k.is_coinbase()).count();
		for k in b.kernels().iter().filter(|k| !k.is_coinbase()) {
			let sid = k.short_id(&cb.header.hash(), cb.nonce);
			ids_ok &= cb.kern_ids().contains(&sid);
		}
		let parts: Result<Vec<Transaction>, _> = g.as_array().unwrap().iter().map(|p| eval_plan(p, txs)).collect();
		let parts = match parts {
			Ok(p) => p,
			Err(e) => {
				hyd.push(json!({"res": "parts_err", "err": format!("{:?}", e)}));
				continue;
			}
		};
		let full_out = cb.out_full().len();
		let full_kern = cb.kern_full().len();
		match Block::hydrate_from(cb, &parts) {
			Ok(hb) => {
				let same_hash = hb.header.hash() == b.header.hash() && hb.header == b.header;
				let same_body = hb.body == b.body && body_bytes(&hb.body) == want_bytes;
				let mut h = json!({"res": "ok", "same_hash": same_hash, "same_body": same_body, "ids_ok": ids_ok,
					"full_out": full_out, "full_kern": full_kern});
				if !same_body {
					h["proj"] = ms.proj_body(&hb.body);
				}
				hyd.push(h);
			}
			Err(e) => hyd.push(json!({"res": "err", "err": format!("{:?}", e)})),
		}
	}
	res["hydrated"] = json!(hyd);
	res
}
