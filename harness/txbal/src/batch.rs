//! C01 batch layer: executes TLC-generated batch plans (spec/TxBalanceBatch.tla) on the real
//! `TxKernel::batch_sig_verify`, `Output::batch_verify_proofs` and, for the "tx" route, on
//! `Transaction::validate` of a transaction whose kernel / output list is the batch.
//!
//! A plan is (kind, route, n, forged positions). Items are real kernels / outputs taken cyclically
//! from a small pool of distinct valid ones; a forged item is a valid one carrying the signature /
//! range proof of its neighbour in the pool ("swapped"). The harness reports the result class only.
use super::*;
use grin_core::core::transaction::Error as TxError;
use grin_core::core::Committed;

const KPOOL: usize = 16;
const PPOOL: usize = 6;

struct Pools {
	kern: Vec<TxKernel>,
	kern_forged: Vec<TxKernel>,
	commits: Vec<Commitment>,
	proofs: Vec<RangeProof>,
}

fn pools(ms: &mut ModelSecp) -> Pools {
	let kern: Vec<TxKernel> = (0..KPOOL)
		.map(|i| ms.kernel(&json!({"kind": "plain", "fee": 1, "lock": 0, "rel": 0, "x": 1000 + i as i64, "sg": true, "sid": i})))
		.collect();
	let kern_forged: Vec<TxKernel> = (0..KPOOL)
		.map(|i| {
			let mut k = kern[i];
			k.excess_sig = kern[(i + 1) % KPOOL].excess_sig;
			k
		})
		.collect();
	let commits: Vec<Commitment> = (0..PPOOL).map(|i| ms.commit(i as i64, 50 + i as i64)).collect();
	let proofs: Vec<RangeProof> = (0..PPOOL).map(|i| ms.proof(i as i64, 50 + i as i64)).collect();
	Pools {
		kern,
		kern_forged,
		commits,
		proofs,
	}
}

fn positions(c: &Value) -> Vec<usize> {
	c["forged"].as_array().unwrap().iter().map(|p| p.as_u64().unwrap() as usize).collect()
}

/// The pool items are what the plan says they are (reported, judged by the driver).
fn pool_sanity(p: &Pools) -> Value {
	let valid_k = p.kern.iter().all(|k| k.verify().is_ok());
	let forged_k = p.kern_forged.iter().all(|k| k.verify().is_err());
	let secp = static_secp_instance();
	let secp = secp.lock();
	let valid_p = (0..PPOOL).all(|i| secp.verify_bullet_proof(p.commits[i], p.proofs[i], None).is_ok());
	let forged_p = (0..PPOOL).all(|i| secp.verify_bullet_proof(p.commits[i], p.proofs[(i + 1) % PPOOL], None).is_err());
	json!({"valid_kernels_verify": valid_k, "forged_kernels_refused": forged_k,
		"valid_proofs_verify": valid_p, "forged_proofs_refused": forged_p})
}

fn raw_commit(value: u64, r: i64) -> Commitment {
	let secp = static_secp_instance();
	let k = scalar(r).expect("non-zero blind");
	let c = secp.lock().commit(value, k).expect("commit");
	c
}

fn raw_proof(value: u64, r: i64) -> RangeProof {
	let k = scalar(r).expect("non-zero blind");
	let mut nb = [9u8; 32];
	nb[0..8].copy_from_slice(&value.to_be_bytes());
	nb[8..16].copy_from_slice(&(r as u64).to_be_bytes());
	let secp = static_secp_instance();
	let secp = secp.lock();
	let nonce = SecretKey::from_slice(&secp, &nb).expect("nonce");
	secp.bullet_proof(value, k, nonce.clone(), nonce, None, None)
}

/// A transaction (mainnet weights) with `n` kernels that balances, has a valid range proof on its
/// single output and mints MINTED nanogrin under the kernel at sorted index `idx` (its excess hides
/// the minted value, its signature is a genuine signature of somebody else's key). With
/// `idx = None` every kernel is honest and the transaction is valid.
fn big_kernel_tx(n: usize, idx: Option<usize>) -> Result<(Transaction, Option<usize>, u64), String> {
	const MINTED: u64 = 1_000_000_000_000_000;
	let fee1 = FeeFields::try_from(1u64).unwrap();
	let features = KernelFeatures::Plain { fee: fee1 };
	let msg = features.kernel_sig_msg().unwrap();
	let honest = if idx.is_some() { n - 1 } else { n };
	let sign = |x: i64| -> TxKernel {
		let excess = commit(0, x);
		let bx = blind(x);
		let secp = static_secp_instance();
		let secp = secp.lock();
		let pk = excess.to_pubkey(&secp).expect("pubkey");
		let sig = aggsig::sign_with_blinding(&secp, &msg, &bx, Some(&pk)).expect("sign");
		TxKernel {
			features,
			excess,
			excess_sig: sig,
		}
	};
	let mut kernels: Vec<TxKernel> = (0..honest).map(|i| sign(10_000 + i as i64)).collect();
	let sum_x: i64 = (0..honest).map(|i| 10_000 + i as i64).sum();
	let (r_in, r_out) = (7i64, 9i64);
	let v_in = 4 * UNIT;
	let fees = n as u64;
	let mut tries = 0u64;
	let mut realised = None;
	let v_out;
	if let Some(want) = idx {
		v_out = v_in - fees + MINTED;
		// r_out - r_in = sum_x + xf
		let xf = r_out - r_in - sum_x;
		let excess = raw_commit(MINTED, xf);
		let mut hashes: Vec<Hash> = kernels.iter().map(|k| k.hash()).collect();
		hashes.sort();
		// grind the donor signature until the forged kernel sorts to the wanted index
		let mut found = None;
		for c in 1..2_000_000i64 {
			tries += 1;
			let donor = sign(5_000_000 + c);
			let k = TxKernel {
				features,
				excess,
				excess_sig: donor.excess_sig,
			};
			let h = k.hash();
			let pos = hashes.partition_point(|x| *x < h);
			if pos == want {
				found = Some(k);
				break;
			}
		}
		match found {
			Some(k) => {
				if k.verify().is_ok() {
					return Err("forged kernel verifies".into());
				}
				kernels.push(k);
				realised = Some(want);
			}
			None => return Err("grind failed".into()),
		}
	} else {
		// honest remainder kernel closes the sums: r_out - r_in = sum_x (adjust the output blind)
		v_out = v_in - fees;
	}
	let r_out = if idx.is_some() { r_out } else { r_in + sum_x };
	let input = CommitWrapper::from(raw_commit(v_in, r_in));
	let output = Output::new(OutputFeatures::Plain, raw_commit(v_out, r_out), raw_proof(v_out, r_out));
	let tx = Transaction::new(Inputs::from(&[input][..]), &[output], &kernels);
	if let Some(want) = realised {
		if tx.kernels()[want].verify().is_ok() {
			return Err("kernel at the wanted index is not the forged one".into());
		}
	}
	Ok((tx, realised, tries))
}

/// A transaction with `n` outputs (model values) that balances and whose output at sorted index
/// `idx` carries the range proof of another output.
fn big_output_tx(ms: &mut ModelSecp, n: usize, forged: &[usize]) -> Transaction {
	let mut outs: Vec<Output> = (0..n)
		.map(|j| ms.output(&json!({"v": (j % 3) as i64, "r": 2000 + j as i64, "cb": false, "pf": true})))
		.collect();
	outs.sort();
	let vsum: i64 = (0..n).map(|j| (j % 3) as i64).sum();
	let rsum: i64 = (0..n).map(|j| 2000 + j as i64).sum();
	let donor = ms.proof(1, 1999);
	for f in forged {
		outs[*f].proof = donor;
	}
	// one input carrying all the value plus one unit of fee; one kernel closing the blinds
	let input = CommitWrapper::from(ms.commit(vsum + 1, 3));
	let kern = ms.kernel(&json!({"kind": "plain", "fee": 1, "lock": 0, "rel": 0, "x": rsum - 3, "sg": true, "sid": 1}));
	Transaction::new(Inputs::from(&[input][..]), &outs, &[kern])
}

fn class_tx(r: std::thread::Result<Result<(), TxError>>) -> (String, String) {
	class(r)
}

pub fn batch_cmd(args: &Args) -> i32 {
	let cases = read_ndjson(args.req("cases"));
	let mut out = NdWriter::create(args.req("out"));
	let mut ms = ModelSecp::new();
	let p = pools(&mut ms);
	let sanity = pool_sanity(&p);
	let mut items = 0u64;
	for c in &cases {
		let kind = c["kind"].as_str().unwrap();
		let route = c["route"].as_str().unwrap();
		let n = c["n"].as_u64().unwrap() as usize;
		let forged = positions(c);
		let t0 = std::time::Instant::now();
		let mut o = json!({"id": c["id"]});
		items += n as u64;
		match (kind, route) {
			("sig", "batch") => {
				let v: Vec<TxKernel> = (0..n)
					.map(|i| if forged.contains(&i) { p.kern_forged[i % KPOOL] } else { p.kern[i % KPOOL] })
					.collect();
				let (res, err) = class_tx(catch_unwind(AssertUnwindSafe(|| TxKernel::batch_sig_verify(&v))));
				o["res"] = json!(res);
				o["err"] = json!(err);
			}
			("proof", "batch") => {
				let commits: Vec<Commitment> = (0..n).map(|i| p.commits[i % PPOOL]).collect();
				let proofs: Vec<RangeProof> = (0..n)
					.map(|i| if forged.contains(&i) { p.proofs[(i + 1) % PPOOL] } else { p.proofs[i % PPOOL] })
					.collect();
				let (res, err) =
					class_tx(catch_unwind(AssertUnwindSafe(|| Output::batch_verify_proofs(&commits, &proofs))));
				o["res"] = json!(res);
				o["err"] = json!(err);
			}
			("sig", "tx") => {
				global::set_local_chain_type(global::ChainTypes::Mainnet);
				match big_kernel_tx(n, forged.get(0).copied()) {
					Ok((tx, _, tries)) => {
						let pre = tx.validate_read().is_ok()
							&& tx.verify_kernel_sums(tx.fee() as i64, tx.offset.clone()).is_ok()
							&& tx.kernels().len() == n;
						let (res, err) =
							class_tx(catch_unwind(AssertUnwindSafe(|| tx.validate(Weighting::AsTransaction))));
						o["res"] = json!(res);
						o["err"] = json!(err);
						// everything but the signatures is in order (the signature check alone decides)
						o["others_ok"] = json!(pre);
						o["grind_tries"] = json!(tries);
					}
					Err(e) => {
						o["res"] = json!("setup");
						o["err"] = json!(e);
					}
				}
				global::set_local_chain_type(global::ChainTypes::AutomatedTesting);
			}
			("proof", "tx") => {
				global::set_local_chain_type(global::ChainTypes::Mainnet);
				let tx = big_output_tx(&mut ms, n, &forged);
				let pre = tx.validate_read().is_ok()
					&& tx.verify_kernel_sums(tx.fee() as i64, tx.offset.clone()).is_ok()
					&& tx.outputs().len() == n
					&& TxKernel::batch_sig_verify(tx.kernels()).is_ok();
				let (res, err) = class_tx(catch_unwind(AssertUnwindSafe(|| tx.validate(Weighting::AsTransaction))));
				o["res"] = json!(res);
				o["err"] = json!(err);
				o["others_ok"] = json!(pre);
				global::set_local_chain_type(global::ChainTypes::AutomatedTesting);
			}
			_ => panic!("bad batch plan {}", c),
		}
		o["ms"] = json!(t0.elapsed().as_millis() as u64);
		out.put(&o);
	}
	out.finish();
	println!(
		"{}",
		json!({"cases": cases.len(), "items": items, "proofs_made": ms.proofs_made, "sigs_made": ms.sigs_made, "pool_sanity": sanity})
	);
	0
}
