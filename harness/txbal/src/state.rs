//! C01 full-state layer: realises a TLC-generated state plan (spec/TxBalanceState.tla) as a real
//! chain directory and asks the real full-state validator (`Chain::validate(fast)` =
//! `txhashset::Extension::validate`) for its verdict.
//!
//! A plan is a sequence of blocks in model values. Blocks up to `pipeline_upto` go through the
//! normal block pipeline (`Chain::process_block`); the others are written straight into the
//! header MMR, the txhashset and the db (apply_block inside `txhashset::extending`, roots and sizes
//! checked against the block's own header), the way a downloaded state becomes the node's state.
//! The harness reports result classes, sizes and the realised MMR indices of the forged items.
use super::*;
use chrono::Duration;
use grin_chain::types::NoopAdapter;
use grin_chain::{txhashset, Chain, Options, Tip};
use grin_core::genesis;
use grin_core::pow::{self, Difficulty};
use std::collections::HashSet;
use std::sync::Arc;

fn init_chain(dir: &str) -> Chain {
	Chain::init(
		dir.to_string(),
		Arc::new(NoopAdapter {}),
		genesis::genesis_dev(),
		pow::verify_size,
		false,
		None,
	)
	.expect("chain init")
}

/// Make `b` the head of the node's state without the block pipeline.
fn adopt_state(chain: &Chain, b: &Block) -> Result<(), grin_chain::Error> {
	let store = chain.store();
	let header_pmmr = chain.header_pmmr();
	let txhashset = chain.txhashset();
	let mut header_pmmr = header_pmmr.write();
	let mut txhashset = txhashset.write();
	let mut batch = store.batch()?;
	batch.save_block_header(&b.header)?;
	batch.save_block(b)?;
	txhashset::header_extending(&mut header_pmmr, &mut batch, |ext, batch| {
		// the header MMR may already hold this header (the block was offered to the pipeline, which keeps the
		// header of a block it refuses): go back to the previous header first
		let prev = batch.get_previous_header(&b.header)?;
		if ext.head().last_block_h != prev.hash() {
			ext.rewind(&prev)?;
		}
		ext.apply_header(&b.header)
	})?;
	txhashset::extending(&mut header_pmmr, &mut txhashset, &mut batch, |ext, batch| {
		ext.extension.apply_block(b, ext.header_extension, batch)?;
		// the adopted state is exactly the one the header commits to
		ext.extension.validate_roots(&b.header)?;
		ext.extension.validate_sizes(&b.header)?;
		Ok(())
	})?;
	let tip = Tip::from_header(&b.header);
	batch.save_header_head(&tip)?;
	batch.save_body_head(&tip)?;
	batch.commit()?;
	Ok(())
}

/// The filler transaction of a block: `no` zero-valued outputs and `nk` kernels with offset `h`,
/// balanced by its last kernel.
fn filler_tx(ms: &mut ModelSecp, h: i64, nk: i64, no: i64) -> Option<Transaction> {
	if nk == 0 {
		assert!(no == 0, "filler outputs need a kernel");
		return None;
	}
	let outs: Vec<Output> = (0..no)
		.map(|j| ms.output(&json!({"v": 0, "r": 200_000 + h * 1000 + j, "cb": false, "pf": true})))
		.collect();
	let rsum: i64 = (0..no).map(|j| 200_000 + h * 1000 + j).sum();
	let off = h;
	let mut xs: Vec<i64> = (0..nk - 1).map(|j| 100_000 + h * 1000 + j).collect();
	let last = rsum - xs.iter().sum::<i64>() - off;
	assert!(last != 0);
	xs.push(last);
	let kerns: Vec<TxKernel> = xs
		.iter()
		.map(|x| ms.kernel(&json!({"kind": "plain", "fee": 0, "lock": 0, "rel": 0, "x": x, "sg": true, "sid": 0})))
		.collect();
	let none: Vec<CommitWrapper> = vec![];
	Some(Transaction::new(Inputs::from(&none[..]), &outs, &kerns).with_offset(blind(off)))
}

struct Built {
	block: Block,
}

fn build_block(ms: &mut ModelSecp, chain: &Chain, prev: &BlockHeader, bj: &Value, salt: u64) -> Result<Built, String> {
	let h = bj["h"].as_i64().unwrap();
	let mut txs: Vec<Transaction> = vec![];
	if let Some(a) = bj.get("txs").and_then(|t| t.as_array()) {
		for t in a {
			txs.push(ms.tx(t));
		}
	}
	let fk = bj.get("fill_k").and_then(|v| v.as_i64()).unwrap_or(0);
	let fo = bj.get("fill_o").and_then(|v| v.as_i64()).unwrap_or(0);
	if let Some(t) = filler_tx(ms, h, fk, fo) {
		txs.push(t);
	}
	let out = ms.output(&bj["cb_out"]);
	let kern = ms.kernel(&bj["cb_kern"]);
	let mut b = Block::from_reward(prev, &txs, out, kern, Difficulty::from_num(2)).map_err(|e| format!("from_reward {:?}", e))?;
	b.header.timestamp = prev.timestamp + Duration::seconds(60);
	// the header hash covers the proof of work only: one distinct proof per (plan, height)
	let ps = global::proofsize() as u64;
	b.header.pow.proof = pow::Proof::new((0..ps).map(|i| (salt * 131 + h as u64 * 17 + i * 7919 + 1) & 0x3ff).collect());
	chain.set_txhashset_roots(&mut b).map_err(|e| format!("set_txhashset_roots {:?}", e))?;
	Ok(Built { block: b })
}

fn run_plan(ms: &mut ModelSecp, c: &Value, dir: &str) -> Value {
	let _ = std::fs::remove_dir_all(dir);
	let mut o = json!({"id": c["id"]});
	let t0 = std::time::Instant::now();
	{
		let chain = init_chain(dir);
		let mut head = chain.head_header().expect("head");
		let upto = c["pipeline_upto"].as_i64().unwrap();
		let salt = c["id"].as_u64().unwrap_or(0);
		let mut kidx = 0u64; // kernel MMR leaf index of the next kernel
		let mut oidx = 0u64; // output MMR leaf index of the next output
		let mut forged_k: Vec<u64> = vec![];
		let mut forged_o: Vec<Value> = vec![];
		let mut spent: HashSet<Vec<u8>> = HashSet::new();
		let mut out_commits: Vec<(Vec<u8>, u64, bool)> = vec![];
		let mut piped = 0u64;
		let mut adopted = 0u64;
		for bj in c["blocks"].as_array().unwrap() {
			let h = bj["h"].as_i64().unwrap();
			let built = match build_block(ms, &chain, &head, bj, salt) {
				Ok(b) => b,
				Err(e) => {
					o["res"] = json!("setup");
					o["err"] = json!(format!("block {}: {}", h, e));
					return o;
				}
			};
			let b = built.block;
			for k in b.kernels() {
				if ms.forged_kernels.contains(&k.hash()) {
					forged_k.push(kidx);
				}
				kidx += 1;
			}
			for out in b.outputs() {
				let bad = ms.forged_outputs.contains(&(out.commitment().0.to_vec(), out.proof.proof.to_vec()));
				out_commits.push((out.commitment().0.to_vec(), oidx, bad));
				oidx += 1;
			}
			let ins: Vec<CommitWrapper> = b.inputs().into();
			for i in ins {
				spent.insert(i.commitment().0.to_vec());
			}
			// the pipe route: the corrupted block is offered to the real block pipeline under each option set
			// (on top of the honest prefix that went through it) before it is written past it
			let mut piped_forged = false;
			if let Some(ps) = c.get("pipe").and_then(|p| p.as_array()) {
				let mut rs = vec![];
				for p in ps.iter().filter(|p| p["h"].as_i64() == Some(h)) {
					let opts = match p["opt"].as_str().unwrap() {
						"NONE" => Options::NONE,
						"SYNC" => Options::SYNC,
						"MINE" => Options::MINE,
						x => panic!("option {}", x),
					} | Options::SKIP_POW;
					if piped_forged {
						rs.push(json!({"opt": p["opt"], "res": "not_run"}));
						continue;
					}
					let (res, err) = class(catch_unwind(AssertUnwindSafe(|| chain.process_block(b.clone(), opts))));
					if res == "ok" {
						piped_forged = chain.head().map(|t| t.last_block_h == b.hash()).unwrap_or(false);
					}
					rs.push(json!({"opt": p["opt"], "res": res, "err": err, "became_head": piped_forged}));
				}
				if !rs.is_empty() {
					o["pipe"] = json!(rs);
				}
			}
			if piped_forged {
				// the pipeline took it: it is the head already
			} else if h <= upto {
				let r = catch_unwind(AssertUnwindSafe(|| chain.process_block(b.clone(), Options::SKIP_POW)));
				match r {
					Ok(Ok(_)) => piped += 1,
					Ok(Err(e)) => {
						o["res"] = json!("pipeline_refused");
						o["err"] = json!(format!("block {}: {:?}", h, e));
						return o;
					}
					Err(_) => {
						o["res"] = json!("pipeline_panic");
						o["err"] = json!(format!("block {}", h));
						return o;
					}
				}
			} else {
				if let Err(e) = adopt_state(&chain, &b) {
					o["res"] = json!("setup");
					o["err"] = json!(format!("adopt block {}: {:?}", h, e));
					return o;
				}
				adopted += 1;
			}
			head = b.header.clone();
		}
		let head_ok = chain.head().map(|t| t.last_block_h == head.hash()).unwrap_or(false);
		for (cm, idx, bad) in &out_commits {
			if *bad {
				forged_o.push(json!({"idx": idx, "unspent": !spent.contains(cm)}));
			}
		}
		let unspent = out_commits.iter().filter(|(cm, _, _)| !spent.contains(cm)).count();
		let build_ms = t0.elapsed().as_millis() as u64;
		let t1 = std::time::Instant::now();
		let (fast, fast_err) = class(catch_unwind(AssertUnwindSafe(|| chain.validate(true))));
		let (full, full_err) = class(catch_unwind(AssertUnwindSafe(|| chain.validate(false))));
		o["res"] = json!("done");
		o["fast"] = json!(fast);
		o["fast_err"] = json!(fast_err);
		o["full"] = json!(full);
		o["full_err"] = json!(full_err);
		o["head_ok"] = json!(head_ok);
		o["n_kernels"] = json!(kidx);
		o["kernel_mmr_count"] = json!(head.kernel_mmr_count());
		o["n_outputs"] = json!(oidx);
		o["n_unspent"] = json!(unspent);
		o["forged_kernel_idx"] = json!(forged_k);
		o["forged_outputs"] = json!(forged_o);
		o["piped"] = json!(piped);
		o["adopted"] = json!(adopted);
		o["build_ms"] = json!(build_ms);
		o["validate_ms"] = json!(t1.elapsed().as_millis() as u64);
	}
	let _ = std::fs::remove_dir_all(dir);
	o
}

pub fn state_cmd(args: &Args) -> i32 {
	let cases = read_ndjson(args.req("cases"));
	let mut out = NdWriter::create(args.req("out"));
	let dir = args.req("dir").to_string();
	let mut ms = ModelSecp::new();
	for c in &cases {
		let d = format!("{}/chain_{}", dir, c["id"]);
		let o = run_plan(&mut ms, c, &d);
		out.put(&o);
	}
	out.finish();
	println!("{}", json!({"cases": cases.len(), "proofs_made": ms.proofs_made, "sigs_made": ms.sigs_made}));
	0
}
