//! C09 engine: kill the node at every durable step of a persistence scenario, reopen, validate,
//! re-deliver. Crash points come from the cfg(grin_verif) hook `util::verif::crash_point`.
use grin_chain::{Chain, Options, Tip};
use grin_core::core::hash::Hashed;
use grin_core::core::{Block, Transaction};
use grin_core::global::{self, ChainTypes};
use grin_util::ToHex;
use serde_json::{json, Value};
use vcommon::chainkit::*;
use vcommon::*;

fn copy_dir(from: &str, to: &str) {
	let _ = std::fs::remove_dir_all(to);
	std::fs::create_dir_all(to).unwrap();
	for e in std::fs::read_dir(from).unwrap() {
		let e = e.unwrap();
		let p = e.path();
		let t = format!("{}/{}", to, e.file_name().to_string_lossy());
		if p.is_dir() {
			copy_dir(&p.to_string_lossy(), &t);
		} else {
			std::fs::copy(&p, &t).unwrap();
		}
	}
}

fn block_info(b: &Block) -> Value {
	json!({"hash": b.hash().to_hex(), "prev": b.header.prev_hash.to_hex(), "height": b.header.height,
		"work": b.header.total_difficulty().to_num()})
}

/// Build the base chain, the input blocks and the description of the scenario.
fn prepare(args: &Args) -> i32 {
	let sc = args.req("scenario").to_string();
	let dir = args.req("dir").to_string();
	let _ = std::fs::remove_dir_all(&dir);
	std::fs::create_dir_all(&dir).unwrap();
	let base_dir = format!("{}/base", dir);
	let g = genesis();
	let long = sc.starts_with("compact");
	let n = if long { args.u64("blocks", 90) } else { 6 };
	let fanout = args.u64("fanout", 2);
	let main_blocks: Vec<Block>;
	{
		let chain = init_chain(&base_dir).unwrap();
		main_blocks = grow_chain(&chain, 1, n, fanout);
	}
	let mut all: Vec<Block> = vec![g.clone()];
	all.extend(main_blocks.iter().cloned());
	let mut inputs: Vec<Block> = vec![];
	let mut ops: Vec<Value> = vec![];
	// a builder node (copy of base) on which fork blocks are processed so honest roots can be computed
	let bdir = format!("{}/builder", dir);
	copy_dir(&base_dir, &bdir);
	let builder = init_chain(&bdir).unwrap();
	let hdr = |h: u64| main_blocks[(h - 1) as usize].header.clone();
	match sc.as_str() {
		"extend" | "compact_block" => {
			let prev = builder.head_header().unwrap();
			let h = prev.height + 1;
			let tx: Transaction = coinbase_fanout_tx(h - 3, cb_value_of(&builder, h - 3), h, 3);
			let b = make_block(&builder, &prev, h, 1, &[tx]);
			if sc == "compact_block" {
				ops.push(json!({"op": "compact"}));
			}
			ops.push(json!({"op": "block", "hash": b.hash().to_hex()}));
			inputs.push(b);
		}
		"fork" => {
			// sibling of the head with equal work, spending the same coinbase differently
			let prev = hdr(n - 1);
			let tx = coinbase_fanout_tx(n - 3, cb_value_of(&builder, n - 3), 100 + n, 3);
			let b = make_block(&builder, &prev, 100 + n, 1, &[tx]);
			ops.push(json!({"op": "block", "hash": b.hash().to_hex()}));
			inputs.push(b);
		}
		"reorg" | "headers" => {
			// fork from height n-2: three blocks, the third out-works the head
			let mut prev = hdr(n - 2);
			let mut hs = vec![];
			for k in 0..3u64 {
				let h = prev.height + 1;
				let id = 200 + h;
				let mut txs = vec![];
				if k < 2 {
					// spends the same coinbases as the main chain did, into different outputs
					txs.push(coinbase_fanout_tx(h - 3, cb_value_of(&builder, h - 3), id, 3));
				}
				let b = make_block(&builder, &prev, id, 1, &txs);
				builder.process_block(b.clone(), Options::SKIP_POW).expect("builder fork block");
				prev = b.header.clone();
				hs.push(b.hash().to_hex());
				if sc == "reorg" {
					ops.push(json!({"op": "block", "hash": b.hash().to_hex()}));
				}
				inputs.push(b);
			}
			if sc == "headers" {
				ops.push(json!({"op": "headers", "hashes": hs}));
			}
		}
		"compact" => {
			ops.push(json!({"op": "compact"}));
		}
		x => {
			eprintln!("unknown scenario {}", x);
			return 2;
		}
	}
	drop(builder);
	let _ = std::fs::remove_dir_all(&bdir);
	all.extend(inputs.iter().cloned());
	save_blocks(&format!("{}/all.bin", dir), &all);
	let info: Vec<Value> = all.iter().map(block_info).collect();
	let desc = json!({"scenario": sc, "ops": ops, "blocks": info,
		"old_head": main_blocks.last().unwrap().hash().to_hex(), "main_len": n});
	std::fs::write(format!("{}/data.json", dir), serde_json::to_string(&desc).unwrap()).unwrap();
	println!("{}", desc["ops"]);
	0
}

fn load(data: &str) -> (Vec<Block>, Value) {
	let all = load_blocks(&format!("{}/all.bin", data));
	set_genesis(all[0].clone());
	let desc: Value = serde_json::from_str(&std::fs::read_to_string(format!("{}/data.json", data)).unwrap()).unwrap();
	(all, desc)
}

fn find<'a>(all: &'a [Block], hash: &str) -> &'a Block {
	all.iter().find(|b| b.hash().to_hex() == hash).expect("block by hash")
}

fn state(chain: &Chain) -> Value {
	json!({"head": chain.head().unwrap().last_block_h.to_hex(), "head_height": chain.head().unwrap().height,
		"header_head": chain.header_head().unwrap().last_block_h.to_hex(), "roots": roots_hex(chain)})
}

/// The operation under test, with crash points armed.
fn run(args: &Args) -> i32 {
	let (all, desc) = load(args.req("data"));
	let chain = init_chain(args.req("dir")).expect("init");
	grin_util::verif::arm(true);
	let mut results = vec![];
	for op in desc["ops"].as_array().unwrap() {
		match op["op"].as_str().unwrap() {
			"block" => {
				let b = find(&all, op["hash"].as_str().unwrap()).clone();
				let r = chain.process_block(b, Options::SKIP_POW);
				results.push(format!("{:?}", r.map(|t| t.map(|x| x.height))));
			}
			"headers" => {
				let hs: Vec<_> = op["hashes"].as_array().unwrap().iter()
					.map(|h| find(&all, h.as_str().unwrap()).header.clone()).collect();
				let sync_head: Tip = chain.header_head().unwrap();
				let r = chain.sync_block_headers(&hs, sync_head, Options::SKIP_POW);
				results.push(format!("{:?}", r.map(|t| t.map(|x| x.height))));
			}
			"compact" => {
				let r = chain.compact();
				results.push(format!("{:?}", r));
			}
			_ => {}
		}
	}
	grin_util::verif::arm(false);
	let mut s = state(&chain);
	s["results"] = json!(results);
	s["validate"] = json!(format!("{:?}", chain.validate(false)));
	println!("{}", s);
	0
}

/// After a kill: reopen, validate, re-deliver everything, compare.
fn recover(args: &Args) -> i32 {
	let (all, desc) = load(args.req("data"));
	let dir = args.req("dir").to_string();
	let opened = std::panic::catch_unwind(|| init_chain(&dir));
	let chain = match opened {
		Err(_) => {
			println!("{}", json!({"init": "panic"}));
			return 0;
		}
		Ok(Err(e)) => {
			println!("{}", json!({"init": "err", "err": format!("{:?}", e)}));
			return 0;
		}
		Ok(Ok(c)) => c,
	};
	let mut out = json!({"init": "ok", "reopened": state(&chain)});
	let v = std::panic::catch_unwind(std::panic::AssertUnwindSafe(|| chain.validate(false)));
	out["validate"] = json!(match &v { Ok(Ok(())) => "ok".to_string(), Ok(Err(e)) => format!("err:{:?}", e), Err(_) => "panic".into() });
	// re-deliver: every main-chain block, then the scenario's operations again
	let main_len = desc["main_len"].as_u64().unwrap() as usize;
	let mut errs = vec![];
	for b in all.iter().skip(1).take(main_len) {
		// only what is above the recovered head needs to be delivered again
		if b.header.height <= chain.head().map(|h| h.height).unwrap_or(0) {
			continue;
		}
		let r = std::panic::catch_unwind(std::panic::AssertUnwindSafe(|| chain.process_block(b.clone(), Options::SKIP_POW)));
		match r {
			Ok(Err(e)) => {
				let s = format!("{:?}", e);
				if !s.contains("Unfit") && !s.contains("OldBlock") {
					errs.push(format!("h{}:{}", b.header.height, s));
				}
			}
			Err(_) => errs.push(format!("h{}:panic", b.header.height)),
			_ => {}
		}
	}
	for op in desc["ops"].as_array().unwrap() {
		let r = std::panic::catch_unwind(std::panic::AssertUnwindSafe(|| -> Result<(), String> {
			match op["op"].as_str().unwrap() {
				"block" => {
					let b = find(&all, op["hash"].as_str().unwrap()).clone();
					match chain.process_block(b, Options::SKIP_POW) {
						Ok(_) => Ok(()),
						Err(e) => {
							let s = format!("{:?}", e);
							if s.contains("Unfit") || s.contains("OldBlock") { Ok(()) } else { Err(s) }
						}
					}
				}
				"headers" => {
					let hs: Vec<_> = op["hashes"].as_array().unwrap().iter()
						.map(|h| find(&all, h.as_str().unwrap()).header.clone()).collect();
					let sync_head: Tip = chain.header_head().unwrap();
					chain.sync_block_headers(&hs, sync_head, Options::SKIP_POW).map(|_| ()).map_err(|e| format!("{:?}", e))
				}
				"compact" => chain.compact().map_err(|e| format!("{:?}", e)),
				_ => Ok(()),
			}
		}));
		match r {
			Ok(Err(e)) => errs.push(format!("{}:{}", op["op"], e)),
			Err(_) => errs.push(format!("{}:panic", op["op"])),
			_ => {}
		}
	}
	out["redeliver_errors"] = json!(errs);
	out["final"] = state(&chain);
	let v = std::panic::catch_unwind(std::panic::AssertUnwindSafe(|| chain.validate(false)));
	out["final_validate"] = json!(match &v { Ok(Ok(())) => "ok".to_string(), Ok(Err(e)) => format!("err:{:?}", e), Err(_) => "panic".into() });
	println!("{}", out);
	0
}

fn main() {
	quiet_panics();
	global::set_local_chain_type(ChainTypes::AutomatedTesting);
	let a: Vec<String> = std::env::args().skip(1).collect();
	let args = Args::parse(&a);
	let rc = match args.pos.get(0).map(|s| s.as_str()) {
		Some("prepare") => prepare(&args),
		Some("run") => run(&args),
		Some("recover") => recover(&args),
		_ => {
			eprintln!("crash prepare|run|recover");
			2
		}
	};
	std::process::exit(rc);
}
