//! C09 engine: kill the node at every durable step of a persistence scenario, reopen, validate,
//! re-deliver. Crash points come from the cfg(grin_verif) hook `util::verif::crash_point`.
use grin_chain::{Chain, Options, Tip};
use grin_core::core::hash::Hashed;
use grin_core::core::pmmr::{ReadablePMMR, ReadonlyPMMR};
use grin_core::core::{Block, Transaction};
use grin_core::global::{self, ChainTypes};
use grin_keychain::Keychain;
use grin_util::ToHex;
use serde_json::{json, Value};
use vcommon::chainkit::*;
use vcommon::*;

fn copy_dir(from: &str, to: &str) {
	let _ = std::fs::remove_dir_all(to);
	std::fs::create_dir_all(to).unwrap();
	for e in std::fs::read_dir(from).unwrap() {
		let e = e.unwrap();
		let p = e.path();
		let t = format!("{}/{}", to, e.file_name().to_string_lossy());
		if p.is_dir() {
			copy_dir(&p.to_string_lossy(), &t);
		} else {
			std::fs::copy(&p, &t).unwrap();
		}
	}
}

fn block_info(b: &Block) -> Value {
	json!({"hash": b.hash().to_hex(), "prev": b.header.prev_hash.to_hex(), "height": b.header.height,
		"work": b.header.total_difficulty().to_num(), "prev_root": b.header.prev_root.to_hex()})
}

/// Build the base chain, the input blocks and the description of the scenario.
fn prepare(args: &Args) -> i32 {
	let sc = args.req("scenario").to_string();
	let dir = args.req("dir").to_string();
	let _ = std::fs::remove_dir_all(&dir);
	std::fs::create_dir_all(&dir).unwrap();
	let base_dir = format!("{}/base", dir);
	let g = genesis();
	let long = sc.starts_with("compact");
	let n = if long { args.u64("blocks", 90) } else { 6 };
	let fanout = args.u64("fanout", 2);
	let main_blocks: Vec<Block>;
	{
		let chain = init_chain(&base_dir).unwrap();
		main_blocks = grow_chain(&chain, 1, n, fanout);
	}
	let mut all: Vec<Block> = vec![g.clone()];
	all.extend(main_blocks.iter().cloned());
	let mut inputs: Vec<Block> = vec![];
	let mut ops: Vec<Value> = vec![];
	// a builder node (copy of base) on which fork blocks are processed so honest roots can be computed
	let bdir = format!("{}/builder", dir);
	copy_dir(&base_dir, &bdir);
	let builder = init_chain(&bdir).unwrap();
	let hdr = |h: u64| main_blocks[(h - 1) as usize].header.clone();
	match sc.as_str() {
		"extend" | "compact_block" => {
			let prev = builder.head_header().unwrap();
			let h = prev.height + 1;
			let tx: Transaction = coinbase_fanout_tx(h - 3, cb_value_of(&builder, h - 3), h, 3);
			let b = make_block(&builder, &prev, h, 1, &[tx]);
			if sc == "compact_block" {
				ops.push(json!({"op": "compact"}));
			}
			ops.push(json!({"op": "block", "hash": b.hash().to_hex()}));
			inputs.push(b);
		}
		"extend_plain" => {
			// two blocks without any spend: the leaf set only grows, so the start-up rewind to the old head
			// (a no-op on the MMR sizes) is all the recovery there is
			let mut prev = builder.head_header().unwrap();
			for _ in 0..2 {
				let h = prev.height + 1;
				let b = make_block(&builder, &prev, h, 1, &[]);
				builder.process_block(b.clone(), Options::SKIP_POW).expect("builder plain block");
				prev = b.header.clone();
				ops.push(json!({"op": "block", "hash": b.hash().to_hex()}));
				inputs.push(b);
			}
		}
		"fork" => {
			// sibling of the head with equal work, spending the same coinbase differently
			let prev = hdr(n - 1);
			let tx = coinbase_fanout_tx(n - 3, cb_value_of(&builder, n - 3), 100 + n, 3);
			let b = make_block(&builder, &prev, 100 + n, 1, &[tx]);
			ops.push(json!({"op": "block", "hash": b.hash().to_hex()}));
			inputs.push(b);
		}
		"reorg" | "headers" => {
			// fork from height n-2: three blocks, the third out-works the head
			let mut prev = hdr(n - 2);
			let mut hs = vec![];
			for k in 0..3u64 {
				let h = prev.height + 1;
				let id = 200 + h;
				let mut txs = vec![];
				if k < 2 {
					// spends the same coinbases as the main chain did, into different outputs
					txs.push(coinbase_fanout_tx(h - 3, cb_value_of(&builder, h - 3), id, 3));
				}
				let b = make_block(&builder, &prev, id, 1, &txs);
				builder.process_block(b.clone(), Options::SKIP_POW).expect("builder fork block");
				prev = b.header.clone();
				hs.push(b.hash().to_hex());
				if sc == "reorg" {
					ops.push(json!({"op": "block", "hash": b.hash().to_hex()}));
				}
				inputs.push(b);
			}
			if sc == "headers" {
				ops.push(json!({"op": "headers", "hashes": hs}));
			}
		}
		"compact" => {
			ops.push(json!({"op": "compact"}));
		}
		x => {
			eprintln!("unknown scenario {}", x);
			return 2;
		}
	}
	drop(builder);
	let _ = std::fs::remove_dir_all(&bdir);
	all.extend(inputs.iter().cloned());
	save_blocks(&format!("{}/all.bin", dir), &all);
	let info: Vec<Value> = all.iter().map(block_info).collect();
	let desc = json!({"scenario": sc, "ops": ops, "blocks": info,
		"old_head": main_blocks.last().unwrap().hash().to_hex(), "main_len": n});
	std::fs::write(format!("{}/data.json", dir), serde_json::to_string(&desc).unwrap()).unwrap();
	println!("{}", desc["ops"]);
	0
}

fn load(data: &str) -> (Vec<Block>, Value) {
	let all = load_blocks(&format!("{}/all.bin", data));
	set_genesis(all[0].clone());
	let desc: Value = serde_json::from_str(&std::fs::read_to_string(format!("{}/data.json", data)).unwrap()).unwrap();
	(all, desc)
}

fn find<'a>(all: &'a [Block], hash: &str) -> &'a Block {
	all.iter().find(|b| b.hash().to_hex() == hash).expect("block by hash")
}

/// Header-chain state: header_head of the database, the header MMR's own head / root / size, and what
/// `get_header_by_height` answers for every height up to header_head (the header MMR follows header_head).
fn header_state(chain: &Chain) -> Value {
	let hh = chain.header_head().unwrap();
	let (mmr_head, root, size) = {
		let pm = chain.header_pmmr();
		let h = pm.read();
		let root = std::panic::catch_unwind(std::panic::AssertUnwindSafe(|| ReadonlyPMMR::at(&h.backend, h.size).root()));
		(
			h.head_hash().map(|x| x.to_hex()).unwrap_or_else(|e| format!("err:{:?}", e)),
			match root { Ok(Ok(r)) => r.to_hex(), Ok(Err(e)) => format!("err:{}", e), Err(_) => "panic".to_string() },
			h.size,
		)
	};
	let by_height: Vec<String> = (0..=hh.height)
		.map(|h| {
			match std::panic::catch_unwind(std::panic::AssertUnwindSafe(|| chain.get_header_by_height(h))) {
				Ok(Ok(x)) => x.hash().to_hex(),
				Ok(Err(_)) => "err".to_string(),
				Err(_) => "panic".to_string(),
			}
		})
		.collect();
	json!({"header_height": hh.height, "mmr_head": mmr_head, "root": root, "size": size, "by_height": by_height})
}

fn state(chain: &Chain) -> Value {
	json!({"head": chain.head().unwrap().last_block_h.to_hex(), "head_height": chain.head().unwrap().height,
		"header_head": chain.header_head().unwrap().last_block_h.to_hex(), "roots": roots_hex(chain),
		"hdr": header_state(chain)})
}

/// Arm / disarm the LD_PRELOAD syscall-level fault injector (harness/crash/shim/crashshim.c), if loaded:
/// creating the marker file arms it, removing the file disarms it.
fn shim_arm(on: bool) {
	if let Ok(m) = std::env::var("CRASHSHIM_MARKER") {
		if on {
			let _ = std::fs::File::create(&m);
		} else {
			let _ = std::fs::remove_file(&m);
		}
	}
}

/// The operation under test, with crash points armed.
fn run(args: &Args) -> i32 {
	let (all, desc) = load(args.req("data"));
	let chain = init_chain(args.req("dir")).expect("init");
	grin_util::verif::arm(true);
	shim_arm(true);
	let mut results = vec![];
	for op in desc["ops"].as_array().unwrap() {
		match op["op"].as_str().unwrap() {
			"block" => {
				let b = find(&all, op["hash"].as_str().unwrap()).clone();
				let r = chain.process_block(b, Options::SKIP_POW);
				results.push(format!("{:?}", r.map(|t| t.map(|x| x.height))));
			}
			"headers" => {
				let hs: Vec<_> = op["hashes"].as_array().unwrap().iter()
					.map(|h| find(&all, h.as_str().unwrap()).header.clone()).collect();
				let sync_head: Tip = chain.header_head().unwrap();
				let r = chain.sync_block_headers(&hs, sync_head, Options::SKIP_POW);
				results.push(format!("{:?}", r.map(|t| t.map(|x| x.height))));
			}
			"compact" => {
				let r = chain.compact();
				results.push(format!("{:?}", r));
			}
			_ => {}
		}
	}
	grin_util::verif::arm(false);
	shim_arm(false);
	let mut s = state(&chain);
	s["results"] = json!(results);
	s["validate"] = json!(format!("{:?}", chain.validate(false)));
	println!("{}", s);
	0
}

fn unspent_map(chain: &Chain, all: &[Block]) -> Value {
	let mut v = vec![];
	for b in all.iter() {
		for o in b.outputs() {
			let c = o.commitment();
			if let Some((_, p)) = chain.get_unspent(c).ok().flatten() {
				v.push(json!([c.to_hex(), p.pos, p.height]));
			}
		}
	}
	v.sort_by(|a, b| a[0].as_str().cmp(&b[0].as_str()));
	json!(v)
}

/// get_unspent of a node that only ever processed the chain ending in the given head.
fn twin_unspent(args: &Args) -> i32 {
	let (all, _desc) = load(args.req("data"));
	let head = args.req("head").to_string();
	let tdir = args.req("dir").to_string();
	let _ = std::fs::remove_dir_all(&tdir);
	let mut path = vec![];
	let mut cur = all.iter().find(|b| b.hash().to_hex() == head);
	while let Some(b) = cur {
		if b.header.height == 0 {
			break;
		}
		path.push(b.clone());
		cur = all.iter().find(|x| x.hash() == b.header.prev_hash);
	}
	path.reverse();
	let twin = init_chain(&tdir).expect("twin init");
	for b in &path {
		let _ = twin.process_block(b.clone(), Options::SKIP_POW);
	}
	let ok = twin.head().unwrap().last_block_h.to_hex() == head;
	println!("{}", json!({"ok": ok, "unspent_map": unspent_map(&twin, &all)}));
	drop(twin);
	let _ = std::fs::remove_dir_all(&tdir);
	0
}

/// After a kill: reopen, validate, re-deliver everything, compare.
fn recover(args: &Args) -> i32 {
	let (all, desc) = load(args.req("data"));
	let dir = args.req("dir").to_string();
	let opened = std::panic::catch_unwind(|| init_chain(&dir));
	let chain = match opened {
		Err(_) => {
			println!("{}", json!({"init": "panic"}));
			return 0;
		}
		Ok(Err(e)) => {
			println!("{}", json!({"init": "err", "err": format!("{:?}", e)}));
			return 0;
		}
		Ok(Ok(c)) => c,
	};
	let mut out = json!({"init": "ok", "reopened": state(&chain)});
	let v = std::panic::catch_unwind(std::panic::AssertUnwindSafe(|| chain.validate(false)));
	out["validate"] = json!(match &v { Ok(Ok(())) => "ok".to_string(), Ok(Err(e)) => format!("err:{:?}", e), Err(_) => "panic".into() });
	// what the reopened node answers to get_unspent for every output ever minted (short chains only; the
	// driver compares it with a twin that only ever processed the chain of the recovered head)
	if all.len() <= 24 {
		out["unspent_map"] = unspent_map(&chain, &all);
	}
	// first re-deliver the interrupted input alone (the scenario's operations): the statement's clause
	let run_ops = |errs: &mut Vec<String>| {
		for op in desc["ops"].as_array().unwrap() {
			let r = std::panic::catch_unwind(std::panic::AssertUnwindSafe(|| -> Result<(), String> {
				match op["op"].as_str().unwrap() {
					"block" => {
						let b = find(&all, op["hash"].as_str().unwrap()).clone();
						match chain.process_block(b, Options::SKIP_POW) {
							Ok(_) => Ok(()),
							Err(e) => {
								let s = format!("{:?}", e);
								if s.contains("Unfit") || s.contains("OldBlock") { Ok(()) } else { Err(s) }
							}
						}
					}
					"headers" => {
						let hs: Vec<_> = op["hashes"].as_array().unwrap().iter()
							.map(|h| find(&all, h.as_str().unwrap()).header.clone()).collect();
						let sync_head: Tip = chain.header_head().unwrap();
						chain.sync_block_headers(&hs, sync_head, Options::SKIP_POW).map(|_| ()).map_err(|e| format!("{:?}", e))
					}
					"compact" => chain.compact().map_err(|e| format!("{:?}", e)),
					_ => Ok(()),
				}
			}));
			match r {
				Ok(Err(e)) => errs.push(format!("{}:{}", op["op"], e)),
				Err(_) => errs.push(format!("{}:panic", op["op"])),
				_ => {}
			}
		}
	};
	let mut input_errs = vec![];
	run_ops(&mut input_errs);
	out["input_errors"] = json!(input_errs);
	out["input_final"] = state(&chain);
	// then everything: every main-chain block above the head, and the scenario's operations again
	let main_len = desc["main_len"].as_u64().unwrap() as usize;
	let mut errs = vec![];
	for b in all.iter().skip(1).take(main_len) {
		// only what is above the recovered head needs to be delivered again
		if b.header.height <= chain.head().map(|h| h.height).unwrap_or(0) {
			continue;
		}
		let r = std::panic::catch_unwind(std::panic::AssertUnwindSafe(|| chain.process_block(b.clone(), Options::SKIP_POW)));
		match r {
			Ok(Err(e)) => {
				let s = format!("{:?}", e);
				if !s.contains("Unfit") && !s.contains("OldBlock") {
					errs.push(format!("h{}:{}", b.header.height, s));
				}
			}
			Err(_) => errs.push(format!("h{}:panic", b.header.height)),
			_ => {}
		}
	}
	run_ops(&mut errs);
	out["redeliver_errors"] = json!(errs);
	out["final"] = state(&chain);
	let v = std::panic::catch_unwind(std::panic::AssertUnwindSafe(|| chain.validate(false)));
	out["final_validate"] = json!(match &v { Ok(Ok(())) => "ok".to_string(), Ok(Err(e)) => format!("err:{:?}", e), Err(_) => "panic".into() });
	println!("{}", out);
	0
}

/// Chain-level clause of C08: compaction leaves head, roots, unspent set and full validation unchanged
/// and still permits reorganisations inside the horizon. A compacted node and a never-compacted twin
/// receive the same blocks: a long chain whose last blocks spend whole runs of old outputs (so
/// compaction prunes complete subtrees and siblings), then a fork that replaces the last `depth`
/// blocks, then a block that re-spends outputs the dropped blocks had spent.
fn compact_reorg(args: &Args) -> i32 {
	let dir = args.req("dir").to_string();
	let _ = std::fs::remove_dir_all(&dir);
	std::fs::create_dir_all(&dir).unwrap();
	let n = args.u64("blocks", 88);
	let depth = args.u64("depth", 2);
	let seed = args.u64("seed", 1);
	let node = init_chain(&format!("{}/node", dir)).unwrap();
	let twin = init_chain(&format!("{}/twin", dir)).unwrap();
	let mut out = json!({});
	let mut problems: Vec<Value> = vec![];
	// phase 1: common prefix, each block h>=4 spends the coinbase of h-3 into 2 outputs
	let prefix = n - 6;
	let blocks = grow_chain(&node, 1, prefix, 2);
	for b in &blocks {
		twin.process_block(b.clone(), Options::SKIP_POW).expect("twin prefix");
	}
	// phase 2: 6 blocks that also spend ALL transaction outputs of two consecutive old blocks each
	// (old = far below the horizon), picked from the seed
	let mut spent_by: Vec<(u64, Vec<(u64, u64)>)> = vec![]; // (block id, [(old block, j)])
	for k in 0..6u64 {
		let prev = node.head_header().unwrap();
		let h = prev.height + 1;
		let old = 10 + 6 * k + 2 * (seed % 3); // distinct pairs (old, old+1) of blocks far below the horizon
		let mut ins: Vec<In> = vec![(cb_value_of(&node, h - 3), kid_cb(h - 3), true)];
		let mut total = cb_value_of(&node, h - 3);
		let mut olds = vec![];
		for ob in [old, old + 1] {
			if spent_by.iter().any(|(_, v)| v.iter().any(|(b, _)| *b == ob)) {
				continue;
			}
			// outputs of block ob: coinbase_fanout_tx(cb(ob-3)) into 2 outputs keyed (ob, j)
			let v = cb_value_of(&node, ob - 3) - FEE;
			let each = v / 2;
			for j in 0..2u64 {
				let val = if j == 0 { v - each } else { each };
				ins.push((val, kid_out(ob, j), false));
				total += val;
				olds.push((ob, j));
			}
		}
		let outs = vec![(total - FEE, kid_out(h, 0))];
		let tx = spend_tx(&ins, &outs, FEE);
		let b = make_block(&node, &prev, h, 1, &[tx]);
		node.process_block(b.clone(), Options::SKIP_POW).expect("node phase2");
		twin.process_block(b.clone(), Options::SKIP_POW).expect("twin phase2");
		spent_by.push((h, olds));
	}
	let head_before = node.head().unwrap();
	let roots_before = roots_hex(&node);
	// compaction on the node only
	let cr = node.compact();
	out["compact"] = json!(format!("{:?}", cr));
	if cr.is_err() {
		problems.push(json!({"what": "compact_error", "err": format!("{:?}", cr)}));
	}
	if node.head().unwrap().last_block_h != head_before.last_block_h || roots_hex(&node) != roots_before {
		problems.push(json!({"what": "compaction_changed_head_or_roots"}));
	}
	if let Err(e) = node.validate(false) {
		problems.push(json!({"what": "validate_after_compaction", "err": format!("{:?}", e)}));
	}
	// reorg: replace the last `depth` blocks by a heavier empty fork (built on the twin, which has everything)
	let fork_parent = twin.get_header_by_height(n - depth).unwrap();
	let mut prev = fork_parent.clone();
	let mut fork = vec![];
	for k in 0..depth {
		let id = 700 + k;
		let b = make_block(&twin, &prev, id, if k + 1 == depth { 10 } else { 1 }, &[]);
		twin.process_block(b.clone(), Options::SKIP_POW).expect("twin fork");
		prev = b.header.clone();
		fork.push(b);
	}
	for b in &fork {
		let r = std::panic::catch_unwind(std::panic::AssertUnwindSafe(|| node.process_block(b.clone(), Options::SKIP_POW)));
		match r {
			Ok(Ok(_)) => {}
			Ok(Err(e)) => problems.push(json!({"what": "fork_block_rejected_after_compaction", "height": b.header.height, "err": format!("{:?}", e)})),
			Err(_) => problems.push(json!({"what": "fork_block_panic_after_compaction", "height": b.header.height})),
		}
	}
	let cmp = |tag: &str, problems: &mut Vec<Value>| {
		if node.head().unwrap().last_block_h != twin.head().unwrap().last_block_h {
			problems.push(json!({"what": format!("{}:head_differs_from_twin", tag)}));
		}
		if roots_hex(&node) != roots_hex(&twin) {
			problems.push(json!({"what": format!("{}:roots_differ_from_twin", tag)}));
		}
		let kc = keychain();
		// every output the dropped blocks had spent must be unspent again, like on the twin
		for (h, olds) in &spent_by {
			if *h <= n - depth {
				continue;
			}
			for (ob, j) in olds {
				let v = cb_value_of(&twin, ob - 3) - FEE;
				let each = v / 2;
				let val = if *j == 0 { v - each } else { each };
				let c = kc.commit(val, &kid_out(*ob, *j), grin_keychain::SwitchCommitmentType::Regular).unwrap();
				let a = std::panic::catch_unwind(std::panic::AssertUnwindSafe(|| node.get_unspent(c).ok().flatten().map(|x| x.1.pos)));
				let b = twin.get_unspent(c).ok().flatten().map(|x| x.1.pos);
				match a {
					Ok(a) => {
						if a != b {
							problems.push(json!({"what": format!("{}:unspent_differs_from_twin", tag), "old_block": ob, "j": j, "node": a, "twin": b}));
						}
					}
					Err(_) => problems.push(json!({"what": format!("{}:get_unspent_panic", tag), "old_block": ob})),
				}
			}
		}
		let v = std::panic::catch_unwind(std::panic::AssertUnwindSafe(|| node.validate(false)));
		match v {
			Ok(Ok(())) => {}
			Ok(Err(e)) => problems.push(json!({"what": format!("{}:validate_failed", tag), "err": format!("{:?}", e)})),
			Err(_) => problems.push(json!({"what": format!("{}:validate_panic", tag)})),
		}
	};
	cmp("after_reorg", &mut problems);
	// a block re-spending what the dropped head had spent must be accepted by both
	if let Some((_, olds)) = spent_by.iter().rev().find(|(h, o)| *h > n - depth && !o.is_empty()) {
		let prevh = twin.head_header().unwrap();
		let h = prevh.height + 1;
		let mut ins: Vec<In> = vec![];
		let mut total = 0;
		for (ob, j) in olds {
			let v = cb_value_of(&twin, ob - 3) - FEE;
			let each = v / 2;
			let val = if *j == 0 { v - each } else { each };
			ins.push((val, kid_out(*ob, *j), false));
			total += val;
		}
		let tx = spend_tx(&ins, &[(total - FEE, kid_out(800, 0))], FEE);
		let b = make_block(&twin, &prevh, 800, 1, &[tx]);
		twin.process_block(b.clone(), Options::SKIP_POW).expect("twin respend");
		let r = std::panic::catch_unwind(std::panic::AssertUnwindSafe(|| node.process_block(b.clone(), Options::SKIP_POW)));
		match r {
			Ok(Ok(_)) => {}
			Ok(Err(e)) => problems.push(json!({"what": "respend_rejected_after_compaction_and_reorg", "err": format!("{:?}", e)})),
			Err(_) => problems.push(json!({"what": "respend_panic_after_compaction_and_reorg"})),
		}
		let _ = h;
		cmp("after_respend", &mut problems);
	}
	out["problems"] = json!(problems);
	out["head_height"] = json!(node.head().unwrap().height);
	out["spent_old"] = json!(spent_by.iter().map(|(h, o)| json!([h, o])).collect::<Vec<_>>());
	println!("{}", out);
	drop(node);
	drop(twin);
	let _ = std::fs::remove_dir_all(&dir);
	0
}

fn main() {
	quiet_panics();
	global::set_local_chain_type(ChainTypes::AutomatedTesting);
	let a: Vec<String> = std::env::args().skip(1).collect();
	let args = Args::parse(&a);
	let rc = match args.pos.get(0).map(|s| s.as_str()) {
		Some("prepare") => prepare(&args),
		Some("run") => run(&args),
		Some("recover") => recover(&args),
		Some("compact_reorg") => compact_reorg(&args),
		Some("twin_unspent") => twin_unspent(&args),
		_ => {
			eprintln!("crash prepare|run|recover");
			2
		}
	};
	std::process::exit(rc);
}
