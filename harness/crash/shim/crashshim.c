/*
 * crashshim: LD_PRELOAD fault injector for the C09 crash engine (syscall-level crash points).
 *
 * Interposes the libc persistence calls used by the Rust std and by LMDB. Calls that touch a file
 * under $CRASHSHIM_DIR while the shim is armed are "durable steps": they are counted (1-based),
 * optionally logged, and the process is killed (exit_group, no unwinding, no atexit) immediately
 * BEFORE the n-th one when CRASHSHIM_AT=n. With CRASHSHIM_TORN=1 and the n-th step a
 * write/pwrite/writev/pwritev of k >= 2 bytes, the first k/2 bytes are written and then the
 * process is killed (torn write).
 *
 * Environment:
 *   CRASHSHIM_DIR      absolute directory whose files are watched (the chain directory)
 *   CRASHSHIM_MARKER   path of a marker file outside CRASHSHIM_DIR: creating it (open with O_CREAT)
 *                      arms the shim, unlinking it disarms it
 *   CRASHSHIM_LOG      file receiving one line per step: "<n> <call> <relative path> <bytes>"
 *   CRASHSHIM_HOOKLOG  path of the cfg(grin_verif) crash_point log: lines written to it by the
 *                      process are copied into CRASHSHIM_LOG as "H <line>" (gives the interleaving
 *                      of hook labels and system calls)
 *   CRASHSHIM_AT       n: kill before the n-th step
 *   CRASHSHIM_TORN     1: tear the n-th step if it is a write
 *
 * A truncate to the current length is logged as "ftruncate_nop".
 * Steps: write pwrite pwrite64 writev pwritev pwritev64 pwritev2 ftruncate ftruncate64 truncate
 * fsync fdatasync msync sync_file_range fallocate posix_fallocate copy_file_range sendfile
 * rename renameat renameat2 unlink unlinkat rmdir mkdir mkdirat link linkat symlink
 * open/open64/openat/openat64/creat (only when the call creates a missing file: "open_creat", or
 * truncates a non-empty one: "open_trunc").
 */
#define _GNU_SOURCE
#include <dlfcn.h>
#include <errno.h>
#include <fcntl.h>
#include <limits.h>
#include <pthread.h>
#include <stdarg.h>
#include <stdio.h>
#include <stdlib.h>
#include <string.h>
#include <sys/mman.h>
#include <sys/stat.h>
#include <sys/syscall.h>
#include <sys/types.h>
#include <sys/uio.h>
#include <unistd.h>

static pthread_mutex_t mu = PTHREAD_MUTEX_INITIALIZER;
static int inited = 0;
static char g_dir[PATH_MAX];
static size_t g_dirlen = 0;
static char g_marker[PATH_MAX];
static char g_hooklog[PATH_MAX];
static int g_logfd = -1;
static long g_at = -1;
static int g_torn = 0;
static volatile int g_armed = 0;
static long g_count = 0;

static void die(void) { syscall(SYS_exit_group, 97); for (;;) {} }

static void raw_write(int fd, const char *s, size_t n) {
	while (n > 0) {
		long r = syscall(SYS_write, fd, s, n);
		if (r <= 0) return;
		s += r; n -= (size_t)r;
	}
}

static void init(void) {
	if (inited) return;
	pthread_mutex_lock(&mu);
	if (!inited) {
		const char *d = getenv("CRASHSHIM_DIR");
		if (d && d[0] == '/') {
			if (!realpath(d, g_dir)) { strncpy(g_dir, d, PATH_MAX - 1); }
			g_dirlen = strlen(g_dir);
			while (g_dirlen > 1 && g_dir[g_dirlen - 1] == '/') g_dir[--g_dirlen] = 0;
		}
		const char *m = getenv("CRASHSHIM_MARKER");
		if (m) strncpy(g_marker, m, PATH_MAX - 1);
		const char *h = getenv("CRASHSHIM_HOOKLOG");
		if (h) strncpy(g_hooklog, h, PATH_MAX - 1);
		const char *a = getenv("CRASHSHIM_AT");
		if (a) g_at = atol(a);
		const char *t = getenv("CRASHSHIM_TORN");
		if (t && t[0] == '1') g_torn = 1;
		const char *l = getenv("CRASHSHIM_LOG");
		if (l) g_logfd = (int)syscall(SYS_openat, AT_FDCWD, l, O_WRONLY | O_CREAT | O_APPEND | O_CLOEXEC, 0644);
		inited = 1;
	}
	pthread_mutex_unlock(&mu);
}

/* path under the watched directory? returns pointer to the relative part or NULL */
static const char *under(const char *abs) {
	if (!g_dirlen || !abs) return NULL;
	if (strncmp(abs, g_dir, g_dirlen) != 0) return NULL;
	if (abs[g_dirlen] != '/') return NULL;
	return abs + g_dirlen + 1;
}

static int fd_path(int fd, char *out) {
	char p[64];
	snprintf(p, sizeof p, "/proc/self/fd/%d", fd);
	ssize_t n = readlink(p, out, PATH_MAX - 1);
	if (n <= 0) return -1;
	out[n] = 0;
	/* " (deleted)" suffix of unlinked files */
	char *del = strstr(out, " (deleted)");
	if (del && del[10] == 0) *del = 0;
	return 0;
}

/* absolute (not symlink-resolved beyond the directory part) form of (dirfd, path) */
static int abs_at(int dirfd, const char *path, char *out) {
	if (!path) return -1;
	char tmp[PATH_MAX];
	if (path[0] == '/') {
		strncpy(tmp, path, PATH_MAX - 1); tmp[PATH_MAX - 1] = 0;
	} else {
		char base[PATH_MAX];
		if (dirfd == AT_FDCWD) {
			if (!getcwd(base, sizeof base)) return -1;
		} else if (fd_path(dirfd, base) != 0) return -1;
		if (snprintf(tmp, sizeof tmp, "%s/%s", base, path) >= (int)sizeof tmp) return -1;
	}
	/* resolve the directory part (the last component may not exist) */
	char *slash = strrchr(tmp, '/');
	if (!slash || slash == tmp) { strcpy(out, tmp); return 0; }
	*slash = 0;
	char rd[PATH_MAX];
	if (!realpath(tmp, rd)) { *slash = '/'; strcpy(out, tmp); return 0; }
	if (snprintf(out, PATH_MAX, "%s/%s", rd, slash + 1) >= PATH_MAX) return -1;
	return 0;
}

/* Account one durable step. Returns 1 when the caller must tear the write (perform half, then die). */
static int step(const char *call, const char *rel, long bytes, int tearable) {
	int tear = 0;
	pthread_mutex_lock(&mu);
	long n = ++g_count;
	if (g_logfd >= 0) {
		char line[PATH_MAX + 128];
		int k = snprintf(line, sizeof line, "%ld %s %s %ld\n", n, call, rel, bytes);
		raw_write(g_logfd, line, (size_t)k);
	}
	if (g_at == n) {
		if (g_torn && tearable && bytes >= 2) tear = 1;
		else die();
	}
	pthread_mutex_unlock(&mu);
	return tear;
}

static void hook_line(const void *buf, size_t n) {
	if (g_logfd < 0) return;
	char line[600];
	if (n > 500) n = 500;
	while (n > 0 && (((const char *)buf)[n - 1] == '\n' || ((const char *)buf)[n - 1] == '\r')) n--;
	if (n == 0) return;
	memcpy(line, "H ", 2);
	memcpy(line + 2, buf, n);
	size_t k = n + 2;
	while (k > 2 && (line[k - 1] == '\n' || line[k - 1] == '\r')) k--;
	line[k++] = '\n';
	pthread_mutex_lock(&mu);
	raw_write(g_logfd, line, k);
	pthread_mutex_unlock(&mu);
}

/* fd-based step: returns 1 to tear */
static int fd_step(const char *call, int fd, long bytes, int tearable, const void *buf) {
	init();
	if (!g_armed) return 0;
	char p[PATH_MAX];
	if (fd_path(fd, p) != 0) return 0;
	const char *rel = under(p);
	if (rel) return step(call, rel, bytes, tearable);
	if (buf && g_hooklog[0] && strcmp(p, g_hooklog) == 0) hook_line(buf, (size_t)bytes);
	return 0;
}

static void path_step(const char *call, int dirfd, const char *path, long bytes) {
	init();
	if (!g_armed) return;
	char p[PATH_MAX];
	if (abs_at(dirfd, path, p) != 0) return;
	const char *rel = under(p);
	if (rel) step(call, rel, bytes, 0);
}

static void marker_check_open(int dirfd, const char *path, int flags) {
	if (!g_marker[0] || !path || !(flags & O_CREAT)) return;
	char p[PATH_MAX];
	if (abs_at(dirfd, path, p) != 0) return;
	if (strcmp(p, g_marker) == 0) g_armed = 1;
}

static void marker_check_unlink(int dirfd, const char *path) {
	if (!g_marker[0] || !path) return;
	char p[PATH_MAX];
	if (abs_at(dirfd, path, p) != 0) return;
	if (strcmp(p, g_marker) == 0) g_armed = 0;
}

static void open_step(int dirfd, const char *path, int flags) {
	init();
	marker_check_open(dirfd, path, flags);
	if (!g_armed || !(flags & (O_CREAT | O_TRUNC))) return;
	char p[PATH_MAX];
	if (abs_at(dirfd, path, p) != 0) return;
	const char *rel = under(p);
	if (!rel) return;
	struct stat st;
	int exists = (syscall(SYS_newfstatat, AT_FDCWD, p, &st, 0) == 0);
	if (!exists && (flags & O_CREAT)) step("open_creat", rel, 0, 0);
	else if (exists && (flags & O_TRUNC) && st.st_size > 0) step("open_trunc", rel, (long)st.st_size, 0);
}

/* ---- open family ---------------------------------------------------------------------------- */
#define OPEN_BODY(NAME, DIRFD, CALL) \
	mode_t mode = 0; \
	if ((flags & O_CREAT) || (flags & O_TMPFILE) == O_TMPFILE) { va_list ap; va_start(ap, flags); mode = va_arg(ap, mode_t); va_end(ap); } \
	open_step(DIRFD, path, flags); \
	return CALL;

int open(const char *path, int flags, ...) {
	static int (*real)(const char *, int, ...) = NULL;
	if (!real) real = dlsym(RTLD_NEXT, "open");
	OPEN_BODY(open, AT_FDCWD, real(path, flags, mode))
}
int open64(const char *path, int flags, ...) {
	static int (*real)(const char *, int, ...) = NULL;
	if (!real) real = dlsym(RTLD_NEXT, "open64");
	OPEN_BODY(open64, AT_FDCWD, real(path, flags, mode))
}
int openat(int dirfd, const char *path, int flags, ...) {
	static int (*real)(int, const char *, int, ...) = NULL;
	if (!real) real = dlsym(RTLD_NEXT, "openat");
	OPEN_BODY(openat, dirfd, real(dirfd, path, flags, mode))
}
int openat64(int dirfd, const char *path, int flags, ...) {
	static int (*real)(int, const char *, int, ...) = NULL;
	if (!real) real = dlsym(RTLD_NEXT, "openat64");
	OPEN_BODY(openat64, dirfd, real(dirfd, path, flags, mode))
}
int creat(const char *path, mode_t mode) {
	static int (*real)(const char *, mode_t) = NULL;
	if (!real) real = dlsym(RTLD_NEXT, "creat");
	open_step(AT_FDCWD, path, O_CREAT | O_WRONLY | O_TRUNC);
	return real(path, mode);
}
int creat64(const char *path, mode_t mode) {
	static int (*real)(const char *, mode_t) = NULL;
	if (!real) real = dlsym(RTLD_NEXT, "creat64");
	open_step(AT_FDCWD, path, O_CREAT | O_WRONLY | O_TRUNC);
	return real(path, mode);
}

/* ---- data writes --------------------------------------------------------------------------- */
ssize_t write(int fd, const void *buf, size_t n) {
	static ssize_t (*real)(int, const void *, size_t) = NULL;
	if (!real) real = dlsym(RTLD_NEXT, "write");
	if (fd_step("write", fd, (long)n, 1, buf)) { real(fd, buf, n / 2); die(); }
	return real(fd, buf, n);
}
ssize_t pwrite(int fd, const void *buf, size_t n, off_t off) {
	static ssize_t (*real)(int, const void *, size_t, off_t) = NULL;
	if (!real) real = dlsym(RTLD_NEXT, "pwrite");
	if (fd_step("pwrite", fd, (long)n, 1, NULL)) { real(fd, buf, n / 2, off); die(); }
	return real(fd, buf, n, off);
}
ssize_t pwrite64(int fd, const void *buf, size_t n, off64_t off) {
	static ssize_t (*real)(int, const void *, size_t, off64_t) = NULL;
	if (!real) real = dlsym(RTLD_NEXT, "pwrite64");
	if (fd_step("pwrite", fd, (long)n, 1, NULL)) { real(fd, buf, n / 2, off); die(); }
	return real(fd, buf, n, off);
}
static long iov_total(const struct iovec *iov, int cnt) {
	long t = 0;
	for (int i = 0; i < cnt; i++) t += (long)iov[i].iov_len;
	return t;
}
/* write the first `half` bytes of the vector with plain (p)write calls */
static void tear_iov(int fd, const struct iovec *iov, int cnt, long half, int positioned, off64_t off) {
	static ssize_t (*rw)(int, const void *, size_t) = NULL;
	static ssize_t (*rpw)(int, const void *, size_t, off64_t) = NULL;
	if (!rw) rw = dlsym(RTLD_NEXT, "write");
	if (!rpw) rpw = dlsym(RTLD_NEXT, "pwrite64");
	for (int i = 0; i < cnt && half > 0; i++) {
		long k = (long)iov[i].iov_len < half ? (long)iov[i].iov_len : half;
		if (positioned) { rpw(fd, iov[i].iov_base, (size_t)k, off); off += k; }
		else rw(fd, iov[i].iov_base, (size_t)k);
		half -= k;
	}
}
ssize_t writev(int fd, const struct iovec *iov, int cnt) {
	static ssize_t (*real)(int, const struct iovec *, int) = NULL;
	if (!real) real = dlsym(RTLD_NEXT, "writev");
	long t = iov_total(iov, cnt);
	if (fd_step("writev", fd, t, 1, cnt > 0 ? iov[0].iov_base : NULL)) { tear_iov(fd, iov, cnt, t / 2, 0, 0); die(); }
	return real(fd, iov, cnt);
}
ssize_t pwritev(int fd, const struct iovec *iov, int cnt, off_t off) {
	static ssize_t (*real)(int, const struct iovec *, int, off_t) = NULL;
	if (!real) real = dlsym(RTLD_NEXT, "pwritev");
	long t = iov_total(iov, cnt);
	if (fd_step("pwritev", fd, t, 1, NULL)) { tear_iov(fd, iov, cnt, t / 2, 1, off); die(); }
	return real(fd, iov, cnt, off);
}
ssize_t pwritev64(int fd, const struct iovec *iov, int cnt, off64_t off) {
	static ssize_t (*real)(int, const struct iovec *, int, off64_t) = NULL;
	if (!real) real = dlsym(RTLD_NEXT, "pwritev64");
	long t = iov_total(iov, cnt);
	if (fd_step("pwritev", fd, t, 1, NULL)) { tear_iov(fd, iov, cnt, t / 2, 1, off); die(); }
	return real(fd, iov, cnt, off);
}
ssize_t pwritev2(int fd, const struct iovec *iov, int cnt, off_t off, int flags) {
	static ssize_t (*real)(int, const struct iovec *, int, off_t, int) = NULL;
	if (!real) real = dlsym(RTLD_NEXT, "pwritev2");
	long t = iov_total(iov, cnt);
	if (fd_step("pwritev", fd, t, 1, NULL)) { tear_iov(fd, iov, cnt, t / 2, off != -1, off); die(); }
	return real(fd, iov, cnt, off, flags);
}
ssize_t pwritev64v2(int fd, const struct iovec *iov, int cnt, off64_t off, int flags) {
	static ssize_t (*real)(int, const struct iovec *, int, off64_t, int) = NULL;
	if (!real) real = dlsym(RTLD_NEXT, "pwritev64v2");
	long t = iov_total(iov, cnt);
	if (fd_step("pwritev", fd, t, 1, NULL)) { tear_iov(fd, iov, cnt, t / 2, off != -1, off); die(); }
	return real(fd, iov, cnt, off, flags);
}
ssize_t copy_file_range(int fin, off64_t *oin, int fout, off64_t *oout, size_t len, unsigned int flags) {
	static ssize_t (*real)(int, off64_t *, int, off64_t *, size_t, unsigned int) = NULL;
	if (!real) real = dlsym(RTLD_NEXT, "copy_file_range");
	fd_step("copy_file_range", fout, (long)len, 0, NULL);
	return real(fin, oin, fout, oout, len, flags);
}
ssize_t sendfile(int out, int in, off_t *off, size_t n) {
	static ssize_t (*real)(int, int, off_t *, size_t) = NULL;
	if (!real) real = dlsym(RTLD_NEXT, "sendfile");
	fd_step("sendfile", out, (long)n, 0, NULL);
	return real(out, in, off, n);
}
ssize_t sendfile64(int out, int in, off64_t *off, size_t n) {
	static ssize_t (*real)(int, int, off64_t *, size_t) = NULL;
	if (!real) real = dlsym(RTLD_NEXT, "sendfile64");
	fd_step("sendfile", out, (long)n, 0, NULL);
	return real(out, in, off, n);
}

/* ---- size changes -------------------------------------------------------------------------- */
/* a truncate to the current length changes nothing: logged as "ftruncate_nop" */
static const char *trunc_name(int fd, long len) {
	struct stat st;
	if (g_armed && fstat(fd, &st) == 0 && (long)st.st_size == len) return "ftruncate_nop";
	return "ftruncate";
}
int ftruncate(int fd, off_t len) {
	static int (*real)(int, off_t) = NULL;
	if (!real) real = dlsym(RTLD_NEXT, "ftruncate");
	fd_step(trunc_name(fd, (long)len), fd, (long)len, 0, NULL);
	return real(fd, len);
}
int ftruncate64(int fd, off64_t len) {
	static int (*real)(int, off64_t) = NULL;
	if (!real) real = dlsym(RTLD_NEXT, "ftruncate64");
	fd_step(trunc_name(fd, (long)len), fd, (long)len, 0, NULL);
	return real(fd, len);
}
int truncate(const char *path, off_t len) {
	static int (*real)(const char *, off_t) = NULL;
	if (!real) real = dlsym(RTLD_NEXT, "truncate");
	path_step("truncate", AT_FDCWD, path, (long)len);
	return real(path, len);
}
int truncate64(const char *path, off64_t len) {
	static int (*real)(const char *, off64_t) = NULL;
	if (!real) real = dlsym(RTLD_NEXT, "truncate64");
	path_step("truncate", AT_FDCWD, path, (long)len);
	return real(path, len);
}
int fallocate(int fd, int mode, off_t off, off_t len) {
	static int (*real)(int, int, off_t, off_t) = NULL;
	if (!real) real = dlsym(RTLD_NEXT, "fallocate");
	fd_step("fallocate", fd, (long)len, 0, NULL);
	return real(fd, mode, off, len);
}
int fallocate64(int fd, int mode, off64_t off, off64_t len) {
	static int (*real)(int, int, off64_t, off64_t) = NULL;
	if (!real) real = dlsym(RTLD_NEXT, "fallocate64");
	fd_step("fallocate", fd, (long)len, 0, NULL);
	return real(fd, mode, off, len);
}
int posix_fallocate(int fd, off_t off, off_t len) {
	static int (*real)(int, off_t, off_t) = NULL;
	if (!real) real = dlsym(RTLD_NEXT, "posix_fallocate");
	fd_step("fallocate", fd, (long)len, 0, NULL);
	return real(fd, off, len);
}
int posix_fallocate64(int fd, off64_t off, off64_t len) {
	static int (*real)(int, off64_t, off64_t) = NULL;
	if (!real) real = dlsym(RTLD_NEXT, "posix_fallocate64");
	fd_step("fallocate", fd, (long)len, 0, NULL);
	return real(fd, off, len);
}

/* ---- syncs (steps that do not change what a reopening process sees) ------------------------- */
int fsync(int fd) {
	static int (*real)(int) = NULL;
	if (!real) real = dlsym(RTLD_NEXT, "fsync");
	fd_step("fsync", fd, 0, 0, NULL);
	return real(fd);
}
int fdatasync(int fd) {
	static int (*real)(int) = NULL;
	if (!real) real = dlsym(RTLD_NEXT, "fdatasync");
	fd_step("fdatasync", fd, 0, 0, NULL);
	return real(fd);
}
int sync_file_range(int fd, off64_t off, off64_t n, unsigned int flags) {
	static int (*real)(int, off64_t, off64_t, unsigned int) = NULL;
	if (!real) real = dlsym(RTLD_NEXT, "sync_file_range");
	fd_step("sync_file_range", fd, 0, 0, NULL);
	return real(fd, off, n, flags);
}
int msync(void *addr, size_t len, int flags) {
	static int (*real)(void *, size_t, int) = NULL;
	if (!real) real = dlsym(RTLD_NEXT, "msync");
	init();
	if (g_armed && g_dirlen) step("msync", "-", (long)len, 0);
	return real(addr, len, flags);
}

/* ---- name space ---------------------------------------------------------------------------- */
int rename(const char *a, const char *b) {
	static int (*real)(const char *, const char *) = NULL;
	if (!real) real = dlsym(RTLD_NEXT, "rename");
	path_step("rename", AT_FDCWD, b, 0);
	return real(a, b);
}
int renameat(int da, const char *a, int db, const char *b) {
	static int (*real)(int, const char *, int, const char *) = NULL;
	if (!real) real = dlsym(RTLD_NEXT, "renameat");
	path_step("rename", db, b, 0);
	return real(da, a, db, b);
}
int renameat2(int da, const char *a, int db, const char *b, unsigned int flags) {
	static int (*real)(int, const char *, int, const char *, unsigned int) = NULL;
	if (!real) real = dlsym(RTLD_NEXT, "renameat2");
	path_step("rename", db, b, 0);
	return real(da, a, db, b, flags);
}
int unlink(const char *path) {
	static int (*real)(const char *) = NULL;
	if (!real) real = dlsym(RTLD_NEXT, "unlink");
	init();
	marker_check_unlink(AT_FDCWD, path);
	path_step("unlink", AT_FDCWD, path, 0);
	return real(path);
}
int unlinkat(int dirfd, const char *path, int flags) {
	static int (*real)(int, const char *, int) = NULL;
	if (!real) real = dlsym(RTLD_NEXT, "unlinkat");
	init();
	marker_check_unlink(dirfd, path);
	path_step((flags & AT_REMOVEDIR) ? "rmdir" : "unlink", dirfd, path, 0);
	return real(dirfd, path, flags);
}
int rmdir(const char *path) {
	static int (*real)(const char *) = NULL;
	if (!real) real = dlsym(RTLD_NEXT, "rmdir");
	path_step("rmdir", AT_FDCWD, path, 0);
	return real(path);
}
int mkdir(const char *path, mode_t mode) {
	static int (*real)(const char *, mode_t) = NULL;
	if (!real) real = dlsym(RTLD_NEXT, "mkdir");
	path_step("mkdir", AT_FDCWD, path, 0);
	return real(path, mode);
}
int mkdirat(int dirfd, const char *path, mode_t mode) {
	static int (*real)(int, const char *, mode_t) = NULL;
	if (!real) real = dlsym(RTLD_NEXT, "mkdirat");
	path_step("mkdir", dirfd, path, 0);
	return real(dirfd, path, mode);
}
int link(const char *a, const char *b) {
	static int (*real)(const char *, const char *) = NULL;
	if (!real) real = dlsym(RTLD_NEXT, "link");
	path_step("link", AT_FDCWD, b, 0);
	return real(a, b);
}
int linkat(int da, const char *a, int db, const char *b, int flags) {
	static int (*real)(int, const char *, int, const char *, int) = NULL;
	if (!real) real = dlsym(RTLD_NEXT, "linkat");
	path_step("link", db, b, 0);
	return real(da, a, db, b, flags);
}
int symlink(const char *a, const char *b) {
	static int (*real)(const char *, const char *) = NULL;
	if (!real) real = dlsym(RTLD_NEXT, "symlink");
	path_step("symlink", AT_FDCWD, b, 0);
	return real(a, b);
}
