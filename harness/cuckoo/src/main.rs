//! C05 engine: proof-of-work verification against spec/Cuckoo.tla.
//!   pin      own siphash / edge definitions against the repository's published vectors
//!   scan     pre-select seeds of tiny graphs, write the edge tables (input of the TLC model)
//!   exhaust  real verify on every ascending K-subset of each tiny graph (direction A)
//!   cases    real verify on explicit nonce tuples (negative forms, replay, samples)
//!   record   solver-found cycles and near misses in larger graphs as events (direction B)
//!   ser      Proof packing / padding / difficulty cases
//!   select   which graph definition global::create_pow_context picks per chain type / height / edge bits
//!   boundary create_pow_context around 29 edge bits: published 42-cycles, and which verifier is built (boundary.rs)
//!   twins    tuples that are K-cycles once node numbers are cut to the bits the verifiers bucket by
//!   size     pow::verify_size(&BlockHeader) on TLC's plans: nonce count and shape chosen by the sender (vsize.rs)
mod boundary;
mod graph;
mod run;
mod sip;
mod vectors;
mod vsize;

use graph::{Edge, Index};
use grin_core::global::{self, ChainTypes};
use rand::rngs::StdRng;
use rand::{Rng, SeedableRng};
use run::{JobSpec, Source, Verdict};
use serde_json::{json, Value};
use sip::Variant;
use std::sync::atomic::{AtomicI64, Ordering};
use std::sync::Arc;
use vcommon::*;

const K: usize = 8; // global::proofsize() under ChainTypes::AutomatedTesting (checked in `pin`)

fn main() {
	quiet_panics();
	let a: Vec<String> = std::env::args().skip(1).collect();
	let args = Args::parse(&a);
	global::set_local_chain_type(ChainTypes::AutomatedTesting);
	let rc = match args.pos.get(0).map(|s| s.as_str()) {
		Some("pin") => pin(&args),
		Some("scan") => scan(&args),
		Some("exhaust") => exhaust(&args),
		Some("cases") => cases(&args),
		Some("record") => record(&args),
		Some("ser") => ser::ser(&args),
		Some("select") => select(&args),
		Some("size") => vsize::size(&args),
		Some("boundary") => boundary::boundary(&args),
		Some("twins") => twins(&args),
		_ => {
			eprintln!("cuckoo pin|scan|exhaust|cases|record|ser|select|size");
			2
		}
	};
	std::process::exit(rc);
}

mod ser;

fn variants(args: &Args) -> Vec<Variant> {
	match args.get("variants") {
		Some(s) => s.split(',').map(Variant::from_name).collect(),
		None => sip::ALL.to_vec(),
	}
}

fn table(var: Variant, eb: u32, seed: u64) -> Vec<Edge> {
	let keys = sip::keys_from_header(&run::header_for(seed), Some(run::header_nonce(seed)));
	sip::edge_table_fast(var, &keys, eb)
		.into_iter()
		.enumerate()
		.map(|(i, (u, v))| Edge { nonce: i as u64, u, v })
		.collect()
}

fn mkrng(seed: u64, salt: u64) -> StdRng {
	let mut s = [0u8; 32];
	s[..8].copy_from_slice(&seed.to_le_bytes());
	s[8..16].copy_from_slice(&salt.to_le_bytes());
	SeedableRng::from_seed(s)
}

// ------------------------------------------------------------------------------------------
// pin

fn pin(_args: &Args) -> i32 {
	let mut fails: Vec<String> = vec![];
	let mut checks = 0;
	// constants of the chain type the tiny-graph runs rely on
	if global::proofsize() != K {
		fails.push(format!("proofsize under AutomatedTesting is {} not {}", global::proofsize(), K));
	}
	// siphash-2-4 and siphash-block values published in core/src/pow/siphash.rs tests
	for (k, n, want) in vectors::SIPHASH24.iter() {
		checks += 1;
		if sip::siphash24(k, *n) != *want {
			fails.push(format!("siphash24 {:?} {}", k, n));
		}
	}
	for (k, n, want) in vectors::SIPBLOCK.iter() {
		checks += 1;
		if sip::sip_block_at(k, *n, 21, false) != *want {
			fails.push(format!("sip_block {:?} {}", k, n));
		}
	}
	// known solutions: with the published keys my endpoints must make them one simple 42-cycle,
	// and with one nonce changed / another key set they must not.
	for (var, eb, keys, sol) in vectors::solutions() {
		checks += 1;
		let es: Vec<Edge> = sol
			.iter()
			.map(|n| {
				let (u, v) = sip::endpoints(var, &keys, eb, *n);
				Edge { nonce: *n, u, v }
			})
			.collect();
		if !graph::is_simple_cycle(var, &es) {
			fails.push(format!("{} {}: known solution is not a cycle under my edge definition", var.name(), eb));
		}
		let mut bad = es.clone();
		let (u, v) = sip::endpoints(var, &keys, eb, sol[0] + 1);
		bad[0] = Edge { nonce: sol[0] + 1, u, v };
		if graph::is_simple_cycle(var, &bad) {
			fails.push(format!("{} {}: altered solution still a cycle", var.name(), eb));
		}
		let k2 = [keys[0] ^ 1, keys[1], keys[2], keys[3]];
		let es2: Vec<Edge> = sol
			.iter()
			.map(|n| {
				let (u, v) = sip::endpoints(var, &k2, eb, *n);
				Edge { nonce: *n, u, v }
			})
			.collect();
		if graph::is_simple_cycle(var, &es2) {
			fails.push(format!("{} {}: solution is a cycle under other keys", var.name(), eb));
		}
	}
	// header -> keys: the cuckatoo29 vector is given by header/nonce; the real verifier (42-cycles
	// need the Mainnet proof size, thread-local) must accept it and my keys must make it a cycle.
	{
		checks += 1;
		let header = vec![0u8; 80];
		let keys = sip::keys_from_header(&header, Some(20));
		let es: Vec<Edge> = vectors::CUCKATOO_V1_29
			.iter()
			.map(|n| {
				let (u, v) = sip::endpoints(Variant::Cuckatoo, &keys, 29, *n);
				Edge { nonce: *n, u, v }
			})
			.collect();
		if !graph::is_simple_cycle(Variant::Cuckatoo, &es) {
			fails.push("cuckatoo29 header vector is not a cycle under my key derivation".into());
		}
		let h = std::thread::spawn(move || {
			global::set_local_chain_type(ChainTypes::Mainnet);
			let ctx = run::real_ctx(Variant::Cuckatoo, 29, 42, &header, Some(20));
			run::verify_once(ctx.as_ref(), 29, &vectors::CUCKATOO_V1_29)
		});
		if h.join().unwrap() != Verdict::Accept {
			fails.push("real cuckatoo verify refuses the repository's own vector".into());
		}
	}
	// edge_bits above 29 select cuckatoo on the main network whatever the height: the repository's
	// cuckatoo31 vector through global::create_pow_context at heights of header versions 1..4
	{
		let h = std::thread::spawn(move || {
			global::set_local_chain_type(ChainTypes::Mainnet);
			let mut bad = vec![];
			for height in [0u64, 262_080, 524_160, 786_240, 1_048_320] {
				let r = std::panic::catch_unwind(|| match global::create_pow_context::<u64>(height, 31, 42, 10) {
					Err(_) => Verdict::Reject,
					Ok(mut ctx) => {
						ctx.set_header_nonce(vec![0u8; 80], Some(99), false).unwrap();
						run::verify_once(ctx.as_ref(), 31, &vectors::CUCKATOO_V1_31)
					}
				});
				if r.ok() != Some(Verdict::Accept) {
					bad.push(height);
				}
			}
			bad
		});
		checks += 5;
		let bad = h.join().unwrap();
		if !bad.is_empty() {
			fails.push(format!("real create_pow_context(height, 31 bits) refuses the repository's cuckatoo31 vector at heights {:?}", bad));
		}
	}
	println!("{}", json!({"ok": fails.is_empty(), "checks": checks, "fails": fails}));
	0
}

// ------------------------------------------------------------------------------------------
// scan: choose seeds for the tiny graphs

fn graph_json(gid: usize, var: Variant, eb: u32, seed: u64, es: &[Edge], own: usize) -> Value {
	json!({"gid": gid, "variant": var.name(), "eb": eb, "N": es.len(), "K": K, "seed": seed,
		"E": es.iter().map(|e| json!([e.u, e.v])).collect::<Vec<_>>(), "own_cycles": own})
}

fn scan(args: &Args) -> i32 {
	let eb = args.u64("eb", 4) as u32;
	let per = args.u64("per", 20) as usize; // graphs per variant
	let with = args.u64("with", (per * 2 / 3) as u64) as usize; // how many of them must hold a K-cycle
	let seed0 = args.u64("seed", 1);
	let gid0 = args.u64("gid0", 1) as usize;
	let mut out = NdWriter::create(args.req("out"));
	let mut gid = gid0;
	let mut scanned = 0u64;
	let mut summary = vec![];
	for var in variants(args) {
		let mut rng = mkrng(seed0, 0x5ca9 + eb as u64 * 16 + var as u64);
		let (mut n_with, mut n_without) = (0usize, 0usize);
		let mut tries = 0;
		while n_with + n_without < per && tries < 2_000_000 {
			tries += 1;
			let seed: u64 = rng.gen::<u64>() >> 1;
			let es = table(var, eb, seed);
			let cyc = Index::new(var, es.clone()).cycles(K, 1000, true).len();
			scanned += 1;
			let take = if cyc > 0 { n_with < with } else { n_without < per - with };
			if take {
				if cyc > 0 {
					n_with += 1
				} else {
					n_without += 1
				}
				out.put(&graph_json(gid, var, eb, seed, &es, cyc));
				gid += 1;
			}
		}
		// graphs holding the shapes that pass every local test without being one cycle: two
		// half-length cycles sharing a meeting point (figure eight) or disjoint
		let shapes = args.u64("shapes", 0) as usize;
		let (mut n_fig, mut n_two, mut stries) = (0usize, 0usize, 0u64);
		while (n_fig < shapes || n_two < shapes) && stries < 3_000_000 {
			stries += 1;
			let seed: u64 = rng.gen::<u64>() >> 1;
			let es = table(var, eb, seed);
			let idx = Index::new(var, es.clone());
			if idx.cycles(K / 2, 2, true).len() < 2 {
				continue;
			}
			let (two, fig) = glued(var, &idx);
			let take_fig = !fig.is_empty() && n_fig < shapes;
			let take_two = !two.is_empty() && n_two < shapes;
			if take_fig || take_two {
				if take_fig {
					n_fig += 1;
				}
				if take_two {
					n_two += 1;
				}
				let cyc = idx.cycles(K, 1000, true).len();
				out.put(&graph_json(gid, var, eb, seed, &es, cyc));
				gid += 1;
			}
		}
		scanned += stries;
		summary.push(json!({"variant": var.name(), "with_cycle": n_with, "without": n_without, "seeds_tried": tries,
			"with_figure_eight": n_fig, "with_two_half_cycles": n_two, "seeds_tried_for_shapes": stries}));
	}
	out.finish();
	println!("{}", json!({"graphs": gid - gid0, "scanned": scanned, "per_variant": summary}));
	0
}

// ------------------------------------------------------------------------------------------
// exhaust: every ascending K-subset of every listed graph through the real verify

fn chain_of(args: &Args) -> ChainTypes {
	match args.get("chain") {
		Some("mainnet") => ChainTypes::Mainnet,
		_ => ChainTypes::AutomatedTesting,
	}
}

fn tuples_json(kept: &[(Vec<u64>, Verdict)], which: Verdict) -> Vec<Value> {
	kept.iter().filter(|(_, v)| *v == which).map(|(t, _)| json!(t)).collect()
}

fn deferrer(g: &Value) -> Option<Arc<dyn Fn(&[u64]) -> bool + Send + Sync>> {
	let var = Variant::from_name(g["variant"].as_str().unwrap());
	if var != Variant::Cuckarood {
		return None;
	}
	let es = table(var, g["eb"].as_u64().unwrap() as u32, g["seed"].as_u64().unwrap());
	Some(Arc::new(move |t: &[u64]| {
		let sel: Vec<Edge> = t.iter().map(|n| es[*n as usize]).collect();
		graph::walk_may_not_return(var, &sel)
	}))
}

fn exhaust(args: &Args) -> i32 {
	let graphs = read_ndjson(args.req("graphs"));
	let threads = args.u64("threads", 4) as usize;
	let mut out = NdWriter::create(args.req("out"));
	let sample = args.u64("sample", 0) as usize; // 0: every K-subset; M: M random K-subsets per graph
	let rseed = args.u64("seed", 1);
	let specs: Vec<JobSpec> = graphs
		.iter()
		.map(|g| {
			let n = g["N"].as_u64().unwrap() as usize;
			let source = if sample == 0 {
				Source::combos(n, K)
			} else {
				let mut rng = mkrng(rseed, 0x5a3b ^ g["seed"].as_u64().unwrap());
				let mut items = Vec::with_capacity(sample);
				for _ in 0..sample {
					let mut t: Vec<u64> = vec![];
					while t.len() < K {
						let x = rng.gen_range(0, n as u64);
						if !t.contains(&x) {
							t.push(x);
						}
					}
					t.sort_unstable();
					items.push(t);
				}
				Source::list(items)
			};
			JobSpec {
				var: Variant::from_name(g["variant"].as_str().unwrap()),
				edge_bits: g["eb"].as_u64().unwrap() as u8,
				seed: g["seed"].as_u64().unwrap(),
				proof_size: K,
				chain: ChainTypes::AutomatedTesting,
				source,
				keep_all: false,
				defer: deferrer(g),
			}
		})
		.collect();
	let budget = AtomicI64::new(args.u64("max-hangs", 6) as i64);
	let mut res = run::run_jobs(specs, threads, &budget);
	// second pass: the tuples set aside by the scheduling aid, each graph as an explicit list
	let dspecs: Vec<JobSpec> = graphs
		.iter()
		.zip(res.iter())
		.map(|(g, r)| JobSpec {
			var: Variant::from_name(g["variant"].as_str().unwrap()),
			edge_bits: g["eb"].as_u64().unwrap() as u8,
			seed: g["seed"].as_u64().unwrap(),
			proof_size: K,
			chain: ChainTypes::AutomatedTesting,
			source: Source::list(r.deferred.clone()),
			keep_all: false,
			defer: None,
		})
		.collect();
	let dres = if budget.load(Ordering::SeqCst) > 0 { run::run_jobs(dspecs, threads, &budget) } else { dspecs.iter().map(|_| run::JobResult::default()).collect() };
	let mut total = 0u64;
	for ((g, r), d) in graphs.iter().zip(res.iter_mut()).zip(dres.into_iter()) {
		let deferred = r.deferred.len() as u64;
		r.calls += d.calls;
		r.rejects += d.rejects;
		r.hangs += d.hangs;
		r.kept.extend(d.kept.into_iter());
		total += r.calls;
		out.put(&json!({"gid": g["gid"], "variant": g["variant"], "eb": g["eb"], "seed": g["seed"], "calls": r.calls,
			"rejects": r.rejects, "complete": r.complete && (d.complete || deferred == 0),
			"deferred": deferred, "deferred_run": d.calls,
			"accepted": tuples_json(&r.kept, Verdict::Accept),
			"panics": tuples_json(&r.kept, Verdict::Panic),
			"hangs": tuples_json(&r.kept, Verdict::Hang)}));
	}
	out.finish();
	println!("{}", json!({"graphs": graphs.len(), "calls": total}));
	0
}

// ------------------------------------------------------------------------------------------
// cases: explicit tuples {variant, eb, seed, nonces, ...} -> adds "verdict"

fn cases(args: &Args) -> i32 {
	let cs = read_ndjson(args.req("cases"));
	let mut out = NdWriter::create(args.req("out"));
	let threads = args.u64("threads", 4) as usize;
	let chain = chain_of(args);
	// group consecutive cases of the same graph into one job
	let mut groups: Vec<(Variant, u8, u64, Vec<usize>)> = vec![];
	for (i, c) in cs.iter().enumerate() {
		let key = (Variant::from_name(c["variant"].as_str().unwrap()), c["eb"].as_u64().unwrap() as u8, c["seed"].as_u64().unwrap());
		match groups.last_mut() {
			Some(g) if (g.0, g.1, g.2) == key => g.3.push(i),
			_ => groups.push((key.0, key.1, key.2, vec![i])),
		}
	}
	let specs: Vec<JobSpec> = groups
		.iter()
		.map(|g| JobSpec {
			var: g.0,
			edge_bits: g.1,
			seed: g.2,
			proof_size: if chain == ChainTypes::Mainnet { 42 } else { K },
			chain,
			source: Source::list(g.3.iter().map(|i| cs[*i]["nonces"].as_array().unwrap().iter().map(|x| x.as_u64().unwrap()).collect()).collect()),
			keep_all: true,
			defer: None,
		})
		.collect();
	let res = run::run_jobs(specs, threads, &AtomicI64::new(args.u64("max-hangs", 1000) as i64));
	for (g, r) in groups.iter().zip(res.iter()) {
		for (i, (_, v)) in g.3.iter().zip(r.kept.iter()) {
			let mut c = cs[*i].clone();
			c["verdict"] = json!(v.name());
			// my endpoints of the in-range nonces mentioned, so that the record can be checked by TLC
			let keys = sip::keys_from_header(&run::header_for(g.2), Some(run::header_nonce(g.2)));
			let n_edges = 1u64 << g.1;
			let mut ns: Vec<u64> = c["nonces"].as_array().unwrap().iter().map(|x| x.as_u64().unwrap()).filter(|x| *x < n_edges).collect();
			ns.sort_unstable();
			ns.dedup();
			c["ends"] = json!(ns
				.iter()
				.map(|x| {
					let (u, v) = sip::endpoints(g.0, &keys, g.1 as u32, *x);
					json!([x, u, v])
				})
				.collect::<Vec<_>>());
			c["N"] = json!(n_edges);
			c["K"] = json!(K);
			out.put(&c);
		}
	}
	out.finish();
	0
}

// ------------------------------------------------------------------------------------------
// record: direction B. Larger graphs, own DFS finder (and the repository's cuckatoo solver),
// each found cycle plus near misses -> events with my endpoints and the real verdict.

struct Ev {
	kind: String,
	nonces: Vec<u64>,
}

fn near_misses(var: Variant, idx: &Index, cyc: &[u64], rng: &mut StdRng, extra4: &[Vec<u64>], fig8: &[Vec<u64>], paths: &[Vec<u64>]) -> Vec<Ev> {
	let n = idx.edges.len() as u64;
	let mut evs = vec![Ev { kind: "cycle".into(), nonces: cyc.to_vec() }];
	let k = cyc.len();
	let sorted = |mut v: Vec<u64>| {
		v.sort_unstable();
		v
	};
	// one nonce replaced by a neighbouring nonce (kept ascending and distinct)
	for _ in 0..6 {
		let i = rng.gen_range(0, k);
		let d: i64 = if rng.gen::<bool>() { 1 } else { -1 };
		let nn = cyc[i] as i64 + d * rng.gen_range(1, 3);
		if nn < 0 || nn as u64 >= n || cyc.contains(&(nn as u64)) {
			continue;
		}
		let mut t = cyc.to_vec();
		t[i] = nn as u64;
		evs.push(Ev { kind: "neighbour".into(), nonces: sorted(t) });
	}
	// one nonce replaced by a random other edge
	for _ in 0..4 {
		let i = rng.gen_range(0, k);
		let nn = rng.gen_range(0, n);
		if cyc.contains(&nn) {
			continue;
		}
		let mut t = cyc.to_vec();
		t[i] = nn;
		evs.push(Ev { kind: "replaced".into(), nonces: sorted(t) });
	}
	// one nonce replaced by an edge touching the cycle (a branch / dead end at a cycle node)
	{
		let on: Vec<&Edge> = idx.edges.iter().filter(|e| cyc.contains(&e.nonce)).collect();
		let mut cnt = 0;
		for e in idx.edges.iter() {
			if cnt >= 4 {
				break;
			}
			if cyc.contains(&e.nonce) {
				continue;
			}
			let (a, b) = graph::ports(var, e);
			let touches = on.iter().any(|c| {
				let (ca, cb) = graph::ports(var, c);
				[ca, cb].iter().any(|x| graph::junction(var, *x) == graph::junction(var, a) || graph::junction(var, *x) == graph::junction(var, b))
			});
			if touches {
				let i = rng.gen_range(0, k);
				let mut t = cyc.to_vec();
				t[i] = e.nonce;
				evs.push(Ev { kind: "branch".into(), nonces: sorted(t) });
				let mut t = cyc.to_vec();
				t.push(e.nonce);
				evs.push(Ev { kind: "k_plus_branch".into(), nonces: sorted(t) });
				cnt += 1;
			}
		}
	}
	// order: two swapped, reversed, rotated
	for _ in 0..3 {
		let i = rng.gen_range(0, k - 1);
		let j = rng.gen_range(i + 1, k);
		let mut t = cyc.to_vec();
		t.swap(i, j);
		evs.push(Ev { kind: "swapped".into(), nonces: t });
	}
	{
		let mut t = cyc.to_vec();
		t.swap(k - 2, k - 1);
		evs.push(Ev { kind: "swapped_last".into(), nonces: t });
		let mut t = cyc.to_vec();
		t.swap(0, 1);
		evs.push(Ev { kind: "swapped_first".into(), nonces: t });
		let mut t = cyc.to_vec();
		t.reverse();
		evs.push(Ev { kind: "reversed".into(), nonces: t });
		let mut t = cyc.to_vec();
		t.rotate_left(1);
		evs.push(Ev { kind: "rotated".into(), nonces: t });
	}
	// duplicates
	for _ in 0..3 {
		let i = rng.gen_range(0, k);
		let j = (i + 1 + rng.gen_range(0, k - 1)) % k;
		let mut t = cyc.to_vec();
		t[j] = cyc[i];
		evs.push(Ev { kind: "duplicate_sorted".into(), nonces: sorted(t.clone()) });
		evs.push(Ev { kind: "duplicate_inplace".into(), nonces: t });
	}
	// out of range: N itself, nonce + N (same low bits), a huge value
	{
		let mut t = cyc.to_vec();
		t[k - 1] = n;
		evs.push(Ev { kind: "range_N".into(), nonces: t });
		for i in [0, k - 1] {
			let mut t = cyc.to_vec();
			t[i] = cyc[i] + n;
			evs.push(Ev { kind: "range_plus_N".into(), nonces: sorted(t) });
		}
		let mut t = cyc.to_vec();
		t[k - 1] = cyc[k - 1] + (n << 3);
		evs.push(Ev { kind: "range_high_bits".into(), nonces: t });
	}
	// wrong count
	for i in [0, k / 2, k - 1] {
		let mut t = cyc.to_vec();
		t.remove(i);
		evs.push(Ev { kind: "k_minus_1".into(), nonces: t });
	}
	for _ in 0..2 {
		let nn = rng.gen_range(0, n);
		if !cyc.contains(&nn) {
			let mut t = cyc.to_vec();
			t.push(nn);
			evs.push(Ev { kind: "k_plus_1".into(), nonces: sorted(t) });
		}
	}
	evs.push(Ev { kind: "empty".into(), nonces: vec![] });
	{
		let mut t = cyc.to_vec();
		t.extend_from_slice(cyc);
		evs.push(Ev { kind: "twice".into(), nonces: t });
	}
	// shapes that satisfy the endpoint-parity test without being one cycle
	for g in extra4.iter().take(3) {
		evs.push(Ev { kind: "two_half_cycles".into(), nonces: g.clone() });
	}
	for g in fig8.iter().take(3) {
		evs.push(Ev { kind: "figure_eight".into(), nonces: g.clone() });
	}
	for g in paths.iter().take(3) {
		evs.push(Ev { kind: "open_path".into(), nonces: g.clone() });
	}
	evs
}

/// pairs of half-length cycles of one graph: disjoint ones ("two_half_cycles") and ones sharing
/// a meeting point ("figure_eight")
fn glued(var: Variant, idx: &Index) -> (Vec<Vec<u64>>, Vec<Vec<u64>>) {
	let halves = idx.cycles(K / 2, 40, true);
	let (mut two, mut fig) = (vec![], vec![]);
	for i in 0..halves.len() {
		for j in i + 1..halves.len() {
			if halves[i].iter().any(|x| halves[j].contains(x)) {
				continue;
			}
			let juncs = |c: &Vec<u64>| -> Vec<graph::Node> {
				let mut r = vec![];
				for n in c {
					let (a, b) = graph::ports(var, &idx.edges[*n as usize]);
					r.push(graph::junction(var, a));
					r.push(graph::junction(var, b));
				}
				r
			};
			let ji = juncs(&halves[i]);
			let share = juncs(&halves[j]).iter().any(|x| ji.contains(x));
			let mut t = halves[i].clone();
			t.extend_from_slice(&halves[j]);
			t.sort_unstable();
			if share {
				fig.push(t)
			} else {
				two.push(t)
			}
		}
	}
	(two, fig)
}

fn record(args: &Args) -> i32 {
	let seed0 = args.u64("seed", 1);
	let per = args.u64("per", 3) as usize; // cycles wanted per (variant, edge_bits)
	let ebs: Vec<u32> = args.get("ebs").unwrap_or("8,9,10").split(',').map(|s| s.parse().unwrap()).collect();
	let threads = args.u64("threads", 4) as usize;
	let mut out = NdWriter::create(args.req("out"));
	// 1. find graphs and build the tuple lists
	struct G {
		var: Variant,
		eb: u32,
		seed: u64,
		idx: Index,
		evs: Vec<Ev>,
	}
	let mut gs: Vec<G> = vec![];
	let mut stats = serde_json::Map::new();
	for var in variants(args) {
		for &eb in &ebs {
			let mut rng = mkrng(seed0, 0xB000 + eb as u64 * 16 + var as u64);
			let (mut got, mut got_shapes, mut tries) = (0usize, 0usize, 0u64);
			let (mut got_two, mut got_fig) = (0usize, 0usize);
			while (got < per || (got_two < 1 && tries < 3000) || (got_fig < 1 && eb <= 9 && tries < 4000)) && tries < 30000 {
				tries += 1;
				let seed: u64 = rng.gen::<u64>() >> 1;
				let idx = Index::new(var, table(var, eb, seed));
				let cycs = if got < per { idx.cycles(K, 4, true) } else { vec![] };
				let (two, fig) = glued(var, &idx);
				let shapes = (!two.is_empty() && got_two < 2) || (!fig.is_empty() && got_fig < 2);
				if cycs.is_empty() && !shapes {
					continue;
				}
				if !two.is_empty() {
					got_two += 1;
				}
				if !fig.is_empty() {
					got_fig += 1;
				}
				let paths = idx.cycles(K, 3, false);
				let mut evs = vec![];
				if cycs.is_empty() {
					for g in two.iter().take(3) {
						evs.push(Ev { kind: "two_half_cycles".into(), nonces: g.clone() });
					}
					for g in fig.iter().take(3) {
						evs.push(Ev { kind: "figure_eight".into(), nonces: g.clone() });
					}
				}
				for c in cycs.iter() {
					evs.extend(near_misses(var, &idx, c, &mut rng, &two, &fig, &paths));
					got += 1;
				}
				if shapes {
					got_shapes += 1;
				}
				gs.push(G { var, eb, seed, idx, evs });
			}
			stats.insert(format!("{}{}", var.name(), eb), json!({"graphs_scanned": tries, "cycles": got, "graphs_with_glued_shapes": got_shapes, "with_two_half_cycles": got_two, "with_figure_eight": got_fig}));
		}
	}
	// the repository's own cuckatoo solver on the same graphs: what it finds must be cycles too
	let mut solver_found = 0;
	for g in gs.iter_mut().filter(|g| g.var == Variant::Cuckatoo) {
		let header = run::header_for(g.seed);
		let mut ctx = grin_core::pow::new_cuckatoo_ctx(g.eb as u8, K, 10).unwrap();
		ctx.set_header_nonce(header, Some(run::header_nonce(g.seed)), true).unwrap();
		if let Ok(sols) = std::panic::catch_unwind(std::panic::AssertUnwindSafe(|| ctx.find_cycles())) {
			if let Ok(sols) = sols {
				for s in sols {
					solver_found += 1;
					g.evs.push(Ev { kind: "repo_solver".into(), nonces: s.nonces.clone() });
				}
			}
		}
	}
	// 2. real verdicts
	let specs: Vec<JobSpec> = gs
		.iter()
		.map(|g| JobSpec {
			var: g.var,
			edge_bits: g.eb as u8,
			seed: g.seed,
			proof_size: K,
			chain: ChainTypes::AutomatedTesting,
			source: Source::list(g.evs.iter().map(|e| e.nonces.clone()).collect()),
			keep_all: true,
			defer: None,
		})
		.collect();
	let res = run::run_jobs(specs, threads, &AtomicI64::new(args.u64("max-hangs", 1000) as i64));
	// 3. events: the endpoints listed are mine, the verdict is the real code's
	let mut kinds = serde_json::Map::new();
	for (g, r) in gs.iter().zip(res.iter()) {
		let n = g.idx.edges.len() as u64;
		for (e, (_, v)) in g.evs.iter().zip(r.kept.iter()) {
			let mut ns: Vec<u64> = e.nonces.iter().cloned().filter(|x| *x < n).collect();
			ns.sort_unstable();
			ns.dedup();
			let ends: Vec<Value> = ns.iter().map(|x| json!([x, g.idx.edges[*x as usize].u, g.idx.edges[*x as usize].v])).collect();
			let big = e.nonces.iter().any(|x| *x >= (1u64 << 31));
			// TLC integers are 32-bit: a nonce beyond 2^31 is logged as -1 (any out-of-range value)
			let logged: Vec<i64> = e.nonces.iter().map(|x| if *x >= (1u64 << 31) { -1 } else { *x as i64 }).collect();
			out.put(&json!({"k": "Verify", "variant": g.var.name(), "eb": g.eb, "seed": g.seed.to_string(), "N": n, "K": K, "kind": e.kind,
				"nonces": logged, "ends": ends, "verdict": v.name(), "clipped": big}));
			let c = kinds.entry(format!("{}:{}", e.kind, v.name())).or_insert(json!(0));
			*c = json!(c.as_u64().unwrap() + 1);
		}
	}
	let n = out.n;
	out.finish();
	println!("{}", json!({"events": n, "graphs": gs.len(), "repo_solver_cycles": solver_found, "by_kind": kinds, "search": stats}));
	0
}

// ------------------------------------------------------------------------------------------
// twins: every verifier files the K*2 edge ends under a few low bits of the node number and compares
// full node numbers inside a bucket. Tuples that are simple K-cycles of the graph whose node numbers
// are cut to exactly those bits (and, preferably, also satisfy the endpoint-parity condition on the
// full numbers) are the near misses of that mechanism: ends that share a bucket without being the
// same node. They need more nodes than buckets, i.e. graphs beyond 16 edges. Output: `cases` input.

fn bucket_bits(var: Variant) -> u64 {
	// K = 8: the verifiers' mask is 15
	match var {
		Variant::Cuckatoo => 31, // bucket (u >> 1) & 15, bit 0 tells the two nodes of a pair apart
		Variant::Cuckarood => 7, // bucket (u << 1 | dir) & 15
		_ => 15,
	}
}

fn parity_ok(var: Variant, es: &[Edge]) -> bool {
	let xu = es.iter().fold(0u64, |a, e| a ^ e.u);
	let xv = es.iter().fold(0u64, |a, e| a ^ e.v);
	match var {
		Variant::Cuckatoo => {
			let b = ((es.len() / 2) & 1) as u64;
			xu == b && xv == b
		}
		Variant::Cuckaroo | Variant::Cuckarood => xu == 0 && xv == 0,
		_ => xu ^ xv == 0,
	}
}

fn twins(args: &Args) -> i32 {
	let seed0 = args.u64("seed", 1);
	let per = args.u64("per", 2) as usize; // graphs per (variant, edge bits)
	let limit = args.u64("limit", 24) as usize; // tuples per graph
	let ebs: Vec<u32> = args.get("ebs").unwrap_or("5,6,7").split(',').map(|s| s.parse().unwrap()).collect();
	let mut out = NdWriter::create(args.req("out"));
	let mut stats = serde_json::Map::new();
	for var in variants(args) {
		for &eb in &ebs {
			let mut rng = mkrng(seed0, 0x7715 + eb as u64 * 16 + var as u64);
			let (mut graphs, mut tries) = (0usize, 0u64);
			let (mut n_bal, mut n_unbal, mut n_true) = (0usize, 0usize, 0usize);
			while graphs < per && tries < 400 {
				tries += 1;
				let seed: u64 = rng.gen::<u64>() >> 1;
				let es = table(var, eb, seed);
				let m = bucket_bits(var);
				let cut: Vec<Edge> = es.iter().map(|e| Edge { nonce: e.nonce, u: e.u & m, v: e.v & m }).collect();
				let qc = Index::new(var, cut).cycles(K, 4000, true);
				let mut bal = vec![];
				let mut unbal = vec![];
				for t in qc {
					let sel: Vec<Edge> = t.iter().map(|n| es[*n as usize]).collect();
					if graph::is_simple_cycle(var, &sel) {
						n_true += 1;
						continue;
					}
					if parity_ok(var, &sel) {
						bal.push(t)
					} else {
						unbal.push(t)
					}
				}
				if bal.is_empty() {
					continue;
				}
				graphs += 1;
				for t in bal.iter().take(limit) {
					n_bal += 1;
					out.put(&json!({"variant": var.name(), "eb": eb, "seed": seed, "nonces": t, "kind": "bucket_twin"}));
				}
				for t in unbal.iter().take(4) {
					n_unbal += 1;
					out.put(&json!({"variant": var.name(), "eb": eb, "seed": seed, "nonces": t, "kind": "bucket_twin_odd"}));
				}
			}
			stats.insert(format!("{}{}", var.name(), eb), json!({"graphs": graphs, "seeds_tried": tries, "twins": n_bal, "twins_parity_off": n_unbal, "true_cycles_skipped": n_true}));
		}
	}
	let n = out.n;
	out.finish();
	println!("{}", json!({"cases": n, "search": stats}));
	0
}

// ------------------------------------------------------------------------------------------
// select: `global::create_pow_context` (the single place a verifier is chosen) by chain type,
// header version of the height, and edge_bits. For each graph definition a cycle of the chain
// type's proof size is found in a small graph with my own finder; the context the node would
// build for heights of every header version must accept it iff it built that definition.

fn select(args: &Args) -> i32 {
	let seed0 = args.u64("seed", 1);
	let eb = args.u64("eb", 10) as u32;
	let mut out = NdWriter::create(args.req("out"));
	let mut info = vec![];
	for (chain, cname) in [(ChainTypes::Mainnet, "mainnet"), (ChainTypes::AutomatedTesting, "automated")] {
		let h = std::thread::spawn(move || {
			global::set_local_chain_type(chain);
			let k = global::proofsize();
			let mut evs: Vec<Value> = vec![];
			let mut found = vec![];
			// one height per header version 1..=5
			let mut heights: Vec<(u64, u64)> = vec![];
			let mut hgt = 0u64;
			while heights.len() < 5 && hgt < 100_000_000 {
				let v = grin_core::consensus::header_version(hgt).0 as u64;
				if heights.iter().all(|(x, _)| *x != v) {
					heights.push((v, hgt));
				}
				hgt += if chain == ChainTypes::Mainnet { 20_160 } else { 1 };
			}
			for var in sip::ALL.iter().cloned() {
				let mut rng = mkrng(seed0, 0x5e1ec7 + var as u64 + k as u64 * 8);
				let mut cyc = None;
				let mut tries = 0;
				while cyc.is_none() && tries < 4000 {
					tries += 1;
					let seed: u64 = rng.gen::<u64>() >> 1;
					let c = Index::new(var, table(var, eb, seed)).cycles(k, 1, true);
					if let Some(c) = c.into_iter().next() {
						cyc = Some((seed, c));
					}
				}
				let (seed, cyc) = match cyc {
					Some(x) => x,
					None => continue,
				};
				found.push(json!({"variant": var.name(), "seeds_tried": tries}));
				let header = run::header_for(seed);
				let keys = sip::keys_from_header(&header, Some(run::header_nonce(seed)));
				let mut ends_by = serde_json::Map::new();
				for v2 in sip::ALL.iter() {
					ends_by.insert(
						v2.name().to_string(),
						json!(cyc
							.iter()
							.map(|n| {
								let (u, v) = sip::endpoints(*v2, &keys, eb, *n);
								json!([n, u, v])
							})
							.collect::<Vec<_>>()),
					);
				}
				for (ver, height) in heights.iter() {
					let verdict = match std::panic::catch_unwind(std::panic::AssertUnwindSafe(|| {
						match global::create_pow_context::<u64>(*height, eb as u8, k, 10) {
							Err(_) => "noctx",
							Ok(mut ctx) => {
								ctx.set_header_nonce(header.clone(), Some(run::header_nonce(seed)), false).unwrap();
								run::verify_once(ctx.as_ref(), eb as u8, &cyc).name()
							}
						}
					})) {
						Ok(v) => v,
						Err(_) => "panic",
					};
					evs.push(json!({"k": "Select", "chain": cname, "version": ver, "height": height, "eb": eb, "N": 1u64 << eb, "K": k,
						"cycle_of": var.name(), "seed": seed.to_string(), "nonces": cyc, "ends_by": ends_by, "verdict": verdict}));
				}
			}
			(evs, found)
		});
		let (evs, found) = h.join().expect("select thread");
		for e in evs {
			out.put(&e);
		}
		info.push(json!({"chain": cname, "cycles": found}));
	}
	let n = out.n;
	out.finish();
	println!("{}", json!({"events": n, "search": info}));
	0
}
