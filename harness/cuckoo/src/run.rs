//! Calls the real `PoWContext::verify` of each variant. A verdict is one of accept / reject /
//! panic / hang: the call runs in a worker thread watched by the caller, a call that makes no
//! progress for HANG_MS is reported as "hang" (the stuck thread is abandoned) and the
//! enumeration continues after it in a fresh worker.
use crate::sip::Variant;
use grin_core::global::{self, ChainTypes};
use grin_core::pow::{self, PoWContext, Proof};
use std::panic::{catch_unwind, AssertUnwindSafe};
use std::sync::atomic::{AtomicBool, AtomicI64, AtomicU64, Ordering};
use std::sync::{Arc, Mutex};
use std::time::{Duration, Instant};

#[derive(Clone, Copy, PartialEq, Eq, Debug)]
pub enum Verdict {
	Accept,
	Reject,
	Panic,
	Hang,
}

impl Verdict {
	pub fn name(&self) -> &'static str {
		match self {
			Verdict::Accept => "accept",
			Verdict::Reject => "reject",
			Verdict::Panic => "panic",
			Verdict::Hang => "hang",
		}
	}
}

/// 80 header bytes derived from the seed (any bytes do: they only feed blake2b)
pub fn header_for(seed: u64) -> Vec<u8> {
	let mut h = vec![0u8; 80];
	let mut x = seed.wrapping_mul(0x9E3779B97F4A7C15).wrapping_add(0xD1B54A32D192ED03);
	for b in h.iter_mut() {
		x ^= x >> 27;
		x = x.wrapping_mul(0x94D049BB133111EB);
		x ^= x >> 31;
		*b = (x >> 24) as u8;
	}
	h
}

pub fn header_nonce(seed: u64) -> u32 {
	(seed as u32) ^ ((seed >> 32) as u32)
}

/// The real verifier for the graph (variant, edge_bits, seed), seeded the way the node does it:
/// through `set_header_nonce(header, Some(nonce))`. Must run on a thread whose chain type is set.
pub fn real_ctx(var: Variant, edge_bits: u8, proof_size: usize, header: &[u8], nonce: Option<u32>) -> Box<dyn PoWContext> {
	let mut ctx = match var {
		Variant::Cuckatoo => pow::new_cuckatoo_ctx(edge_bits, proof_size, 10),
		Variant::Cuckaroo => pow::new_cuckaroo_ctx(edge_bits, proof_size),
		Variant::Cuckarood => pow::new_cuckarood_ctx(edge_bits, proof_size),
		Variant::Cuckaroom => pow::new_cuckaroom_ctx(edge_bits, proof_size),
		Variant::Cuckarooz => pow::new_cuckarooz_ctx(edge_bits, proof_size),
	}
	.expect("ctx");
	ctx.set_header_nonce(header.to_vec(), nonce, false).expect("set_header_nonce");
	ctx
}

pub fn verify_once(ctx: &dyn PoWContext, edge_bits: u8, nonces: &[u64]) -> Verdict {
	let proof = Proof { edge_bits, nonces: nonces.to_vec() };
	match catch_unwind(AssertUnwindSafe(|| ctx.verify(&proof).is_ok())) {
		Ok(true) => Verdict::Accept,
		Ok(false) => Verdict::Reject,
		Err(_) => Verdict::Panic,
	}
}

#[derive(Clone)]
pub enum Source {
	/// every ascending k-subset of 0..n, lexicographic, starting at `cur` (None = exhausted)
	Combos { n: usize, cur: Option<Vec<usize>> },
	/// an explicit list of nonce tuples
	List { items: Arc<Vec<Vec<u64>>>, pos: usize },
}

impl Source {
	pub fn combos(n: usize, k: usize) -> Source {
		Source::Combos { n, cur: if k <= n { Some((0..k).collect()) } else { None } }
	}
	pub fn list(items: Vec<Vec<u64>>) -> Source {
		Source::List { items: Arc::new(items), pos: 0 }
	}
	fn peek(&self) -> Option<Vec<u64>> {
		match self {
			Source::Combos { cur, .. } => cur.as_ref().map(|c| c.iter().map(|x| *x as u64).collect()),
			Source::List { items, pos } => items.get(*pos).cloned(),
		}
	}
	fn advance(&mut self) {
		match self {
			Source::Combos { n, cur } => {
				if let Some(c) = cur {
					let k = c.len();
					let mut i = k;
					loop {
						if i == 0 {
							*cur = None;
							return;
						}
						i -= 1;
						if c[i] < *n - (k - i) {
							c[i] += 1;
							for j in i + 1..k {
								c[j] = c[j - 1] + 1;
							}
							return;
						}
					}
				}
			}
			Source::List { pos, .. } => *pos += 1,
		}
	}
}

pub struct JobSpec {
	pub var: Variant,
	pub edge_bits: u8,
	pub seed: u64,
	pub proof_size: usize,
	pub chain: ChainTypes,
	pub source: Source,
	/// keep rejected tuples too (explicit lists); exhaustive runs keep only non-rejects
	pub keep_all: bool,
	/// scheduling only: tuples for which this returns true are not verified in the main pass but
	/// collected in `deferred` (the caller runs them afterwards, see `exhaust`)
	pub defer: Option<Arc<dyn Fn(&[u64]) -> bool + Send + Sync>>,
}

#[derive(Default)]
pub struct JobResult {
	pub calls: u64,
	pub rejects: u64,
	pub kept: Vec<(Vec<u64>, Verdict)>,
	pub hangs: u64,
	pub complete: bool,
	pub deferred: Vec<Vec<u64>>,
}

struct Shared {
	count: AtomicU64,
	done: AtomicBool,
	state: Mutex<(Source, JobResult)>,
}

fn spawn_worker(spec: &JobSpec, source: Source, carry: JobResult) -> Arc<Shared> {
	let sh = Arc::new(Shared { count: AtomicU64::new(0), done: AtomicBool::new(false), state: Mutex::new((source, carry)) });
	let sh2 = sh.clone();
	let (var, eb, seed, k, chain, keep_all) = (spec.var, spec.edge_bits, spec.seed, spec.proof_size, spec.chain, spec.keep_all);
	let defer = spec.defer.clone();
	std::thread::spawn(move || {
		global::set_local_chain_type(chain);
		let header = header_for(seed);
		let ctx = real_ctx(var, eb, k, &header, Some(header_nonce(seed)));
		loop {
			// the tuple about to be verified stays at the head of the source while the call runs
			let t = {
				let g = sh2.state.lock().unwrap();
				g.0.peek()
			};
			let t = match t {
				Some(t) => t,
				None => break,
			};
			if let Some(d) = &defer {
				if d(&t) {
					let mut g = sh2.state.lock().unwrap();
					g.1.deferred.push(t);
					g.0.advance();
					drop(g);
					sh2.count.fetch_add(1, Ordering::Relaxed);
					continue;
				}
			}
			let v = verify_once(ctx.as_ref(), eb, &t);
			let mut g = sh2.state.lock().unwrap();
			g.1.calls += 1;
			if v == Verdict::Reject {
				g.1.rejects += 1;
			}
			if keep_all || v != Verdict::Reject {
				g.1.kept.push((t, v));
			}
			g.0.advance();
			drop(g);
			sh2.count.fetch_add(1, Ordering::Relaxed);
		}
		sh2.done.store(true, Ordering::SeqCst);
	});
	sh
}

pub fn hang_ms() -> u64 {
	std::env::var("VERIF_HANG_MS").ok().and_then(|s| s.parse().ok()).unwrap_or(2500)
}

/// Run all jobs, at most `threads` at a time. Returns results in job order.
/// `budget` = how many more hung calls this process is willing to pay for (each leaves a spinning
/// thread behind); a job that hits a hang when the budget is spent is returned incomplete.
pub fn run_jobs(specs: Vec<JobSpec>, threads: usize, budget: &AtomicI64) -> Vec<JobResult> {
	let n = specs.len();
	let mut results: Vec<Option<JobResult>> = (0..n).map(|_| None).collect();
	struct Active {
		idx: usize,
		sh: Arc<Shared>,
		last: u64,
		since: Instant,
	}
	let mut active: Vec<Active> = vec![];
	let mut next = 0usize;
	let limit = Duration::from_millis(hang_ms());
	while next < n || !active.is_empty() {
		while active.len() < threads.max(1) && next < n {
			let sh = spawn_worker(&specs[next], specs[next].source.clone(), JobResult::default());
			active.push(Active { idx: next, sh, last: 0, since: Instant::now() });
			next += 1;
		}
		std::thread::sleep(Duration::from_millis(5));
		let mut i = 0;
		while i < active.len() {
			let a = &mut active[i];
			if a.sh.done.load(Ordering::SeqCst) {
				let mut g = a.sh.state.lock().unwrap();
				let mut r = std::mem::take(&mut g.1);
				r.complete = true;
				results[a.idx] = Some(r);
				drop(g);
				active.swap_remove(i);
				continue;
			}
			let c = a.sh.count.load(Ordering::Relaxed);
			if c != a.last {
				a.last = c;
				a.since = Instant::now();
			} else if a.since.elapsed() > limit {
				// the call on the head tuple never returned: record it, abandon the thread
				let mut g = a.sh.state.lock().unwrap();
				if a.sh.count.load(Ordering::Relaxed) == c && !a.sh.done.load(Ordering::SeqCst) {
					let t = g.0.peek().unwrap_or_default();
					let mut src = g.0.clone();
					let mut r = std::mem::take(&mut g.1);
					// poison the abandoned worker's view: it will never get the lock result back in
					// a meaningful way; give it an exhausted source should it ever return
					g.0 = Source::List { items: Arc::new(vec![]), pos: 0 };
					drop(g);
					r.calls += 1;
					r.hangs += 1;
					r.kept.push((t, Verdict::Hang));
					src.advance();
					let idx = a.idx;
					if budget.fetch_sub(1, Ordering::SeqCst) <= 1 {
						r.complete = false;
						results[idx] = Some(r);
						active.swap_remove(i);
						continue;
					}
					let sh = spawn_worker(&specs[idx], src, r);
					active[i] = Active { idx, sh, last: 0, since: Instant::now() };
				}
			}
			i += 1;
		}
	}
	results.into_iter().map(|r| r.unwrap()).collect()
}
