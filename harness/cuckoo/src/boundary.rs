//! `boundary`: the selection made by global::create_pow_context around the edge-bits boundary of the
//! long-lived networks (spec: SelectVariant in Cuckoo.tla; trace actions TSelect / TSelectKind).
//!   Select      the repository's published 42-cycles at 19 and 29 edge bits (header [0u8;80], nonce n)
//!               through create_pow_context(height of every header version, eb, 42) on Mainnet/Testnet:
//!               the verdict is variant specific (accept iff the selected definition is the vector's).
//!   SelectKind  at 28, 29, 30, 31 (and 19) edge bits, where no cycle can be searched: WHICH verifier
//!               was built is observed differentially. The five reference verifiers are built with
//!               pow::new_*_ctx; every verifier runs a battery of probe tuples (all-even nonces, and,
//!               per definition, tuples solved over GF(2) to pass that definition's endpoint-parity test
//!               and no other's) and its sequence of outcomes is its fingerprint. Outcome texts are only
//!               ever compared between two verifiers of the same binary; the five reference fingerprints
//!               must be pairwise different or the event says "ambiguous" (a tool error, not a verdict).
use crate::run;
use crate::sip::{self, Variant};
use crate::vectors;
use grin_core::global::{self, ChainTypes};
use grin_core::pow::{PoWContext, Proof};
use rand::rngs::StdRng;
use rand::Rng;
use serde_json::{json, Value};
use std::panic::{catch_unwind, AssertUnwindSafe};
use vcommon::*;

/// (definition, edge bits, header nonce, published keys or none, solution)
fn published() -> Vec<(Variant, u32, u32, Option<[u64; 4]>, Vec<u64>)> {
	// order of vectors::solutions(): "empty header, nonce n" comments of the repository's tests
	let nonces = [71u32, 143, 64, 15, 64, 15, 71, 15];
	let mut out: Vec<(Variant, u32, u32, Option<[u64; 4]>, Vec<u64>)> =
		vectors::solutions().into_iter().zip(nonces.iter()).map(|((var, eb, keys, sol), n)| (var, eb, *n, Some(keys), sol)).collect();
	out.push((Variant::Cuckatoo, 29, 20, None, vectors::CUCKATOO_V1_29.to_vec()));
	out
}

/// the vectors whose published keys really are those of header [0u8; 80] with nonce n (the comments of
/// the cuckaroom / cuckarooz tests do not reproduce: those vectors cannot go through a header)
fn published_by_header() -> Vec<(Variant, u32, u32, Option<[u64; 4]>, Vec<u64>)> {
	published().into_iter().filter(|(_, _, n, keys, _)| keys.map(|k| sip::keys_from_header(&vec![0u8; 80], Some(*n)) == k).unwrap_or(true)).collect()
}

pub fn heights_by_version(chain: ChainTypes) -> Vec<(u64, u64)> {
	let mut heights: Vec<(u64, u64)> = vec![];
	let mut hgt = 0u64;
	while heights.len() < 5 && hgt < 100_000_000 {
		let v = grin_core::consensus::header_version(hgt).0 as u64;
		if heights.iter().all(|(x, _)| *x != v) {
			heights.push((v, hgt));
		}
		hgt += if chain == ChainTypes::Mainnet { 20_160 } else { 1 };
	}
	heights
}

fn outcome(ctx: &dyn PoWContext, eb: u8, nonces: &[u64]) -> String {
	let proof = Proof { edge_bits: eb, nonces: nonces.to_vec() };
	match catch_unwind(AssertUnwindSafe(|| ctx.verify(&proof))) {
		Ok(Ok(())) => "ok".into(),
		Ok(Err(e)) => format!("err:{:?}", e),
		Err(_) => "panic".into(),
	}
}

/// the endpoint-parity vector of one edge under definition `var`, and the value the XOR over a
/// k-cycle's edges must have (a necessary condition of being a cycle, from the definitions)
fn parity_vec(var: Variant, keys: &[u64; 4], eb: u32, n: u64) -> u128 {
	let (u, v) = sip::endpoints(var, keys, eb, n);
	match var {
		Variant::Cuckatoo | Variant::Cuckaroo | Variant::Cuckarood => (u as u128) | ((v as u128) << 40),
		Variant::Cuckaroom | Variant::Cuckarooz => (u ^ v) as u128,
	}
}
fn parity_target(var: Variant, k: usize) -> u128 {
	match var {
		// cuckatoo: consecutive edges meet in a node PAIR (u, u^1): k/2 pairs a side flip bit 0
		Variant::Cuckatoo => {
			let b = ((k / 2) & 1) as u128;
			b | (b << 40)
		}
		_ => 0,
	}
}

/// indices of exactly `want` vectors whose XOR is `target` (Gaussian elimination over GF(2), then random
/// members of the solution space until the weight fits and `ok` holds)
fn xor_subset(vecs: &[u128], target: u128, want: usize, ok: &dyn Fn(u128) -> bool, rng: &mut StdRng) -> Option<Vec<usize>> {
	assert!(vecs.len() <= 128);
	let mut basis: Vec<(u128, u128)> = vec![];
	let mut kernel: Vec<u128> = vec![];
	for (i, &v0) in vecs.iter().enumerate() {
		let (mut v, mut c) = (v0, 1u128 << i);
		for &(bv, bc) in &basis {
			if v ^ bv < v {
				v ^= bv;
				c ^= bc;
			}
		}
		if v == 0 {
			kernel.push(c);
		} else {
			basis.push((v, c));
			basis.sort_by(|a, b| b.0.cmp(&a.0));
		}
	}
	let (mut t, mut c) = (target, 0u128);
	for &(bv, bc) in &basis {
		if t ^ bv < t {
			t ^= bv;
			c ^= bc;
		}
	}
	if t != 0 {
		return None;
	}
	for _ in 0..400_000 {
		let mut s = c;
		for k in &kernel {
			if rng.gen::<bool>() {
				s ^= k;
			}
		}
		if s.count_ones() as usize == want && ok(s) {
			return Some((0..vecs.len()).filter(|i| (s >> i) & 1 == 1).collect());
		}
	}
	None
}

fn parity_probe(var: Variant, keys: &[u64; 4], eb: u32, k: usize, rng: &mut StdRng) -> Option<Vec<u64>> {
	let dims = match var {
		Variant::Cuckaroom | Variant::Cuckarooz => var.node_bits(eb),
		_ => 2 * var.node_bits(eb),
	} as usize;
	let m = (dims + 24).max(84).min(128); // expected weight of a random solution close to k = 42
	let mut pool: Vec<u64> = vec![];
	while pool.len() < m {
		let mut x = rng.gen_range(0, 1u64 << eb);
		if var == Variant::Cuckarood {
			x = (x & !1) | (pool.len() as u64 & 1); // half even, half odd
		}
		if !pool.contains(&x) {
			pool.push(x);
		}
	}
	let vecs: Vec<u128> = pool.iter().map(|n| parity_vec(var, keys, eb, *n)).collect();
	let even: u128 = pool.iter().enumerate().filter(|(_, n)| **n & 1 == 0).fold(0u128, |a, (i, _)| a | (1u128 << i));
	let ok = move |s: u128| var != Variant::Cuckarood || (s & even).count_ones() as usize == k / 2;
	let idx = xor_subset(&vecs, parity_target(var, k), k, &ok, rng)?;
	let mut t: Vec<u64> = idx.iter().map(|i| pool[*i]).collect();
	t.sort_unstable();
	let x = t.iter().fold(0u128, |a, n| a ^ parity_vec(var, keys, eb, *n));
	if x != parity_target(var, k) || t.len() != k {
		return None;
	}
	Some(t)
}

struct Battery {
	header: Vec<u8>,
	hnonce: u32,
	probes: Vec<(String, Vec<u64>)>,
	refs: Vec<(Variant, Vec<String>)>,
	distinct: bool,
}

fn battery(eb: u32, k: usize, seed: u64) -> Battery {
	let mut b = battery_try(eb, k, seed, 0);
	let mut round = 1;
	while !b.distinct && round < 6 {
		b = battery_try(eb, k, seed, round);
		round += 1;
	}
	b
}

fn battery_try(eb: u32, k: usize, seed: u64, round: u64) -> Battery {
	let mut rng = crate::mkrng(seed, 0xb0da00 + eb as u64 + (round << 32));
	let gseed: u64 = rng.gen::<u64>() >> 1;
	let header = run::header_for(gseed);
	let hnonce = run::header_nonce(gseed);
	let keys = sip::keys_from_header(&header, Some(hnonce));
	let mut probes: Vec<(String, Vec<u64>)> = vec![];
	// all-even ascending nonces: a directed bipartite cycle needs as many odd (V->U) as even edges
	let mut t: Vec<u64> = vec![];
	while t.len() < k {
		let x = rng.gen_range(0, 1u64 << eb) & !1;
		if !t.contains(&x) {
			t.push(x);
		}
	}
	t.sort_unstable();
	probes.push(("all_even".into(), t));
	for var in sip::ALL.iter().cloned() {
		for r in 0..2 {
			// a tuple passing this definition's parity condition and no other's (a cuckarooz one
			// necessarily passes cuckaroom's, whose node numbers are the same words cut one bit shorter)
			for _ in 0..16 {
				if let Some(t) = parity_probe(var, &keys, eb, k, &mut rng) {
					let alone = sip::ALL.iter().all(|o| {
						*o == var || (var == Variant::Cuckarooz && *o == Variant::Cuckaroom) || t.iter().fold(0u128, |a, n| a ^ parity_vec(*o, &keys, eb, *n)) != parity_target(*o, k)
					});
					if alone {
						probes.push((format!("parity_{}_{}", var.name(), r), t));
						break;
					}
				}
			}
		}
	}
	let refs: Vec<(Variant, Vec<String>)> = sip::ALL
		.iter()
		.map(|var| {
			let ctx = run::real_ctx(*var, eb as u8, k, &header, Some(hnonce));
			(*var, probes.iter().map(|(_, t)| outcome(ctx.as_ref(), eb as u8, t)).collect())
		})
		.collect();
	let mut distinct = true;
	for i in 0..refs.len() {
		for j in i + 1..refs.len() {
			if refs[i].1 == refs[j].1 {
				distinct = false;
			}
		}
	}
	Battery { header, hnonce, probes, refs, distinct }
}

pub fn boundary(args: &Args) -> i32 {
	let seed0 = args.u64("seed", 1);
	let ebs: Vec<u32> = args.get("ebs").unwrap_or("19,28,29,30,31").split(',').map(|s| s.parse().unwrap()).collect();
	let mut out = NdWriter::create(args.req("out"));
	let mut skipped: Vec<String> = vec![];
	let mut info = vec![];
	// my key derivation reproduces the published keys of "empty header, nonce n"
	let header0 = vec![0u8; 80];
	for (var, eb, n, keys, _) in published() {
		if let Some(k) = keys {
			if sip::keys_from_header(&header0, Some(n)) != k {
				skipped.push(format!("{}{} (nonce {})", var.name(), eb, n));
			}
		}
	}
	for (chain, cname) in [(ChainTypes::Mainnet, "mainnet"), (ChainTypes::Testnet, "testnet"), (ChainTypes::UserTesting, "usertesting")] {
		let ebs = ebs.clone();
		let h = std::thread::spawn(move || {
			global::set_local_chain_type(chain);
			let k = global::proofsize();
			let heights = heights_by_version(chain);
			let mut evs: Vec<Value> = vec![];
			let mut amb = 0;
			// published vectors: variant-specific verdicts
			if chain != ChainTypes::UserTesting {
				for (var, eb, hn, _, sol) in published_by_header() {
					let keys = sip::keys_from_header(&vec![0u8; 80], Some(hn));
					let mut ends_by = serde_json::Map::new();
					for v2 in sip::ALL.iter() {
						ends_by.insert(
							v2.name().to_string(),
							json!(sol
								.iter()
								.map(|n| {
									let (u, v) = sip::endpoints(*v2, &keys, eb, *n);
									json!([n, u, v])
								})
								.collect::<Vec<_>>()),
						);
					}
					for (ver, height) in heights.iter() {
						let verdict = match catch_unwind(AssertUnwindSafe(|| match global::create_pow_context::<u64>(*height, eb as u8, k, 10) {
							Err(_) => "noctx",
							Ok(mut ctx) => {
								ctx.set_header_nonce(vec![0u8; 80], Some(hn), false).unwrap();
								run::verify_once(ctx.as_ref(), eb as u8, &sol).name()
							}
						})) {
							Ok(v) => v,
							Err(_) => "panic",
						};
						evs.push(json!({"k": "Select", "src": "boundary", "chain": cname, "version": ver, "height": height, "eb": eb, "N": 1u64 << eb, "K": k,
							"cycle_of": var.name(), "seed": format!("published:{}", hn), "nonces": sol, "ends_by": ends_by, "verdict": verdict}));
					}
				}
			}
			// which verifier is built, observed differentially
			for eb in ebs.iter().cloned() {
				let b = battery(eb, k, seed0);
				if !b.distinct {
					amb += 1;
				}
				for (ver, height) in heights.iter() {
					let observed: String = match catch_unwind(AssertUnwindSafe(|| match global::create_pow_context::<u64>(*height, eb as u8, k, 10) {
						Err(_) => "none".to_string(),
						Ok(mut ctx) => {
							ctx.set_header_nonce(b.header.clone(), Some(b.hnonce), false).unwrap();
							let fp: Vec<String> = b.probes.iter().map(|(_, t)| outcome(ctx.as_ref(), eb as u8, t)).collect();
							if !b.distinct {
								"ambiguous".to_string()
							} else {
								b.refs.iter().find(|(_, f)| *f == fp).map(|(v, _)| v.name().to_string()).unwrap_or("unknown".to_string())
							}
						}
					})) {
						Ok(v) => v,
						Err(_) => "panic".to_string(),
					};
					evs.push(json!({"k": "SelectKind", "chain": cname, "version": ver, "height": height, "eb": eb, "K": k,
						"observed": observed, "probes": b.probes.len(), "probe_names": b.probes.iter().map(|(n, _)| n.clone()).collect::<Vec<_>>()}));
				}
			}
			(evs, amb)
		});
		let (evs, amb) = h.join().expect("boundary thread");
		info.push(json!({"chain": cname, "events": evs.len(), "ambiguous_batteries": amb}));
		for e in evs {
			out.put(&e);
		}
	}
	let n = out.n;
	out.finish();
	println!("{}", json!({"events": n, "vectors_through_header": published_by_header().len(), "vectors_not_reproducible_from_header": skipped, "chains": info}));
	0
}
