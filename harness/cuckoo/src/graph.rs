//! Graph-side helpers of the harness: each variant's notion of "these edges form one simple
//! cycle" written as a walk over typed nodes (used to pin the edge definitions against the
//! repository's known solutions, to pre-select seeds and to find cycles / near-miss shapes in
//! larger graphs). The verdict that decides the property is TLC's (spec/Cuckoo.tla), not this.
use crate::sip::Variant;
use std::collections::HashMap;

/// typed node: (partition, index). Mono-partite variants use partition 0 for both endpoints.
pub type Node = (u8, u64);

#[derive(Clone, Copy, Debug)]
pub struct Edge {
	pub nonce: u64,
	pub u: u64,
	pub v: u64,
}

/// (a, b): for directed variants the edge goes a -> b.
pub fn ports(var: Variant, e: &Edge) -> (Node, Node) {
	match var {
		Variant::Cuckatoo | Variant::Cuckaroo => ((0, e.u), (1, e.v)),
		Variant::Cuckarood => {
			if e.nonce & 1 == 0 {
				((0, e.u), (1, e.v))
			} else {
				((1, e.v), (0, e.u))
			}
		}
		Variant::Cuckaroom | Variant::Cuckarooz => ((0, e.u), (0, e.v)),
	}
}

pub fn directed(var: Variant) -> bool {
	matches!(var, Variant::Cuckarood | Variant::Cuckaroom)
}

/// the node an edge must enter through so that it continues a walk that left through `x`
pub fn partner(var: Variant, x: Node) -> Node {
	match var {
		Variant::Cuckatoo => (x.0, x.1 ^ 1),
		_ => x,
	}
}

/// identity of the meeting point (cuckatoo: the node pair {2m, 2m+1})
pub fn junction(var: Variant, x: Node) -> Node {
	match var {
		Variant::Cuckatoo => (x.0, x.1 >> 1),
		_ => x,
	}
}

pub struct Index {
	pub var: Variant,
	pub edges: Vec<Edge>,
	/// entry node -> [(edge index, orientation)]; orientation 0: enter at a leave at b
	pub by_entry: HashMap<Node, Vec<(usize, u8)>>,
}

impl Index {
	pub fn new(var: Variant, edges: Vec<Edge>) -> Index {
		let mut by_entry: HashMap<Node, Vec<(usize, u8)>> = HashMap::new();
		for (i, e) in edges.iter().enumerate() {
			let (a, b) = ports(var, e);
			by_entry.entry(a).or_default().push((i, 0));
			if !directed(var) {
				by_entry.entry(b).or_default().push((i, 1));
			}
		}
		Index { var, edges, by_entry }
	}
	fn exit(&self, i: usize, o: u8) -> Node {
		let (a, b) = ports(self.var, &self.edges[i]);
		if o == 0 {
			b
		} else {
			a
		}
	}
	fn entry(&self, i: usize, o: u8) -> Node {
		let (a, b) = ports(self.var, &self.edges[i]);
		if o == 0 {
			a
		} else {
			b
		}
	}

	/// All simple k-cycles (as ascending nonce vectors), each found once: the walk starts at the
	/// cycle's lowest-indexed edge in orientation a->b. `closed = false` returns simple open
	/// walks of k edges whose two outer nodes do not meet instead (for the "path" near miss).
	pub fn cycles(&self, k: usize, limit: usize, closed: bool) -> Vec<Vec<u64>> {
		let mut res = vec![];
		let mut path: Vec<(usize, u8)> = vec![];
		let mut juncs: Vec<Node> = vec![];
		for s in 0..self.edges.len() {
			if res.len() >= limit {
				break;
			}
			path.clear();
			juncs.clear();
			path.push((s, 0));
			self.dfs(s, k, limit, closed, &mut path, &mut juncs, &mut res);
		}
		res
	}

	fn dfs(&self, s: usize, k: usize, limit: usize, closed: bool, path: &mut Vec<(usize, u8)>, juncs: &mut Vec<Node>, res: &mut Vec<Vec<u64>>) {
		if res.len() >= limit {
			return;
		}
		let (li, lo) = *path.last().unwrap();
		let x = self.exit(li, lo);
		let want = partner(self.var, x);
		let j = junction(self.var, x);
		let start_j = junction(self.var, self.entry(s, 0));
		if path.len() == k {
			let closes = want == self.entry(s, 0) && !juncs.contains(&j);
			if closes == closed {
				if !closed && (juncs.contains(&j) || j == start_j) {
					return;
				}
				let mut ns: Vec<u64> = path.iter().map(|(i, _)| self.edges[*i].nonce).collect();
				ns.sort_unstable();
				res.push(ns);
			}
			return;
		}
		if juncs.contains(&j) || j == start_j {
			return;
		}
		if let Some(c) = self.by_entry.get(&want) {
			for &(i, o) in c {
				if i <= s || path.iter().any(|(p, _)| *p == i) {
					continue;
				}
				path.push((i, o));
				juncs.push(j);
				self.dfs(s, k, limit, closed, path, juncs, res);
				juncs.pop();
				path.pop();
			}
		}
	}
}

impl Index {
	/// Every simple cycle of 1..=lmax edges (a self-loop of a one-node-set graph is a 1-cycle), each
	/// found once, as the edge indices IN WALK ORDER starting at the cycle's lowest-indexed edge.
	/// At most `cap` cycles are returned.
	pub fn cycles_upto(&self, lmax: usize, cap: usize) -> Vec<Vec<usize>> {
		let mut res = vec![];
		let mut path: Vec<(usize, u8)> = vec![];
		let mut juncs: Vec<Node> = vec![];
		for s in 0..self.edges.len() {
			if res.len() >= cap {
				break;
			}
			path.clear();
			juncs.clear();
			path.push((s, 0));
			self.dfs_upto(s, lmax, cap, &mut path, &mut juncs, &mut res);
		}
		res
	}

	fn dfs_upto(&self, s: usize, lmax: usize, cap: usize, path: &mut Vec<(usize, u8)>, juncs: &mut Vec<Node>, res: &mut Vec<Vec<usize>>) {
		if res.len() >= cap {
			return;
		}
		let (li, lo) = *path.last().unwrap();
		let x = self.exit(li, lo);
		let want = partner(self.var, x);
		let j = junction(self.var, x);
		let start_j = junction(self.var, self.entry(s, 0));
		if juncs.contains(&j) {
			return;
		}
		if want == self.entry(s, 0) {
			res.push(path.iter().map(|(i, _)| *i).collect());
		}
		if j == start_j || path.len() == lmax {
			return;
		}
		if let Some(c) = self.by_entry.get(&want) {
			for &(i, o) in c {
				if i <= s || path.iter().any(|(p, _)| *p == i) {
					continue;
				}
				path.push((i, o));
				juncs.push(j);
				self.dfs_upto(s, lmax, cap, path, juncs, res);
				juncs.pop();
				path.pop();
			}
		}
	}

	/// junctions touched by a set of edges
	pub fn junctions_of(&self, es: &[usize]) -> Vec<Node> {
		let mut r = vec![];
		for i in es {
			let (a, b) = ports(self.var, &self.edges[*i]);
			r.push(junction(self.var, a));
			r.push(junction(self.var, b));
		}
		r
	}
}

/// Do exactly these edges form one simple cycle through all of them?
pub fn is_simple_cycle(var: Variant, edges: &[Edge]) -> bool {
	let mut e = edges.to_vec();
	e.sort_by_key(|x| x.nonce);
	for w in e.windows(2) {
		if w[0].nonce == w[1].nonce {
			return false;
		}
	}
	let k = e.len();
	let idx = Index::new(var, e);
	!idx.cycles(k, 1, true).is_empty()
}

/// SCHEDULING AID ONLY (never used as a verdict): in the directed bipartite variant, following
/// "the unique edge that points at my tail" from the lowest even edge may enter a directed cycle
/// that does not contain the starting edge. The real verifier was observed not to return on such
/// tuples, so the exhaustive pass runs them last, under a budget (see run::run_jobs).
pub fn walk_may_not_return(var: Variant, edges: &[Edge]) -> bool {
	if var != Variant::Cuckarood {
		return false;
	}
	let start = match edges.iter().position(|e| e.nonce & 1 == 0) {
		Some(i) => i,
		None => return false,
	};
	let mut cur = start;
	for _ in 0..=edges.len() {
		let (tail, _) = ports(var, &edges[cur]);
		let mut pred = None;
		for (i, f) in edges.iter().enumerate() {
			if i != cur && ports(var, f).1 == tail {
				if pred.is_some() {
					return false;
				}
				pred = Some(i);
			}
		}
		match pred {
			None => return false,
			Some(p) => {
				if p == start {
					return false;
				}
				cur = p;
			}
		}
	}
	true
}
