//! Independent re-implementation of the primitives the five graph definitions are built from:
//! siphash-2-4 keyed by four 64-bit words, the 64-nonce "siphash block" of the cuckaroo family,
//! key derivation from a header, and each variant's published edge -> endpoints definition.
//! Nothing here calls into `grin_core::pow` (its `siphash`/`common` modules are private anyway).
use blake2::blake2b::blake2b;

#[derive(Clone, Copy)]
pub struct Sip {
	v0: u64,
	v1: u64,
	v2: u64,
	v3: u64,
}

impl Sip {
	pub fn new(k: &[u64; 4]) -> Sip {
		Sip { v0: k[0], v1: k[1], v2: k[2], v3: k[3] }
	}
	#[inline]
	fn round(&mut self, rot_e: u32) {
		self.v0 = self.v0.wrapping_add(self.v1);
		self.v2 = self.v2.wrapping_add(self.v3);
		self.v1 = self.v1.rotate_left(13);
		self.v3 = self.v3.rotate_left(16);
		self.v1 ^= self.v0;
		self.v3 ^= self.v2;
		self.v0 = self.v0.rotate_left(32);
		self.v2 = self.v2.wrapping_add(self.v1);
		self.v0 = self.v0.wrapping_add(self.v3);
		self.v1 = self.v1.rotate_left(17);
		self.v3 = self.v3.rotate_left(rot_e);
		self.v1 ^= self.v2;
		self.v3 ^= self.v0;
		self.v2 = self.v2.rotate_left(32);
	}
	/// absorb one 64-bit word: 2 compression rounds, 4 finalisation rounds
	pub fn hash24(&mut self, nonce: u64, rot_e: u32) {
		self.v3 ^= nonce;
		self.round(rot_e);
		self.round(rot_e);
		self.v0 ^= nonce;
		self.v2 ^= 0xff;
		for _ in 0..4 {
			self.round(rot_e);
		}
	}
	pub fn xor_lanes(&self) -> u64 {
		self.v0 ^ self.v1 ^ self.v2 ^ self.v3
	}
}

pub fn siphash24(k: &[u64; 4], nonce: u64) -> u64 {
	let mut s = Sip::new(k);
	s.hash24(nonce, 21);
	s.xor_lanes()
}

pub const BLOCK: u64 = 64;

/// All 64 edge words of the block containing `nonce` (state carried across the block).
/// xor_all = false: word i is h[i] ^ h[63] (i < 63), h[63] for the last one (cuckaroo, cuckarood)
/// xor_all = true:  word i is h[i] ^ h[i+1] ^ ... ^ h[63]           (cuckaroom, cuckarooz)
pub fn sip_block(k: &[u64; 4], block_start: u64, rot_e: u32, xor_all: bool) -> [u64; 64] {
	let mut h = [0u64; 64];
	let mut s = Sip::new(k);
	for i in 0..64u64 {
		s.hash24(block_start + i, rot_e);
		h[i as usize] = s.xor_lanes();
	}
	let mut out = [0u64; 64];
	if xor_all {
		let mut acc = 0u64;
		for i in (0..64).rev() {
			acc ^= h[i];
			out[i] = acc;
		}
	} else {
		for i in 0..63 {
			out[i] = h[i] ^ h[63];
		}
		out[63] = h[63];
	}
	out
}

pub fn sip_block_at(k: &[u64; 4], nonce: u64, rot_e: u32, xor_all: bool) -> u64 {
	sip_block(k, nonce & !(BLOCK - 1), rot_e, xor_all)[(nonce & (BLOCK - 1)) as usize]
}

/// keys = the four little-endian words of blake2b-256(header with its last 4 bytes replaced by the LE nonce)
pub fn keys_from_header(header: &[u8], nonce: Option<u32>) -> [u64; 4] {
	let mut h = header.to_vec();
	if let Some(n) = nonce {
		let l = h.len();
		h.truncate(l - 4);
		h.extend_from_slice(&n.to_le_bytes());
	}
	let d = blake2b(32, &[], &h);
	let b = d.as_bytes();
	let mut k = [0u64; 4];
	for i in 0..4 {
		let mut w = [0u8; 8];
		w.copy_from_slice(&b[8 * i..8 * i + 8]);
		k[i] = u64::from_le_bytes(w);
	}
	k
}

#[derive(Clone, Copy, PartialEq, Eq, Hash, Debug)]
pub enum Variant {
	Cuckatoo,
	Cuckaroo,
	Cuckarood,
	Cuckaroom,
	Cuckarooz,
}

pub const ALL: [Variant; 5] = [
	Variant::Cuckatoo,
	Variant::Cuckaroo,
	Variant::Cuckarood,
	Variant::Cuckaroom,
	Variant::Cuckarooz,
];

impl Variant {
	pub fn name(&self) -> &'static str {
		match self {
			Variant::Cuckatoo => "cuckatoo",
			Variant::Cuckaroo => "cuckaroo",
			Variant::Cuckarood => "cuckarood",
			Variant::Cuckaroom => "cuckaroom",
			Variant::Cuckarooz => "cuckarooz",
		}
	}
	pub fn from_name(s: &str) -> Variant {
		for v in ALL.iter() {
			if v.name() == s {
				return *v;
			}
		}
		eprintln!("unknown variant {}", s);
		std::process::exit(2)
	}
	/// width of a node index, from each variant's definition
	pub fn node_bits(&self, edge_bits: u32) -> u32 {
		match self {
			Variant::Cuckatoo | Variant::Cuckaroo | Variant::Cuckaroom => edge_bits,
			Variant::Cuckarood => edge_bits - 1, // half the nodes in each partition
			Variant::Cuckarooz => edge_bits + 1, // one node space of 2N nodes
		}
	}
}

/// The whole edge table nonce -> (u, v) of the graph with `1 << edge_bits` edges.
pub fn edge_table(var: Variant, keys: &[u64; 4], edge_bits: u32) -> Vec<(u64, u64)> {
	let n = 1u64 << edge_bits;
	(0..n).map(|e| endpoints(var, keys, edge_bits, e)).collect()
}

pub fn endpoints(var: Variant, keys: &[u64; 4], edge_bits: u32, nonce: u64) -> (u64, u64) {
	let nm = (1u64 << var.node_bits(edge_bits)) - 1;
	match var {
		Variant::Cuckatoo => (siphash24(keys, 2 * nonce) & nm, siphash24(keys, 2 * nonce + 1) & nm),
		Variant::Cuckaroo => {
			let w = sip_block_at(keys, nonce, 21, false);
			(w & nm, (w >> 32) & nm)
		}
		Variant::Cuckarood => {
			let w = sip_block_at(keys, nonce, 25, false);
			(w & nm, (w >> 32) & nm)
		}
		Variant::Cuckaroom | Variant::Cuckarooz => {
			let w = sip_block_at(keys, nonce, 21, true);
			(w & nm, (w >> 32) & nm)
		}
	}
}

/// Faster whole-table computation (one block computation per 64 nonces); same definition.
pub fn edge_table_fast(var: Variant, keys: &[u64; 4], edge_bits: u32) -> Vec<(u64, u64)> {
	if var == Variant::Cuckatoo {
		return edge_table(var, keys, edge_bits);
	}
	let n = 1u64 << edge_bits;
	let nm = (1u64 << var.node_bits(edge_bits)) - 1;
	let (rot, xa) = match var {
		Variant::Cuckaroo => (21, false),
		Variant::Cuckarood => (25, false),
		_ => (21, true),
	};
	let mut out = Vec::with_capacity(n as usize);
	let mut b = 0u64;
	while b < n {
		let blk = sip_block(keys, b, rot, xa);
		for i in 0..64u64 {
			if b + i < n {
				let w = blk[i as usize];
				out.push((w & nm, (w >> 32) & nm));
			}
		}
		b += 64;
	}
	out
}
