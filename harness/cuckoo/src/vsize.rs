//! size: the node's entry point `pow::verify_size(&BlockHeader)`.
//! Input: the plans printed by TLC (spec/mc/MC_CuckooSize.tla): header class (chain type, header
//! version, edge-bits class), the nonce-count class, the shape of the nonce list and the graph
//! definition the shape lives in. Each plan is realised in real header-seeded graphs: headers of
//! the plan's chain type at the first and last height of the version's era, `pow.nonce` varied
//! until the header's own graph (under my edge definitions) holds the wanted cycles; the nonce
//! list goes into `header.pow.proof` and the header into `pow::verify_size`. The event carries my
//! endpoints of the nonces, the real verdict and the plan's expectation; TLC decides.
use crate::graph::{self, Edge, Index};
use crate::run::{hang_ms, Verdict};
use crate::sip::{self, Variant};
use grin_core::consensus;
use grin_core::core::hash::Hash;
use grin_core::core::BlockHeader;
use grin_core::global::{self, ChainTypes};
use grin_core::pow::{self, Difficulty, Proof};
use rand::rngs::StdRng;
use rand::{Rng, SeedableRng};
use serde_json::{json, Value};
use std::collections::{BTreeMap, BTreeSet, HashMap};
use std::panic::{catch_unwind, AssertUnwindSafe};
use std::sync::atomic::{AtomicU64, Ordering};
use std::sync::{Arc, Mutex};
use std::time::{Duration, Instant};
use vcommon::*;

fn chain_of(name: &str) -> ChainTypes {
	match name {
		"mainnet" => ChainTypes::Mainnet,
		"testnet" => ChainTypes::Testnet,
		"automated" => ChainTypes::AutomatedTesting,
		"usertesting" => ChainTypes::UserTesting,
		_ => {
			eprintln!("unknown chain {}", name);
			std::process::exit(2)
		}
	}
}

fn is_bipartite(v: Variant) -> bool {
	matches!(v, Variant::Cuckatoo | Variant::Cuckaroo | Variant::Cuckarood)
}

/// length of the nonce list for a class (spec: LenClass)
fn len_of(lc: &str, p: usize) -> usize {
	match lc {
		"zero" => 0,
		"one" => 1,
		"two" => 2,
		"four" => 4,
		"lt2" => p - 2,
		"lt1" => p - 1,
		"eq" => p,
		"gt1" => p + 1,
		"gt2" => p + 2,
		_ => {
			eprintln!("unknown length class {}", lc);
			std::process::exit(2)
		}
	}
}

/// the ring an open walk of l edges is cut from (spec: NextRing)
fn next_ring(v: Variant, l: usize) -> usize {
	if is_bipartite(v) {
		if l % 2 == 0 {
			l + 2
		} else {
			l + 1
		}
	} else {
		l + 1
	}
}

/// first and last height of the era of header version `ver` under the thread's chain type
fn era_heights(chain: ChainTypes, ver: u64) -> Option<(u64, u64)> {
	let hv = |h: u64| consensus::header_version(h).0 as u64;
	let main = chain == ChainTypes::Mainnet || chain == ChainTypes::Testnet;
	let first_ge = |v: u64| -> Option<u64> {
		if main {
			let (mut lo, mut hi) = (0u64, 4_000_000u64);
			if hv(hi) < v {
				return None;
			}
			while lo < hi {
				let mid = (lo + hi) / 2;
				if hv(mid) >= v {
					hi = mid
				} else {
					lo = mid + 1
				}
			}
			Some(lo)
		} else {
			(0..1000u64).find(|h| hv(*h) >= v)
		}
	};
	let first = first_ge(ver)?;
	if hv(first) != ver {
		return None;
	}
	let last = match first_ge(ver + 1) {
		Some(n) => n - 1,
		None => first + if main { 1_000_000 } else { 500 },
	};
	if hv(last) != ver {
		return None;
	}
	Some((first, last))
}

pub fn make_header(height: u64, eb: u8, salt: u64, pow_nonce: u64) -> BlockHeader {
	let mut h = BlockHeader::default();
	h.height = height;
	h.version = consensus::header_version(height);
	let mut b = [0u8; 32];
	b[..8].copy_from_slice(&salt.to_le_bytes());
	b[8..16].copy_from_slice(&height.to_le_bytes());
	h.prev_root = Hash::from_vec(&b);
	h.pow.total_difficulty = Difficulty::from_num(1000 + salt % 1000);
	h.pow.secondary_scaling = 1 + (salt % 1000) as u32;
	h.pow.nonce = pow_nonce;
	h.pow.proof = Proof { edge_bits: eb, nonces: vec![] };
	h
}

fn table_of(h: &BlockHeader, var: Variant, eb: u32) -> Vec<Edge> {
	let keys = sip::keys_from_header(&h.pre_pow(), None);
	sip::edge_table_fast(var, &keys, eb)
		.into_iter()
		.enumerate()
		.map(|(i, (u, v))| Edge { nonce: i as u64, u, v })
		.collect()
}

fn ends_json(h: &BlockHeader, var: Variant, eb: u32, nonces: &[u64]) -> Value {
	let keys = sip::keys_from_header(&h.pre_pow(), None);
	let n = 1u64 << eb;
	let mut ns: Vec<u64> = nonces.iter().cloned().filter(|x| *x < n).collect();
	ns.sort_unstable();
	ns.dedup();
	json!(ns
		.iter()
		.map(|x| {
			let (u, v) = sip::endpoints(var, &keys, eb, *x);
			json!([x, u, v])
		})
		.collect::<Vec<_>>())
}

fn mkrng(seed: u64, salt: u64) -> StdRng {
	let mut s = [0u8; 32];
	s[..8].copy_from_slice(&seed.to_le_bytes());
	s[8..16].copy_from_slice(&salt.to_le_bytes());
	SeedableRng::from_seed(s)
}

/// what one search over `pow.nonce` found in the graphs (definition `var`) of headers at one height
#[derive(Default)]
struct Found {
	/// cycle length -> (pow nonce, edge indices in walk order)
	cyc: HashMap<usize, (u64, Vec<usize>)>,
	/// two node-disjoint cycles whose lengths add up to the required size
	two: Option<(u64, Vec<usize>)>,
	tries: u64,
}

fn search(height: u64, eb: u8, salt: u64, var: Variant, want: &BTreeSet<usize>, want_two: Option<usize>, avoid_native: Option<Variant>, max_tries: u64) -> Found {
	let mut f = Found::default();
	let lmax = want.iter().cloned().max().unwrap_or(0).max(want_two.map(|p| p - 2).unwrap_or(0));
	if lmax == 0 {
		return f;
	}
	let mut pn = 0u64;
	while pn < max_tries {
		let missing = want.iter().any(|l| !f.cyc.contains_key(l)) || (want_two.is_some() && f.two.is_none());
		if !missing {
			break;
		}
		let h = make_header(height, eb, salt, pn);
		let idx = Index::new(var, table_of(&h, var, eb as u32));
		let cs = idx.cycles_upto(lmax, 4000);
		for c in cs.iter() {
			if want.contains(&c.len()) && !f.cyc.contains_key(&c.len()) {
				if let Some(nv) = avoid_native {
					// a cycle that is also one under the definition the header selects is no "foreign" cycle
					let es: Vec<Edge> = {
						let t = table_of(&h, nv, eb as u32);
						c.iter().map(|i| t[*i]).collect()
					};
					if graph::is_simple_cycle(nv, &es) {
						continue;
					}
				}
				f.cyc.insert(c.len(), (pn, c.clone()));
			}
		}
		if let (Some(p), None) = (want_two, f.two.as_ref()) {
			'outer: for a in 0..cs.len() {
				for b in a + 1..cs.len() {
					if cs[a].len() + cs[b].len() != p || cs[a].len() < 2 || cs[b].len() < 2 {
						continue;
					}
					if cs[a].iter().any(|x| cs[b].contains(x)) {
						continue;
					}
					let ja = idx.junctions_of(&cs[a]);
					if idx.junctions_of(&cs[b]).iter().any(|x| ja.contains(x)) {
						continue;
					}
					let mut t = cs[a].clone();
					t.extend_from_slice(&cs[b]);
					f.two = Some((pn, t));
					break 'outer;
				}
			}
		}
		pn += 1;
	}
	f.tries = pn;
	f
}

struct Watch {
	progress: AtomicU64,
	current: Mutex<Option<Value>>,
}

/// run verify_size on the header; the event (without verdict) is published while the call runs
fn call(w: &Watch, mut ev: Value, h: &BlockHeader) -> Value {
	*w.current.lock().unwrap() = Some(ev.clone());
	w.progress.fetch_add(1, Ordering::SeqCst);
	let v = match catch_unwind(AssertUnwindSafe(|| pow::verify_size(h).is_ok())) {
		Ok(true) => Verdict::Accept,
		Ok(false) => Verdict::Reject,
		Err(_) => Verdict::Panic,
	};
	*w.current.lock().unwrap() = None;
	w.progress.fetch_add(1, Ordering::SeqCst);
	ev["verdict"] = json!(v.name());
	ev
}

fn event_for(plan: &Value, cname: &str, height: u64, eb: u8, salt: u64, pn: u64, nonces: &[u64], p: usize) -> (Value, BlockHeader) {
	let mut h = make_header(height, eb, salt, pn);
	h.pow.proof = Proof { edge_bits: eb, nonces: nonces.to_vec() };
	let mut ends_by = serde_json::Map::new();
	for name in [plan["sv"].as_str().unwrap(), plan["gof"].as_str().unwrap()] {
		if name != "none" && !ends_by.contains_key(name) {
			ends_by.insert(name.to_string(), ends_json(&h, Variant::from_name(name), eb as u32, nonces));
		}
	}
	let ev = json!({"k": "VerifySize", "chain": cname, "version": consensus::header_version(height).0, "height": height,
		"eb": eb, "N": 1u64 << eb, "P": p, "lc": plan["lc"], "L": nonces.len(), "shape": plan["shape"], "gof": plan["gof"],
		"sv": plan["sv"], "expect": plan["expect"], "vacuous": plan["vacuous"], "salt": salt.to_string(), "pow_nonce": pn,
		"nonces": nonces, "ends_by": ends_by});
	(ev, h)
}

/// all plans of one chain type (runs on its own thread: the chain type is thread local)
fn run_chain(cname: String, plans: Vec<Value>, seed: u64, eb_small: u8, eb_big: u8, both: bool, max_tries: u64, w: Arc<Watch>, out: Arc<Mutex<(Vec<Value>, Vec<Value>, Value)>>) {
	let chain = chain_of(&cname);
	global::set_local_chain_type(chain);
	let p = global::proofsize();
	let mut rng = mkrng(seed, 0x512e + chain as u64);
	let mut searches = vec![];
	// group by (version, ebc)
	let mut groups: BTreeMap<(u64, String), Vec<Value>> = BTreeMap::new();
	for pl in plans {
		groups.entry((pl["version"].as_u64().unwrap(), pl["ebc"].as_str().unwrap().to_string())).or_default().push(pl);
	}
	for ((ver, ebc), pls) in groups {
		let (first, last) = match era_heights(chain, ver) {
			Some(x) => x,
			None => {
				for pl in pls {
					out.lock().unwrap().1.push(json!({"plan": pl, "reason": "no height of this header version"}));
				}
				continue;
			}
		};
		let heights = if both && last != first { vec![first, last] } else { vec![if seed % 2 == 0 { first } else { last }] };
		for height in heights {
			let salt: u64 = rng.gen::<u64>() >> 1;
			if ebc == "gt29" {
				// graphs of 2^30 edges: only nonce lists that need no search
				for pl in pls.iter() {
					if pl["shape"] != "garbage" {
						out.lock().unwrap().1.push(json!({"plan": pl, "reason": "no cycle search in a 2^30-edge graph"}));
						continue;
					}
					let l = len_of(pl["lc"].as_str().unwrap(), p);
					let mut t: Vec<u64> = vec![];
					while t.len() < l {
						let x = rng.gen_range(0, 1u64 << eb_big);
						if !t.contains(&x) {
							t.push(x);
						}
					}
					t.sort_unstable();
					let (ev, h) = event_for(pl, &cname, height, eb_big, salt, rng.gen::<u32>() as u64, &t, p);
					let ev = call(&w, ev, &h);
					out.lock().unwrap().0.push(ev);
				}
				continue;
			}
			let eb = eb_small;
			// what has to be found, per graph definition
			let mut by_gof: BTreeMap<String, Vec<&Value>> = BTreeMap::new();
			for pl in pls.iter() {
				by_gof.entry(pl["gof"].as_str().unwrap().to_string()).or_default().push(pl);
			}
			for (gof, gpls) in by_gof {
				let var = Variant::from_name(&gof);
				let mut want: BTreeSet<usize> = BTreeSet::new();
				let mut want_two = None;
				let mut foreign = None;
				for pl in gpls.iter() {
					let l = len_of(pl["lc"].as_str().unwrap(), p);
					match pl["shape"].as_str().unwrap() {
						"cycle" | "unsorted" => {
							want.insert(l);
						}
						"open" => {
							want.insert(next_ring(var, l));
						}
						"two_cycles" => want_two = Some(l),
						_ => {}
					}
					if pl["sv"] != pl["gof"] && pl["sv"] != "none" {
						foreign = Some(Variant::from_name(pl["sv"].as_str().unwrap()));
					}
				}
				let f = search(height, eb, salt, var, &want, want_two, foreign, max_tries);
				searches.push(json!({"height": height, "version": ver, "graph": gof, "headers_tried": f.tries, "lengths_wanted": want.len(), "lengths_found": f.cyc.len(), "two_cycles": f.two.is_some()}));
				for pl in gpls.iter() {
					let l = len_of(pl["lc"].as_str().unwrap(), p);
					let shape = pl["shape"].as_str().unwrap();
					let sorted = |mut v: Vec<u64>| {
						v.sort_unstable();
						v
					};
					let real: Option<(u64, Vec<u64>)> = match shape {
						"cycle" => f.cyc.get(&l).map(|(pn, c)| (*pn, sorted(c.iter().map(|i| *i as u64).collect()))),
						"unsorted" => f.cyc.get(&l).map(|(pn, c)| {
							let mut t = sorted(c.iter().map(|i| *i as u64).collect());
							t.reverse();
							(*pn, t)
						}),
						"open" => f.cyc.get(&next_ring(var, l)).map(|(pn, c)| (*pn, sorted(c[..l].iter().map(|i| *i as u64).collect()))),
						"two_cycles" => f.two.as_ref().map(|(pn, c)| (*pn, sorted(c.iter().map(|i| *i as u64).collect()))),
						_ => {
							// random ascending nonces that are not a cycle of the header's graph
							let pn = rng.gen::<u32>() as u64;
							let h = make_header(height, eb, salt, pn);
							let tab = table_of(&h, var, eb as u32);
							let mut got = None;
							for _ in 0..50 {
								let mut t: Vec<u64> = vec![];
								while t.len() < l {
									let x = rng.gen_range(0, 1u64 << eb);
									if !t.contains(&x) {
										t.push(x);
									}
								}
								t.sort_unstable();
								let es: Vec<Edge> = t.iter().map(|n| tab[*n as usize]).collect();
								let loop1 = l == 1 && !is_bipartite(var) && es[0].u == es[0].v;
								if l == 0 || (!loop1 && (l == 1 || !graph::is_simple_cycle(var, &es))) {
									got = Some((pn, t));
									break;
								}
							}
							got
						}
					};
					match real {
						None => out.lock().unwrap().1.push(json!({"plan": pl, "height": height, "reason": "shape not found in the headers tried"})),
						Some((pn, nonces)) => {
							let (ev, h) = event_for(pl, &cname, height, eb, salt, pn, &nonces, p);
							let ev = call(&w, ev, &h);
							out.lock().unwrap().0.push(ev);
						}
					}
				}
			}
		}
	}
	out.lock().unwrap().2 = json!({"chain": cname, "proofsize": p, "searches": searches});
}

pub fn size(args: &Args) -> i32 {
	let seed = args.u64("seed", 1);
	let eb_small = args.u64("eb", 10) as u8;
	let eb_big = args.u64("eb-big", 30) as u8;
	let both = args.u64("heights", 2) >= 2;
	let max_tries = args.u64("max-tries", 20000);
	let mut out = NdWriter::create(args.req("out"));
	let limit = Duration::from_millis(hang_ms());
	let mut infos = vec![];
	let mut skipped_all = vec![];
	let mut n_hang = 0;

	if let Some(evp) = args.get("events") {
		// replay: re-execute recorded events (header rebuilt from its recorded coordinates)
		for e in read_ndjson(evp) {
			let cname = e["chain"].as_str().unwrap().to_string();
			let h = std::thread::spawn(move || {
				global::set_local_chain_type(chain_of(&cname));
				let nonces: Vec<u64> = e["nonces"].as_array().unwrap().iter().map(|x| x.as_u64().unwrap()).collect();
				let (ev, hd) = event_for(&e, &cname, e["height"].as_u64().unwrap(), e["eb"].as_u64().unwrap() as u8,
					e["salt"].as_str().unwrap().parse().unwrap(), e["pow_nonce"].as_u64().unwrap(), &nonces, global::proofsize());
				let w = Watch { progress: AtomicU64::new(0), current: Mutex::new(None) };
				call(&w, ev, &hd)
			});
			// a call that does not return is a hang
			let t0 = Instant::now();
			while !h.is_finished() && t0.elapsed() < Duration::from_millis(hang_ms().max(10_000)) {
				std::thread::sleep(Duration::from_millis(5));
			}
			if h.is_finished() {
				out.put(&h.join().expect("replay thread"));
			} else {
				n_hang += 1;
			}
		}
		let n = out.n;
		out.finish();
		println!("{}", json!({"events": n, "hangs": n_hang}));
		return 0;
	}

	let plans = read_ndjson(args.req("plans"));
	let mut by_chain: BTreeMap<String, Vec<Value>> = BTreeMap::new();
	for p in plans {
		by_chain.entry(p["chain"].as_str().unwrap().to_string()).or_default().push(p);
	}
	// one worker per chain type, all running; each is watched for a call that does not return
	let mut workers = vec![];
	for (cname, pls) in by_chain {
		let w = Arc::new(Watch { progress: AtomicU64::new(0), current: Mutex::new(None) });
		let res: Arc<Mutex<(Vec<Value>, Vec<Value>, Value)>> = Arc::new(Mutex::new((vec![], vec![], json!(null))));
		let (w2, r2, c2) = (w.clone(), res.clone(), cname.clone());
		let handle = std::thread::spawn(move || run_chain(c2, pls, seed, eb_small, eb_big, both, max_tries, w2, r2));
		workers.push((cname, w, res, handle, 0u64, Instant::now(), false));
	}
	loop {
		let mut alive = false;
		for wk in workers.iter_mut() {
			if wk.6 || wk.3.is_finished() {
				continue;
			}
			alive = true;
			let c = wk.1.progress.load(Ordering::SeqCst);
			if c != wk.4 {
				wk.4 = c;
				wk.5 = Instant::now();
			} else if wk.5.elapsed() > limit {
				let cur = wk.1.current.lock().unwrap().clone();
				if let Some(mut ev) = cur {
					// verify_size did not return: record it, abandon this chain type's worker
					ev["verdict"] = json!("hang");
					wk.2.lock().unwrap().0.push(ev);
					wk.6 = true;
					n_hang += 1;
				} else {
					wk.5 = Instant::now(); // searching, not verifying
				}
			}
		}
		if !alive {
			break;
		}
		std::thread::sleep(Duration::from_millis(5));
	}
	for wk in workers.into_iter() {
		if !wk.6 {
			if wk.3.join().is_err() {
				eprintln!("size: worker of chain {} died", wk.0);
				return 2;
			}
		}
		let mut g = wk.2.lock().unwrap();
		for e in g.0.drain(..) {
			out.put(&e);
		}
		skipped_all.extend(g.1.drain(..));
		infos.push(g.2.clone());
	}
	let n = out.n;
	out.finish();
	let mut reasons: BTreeMap<String, u64> = BTreeMap::new();
	for s in skipped_all.iter() {
		*reasons.entry(s["reason"].as_str().unwrap().to_string()).or_default() += 1;
	}
	println!("{}", json!({"events": n, "hangs": n_hang, "skipped": skipped_all.len(), "skipped_by_reason": reasons,
		"skipped_samples": skipped_all.iter().filter(|s| s["reason"] == "shape not found in the headers tried").take(10).collect::<Vec<_>>(),
		"chains": infos}));
	0
}
