//! Secondary clause of C05: Proof bit-packing round trip, padding refusal, difficulty determinism.
//! The layout oracle is my own packer written from the documented layout (nonce i occupies bits
//! i*w .. (i+1)*w-1 of a little-endian bit string, zero padded to a whole byte); small-valued
//! cases are additionally emitted as "Pack" events which TLC checks against CuckooTrace.tla.
use blake2::blake2b::blake2b;
use grin_core::consensus::{graph_weight, SECOND_POW_EDGE_BITS};
use grin_core::global::{self, ChainTypes};
use grin_core::pow::{Difficulty, Proof, ProofOfWork};
use grin_core::ser::{self, DeserializationMode, ProtocolVersion};
use rand::rngs::StdRng;
use rand::{Rng, SeedableRng};
use serde_json::{json, Value};
use std::panic::{catch_unwind, AssertUnwindSafe};
use vcommon::*;

fn own_pack(nonces: &[u64], w: usize) -> Vec<u8> {
	let nbits = nonces.len() * w;
	let mut out = vec![0u8; (nbits + 7) / 8];
	for (i, n) in nonces.iter().enumerate() {
		for b in 0..w {
			if (n >> b) & 1 == 1 {
				let pos = i * w + b;
				out[pos / 8] |= 1 << (pos % 8);
			}
		}
	}
	out
}

fn read_proof(bytes: &[u8]) -> Result<Result<Proof, ()>, ()> {
	let b = bytes.to_vec();
	catch_unwind(AssertUnwindSafe(move || {
		ser::deserialize::<Proof, _>(&mut &b[..], ProtocolVersion::local(), DeserializationMode::default()).map_err(|_| ())
	}))
	.map_err(|_| ())
}

fn own_difficulty(p: &Proof, height: u64, secondary_scaling: u32) -> u64 {
	let packed = own_pack(&p.nonces, p.edge_bits as usize);
	let h = blake2b(32, &[], &packed);
	let mut w = [0u8; 8];
	w.copy_from_slice(&h.as_bytes()[..8]);
	let h64 = u64::from_be_bytes(w).max(1) as u128;
	let scale = if p.edge_bits == SECOND_POW_EDGE_BITS { secondary_scaling as u64 } else { own_weight(global::base_edge_bits(), height, p.edge_bits) };
	let d = ((scale as u128) << 64) / h64;
	(d.min(u64::MAX as u128) as u64).max(1)
}

/// GraphWeight of spec/Cuckoo.tla, written from the consensus rule (not from consensus::graph_weight):
/// a graph of 2^eb edges weighs 2^(eb - base + 1) * eb; 31-bit graphs are phased out linearly over the
/// 31 weeks that follow the first year (one bit of weight less at the start of every week, nothing left
/// from week 31 on).
pub fn own_weight(base: u8, height: u64, eb: u8) -> u64 {
	const WEEK: u64 = 7 * 24 * 60;
	const YEAR: u64 = 52 * WEEK;
	let bits: u64 = if eb == 31 && height >= YEAR {
		let weeks = (height - YEAR) / WEEK + 1;
		if weeks >= 31 {
			0
		} else {
			31 - weeks
		}
	} else {
		eb as u64
	};
	(1u64 << (eb - base + 1)) * bits
}

fn weight_phase(height: u64, eb: u8) -> &'static str {
	const WEEK: u64 = 7 * 24 * 60;
	const YEAR: u64 = 52 * WEEK;
	if eb != 31 {
		"plain"
	} else if height < YEAR {
		"c31_before_expiry"
	} else if height < YEAR + 30 * WEEK {
		"c31_phasing_out"
	} else {
		"c31_expired"
	}
}

/// heights around every step of the 31-bit phase-out, the usual ones, and very large ones
fn weight_heights(rng: &mut StdRng) -> Vec<u64> {
	const WEEK: u64 = 7 * 24 * 60;
	const YEAR: u64 = 52 * WEEK;
	let mut hs = vec![0u64, 1, 1000, 100_000, YEAR - 1, YEAR, YEAR + 1, (1u64 << 31) - 1, 1u64 << 40, u64::MAX - 1, u64::MAX];
	for w in 1..=32u64 {
		hs.push(YEAR + w * WEEK - 1);
		hs.push(YEAR + w * WEEK);
		hs.push(YEAR + (w - 1) * WEEK + rng.gen_range(1, WEEK - 1));
	}
	hs.push(rng.gen_range(0, YEAR));
	hs.push(rng.gen_range(YEAR + 32 * WEEK, 4 * YEAR));
	hs
}

/// consensus::graph_weight against GraphWeight: Rust comparison for every case, "Weight" events (the
/// values that fit TLC's integers) decided by the trace specification
fn weights(cname: &str, seed: u64, events: &mut Vec<Value>, mism: &mut Vec<Value>) -> u64 {
	let mut s = [0u8; 32];
	s[..8].copy_from_slice(&seed.to_le_bytes());
	s[9] = 0x77;
	let mut rng: StdRng = SeedableRng::from_seed(s);
	let base = global::base_edge_bits();
	let hs = weight_heights(&mut rng);
	let mut n = 0;
	for eb in base..=63u8 {
		for &height in hs.iter() {
			if eb != 31 && eb != 32 && eb != 30 && eb != base && (height % 7 != (eb as u64) % 7) {
				continue; // every height for the edge bits around the rule, a sample for the others
			}
			n += 1;
			let own = own_weight(base, height, eb);
			match catch_unwind(AssertUnwindSafe(|| graph_weight(height, eb))) {
				Err(_) => mism.push(json!({"what": format!("graph_weight:panic:eb={}:{}", eb, weight_phase(height, eb)), "chain": cname, "eb": eb, "height": height.to_string()})),
				Ok(real) => {
					if real != own {
						mism.push(json!({"what": format!("graph_weight:eb={}:{}", if eb == 31 { "31" } else { "other" }, weight_phase(height, eb)), "chain": cname, "eb": eb,
							"height": height.to_string(), "real": real.to_string(), "spec": own.to_string()}));
					}
					if real < (1u64 << 31) && height < (1u64 << 31) {
						events.push(json!({"k": "Weight", "chain": cname, "base": base, "eb": eb, "height": height, "weight": real}));
					}
				}
			}
		}
	}
	n
}

fn one_chain(chain: ChainTypes, seed: u64, reps: usize, events: &mut Vec<Value>, mism: &mut Vec<Value>) -> (u64, u64, u64, u64) {
	global::set_local_chain_type(chain);
	let k = global::proofsize();
	let cname = if chain == ChainTypes::Mainnet { "mainnet" } else { "automated" };
	let mut s = [0u8; 32];
	s[..8].copy_from_slice(&seed.to_le_bytes());
	s[8] = k as u8;
	let mut rng: StdRng = SeedableRng::from_seed(s);
	let (mut checks, mut pads, mut diffs) = (0u64, 0u64, 0u64);
	for w in 1..=63usize {
		for rep in 0..reps {
			// rep 0: small values (representable in TLC), later reps: full width
			let small = rep == 0;
			let lim: u64 = if small { 1u64 << w.min(30) } else { 1u64 << w };
			let mut nonces: Vec<u64> = (0..k).map(|_| rng.gen_range(0, lim)).collect();
			if rep == 1 {
				nonces = vec![lim - 1; k]; // all ones
			}
			nonces.sort_unstable();
			let p = Proof { edge_bits: w as u8, nonces: nonces.clone() };
			let own = own_pack(&nonces, w);
			let packed = match catch_unwind(AssertUnwindSafe(|| p.pack_nonces())) {
				Ok(b) => b,
				Err(_) => {
					mism.push(json!({"what":"pack_panic","chain":cname,"w":w,"nonces":nonces}));
					continue;
				}
			};
			checks += 1;
			if packed != own {
				mism.push(json!({"what":"pack_layout","chain":cname,"w":w,"nonces":nonces}));
			}
			let mut wire = vec![w as u8];
			wire.extend_from_slice(&own);
			let written = ser::ser_vec(&p, ProtocolVersion::local()).unwrap_or_default();
			if written != wire {
				mism.push(json!({"what":"write_bytes","chain":cname,"w":w,"nonces":nonces}));
			}
			// Proof::read documents that fewer than 8 packed bytes is refused; otherwise bit-exact
			let readable = own.len() >= 8;
			let rt = match read_proof(&wire) {
				Err(_) => {
					mism.push(json!({"what":"read_panic","chain":cname,"w":w,"nonces":nonces}));
					false
				}
				Ok(Ok(q)) => {
					if !readable || q.edge_bits != p.edge_bits || q.nonces != p.nonces {
						mism.push(json!({"what":"roundtrip_differs","chain":cname,"w":w,"nonces":nonces,"got":q.nonces}));
						false
					} else {
						true
					}
				}
				Ok(Err(_)) => {
					if readable {
						mism.push(json!({"what":"roundtrip_refused","chain":cname,"w":w,"nonces":nonces}));
					}
					false
				}
			};
			// every padding bit, alone and all together, must be refused
			let pad_bits = own.len() * 8 - k * w;
			let mut refused = 0;
			if readable {
				for b in 0..pad_bits {
					let pos = k * w + b;
					let mut bad = wire.clone();
					bad[1 + pos / 8] |= 1 << (pos % 8);
					pads += 1;
					match read_proof(&bad) {
						Ok(Err(_)) => refused += 1,
						Ok(Ok(_)) => mism.push(json!({"what":"padding_accepted","chain":cname,"w":w,"bit":b,"nonces":nonces})),
						Err(_) => mism.push(json!({"what":"padding_panic","chain":cname,"w":w,"bit":b})),
					}
				}
				// truncated and empty inputs are errors, never panics
				for cut in [0usize, 1, wire.len() / 2, wire.len() - 1] {
					if let Err(_) = read_proof(&wire[..cut]) {
						mism.push(json!({"what":"short_read_panic","chain":cname,"w":w,"cut":cut}));
					} else if let Ok(Ok(_)) = read_proof(&wire[..cut]) {
						mism.push(json!({"what":"short_read_accepted","chain":cname,"w":w,"cut":cut}));
					}
				}
			}
			// edge_bits 0 and > 63 are refused
			if w == 1 {
				for ebad in [0u8, 64, 255] {
					let mut bad = wire.clone();
					bad[0] = ebad;
					bad.resize(1 + 8 * 64, 0);
					if let Ok(Ok(_)) = read_proof(&bad) {
						mism.push(json!({"what":"bad_edge_bits_accepted","edge_bits":ebad}));
					}
				}
			}
			if small && readable {
				events.push(json!({"k":"Pack","chain":cname,"w":w,"nonces":nonces,"len":packed.len(),"bytes":packed,
					"roundtrip":rt,"pad_bits":pad_bits,"pad_refused":refused}));
			}
			// difficulty: a function of (packed nonces, edge_bits, height / scaling) only
			if w as u8 >= global::base_edge_bits() && readable {
				let mut dh: Vec<(u64, u32)> = vec![(0u64, 1u32), (1000, 7), (100_000, 1856)];
				if (29..=33).contains(&w) {
					// across the first year's end and the 31 weeks of the 31-bit phase-out (GraphWeight)
					const WEEK: u64 = 7 * 24 * 60;
					const YEAR: u64 = 52 * WEEK;
					dh.extend_from_slice(&[(YEAR - 1, 3), (YEAR, 3), (YEAR + WEEK - 1, 5), (YEAR + WEEK, 5), (YEAR + 29 * WEEK + 17, 9), (YEAR + 30 * WEEK - 1, 11), (YEAR + 30 * WEEK, 11), (YEAR + 31 * WEEK, 13), (u64::MAX - 1, 1)]);
					for _ in 0..3 {
						dh.push((YEAR + rng.gen_range(0, 31 * WEEK), rng.gen_range(1, 4000)));
					}
				}
				for (height, scaling) in dh {
					let mk = |pr: Proof| ProofOfWork { total_difficulty: Difficulty::from_num(rng_free(height)), secondary_scaling: scaling, nonce: height ^ 0x55, proof: pr };
					let a = mk(p.clone());
					let mut b = mk(p.clone());
					b.nonce = 12345; // fields outside the packed nonces / scaling do not matter
					b.total_difficulty = Difficulty::from_num(99);
					let reread = match read_proof(&wire) {
						Ok(Ok(q)) => q,
						_ => p.clone(),
					};
					let c = mk(reread);
					let r = catch_unwind(AssertUnwindSafe(|| (a.to_difficulty(height).to_num(), a.to_difficulty(height).to_num(), b.to_difficulty(height).to_num(), c.to_difficulty(height).to_num())));
					diffs += 1;
					match r {
						Err(_) => mism.push(json!({"what":"difficulty_panic","chain":cname,"w":w,"height":height})),
						Ok((d1, d2, d3, d4)) => {
							let own_d = own_difficulty(&p, height, scaling);
							if !(d1 == d2 && d1 == d3 && d1 == d4) {
								mism.push(json!({"what":"difficulty_not_deterministic","chain":cname,"w":w,"height":height,"got":[d1,d2,d3,d4]}));
							} else if d1 != own_d {
								mism.push(json!({"what":"difficulty_formula","chain":cname,"w":w,"height":height,"real":d1.to_string(),"own":own_d.to_string()}));
							}
						}
					}
				}
			}
		}
	}
	let wn = weights(cname, seed, events, mism);
	(checks, pads, diffs, wn)
}

fn rng_free(h: u64) -> u64 {
	h + 1
}

pub fn ser(args: &Args) -> i32 {
	let seed = args.u64("seed", 1);
	let reps = args.u64("reps", 4) as usize;
	let mut out = NdWriter::create(args.req("out"));
	let mut totals = vec![];
	let mut all_m = vec![];
	for chain in [ChainTypes::AutomatedTesting, ChainTypes::Mainnet] {
		let h = std::thread::spawn(move || {
			let mut ev = vec![];
			let mut m = vec![];
			let t = one_chain(chain, seed, reps, &mut ev, &mut m);
			(ev, m, t)
		});
		let (ev, m, t) = h.join().expect("ser thread");
		for e in ev {
			out.put(&e);
		}
		all_m.extend(m);
		totals.push(t);
	}
	let n = out.n;
	out.finish();
	println!("{}", json!({"events": n, "pack_checks": totals.iter().map(|t| t.0).sum::<u64>(), "padding_cases": totals.iter().map(|t| t.1).sum::<u64>(),
		"difficulty_cases": totals.iter().map(|t| t.2).sum::<u64>(), "weight_cases": totals.iter().map(|t| t.3).sum::<u64>(), "mismatches": all_m}));
	0
}
