//! Secondary clause of C05: Proof bit-packing round trip, padding refusal, difficulty determinism.
//! The layout oracle is my own packer written from the documented layout (nonce i occupies bits
//! i*w .. (i+1)*w-1 of a little-endian bit string, zero padded to a whole byte); small-valued
//! cases are additionally emitted as "Pack" events which TLC checks against CuckooTrace.tla.
use blake2::blake2b::blake2b;
use grin_core::consensus::{graph_weight, SECOND_POW_EDGE_BITS};
use grin_core::global::{self, ChainTypes};
use grin_core::pow::{Difficulty, Proof, ProofOfWork};
use grin_core::ser::{self, DeserializationMode, ProtocolVersion};
use rand::rngs::StdRng;
use rand::{Rng, SeedableRng};
use serde_json::{json, Value};
use std::panic::{catch_unwind, AssertUnwindSafe};
use vcommon::*;

fn own_pack(nonces: &[u64], w: usize) -> Vec<u8> {
	let nbits = nonces.len() * w;
	let mut out = vec![0u8; (nbits + 7) / 8];
	for (i, n) in nonces.iter().enumerate() {
		for b in 0..w {
			if (n >> b) & 1 == 1 {
				let pos = i * w + b;
				out[pos / 8] |= 1 << (pos % 8);
			}
		}
	}
	out
}

fn read_proof(bytes: &[u8]) -> Result<Result<Proof, ()>, ()> {
	let b = bytes.to_vec();
	catch_unwind(AssertUnwindSafe(move || {
		ser::deserialize::<Proof, _>(&mut &b[..], ProtocolVersion::local(), DeserializationMode::default()).map_err(|_| ())
	}))
	.map_err(|_| ())
}

fn own_difficulty(p: &Proof, height: u64, secondary_scaling: u32) -> u64 {
	let packed = own_pack(&p.nonces, p.edge_bits as usize);
	let h = blake2b(32, &[], &packed);
	let mut w = [0u8; 8];
	w.copy_from_slice(&h.as_bytes()[..8]);
	let h64 = u64::from_be_bytes(w).max(1) as u128;
	let scale = if p.edge_bits == SECOND_POW_EDGE_BITS { secondary_scaling as u64 } else { graph_weight(height, p.edge_bits) };
	let d = ((scale as u128) << 64) / h64;
	(d.min(u64::MAX as u128) as u64).max(1)
}

fn one_chain(chain: ChainTypes, seed: u64, reps: usize, events: &mut Vec<Value>, mism: &mut Vec<Value>) -> (u64, u64, u64) {
	global::set_local_chain_type(chain);
	let k = global::proofsize();
	let cname = if chain == ChainTypes::Mainnet { "mainnet" } else { "automated" };
	let mut s = [0u8; 32];
	s[..8].copy_from_slice(&seed.to_le_bytes());
	s[8] = k as u8;
	let mut rng: StdRng = SeedableRng::from_seed(s);
	let (mut checks, mut pads, mut diffs) = (0u64, 0u64, 0u64);
	for w in 1..=63usize {
		for rep in 0..reps {
			// rep 0: small values (representable in TLC), later reps: full width
			let small = rep == 0;
			let lim: u64 = if small { 1u64 << w.min(30) } else { 1u64 << w };
			let mut nonces: Vec<u64> = (0..k).map(|_| rng.gen_range(0, lim)).collect();
			if rep == 1 {
				nonces = vec![lim - 1; k]; // all ones
			}
			nonces.sort_unstable();
			let p = Proof { edge_bits: w as u8, nonces: nonces.clone() };
			let own = own_pack(&nonces, w);
			let packed = match catch_unwind(AssertUnwindSafe(|| p.pack_nonces())) {
				Ok(b) => b,
				Err(_) => {
					mism.push(json!({"what":"pack_panic","chain":cname,"w":w,"nonces":nonces}));
					continue;
				}
			};
			checks += 1;
			if packed != own {
				mism.push(json!({"what":"pack_layout","chain":cname,"w":w,"nonces":nonces}));
			}
			let mut wire = vec![w as u8];
			wire.extend_from_slice(&own);
			let written = ser::ser_vec(&p, ProtocolVersion::local()).unwrap_or_default();
			if written != wire {
				mism.push(json!({"what":"write_bytes","chain":cname,"w":w,"nonces":nonces}));
			}
			// Proof::read documents that fewer than 8 packed bytes is refused; otherwise bit-exact
			let readable = own.len() >= 8;
			let rt = match read_proof(&wire) {
				Err(_) => {
					mism.push(json!({"what":"read_panic","chain":cname,"w":w,"nonces":nonces}));
					false
				}
				Ok(Ok(q)) => {
					if !readable || q.edge_bits != p.edge_bits || q.nonces != p.nonces {
						mism.push(json!({"what":"roundtrip_differs","chain":cname,"w":w,"nonces":nonces,"got":q.nonces}));
						false
					} else {
						true
					}
				}
				Ok(Err(_)) => {
					if readable {
						mism.push(json!({"what":"roundtrip_refused","chain":cname,"w":w,"nonces":nonces}));
					}
					false
				}
			};
			// every padding bit, alone and all together, must be refused
			let pad_bits = own.len() * 8 - k * w;
			let mut refused = 0;
			if readable {
				for b in 0..pad_bits {
					let pos = k * w + b;
					let mut bad = wire.clone();
					bad[1 + pos / 8] |= 1 << (pos % 8);
					pads += 1;
					match read_proof(&bad) {
						Ok(Err(_)) => refused += 1,
						Ok(Ok(_)) => mism.push(json!({"what":"padding_accepted","chain":cname,"w":w,"bit":b,"nonces":nonces})),
						Err(_) => mism.push(json!({"what":"padding_panic","chain":cname,"w":w,"bit":b})),
					}
				}
				// truncated and empty inputs are errors, never panics
				for cut in [0usize, 1, wire.len() / 2, wire.len() - 1] {
					if let Err(_) = read_proof(&wire[..cut]) {
						mism.push(json!({"what":"short_read_panic","chain":cname,"w":w,"cut":cut}));
					} else if let Ok(Ok(_)) = read_proof(&wire[..cut]) {
						mism.push(json!({"what":"short_read_accepted","chain":cname,"w":w,"cut":cut}));
					}
				}
			}
			// edge_bits 0 and > 63 are refused
			if w == 1 {
				for ebad in [0u8, 64, 255] {
					let mut bad = wire.clone();
					bad[0] = ebad;
					bad.resize(1 + 8 * 64, 0);
					if let Ok(Ok(_)) = read_proof(&bad) {
						mism.push(json!({"what":"bad_edge_bits_accepted","edge_bits":ebad}));
					}
				}
			}
			if small && readable {
				events.push(json!({"k":"Pack","chain":cname,"w":w,"nonces":nonces,"len":packed.len(),"bytes":packed,
					"roundtrip":rt,"pad_bits":pad_bits,"pad_refused":refused}));
			}
			// difficulty: a function of (packed nonces, edge_bits, height / scaling) only
			if w as u8 >= global::base_edge_bits() && readable {
				for (height, scaling) in [(0u64, 1u32), (1000, 7), (100_000, 1856)] {
					let mk = |pr: Proof| ProofOfWork { total_difficulty: Difficulty::from_num(rng_free(height)), secondary_scaling: scaling, nonce: height ^ 0x55, proof: pr };
					let a = mk(p.clone());
					let mut b = mk(p.clone());
					b.nonce = 12345; // fields outside the packed nonces / scaling do not matter
					b.total_difficulty = Difficulty::from_num(99);
					let reread = match read_proof(&wire) {
						Ok(Ok(q)) => q,
						_ => p.clone(),
					};
					let c = mk(reread);
					let r = catch_unwind(AssertUnwindSafe(|| (a.to_difficulty(height).to_num(), a.to_difficulty(height).to_num(), b.to_difficulty(height).to_num(), c.to_difficulty(height).to_num())));
					diffs += 1;
					match r {
						Err(_) => mism.push(json!({"what":"difficulty_panic","chain":cname,"w":w,"height":height})),
						Ok((d1, d2, d3, d4)) => {
							let own_d = own_difficulty(&p, height, scaling);
							if !(d1 == d2 && d1 == d3 && d1 == d4) {
								mism.push(json!({"what":"difficulty_not_deterministic","chain":cname,"w":w,"height":height,"got":[d1,d2,d3,d4]}));
							} else if d1 != own_d {
								mism.push(json!({"what":"difficulty_formula","chain":cname,"w":w,"height":height,"real":d1.to_string(),"own":own_d.to_string()}));
							}
						}
					}
				}
			}
		}
	}
	(checks, pads, diffs)
}

fn rng_free(h: u64) -> u64 {
	h + 1
}

pub fn ser(args: &Args) -> i32 {
	let seed = args.u64("seed", 1);
	let reps = args.u64("reps", 4) as usize;
	let mut out = NdWriter::create(args.req("out"));
	let mut totals = vec![];
	let mut all_m = vec![];
	for chain in [ChainTypes::AutomatedTesting, ChainTypes::Mainnet] {
		let h = std::thread::spawn(move || {
			let mut ev = vec![];
			let mut m = vec![];
			let t = one_chain(chain, seed, reps, &mut ev, &mut m);
			(ev, m, t)
		});
		let (ev, m, t) = h.join().expect("ser thread");
		for e in ev {
			out.put(&e);
		}
		all_m.extend(m);
		totals.push(t);
	}
	let n = out.n;
	out.finish();
	println!("{}", json!({"events": n, "pack_checks": totals.iter().map(|t| t.0).sum::<u64>(), "padding_cases": totals.iter().map(|t| t.1).sum::<u64>(),
		"difficulty_cases": totals.iter().map(|t| t.2).sum::<u64>(), "mismatches": all_m}));
	0
}
