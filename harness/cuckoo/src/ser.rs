use vcommon::Args;
pub fn ser(_args: &Args) -> i32 {
	0
}
