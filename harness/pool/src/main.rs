//! Pool engine (C14, pool clause of C13): replays behaviours generated from spec/Pool.tla on a real
//! grin_pool::TransactionPool wired to a real grin_chain::Chain, and after every action compares
//! the result class of add_to_pool and the ids in txpool / stempool with the model, and checks on
//! the real side (independently of the model) that the aggregate of the txpool validates against
//! the real head, that stempool-on-txpool does, and that a block built from
//! prepare_mineable_transactions() is accepted by process_block on a twin chain.
//! The pieces are wired like servers/src/grin/server.rs does it: the chain's adapter is the REAL
//! grin_servers ChainToPoolAndNetAdapter (with a Peers object that has no connections), the pool's view
//! of the chain is the real PoolToChainAdapter; blocks are delivered with Options NONE / MINE / SYNC.
#[macro_use]
extern crate serde_derive;
#[macro_use]
extern crate log;

// the aliases grin_servers' lib.rs provides for its modules: servers/src/mining/mine_block.rs is compiled from its
// source text as a module of THIS crate (see build.rs) and resolves `crate::api`, `crate::chain`, `crate::core`,
// `crate::keychain`, `crate::common::types::Error` and `crate::ServerTxPool` here
use grin_api as api;
use grin_chain as chain;
use grin_core as core;
use grin_keychain as keychain;
mod common {
	pub mod types {
		pub use grin_servers::common::types::Error;
	}
}
/// grin_servers::ServerTxPool with the recording network adapter in the place of PoolToNetAdapter
pub type ServerTxPool = Arc<RwLock<RealPool>>;
#[allow(dead_code, unused_imports)]
mod mine_block {
	include!(concat!(env!("OUT_DIR"), "/mine_block.rs"));
}

use chrono::Duration;
use grin_chain::types::{BlockStatus, ChainAdapter as ChainEvents};
use grin_chain::{Chain, Options};
use grin_core::core::hash::{Hash, Hashed};
use grin_core::core::{
	transaction, Block, BlockHeader, BlockSums, CommitWrapper, FeeFields, Input, Inputs, KernelFeatures,
	NRDRelativeHeight, Output, OutputFeatures, OutputIdentifier, Transaction, TxKernel,
};
use grin_core::global::{self, ChainTypes};
use grin_core::libtx::{build, reward, ProofBuilder};
use grin_core::pow::{self, Difficulty};
use grin_core::genesis;
use grin_keychain::{ExtKeychain, ExtKeychainPath, Identifier, Keychain, SwitchCommitmentType};
use grin_servers::common::adapters::{ChainToPoolAndNetAdapter, PoolToChainAdapter};
use grin_servers::common::hooks::ChainEvents as ServerChainEvents;
use grin_util::RwLock;
use grin_pool::{BlockChain, PoolAdapter, PoolConfig, PoolEntry, PoolError, TransactionPool, TxSource};
use grin_util::secp::pedersen::Commitment;
use serde_json::{json, Value};
use std::collections::{BTreeMap, BTreeSet, HashMap, HashSet};
use std::panic::{catch_unwind, AssertUnwindSafe};
use std::sync::{Arc, Mutex, OnceLock};
use vcommon::*;

const REWARD: u64 = 60_000_000_000;

fn keychain() -> ExtKeychain {
	ExtKeychain::from_seed(&[7u8; 32], false).unwrap()
}
fn kid_coinbase(h: u64) -> Identifier {
	ExtKeychainPath::new(3, 1, h as u32, 0, 0).to_identifier()
}
fn kid_pool(c: u64) -> Identifier {
	ExtKeychainPath::new(3, 2, c as u32, 0, 0).to_identifier()
}
fn kid_block(n: u64) -> Identifier {
	ExtKeychainPath::new(3, 3, n as u32, 0, 0).to_identifier()
}
fn kid_cand(h: u64) -> Identifier {
	ExtKeychainPath::new(3, 4, h as u32, 0, 0).to_identifier()
}

type RewardCache = Mutex<HashMap<(u8, u64, u64), (Output, TxKernel)>>;
static REWARDS: OnceLock<RewardCache> = OnceLock::new();
static TXS: OnceLock<Mutex<HashMap<String, Transaction>>> = OnceLock::new();
static GENESIS: OnceLock<Block> = OnceLock::new();
static TEMPLATES: OnceLock<Mutex<HashMap<u64, String>>> = OnceLock::new();

/// kind 0 = trunk coinbase (key by height), 1 = later block (key by counter), 2 = mining candidate
fn reward_for(kind: u8, n: u64, fees: u64) -> (Output, TxKernel) {
	let cache = REWARDS.get_or_init(|| Mutex::new(HashMap::new()));
	if let Some(r) = cache.lock().unwrap().get(&(kind, n, fees)) {
		return r.clone();
	}
	let kc = keychain();
	let kid = match kind {
		0 => kid_coinbase(n),
		1 => kid_block(n),
		_ => kid_cand(n),
	};
	let r = reward::output(&kc, &ProofBuilder::new(&kc), &kid, fees, false).unwrap();
	cache.lock().unwrap().insert((kind, n, fees), r.clone());
	r
}

fn the_genesis() -> Block {
	GENESIS
		.get_or_init(|| {
			let r = reward_for(0, 0, 0);
			let mut g = genesis::genesis_dev().with_reward(r.0, r.1);
			// header MMR sizes consistent with the body (like the mainnet/testnet genesis)
			g.header.output_mmr_size = 1;
			g.header.kernel_mmr_size = 1;
			g
		})
		.clone()
}

/// Records the status the chain reports for every accepted block (what ChainToPoolAndNetAdapter sees).
struct StatusRec {
	log: Mutex<Vec<(Hash, String)>>,
}
impl ChainEvents for StatusRec {
	fn block_accepted(&self, b: &Block, status: BlockStatus, _opts: Options) {
		let s = if status.is_next() {
			"next"
		} else if status.is_reorg() {
			"reorg"
		} else {
			"fork"
		};
		self.log.lock().unwrap().push((b.hash(), s.to_string()));
	}
}

fn init_chain(dir: &str, rec: Arc<dyn ChainEvents + Send + Sync>) -> Chain {
	Chain::init(dir.to_string(), rec, the_genesis(), pow::verify_size, false, None).expect("chain init")
}

/// The hook handed to the real ChainToPoolAndNetAdapter: records the status of every accepted block.
struct StatusHook {
	rec: Arc<StatusRec>,
}
impl ServerChainEvents for StatusHook {
	fn on_block_accepted(&self, b: &Block, status: BlockStatus) {
		self.rec.block_accepted(b, status, Options::NONE);
	}
}

type RealPool = TransactionPool<PoolToChainAdapter, PoolRec>;

fn new_rec() -> Arc<StatusRec> {
	Arc::new(StatusRec {
		log: Mutex::new(vec![]),
	})
}

/// pool/tests/common.rs style adapter over a real Chain (kept for reference; the replay uses the
/// real PoolToChainAdapter of grin_servers)
#[allow(dead_code)]
#[derive(Clone)]
struct PoolChain {
	chain: Arc<Chain>,
}
impl BlockChain for PoolChain {
	fn chain_head(&self) -> Result<BlockHeader, PoolError> {
		self.chain
			.head_header()
			.map_err(|_| PoolError::Other("failed to get chain head".into()))
	}
	fn get_block_header(&self, hash: &Hash) -> Result<BlockHeader, PoolError> {
		self.chain
			.get_block_header(hash)
			.map_err(|_| PoolError::Other("failed to get block header".into()))
	}
	fn get_block_sums(&self, hash: &Hash) -> Result<BlockSums, PoolError> {
		self.chain
			.get_block_sums(hash)
			.map_err(|_| PoolError::Other("failed to get block sums".into()))
	}
	fn validate_tx(&self, tx: &Transaction) -> Result<(), PoolError> {
		self.chain.validate_tx(tx).map_err(|e| match e {
			grin_chain::Error::Transaction { source: txe } => txe.into(),
			grin_chain::Error::NRDRelativeHeight => PoolError::NRDKernelRelativeHeight,
			_ => PoolError::Other("failed to validate tx".into()),
		})
	}
	fn validate_inputs(&self, inputs: &Inputs) -> Result<Vec<OutputIdentifier>, PoolError> {
		self.chain
			.validate_inputs(inputs)
			.map(|outputs| outputs.into_iter().map(|(out, _)| out).collect::<Vec<_>>())
			.map_err(|_| PoolError::Other("failed to validate inputs".into()))
	}
	fn verify_coinbase_maturity(&self, inputs: &Inputs) -> Result<(), PoolError> {
		self.chain
			.verify_coinbase_maturity(inputs)
			.map_err(|_| PoolError::ImmatureCoinbase)
	}
	fn verify_tx_lock_height(&self, tx: &Transaction) -> Result<(), PoolError> {
		self.chain
			.verify_tx_lock_height(tx)
			.map_err(|_| PoolError::ImmatureTransaction)
	}
}

/// Recording PoolAdapter (the network side is a no-op): which callback fired for which tx.
struct PoolRec {
	events: Mutex<Vec<(String, Vec<Commitment>)>>,
	relay_ok: Mutex<bool>,
}
impl PoolAdapter for PoolRec {
	fn tx_accepted(&self, entry: &PoolEntry) {
		let ks = entry.tx.kernels().iter().map(|k| k.excess()).collect();
		self.events.lock().unwrap().push(("fluff".into(), ks));
	}
	fn stem_tx_accepted(&self, entry: &PoolEntry) -> Result<(), PoolError> {
		let ks = entry.tx.kernels().iter().map(|k| k.excess()).collect();
		if *self.relay_ok.lock().unwrap() {
			self.events.lock().unwrap().push(("stem".into(), ks));
			Ok(())
		} else {
			self.events.lock().unwrap().push(("stem_refused".into(), ks));
			Err(PoolError::DandelionError)
		}
	}
}

#[derive(Clone, Debug)]
struct Atom {
	id: u64,
	ins: Vec<u64>,
	outs: Vec<u64>,
	fee: u64,
	shift: u64,
	lock: u64,
	nrd: bool,
	/// Pool.tla Atoms[..].feat: "plain", "cbout" (output flagged COINBASE), "cbker" (COINBASE kernel)
	feat: String,
	/// Pool.tla Atoms[..].kord: 0, or the band of the kernel hash (1 sorts first ... 3 last inside an aggregate)
	kord: u64,
}

struct World {
	atoms: BTreeMap<u64, Atom>,
	values: HashMap<u64, u64>,
	txs: HashMap<u64, Transaction>,
	id_of_kernel: HashMap<Commitment, u64>,
	/// commitments of the coinbase outputs of the trunk (what an input spending them really refers to)
	coinbase_commits: HashSet<Commitment>,
}

fn arr_u64(v: &Value) -> Vec<u64> {
	v.as_array()
		.map(|a| a.iter().map(|y| y.as_u64().unwrap()).collect())
		.unwrap_or_default()
}

fn parse_atoms(beh: &Value) -> BTreeMap<u64, Atom> {
	let mut m = BTreeMap::new();
	let entries: Vec<(u64, &Value)> = match &beh["atoms"] {
		Value::Array(a) => a.iter().enumerate().map(|(i, v)| (i as u64 + 1, v)).collect(),
		Value::Object(o) => o.iter().map(|(k, v)| (k.parse().unwrap(), v)).collect(),
		_ => panic!("atoms"),
	};
	for (id, v) in entries {
		m.insert(
			id,
			Atom {
				id,
				ins: arr_u64(&v["ins"]),
				outs: arr_u64(&v["outs"]),
				fee: v["fee"].as_u64().unwrap(),
				shift: v["shift"].as_u64().unwrap_or(0),
				lock: v["lock"].as_u64().unwrap_or(0),
				nrd: v["nrd"].as_bool().unwrap_or(false),
				feat: v["feat"].as_str().unwrap_or("plain").to_string(),
				kord: v["kord"].as_u64().unwrap_or(0),
			},
		);
	}
	m
}

/// Values: coinbases (< 100) are worth the plain reward (trunk blocks are empty); an atom's
/// outputs share (inputs - fee), the last one taking the remainder. A commit created by two atoms
/// must get the same value from both (checked).
fn build_world(beh: &Value) -> World {
	let atoms = parse_atoms(beh);
	let mut values: HashMap<u64, u64> = HashMap::new();
	for a in atoms.values() {
		let mut tin = 0u64;
		for c in &a.ins {
			let v = if *c < 100 {
				REWARD
			} else {
				*values.get(c).unwrap_or_else(|| panic!("atom {} spends commit {} with unknown value (universe must be topologically ordered)", a.id, c))
			};
			tin += v;
		}
		let avail = tin - a.fee;
		let n = a.outs.len() as u64;
		for (i, c) in a.outs.iter().enumerate() {
			let v = if (i as u64) + 1 < n {
				avail / n
			} else {
				avail - (avail / n) * (n - 1)
			};
			if let Some(old) = values.get(c) {
				assert_eq!(*old, v, "commit {} has two creators with different values", c);
			}
			values.insert(*c, v);
		}
	}
	let kc = keychain();
	let pb = ProofBuilder::new(&kc);
	let cache = TXS.get_or_init(|| Mutex::new(HashMap::new()));
	let mut txs = HashMap::new();
	let mut id_of_kernel = HashMap::new();
	for a in atoms.values() {
		let key = format!(
			"{:?}|{:?}",
			a,
			a.ins.iter().map(|c| if *c < 100 { REWARD } else { values[c] }).collect::<Vec<_>>()
		);
		let cached = cache.lock().unwrap().get(&key).cloned();
		let tx = match cached {
			Some(t) => t,
			None => {
				let mut elems = vec![];
				for c in &a.ins {
					if *c < 100 {
						elems.push(build::coinbase_input(REWARD, kid_coinbase(*c)));
					} else {
						elems.push(build::input(values[c], kid_pool(*c)));
					}
				}
				for c in &a.outs {
					elems.push(build::output(values[c], kid_pool(*c)));
				}
				let fee = if a.feat == "cbker" { FeeFields::zero() } else { FeeFields::new(a.shift, a.fee).unwrap() };
				let features = if a.feat == "cbker" {
					assert_eq!(a.fee, 0, "a coinbase kernel carries no fee");
					KernelFeatures::Coinbase
				} else if a.nrd {
					KernelFeatures::NoRecentDuplicate {
						fee,
						relative_height: NRDRelativeHeight::new(1).unwrap(),
					}
				} else if a.lock == 0 {
					KernelFeatures::Plain { fee }
				} else {
					KernelFeatures::HeightLocked {
						fee,
						lock_height: a.lock,
					}
				};
				// kord: the kernel excess is drawn at random by build::transaction, kernels sort by hash - rebuild until
				// the hash falls into the band the universe asks for (1: first quarter, 2: middle, 3: last quarter)
				let mut t;
				let mut tries = 0;
				loop {
					t = build::transaction(features, &elems, &kc, &pb).expect("build tx");
					let b0 = t.kernels()[0].hash().as_bytes()[0];
					let ok = match a.kord {
						0 => true,
						1 => b0 < 0x40,
						2 => b0 >= 0x40 && b0 < 0xc0,
						_ => b0 >= 0xc0,
					};
					tries += 1;
					if ok {
						break;
					}
					assert!(tries < 400, "no kernel hash in the band of kord {}", a.kord);
				}
				if a.feat == "cbout" {
					// the same transaction with the feature byte of its first output flipped to COINBASE; commitment, range
					// proof, kernel and offset untouched (the byte is covered by none of them)
					let mut outputs: Vec<Output> = t.outputs().to_vec();
					outputs[0] = Output::new(OutputFeatures::Coinbase, outputs[0].commitment(), outputs[0].proof());
					t = Transaction::new(t.inputs(), &outputs, t.kernels()).with_offset(t.offset.clone());
				}
				cache.lock().unwrap().insert(key, t.clone());
				t
			}
		};
		id_of_kernel.insert(tx.kernels()[0].excess(), a.id);
		txs.insert(a.id, tx);
	}
	let mut coinbase_commits = HashSet::new();
	for c in 0..100u64 {
		coinbase_commits.insert(kc.commit(REWARD, &kid_coinbase(c), SwitchCommitmentType::Regular).unwrap());
	}
	World {
		atoms,
		values,
		txs,
		id_of_kernel,
		coinbase_commits,
	}
}

impl World {
	fn tx_of(&self, parts: &[u64]) -> Transaction {
		if parts.len() == 1 {
			self.txs[&parts[0]].clone()
		} else {
			let v: Vec<Transaction> = parts.iter().map(|a| self.txs[a].clone()).collect();
			transaction::aggregate(&v).expect("aggregate of universe atoms")
		}
	}
	/// The same transaction with its inputs written in the "features and commit" form; `flip` declares
	/// the opposite of what every spent output really is (coinbase <-> plain). The declared features are
	/// covered by no signature: anybody can write them.
	fn with_declared_inputs(&self, tx: &Transaction, flip: bool) -> Transaction {
		let commits: Vec<CommitWrapper> = tx.inputs().into();
		let mut inputs: Vec<Input> = commits
			.iter()
			.map(|c| {
				let cb = self.coinbase_commits.contains(&c.commitment()) ^ flip;
				Input::new(if cb { OutputFeatures::Coinbase } else { OutputFeatures::Plain }, c.commitment())
			})
			.collect();
		inputs.sort_unstable(); // the wire form is sorted (features first): a well-formed transaction
		Transaction {
			body: tx.body.clone().replace_inputs(inputs.as_slice().into()),
			..tx.clone()
		}
	}
	/// declared input features of a resident entry that contradict the real outputs
	fn wrong_declared_features(&self, tx: &Transaction) -> usize {
		match tx.inputs() {
			Inputs::FeaturesAndCommit(v) => v
				.iter()
				.filter(|i| i.is_coinbase() != self.coinbase_commits.contains(&i.commitment()))
				.count(),
			Inputs::CommitOnly(_) => 0,
		}
	}
	fn ids_of(&self, tx: &Transaction) -> Vec<u64> {
		let mut v: Vec<u64> = tx
			.kernels()
			.iter()
			.map(|k| self.id_of_kernel.get(&k.excess()).cloned().unwrap_or(0))
			.collect();
		v.sort();
		v
	}
	fn ids_of_commits(&self, ks: &[Commitment]) -> Vec<u64> {
		let mut v: Vec<u64> = ks.iter().map(|k| self.id_of_kernel.get(k).cloned().unwrap_or(0)).collect();
		v.sort();
		v
	}
	/// inputs / outputs of the aggregate of a set of atoms (after cut-through), from the MODEL's universe
	fn ins_outs(&self, parts: &[u64]) -> (BTreeSet<u64>, BTreeSet<u64>) {
		let mut i = BTreeSet::new();
		let mut o = BTreeSet::new();
		for a in parts.iter().filter_map(|a| self.atoms.get(a)) {
			i.extend(a.ins.iter().cloned());
			o.extend(a.outs.iter().cloned());
		}
		(i.difference(&o).cloned().collect(), o.difference(&i).cloned().collect())
	}
	/// minimum-fee rule evaluated from the MODEL's fee fields (independent of Transaction::shifted_fee)
	fn underpaid(&self, tx: &Transaction, base: u64) -> bool {
		let ids = self.ids_of(tx);
		let fee: u64 = ids.iter().filter_map(|i| self.atoms.get(i)).map(|a| a.fee).sum();
		let shift = ids.iter().filter_map(|i| self.atoms.get(i)).map(|a| a.shift).max().unwrap_or(0);
		let w = tx.inputs().len() as u64 + 21 * tx.outputs().len() as u64 + 3 * tx.kernels().len() as u64;
		(fee >> shift) < w * base
	}
}

fn copy_dir(src: &str, dst: &str) {
	std::fs::create_dir_all(dst).unwrap();
	for e in std::fs::read_dir(src).unwrap() {
		let e = e.unwrap();
		let p = e.path();
		let d = format!("{}/{}", dst, e.file_name().to_string_lossy());
		if p.is_dir() {
			copy_dir(p.to_str().unwrap(), &d);
		} else {
			std::fs::copy(&p, &d).unwrap();
		}
	}
}

/// A chain directory holding genesis + `trunk` empty blocks (coinbases 1..=trunk), built once per process.
fn template(work: &str, trunk: u64) -> String {
	let t = TEMPLATES.get_or_init(|| Mutex::new(HashMap::new()));
	if let Some(d) = t.lock().unwrap().get(&trunk) {
		return d.clone();
	}
	let dir = format!("{}/template_{}", work, trunk);
	let _ = std::fs::remove_dir_all(&dir);
	std::fs::create_dir_all(&dir).unwrap();
	{
		let c = init_chain(&dir, new_rec());
		for h in 1..=trunk {
			let prev = c.head_header().unwrap();
			let rw = reward_for(0, h, 0);
			let mut b = Block::new(&prev, &[], Difficulty::from_num(100), rw).unwrap();
			b.header.timestamp = prev.timestamp + Duration::seconds(60);
			b.header.pow.nonce = next_nonce();
			c.set_txhashset_roots(&mut b).unwrap();
			c.process_block(b, Options::SKIP_POW).unwrap();
		}
	}
	t.lock().unwrap().insert(trunk, dir.clone());
	dir
}

fn ids_json(w: &World, txs: &[Transaction]) -> Vec<Vec<u64>> {
	txs.iter().map(|t| w.ids_of(t)).collect()
}

fn sets_of(v: &Value) -> Vec<Vec<u64>> {
	v.as_array()
		.map(|a| {
			a.iter()
				.map(|x| {
					let mut s = arr_u64(x);
					s.sort();
					s
				})
				.collect()
		})
		.unwrap_or_default()
}

struct Node {
	chain: Arc<Chain>,
	rec: Arc<StatusRec>,
	twin: Chain,
	pool: Arc<RwLock<RealPool>>,
	_peers: Arc<grin_p2p::Peers>,
	prec: Arc<PoolRec>,
	accepted_cands: HashSet<Hash>,
	last_mine_key: Option<(Hash, Hash, Vec<Vec<u64>>)>,
	nrd: bool,
	blocks_made: u64,
	pending: Option<(Vec<u64>, Block)>,
	mine_weight: u64,
	fee_base: u64,
}

/// Fresh nonce per block (mine_block.rs sets a random one); note that BlockHeader::hash() covers the proof only.
fn next_nonce() -> u64 {
	static N: std::sync::atomic::AtomicU64 = std::sync::atomic::AtomicU64::new(1);
	N.fetch_add(1, std::sync::atomic::Ordering::SeqCst)
}

/// Timestamp of a block delivered to the node. Normally a minute after its parent (all far in the past); in a
/// behaviour with `clock = head_ahead` the delivered blocks carry timestamps five minutes AHEAD of the local clock
/// (the chain accepts up to twelve), so that mine_block's "not before the head" timestamp rule decides.
fn block_ts(prev: &BlockHeader, ahead: bool) -> chrono::DateTime<chrono::Utc> {
	if ahead {
		let t = chrono::Utc::now() + Duration::seconds(300);
		let t = chrono::DateTime::<chrono::Utc>::from_timestamp(t.timestamp(), 0).unwrap();
		std::cmp::max(prev.timestamp + Duration::seconds(1), t)
	} else {
		prev.timestamp + Duration::seconds(60)
	}
}

fn body_weight(b: &Block) -> u64 {
	b.inputs().len() as u64 + 21 * b.outputs().len() as u64 + 3 * b.kernels().len() as u64
}

enum Tmpl {
	Ok(Block, mine_block::BlockFees),
	/// get_block did not come back and one direct attempt of build_block fails: the retry loop never ends
	NoReturn(String),
	Panic,
	/// build_block works but get_block did not come back in time (machine too busy): not a verdict
	Slow,
}

/// mine_block::get_block on a watchdog thread (it does not return until a block could be built).
fn get_template(n: &Node) -> Tmpl {
	let (tx, rx) = std::sync::mpsc::channel();
	let c = n.chain.clone();
	let p = n.pool.clone();
	let fee_base = n.fee_base;
	let nrd = n.nrd;
	std::thread::spawn(move || {
		global::set_local_chain_type(ChainTypes::AutomatedTesting);
		global::set_local_accept_fee_base(fee_base);
		global::set_local_nrd_enabled(nrd);
		let r = catch_unwind(AssertUnwindSafe(|| mine_block::get_block(&c, &p, None, None)));
		let _ = tx.send(r.ok());
	});
	match rx.recv_timeout(std::time::Duration::from_secs(6)) {
		Ok(Some((b, f))) => Tmpl::Ok(b, f),
		Ok(None) => Tmpl::Panic,
		Err(_) => match catch_unwind(AssertUnwindSafe(|| mine_block::verif_build_block(&n.chain, &n.pool))) {
			Err(_) => Tmpl::Panic,
			Ok(Err(e)) => Tmpl::NoReturn(format!("{:?}", e)),
			Ok(Ok(_)) => match rx.recv_timeout(std::time::Duration::from_secs(120)) {
				Ok(Some((b, f))) => Tmpl::Ok(b, f),
				Ok(None) => Tmpl::Panic,
				Err(_) => Tmpl::Slow,
			},
		},
	}
}

/// Everything that is checked on the real side independently of the model, after every action.
fn real_checks(w: &World, n: &mut Node, step: usize, after: &str, mism: &mut Vec<Value>) -> Value {
	let txs = n.pool.read().txpool.all_transactions();
	let stem = n.pool.read().stempool.all_transactions();
	let mut obs = json!({});
	// (1) the aggregate of the public pool applies on the real head
	let mut joint = "empty".to_string();
	if !txs.is_empty() {
		joint = match transaction::aggregate(&txs) {
			Err(e) => format!("aggregate:{:?}", e),
			Ok(agg) => match agg.validate(transaction::Weighting::NoLimit) {
				Err(e) => format!("validate:{:?}", e),
				Ok(()) => match n.chain.validate_tx(&agg) {
					Err(e) => format!("validate_tx:{:?}", e),
					Ok(()) => {
						// maturity / lock of the whole set against the next block height (C13 pool clause)
						let cb: Vec<OutputIdentifier> = match n.chain.validate_inputs(&agg.inputs()) {
							Ok(v) => v.into_iter().map(|(o, _)| o).filter(|o| o.is_coinbase()).collect(),
							Err(_) => vec![],
						};
						if n.chain.verify_coinbase_maturity(&cb.as_slice().into()).is_err() {
							"immature_coinbase".to_string()
						} else if n.chain.verify_tx_lock_height(&agg).is_err() {
							"height_locked".to_string()
						} else {
							"ok".to_string()
						}
					}
				},
			},
		};
		if joint != "ok" {
			mism.push(json!({"step": step, "what": "txpool_not_jointly_valid", "after": after, "observed": joint,
				"txpool": ids_json(w, &txs)}));
		}
	}
	obs["joint"] = json!(joint);
	// (2) stempool on top of the public pool
	let mut sj = "empty".to_string();
	if !stem.is_empty() {
		let mut all = txs.clone();
		all.extend(stem.clone());
		sj = match transaction::aggregate(&all) {
			Err(e) => format!("aggregate:{:?}", e),
			Ok(agg) => match agg.validate(transaction::Weighting::NoLimit) {
				Err(e) => format!("validate:{:?}", e),
				Ok(()) => match n.chain.validate_tx(&agg) {
					Err(e) => format!("validate_tx:{:?}", e),
					Ok(()) => "ok".to_string(),
				},
			},
		};
		if sj != "ok" && joint != "ok" && joint != "empty" {
			sj = format!("(txpool already invalid) {}", sj);
		} else if sj != "ok" {
			mism.push(json!({"step": step, "what": "stempool_not_jointly_valid", "after": after, "observed": sj,
				"txpool": ids_json(w, &txs), "stempool": ids_json(w, &stem)}));
		}
	}
	obs["stem_joint"] = json!(sj);
	// (3) no resident entry pays less than the minimum for its weight
	for t in txs.iter().chain(stem.iter()) {
		if w.wrong_declared_features(t) > 0 {
			mism.push(json!({"step": step, "what": "resident_input_features_wrong", "after": after, "tx": w.ids_of(t)}));
		}
		if w.underpaid(t, n.fee_base) {
			mism.push(json!({"step": step, "what": "underpaid_resident", "after": after, "tx": w.ids_of(t)}));
		}
		let wt = t.inputs().len() as u64 + 21 * t.outputs().len() as u64 + 3 * t.kernels().len() as u64;
		if wt > global::max_tx_weight() {
			mism.push(json!({"step": step, "what": "overweight_resident", "after": after, "tx": w.ids_of(t), "weight": wt}));
		}
	}
	// (4) the set offered for mining assembles into a block the chain accepts (twin chain). The block is the template
	// the REAL miner entry point builds: mine_block::get_block (retry loop around build_block: head, difficulty,
	// prepare_mineable_transactions, fee sum, get_coinbase / burn_reward, Block::from_reward, validate, timestamp rule,
	// set_txhashset_roots), compiled from the source text of the tree under test.
	let head = n.chain.head_header().unwrap();
	let hdr_head = n.chain.header_head().unwrap().last_block_h;
	let key = (head.hash(), hdr_head, ids_json(w, &txs));
	if n.last_mine_key.as_ref() != Some(&key) {
		n.last_mine_key = Some(key);
		let r = catch_unwind(AssertUnwindSafe(|| n.pool.read().prepare_mineable_transactions()));
		let mut m = json!({});
		let mut bad: Option<String> = None;
		let mut want: Option<Vec<Vec<u64>>> = None;
		match r {
			Err(_) => bad = Some("panic".into()),
			Ok(Err(e)) => bad = Some(format!("prepare_error:{:?}", e)),
			Ok(Ok(mtxs)) => {
				m["ids"] = json!(ids_json(w, &mtxs));
				want = Some(ids_json(w, &mtxs));
			}
		}
		if let Some(want) = want {
			match get_template(n) {
				Tmpl::Panic => bad = Some("panic:get_block".into()),
				Tmpl::Slow => bad = Some("harness_get_block_slow".into()),
				Tmpl::NoReturn(e) => bad = Some(format!("get_block_no_return:{}", e)),
				Tmpl::Ok(mut b, bf) => {
					let wt = body_weight(&b);
					m["weight"] = json!(wt);
					m["fees"] = json!(bf.fees);
					m["prev_height"] = json!(b.header.height.saturating_sub(1));
					// what Pool.tla's TemplateFor / TemplateOK say about the template, evaluated with the model's universe:
					// built on the BODY head; carries exactly the mineable set; the coinbase claims the PLAIN fee fields
					let mut got: Vec<u64> = w.ids_of_commits(
						&b.kernels().iter().filter(|k| !k.is_coinbase()).map(|k| k.excess()).collect::<Vec<_>>(),
					);
					got.sort();
					let mut flat: Vec<u64> = want.iter().flatten().cloned().collect();
					flat.sort();
					let model_fees: u64 = flat.iter().filter_map(|a| w.atoms.get(a)).map(|a| a.fee).sum();
					let n_cb_out = b.outputs().iter().filter(|o| o.is_coinbase()).count();
					let n_cb_ker = b.kernels().iter().filter(|k| k.is_coinbase()).count();
					if b.header.prev_hash != head.hash() || b.header.height != head.height + 1 {
						bad = Some(format!("template_not_on_body_head:height={}:head={}", b.header.height, head.height));
					} else if got != flat {
						bad = Some(format!("template_txs_differ_from_mineable:{:?}", got));
					} else if bf.fees != model_fees || bf.height != head.height + 1 {
						bad = Some(format!("template_fees:{}!={}", bf.fees, model_fees));
					} else if n_cb_out != 1 || n_cb_ker != 1 {
						bad = Some(format!("template_coinbase_count:{}:{}", n_cb_out, n_cb_ker));
					} else if let Err(e) = b.validate(&head.total_kernel_offset) {
						bad = Some(format!("block_validate:{:?}", e));
					} else if wt > n.mine_weight {
						bad = Some(format!("over_mineable_max_weight:{}>{}", wt, n.mine_weight));
					} else if wt > global::max_block_weight() {
						bad = Some(format!("over_block_weight:{}", wt));
					} else if b.header.timestamp <= head.timestamp {
						bad = Some("template_timestamp_not_after_head".into());
					} else {
						// the miner's part: a proof (BlockHeader::hash() covers the proof only; SKIP_POW on the twin)
						b.header.pow.proof = pow::Proof::random(global::proofsize());
						let h = b.hash();
						if !n.accepted_cands.contains(&h) {
							let dbg_h = b.header.height;
							match n.twin.process_block(b, Options::SKIP_POW) {
								Ok(t) => {
									if std::env::var("VERIF_DEBUG").is_ok() {
										eprintln!("twin accepted cand at height {} -> {:?}; twin head {:?}; main head {:?}", dbg_h, t.map(|x| x.height), n.twin.head().map(|x| (x.height, x.total_difficulty.to_num())), n.chain.head().map(|x| (x.height, x.total_difficulty.to_num())));
									}
									n.accepted_cands.insert(h);
								}
								Err(e) => bad = Some(format!("process_block:{:?}", e)),
							}
						}
					}
				}
			}
		}
		m["accepted"] = json!(bad.is_none());
		if let Some(b) = bad {
			m["err"] = json!(b);
			mism.push(json!({"step": step, "what": "mineable_not_accepted", "after": after, "observed": b,
				"mineable": m["ids"], "txpool": ids_json(w, &txs), "header_ahead": hdr_head != head.hash()}));
		}
		obs["mineable"] = m;
	}
	obs
}

fn compare_pools(w: &World, n: &Node, proj: &Value, step: usize, mism: &mut Vec<Value>) -> bool {
	let mut ok = true;
	let tp = ids_json(w, &n.pool.read().txpool.all_transactions());
	let sp = ids_json(w, &n.pool.read().stempool.all_transactions());
	if tp != sets_of(&proj["txpool"]) {
		mism.push(json!({"step": step, "what": "txpool", "expected": proj["txpool"], "observed": tp}));
		ok = false;
	}
	if sp != sets_of(&proj["stempool"]) {
		mism.push(json!({"step": step, "what": "stempool", "expected": proj["stempool"], "observed": sp}));
		ok = false;
	}
	let h = n.chain.head().unwrap().height;
	if Some(h) != proj["height"].as_u64() {
		mism.push(json!({"step": step, "what": "height", "expected": proj["height"], "observed": h}));
		ok = false;
	}
	ok
}

fn replay_one(beh: &Value, work: &str, idx: usize) -> Value {
	let cfg = &beh["cfg"];
	let trunk = cfg["trunk"].as_u64().unwrap();
	let fee_base = cfg["feebase"].as_u64().unwrap();
	let mine_weight = cfg["mineweight"].as_u64().unwrap();
	global::set_local_accept_fee_base(fee_base);
	let nrd = cfg["nrd"].as_bool().unwrap_or(false);
	let ahead = beh["clock"].as_str() == Some("head_ahead");
	global::set_local_nrd_enabled(nrd);
	let w = build_world(beh);
	let tdir = template(work, trunk);
	let dir = format!("{}/b{}", work, idx);
	let _ = std::fs::remove_dir_all(&dir);
	copy_dir(&tdir, &format!("{}/main", dir));
	copy_dir(&tdir, &format!("{}/twin", dir));
	let rec = new_rec();
	let twin = init_chain(&format!("{}/twin", dir), new_rec());
	let prec = Arc::new(PoolRec {
		events: Mutex::new(vec![]),
		relay_ok: Mutex::new(true),
	});
	// pool <-> chain as in Server::new(): PoolToChainAdapter, ChainToPoolAndNetAdapter (+ a Peers object
	// without connections, so that blocks can also arrive with Options::NONE / MINE)
	let pool_adapter = Arc::new(PoolToChainAdapter::new());
	let pool: Arc<RwLock<RealPool>> = Arc::new(RwLock::new(TransactionPool::new(
		PoolConfig {
			accept_fee_base: fee_base,
			reorg_cache_period: 30,
			max_pool_size: cfg["maxpool"].as_u64().unwrap() as usize,
			max_stempool_size: cfg["maxstem"].as_u64().unwrap() as usize,
			mineable_max_weight: mine_weight,
		},
		pool_adapter.clone(),
		prec.clone(),
	)));
	let chain_adapter = Arc::new(ChainToPoolAndNetAdapter::new(
		pool.clone(),
		vec![Box::new(StatusHook { rec: rec.clone() })],
	));
	let chain = Arc::new(init_chain(&format!("{}/main", dir), chain_adapter.clone()));
	pool_adapter.set_chain(chain.clone());
	let peers = Arc::new(grin_p2p::Peers::new(
		grin_p2p::store::PeerStore::new(&format!("{}/peers", dir)).expect("peer store"),
		Arc::new(grin_p2p::DummyAdapter {}),
		grin_p2p::P2PConfig::default(),
	));
	chain_adapter.init(peers.clone());
	let mut n = Node {
		chain,
		rec,
		twin,
		pool,
		_peers: peers,
		prec,
		accepted_cands: HashSet::new(),
		last_mine_key: None,
		blocks_made: 0,
		pending: None,
		mine_weight,
		fee_base,
		nrd,
	};
	let mut mism: Vec<Value> = vec![];
	let mut obs_steps: Vec<Value> = vec![];
	let mut diverged: Option<usize> = None; // legal nondeterministic divergence (eviction victim) at this step
	let steps = beh["steps"].as_array().unwrap();
	if n.chain.head().unwrap().height != trunk {
		panic!("template chain not at trunk height");
	}
	for (i, s) in steps.iter().enumerate() {
		let k = s["k"].as_str().unwrap();
		let mut o = json!({"k": k});
		match k {
			"Submit" => {
				let mut parts = arr_u64(&s["t"]);
				parts.sort();
				let stem = s["stem"].as_bool().unwrap();
				let relay = s["relay"].as_bool().unwrap_or(true);
				*n.prec.relay_ok.lock().unwrap() = relay;
				n.prec.events.lock().unwrap().clear();
				let tx = match s["form"].as_str().unwrap_or("commit") {
					"declared" => w.with_declared_inputs(&w.tx_of(&parts), false),
					"mislabelled" => w.with_declared_inputs(&w.tx_of(&parts), true),
					_ => w.tx_of(&parts),
				};
				// the lock heights of the submitted transaction's kernels, in the order the kernels have in it
				let klocks: Vec<u64> = tx
					.kernels()
					.iter()
					.filter_map(|k| match k.features {
						KernelFeatures::HeightLocked { lock_height, .. } => Some(lock_height),
						_ => None,
					})
					.collect();
				if klocks.len() > 1 {
					o["kernel_locks"] = json!(klocks);
				}
				o["cb_flagged"] = json!([
					tx.outputs().iter().filter(|x| x.is_coinbase()).count(),
					tx.kernels().iter().filter(|x| x.is_coinbase()).count()
				]);
				let header = n.chain.head_header().unwrap();
				let before = n.pool.read().txpool.size();
				let pre_real = ids_json(&w, &n.pool.read().txpool.all_transactions());
				let r = catch_unwind(AssertUnwindSafe(|| {
					n.pool.write().add_to_pool(TxSource::Broadcast, tx.clone(), stem, &header)
				}));
				let evs: Vec<(String, Vec<u64>)> = n
					.prec
					.events
					.lock()
					.unwrap()
					.iter()
					.map(|(e, ks)| (e.clone(), w.ids_of_commits(ks)))
					.collect();
				let (res, err) = match &r {
					Err(_) => ("panic".to_string(), "panic".to_string()),
					Ok(Err(e)) => ("reject".to_string(), format!("{:?}", e)),
					Ok(Ok(())) => {
						if evs.iter().any(|(e, _)| e == "fluff") {
							("ok_fluff".to_string(), String::new())
						} else if evs.iter().any(|(e, _)| e == "stem") {
							("ok_stem".to_string(), String::new())
						} else {
							("ok_silent".to_string(), String::new())
						}
					}
				};
				o["res"] = json!(res);
				o["err"] = json!(err);
				o["events"] = json!(evs);
				o["txpool_before"] = json!(before);
				// independent of the model: an Ok for a tx that pays less than the minimum for its weight.
				// The admitted form (after deaggregation) is what the adapter was told about.
				if res.starts_with("ok") {
					let admitted: Vec<u64> = evs.last().map(|(_, ids)| ids.clone()).unwrap_or(parts.clone());
					let known = admitted.iter().all(|a| w.atoms.contains_key(a));
					if known && !admitted.is_empty() {
						let atx = w.tx_of(&admitted);
						if w.underpaid(&atx, fee_base) {
							mism.push(json!({"step": i, "what": "admitted_underpaid", "tx": admitted, "res": res,
								"over_capacity": before > cfg["maxpool"].as_u64().unwrap() as usize,
								"relayed": evs.iter().any(|(e, _)| e == "fluff" || e == "stem")}));
						}
					}
				}
				// an eviction on the real side, judged structurally (needed once the behaviour has legally
				// diverged from the model: the victim must have no dependant in the txpool or the stempool)
				if diverged.is_some() && res == "ok_fluff" && before > cfg["maxpool"].as_u64().unwrap() as usize {
					let admitted: Vec<u64> = evs.last().map(|(_, ids)| ids.clone()).unwrap_or(parts.clone());
					let mut pre = pre_real.clone();
					pre.push(admitted);
					let tp = ids_json(&w, &n.pool.read().txpool.all_transactions());
					let sp = ids_json(&w, &n.pool.read().stempool.all_transactions());
					let gone: Vec<Vec<u64>> = pre.iter().filter(|e| !tp.contains(e)).cloned().collect();
					if gone.len() == 1 {
						let (_, vouts0) = w.ins_outs(&gone[0]);
						// outputs of the victim that no remaining public entry creates as well
						let vouts: BTreeSet<u64> = vouts0
							.into_iter()
							.filter(|c| !tp.iter().any(|y| y.iter().filter_map(|a| w.atoms.get(a)).any(|a| a.outs.contains(c))))
							.collect();
						let dep = |y: &Vec<u64>| w.ins_outs(y).0.intersection(&vouts).next().is_some();
						if tp.iter().any(|y| dep(y)) {
							mism.push(json!({"step": i, "what": "evict_victim_has_dependants", "victim": gone[0],
								"pre": pre, "observed": tp, "after_divergence": true}));
						} else if sp.iter().any(|y| dep(y)) {
							mism.push(json!({"step": i, "what": "evict_stempool_dependant_left", "victim": gone[0],
								"stempool": sp, "after_divergence": true}));
						}
					}
				}
				if diverged.is_none() {
					if res != s["res"].as_str().unwrap() {
						mism.push(json!({"step": i, "what": "result", "k": k, "t": parts, "stem": stem, "why": s["why"],
							"expected": s["res"], "observed": res, "err": err,
							"over_capacity": before > cfg["maxpool"].as_u64().unwrap() as usize}));
					} else if s["evict"].as_bool().unwrap_or(false) && res == "ok_fluff" {
						// eviction: the property leaves the victim free among entries without dependants
						let tp = ids_json(&w, &n.pool.read().txpool.all_transactions());
						let sp = ids_json(&w, &n.pool.read().stempool.all_transactions());
						let pre = sets_of(&s["pre"]);
						let allowed: BTreeSet<Vec<u64>> = sets_of(&s["allowed"]).into_iter().collect();
						let gone: Vec<Vec<u64>> = pre.iter().filter(|e| !tp.contains(e)).cloned().collect();
						let kept_order: Vec<Vec<u64>> = pre.iter().filter(|e| tp.contains(e)).cloned().collect();
						o["evicted"] = json!(gone);
						// is the victim the one Pool.tla's CodeVictim (bucket_transactions as implemented) predicts?
						if let Some(cv) = s.get("codevictim").filter(|v| v.is_array()) {
							let mut cv = arr_u64(cv);
							cv.sort();
							o["victim_is_bucket_rule"] = json!(gone.len() == 1 && gone[0] == cv);
						}
						if gone.len() != 1 || kept_order != tp {
							mism.push(json!({"step": i, "what": "evict_shape", "pre": pre, "observed": tp}));
						} else if !allowed.contains(&gone[0]) {
							mism.push(json!({"step": i, "what": "evict_victim_has_dependants", "victim": gone[0],
								"pre": pre, "allowed": s["allowed"], "observed": tp, "code_victim": s["codevictim"]}));
						} else if tp != sets_of(&s["proj"]["txpool"]) {
							diverged = Some(i);
						} else if sp != sets_of(&s["proj"]["stempool"]) {
							mism.push(json!({"step": i, "what": "stempool", "expected": s["proj"]["stempool"], "observed": sp}));
						}
					} else {
						compare_pools(&w, &n, &s["proj"], i, &mut mism);
					}
				}
			}
			"Header" => {
				// header-first propagation: only the header of the next block reaches the chain
				let atoms = sets_of(&s["bs"]).pop().unwrap_or_default();
				let prev = n.chain.head_header().unwrap();
				let txs: Vec<Transaction> = atoms.iter().map(|a| w.txs[a].clone()).collect();
				let fees: u64 = txs.iter().map(|t| t.fee()).sum();
				n.blocks_made += 1;
				let rw = reward_for(1, 1000 * (idx as u64 % 50) + n.blocks_made, fees);
				let mut b = Block::new(&prev, &txs, Difficulty::from_num(100), rw).expect("header block");
				b.header.timestamp = block_ts(&prev, ahead);
				b.header.pow.nonce = next_nonce();
				if let Err(e) = n.chain.set_txhashset_roots(&mut b) {
					mism.push(json!({"step": i, "what": "model_block_invalid_on_chain", "observed": format!("{:?}", e), "block": atoms}));
					obs_steps.push(o);
					break;
				}
				match n.chain.process_block_header(&b.header, Options::SKIP_POW) {
					Ok(()) => {}
					Err(e) => {
						mism.push(json!({"step": i, "what": "model_block_rejected_by_chain", "observed": format!("header:{:?}", e), "block": atoms}));
						obs_steps.push(o);
						break;
					}
				}
				let hh = n.chain.header_head().unwrap().height;
				let bh = n.chain.head().unwrap().height;
				o["header_head"] = json!(hh);
				if hh != bh + 1 {
					mism.push(json!({"step": i, "what": "harness_header_not_ahead", "observed": [hh, bh]}));
				}
				n.pending = Some((atoms, b));
				if diverged.is_none() {
					compare_pools(&w, &n, &s["proj"], i, &mut mism);
				}
			}
			"Connect" | "Reorg" => {
				// how the blocks of this step reach the chain: relayed (NONE), mined here (MINE), body sync (SYNC)
				let opts_name = s["opts"].as_str().unwrap_or("none").to_string();
				let deliver = match opts_name.as_str() {
					"sync" => Options::SYNC,
					"mine" => Options::MINE,
					_ => Options::NONE,
				};
				let d = s["d"].as_u64().unwrap_or(0);
				let bs = sets_of(&s["bs"]);
				let head = n.chain.head_header().unwrap();
				let mut prev = n.chain.get_header_by_height(head.height - d).unwrap();
				// work being replaced: the new branch stays behind (status Fork) until its last block overtakes
				let replaced = head.total_difficulty().to_num() - prev.total_difficulty().to_num();
				let m = bs.len() as u64;
				let each = std::cmp::max(1, replaced / m);
				let mut statuses = vec![];
				let mut failed = false;
				for (bi, atoms) in bs.iter().enumerate() {
					let diff = if d == 0 {
						100
					} else if (bi as u64) + 1 < m {
						each
					} else {
						replaced - each * (m - 1) + 10
					};
					let txs: Vec<Transaction> = atoms.iter().map(|a| w.txs[a].clone()).collect();
					let fees: u64 = txs.iter().map(|t| t.fee()).sum();
					let announced = match n.pending.take() {
						Some((pa, pb)) if k == "Connect" && pa == *atoms => Some(pb),
						Some(_) => {
							mism.push(json!({"step": i, "what": "harness_pending_header_mismatch", "block": atoms}));
							failed = true;
							break;
						}
						None => None,
					};
					let b = if let Some(pb) = announced {
						pb // the body of the block whose header was delivered first
					} else {
						n.blocks_made += 1;
						let rw = reward_for(1, 1000 * (idx as u64 % 50) + n.blocks_made, fees);
						let mut b = match Block::new(&prev, &txs, Difficulty::from_num(diff), rw) {
							Ok(b) => b,
							Err(e) => {
								mism.push(json!({"step": i, "what": "model_block_unbuildable", "observed": format!("{:?}", e), "block": atoms}));
								failed = true;
								break;
							}
						};
						b.header.timestamp = block_ts(&prev, ahead);
						b.header.pow.nonce = next_nonce();
						if let Err(e) = n.chain.set_txhashset_roots(&mut b) {
							mism.push(json!({"step": i, "what": "model_block_invalid_on_chain", "observed": format!("{:?}", e), "block": atoms}));
							failed = true;
							break;
						}
						b
					};
					n.rec.log.lock().unwrap().clear();
					// the real ChainToPoolAndNetAdapter::block_accepted runs inside process_block (hooks, broadcast
					// to the - empty - peer set unless SYNC, pool reconciliation)
					let pr = catch_unwind(AssertUnwindSafe(|| n.chain.process_block(b.clone(), Options::SKIP_POW | deliver)));
					match pr {
						Err(_) => {
							mism.push(json!({"step": i, "what": "panic_in_block_accepted", "block": atoms, "opts": opts_name}));
							failed = true;
							break;
						}
						Ok(Err(e)) => {
							mism.push(json!({"step": i, "what": "model_block_rejected_by_chain", "observed": format!("{:?}", e), "block": atoms}));
							failed = true;
							break;
						}
						Ok(Ok(_)) => {}
					}
					let tr = n.twin.process_block(b.clone(), Options::SKIP_POW);
					if std::env::var("VERIF_DEBUG").is_ok() {
						eprintln!("real block h={} diff={} total={} twin result {:?}", b.header.height, diff, b.header.total_difficulty().to_num(), tr.map(|x| x.map(|y| y.height)));
					}
					let st = n.rec.log.lock().unwrap().last().map(|x| x.1.clone()).unwrap_or("none".into());
					statuses.push(st.clone());
					prev = b.header.clone();
				}
				o["statuses"] = json!(statuses);
				o["opts"] = json!(opts_name);
				if failed {
					obs_steps.push(o);
					break;
				}
				// the model assumes the chain reports fork.. then reorg (or next for a plain connect)
				let expect_last = if k == "Connect" { "next" } else { "reorg" };
				let shape_ok = statuses.last().map(|x| x == expect_last).unwrap_or(false)
					&& statuses[..statuses.len() - 1].iter().all(|x| x == "fork");
				if !shape_ok {
					mism.push(json!({"step": i, "what": "harness_status_shape", "observed": statuses, "k": k}));
				}
				if diverged.is_none() {
					compare_pools(&w, &n, &s["proj"], i, &mut mism);
				}
			}
			x => panic!("unknown step {}", x),
		}
		let rc = real_checks(&w, &mut n, i, k, &mut mism);
		// the template is built on what Pool.tla's TemplateFor says: the body head of the MODEL's chain
		if diverged.is_none() && mism.is_empty() {
			if let (Some(ph), Some(exp)) = (rc["mineable"]["prev_height"].as_u64(), s["proj"]["tmpl"]["prev"].as_u64()) {
				if ph != exp {
					mism.push(json!({"step": i, "what": "mineable_not_accepted", "after": k,
						"observed": format!("template_not_on_body_head:model:{}!={}", ph, exp), "header_ahead": s["proj"]["tmpl"]["pending"]}));
				}
			}
		}
		o["real"] = rc;
		o["txpool"] = json!(ids_json(&w, &n.pool.read().txpool.all_transactions()));
		o["stempool"] = json!(ids_json(&w, &n.pool.read().stempool.all_transactions()));
		o["cache"] = json!(n
			.pool
			.read()
			.reorg_cache
			.read()
			.iter()
			.map(|e| w.ids_of(&e.tx))
			.collect::<Vec<_>>());
		obs_steps.push(o);
		if !mism.is_empty() {
			break; // first divergence: later steps would only echo it
		}
	}
	let _ = w.values.len();
	drop(n);
	let _ = std::fs::remove_dir_all(&dir);
	json!({"steps": obs_steps.len(), "obs": obs_steps, "mismatches": mism, "diverged_at": diverged})
}

fn replay(args: &Args) -> i32 {
	let cases = read_ndjson(args.req("cases"));
	let out_path = args.req("out").to_string();
	let work = args.req("work").to_string();
	std::fs::create_dir_all(&work).unwrap();
	let mut out = NdWriter::create(&out_path);
	for (i, c) in cases.iter().enumerate() {
		let r = catch_unwind(AssertUnwindSafe(|| replay_one(c, &work, i)));
		let v = match r {
			Ok(v) => v,
			Err(e) => {
				let msg = e
					.downcast_ref::<String>()
					.cloned()
					.or_else(|| e.downcast_ref::<&str>().map(|s| s.to_string()))
					.unwrap_or_default();
				json!({"steps": 0, "obs": [], "mismatches": [], "harness_panic": msg})
			}
		};
		out.put(&v);
	}
	out.finish();
	let _ = std::fs::remove_dir_all(&work);
	0
}

fn main() {
	quiet_panics();
	global::set_local_chain_type(ChainTypes::AutomatedTesting);
	let a: Vec<String> = std::env::args().skip(1).collect();
	let args = Args::parse(&a);
	let rc = match args.pos.get(0).map(|s| s.as_str()) {
		Some("replay") => replay(&args),
		Some("commits") => {
			// development aid: the commitments of the trunk coinbases (their byte order is the order of a tx's inputs)
			let kc = keychain();
			for h in 0..8u64 {
				let c = kc.commit(REWARD, &kid_coinbase(h), SwitchCommitmentType::Regular).unwrap();
				println!("{} {}", h, grin_util::ToHex::to_hex(&c));
			}
			0
		}
		_ => {
			eprintln!("pool replay --cases F --out F --work DIR");
			2
		}
	};
	std::process::exit(rc);
}
