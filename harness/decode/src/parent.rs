//! The parent process: splits the case space into chunks, runs each chunk in a child, watches progress markers,
//! kills a child that stays silent, re-runs the suspect case alone in a fresh child before recording
//! End(abort) / End(hang), and restarts after the suspect.
use crate::cases::{Case, Ct, Space};
use crate::targets::Rd;
use crate::worker::{self, Bounds, Nd};
use serde_json::{json, Value};
use std::io::{BufRead, BufReader, Read};
use std::process::{Child, Command, Stdio};
use std::sync::atomic::{AtomicUsize, Ordering};
use std::sync::mpsc::{channel, RecvTimeoutError};
use std::sync::{Arc, Mutex};
use std::thread;
use std::time::Duration;
use vcommon::*;

enum Ended {
	Done,
	/// (case index, post-decode step announced last - single-case runs only)
	Hang(usize, String),
	Died(usize, String, String, String),
}

struct ChildArgs {
	exe: String,
	plans: String,
	bounds: String,
	seed: u64,
	tier: String,
	timeout: Duration,
}

fn spawn(ca: &ChildArgs, extra: &[String]) -> Child {
	let mut cmd = Command::new(&ca.exe);
	cmd.arg("worker")
		.args(["--plans", &ca.plans, "--bounds", &ca.bounds, "--seed", &ca.seed.to_string(), "--tier", &ca.tier])
		.args(extra)
		.stdin(Stdio::null())
		.stdout(Stdio::piped())
		.stderr(Stdio::piped())
		.env("RUST_BACKTRACE", "0");
	cmd.spawn().expect("spawn worker")
}

/// run one child to completion (or to its first abort / hang)
fn supervise(mut child: Child, timeout: Duration) -> Ended {
	let stdout = child.stdout.take().unwrap();
	let mut stderr = child.stderr.take().unwrap();
	let (tx, rx) = channel::<String>();
	let rt = thread::spawn(move || {
		for line in BufReader::new(stdout).lines() {
			match line {
				Ok(l) => {
					if tx.send(l).is_err() {
						break;
					}
				}
				Err(_) => break,
			}
		}
	});
	let et = thread::spawn(move || {
		let mut s = String::new();
		let _ = stderr.read_to_string(&mut s);
		s
	});
	let mut cur: usize = usize::MAX;
	let mut step = String::new();
	let mut done = false;
	let ended;
	loop {
		// building the case space (and, on a busy machine, merely getting scheduled) precedes the first case: the
		// watchdog of a case starts with the first case
		let wait = if cur == usize::MAX { timeout.max(Duration::from_secs(180)) } else { timeout };
		match rx.recv_timeout(wait) {
			Ok(l) => {
				if let Some(n) = l.strip_prefix("B ") {
					cur = n.trim().parse().unwrap_or(usize::MAX);
					step.clear();
				} else if let Some(n) = l.strip_prefix("S ") {
					step = n.trim().to_string();
				} else if l.trim() == "D" {
					done = true;
				}
			}
			Err(RecvTimeoutError::Timeout) => {
				let _ = child.kill();
				let _ = child.wait();
				ended = Ended::Hang(cur, step.clone());
				break;
			}
			Err(RecvTimeoutError::Disconnected) => {
				let st = child.wait().expect("wait");
				if done && st.success() {
					ended = Ended::Done;
				} else {
					use std::os::unix::process::ExitStatusExt;
					let how = match (st.signal(), st.code()) {
						(Some(s), _) => format!("signal {}", s),
						(_, Some(c)) => format!("exit {}", c),
						_ => "?".into(),
					};
					let _ = rt.join();
					let err = et.join().unwrap_or_default();
					// drain what the child still wrote before it died
					while let Ok(l) = rx.try_recv() {
						if let Some(n) = l.strip_prefix("B ") {
							cur = n.trim().parse().unwrap_or(usize::MAX);
							step.clear();
						} else if let Some(n) = l.strip_prefix("S ") {
							step = n.trim().to_string();
						}
					}
					return Ended::Died(cur, how, err, step);
				}
				break;
			}
		}
	}
	let _ = rt.join();
	let _ = et.join();
	ended
}

fn alloc_refused(stderr: &str) -> Option<u64> {
	stderr
		.lines()
		.filter_map(|l| l.strip_prefix("ALLOC-REFUSED "))
		.filter_map(|n| n.trim().parse::<u64>().ok())
		.max()
}

pub fn run(args: &Args) -> i32 {
	let plans_path = args.req("plans").to_string();
	let plans = read_ndjson(&plans_path);
	let seed = args.u64("seed", 1);
	let tier = args.get("tier").unwrap_or("quick").to_string();
	let space = Arc::new(Space::build(seed, tier == "thorough", &plans));
	let outdir = args.req("out").to_string();
	std::fs::create_dir_all(&outdir).expect("out dir");
	let ca = Arc::new(ChildArgs {
		exe: std::env::current_exe().unwrap().to_string_lossy().into_owned(),
		plans: plans_path,
		bounds: args.req("bounds").to_string(),
		seed,
		tier,
		timeout: Duration::from_millis(args.u64("timeout-ms", 10_000)),
	});
	let bounds = Bounds::load(&ca.bounds);
	let total = space.descs.len();
	let chunk = args.u64("chunk", 20_000) as usize;
	let nworkers = args.u64("workers", 6) as usize;
	let next = Arc::new(AtomicUsize::new(0));
	let extra_events: Arc<Mutex<Vec<Value>>> = Arc::new(Mutex::new(vec![]));
	let extra_bad: Arc<Mutex<Vec<Value>>> = Arc::new(Mutex::new(vec![]));
	let files: Arc<Mutex<Vec<(String, String)>>> = Arc::new(Mutex::new(vec![]));
	let stats = Arc::new(Mutex::new((0u64, 0u64, 0u64))); // children, restarts, unconfirmed
	// circuit breaker: a decoder with this many confirmed aborts (hangs) has its remaining inputs skipped (and counted);
	// the verdict is already negative, and every confirmation costs two process starts (a hang: 2 x the timeout)
	let max_aborts = args.u64("max-aborts", 12) as u32;
	let max_hangs = args.u64("max-hangs", 2) as u32;
	let confirmed: Arc<Mutex<std::collections::BTreeMap<(String, &'static str), u32>>> = Arc::new(Mutex::new(Default::default()));
	let skip: Arc<Mutex<std::collections::BTreeSet<String>>> = Arc::new(Mutex::new(Default::default()));
	let mut hs = vec![];
	for _ in 0..nworkers {
		let (confirmed, skip) = (confirmed.clone(), skip.clone());
		let (space, ca, next, extra_events, extra_bad, files, stats, outdir) = (
			space.clone(),
			ca.clone(),
			next.clone(),
			extra_events.clone(),
			extra_bad.clone(),
			files.clone(),
			stats.clone(),
			outdir.clone(),
		);
		hs.push(thread::spawn(move || loop {
			let from0 = next.fetch_add(chunk, Ordering::SeqCst);
			if from0 >= total {
				break;
			}
			let to = (from0 + chunk).min(total);
			let mut from = from0;
			while from < to {
				let of = format!("{}/w_{}.ndjson", outdir, from);
				let bf = format!("{}/bad_{}.ndjson", outdir, from);
				files.lock().unwrap().push((of.clone(), bf.clone()));
				stats.lock().unwrap().0 += 1;
				let skip_arg: String = skip.lock().unwrap().iter().cloned().collect::<Vec<_>>().join("|");
				let child = spawn(&ca, &["--from".into(), from.to_string(), "--to".into(), to.to_string(), "--out".into(), of, "--bad".into(), bf,
					"--skip".into(), format!("|{}", skip_arg)]);
				match supervise(child, ca.timeout) {
					Ended::Done => break,
					ended => {
						let (idx, kind) = match &ended {
							Ended::Hang(i, _) => (*i, "hang"),
							Ended::Died(i, _, _, _) => (*i, "abort"),
							Ended::Done => unreachable!(),
						};
						stats.lock().unwrap().1 += 1;
						if idx == usize::MAX || idx < from || idx >= to {
							// died before its first case: a tool problem, reported by the driver
							extra_events.lock().unwrap().push(json!({"k": "ToolError", "what": format!("worker for {}..{} ended ({}) before any case", from, to, kind)}));
							break;
						}
						// re-confirm the suspect alone in a fresh child
						let sf = format!("{}/single_{}.ndjson", outdir, idx);
						let sb = format!("{}/singlecase_{}.ndjson", outdir, idx);
						let c2 = spawn(&ca, &["--from".into(), idx.to_string(), "--to".into(), (idx + 1).to_string(), "--out".into(), sf.clone(),
							"--bad".into(), sb.clone(), "--single".into()]);
						let again = supervise(c2, ca.timeout);
						let case = read_ndjson(&sb).into_iter().next().unwrap_or(json!({"i": idx}));
						let c = space.materialize(idx);
						let confirmed_now = match (&again, kind) {
							(Ended::Hang(_, st), "hang") => Some(("hang", String::new(), None, st.clone())),
							(Ended::Died(_, how, err, st), "abort") => Some(("abort", how.clone(), alloc_refused(err), st.clone())),
							_ => None,
						};
						match confirmed_now {
							Some((out, how, refused, step)) => {
								{
									let name = space.targets[c.target].name.to_string();
									let mut cf = confirmed.lock().unwrap();
									let n = cf.entry((name.clone(), out)).or_insert(0);
									*n += 1;
									if (out == "abort" && *n >= max_aborts) || (out == "hang" && *n >= max_hangs) {
										skip.lock().unwrap().insert(name);
									}
								}
								let mut ev = extra_events.lock().unwrap();
								ev.push(worker::begin_event(&space, idx, &c));
								ev.push(json!({"k": "End", "i": idx, "out": out, "consumed": 0, "peak": worker::clamp(refused.unwrap_or(0)), "reads": 0,
									"maxreq": worker::clamp(refused.unwrap_or(0)), "note": how, "alloc_refused": refused.map(|x| x.to_string()).unwrap_or_default(), "step": step, "gen": c.origin["gen"], "served": []}));
								extra_bad.lock().unwrap().push(case);
							}
							None => {
								stats.lock().unwrap().2 += 1;
								// the single run finished normally: keep its events (a panic / over-allocation there is still data)
								files.lock().unwrap().push((sf, format!("{}/none", outdir)));
							}
						}
						from = idx + 1;
					}
				}
			}
		}));
	}
	for h in hs {
		h.join().unwrap();
	}
	// merge
	let mut out = Nd::create(&format!("{}/trace.ndjson", outdir));
	let mut bad = Nd::create(&format!("{}/bad.ndjson", outdir));
	let mut sums: std::collections::BTreeMap<String, Value> = std::collections::BTreeMap::new();
	let mut nind = 0u64;
	let mut seeds_failed = vec![];
	let mut pending: Option<Value> = None;
	let mut kept: std::collections::BTreeMap<String, u64> = std::collections::BTreeMap::new();
	let mut keep_ids: std::collections::BTreeSet<u64> = std::collections::BTreeSet::new();
	let keep = args.u64("keep", 8);
	let mut dropped = 0u64;
	let mut skipped = 0u64;
	let mut step_counts: std::collections::BTreeMap<String, (u64, u64)> = std::collections::BTreeMap::new();
	// abort / hang events recorded by this process come first so that they are never dropped as repeats
	{
		let evs = extra_events.lock().unwrap().clone();
		let mut it = evs.into_iter();
		while let Some(b) = it.next() {
			if b["k"] == "Begin" {
				if let Some(e) = it.next() {
					let key = format!("{}|{}|{}|{}", b["dec"], e["out"], e["alloc_refused"].as_str().unwrap_or("").is_empty(), e["step"]);
					let n = kept.entry(key).or_insert(0u64);
					*n += 1;
					if *n <= keep {
						nind += 2;
						out.put(&b);
						out.put(&e);
						keep_ids.insert(e["i"].as_u64().unwrap_or(u64::MAX));
					} else {
						dropped += 1;
					}
				}
			} else {
				nind += 1;
				out.put(&b);
			}
		}
	}
	let mut bad_all: Vec<Value> = extra_bad.lock().unwrap().clone();
	let fl = files.lock().unwrap().clone();
	let mut hashes: Vec<u64> = vec![];
	for (of, bf) in fl.iter() {
		let ntf = format!("{}.nt", of);
		if let Ok(b) = std::fs::read(&ntf) {
			for ch in b.chunks_exact(8) {
				let mut a = [0u8; 8];
				a.copy_from_slice(ch);
				hashes.push(u64::from_le_bytes(a));
			}
			let _ = std::fs::remove_file(&ntf);
		}
		if std::path::Path::new(of).exists() {
			for e in read_ndjson(of) {
				match e["k"].as_str() {
					Some("Sum") => {
						let key = format!("{}|{}|{}|{}", e["dec"], e["rd"], e["ver"], e["ct"]);
						match sums.get_mut(&key) {
							None => {
								sums.insert(key, e);
							}
							Some(s) => {
								for f in ["n", "ok", "err", "post_ok", "bytes", "reads", "seeds", "seeds_ok"].iter() {
									s[*f] = json!(s[*f].as_u64().unwrap_or(0) + e[*f].as_u64().unwrap_or(0));
								}
								s["maxpeak"] = json!(s["maxpeak"].as_u64().unwrap_or(0).max(e["maxpeak"].as_u64().unwrap_or(0)));
								// keep both worst calls: the trace specification checks every summary it is given
								if e["hp"].as_u64().unwrap_or(0) > s["hp"].as_u64().unwrap_or(0) {
									s["hp"] = e["hp"].clone();
									s["hl"] = e["hl"].clone();
								}
								// the worst call = the one closest to its own bound
								let pm = |x: &Value| {
									let fr = x["wfty"].as_i64().filter(|t| *t >= 0).map(|t| (t as u8, x["wflen"].as_u64().unwrap_or(0)));
									let b = bounds.of(x["dec"].as_str().unwrap_or(""), Ct::parse(x["ct"].as_str().unwrap_or("")), x["wl"].as_u64().unwrap_or(0),
										x["wr"].as_bool().unwrap_or(false), fr, x["wc"].as_u64().unwrap_or(0));
									x["wp"].as_u64().unwrap_or(0) as u128 * 1_000_000 / (b.max(1) as u128)
								};
								if pm(&e) > pm(s) {
									for f in ["wp", "wl", "wr", "wfty", "wflen", "wc"].iter() {
										s[*f] = e[*f].clone();
									}
								}
							}
						}
					}
					Some("Steps") => {
						if let Some(m) = e["counts"].as_object() {
							for (k, v) in m {
								let t = step_counts.entry(k.clone()).or_insert((0u64, 0u64));
								t.0 += v[0].as_u64().unwrap_or(0);
								t.1 += v[1].as_u64().unwrap_or(0);
							}
						}
					}
					Some("Skipped") => skipped += e["n"].as_u64().unwrap_or(0),
					Some("SeedsFailed") => seeds_failed.extend(e["list"].as_array().cloned().unwrap_or_default()),
					Some("Begin") => pending = Some(e),
					Some("End") => {
						// keep at most KEEP calls per (decoder, outcome, normalised note, over-bound?) class: the rest are
						// repetitions of the same observation (counted in `dropped_repeats`)
						let b = pending.take().unwrap_or(json!({}));
						let note: String = e["note"].as_str().unwrap_or("").chars().filter(|c| !c.is_ascii_digit()).take(70).collect();
						let key = format!("{}|{}|{}|{}|{}", b["dec"], e["out"], note, e["peak"].as_u64().unwrap_or(0) > 100_000, e["step"]);
						let n = kept.entry(key).or_insert(0u64);
						*n += 1;
						if *n <= keep {
							nind += 2;
							out.put(&b);
							out.put(&e);
							keep_ids.insert(e["i"].as_u64().unwrap_or(u64::MAX));
						} else {
							dropped += 1;
						}
					}
					_ => {
						nind += 1;
						out.put(&e);
					}
				}
			}
			let _ = std::fs::remove_file(of);
		}
		if std::path::Path::new(bf).exists() {
			bad_all.extend(read_ndjson(bf));
			let _ = std::fs::remove_file(bf);
		}
	}
	for e in bad_all.iter() {
		if keep_ids.contains(&e["i"].as_u64().unwrap_or(u64::MAX)) {
			bad.put(e);
		}
	}
	let nontrivial_calls = hashes.len();
	hashes.sort_unstable();
	hashes.dedup();
	let distinct_nontrivial = hashes.len();
	let nsum = sums.len();
	for (_, s) in sums {
		out.put(&s);
	}
	// how often each post-decode step ran (and returned Ok): validated against the catalogue of the specification
	let names: Vec<&String> = step_counts.keys().collect();
	out.put(&json!({"k": "Steps", "names": names, "n": step_counts.values().map(|v| v.0).collect::<Vec<_>>(),
		"ok": step_counts.values().map(|v| v.1).collect::<Vec<_>>()}));
	nind += 1;
	out.flush();
	bad.flush();
	let st = stats.lock().unwrap();
	println!(
		"{}",
		json!({"cases": total, "ops": space.ops.len(), "seeds": space.seeds.len(), "children": st.0, "restarts": st.1, "unconfirmed": st.2,
			"individual_events": nind, "nontrivial_calls": nontrivial_calls, "distinct_nontrivial": distinct_nontrivial, "dropped_repeats": dropped, "skipped_after_breaker": skipped, "breaker_decoders": skip.lock().unwrap().iter().cloned().collect::<Vec<_>>(), "summary_events": nsum, "seeds_failed": seeds_failed,
			"steps": step_counts.iter().map(|(k, v)| (k.clone(), json!([v.0, v.1]))).collect::<serde_json::Map<String, Value>>()})
	);
	0
}

/// `--replay`: run one saved case (from a violation file) in this (fresh child) process
pub fn run_case_file(space: &Space, bounds: &Bounds, file: &str, out: &str) -> i32 {
	worker::install_panic_hook();
	crate::alloc_track::arm();
	let v: Value = serde_json::from_str(&std::fs::read_to_string(file).expect("case file")).expect("case json");
	let c = Case {
		target: space.target_index(v["dec"].as_str().expect("dec")),
		ver: v["ver"].as_u64().unwrap_or(1) as u32,
		rd: Rd::parse(v["rd"].as_str().unwrap_or("bin")),
		ct: Ct::parse(v["ct"].as_str().unwrap_or("auto")),
		bytes: worker::unhex(v["hex"].as_str().unwrap_or("")),
		aux: v["aux"].as_str().and_then(|s| s.parse().ok()).unwrap_or(0),
		ctx: v["ctx"].as_str().map(worker::unhex),
		origin: v["origin"].clone(),
		expect_ok: false,
		expect_post: false,
	};
	let mut w = Nd::create(out);
	let idx = v["i"].as_u64().unwrap_or(0) as usize;
	w.put(&worker::begin_event(space, idx, &c));
	w.flush();
	println!("B {}", idx);
	{
		use std::io::Write;
		let _ = std::io::stdout().flush();
	}
	crate::steps::set_announce(true);
	let o = worker::execute(space, &c);
	let _ = bounds;
	w.put(&json!({"k": "End", "i": idx, "out": o.out, "consumed": worker::clamp(o.res.consumed), "peak": worker::clamp(o.peak),
		"reads": worker::clamp(o.res.reads), "maxreq": worker::clamp(o.maxreq), "note": o.note, "step": o.step, "gen": c.origin["gen"],
		"served": worker::served_json(&o.served)}));
	w.flush();
	println!("D");
	0
}
