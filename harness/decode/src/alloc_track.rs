//! Counting global allocator for the decode worker.
//! Per thread: live bytes since `begin()`, their peak, and the largest single request.
//! Process wide: a hard cap on live bytes; a request that would exceed it is refused (null),
//! which makes Rust call `handle_alloc_error` -> abort.  Before refusing, one line
//! `ALLOC-REFUSED <size>` is written to stderr with a raw write(2) so that the parent can tell an
//! over-allocation abort from any other abort.
use std::alloc::{GlobalAlloc, Layout, System};
use std::cell::Cell;
use std::sync::atomic::{AtomicUsize, Ordering};

pub struct Tracking;

pub const CAP: usize = 1 << 30;
static LIVE: AtomicUsize = AtomicUsize::new(0);
/// The cap limits what the code under test may add on top of the harness's own data (the case space of the thorough
/// tier alone is several hundred MiB): it is armed by the worker once that data is built, relative to the level then.
static ARMED: std::sync::atomic::AtomicBool = std::sync::atomic::AtomicBool::new(false);
static BASE: AtomicUsize = AtomicUsize::new(0);

pub fn arm() {
	BASE.store(LIVE.load(Ordering::Relaxed), Ordering::Relaxed);
	ARMED.store(true, Ordering::Relaxed);
}

thread_local! {
	static CUR: Cell<isize> = const { Cell::new(0) };
	static PEAK: Cell<isize> = const { Cell::new(0) };
	static MAX_REQ: Cell<usize> = const { Cell::new(0) };
	static PAUSED: Cell<bool> = const { Cell::new(false) };
}

/// Run `f` without attributing its allocations to the call being measured (fixtures built lazily; the response a
/// serving handler builds by design).  The process-wide cap still applies.
pub fn unmeasured<R, F: FnOnce() -> R>(f: F) -> R {
	let was = PAUSED.try_with(|p| p.replace(true)).unwrap_or(false);
	let r = f();
	let _ = PAUSED.try_with(|p| p.set(was));
	r
}
#[inline]
fn paused() -> bool {
	PAUSED.try_with(|p| p.get()).unwrap_or(false)
}

#[inline]
fn add(sz: usize) {
	if paused() {
		return;
	}
	let _ = CUR.try_with(|c| {
		let v = c.get() + sz as isize;
		c.set(v);
		let _ = PEAK.try_with(|p| {
			if v > p.get() {
				p.set(v)
			}
		});
	});
	let _ = MAX_REQ.try_with(|m| {
		if sz > m.get() {
			m.set(sz)
		}
	});
}
#[inline]
fn sub(sz: usize) {
	if paused() {
		return;
	}
	let _ = CUR.try_with(|c| c.set(c.get() - sz as isize));
}

/// start measuring on this thread
pub fn begin() {
	let _ = PAUSED.try_with(|p| p.set(false));
	let _ = CUR.try_with(|c| c.set(0));
	let _ = PEAK.try_with(|c| c.set(0));
	let _ = MAX_REQ.try_with(|c| c.set(0));
}
pub fn peak() -> u64 {
	PEAK.try_with(|c| c.get()).unwrap_or(0).max(0) as u64
}
pub fn max_request() -> u64 {
	MAX_REQ.try_with(|c| c.get()).unwrap_or(0) as u64
}

fn refuse(sz: usize) {
	// note the request even though it is refused (a refused request is still a request)
	let _ = MAX_REQ.try_with(|m| {
		if sz > m.get() {
			m.set(sz)
		}
	});
	let mut buf = [0u8; 48];
	let head = b"ALLOC-REFUSED ";
	buf[..head.len()].copy_from_slice(head);
	let mut digits = [0u8; 24];
	let mut n = sz;
	let mut k = 0;
	loop {
		digits[k] = b'0' + (n % 10) as u8;
		n /= 10;
		k += 1;
		if n == 0 {
			break;
		}
	}
	let mut p = head.len();
	while k > 0 {
		k -= 1;
		buf[p] = digits[k];
		p += 1;
	}
	buf[p] = b'\n';
	p += 1;
	unsafe {
		libc::write(2, buf.as_ptr() as *const libc::c_void, p);
	}
}

#[inline]
fn admit(sz: usize) -> bool {
	if !ARMED.load(Ordering::Relaxed) {
		return true;
	}
	let above = LIVE.load(Ordering::Relaxed).saturating_sub(BASE.load(Ordering::Relaxed));
	if sz > CAP || above.saturating_add(sz) > CAP {
		refuse(sz);
		return false;
	}
	true
}

unsafe impl GlobalAlloc for Tracking {
	unsafe fn alloc(&self, l: Layout) -> *mut u8 {
		if !admit(l.size()) {
			return std::ptr::null_mut();
		}
		let p = System.alloc(l);
		if !p.is_null() {
			LIVE.fetch_add(l.size(), Ordering::Relaxed);
			add(l.size());
		}
		p
	}
	unsafe fn alloc_zeroed(&self, l: Layout) -> *mut u8 {
		if !admit(l.size()) {
			return std::ptr::null_mut();
		}
		let p = System.alloc_zeroed(l);
		if !p.is_null() {
			LIVE.fetch_add(l.size(), Ordering::Relaxed);
			add(l.size());
		}
		p
	}
	unsafe fn dealloc(&self, p: *mut u8, l: Layout) {
		LIVE.fetch_sub(l.size(), Ordering::Relaxed);
		sub(l.size());
		System.dealloc(p, l)
	}
	unsafe fn realloc(&self, p: *mut u8, l: Layout, new_size: usize) -> *mut u8 {
		if new_size > l.size() && !admit(new_size - l.size()) {
			// report the full request
			let _ = MAX_REQ.try_with(|m| {
				if new_size > m.get() {
					m.set(new_size)
				}
			});
			return std::ptr::null_mut();
		}
		let q = System.realloc(p, l, new_size);
		if !q.is_null() {
			if new_size >= l.size() {
				LIVE.fetch_add(new_size - l.size(), Ordering::Relaxed);
				// a growing realloc may transiently hold both blocks: count the new block, then free the old
				add(new_size);
				sub(l.size());
			} else {
				LIVE.fetch_sub(l.size() - new_size, Ordering::Relaxed);
				sub(l.size() - new_size);
			}
		}
		q
	}
}
