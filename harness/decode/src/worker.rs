//! The child process: executes a range of cases, each inside `catch_unwind`, measuring allocation, and writes
//! Begin/End events (individually for anything suspicious, aggregated otherwise).
use crate::alloc_track;
use crate::cases::{Case, Ct, Space};
use crate::steps;
use crate::targets::{CaseIn, Res, TKind};
use grin_core::global;
use serde_json::{json, Value};
use std::cell::RefCell;
use std::collections::BTreeMap;
use std::panic::{catch_unwind, AssertUnwindSafe};
use std::fs::File;
use std::io::{BufWriter, Write};

pub struct Nd {
	w: BufWriter<File>,
}
impl Nd {
	pub fn create(path: &str) -> Nd {
		Nd { w: BufWriter::new(File::create(path).expect("create out")) }
	}
	pub fn put(&mut self, v: &Value) {
		serde_json::to_writer(&mut self.w, v).unwrap();
		self.w.write_all(b"\n").unwrap();
	}
	pub fn flush(&mut self) {
		self.w.flush().unwrap();
	}
}

thread_local! {
	static LAST_PANIC: RefCell<Option<(String, String)>> = const { RefCell::new(None) };
}

pub fn install_panic_hook() {
	std::panic::set_hook(Box::new(|info| {
		let loc = info.location().map(|l| format!("{}:{}", l.file(), l.line())).unwrap_or_default();
		let msg = if let Some(s) = info.payload().downcast_ref::<&str>() {
			s.to_string()
		} else if let Some(s) = info.payload().downcast_ref::<String>() {
			s.clone()
		} else {
			"?".to_string()
		};
		LAST_PANIC.with(|p| *p.borrow_mut() = Some((loc, msg)));
	}));
}

pub fn hex(b: &[u8]) -> String {
	const H: &[u8; 16] = b"0123456789abcdef";
	let mut s = String::with_capacity(b.len() * 2);
	for x in b {
		s.push(H[(x >> 4) as usize] as char);
		s.push(H[(x & 15) as usize] as char);
	}
	s
}
pub fn unhex(s: &str) -> Vec<u8> {
	(0..s.len() / 2).map(|i| u8::from_str_radix(&s[2 * i..2 * i + 2], 16).expect("hex")).collect()
}

fn raw_stdout(s: &str) {
	unsafe {
		libc::write(1, s.as_ptr() as *const libc::c_void, s.len());
	}
}

/// The allocation bounds of spec/Decode.tla, as printed by MC_Decode_gen (BOUNDS / FRAMES): per decoder and chain type
/// (a, b, da) - `da` bounds a call that the decoder itself refused -, and per chain type and frame type
/// (admit = the largest announced length the header check admits, a = the constant of the body's decoder).
/// The worker uses them only to decide which calls are logged individually; the verdict is DecodeTrace's.
pub struct Bounds {
	pub dec: BTreeMap<String, (u64, u64, u64)>,
	pub frames: BTreeMap<String, Vec<(u64, u64)>>,
}
/// first frame header of a codec input: (type, announced length), None if there is none (short input, foreign magic)
pub fn first_frame(c: &Case, stream_codec: bool) -> Option<(u8, u64)> {
	if !stream_codec || c.bytes.len() < 11 || c.bytes[..2] != c.ct.magic() {
		return None;
	}
	let mut l = [0u8; 8];
	l.copy_from_slice(&c.bytes[3..11]);
	Some((c.bytes[2], u64::from_be_bytes(l)))
}
impl Bounds {
	pub fn load(path: &str) -> Bounds {
		let v: Value = serde_json::from_str(&std::fs::read_to_string(path).expect("bounds file")).expect("bounds json");
		let mut dec = BTreeMap::new();
		let mut frames = BTreeMap::new();
		for (k, x) in v.as_object().expect("bounds object") {
			if let Some(ct) = k.strip_prefix("frames@") {
				let t: Vec<(u64, u64)> = x.as_array().expect("frames").iter().map(|f| (f["admit"].as_u64().expect("admit"), f["a"].as_u64().expect("a"))).collect();
				frames.insert(ct.to_string(), t);
			} else {
				dec.insert(k.clone(), (x["a"].as_u64().expect("a"), x["b"].as_u64().expect("b"), x["da"].as_u64().unwrap_or_else(|| x["a"].as_u64().unwrap_or(0))));
			}
		}
		Bounds { dec, frames }
	}
	/// bound of one finished call (Decode.tla `CallBound`)
	pub fn of(&self, dec: &str, ct: Ct, len: u64, refused: bool, frame: Option<(u8, u64)>, consumed: u64) -> u64 {
		let key_ct = format!("{}@{}", dec, ct.name());
		let (a, b, da) = self.dec.get(&key_ct).or_else(|| self.dec.get(dec)).copied().unwrap_or((0, 0, 0));
		if dec == "Codec::read" {
			if let (Some((ty, flen)), Some(t)) = (frame, self.frames.get(ct.name())) {
				let (admit, fa) = t[(ty as usize).min(t.len() - 1)];
				if flen > admit {
					return 64 * 1024 + b * len;
				}
				if consumed < flen.saturating_add(22) {
					return flen.min(admit) + fa + 64 * 1024 + b * len;
				}
			}
			return a + b * len;
		}
		(if refused { da } else { a }) + b * len
	}
}

pub struct Outcome {
	pub out: &'static str,
	pub res: Res,
	pub peak: u64,
	pub maxreq: u64,
	pub note: String,
	/// the post-decode step that was in progress when the call panicked ("" = the decoder itself)
	pub step: &'static str,
	/// `Get*Segment` requests admitted during the call
	pub served: Vec<crate::serve::Served>,
}

pub fn execute(space: &Space, c: &Case) -> Outcome {
	let t = &space.targets[c.target];
	global::set_local_chain_type(c.ct.chain_type());
	let cin = CaseIn {
		bytes: &c.bytes,
		ver: c.ver,
		rd: c.rd,
		aux: c.aux,
		ctx: c.ctx.as_deref(),
	};
	LAST_PANIC.with(|p| *p.borrow_mut() = None);
	steps::reset();
	crate::serve::reset();
	alloc_track::begin();
	let r = catch_unwind(AssertUnwindSafe(|| (t.run)(&cin)));
	let peak = alloc_track::peak();
	let maxreq = alloc_track::max_request();
	let served = crate::serve::take();
	match r {
		Ok(res) => Outcome {
			out: if res.ok { "ok" } else { "err" },
			res,
			peak,
			maxreq,
			note: String::new(),
			step: "",
			served,
		},
		Err(_) => {
			let (loc, msg) = LAST_PANIC.with(|p| p.borrow_mut().take()).unwrap_or_default();
			let step = steps::current();
			steps::count_panicked(step);
			Outcome {
				out: "panic",
				res: Res::default(),
				peak,
				maxreq,
				note: format!("{} @ {}", msg, loc),
				step,
				served,
			}
		}
	}
}

/// A call is counted as non-trivial when the decoder returned a value, or consumed at least 16 input bytes before it
/// refused (it got past the leading fields), or - string decoders, which report no consumption - the input has at
/// least 2 characters; and always when the outcome is not ok|err.
pub fn nontrivial(space: &Space, c: &Case, o: &Outcome) -> bool {
	o.out != "err" || o.res.consumed >= 16 || (space.targets[c.target].kind == TKind::Str && c.bytes.len() >= 2)
}

/// FNV-1a over everything that identifies a call: decoder, reader, version, chain type, check parameters, input bytes
pub fn case_hash(c: &Case) -> u64 {
	let mut h: u64 = 0xcbf29ce484222325;
	let mut eat = |b: &[u8]| {
		for x in b {
			h ^= *x as u64;
			h = h.wrapping_mul(0x100000001b3);
		}
	};
	eat(&(c.target as u32).to_le_bytes());
	eat(c.rd.name().as_bytes());
	eat(&c.ver.to_le_bytes());
	eat(c.ct.name().as_bytes());
	eat(&c.aux.to_le_bytes());
	eat(&c.bytes);
	h
}

pub fn case_json(space: &Space, idx: usize, c: &Case) -> Value {
	json!({"i": idx, "dec": space.targets[c.target].name, "rd": c.rd.name(), "ver": c.ver, "ct": c.ct.name(),
		"hex": hex(&c.bytes), "aux": c.aux.to_string(), "ctx": c.ctx.as_ref().map(|x| hex(x)), "origin": c.origin})
}

#[derive(Default)]
struct Sum {
	n: u64,
	ok: u64,
	err: u64,
	post_ok: u64,
	bytes: u64,
	worst_permille: u64,
	wp: u64,
	wl: u64,
	/// the call with the worst peak / bound ratio: refused by the decoder?, first frame (type, announced length), consumed
	wr: bool,
	wfty: i64,
	wflen: u64,
	wc: u64,
	maxpeak: u64,
	reads: u64,
	hp: u64,
	hl: u64,
	seeds: u64,
	seeds_ok: u64,
}

pub fn clamp(x: u64) -> u64 {
	x.min(2_000_000_000)
}

pub fn begin_event(space: &Space, idx: usize, c: &Case) -> Value {
	let name = space.targets[c.target].name;
	let fr = first_frame(c, name == "Codec::read");
	json!({"k": "Begin", "i": idx, "dec": name, "rd": c.rd.name(), "ver": c.ver, "ct": c.ct.name(),
		"stream": space.targets[c.target].kind == TKind::Stream, "len": c.bytes.len(),
		"fty": fr.map(|f| f.0 as i64).unwrap_or(-1), "flen": fr.map(|f| clamp(f.1)).unwrap_or(0)})
}

/// the `Get*Segment` requests admitted during the call: kind, identifier height, bytes of the response body
pub fn served_json(sv: &[crate::serve::Served]) -> Value {
	Value::Array(sv.iter().map(|(k, h, n)| json!({"kind": k, "h": h, "resp": clamp(*n)})).collect())
}

fn flush_sums(space: &Space, w: &mut Nd, sums: &mut BTreeMap<(usize, &'static str, u32, &'static str), Sum>) {
	for ((t, rd, ver, ct), s) in std::mem::take(sums) {
		w.put(&json!({"k": "Sum", "dec": space.targets[t].name, "rd": rd, "ver": ver, "ct": ct, "n": s.n, "ok": s.ok, "err": s.err,
			"post_ok": s.post_ok, "bytes": s.bytes, "reads": clamp(s.reads), "maxpeak": clamp(s.maxpeak), "wp": clamp(s.wp), "wl": s.wl, "wr": s.wr, "wfty": s.wfty, "wflen": clamp(s.wflen), "wc": clamp(s.wc), "hp": clamp(s.hp), "hl": s.hl, "seeds": s.seeds, "seeds_ok": s.seeds_ok}));
	}
	let counts = steps::take_counts();
	if !counts.is_empty() {
		let m: serde_json::Map<String, Value> = counts.iter().map(|(k, v)| (k.to_string(), json!([v[0], v[1]]))).collect();
		w.put(&json!({"k": "Steps", "counts": m}));
	}
	w.flush();
}

/// run cases [from, to); returns process exit code
pub fn run(space: &Space, bounds: &Bounds, from: usize, to: usize, out: &str, bad_out: &str, single: bool, skip: &str) -> i32 {
	let skip: Vec<&str> = skip.split('|').filter(|x| !x.is_empty()).collect();
	let mut skipped = 0u64;
	install_panic_hook();
	alloc_track::arm();
	steps::set_announce(single);
	let mut w = Nd::create(out);
	let mut bad = Nd::create(bad_out);
	let mut sums: BTreeMap<(usize, &'static str, u32, &'static str), Sum> = BTreeMap::new();
	let mut near = 0u64;
	let mut seen_served: std::collections::BTreeSet<(&'static str, u8)> = Default::default();
	let mut seeds_failed: Vec<Value> = vec![];
	// 64-bit hashes of the non-trivial calls (see `nontrivial`), merged and de-duplicated by the parent
	let mut nt = BufWriter::new(File::create(format!("{}.nt", out)).expect("nt file"));
	for idx in from..to.min(space.descs.len()) {
		if (idx - from) % 1000 == 999 {
			nt.flush().unwrap();
			// checkpoint: a later abort / kill of this process must not lose the calls already made
			flush_sums(space, &mut w, &mut sums);
		}
		let c = space.materialize(idx);
		if !single && skip.contains(&space.targets[c.target].name) {
			skipped += 1;
			continue;
		}
		if single {
			bad.put(&case_json(space, idx, &c));
			bad.flush();
		}
		raw_stdout(&format!("B {}\n", idx));
		let o = execute(space, &c);
		let len = c.bytes.len() as u64;
		if nontrivial(space, &c, &o) {
			nt.write_all(&case_hash(&c).to_le_bytes()).unwrap();
		}
		let name = space.targets[c.target].name;
		let frame = first_frame(&c, name == "Codec::read");
		let refused = o.out == "err";
		let bound = bounds.of(name, c.ct, len, refused, frame, o.res.consumed);
		let stream = space.targets[c.target].kind == TKind::Stream;
		let progress_ok = !stream || o.res.reads <= len + 1;
		// a frame the header check must refuse: exactly the 11 header bytes are consumed and nothing is delivered
		let frame_ok = match (frame, bounds.frames.get(c.ct.name())) {
			(Some((ty, flen)), Some(t)) if flen > t[(ty as usize).min(t.len() - 1)].0 => o.res.consumed == 11 && o.res.reads == 0,
			_ => true,
		};
		// the first admission of every (kind, height) of a segment request is logged individually: the specification decides it
		let mut notable = false;
		for (k, h, _) in o.served.iter() {
			notable |= seen_served.insert((*k, *h));
		}
		let suspicious = o.out == "panic" || o.peak > bound || o.res.consumed > len || !progress_ok || !frame_ok;
		let is_near = !suspicious && o.peak > bound / 2;
		if suspicious || single || notable || (is_near && near < 500) {
			if is_near {
				near += 1;
			}
			w.put(&begin_event(space, idx, &c));
			w.put(&json!({"k": "End", "i": idx, "out": o.out, "consumed": clamp(o.res.consumed), "peak": clamp(o.peak),
				"reads": clamp(o.res.reads), "maxreq": clamp(o.maxreq), "note": o.note, "step": o.step, "gen": c.origin["gen"],
				"served": served_json(&o.served)}));
			w.flush();
			if (suspicious || notable) && !single {
				bad.put(&case_json(space, idx, &c));
				bad.flush();
			}
		} else {
			let s = sums.entry((c.target, c.rd.name(), c.ver, c.ct.name())).or_default();
			s.n += 1;
			if o.out == "ok" {
				s.ok += 1
			} else {
				s.err += 1
			}
			if o.res.post_ok {
				s.post_ok += 1
			}
			s.bytes += len;
			s.reads += o.res.reads;
			s.maxpeak = s.maxpeak.max(o.peak);
			if c.origin["gen"] == "seed" {
				s.seeds += 1;
				if o.out == "ok" {
					s.seeds_ok += 1;
					if o.peak >= s.hp {
						s.hp = o.peak;
						s.hl = len;
					}
				}
			}
			let pm = if bound == 0 { 0 } else { o.peak * 1000 / bound };
			if pm >= s.worst_permille {
				s.worst_permille = pm;
				s.wp = o.peak;
				s.wl = len;
				s.wr = refused;
				s.wfty = frame.map(|f| f.0 as i64).unwrap_or(-1);
				s.wflen = frame.map(|f| f.1).unwrap_or(0);
				s.wc = o.res.consumed;
			}
		}
		if c.expect_ok && o.out != "ok" || c.expect_post && !o.res.post_ok {
			seeds_failed.push(json!({"i": idx, "dec": space.targets[c.target].name, "label": c.origin["seed"], "ver": c.ver,
				"rd": c.rd.name(), "out": o.out, "post_ok": o.res.post_ok}));
		}
	}
	flush_sums(space, &mut w, &mut sums);
	if skipped > 0 {
		w.put(&json!({"k": "Skipped", "n": skipped}));
	}
	if !seeds_failed.is_empty() {
		w.put(&json!({"k": "SeedsFailed", "list": seeds_failed}));
	}
	w.flush();
	bad.flush();
	nt.flush().unwrap();
	raw_stdout("D\n");
	0
}
