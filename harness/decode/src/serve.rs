//! The serving side of `Get{OutputBitmap,Output,RangeProof,Kernel}Segment`.
//!
//! The admission of a request (which identifier heights are answered at all) is decided by the REAL text of
//! `NetToChainAdapter::get_*_segment` and of the four `*_SEGMENT_HEIGHT_RANGE` constants, copied by build.rs out of
//! servers/src/common/adapters.rs of the tree under test and compiled here (OUT_DIR/serve_extracted.rs).
//! HARNESS GLUE (not grin code): `ServeNode` stands in for the adapter's `self` (`chain()`), `FakeSegmenter` for
//! `chain::Segmenter` - it cuts the segment out of fixed in-memory MMRs with the same `Segment::from_pmmr` calls
//! (prunable flags included) as chain/src/txhashset/segmenter.rs.
//!
//! Every admitted request is noted (kind, identifier height, bytes of the response body the protocol would send):
//! spec/Decode.tla `ServeOK` demands that a full segment of an admitted height fits the frame limit of its response.
use crate::alloc_track;
use grin_chain as chain;
use grin_chain::txhashset::{BitmapAccumulator, BitmapChunk, BitmapSegment};
use grin_core::core::hash::{Hash, Hashed};
use grin_core::core::pmmr::segment::{Segment, SegmentIdentifier};
use grin_core::core::pmmr::{ReadablePMMR, ReadonlyPMMR, VecBackend, PMMR};
use grin_core::core::transaction::{KernelFeatures, OutputFeatures, OutputIdentifier, TxKernel};
use grin_core::core::BlockHeader;
use grin_core::ser::{self, PMMRable, ProtocolVersion};
use grin_p2p::msg::{OutputBitmapSegmentResponse, OutputSegmentResponse, SegmentResponse};
use grin_util::secp::pedersen::{Commitment, RangeProof};
use grin_util::secp::Signature;
use std::cell::RefCell;
#[allow(unused_imports)]
use std::ops::Range;
use std::sync::OnceLock;

// ---- fixtures of the serving side: real MMRs a `Get*Segment` request is answered from
pub struct Fixtures {
	pub kernels: VecBackend<TxKernel>,
	pub outputs: VecBackend<OutputIdentifier>,
	pub proofs: VecBackend<RangeProof>,
	pub bitmap: BitmapAccumulator,
	pub header: BlockHeader,
}

fn fill_backend<T: PMMRable, F: Fn(u64) -> T>(n: u64, mk: F) -> VecBackend<T> {
	let mut be: VecBackend<T> = VecBackend::new();
	{
		let mut m = PMMR::new(&mut be);
		for k in 0..n {
			m.push(&mk(k)).expect("push");
		}
	}
	be
}

pub fn fixtures() -> &'static Fixtures {
	static F: OnceLock<Fixtures> = OnceLock::new();
	F.get_or_init(|| {
		alloc_track::unmeasured(|| {
			let commit = |k: u64, t: u8| {
				let mut b = [t; 33];
				b[0] = 8 + (k & 1) as u8;
				b[1..9].copy_from_slice(&k.to_be_bytes());
				Commitment::from_vec(b.to_vec())
			};
			// the adapters serve kernel segments of height 9..14, bitmap 9..14, output 11..16, rangeproof 7..12:
			// sizes that give several segments at the lowest served height and a partial last one
			let kernels = fill_backend(1300, |k| TxKernel {
				features: KernelFeatures::Coinbase,
				excess: commit(k, 1),
				excess_sig: Signature::from_raw_data(&[7u8; 64]).expect("sig"),
			});
			let outputs = fill_backend(4500, |k| OutputIdentifier::new(OutputFeatures::Plain, &commit(k, 2)));
			let proofs = fill_backend(300, |k| {
				let mut p = [3u8; 675];
				p[..8].copy_from_slice(&k.to_be_bytes());
				RangeProof { proof: p, plen: 675 }
			});
			let mut bitmap = BitmapAccumulator::new();
			let nbits = 1300u64 * 1024 + 77;
			bitmap.init((0..nbits).filter(|i| i % 97 == 0), nbits).expect("accumulator");
			// (no nonces: the header's hash must be computable under every chain type, whatever the proof size in force)
			let mut header = BlockHeader::default();
			header.height = 1000;
			header.pow.proof.nonces = vec![];
			Fixtures { kernels, outputs, proofs, bitmap, header }
		})
	})
}

/// stands in for `NetToChainAdapter` in the extracted text: `self.chain().segmenter()?`
pub struct ServeNode {
	f: &'static Fixtures,
}

struct FakeSegmenter {
	f: &'static Fixtures,
}

#[allow(dead_code)]
impl ServeNode {
	fn chain(&self) -> &ServeNode {
		self
	}
	fn segmenter(&self) -> Result<FakeSegmenter, chain::Error> {
		Ok(FakeSegmenter { f: self.f })
	}
}

#[allow(dead_code)]
impl FakeSegmenter {
	fn header(&self) -> &BlockHeader {
		&self.f.header
	}
	fn kernel_segment(&self, id: SegmentIdentifier) -> Result<Segment<TxKernel>, chain::Error> {
		let ro = ReadonlyPMMR::at(&self.f.kernels, self.f.kernels.size());
		Ok(Segment::from_pmmr(id, &ro, false)?)
	}
	fn bitmap_segment(&self, id: SegmentIdentifier) -> Result<(Segment<BitmapChunk>, Hash), chain::Error> {
		let ro = self.f.bitmap.readonly_pmmr();
		let segment = Segment::from_pmmr(id, &ro, false)?;
		let out = ReadonlyPMMR::at(&self.f.outputs, self.f.outputs.size());
		let output_root = out.root().map_err(&chain::Error::TxHashSetErr)?;
		Ok((segment, output_root))
	}
	fn output_segment(&self, id: SegmentIdentifier) -> Result<(Segment<OutputIdentifier>, Hash), chain::Error> {
		let ro = ReadonlyPMMR::at(&self.f.outputs, self.f.outputs.size());
		let segment = Segment::from_pmmr(id, &ro, true)?;
		let bitmap_root = self.f.bitmap.readonly_pmmr().root().map_err(&chain::Error::TxHashSetErr)?;
		Ok((segment, bitmap_root))
	}
	fn rangeproof_segment(&self, id: SegmentIdentifier) -> Result<Segment<RangeProof>, chain::Error> {
		let ro = ReadonlyPMMR::at(&self.f.proofs, self.f.proofs.size());
		Ok(Segment::from_pmmr(id, &ro, true)?)
	}
}

include!(concat!(env!("OUT_DIR"), "/serve_extracted.rs"));

/// (kind, identifier height, bytes of the response body)
pub type Served = (&'static str, u8, u64);

thread_local! {
	static SERVED: RefCell<Vec<Served>> = const { RefCell::new(Vec::new()) };
}

/// before each case
pub fn reset() {
	SERVED.with(|s| s.borrow_mut().clear());
}
/// the requests admitted during the case in progress
pub fn take() -> Vec<Served> {
	SERVED.with(|s| std::mem::take(&mut *s.borrow_mut()))
}
fn note(kind: &'static str, h: u8, len: u64) {
	SERVED.with(|s| {
		let mut s = s.borrow_mut();
		if s.len() < 64 {
			s.push((kind, h, len));
		}
	});
}

/// What `Protocol::consume` does with the four request types: ask the adapter, and build the response message body
/// (p2p/src/protocol.rs).  The fixtures' header is the one asked for (its hash is public knowledge of any peer).
/// Returns the response bodies (for the "big segment" inputs) when `keep` is set.
pub fn serve_all(id: SegmentIdentifier, ver: u32, keep: bool) -> (bool, Vec<(&'static str, Vec<u8>)>) {
	let node = ServeNode { f: fixtures() };
	let block_hash = node.f.header.hash();
	let mut any = false;
	let mut kept = vec![];
	let mut done = |kind: &'static str, h: u8, body: Vec<u8>| {
		note(kind, h, body.len() as u64);
		if keep {
			kept.push((kind, body));
		}
	};
	if let Ok(segment) = node.get_kernel_segment(block_hash, id) {
		any = true;
		let r = SegmentResponse { block_hash, segment };
		done("kernel", id.height, ser::ser_vec(&r, ProtocolVersion(ver)).unwrap_or_default());
	}
	if let Ok((segment, output_root)) = node.get_bitmap_segment(block_hash, id) {
		any = true;
		let segment: BitmapSegment = segment.into();
		// (the conversion back is what the receiving side does first)
		let _ = segment.clone().into_segment().is_ok();
		let r = OutputBitmapSegmentResponse { block_hash, segment, output_root };
		done("bitmap", id.height, ser::ser_vec(&r, ProtocolVersion(ver)).unwrap_or_default());
	}
	if let Ok((segment, output_bitmap_root)) = node.get_output_segment(block_hash, id) {
		any = true;
		let r = OutputSegmentResponse {
			response: SegmentResponse { block_hash, segment },
			output_bitmap_root,
		};
		done("output", id.height, ser::ser_vec(&r, ProtocolVersion(ver)).unwrap_or_default());
	}
	if let Ok(segment) = node.get_rangeproof_segment(block_hash, id) {
		any = true;
		let r = SegmentResponse { block_hash, segment };
		done("rangeproof", id.height, ser::ser_vec(&r, ProtocolVersion(ver)).unwrap_or_default());
	}
	(any, kept)
}

/// roots and sizes of the fixture MMRs (check parameters of the big segments cut from them)
pub fn fixture_env(kind: &str) -> (u64, Hash) {
	let f = fixtures();
	match kind {
		"kernel" => {
			let ro = ReadonlyPMMR::at(&f.kernels, f.kernels.size());
			(f.kernels.size(), ro.root().expect("root"))
		}
		"output" => {
			let ro = ReadonlyPMMR::at(&f.outputs, f.outputs.size());
			(f.outputs.size(), ro.root().expect("root"))
		}
		"rangeproof" => {
			let ro = ReadonlyPMMR::at(&f.proofs, f.proofs.size());
			(f.proofs.size(), ro.root().expect("root"))
		}
		_ => {
			let ro = f.bitmap.readonly_pmmr();
			(ro.unpruned_size(), ro.root().expect("root"))
		}
	}
}

/// lowest identifier height admitted for a kind of segment (the real constant)
pub fn lowest_height(kind: &str) -> u8 {
	match kind {
		"kernel" => KERNEL_SEGMENT_HEIGHT_RANGE.start,
		"bitmap" => BITMAP_SEGMENT_HEIGHT_RANGE.start,
		"output" => OUTPUT_SEGMENT_HEIGHT_RANGE.start,
		_ => RANGEPROOF_SEGMENT_HEIGHT_RANGE.start,
	}
}
