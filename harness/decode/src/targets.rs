//! Registry of the decoders under test ("targets") and of the stateless checks run on what they return.
use crate::alloc_track;
use crate::steps::st;
use bytes::{Buf, Bytes};
use chrono::Utc;
use croaring::Bitmap;
use grin_chain::txhashset::{BitmapAccumulator, BitmapChunk, BitmapSegment};
use grin_core::core::hash::{Hash, Hashed};
use grin_core::core::merkle_proof::MerkleProof;
use grin_core::core::pmmr::segment::{Segment, SegmentIdentifier, SegmentProof};
use grin_core::core::pmmr;
use grin_core::core::transaction::{
	CommitWrapper, Input, Inputs, KernelFeatures, Output, OutputFeatures, OutputIdentifier, Transaction, TransactionBody, TxKernel,
	Weighting,
};
use grin_core::core::{
	Block, BlockHeader, CompactBlock, ShortId, UntrustedBlock, UntrustedBlockHeader, UntrustedCompactBlock,
};
use grin_core::pow::{Proof, ProofOfWork};
use grin_core::ser::{self, BufReader, DeserializationMode, PMMRIndexHashable, ProtocolVersion, Readable};
use grin_keychain::BlindingFactor;
use grin_p2p::msg::{
	self, BanReason, GetPeerAddrs, Hand, Locator, Message, MsgHeaderWrapper, OutputBitmapSegmentResponse,
	OutputSegmentResponse, PeerAddrs, PeerError, Ping, Pong, SegmentRequest, SegmentResponse, Shake, TxHashSetArchive,
	TxHashSetRequest, Type,
};
use grin_p2p::types::{AttachmentMeta, PeerAddr};
use grin_p2p::verif_export::Codec;
use grin_util::secp::pedersen::{Commitment, RangeProof};
use grin_util::ToHex;
use std::collections::HashSet;
use std::io::Write;
use std::net::{Shutdown, TcpListener, TcpStream};
use std::path::PathBuf;
use std::sync::{Arc, Mutex, OnceLock};

#[derive(Clone, Copy, PartialEq, Eq, Debug)]
pub enum Rd {
	/// `ser::deserialize` = BinReader over a byte slice (handshake bodies, hex API inputs, store)
	Bin,
	/// `BufReader::body` over `Bytes` (every message body decoded by the p2p codec)
	Buf,
}

impl Rd {
	pub fn name(self) -> &'static str {
		match self {
			Rd::Bin => "bin",
			Rd::Buf => "buf",
		}
	}
	pub fn parse(s: &str) -> Rd {
		if s == "buf" {
			Rd::Buf
		} else {
			Rd::Bin
		}
	}
}

pub struct CaseIn<'a> {
	pub bytes: &'a [u8],
	pub ver: u32,
	pub rd: Rd,
	/// parameters of the stateless checks (MMR size, bitmap shape ...), see `SegEnv`
	pub aux: u64,
	/// expected root || other root for the seed segments (so that `validate` reaches its Ok path)
	pub ctx: Option<&'a [u8]>,
}

#[derive(Default, Debug)]
pub struct Res {
	pub ok: bool,
	pub consumed: u64,
	/// stream targets: number of successful `Codec::read` calls
	pub reads: u64,
	/// the stateless checks all returned Ok (anti-vacuity for the seeds)
	pub post_ok: bool,
}

#[derive(Clone, Copy, PartialEq, Eq)]
pub enum TKind {
	/// a `Readable`: run at protocol versions 1, 2, 3, 1000 through both readers
	Ser,
	/// takes a string (API input)
	Str,
	/// takes a byte stream (socket / `Read`)
	Stream,
}

pub struct Target {
	pub name: &'static str,
	pub kind: TKind,
	pub run: fn(&CaseIn) -> Res,
	/// the post-decode steps this target pushes a decoded value through (spec/Decode.tla `PostSteps`, same order)
	pub steps: &'static [&'static str],
}

// ---------------------------------------------------------------------------------------------------------------------
// The catalogue of post-decode steps (names = `unit` of a violation signature).  Sources: p2p/src/protocol.rs
// (`Protocol::consume`, every message type), servers/src/common/adapters.rs (NetToChainAdapter), chain/src/pipe.rs
// (validate_header / validate_block up to the first store access), chain/src/txhashset/desegmenter.rs (add_*_segment,
// apply_bitmap_segment), pool/src/transaction_pool.rs (add_to_pool up to the first chain access), p2p/src/handshake.rs,
// api/src/handlers (hex arguments -> Commitment / Hash, pool push).
pub const S_ID_ARITH: &str = "SegmentIdentifier::arith";
pub const S_SEG_RANGE: &str = "Segment::segment_pos_range";
pub const S_SEG_ROOT: &str = "Segment::root";
pub const S_SEG_FUP: &str = "Segment::first_unpruned_parent";
pub const S_SEG_VALIDATE: &str = "Segment::validate";
pub const S_SEG_VALIDATE_WITH: &str = "Segment::validate_with";
pub const S_SEG_ACC: &str = "Segment::accessors";
pub const S_SEG_PARTS: &str = "Segment::parts";
pub const S_BM_INTO: &str = "BitmapSegment::into_segment";
pub const S_BM_APPEND: &str = "BitmapAccumulator::append_chunk";
pub const S_BM_FROM: &str = "BitmapSegment::from<Segment>";
pub const S_FROM_PMMR: &str = "Segment::from_pmmr";
pub const S_TX_VREAD: &str = "Transaction::validate_read";
pub const S_TX_HASH: &str = "Transaction::hash";
pub const S_TX_FEES: &str = "Transaction::fees";
pub const S_INPUTS: &str = "Inputs::conversions";
pub const S_KERN_VERIFY: &str = "TxKernel::verify";
pub const S_KERN_ACC: &str = "TxKernel::accessors";
pub const S_TX_VALIDATE: &str = "Transaction::validate";
pub const S_BODY_VREAD: &str = "TransactionBody::validate_read";
pub const S_UB_INTO: &str = "UntrustedBlock::into<Block>";
pub const S_BLK_VREAD: &str = "Block::validate_read";
pub const S_BLK_HASH: &str = "Block::hash";
pub const S_HDR_ACC: &str = "BlockHeader::accessors";
pub const S_POW_DIFF: &str = "ProofOfWork::to_difficulty";
pub const S_BLK_FEES: &str = "Block::total_fees";
pub const S_BLK_COINBASE: &str = "Block::verify_coinbase";
pub const S_BLK_VALIDATE: &str = "Block::validate";
pub const S_CB_FROM: &str = "CompactBlock::from<Block>";
pub const S_UCB_INTO: &str = "UntrustedCompactBlock::into<CompactBlock>";
pub const S_CB_ACC: &str = "CompactBlock::accessors";
pub const S_HYDRATE: &str = "Block::hydrate_from";
pub const S_UH_INTO: &str = "UntrustedBlockHeader::into<BlockHeader>";
pub const S_MP_VERIFY: &str = "MerkleProof::verify";
pub const S_MP_HEX: &str = "MerkleProof::to_hex";
pub const S_SP_RECON: &str = "SegmentProof::reconstruct_root";
pub const S_SP_VALIDATE: &str = "SegmentProof::validate";
pub const S_SP_VALIDATE_WITH: &str = "SegmentProof::validate_with";
pub const S_ADDRS: &str = "PeerAddrs::accessors";
pub const S_ADDR_KEY: &str = "PeerAddr::as_key";
pub const S_HAND: &str = "Hand::accessors";
pub const S_SHAKE: &str = "Shake::accessors";
pub const S_LOCATOR: &str = "Locator::accessors";
pub const S_ARCHIVE: &str = "TxHashSetArchive::attachment_meta";
pub const S_COMMIT_FROM: &str = "Commitment::from_vec";
pub const S_HASH_FROM: &str = "Hash::from_vec";
pub const S_MSG_FMT: &str = "Message::fmt";
pub const S_HOOK: &str = "hooks::webhook_payload";
pub const S_STRATUM: &str = "stratum::handle_submit";

const ST_SEG: &[&str] = &[S_ID_ARITH, S_SEG_RANGE, S_SEG_ROOT, S_SEG_FUP, S_SEG_VALIDATE, S_SEG_VALIDATE_WITH, S_SEG_ACC, S_SEG_PARTS];
const ST_BITMAP: &[&str] = &[
	S_BM_INTO, S_ID_ARITH, S_SEG_RANGE, S_SEG_ROOT, S_SEG_FUP, S_SEG_VALIDATE, S_SEG_VALIDATE_WITH, S_SEG_ACC, S_SEG_PARTS, S_BM_APPEND, S_BM_FROM,
];
const ST_SEGREQ: &[&str] = &[S_ID_ARITH, S_FROM_PMMR];
const ST_TX: &[&str] = &[S_TX_VREAD, S_TX_HASH, S_HOOK, S_TX_FEES, S_INPUTS, S_KERN_VERIFY, S_TX_VALIDATE];
const ST_BODY: &[&str] = &[S_BODY_VREAD];
const ST_KERNEL: &[&str] = &[S_KERN_VERIFY, S_KERN_ACC];
const ST_HEADER: &[&str] = &[S_HDR_ACC, S_POW_DIFF, S_HOOK];
const ST_UHEADER: &[&str] = &[S_UH_INTO, S_HDR_ACC, S_POW_DIFF, S_HOOK];
const ST_BLOCK: &[&str] = &[S_BLK_VREAD, S_BLK_HASH, S_HDR_ACC, S_POW_DIFF, S_BLK_FEES, S_INPUTS, S_BLK_COINBASE, S_BLK_VALIDATE, S_CB_FROM];
const ST_UBLOCK: &[&str] = &[
	S_UB_INTO, S_BLK_VREAD, S_BLK_HASH, S_HDR_ACC, S_POW_DIFF, S_BLK_FEES, S_INPUTS, S_BLK_COINBASE, S_BLK_VALIDATE, S_CB_FROM,
];
const ST_CB: &[&str] = &[S_CB_ACC, S_HDR_ACC, S_POW_DIFF, S_HYDRATE, S_HOOK, S_BLK_VALIDATE];
const ST_UCB: &[&str] = &[S_UCB_INTO, S_CB_ACC, S_HDR_ACC, S_POW_DIFF, S_HYDRATE, S_HOOK, S_BLK_VALIDATE];
const ST_MERKLE: &[&str] = &[S_MP_VERIFY, S_MP_HEX];
const ST_SEGPROOF: &[&str] = &[S_SP_RECON, S_SP_VALIDATE, S_SP_VALIDATE_WITH];
const ST_HEX: &[&str] = &[S_COMMIT_FROM, S_HASH_FROM];
const ST_PUSH: &[&str] = &[S_TX_VREAD, S_TX_HASH, S_HOOK, S_TX_FEES, S_INPUTS, S_KERN_VERIFY, S_TX_VALIDATE];
/// `Protocol::consume` dispatches on the message type: the union of the above
const ST_CODEC: &[&str] = &[
	S_MSG_FMT, S_TX_VREAD, S_TX_HASH, S_HOOK, S_TX_FEES, S_INPUTS, S_KERN_VERIFY, S_TX_VALIDATE, S_UB_INTO, S_BLK_VREAD, S_BLK_HASH, S_HDR_ACC, S_POW_DIFF,
	S_BLK_FEES, S_BLK_COINBASE, S_BLK_VALIDATE, S_CB_FROM, S_UCB_INTO, S_CB_ACC, S_HYDRATE, S_UH_INTO, S_LOCATOR, S_ADDRS, S_ARCHIVE, S_ID_ARITH,
	S_FROM_PMMR, S_BM_INTO, S_SEG_RANGE, S_SEG_ROOT, S_SEG_FUP, S_SEG_VALIDATE, S_SEG_VALIDATE_WITH, S_SEG_ACC, S_SEG_PARTS, S_BM_APPEND, S_BM_FROM,
];

const A_EXPLICIT: u64 = 1 << 63;
pub const AUX_BITMAP: u64 = 1 << 32;
/// stream inputs: the peer does not close its side after the input (it stays connected and silent)
pub const AUX_SILENT: u64 = 1 << 62;

/// explicit MMR size (seeds): the size is in the low 32 bits
pub fn aux_explicit(mmr_size: u64, bitmap: bool) -> u64 {
	A_EXPLICIT | mmr_size | if bitmap { AUX_BITMAP } else { 0 }
}

struct SegEnv {
	mmr_size: u64,
	bitmap: Option<Bitmap>,
	root: Hash,
	other: Hash,
	last_pos: u64,
}

fn h_of(aux: u64, k: u8) -> Hash {
	let mut b = [k; 32];
	b[..8].copy_from_slice(&aux.to_be_bytes());
	Hash::from_vec(&b)
}

/// The header-side parameters of a segment validation.  MMR sizes are sizes of real MMRs (1..=3000 leaves, as a
/// validated header would carry), never arbitrary numbers: the loop in `Segment::root` is linear in the size.
fn seg_env(c: &CaseIn) -> SegEnv {
	let aux = c.aux;
	let mmr_size = if aux & A_EXPLICIT != 0 {
		(aux & 0xffff_ffff).max(1)
	} else {
		pmmr::insertion_to_pmmr_index(1 + (aux & 0xffff) % 3000)
	};
	let n_leaves = pmmr::n_leaves(mmr_size);
	let bitmap = if aux & AUX_BITMAP != 0 {
		let mut b = Bitmap::new();
		let pat = (aux >> 33) & 3;
		let mut x = aux | 1;
		for i in 0..n_leaves {
			let set = match pat {
				0 => true,
				1 => i % 2 == 0,
				2 => i >= n_leaves / 2,
				_ => {
					x = x.wrapping_mul(6364136223846793005).wrapping_add(1442695040888963407);
					(x >> 60) & 1 == 1
				}
			};
			if set {
				b.add(i as u32);
			}
		}
		Some(b)
	} else {
		None
	};
	let (root, other) = match c.ctx {
		Some(x) if x.len() >= 64 => (Hash::from_vec(&x[..32]), Hash::from_vec(&x[32..64])),
		_ => (h_of(aux, 1), h_of(aux, 2)),
	};
	SegEnv {
		mmr_size,
		bitmap,
		root,
		other,
		last_pos: mmr_size + 7,
	}
}

/// identifier arithmetic used by every handler of a received / requested segment
fn ident_arith(id: SegmentIdentifier, mmr_size: u64) -> bool {
	st(S_ID_ARITH, || {
		let cap = id.segment_capacity();
		let (first, last) = id.segment_pos_range(mmr_size);
		cap > 0 && first <= last
	})
}

/// `Segment::validate` / `validate_with` / `root` / `first_unpruned_parent` the way the desegmenter calls them
/// (add_bitmap_segment: validate_with(.., None, .., true); add_output_segment: validate_with(.., bitmap, .., false);
/// add_rangeproof_segment: validate(.., bitmap, ..); add_kernel_segment: validate(.., None, ..)), then the accessors
/// the adapters and `apply_*_segment` use.
fn seg_checks<T: PMMRIndexHashable + Clone>(s: &Segment<T>, c: &CaseIn) -> bool {
	let e = seg_env(c);
	let bm = e.bitmap.as_ref();
	ident_arith(s.identifier(), e.mmr_size);
	st(S_SEG_RANGE, || {
		let (a, b) = s.segment_pos_range(e.mmr_size);
		a <= b
	});
	let r = st(S_SEG_ROOT, || s.root(e.mmr_size, bm).is_ok());
	if bm.is_some() || r {
		// (without a bitmap `first_unpruned_parent` is only reached after `root` returned a hash)
		st(S_SEG_FUP, || s.first_unpruned_parent(e.mmr_size, bm).is_ok());
	}
	let v1 = st(S_SEG_VALIDATE, || s.validate(e.mmr_size, bm, e.root).is_ok());
	let v2 = st(S_SEG_VALIDATE_WITH, || {
		let a = s.validate_with(e.mmr_size, bm, e.root, e.last_pos, e.other, true).is_ok();
		let b = s.validate_with(e.mmr_size, bm, e.root, e.last_pos, e.other, false).is_ok();
		a || b
	});
	st(S_SEG_ACC, || {
		let n = s.leaf_iter().count() + s.hash_iter().count() + s.proof().size();
		let _ = (s.id(), s.identifier().idx);
		n > 0
	});
	st(S_SEG_PARTS, || {
		let (_id, hash_pos, hashes, leaf_pos, leaf_data, _proof) = s.clone().parts();
		hash_pos.len() == hashes.len() && leaf_pos.len() == leaf_data.len()
	});
	v1 || v2
}

/// `Get{OutputBitmap,Output,RangeProof,Kernel}Segment`: the adapter admits the identifier's height (the real text of
/// `NetToChainAdapter::get_*_segment`, see serve.rs), the segmenter cuts the segment out of the PMMR
/// (`Segment::from_pmmr`), the bitmap segment is converted for the wire and the response body is serialised.  Every
/// admitted request is noted for the specification's `ServeOK`.
fn serve_segment_request(id: SegmentIdentifier, c: &CaseIn) -> bool {
	ident_arith(id, pmmr::insertion_to_pmmr_index(1 + (c.aux & 0xffff) % 3000));
	st(S_FROM_PMMR, || {
		// the response is built by design: its memory is not charged to the decoding of the 41-byte request (its size is
		// noted instead)
		alloc_track::unmeasured(|| crate::serve::serve_all(id, c.ver, false).0)
	})
}

fn pv(c: &CaseIn) -> ProtocolVersion {
	ProtocolVersion(c.ver)
}

/// decode a `Readable` through the reader named by the case, then run `post` on the value
fn de<T: Readable, P: FnOnce(T, &CaseIn) -> bool>(c: &CaseIn, post: P) -> Res {
	match c.rd {
		Rd::Bin => {
			let mut s = c.bytes;
			alloc_track::begin();
			let r = ser::deserialize::<T, _>(&mut s, pv(c), DeserializationMode::default());
			let consumed = (c.bytes.len() - s.len()) as u64;
			match r {
				Ok(v) => Res {
					ok: true,
					consumed,
					reads: 0,
					post_ok: post(v, c),
				},
				Err(_) => Res {
					ok: false,
					consumed,
					..Default::default()
				},
			}
		}
		Rd::Buf => {
			let mut b = Bytes::copy_from_slice(c.bytes);
			alloc_track::begin();
			let (r, n) = {
				let mut rdr = BufReader::new(&mut b, pv(c));
				let r: Result<T, ser::Error> = rdr.body();
				(r, rdr.bytes_read())
			};
			let consumed = n.max((c.bytes.len() - b.remaining()) as u64);
			match r {
				Ok(v) => Res {
					ok: true,
					consumed,
					reads: 0,
					post_ok: post(v, c),
				},
				Err(_) => Res {
					ok: false,
					consumed,
					..Default::default()
				},
			}
		}
	}
}

fn none<T>(_: T, _: &CaseIn) -> bool {
	true
}

/// servers/src/common/hooks.rs `WebHook::on_*_received`: json!({"hash": .., "peer": .., "data": value}) serialised to the
/// request body (the serde impls of the core types applied to a value that has not been validated yet).  The payload is
/// built by design, several times the size of the value: its memory is not charged to the decoding.
fn webhook_payload<T: serde::Serialize>(hash: Hash, data: &T) -> bool {
	st(S_HOOK, || {
		alloc_track::unmeasured(|| {
			let payload = serde_json::json!({"hash": hash.to_hex(), "peer": "10.0.0.1:3414", "data": data});
			!payload.to_string().is_empty()
		})
	})
}

fn inputs_conv(i: Inputs) -> bool {
	st(S_INPUTS, || {
		let n = i.len();
		let w: Vec<CommitWrapper> = (&i).into();
		let _ = (i.is_empty(), i.version_str());
		let back = Inputs::from(&w[..]);
		w.len() == n && back.len() == n
	})
}

/// adapters::transaction_received -> TransactionPool::add_to_pool up to the first chain access (is_acceptable's fee
/// arithmetic, `tx.validate(Weighting::AsTransaction)`); api pool push logs hash and counts first
fn post_tx(tx: Transaction, _: &CaseIn) -> bool {
	let a = st(S_TX_VREAD, || {
		let a = tx.validate_read().is_ok();
		let _ = tx.body.validate_read(Weighting::AsTransaction);
		a
	});
	st(S_TX_HASH, || {
		let _ = tx.hash();
		tx.inputs().len() + tx.outputs().len() + tx.kernels().len() > 0
	});
	webhook_payload(tx.hash(), &tx);
	st(S_TX_FEES, || {
		// (is_acceptable: shifted_fee < accept_fee; `fee_rate` = fee / weight is only taken of pool entries, which have
		// passed `validate` and therefore carry a kernel: see the validate step)
		let _ = (tx.fee(), tx.shifted_fee(), tx.accept_fee(), tx.weight(), tx.overage(), tx.body.fee_shift());
		tx.aggregate_fee_fields().is_ok()
	});
	inputs_conv(tx.inputs());
	st(S_KERN_VERIFY, || tx.kernels().iter().take(4).all(|k| k.verify().is_ok()));
	st(S_TX_VALIDATE, || {
		let ok = tx.validate(Weighting::AsTransaction).is_ok();
		if ok {
			// what the pool computes of an admitted entry (Bucket::new)
			let _ = tx.fee_rate();
		}
		ok
	});
	a
}
fn post_body(b: TransactionBody, _: &CaseIn) -> bool {
	st(S_BODY_VREAD, || {
		let a = b.validate_read(Weighting::AsBlock).is_ok();
		let _ = b.validate_read(Weighting::AsTransaction);
		let _ = b.validate_read(Weighting::NoLimit);
		a
	})
}
/// chain::pipe::validate_header up to the first store access, and what adapters / hooks log
fn header_steps(h: &BlockHeader) -> bool {
	st(S_HDR_ACC, || {
		let _ = (h.hash(), h.total_difficulty(), h.overage(), h.total_overage(true), h.total_overage(false), h.total_kernel_offset());
		let _ = (h.output_mmr_count(), h.kernel_mmr_count(), h.pre_pow().len());
		true
	});
	st(S_POW_DIFF, || {
		let _ = (h.pow.is_primary(), h.pow.is_secondary(), h.pow.edge_bits());
		h.pow.to_difficulty(h.height).to_num() > 0
	})
}
/// adapters::block_received (log line), pipe::process_block -> validate_block = `Block::validate`, broadcast conversion
fn post_block(b: Block, _: &CaseIn) -> bool {
	let a = st(S_BLK_VREAD, || b.validate_read().is_ok());
	st(S_BLK_HASH, || {
		let _ = b.hash();
		b.inputs().len() + b.outputs().len() + b.kernels().len() > 0
	});
	header_steps(&b.header);
	st(S_BLK_FEES, || b.total_fees() > 0);
	inputs_conv(b.inputs());
	st(S_BLK_COINBASE, || b.verify_coinbase().is_ok());
	st(S_BLK_VALIDATE, || b.validate(&BlindingFactor::zero()).is_ok());
	st(S_CB_FROM, || {
		let cb: CompactBlock = b.into();
		let _ = cb.hash();
		true
	});
	a
}
fn post_ublock(b: UntrustedBlock, c: &CaseIn) -> bool {
	let mut blk = None;
	st(S_UB_INTO, || {
		blk = Some(Block::from(b));
		true
	});
	post_block(blk.expect("block"), c)
}
/// adapters::compact_block_received: log line, `Block::hydrate_from(cb, &[])`, `block.validate(prev offset)`
fn post_cb(cb: CompactBlock, _: &CaseIn) -> bool {
	st(S_CB_ACC, || {
		let _ = (cb.hash(), cb.nonce);
		cb.out_full().len() + cb.kern_full().len() + cb.kern_ids().len() > 0
	});
	header_steps(&cb.header);
	let mut blk = None;
	let a = st(S_HYDRATE, || match Block::hydrate_from(cb, &[]) {
		Ok(b) => {
			blk = Some(b);
			true
		}
		Err(_) => false,
	});
	if let Some(b) = blk {
		webhook_payload(b.header.hash(), &b);
		st(S_BLK_VALIDATE, || b.validate(&BlindingFactor::zero()).is_ok());
	}
	a
}
fn post_ucb(b: UntrustedCompactBlock, c: &CaseIn) -> bool {
	let mut cb = None;
	st(S_UCB_INTO, || {
		cb = Some(CompactBlock::from(b));
		true
	});
	post_cb(cb.expect("compact block"), c)
}
fn post_uheader(h: UntrustedBlockHeader, _: &CaseIn) -> bool {
	let mut bh = None;
	st(S_UH_INTO, || {
		bh = Some(BlockHeader::from(h));
		true
	});
	let bh = bh.expect("header");
	let a = header_steps(&bh);
	webhook_payload(bh.hash(), &bh);
	a
}
fn post_kernel(k: TxKernel, _: &CaseIn) -> bool {
	let a = st(S_KERN_VERIFY, || k.verify().is_ok());
	st(S_KERN_ACC, || {
		let _ = (k.hash(), k.is_coinbase(), k.is_plain(), k.is_height_locked(), k.is_nrd());
		k.msg_to_sign().is_ok()
	});
	a
}
fn post_merkle(p: MerkleProof, c: &CaseIn) -> bool {
	// the proven element travels in the check parameters of the valid seed (ctx = root || other || element)
	let id = match c.ctx {
		Some(x) if x.len() > 64 => ser::deserialize_default::<OutputIdentifier, _>(&mut &x[64..]).ok(),
		_ => None,
	}
	.unwrap_or_else(|| OutputIdentifier::new(OutputFeatures::Plain, &Commitment::from_vec(vec![9u8; 33])));
	let e = seg_env(c);
	let a = st(S_MP_VERIFY, || {
		let a = p.verify(e.root, &id, c.aux & 0xfff).is_ok();
		let b = p.verify(e.root, &id, p.mmr_size.wrapping_sub(1)).is_ok();
		a || b
	});
	st(S_MP_HEX, || !p.to_hex().is_empty());
	a
}
fn post_segproof(p: SegmentProof, c: &CaseIn) -> bool {
	let e = seg_env(c);
	let last = e.mmr_size - 1;
	let first = last.saturating_sub(c.aux >> 40 & 0xff);
	st(S_SP_RECON, || p.reconstruct_root(e.mmr_size, first, last, e.other, 1 + last).is_ok());
	st(S_SP_VALIDATE, || p.validate(e.mmr_size, e.root, first, last, e.other, 1 + last).is_ok());
	st(S_SP_VALIDATE_WITH, || {
		let _ = p.size();
		p.validate_with(e.mmr_size, e.root, 0, last, e.other, 1 + last, e.last_pos, e.other, true).is_ok()
	});
	true
}
/// protocol.rs: `segment.into_segment()?` on every received OutputBitmapSegment, then Desegmenter::add_bitmap_segment
/// (validate_with), apply_bitmap_segment (append_chunk), and the serving side's conversion back
fn post_bitmap_segment(bs: BitmapSegment, c: &CaseIn) -> bool {
	let mut seg: Option<Segment<BitmapChunk>> = None;
	let conv = st(S_BM_INTO, || match bs.into_segment() {
		Ok(s) => {
			seg = Some(s);
			true
		}
		Err(_) => false,
	});
	let seg = match seg {
		Some(s) => s,
		None => return conv,
	};
	let ok = seg_checks(&seg, c);
	st(S_BM_APPEND, || {
		let mut acc = BitmapAccumulator::new();
		let (_, _, _, _, leaf_data, _) = seg.clone().parts();
		let mut all = true;
		for ch in leaf_data.into_iter().take(64) {
			all &= acc.append_chunk(ch).is_ok();
		}
		let _ = acc.as_bitmap();
		all
	});
	st(S_BM_FROM, || {
		let back = BitmapSegment::from(seg);
		back.into_segment().is_ok()
	});
	ok
}
fn post_peer_addrs(pa: PeerAddrs, _: &CaseIn) -> bool {
	st(S_ADDRS, || {
		// Peers::add_connected / peer_addrs_received: keyed by `as_key`, logged with Display
		let keys: HashSet<String> = pa.as_slice().iter().map(|a| a.as_key()).collect();
		let _ = pa.as_slice().iter().map(|a| a.to_string().len()).sum::<usize>();
		let d = pa.difference(pa.as_slice());
		let first = pa.as_slice().first().map(|a| pa.contains(a)).unwrap_or(true);
		keys.len() <= pa.as_slice().len() && d.as_slice().is_empty() && first
	})
}
fn post_locator(l: Locator, _: &CaseIn) -> bool {
	st(S_LOCATOR, || {
		let _ = l.hashes.iter().map(|h| h.to_hex().len()).sum::<usize>();
		l.hashes.len() <= 20
	})
}
fn post_archive(a: TxHashSetArchive, _: &CaseIn) -> bool {
	st(S_ARCHIVE, || archive_meta(&a).size as u64 == a.bytes)
}
fn archive_meta(a: &TxHashSetArchive) -> AttachmentMeta {
	AttachmentMeta {
		size: a.bytes as usize,
		hash: a.hash,
		height: a.height,
		start_time: Utc::now(),
		path: PathBuf::from("/nonexistent"),
	}
}
/// handshake.rs: what `Handshake::accept` / `initiate` read off a decoded Hand / Shake
fn post_hand(h: Hand, _: &CaseIn) -> bool {
	st(S_HAND, || {
		let v = std::cmp::min(h.version.value(), 1000);
		let _ = (h.capabilities.bits(), h.nonce, h.genesis.to_hex(), h.total_difficulty.to_num());
		let _ = (h.sender_addr.as_key(), h.receiver_addr.to_string(), h.user_agent.len());
		v <= 1000
	})
}
fn post_shake(s: Shake, _: &CaseIn) -> bool {
	st(S_SHAKE, || {
		let v = std::cmp::min(s.version.value(), 1000);
		let _ = (s.capabilities.bits(), s.genesis.to_hex(), s.total_difficulty.to_num(), s.user_agent.len());
		v <= 1000
	})
}

/// `Protocol::consume`: what the handler of each message type does with the decoded body before chain state
fn handle_message(m: Message, c: &CaseIn) -> bool {
	st(S_MSG_FMT, || !format!("{} {:?}", m, m).is_empty());
	match m {
		Message::Transaction(tx) | Message::StemTransaction(tx) => post_tx(tx, c),
		Message::Block(b) => post_ublock(b, c),
		Message::CompactBlock(b) => post_ucb(b, c),
		Message::Header(h) => post_uheader(h, c),
		Message::Headers(d) => d.headers.iter().all(header_steps),
		Message::GetHeaders(l) => post_locator(l, c),
		Message::PeerAddrs(p) => post_peer_addrs(p, c),
		Message::TxHashSetArchive(a) => post_archive(a, c),
		Message::GetOutputBitmapSegment(r) | Message::GetOutputSegment(r) | Message::GetRangeProofSegment(r) | Message::GetKernelSegment(r) => {
			serve_segment_request(r.identifier, c)
		}
		Message::OutputBitmapSegment(r) => post_bitmap_segment(r.segment, c),
		Message::OutputSegment(r) => seg_checks(&r.response.segment, c),
		Message::RangeProofSegment(r) => seg_checks(&r.segment, c),
		Message::KernelSegment(r) => seg_checks(&r.segment, c),
		_ => true,
	}
}

fn stream_res(ok: bool, consumed: u64, reads: u64) -> Res {
	Res {
		ok,
		consumed,
		reads,
		post_ok: ok,
	}
}

/// `Codec::read` over a loopback socket fed with the whole input followed by EOF, driven the way
/// `conn::poll` + `protocol.rs` drive it (a TxHashSetArchive message announces an attachment).
fn run_codec(c: &CaseIn) -> Res {
	static L: OnceLock<Mutex<TcpListener>> = OnceLock::new();
	let l = L
		.get_or_init(|| Mutex::new(TcpListener::bind("127.0.0.1:0").expect("bind")))
		.lock()
		.unwrap();
	let addr = l.local_addr().unwrap();
	let mut w = TcpStream::connect(addr).expect("connect");
	let (r, _) = l.accept().expect("accept");
	drop(l);
	let _ = w.set_nodelay(true);
	// small inputs fit the loopback socket buffers (the write cannot block); a large one is fed by a second thread
	// (allocation is counted per thread: the feeder's copy of the input is not charged to the decoder)
	let silent = c.aux & A_EXPLICIT == 0 && c.aux & AUX_SILENT != 0;
	let feeder = if c.bytes.len() <= 48 * 1024 {
		w.write_all(c.bytes).expect("write");
		if !silent {
			let _ = w.shutdown(Shutdown::Write);
		}
		None
	} else {
		let data = alloc_track::unmeasured(|| c.bytes.to_vec());
		let mut w2 = w.try_clone().expect("clone");
		Some(std::thread::spawn(move || {
			// (the reader may refuse the frame and go away: a failed write is not an error)
			let _ = w2.write_all(&data);
			let _ = w2.shutdown(Shutdown::Write);
		}))
	};
	alloc_track::begin();
	let mut codec = Codec::new(pv(c), r);
	let mut consumed = 0u64;
	let mut reads = 0u64;
	let mut zero_reads = 0u64;
	let mut post = true;
	let limit = c.bytes.len() as u64 + 2;
	loop {
		let (res, n) = codec.read();
		consumed += n;
		match res {
			Ok(m) => {
				reads += 1;
				if let Message::TxHashSetArchive(a) = &m {
					codec.expect_attachment(Arc::new(archive_meta(a)));
				}
				if let Message::Attachment(u, _) = &m {
					if u.read == 0 {
						// the empty attachment belongs to the archive message that announced it
						zero_reads += 1;
					}
				}
				post &= handle_message(m, c);
				if reads > 2 * limit {
					break;
				}
			}
			Err(_) => break,
		}
	}
	drop(codec);
	let _ = w.shutdown(Shutdown::Both);
	drop(w);
	if let Some(h) = feeder {
		let _ = h.join();
	}
	let mut r = stream_res(reads > 0, consumed, reads - zero_reads.min(reads));
	r.post_ok = reads > 0 && post;
	r
}

fn run_read_message<T: Readable, P: FnOnce(T, &CaseIn) -> bool>(c: &CaseIn, ty: Type, post: P) -> Res {
	let mut s = c.bytes;
	alloc_track::begin();
	let r = msg::read_message::<T, _>(&mut s, pv(c), ty);
	let consumed = (c.bytes.len() - s.len()) as u64;
	match r {
		Ok(v) => {
			let mut res = stream_res(true, consumed, 1);
			res.post_ok = post(v, c);
			res
		}
		Err(_) => stream_res(false, consumed, 0),
	}
}

fn input_str(c: &CaseIn) -> String {
	String::from_utf8_lossy(c.bytes).into_owned()
}

macro_rules! plain {
	($name:expr, $t:ty) => {
		Target {
			name: $name,
			kind: TKind::Ser,
			run: |c| de::<$t, _>(c, none),
			steps: &[],
		}
	};
}
macro_rules! with {
	($name:expr, $t:ty, $post:expr, $steps:expr) => {
		Target {
			name: $name,
			kind: TKind::Ser,
			run: |c| de::<$t, _>(c, $post),
			steps: $steps,
		}
	};
}

/// hex argument of an API handler (api/src/handlers: get_output, get_kernel, outputs_block_batch, get_header ...)
fn run_from_hex(c: &CaseIn) -> Res {
	let s = input_str(c);
	alloc_track::begin();
	match grin_util::from_hex(&s) {
		Ok(v) => {
			let n = v.len();
			st(S_COMMIT_FROM, || {
				let cm = Commitment::from_vec(v.clone());
				format!("{:?}", cm).len() > 0 && n >= 33
			});
			st(S_HASH_FROM, || {
				let h = Hash::from_vec(&v);
				!h.to_hex().is_empty() && n >= 32
			});
			stream_res(true, 0, 0)
		}
		Err(_) => stream_res(false, 0, 0),
	}
}

/// api/src/handlers/pool_api.rs `update_pool`: tx_hex -> util::from_hex -> ser::deserialize::<Transaction> at
/// protocol version 1 -> log line (hash, counts) -> add_to_pool
fn run_push_tx_hex(c: &CaseIn) -> Res {
	let s = input_str(c);
	alloc_track::begin();
	let bin = match grin_util::from_hex(&s) {
		Ok(b) => b,
		Err(_) => return stream_res(false, 0, 0),
	};
	let r: Result<Transaction, ser::Error> = ser::deserialize(&mut &bin[..], ProtocolVersion(1), DeserializationMode::default());
	match r {
		Ok(tx) => {
			let mut res = stream_res(true, 0, 0);
			res.post_ok = post_tx(tx, c);
			res
		}
		Err(_) => stream_res(false, 0, 0),
	}
}

/// api/src/foreign_rpc.rs `push_transaction(tx: Transaction, fluff)`: the JSON-RPC parameter is deserialized with the
/// serde impls of the core types (hex commitments / proofs / signatures / offsets, fee fields) and handed to the pool
fn run_json_tx(c: &CaseIn) -> Res {
	let s = input_str(c);
	alloc_track::begin();
	match serde_json::from_str::<Transaction>(&s) {
		Ok(tx) => {
			let mut res = stream_res(true, 0, 0);
			res.post_ok = post_tx(tx, c);
			res
		}
		Err(_) => stream_res(false, 0, 0),
	}
}

/// servers/src/mining/stratumserver.rs: every line a miner sends is parsed as a JSON-RPC request whose `params` is a
/// free-form JSON value; "submit" hands it to `Handler::handle_submit` (real text, see stratum.rs), which rebuilds the
/// block header from the submitted nonce / edge_bits / cycle and validates the share.  The low bit of the check
/// parameter chooses whether a share can count as a full block (`process_block`, which the stand-in chain refuses).
fn run_stratum_submit(c: &CaseIn) -> Res {
	let s = input_str(c);
	alloc_track::begin();
	match serde_json::from_str::<serde_json::Value>(&s) {
		Ok(v) => {
			let mut r = stream_res(true, 0, 0);
			r.post_ok = st(S_STRATUM, || crate::stratum::submit(v, if c.aux & 1 == 0 { u64::MAX } else { 0 }));
			r
		}
		Err(_) => stream_res(false, 0, 0),
	}
}

pub fn targets() -> Vec<Target> {
	vec![
		// ---- core
		plain!("Hash::read", Hash),
		plain!("ShortId::read", ShortId),
		plain!("KernelFeatures::read", KernelFeatures),
		with!("TxKernel::read", TxKernel, post_kernel, ST_KERNEL),
		plain!("Input::read", Input),
		plain!("CommitWrapper::read", CommitWrapper),
		plain!("Output::read", Output),
		plain!("OutputIdentifier::read", OutputIdentifier),
		plain!("RangeProof::read", RangeProof),
		with!("TransactionBody::read", TransactionBody, post_body, ST_BODY),
		with!("Transaction::read", Transaction, post_tx, ST_TX),
		with!("BlockHeader::read", BlockHeader, |h, _| header_steps(&h) & webhook_payload(h.hash(), &h), ST_HEADER),
		with!("UntrustedBlockHeader::read", UntrustedBlockHeader, post_uheader, ST_UHEADER),
		with!("Block::read", Block, post_block, ST_BLOCK),
		with!("UntrustedBlock::read", UntrustedBlock, post_ublock, ST_UBLOCK),
		with!("CompactBlock::read", CompactBlock, post_cb, ST_CB),
		with!("UntrustedCompactBlock::read", UntrustedCompactBlock, post_ucb, ST_UCB),
		plain!("Proof::read", Proof),
		plain!("ProofOfWork::read", ProofOfWork),
		with!("MerkleProof::read", MerkleProof, post_merkle, ST_MERKLE),
		with!("SegmentIdentifier::read", SegmentIdentifier, |id, c| serve_segment_request(id, c), ST_SEGREQ),
		with!("SegmentProof::read", SegmentProof, post_segproof, ST_SEGPROOF),
		with!("Segment<OutputIdentifier>::read", Segment<OutputIdentifier>, |s, c| seg_checks(&s, c), ST_SEG),
		with!("Segment<RangeProof>::read", Segment<RangeProof>, |s, c| seg_checks(&s, c), ST_SEG),
		with!("Segment<TxKernel>::read", Segment<TxKernel>, |s, c| seg_checks(&s, c), ST_SEG),
		with!("BitmapSegment::read", BitmapSegment, post_bitmap_segment, ST_BITMAP),
		// ---- p2p
		plain!("MsgHeaderWrapper::read", MsgHeaderWrapper),
		with!("Hand::read", Hand, post_hand, &[S_HAND]),
		with!("Shake::read", Shake, post_shake, &[S_SHAKE]),
		plain!("Ping::read", Ping),
		plain!("Pong::read", Pong),
		plain!("GetPeerAddrs::read", GetPeerAddrs),
		with!("PeerAddrs::read", PeerAddrs, post_peer_addrs, &[S_ADDRS]),
		with!("PeerAddr::read", PeerAddr, |a, _| st(S_ADDR_KEY, || !a.as_key().is_empty() && !a.to_string().is_empty()), &[S_ADDR_KEY]),
		plain!("PeerError::read", PeerError),
		with!("Locator::read", Locator, post_locator, &[S_LOCATOR]),
		plain!("BanReason::read", BanReason),
		plain!("TxHashSetRequest::read", TxHashSetRequest),
		with!("TxHashSetArchive::read", TxHashSetArchive, post_archive, &[S_ARCHIVE]),
		with!("SegmentRequest::read", SegmentRequest, |r, c| serve_segment_request(r.identifier, c), ST_SEGREQ),
		with!("SegmentResponse<RangeProof>::read", SegmentResponse<RangeProof>, |r, c| seg_checks(&r.segment, c), ST_SEG),
		with!("SegmentResponse<TxKernel>::read", SegmentResponse<TxKernel>, |r, c| seg_checks(&r.segment, c), ST_SEG),
		with!("OutputSegmentResponse::read", OutputSegmentResponse, |r, c| seg_checks(&r.response.segment, c), ST_SEG),
		with!("OutputBitmapSegmentResponse::read", OutputBitmapSegmentResponse, |r, c| post_bitmap_segment(r.segment, c), ST_BITMAP),
		// ---- API strings
		Target {
			name: "MerkleProof::from_hex",
			kind: TKind::Str,
			run: |c| {
				let s = input_str(c);
				alloc_track::begin();
				match MerkleProof::from_hex(&s) {
					Ok(p) => {
						let mut r = stream_res(true, 0, 0);
						r.post_ok = post_merkle(p, c);
						r
					}
					Err(_) => stream_res(false, 0, 0),
				}
			},
			steps: ST_MERKLE,
		},
		Target {
			name: "util::from_hex",
			kind: TKind::Str,
			run: run_from_hex,
			steps: ST_HEX,
		},
		Target {
			name: "Hash::from_hex",
			kind: TKind::Str,
			run: |c| {
				let s = input_str(c);
				alloc_track::begin();
				stream_res(Hash::from_hex(&s).is_ok(), 0, 0)
			},
			steps: &[],
		},
		Target {
			name: "api::push_tx_hex",
			kind: TKind::Str,
			run: run_push_tx_hex,
			steps: ST_PUSH,
		},
		Target {
			name: "json::Transaction",
			kind: TKind::Str,
			run: run_json_tx,
			steps: ST_PUSH,
		},
		Target {
			name: "stratum::submit",
			kind: TKind::Str,
			run: run_stratum_submit,
			steps: &[S_STRATUM],
		},
		// ---- streams
		Target {
			name: "msg::read_message<Hand>",
			kind: TKind::Stream,
			run: |c| run_read_message::<Hand, _>(c, Type::Hand, post_hand),
			steps: &[S_HAND],
		},
		Target {
			name: "msg::read_message<Shake>",
			kind: TKind::Stream,
			run: |c| run_read_message::<Shake, _>(c, Type::Shake, post_shake),
			steps: &[S_SHAKE],
		},
		Target {
			name: "Codec::read",
			kind: TKind::Stream,
			run: run_codec,
			steps: ST_CODEC,
		},
	]
}
