//! Registry of the decoders under test ("targets") and of the stateless checks run on what they return.
use crate::alloc_track;
use bytes::{Buf, Bytes};
use chrono::Utc;
use croaring::Bitmap;
use grin_chain::txhashset::{BitmapAccumulator, BitmapChunk, BitmapSegment};
use grin_core::core::hash::{Hash, Hashed};
use grin_core::core::merkle_proof::MerkleProof;
use grin_core::core::pmmr;
use grin_core::core::pmmr::segment::{Segment, SegmentIdentifier, SegmentProof};
use grin_core::core::transaction::{
	CommitWrapper, Input, KernelFeatures, Output, OutputIdentifier, Transaction, TransactionBody, TxKernel, Weighting,
};
use grin_core::core::{
	Block, BlockHeader, CompactBlock, ShortId, UntrustedBlock, UntrustedBlockHeader, UntrustedCompactBlock,
};
use grin_core::pow::{Proof, ProofOfWork};
use grin_core::ser::{self, BufReader, DeserializationMode, PMMRIndexHashable, ProtocolVersion, Readable};
use grin_p2p::msg::{
	self, BanReason, GetPeerAddrs, Hand, Locator, Message, MsgHeaderWrapper, OutputBitmapSegmentResponse,
	OutputSegmentResponse, PeerAddrs, PeerError, Ping, Pong, SegmentRequest, SegmentResponse, Shake, TxHashSetArchive,
	TxHashSetRequest, Type,
};
use grin_p2p::types::{AttachmentMeta, PeerAddr};
use grin_p2p::verif_export::Codec;
use grin_util::secp::pedersen::RangeProof;
use std::io::Write;
use std::net::{Shutdown, TcpListener, TcpStream};
use std::path::PathBuf;
use std::sync::{Arc, Mutex, OnceLock};

#[derive(Clone, Copy, PartialEq, Eq, Debug)]
pub enum Rd {
	/// `ser::deserialize` = BinReader over a byte slice (handshake bodies, hex API inputs, store)
	Bin,
	/// `BufReader::body` over `Bytes` (every message body decoded by the p2p codec)
	Buf,
}

impl Rd {
	pub fn name(self) -> &'static str {
		match self {
			Rd::Bin => "bin",
			Rd::Buf => "buf",
		}
	}
	pub fn parse(s: &str) -> Rd {
		if s == "buf" {
			Rd::Buf
		} else {
			Rd::Bin
		}
	}
}

pub struct CaseIn<'a> {
	pub bytes: &'a [u8],
	pub ver: u32,
	pub rd: Rd,
	/// parameters of the stateless checks (MMR size, bitmap shape ...), see `SegEnv`
	pub aux: u64,
	/// expected root || other root for the seed segments (so that `validate` reaches its Ok path)
	pub ctx: Option<&'a [u8]>,
}

#[derive(Default, Debug)]
pub struct Res {
	pub ok: bool,
	pub consumed: u64,
	/// stream targets: number of successful `Codec::read` calls
	pub reads: u64,
	/// the stateless checks all returned Ok (anti-vacuity for the seeds)
	pub post_ok: bool,
}

#[derive(Clone, Copy, PartialEq, Eq)]
pub enum TKind {
	/// a `Readable`: run at protocol versions 1, 2, 3, 1000 through both readers
	Ser,
	/// takes a string (API input)
	Str,
	/// takes a byte stream (socket / `Read`)
	Stream,
}

pub struct Target {
	pub name: &'static str,
	pub kind: TKind,
	pub run: fn(&CaseIn) -> Res,
}

const A_EXPLICIT: u64 = 1 << 63;
pub const AUX_BITMAP: u64 = 1 << 32;

/// explicit MMR size (seeds): the size is in the low 32 bits
pub fn aux_explicit(mmr_size: u64, bitmap: bool) -> u64 {
	A_EXPLICIT | mmr_size | if bitmap { AUX_BITMAP } else { 0 }
}

struct SegEnv {
	mmr_size: u64,
	bitmap: Option<Bitmap>,
	root: Hash,
	other: Hash,
	last_pos: u64,
}

fn h_of(aux: u64, k: u8) -> Hash {
	let mut b = [k; 32];
	b[..8].copy_from_slice(&aux.to_be_bytes());
	Hash::from_vec(&b)
}

/// The header-side parameters of a segment validation.  MMR sizes are sizes of real MMRs (1..=3000 leaves, as a
/// validated header would carry), never arbitrary numbers: the loop in `Segment::root` is linear in the size.
fn seg_env(c: &CaseIn) -> SegEnv {
	let aux = c.aux;
	let mmr_size = if aux & A_EXPLICIT != 0 {
		(aux & 0xffff_ffff).max(1)
	} else {
		pmmr::insertion_to_pmmr_index(1 + (aux & 0xffff) % 3000)
	};
	let n_leaves = pmmr::n_leaves(mmr_size);
	let bitmap = if aux & AUX_BITMAP != 0 {
		let mut b = Bitmap::new();
		let pat = (aux >> 33) & 3;
		let mut x = aux | 1;
		for i in 0..n_leaves {
			let set = match pat {
				0 => true,
				1 => i % 2 == 0,
				2 => i >= n_leaves / 2,
				_ => {
					x = x.wrapping_mul(6364136223846793005).wrapping_add(1442695040888963407);
					(x >> 60) & 1 == 1
				}
			};
			if set {
				b.add(i as u32);
			}
		}
		Some(b)
	} else {
		None
	};
	let (root, other) = match c.ctx {
		Some(x) if x.len() >= 64 => (Hash::from_vec(&x[..32]), Hash::from_vec(&x[32..64])),
		_ => (h_of(aux, 1), h_of(aux, 2)),
	};
	SegEnv {
		mmr_size,
		bitmap,
		root,
		other,
		last_pos: mmr_size + 7,
	}
}

/// `Segment::validate` / `validate_with` / `root` / `first_unpruned_parent` the way the desegmenter calls them
fn seg_checks<T: PMMRIndexHashable>(s: &Segment<T>, c: &CaseIn, with: bool) -> bool {
	let e = seg_env(c);
	let bm = e.bitmap.as_ref();
	let _ = s.segment_pos_range(e.mmr_size);
	let r = s.root(e.mmr_size, bm).is_ok();
	if bm.is_some() || r {
		// (without a bitmap `first_unpruned_parent` is only reached after `root` returned a hash)
		let _ = s.first_unpruned_parent(e.mmr_size, bm);
	}
	let v = if with {
		s.validate_with(e.mmr_size, bm, e.root, e.last_pos, e.other, true)
	} else {
		s.validate(e.mmr_size, bm, e.root)
	};
	let _ = s.validate_with(e.mmr_size, bm, e.root, e.last_pos, e.other, false);
	let _ = s.leaf_iter().count() + s.hash_iter().count() + s.proof().size();
	let _ = s.id();
	v.is_ok()
}

fn pv(c: &CaseIn) -> ProtocolVersion {
	ProtocolVersion(c.ver)
}

/// decode a `Readable` through the reader named by the case, then run `post` on the value
fn de<T: Readable, P: FnOnce(T, &CaseIn) -> bool>(c: &CaseIn, post: P) -> Res {
	match c.rd {
		Rd::Bin => {
			let mut s = c.bytes;
			alloc_track::begin();
			let r = ser::deserialize::<T, _>(&mut s, pv(c), DeserializationMode::default());
			let consumed = (c.bytes.len() - s.len()) as u64;
			match r {
				Ok(v) => Res {
					ok: true,
					consumed,
					reads: 0,
					post_ok: post(v, c),
				},
				Err(_) => Res {
					ok: false,
					consumed,
					..Default::default()
				},
			}
		}
		Rd::Buf => {
			let mut b = Bytes::copy_from_slice(c.bytes);
			alloc_track::begin();
			let (r, n) = {
				let mut rdr = BufReader::new(&mut b, pv(c));
				let r: Result<T, ser::Error> = rdr.body();
				(r, rdr.bytes_read())
			};
			let consumed = n.max((c.bytes.len() - b.remaining()) as u64);
			match r {
				Ok(v) => Res {
					ok: true,
					consumed,
					reads: 0,
					post_ok: post(v, c),
				},
				Err(_) => Res {
					ok: false,
					consumed,
					..Default::default()
				},
			}
		}
	}
}

fn none<T>(_: T, _: &CaseIn) -> bool {
	true
}

macro_rules! plain {
	($name:expr, $t:ty) => {
		Target {
			name: $name,
			kind: TKind::Ser,
			run: |c| de::<$t, _>(c, none),
		}
	};
}

fn post_tx(tx: Transaction, _: &CaseIn) -> bool {
	let a = tx.validate_read().is_ok();
	let _ = tx.body.validate_read(Weighting::AsTransaction);
	let _ = tx.hash();
	let _ = tx.fee();
	let _ = tx.weight();
	for k in tx.kernels().iter().take(4) {
		let _ = k.verify();
	}
	a
}
fn post_body(b: TransactionBody, _: &CaseIn) -> bool {
	let a = b.validate_read(Weighting::AsBlock).is_ok();
	let _ = b.validate_read(Weighting::AsTransaction);
	let _ = b.validate_read(Weighting::NoLimit);
	a
}
fn post_block(b: Block, _: &CaseIn) -> bool {
	let a = b.validate_read().is_ok();
	let _ = b.hash();
	let _ = b.header.total_difficulty();
	let cb: CompactBlock = b.into();
	let _ = cb.hash();
	a
}
fn post_kernel(k: TxKernel, _: &CaseIn) -> bool {
	let _ = k.verify();
	let _ = k.hash();
	let _ = k.msg_to_sign();
	true
}
fn post_merkle(p: MerkleProof, c: &CaseIn) -> bool {
	let id = OutputIdentifier::new(
		grin_core::core::transaction::OutputFeatures::Plain,
		&grin_util::secp::pedersen::Commitment::from_vec(vec![9u8; 33]),
	);
	let e = seg_env(c);
	let _ = p.verify(e.root, &id, c.aux & 0xfff);
	let _ = p.verify(e.root, &id, p.mmr_size.wrapping_sub(1));
	let _ = p.to_hex();
	true
}
fn post_segproof(p: SegmentProof, c: &CaseIn) -> bool {
	let e = seg_env(c);
	let last = e.mmr_size - 1;
	let first = last.saturating_sub(c.aux >> 40 & 0xff);
	let _ = p.reconstruct_root(e.mmr_size, first, last, e.other, 1 + last);
	let _ = p.validate(e.mmr_size, e.root, first, last, e.other, 1 + last);
	let _ = p.validate_with(e.mmr_size, e.root, 0, last, e.other, 1 + last, e.last_pos, e.other, true);
	let _ = p.size();
	true
}
fn post_bitmap_segment(bs: BitmapSegment, c: &CaseIn) -> bool {
	// adapters: `segment.into()`; desegmenter: validate_with(.., None, output_root, output_mmr_size, other, true)
	let seg: Segment<BitmapChunk> = Segment::from(bs);
	let ok = seg_checks(&seg, c, true);
	// chunk application on a fresh accumulator (what apply_bitmap_segment does with the leaf data)
	let mut acc = BitmapAccumulator::new();
	let (_, _, _, _, leaf_data, _) = seg.clone().parts();
	for ch in leaf_data.into_iter().take(64) {
		let _ = acc.append_chunk(ch);
	}
	let _ = acc.as_bitmap();
	// and back (what the segmenter does before sending)
	let back = BitmapSegment::from(seg);
	let _ = back.into_segment();
	ok
}

fn stream_res(ok: bool, consumed: u64, reads: u64) -> Res {
	Res {
		ok,
		consumed,
		reads,
		post_ok: ok,
	}
}

/// `Codec::read` over a loopback socket fed with the whole input followed by EOF, driven the way
/// `conn::poll` + `protocol.rs` drive it (a TxHashSetArchive message announces an attachment).
fn run_codec(c: &CaseIn) -> Res {
	static L: OnceLock<Mutex<TcpListener>> = OnceLock::new();
	let l = L
		.get_or_init(|| Mutex::new(TcpListener::bind("127.0.0.1:0").expect("bind")))
		.lock()
		.unwrap();
	let addr = l.local_addr().unwrap();
	let mut w = TcpStream::connect(addr).expect("connect");
	let (r, _) = l.accept().expect("accept");
	drop(l);
	let _ = w.set_nodelay(true);
	// inputs are at most 64 KiB: they fit the loopback socket buffers, so the write cannot block
	w.write_all(c.bytes).expect("write");
	let _ = w.shutdown(Shutdown::Write);
	alloc_track::begin();
	let mut codec = Codec::new(pv(c), r);
	let mut consumed = 0u64;
	let mut reads = 0u64;
	let mut zero_reads = 0u64;
	let limit = c.bytes.len() as u64 + 2;
	loop {
		let (res, n) = codec.read();
		consumed += n;
		match res {
			Ok(m) => {
				reads += 1;
				if let Message::TxHashSetArchive(a) = &m {
					let meta = AttachmentMeta {
						size: a.bytes as usize,
						hash: a.hash,
						height: a.height,
						start_time: Utc::now(),
						path: PathBuf::from("/nonexistent"),
					};
					codec.expect_attachment(Arc::new(meta));
				}
				if let Message::Attachment(u, _) = &m {
					if u.read == 0 {
						// the empty attachment belongs to the archive message that announced it
						zero_reads += 1;
					}
				}
				if reads > 2 * limit {
					break;
				}
			}
			Err(_) => break,
		}
	}
	drop(codec);
	drop(w);
	stream_res(reads > 0, consumed, reads - zero_reads.min(reads))
}

fn run_read_message<T: Readable>(c: &CaseIn, ty: Type) -> Res {
	let mut s = c.bytes;
	alloc_track::begin();
	let r = msg::read_message::<T, _>(&mut s, pv(c), ty);
	stream_res(r.is_ok(), (c.bytes.len() - s.len()) as u64, r.is_ok() as u64)
}

fn input_str(c: &CaseIn) -> String {
	String::from_utf8_lossy(c.bytes).into_owned()
}

pub fn targets() -> Vec<Target> {
	vec![
		// ---- core
		plain!("Hash::read", Hash),
		plain!("ShortId::read", ShortId),
		plain!("KernelFeatures::read", KernelFeatures),
		Target {
			name: "TxKernel::read",
			kind: TKind::Ser,
			run: |c| de::<TxKernel, _>(c, post_kernel),
		},
		plain!("Input::read", Input),
		plain!("CommitWrapper::read", CommitWrapper),
		plain!("Output::read", Output),
		plain!("OutputIdentifier::read", OutputIdentifier),
		plain!("RangeProof::read", RangeProof),
		Target {
			name: "TransactionBody::read",
			kind: TKind::Ser,
			run: |c| de::<TransactionBody, _>(c, post_body),
		},
		Target {
			name: "Transaction::read",
			kind: TKind::Ser,
			run: |c| de::<Transaction, _>(c, post_tx),
		},
		Target {
			name: "BlockHeader::read",
			kind: TKind::Ser,
			run: |c| {
				de::<BlockHeader, _>(c, |h, _| {
					let _ = h.hash();
					let _ = h.pre_pow();
					true
				})
			},
		},
		Target {
			name: "UntrustedBlockHeader::read",
			kind: TKind::Ser,
			run: |c| {
				de::<UntrustedBlockHeader, _>(c, |h, _| {
					let h: BlockHeader = h.into();
					let _ = h.hash();
					true
				})
			},
		},
		Target {
			name: "Block::read",
			kind: TKind::Ser,
			run: |c| de::<Block, _>(c, post_block),
		},
		Target {
			name: "UntrustedBlock::read",
			kind: TKind::Ser,
			run: |c| de::<UntrustedBlock, _>(c, |b, c| post_block(b.into(), c)),
		},
		Target {
			name: "CompactBlock::read",
			kind: TKind::Ser,
			run: |c| {
				de::<CompactBlock, _>(c, |b, _| {
					let _ = b.hash();
					let _ = (b.out_full().len(), b.kern_full().len(), b.kern_ids().len());
					true
				})
			},
		},
		Target {
			name: "UntrustedCompactBlock::read",
			kind: TKind::Ser,
			run: |c| {
				de::<UntrustedCompactBlock, _>(c, |b, _| {
					let b: CompactBlock = b.into();
					let _ = b.hash();
					true
				})
			},
		},
		plain!("Proof::read", Proof),
		plain!("ProofOfWork::read", ProofOfWork),
		Target {
			name: "MerkleProof::read",
			kind: TKind::Ser,
			run: |c| de::<MerkleProof, _>(c, post_merkle),
		},
		plain!("SegmentIdentifier::read", SegmentIdentifier),
		Target {
			name: "SegmentProof::read",
			kind: TKind::Ser,
			run: |c| de::<SegmentProof, _>(c, post_segproof),
		},
		Target {
			name: "Segment<OutputIdentifier>::read",
			kind: TKind::Ser,
			run: |c| de::<Segment<OutputIdentifier>, _>(c, |s, c| seg_checks(&s, c, true)),
		},
		Target {
			name: "Segment<RangeProof>::read",
			kind: TKind::Ser,
			run: |c| de::<Segment<RangeProof>, _>(c, |s, c| seg_checks(&s, c, false)),
		},
		Target {
			name: "Segment<TxKernel>::read",
			kind: TKind::Ser,
			run: |c| de::<Segment<TxKernel>, _>(c, |s, c| seg_checks(&s, c, false)),
		},
		Target {
			name: "BitmapSegment::read",
			kind: TKind::Ser,
			run: |c| de::<BitmapSegment, _>(c, post_bitmap_segment),
		},
		// ---- p2p
		plain!("MsgHeaderWrapper::read", MsgHeaderWrapper),
		plain!("Hand::read", Hand),
		plain!("Shake::read", Shake),
		plain!("Ping::read", Ping),
		plain!("Pong::read", Pong),
		plain!("GetPeerAddrs::read", GetPeerAddrs),
		plain!("PeerAddrs::read", PeerAddrs),
		plain!("PeerAddr::read", PeerAddr),
		plain!("PeerError::read", PeerError),
		plain!("Locator::read", Locator),
		plain!("BanReason::read", BanReason),
		plain!("TxHashSetRequest::read", TxHashSetRequest),
		plain!("TxHashSetArchive::read", TxHashSetArchive),
		plain!("SegmentRequest::read", SegmentRequest),
		Target {
			name: "SegmentResponse<RangeProof>::read",
			kind: TKind::Ser,
			run: |c| de::<SegmentResponse<RangeProof>, _>(c, |r, c| seg_checks(&r.segment, c, false)),
		},
		Target {
			name: "SegmentResponse<TxKernel>::read",
			kind: TKind::Ser,
			run: |c| de::<SegmentResponse<TxKernel>, _>(c, |r, c| seg_checks(&r.segment, c, false)),
		},
		Target {
			name: "OutputSegmentResponse::read",
			kind: TKind::Ser,
			run: |c| de::<OutputSegmentResponse, _>(c, |r, c| seg_checks(&r.response.segment, c, true)),
		},
		Target {
			name: "OutputBitmapSegmentResponse::read",
			kind: TKind::Ser,
			run: |c| de::<OutputBitmapSegmentResponse, _>(c, |r, c| post_bitmap_segment(r.segment, c)),
		},
		// ---- API strings
		Target {
			name: "MerkleProof::from_hex",
			kind: TKind::Str,
			run: |c| {
				let s = input_str(c);
				alloc_track::begin();
				let r = MerkleProof::from_hex(&s);
				stream_res(r.is_ok(), 0, 0)
			},
		},
		Target {
			name: "util::from_hex",
			kind: TKind::Str,
			run: |c| {
				let s = input_str(c);
				alloc_track::begin();
				let r = grin_util::from_hex(&s);
				stream_res(r.is_ok(), 0, 0)
			},
		},
		// ---- streams
		Target {
			name: "msg::read_message<Hand>",
			kind: TKind::Stream,
			run: |c| run_read_message::<Hand>(c, Type::Hand),
		},
		Target {
			name: "msg::read_message<Shake>",
			kind: TKind::Stream,
			run: |c| run_read_message::<Shake>(c, Type::Shake),
		},
		Target {
			name: "Codec::read",
			kind: TKind::Stream,
			run: run_codec,
		},
	]
}
