//! A `ser::Writer` that records which primitive wrote which bytes: the concrete field map of a
//! valid encoding comes from the real encoder, not from a hand-written layout.
use grin_core::ser::{Error, ProtocolVersion, SerializationMode, Writeable, Writer};

#[derive(Clone, Debug)]
pub struct Field {
	pub off: usize,
	pub w: usize,
	/// "u8" | "u16" | "u32" | "u64" | "len" (u64 length prefix of write_bytes) | "b" (raw bytes) | "z" (reserved zero bytes)
	pub kind: &'static str,
}

pub struct FieldWriter {
	pub bytes: Vec<u8>,
	pub fields: Vec<Field>,
	ver: ProtocolVersion,
}

impl FieldWriter {
	pub fn new(ver: u32) -> FieldWriter {
		FieldWriter {
			bytes: vec![],
			fields: vec![],
			ver: ProtocolVersion(ver),
		}
	}
	fn put(&mut self, kind: &'static str, b: &[u8]) {
		if b.is_empty() {
			return;
		}
		self.fields.push(Field {
			off: self.bytes.len(),
			w: b.len(),
			kind,
		});
		self.bytes.extend_from_slice(b);
	}
}

impl Writer for FieldWriter {
	fn serialization_mode(&self) -> SerializationMode {
		SerializationMode::Full
	}
	fn protocol_version(&self) -> ProtocolVersion {
		self.ver
	}
	fn write_u8(&mut self, n: u8) -> Result<(), Error> {
		self.put("u8", &[n]);
		Ok(())
	}
	fn write_u16(&mut self, n: u16) -> Result<(), Error> {
		self.put("u16", &n.to_be_bytes());
		Ok(())
	}
	fn write_u32(&mut self, n: u32) -> Result<(), Error> {
		self.put("u32", &n.to_be_bytes());
		Ok(())
	}
	fn write_i32(&mut self, n: i32) -> Result<(), Error> {
		self.put("u32", &n.to_be_bytes());
		Ok(())
	}
	fn write_u64(&mut self, n: u64) -> Result<(), Error> {
		self.put("u64", &n.to_be_bytes());
		Ok(())
	}
	fn write_i64(&mut self, n: i64) -> Result<(), Error> {
		self.put("u64", &n.to_be_bytes());
		Ok(())
	}
	fn write_bytes<T: AsRef<[u8]>>(&mut self, bytes: T) -> Result<(), Error> {
		self.put("len", &(bytes.as_ref().len() as u64).to_be_bytes());
		self.put("b", bytes.as_ref());
		Ok(())
	}
	fn write_fixed_bytes<T: AsRef<[u8]>>(&mut self, bytes: T) -> Result<(), Error> {
		self.put("b", bytes.as_ref());
		Ok(())
	}
	fn write_empty_bytes(&mut self, length: usize) -> Result<(), Error> {
		self.put("z", &vec![0u8; length]);
		Ok(())
	}
}

/// Encode with the real `Writeable` impl, recording the field map. None if the encoder refuses
/// (e.g. commit-only inputs below protocol version 3).
pub fn encode<T: Writeable>(x: &T, ver: u32) -> Option<(Vec<u8>, Vec<Field>)> {
	let mut w = FieldWriter::new(ver);
	match x.write(&mut w) {
		Ok(()) => Some((w.bytes, w.fields)),
		Err(_) => None,
	}
}
