//! h_decode — conformance harness for property C11 (spec/Decode.tla): every decoder reachable from the network
//! or the API, fed with valid encodings under TLC-enumerated structure-aware mutations and with random bytes,
//! must return a value or an error within an allocation bound.
//!
//!   h_decode layouts --seed S --out F        abstract layouts of the seed encodings + target list (input of MC_Decode_gen)
//!   h_decode run ...                         parent: spawns workers, watchdog, restarts, merges the trace
//!   h_decode worker ...                      child: executes a range of cases
mod alloc_track;
mod cases;
mod families;
mod fieldw;
mod parent;
mod seeds;
mod serve;
mod steps;
mod stratum;
mod targets;
mod worker;

use grin_core::global::{self, ChainTypes};
use serde_json::json;
use vcommon::*;

#[global_allocator]
static ALLOC: alloc_track::Tracking = alloc_track::Tracking;

fn main() {
	let a: Vec<String> = std::env::args().skip(1).collect();
	let args = Args::parse(&a);
	global::init_global_chain_type(ChainTypes::AutomatedTesting);
	global::set_local_chain_type(ChainTypes::AutomatedTesting);
	global::init_global_nrd_enabled(true);
	let code = match args.pos.first().map(|s| s.as_str()) {
		Some("layouts") => layouts(&args),
		Some("worker") => {
			let plans = read_ndjson(args.req("plans"));
			let space = cases::Space::build(args.u64("seed", 1), args.get("tier") == Some("thorough"), &plans);
			let bounds = worker::Bounds::load(args.req("bounds"));
			if let Some(f) = args.get("case") {
				parent::run_case_file(&space, &bounds, f, args.req("out"))
			} else {
				let from = args.u64("from", 0) as usize;
				let to = args.u64("to", 0) as usize;
				worker::run(&space, &bounds, from, to, args.req("out"), args.req("bad"), args.get("single").is_some(), args.get("skip").unwrap_or(""))
			}
		}
		Some("run") => parent::run(&args),
		Some("count") => {
			let plans = read_ndjson(args.req("plans"));
			let space = cases::Space::build(args.u64("seed", 1), args.get("tier") == Some("thorough"), &plans);
			let bigs: Vec<usize> = space.descs.iter().enumerate().filter(|(_, d)| matches!(d, cases::Desc::Big { .. })).map(|(i, _)| i).collect();
			println!("{}", json!({"cases": space.descs.len(), "ops": space.ops.len(), "seeds": space.seeds.len(), "big_first": bigs.first(), "big_n": bigs.len()}));
			0
		}
		_ => {
			eprintln!("usage: h_decode layouts|run|worker ...");
			2
		}
	};
	std::process::exit(code);
}

/// One record per seed encoding: the abstract layout (field kinds and widths as written by the real encoder).
fn layouts(args: &Args) -> i32 {
	let seeds = cases::all_seeds(args.u64("seed", 1));
	let mut w = NdWriter::create(args.req("out"));
	for t in targets::targets() {
		w.put(&json!({"t": "target", "dec": t.name, "stream": t.kind == targets::TKind::Stream, "steps": t.steps}));
	}
	// families of "many valid items" encodings: the specification chooses the counts (BigCounts)
	for f in families::FAMILIES {
		let cts: Vec<&str> = f.cts.iter().map(|c| c.name()).collect();
		let lo = if f.kind == "height" { families::lo_height(f.name) } else { 0 };
		w.put(&json!({"t": "family", "fam": f.name, "kind": f.kind, "unit": f.unit, "limit": f.limit, "lo": lo, "cts": cts}));
	}
	for (i, (ct, s)) in seeds.iter().enumerate() {
		let kinds: Vec<&str> = s.fields.iter().map(|f| f.kind).collect();
		let widths: Vec<usize> = s.fields.iter().map(|f| f.w).collect();
		// 1-based field indices (TLA+ sequences) of the segment identifier and of the segment proof's hash count; 0 = none
		let (ih, ii) = s.ident.map(|(h, i)| (h + 1, i + 1)).unwrap_or((0, 0));
		// repeated groups [count field, first / last field of the first item, last field of the group]; the first block
		// header (version, height, edge_bits fields); the type of a codec seed made of exactly one frame (-1: none)
		let grp: Vec<Vec<usize>> = s.groups.iter().map(|(c, a, z, e)| vec![c + 1, a + 1, z + 1, e + 1, (*a..=*z).map(|i| s.fields[i].w).sum()]).collect();
		let (hv, hh, he) = s.hdr.map(|(v, h, e)| (v + 1, h + 1, e + 1)).unwrap_or((0, 0, 0));
		let single = s.target == "Codec::read" && s.bytes.len() >= 11 && s.fields.len() >= 4 && s.fields[3].kind == "u64"
			&& seeds::fval(s, 3) as usize == s.bytes.len() - 11;
		let fty: i64 = if single { s.bytes[2] as i64 } else { -1 };
		w.put(&json!({"t": "layout", "id": i, "dec": s.target, "ct": ct.name(), "ver": s.ver, "label": s.label, "len": s.bytes.len(),
			"kinds": kinds, "w": widths, "ih": ih, "ii": ii, "pf": s.proof.map(|j| j + 1).unwrap_or(0),
			"grp": grp, "hv": hv, "hh": hh, "he": he, "fty": fty}));
	}
	w.finish();
	0
}
