//! The case space: a deterministic list of small descriptors (same in every process for a given seed, tier and
//! plan file) and their materialisation into concrete inputs.
use crate::seeds::{self, SeedEnc, VERSIONS};
use crate::targets::{Rd, TKind, Target};
use serde_json::{json, Value};

#[derive(Clone, Copy, PartialEq, Eq, Debug)]
pub enum Ct {
	Auto,
	Main,
	Test,
}
impl Ct {
	pub fn name(self) -> &'static str {
		match self {
			Ct::Auto => "auto",
			Ct::Main => "main",
			Ct::Test => "test",
		}
	}
	pub fn parse(s: &str) -> Ct {
		match s {
			"main" => Ct::Main,
			"test" => Ct::Test,
			_ => Ct::Auto,
		}
	}
	pub fn chain_type(self) -> grin_core::global::ChainTypes {
		use grin_core::global::ChainTypes;
		match self {
			Ct::Auto => ChainTypes::AutomatedTesting,
			Ct::Main => ChainTypes::Mainnet,
			Ct::Test => ChainTypes::Testnet,
		}
	}
	pub fn magic(self) -> [u8; 2] {
		match self {
			Ct::Auto => [73, 43],
			Ct::Main => [97, 61],
			Ct::Test => [83, 59],
		}
	}
}

#[derive(Clone, Debug)]
pub enum Op {
	Set { f: usize, val: u64 },
	Trunc { at: usize },
	Drop { f: usize },
	Dup { f: usize },
	Splice { f: usize, from: usize, g: usize, insert: bool },
	/// joint mutation of a segment identifier: height and idx fields (None = keep the seed's value)
	Ident { fh: usize, fi: usize, h: Option<u8>, idx: Option<u64> },
	/// a JSON value token replaced by value class `k`
	Json { f: usize, k: u32 },
	/// a JSON array replaced by `n` copies of its first element
	JsonArray { f: usize, n: u64 },
	/// consistent re-encoding of a segment proof with one hash less (-1), one more (+1) or none (0)
	ProofLen { f: usize, delta: i8 },
	/// a repeated group re-encoded with `n` copies of its first item (fields a..=z; the group ends with field e), the
	/// count field c set to n; `inner` = (field of the item, value) set in every copy
	Repeat { c: usize, a: usize, z: usize, e: usize, n: u64, inner: Option<(usize, u64)>, idh: Option<u8> },
	/// joint mutation of a block header: version, height, edge_bits and a consistent re-encoding of the packed nonces
	/// (`nv` 0: ascending with balanced parity, 1: ascending, 2: unsorted)
	Era { fv: usize, fh: usize, fe: usize, ver: u16, height: u64, eb: u8, nv: u8 },
	/// the announced length of the (single) frame set to `len`, the body padded / cut to exactly that many bytes
	FrameLen { len: u64 },
	/// only the first `cut` bytes are delivered, then the peer stays connected and silent
	Silent { cut: usize },
}

#[derive(Clone, Debug)]
pub enum Desc {
	Seed { seed: u32, ver: u32, rd: Rd },
	Mut { seed: u32, op: u32, ver: u32, rd: Rd },
	Rnd { target: u16, k: u32, ver: u32, rd: Rd, ct: Ct },
	Pre { seed: u32, k: u32, ver: u32, rd: Rd },
	Frame { ty: u8, k: u32, ver: u32, ct: Ct },
	/// regression inputs of defects found by this engine and repaired since (see known_findings.json)
	Reg { n: u32, ver: u32, rd: Rd },
	/// many valid items: family `fam` (crate::families) built with `n` items by the repository's own encoders, decoded
	/// through wrap `wrap` of the family
	Big { fam: u16, n: u32, wrap: u16, ver: u32, rd: Rd, ct: Ct },
}

pub struct Case {
	pub target: usize,
	pub ver: u32,
	pub rd: Rd,
	pub ct: Ct,
	pub bytes: Vec<u8>,
	pub aux: u64,
	pub ctx: Option<Vec<u8>>,
	pub origin: Value,
	/// set for unmutated seeds on chain type auto
	pub expect_ok: bool,
	pub expect_post: bool,
}

pub struct Space {
	pub targets: Vec<Target>,
	pub seeds: Vec<(Ct, SeedEnc)>,
	pub ops: Vec<(u32, Op, std::sync::Arc<Value>)>,
	pub descs: Vec<Desc>,
	pub seed: u64,
	/// (target, bytes, aux, ctx, label)
	pub regs: Vec<(usize, Vec<u8>, u64, Option<Vec<u8>>, String)>,
	/// the last value built for a `Big` case (consecutive cases decode the same value through several wraps)
	pub big_cache: std::sync::Mutex<Option<crate::families::Built>>,
}

/// targets whose behaviour depends on the chain type (proof size, block weight, PoW variant)
const MAIN_TARGETS: [&str; 12] = [
	"stratum::submit",
	"Proof::read",
	"ProofOfWork::read",
	"BlockHeader::read",
	"UntrustedBlockHeader::read",
	"Block::read",
	"UntrustedBlock::read",
	"CompactBlock::read",
	"UntrustedCompactBlock::read",
	"TransactionBody::read",
	"Transaction::read",
	"Codec::read",
];

pub fn all_seeds(seed: u64) -> Vec<(Ct, SeedEnc)> {
	use grin_core::global::{set_local_chain_type, ChainTypes};
	set_local_chain_type(ChainTypes::AutomatedTesting);
	let mut v: Vec<(Ct, SeedEnc)> = seeds::build(seed, true).into_iter().map(|s| (Ct::Auto, s)).collect();
	set_local_chain_type(ChainTypes::Mainnet);
	for s in seeds::build(seed, false) {
		let keep = MAIN_TARGETS.contains(&s.target)
			&& (s.target != "Codec::read" || s.label.starts_with("header") || s.label.starts_with("block") || s.label.starts_with("compactblock"));
		if keep {
			v.push((Ct::Main, s));
		}
	}
	// Testnet has its own frame magic and its own hard-fork heights: header-carrying encodings only
	set_local_chain_type(ChainTypes::Testnet);
	for s in seeds::build(seed, false) {
		let keep = ["BlockHeader::read", "UntrustedBlockHeader::read", "ProofOfWork::read"].contains(&s.target)
			|| (s.target == "Codec::read" && (s.label.starts_with("headerv") || s.label.starts_with("headersv") || s.label.starts_with("pingv")));
		if keep {
			v.push((Ct::Test, s));
		}
	}
	set_local_chain_type(ChainTypes::AutomatedTesting);
	v
}

fn splitmix(x: &mut u64) -> u64 {
	*x = x.wrapping_add(0x9E3779B97F4A7C15);
	let mut z = *x;
	z = (z ^ (z >> 30)).wrapping_mul(0xBF58476D1CE4E5B9);
	z = (z ^ (z >> 27)).wrapping_mul(0x94D049BB133111EB);
	z ^ (z >> 31)
}

fn fill(state: &mut u64, n: usize) -> Vec<u8> {
	let mut v = Vec::with_capacity(n + 8);
	while v.len() < n {
		v.extend_from_slice(&splitmix(state).to_le_bytes());
	}
	v.truncate(n);
	v
}

/// random length in 0..=2048, biased towards short inputs (half of them below 64 bytes)
fn rnd_len(state: &mut u64) -> usize {
	let r = splitmix(state);
	match r & 3 {
		0 => (r >> 8) as usize % 17,
		1 => (r >> 8) as usize % 65,
		2 => (r >> 8) as usize % 513,
		_ => (r >> 8) as usize % 2049,
	}
}

fn plan_value(o: &Value) -> Option<u128> {
	let e = o["e"].as_i64()?;
	let d = o["d"].as_i64()? as i128;
	let base: i128 = if e < 0 { 0 } else { 1i128 << e };
	let v = base + d;
	if v < 0 {
		None
	} else {
		Some(v as u128)
	}
}

/// a codec seed made of a single frame keeps its announced length consistent with a re-encoded body
fn fix_frame(s: &SeedEnc, out: &mut Vec<u8>) {
	if s.target != "Codec::read" || s.fields.len() < 4 || s.fields[3].kind != "u64" || s.bytes.len() < 11 || out.len() < 11 {
		return;
	}
	let mut l = [0u8; 8];
	l.copy_from_slice(&s.bytes[3..11]);
	if u64::from_be_bytes(l) as usize == s.bytes.len() - 11 {
		let nl = (out.len() - 11) as u64;
		out[3..11].copy_from_slice(&nl.to_be_bytes());
	}
}

impl Space {
	pub fn build(seed: u64, thorough: bool, plans: &[Value]) -> Space {
		let targets = crate::targets::targets();
		let seeds = all_seeds(seed);
		let tix = |name: &str| targets.iter().position(|t| t.name == name).expect("target");
		// ---- expand the TLC plans
		let mut ops: Vec<(u32, Op, std::sync::Arc<Value>)> = vec![];
		let mut bigs: Vec<(u16, u32, Ct)> = vec![];
		for p in plans {
			if let Some(b) = p.get("big") {
				// "many valid items": (family, chain type, count) chosen by the specification
				if let (Some(f), Some(n)) = (b["fam"].as_str().and_then(crate::families::index_of), b["n"].as_u64()) {
					let ct = Ct::parse(b["ct"].as_str().unwrap_or("auto"));
					if crate::families::FAMILIES[f].cts.contains(&ct) && n <= 2_000_000 {
						bigs.push((f as u16, n as u32, ct));
					}
				}
				continue;
			}
			let lay = p["lay"].as_u64().expect("lay") as usize;
			if lay >= seeds.len() {
				continue;
			}
			let s = &seeds[lay].1;
			let f = p["f"].as_u64().expect("f") as usize; // 1-based field index, 0 = whole layout
			for o in p["ops"].as_array().expect("ops") {
				let name = o["op"].as_str().unwrap_or("");
				// (the identifier plans expand to thousands of cases: keep only the class name with each of them)
				let slim = std::sync::Arc::new(if name.starts_with("ident") || name == "era" || name == "repeat" || name == "framelen" || name == "silent" { json!({"op": name}) } else { o.clone() });
				let mut push = |op: Op| ops.push((lay as u32, op, slim.clone()));
				match name {
					"set" => {
						let fld = &s.fields[f - 1];
						if let Some(v) = plan_value(o) {
							if fld.w >= 8 || v < (1u128 << (8 * fld.w)) {
								push(Op::Set { f: f - 1, val: v as u64 });
							}
						}
					}
					"sweep" => {
						let fld = &s.fields[f - 1];
						let cur = s.bytes[fld.off + fld.w - 1];
						for b in 0..=255u8 {
							if b != cur || fld.w > 1 {
								push(Op::Set { f: f - 1, val: b as u64 });
							}
						}
					}
					"trunc" => push(Op::Trunc { at: s.fields[f - 1].off }),
					"trunc_every" => {
						for at in 0..s.bytes.len() {
							push(Op::Trunc { at });
						}
					}
					"ident" => {
						// cross product heights x idx values (256 / e = -2: keep the seed's value)
						let g = o["g"].as_u64().unwrap_or(0) as usize;
						if g >= 1 && g <= s.fields.len() && s.fields[f - 1].w == 1 && s.fields[g - 1].w == 8 {
							for h in o["hs"].as_array().map(|a| a.as_slice()).unwrap_or(&[]) {
								let h = h.as_u64().unwrap_or(256);
								for v in o["vs"].as_array().map(|a| a.as_slice()).unwrap_or(&[]) {
									let idx = if v["e"].as_i64() == Some(-2) {
										None
									} else {
										match plan_value(v) {
											Some(x) if x <= u64::MAX as u128 => Some(x as u64),
											_ => continue,
										}
									};
									push(Op::Ident { fh: f - 1, fi: g - 1, h: if h > 255 { None } else { Some(h as u8) }, idx });
								}
							}
						}
					}
					"identprod" => {
						// idx * 2^height lands on 2^e + d * 2^height: the wrap-around boundaries of the leaf offset
						let g = o["g"].as_u64().unwrap_or(0) as usize;
						if g >= 1 && g <= s.fields.len() && s.fields[f - 1].w == 1 && s.fields[g - 1].w == 8 {
							for e in o["es"].as_array().map(|a| a.as_slice()).unwrap_or(&[]) {
								for h in o["hs"].as_array().map(|a| a.as_slice()).unwrap_or(&[]) {
									for d in o["ds"].as_array().map(|a| a.as_slice()).unwrap_or(&[]) {
										let (e, h, d) = (e.as_i64().unwrap_or(0), h.as_i64().unwrap_or(0), d.as_i64().unwrap_or(0));
										if e - h < 0 || e - h > 63 || h > 255 {
											continue;
										}
										let v = (1i128 << (e - h)) + d as i128;
										if v < 0 || v > u64::MAX as i128 {
											continue;
										}
										push(Op::Ident { fh: f - 1, fi: g - 1, h: Some(h as u8), idx: Some(v as u64) });
									}
								}
							}
						}
					}
					"repeat" => {
						// count field f; item = fields a..=z, the group ends with field e (1-based); `ns` plain copies; at count
						// `ninner` every copy also carries the boundary value of one of its own fields
						let g = |k: &str| o[k].as_u64().unwrap_or(0) as usize;
						let (a, z, e) = (g("a"), g("z"), g("e"));
						if a >= 1 && a <= z && z <= e && e <= s.fields.len() && f < a {
							let item: usize = (a..=z).map(|i| s.fields[i - 1].w).sum();
							let cap: u64 = 16 << 20;
							let fits = |n: u64| n >= 1 && n.saturating_mul(item as u64) <= cap;
							let idh = o["idh"].as_i64().filter(|h| *h >= 0 && *h <= 255 && s.ident.is_some()).map(|h| h as u8);
							for n in o["ns"].as_array().map(|x| x.as_slice()).unwrap_or(&[]) {
								if let Some(n) = n.as_u64() {
									if fits(n) {
										push(Op::Repeat { c: f - 1, a: a - 1, z: z - 1, e: e - 1, n, inner: None, idh });
									}
								}
							}
							for v in o["cs"].as_array().map(|x| x.as_slice()).unwrap_or(&[]) {
								if let Some(v) = plan_value(v) {
									let w = s.fields[f - 1].w;
									if w >= 8 || v < (1u128 << (8 * w)) {
										push(Op::Set { f: f - 1, val: v as u64 });
									}
								}
							}
							for ninner in o["nis"].as_array().map(|x| x.as_slice()).unwrap_or(&[]).iter().filter_map(|x| x.as_u64()).filter(|n| fits(*n)) {
								for inn in o["inner"].as_array().map(|x| x.as_slice()).unwrap_or(&[]) {
									let gi = inn["g"].as_u64().unwrap_or(0) as usize;
									if gi < a || gi > z {
										continue;
									}
									let w = s.fields[gi - 1].w;
									for v in inn["vs"].as_array().map(|x| x.as_slice()).unwrap_or(&[]) {
										if let Some(v) = plan_value(v) {
											if w >= 8 || v < (1u128 << (8 * w)) {
												push(Op::Repeat { c: f - 1, a: a - 1, z: z - 1, e: e - 1, n: ninner, inner: Some((gi - 1, v as u64)), idh });
											}
										}
									}
								}
							}
						}
					}
					"era" => {
						// header version field f, height field g, edge_bits field e: cross product of the hard-fork boundary
						// heights, the header versions and the edge_bits classes; the packed nonces are re-encoded
						let g = o["g"].as_u64().unwrap_or(0) as usize;
						let e = o["e"].as_u64().unwrap_or(0) as usize;
						// (the fully valid block / compact block seeds are left out: their post-decode steps verify range proofs and
						// signatures whatever the header says, a millisecond per case)
						let ok = g >= 1 && e >= 1 && e < s.fields.len() && s.fields[f - 1].w == 2 && s.fields[g - 1].w == 8 && s.fields[e - 1].w == 1
							&& !s.label.starts_with("valid");
						if ok {
							let mut k = 0u32;
							for h in o["hs"].as_array().map(|x| x.as_slice()).unwrap_or(&[]) {
								for v in o["vs"].as_array().map(|x| x.as_slice()).unwrap_or(&[]) {
									for b in o["bs"].as_array().map(|x| x.as_slice()).unwrap_or(&[]) {
										if let (Some(h), Some(v), Some(b)) = (h.as_u64(), v.as_u64(), b.as_u64()) {
											k += 1;
											push(Op::Era { fv: f - 1, fh: g - 1, fe: e - 1, ver: v as u16, height: h, eb: b as u8, nv: (k % 3) as u8 });
										}
									}
								}
							}
						}
					}
					"silent" => {
						if s.target == "Codec::read" {
							for c in o["cuts"].as_array().map(|x| x.as_slice()).unwrap_or(&[]) {
								push(Op::Silent { cut: c.as_u64().unwrap_or(0) as usize });
							}
						}
					}
					"framelen" => {
						if s.target == "Codec::read" && s.fields.len() >= 4 && s.fields[3].kind == "u64" {
							for l in o["ls"].as_array().map(|x| x.as_slice()).unwrap_or(&[]) {
								if let Some(l) = l.as_u64() {
									push(Op::FrameLen { len: l });
								}
							}
						}
					}
					"json" => push(Op::Json { f: f - 1, k: o["k"].as_u64().unwrap_or(0) as u32 }),
					"jarray" => {
						if s.fields[f - 1].kind == "ja" {
							push(Op::JsonArray { f: f - 1, n: o["n"].as_u64().unwrap_or(0) })
						}
					}
					"proof" => {
						for d in o["deltas"].as_array().map(|a| a.as_slice()).unwrap_or(&[]) {
							push(Op::ProofLen { f: f - 1, delta: d.as_i64().unwrap_or(0) as i8 });
						}
					}
					"drop" => push(Op::Drop { f: f - 1 }),
					"dup" => push(Op::Dup { f: f - 1 }),
					"splice" => {
						let from = o["from"].as_u64().unwrap_or(0) as usize;
						let g = o["g"].as_u64().unwrap_or(1) as usize;
						if from < seeds.len() && g >= 1 && g <= seeds[from].1.fields.len() {
							push(Op::Splice {
								f: f - 1,
								from,
								g: g - 1,
								insert: o["mode"].as_str() == Some("insert"),
							});
						}
					}
					_ => {}
				}
			}
		}
		// ---- regression inputs
		let mut regs: Vec<(usize, Vec<u8>, u64, Option<Vec<u8>>, String)> = vec![];
		for (txt, l) in [("0", "odd_length"), ("zz", "non_hex"), ("a\u{e9}a", "non_ascii")].iter() {
			regs.push((tix("MerkleProof::from_hex"), txt.as_bytes().to_vec(), 0, None, format!("from_hex:{}", l)));
			regs.push((tix("util::from_hex"), txt.as_bytes().to_vec(), 0, None, format!("from_hex:{}", l)));
		}
		for (pl, l) in [(0xffff_ffff_ffff_fffeu64, "capacity_overflow"), (0xffff_ffff, "abort"), (0x10000, "over_bound"), (1_000_000, "limit")].iter() {
			let mut b = 10u64.to_be_bytes().to_vec();
			b.extend_from_slice(&pl.to_be_bytes());
			regs.push((tix("MerkleProof::read"), b.clone(), 0, None, format!("path_len:{}", l)));
			regs.push((tix("MerkleProof::from_hex"), crate::worker::hex(&b).into_bytes(), 0, None, format!("path_len:{}", l)));
		}
		{
			// c5cb61fce: identifier {height 1, idx 2^62}, one block of two empty chunks, empty proof: the leaf offset 2^63
			// passed every checked_* guard and insertion_to_pmmr_index wrapped inside BitmapSegment::into_segment
			let mut b = vec![1u8];
			b.extend_from_slice(&(1u64 << 62).to_be_bytes());
			b.extend_from_slice(&[0, 1, 2, 1, 0, 0]);
			b.extend_from_slice(&0u64.to_be_bytes());
			regs.push((tix("BitmapSegment::read"), b.clone(), 0, None, "bitmap_idx_2^62_height_1".into()));
			let mut r = vec![7u8; 32];
			r.extend_from_slice(&b);
			r.extend_from_slice(&[9u8; 32]);
			regs.push((tix("OutputBitmapSegmentResponse::read"), r, 0, None, "bitmap_idx_2^62_height_1".into()));
		}
		{
			// c308755f7: identifier {height 1, idx 2^62 + 1}, nothing else: the leaf offset 2^63 + 2 wrapped the position
			// arithmetic and Segment::root popped an empty stack
			let mut b = vec![1u8];
			b.extend_from_slice(&((1u64 << 62) + 1).to_be_bytes());
			b.extend_from_slice(&[0u8; 24]);
			for t in ["Segment<OutputIdentifier>::read", "Segment<RangeProof>::read", "Segment<TxKernel>::read"].iter() {
				regs.push((tix(t), b.clone(), crate::targets::aux_explicit(19, false), None, "segment_idx_2^62+1_height_1".into()));
			}
			// 55e852c38 / 6e9e47afe: JSON form of a transaction (foreign push_transaction): an offset that is not hex,
			// a range proof longer than 675 bytes
			let jt = tix("json::Transaction");
			regs.push((jt, br#"{"offset":"0"}"#.to_vec(), 0, None, "json_offset_odd_hex".into()));
			if let Some((_, sd)) = seeds.iter().find(|(c, s)| *c == Ct::Auto && s.target == "json::Transaction") {
				let text = String::from_utf8_lossy(&sd.bytes).into_owned();
				if let Some(f) = sd.fields.iter().find(|f| f.kind == "js" && f.w > 1000) {
					let proof = &text[f.off + 1..f.off + f.w - 1];
					let long = format!("{}\"{}{}\"{}", &text[..f.off], proof, proof, &text[f.off + f.w..]);
					regs.push((jt, long.into_bytes(), 0, None, "json_proof_twice".into()));
				}
				if let Some(f) = sd.fields.first() {
					let bad = format!("{}\"zz\"{}", &text[..f.off], &text[f.off + f.w..]);
					regs.push((jt, bad.into_bytes(), 0, None, "json_offset_non_hex".into()));
				}
			}
		}
		for (ct, sd) in seeds.iter() {
			if *ct == Ct::Auto && sd.target.contains("Segment") && !sd.target.contains("Bitmap") {
				if let Some(f) = sd.fields.iter().find(|f| f.kind == "u8") {
					for add in [64u8, 128, 192].iter() {
						let mut b = sd.bytes.clone();
						b[f.off] = b[f.off].wrapping_add(*add);
						regs.push((tix(sd.target), b, sd.aux, sd.ctx.clone(), format!("segment_height_plus_{}:{}", add, sd.label)));
					}
					// identifier idx beyond the last segment
					if let Some(g) = sd.fields.iter().find(|g| g.kind == "u64") {
						let mut b = sd.bytes.clone();
						b[g.off..g.off + 8].copy_from_slice(&1000u64.to_be_bytes());
						regs.push((tix(sd.target), b, sd.aux, sd.ctx.clone(), format!("segment_idx_beyond:{}", sd.label)));
					}
				}
			}
		}
		// ---- descriptors
		let mut descs = vec![];
		for (n, r) in regs.iter().enumerate() {
			if targets[r.0].kind == TKind::Ser {
				for v in VERSIONS.iter() {
					descs.push(Desc::Reg { n: n as u32, ver: *v, rd: Rd::Bin });
					descs.push(Desc::Reg { n: n as u32, ver: *v, rd: Rd::Buf });
				}
			} else {
				descs.push(Desc::Reg { n: n as u32, ver: 1000, rd: Rd::Bin });
			}
		}
		let kind_of = |s: &SeedEnc| targets[tix(s.target)].kind;
		for (i, (_, s)) in seeds.iter().enumerate() {
			if kind_of(s) == TKind::Ser {
				for v in VERSIONS.iter() {
					for rd in [Rd::Bin, Rd::Buf].iter() {
						descs.push(Desc::Seed { seed: i as u32, ver: *v, rd: *rd });
					}
				}
			} else if s.target == "Codec::read" {
				// (a frame's header does not depend on the protocol version; its body may: the seed must still decode at
				// its own version only, see `materialize`)
				for v in VERSIONS.iter() {
					descs.push(Desc::Seed { seed: i as u32, ver: *v, rd: Rd::Bin });
				}
			} else {
				descs.push(Desc::Seed { seed: i as u32, ver: s.ver, rd: Rd::Bin });
			}
		}
		for (j, (lay, op, _)) in ops.iter().enumerate() {
			let s = &seeds[*lay as usize].1;
			if kind_of(s) == TKind::Ser {
				let both = matches!(op, Op::Set { .. });
				let vers: Vec<u32> = if matches!(op, Op::Ident { .. }) {
					// (the identifier's encoding does not depend on the protocol version)
					vec![s.ver]
				} else if thorough {
					VERSIONS.to_vec()
				} else {
					let other = VERSIONS[j % 4];
					if other == s.ver {
						vec![s.ver]
					} else {
						vec![s.ver, other]
					}
				};
				for (n, v) in vers.iter().enumerate() {
					if both || thorough {
						descs.push(Desc::Mut { seed: *lay, op: j as u32, ver: *v, rd: Rd::Bin });
						descs.push(Desc::Mut { seed: *lay, op: j as u32, ver: *v, rd: Rd::Buf });
					} else {
						let rd = if (j + n) % 2 == 0 { Rd::Bin } else { Rd::Buf };
						descs.push(Desc::Mut { seed: *lay, op: j as u32, ver: *v, rd });
					}
				}
			} else if s.target == "Codec::read" && !matches!(op, Op::Ident { .. } | Op::Era { .. } | Op::Silent { .. }) {
				let vers: Vec<u32> = if thorough {
					VERSIONS.to_vec()
				} else {
					let other = VERSIONS[j % 4];
					if other == s.ver {
						vec![s.ver]
					} else {
						vec![s.ver, other]
					}
				};
				for v in vers {
					descs.push(Desc::Mut { seed: *lay, op: j as u32, ver: v, rd: Rd::Bin });
				}
			} else {
				descs.push(Desc::Mut { seed: *lay, op: j as u32, ver: s.ver, rd: Rd::Bin });
			}
		}
		// ---- many valid items (consecutive cases share the value built for (family, count, chain type))
		for (k, (fam, n, ct)) in bigs.iter().enumerate() {
			let ws = crate::families::wraps(*fam as usize, *ct);
			let body = crate::families::FAMILIES[*fam as usize].name.starts_with("body.");
			let vers: &[u32] = if body { &[1, 2, 3] } else { &[1] };
			for (w, (t, _)) in ws.iter().enumerate() {
				for (vi, v) in vers.iter().enumerate() {
					// (quick tier: every wrap of a body at one of the three encodings, rotating)
					if body && !thorough && (k + w) % 3 != vi {
						continue;
					}
					let ser = targets[tix(t)].kind == TKind::Ser;
					if ser && (thorough || !body) {
						descs.push(Desc::Big { fam: *fam, n: *n, wrap: w as u16, ver: *v, rd: Rd::Bin, ct: *ct });
						descs.push(Desc::Big { fam: *fam, n: *n, wrap: w as u16, ver: *v, rd: Rd::Buf, ct: *ct });
					} else {
						let rd = if !ser || (k + w + vi) % 2 == 0 { Rd::Buf } else { Rd::Bin };
						descs.push(Desc::Big { fam: *fam, n: *n, wrap: w as u16, ver: *v, rd: if ser { rd } else { Rd::Bin }, ct: *ct });
					}
				}
			}
		}
		let n_rnd: u32 = if thorough { 400_000 } else { 20_000 };
		for (t, tg) in targets.iter().enumerate() {
			let both_ct = MAIN_TARGETS.contains(&tg.name);
			for k in 0..n_rnd {
				let ct = if both_ct && k % 4 == 3 { Ct::Main } else { Ct::Auto };
				let (ver, rd) = if tg.kind == TKind::Ser {
					(VERSIONS[(k % 4) as usize], if (k / 4) % 2 == 0 { Rd::Buf } else { Rd::Bin })
				} else {
					(VERSIONS[(k % 4) as usize], Rd::Bin)
				};
				descs.push(Desc::Rnd { target: t as u16, k, ver, rd, ct });
			}
		}
		let n_pre: u32 = if thorough { 6000 } else { 300 };
		for (i, (_, s)) in seeds.iter().enumerate() {
			for k in 0..n_pre {
				let (ver, rd) = if kind_of(s) == TKind::Ser {
					(if k % 3 == 0 { VERSIONS[(k % 4) as usize] } else { s.ver }, if k % 2 == 0 { Rd::Buf } else { Rd::Bin })
				} else {
					(s.ver, Rd::Bin)
				};
				descs.push(Desc::Pre { seed: i as u32, k, ver, rd });
			}
		}
		let n_frame: u32 = if thorough { 10_000 } else { 600 };
		for ty in 0..=30u8 {
			for k in 0..n_frame {
				let ct = if k % 5 == 4 { Ct::Main } else { Ct::Auto };
				descs.push(Desc::Frame { ty, k, ver: VERSIONS[(k % 4) as usize], ct });
			}
		}
		Space { targets, seeds, ops, descs, seed, regs, big_cache: std::sync::Mutex::new(None) }
	}

	pub fn target_index(&self, name: &str) -> usize {
		self.targets.iter().position(|t| t.name == name).expect("target")
	}

	fn apply(&self, s: &SeedEnc, op: &Op) -> Vec<u8> {
		let b = &s.bytes;
		match op {
			Op::Set { f, val } => {
				let fl = &s.fields[*f];
				let mut out = b.clone();
				let be = val.to_be_bytes();
				if fl.w <= 8 {
					out[fl.off..fl.off + fl.w].copy_from_slice(&be[8 - fl.w..]);
				}
				out
			}
			Op::Trunc { at } => b[..(*at).min(b.len())].to_vec(),
			Op::Drop { f } => {
				let fl = &s.fields[*f];
				let mut out = b[..fl.off].to_vec();
				out.extend_from_slice(&b[fl.off + fl.w..]);
				out
			}
			Op::Dup { f } => {
				let fl = &s.fields[*f];
				let mut out = b[..fl.off + fl.w].to_vec();
				out.extend_from_slice(&b[fl.off..]);
				out
			}
			Op::Ident { fh, fi, h, idx } => {
				let mut out = b.clone();
				if let Some(h) = h {
					out[s.fields[*fh].off] = *h;
				}
				if let Some(v) = idx {
					let o = s.fields[*fi].off;
					out[o..o + 8].copy_from_slice(&v.to_be_bytes());
				}
				out
			}
			Op::Json { f, k } => {
				let fl = &s.fields[*f];
				let orig = &b[fl.off..fl.off + fl.w];
				let inner: &[u8] = if orig.len() >= 2 && orig[0] == b'"' { &orig[1..orig.len() - 1] } else { orig };
				let q = |x: &[u8]| {
					let mut v = vec![b'"'];
					v.extend_from_slice(x);
					v.push(b'"');
					v
				};
				let rep: Vec<u8> = match k {
					0 => q(b""),
					1 => q(b"0"),
					2 => q(b"zz"),
					3 => q("\u{e9}\u{e9}".as_bytes()),
					4 => q(&inner[..inner.len().saturating_sub(1)]),                       // odd number of hex digits
					5 => q(&[inner, inner].concat()),                                       // twice as long
					6 => q(&b"ab".repeat(40_000)),                                          // 40 000 bytes of hex
					7 => q(&[&inner[..inner.len() / 2], "\u{e9}".as_bytes(), &inner[inner.len() / 2..]].concat()),
					8 => b"null".to_vec(),
					9 => b"-1".to_vec(),
					10 => b"0".to_vec(),
					11 => b"18446744073709551615".to_vec(),
					12 => b"18446744073709551616".to_vec(),
					13 => b"1e400".to_vec(),
					14 => b"[]".to_vec(),
					15 => b"{}".to_vec(),
					16 => b"true".to_vec(),
					17 => q(b"18446744073709551615"),
					18 => q(&inner[..inner.len().min(2)]),                                  // one byte of hex
					_ => q(b"\\ud800"),
				};
				let mut out = b[..fl.off].to_vec();
				out.extend_from_slice(&rep);
				out.extend_from_slice(&b[fl.off + fl.w..]);
				out
			}
			Op::JsonArray { f, n } => {
				let fl = &s.fields[*f];
				let text = &b[fl.off..fl.off + fl.w];
				// first element: up to the first comma / bracket at nesting depth 1
				let mut depth = 0i32;
				let mut end = text.len().saturating_sub(1);
				let mut in_str = false;
				let mut i = 0;
				while i < text.len() {
					match text[i] {
						b'\\' if in_str => i += 1,
						b'"' => in_str = !in_str,
						b'[' | b'{' if !in_str => depth += 1,
						b']' | b'}' if !in_str => {
							depth -= 1;
							if depth == 0 {
								end = i;
								break;
							}
						}
						b',' if !in_str && depth == 1 => {
							end = i;
							break;
						}
						_ => {}
					}
					i += 1;
				}
				let first: &[u8] = if end > 1 { &text[1..end] } else { b"0" };
				// (at most 3 MB of copies)
				let n = (*n).min((3u64 << 20) / (first.len() as u64 + 1));
				let mut out = b[..fl.off].to_vec();
				out.push(b'[');
				for k in 0..n {
					if k > 0 {
						out.push(b',');
					}
					out.extend_from_slice(first);
				}
				out.push(b']');
				out.extend_from_slice(&b[fl.off + fl.w..]);
				out
			}
			Op::ProofLen { f, delta } => {
				let fl = &s.fields[*f];
				let mut cnt = [0u8; 8];
				cnt.copy_from_slice(&b[fl.off..fl.off + 8]);
				let v = u64::from_be_bytes(cnt) as usize;
				let first = fl.off + 8; // the hashes follow the count
				let end = first + 32 * v;
				let mut out = b[..fl.off].to_vec();
				let (newv, body): (usize, Vec<u8>) = match *delta {
					-1 if v >= 1 => (v - 1, b[first..end - 32].to_vec()),
					1 => {
						let mut x = b[first..end.min(b.len())].to_vec();
						x.extend_from_slice(&[0x5au8; 32]);
						(v + 1, x)
					}
					0 => (0, vec![]),
					_ => (v, b[first..end.min(b.len())].to_vec()),
				};
				out.extend_from_slice(&(newv as u64).to_be_bytes());
				out.extend_from_slice(&body);
				out.extend_from_slice(&b[end.min(b.len())..]);
				if s.target == "Codec::read" && s.fields.len() > 3 && s.fields[3].kind == "u64" && out.len() >= 11 {
					// keep the frame header's announced length consistent with the re-encoded body
					let o = s.fields[3].off;
					let mut l = [0u8; 8];
					l.copy_from_slice(&b[o..o + 8]);
					let nl = (u64::from_be_bytes(l) as i64 + out.len() as i64 - b.len() as i64).max(0) as u64;
					out[o..o + 8].copy_from_slice(&nl.to_be_bytes());
				}
				out
			}
			Op::Repeat { c, a, z, e, n, inner, idh } => {
				let (fa, fz, fe, fc) = (&s.fields[*a], &s.fields[*z], &s.fields[*e], &s.fields[*c]);
				let mut item = b[fa.off..fz.off + fz.w].to_vec();
				if let Some((g, v)) = inner {
					let fg = &s.fields[*g];
					let be = v.to_be_bytes();
					if fg.w <= 8 && fg.off >= fa.off {
						let o = fg.off - fa.off;
						item[o..o + fg.w].copy_from_slice(&be[8 - fg.w..]);
					}
				}
				let mut out = Vec::with_capacity(fa.off + item.len() * *n as usize + (b.len() - fe.off - fe.w));
				out.extend_from_slice(&b[..fa.off]);
				for _ in 0..*n {
					out.extend_from_slice(&item);
				}
				out.extend_from_slice(&b[fe.off + fe.w..]);
				let be = n.to_be_bytes();
				if fc.w <= 8 {
					out[fc.off..fc.off + fc.w].copy_from_slice(&be[8 - fc.w..]);
				}
				if let (Some(h), Some((fh, fi))) = (idh, s.ident) {
					// (the identifier precedes the group: same offsets in the re-encoding)
					if s.fields[fh].off < fa.off && s.fields[fi].off + 8 <= fa.off {
						out[s.fields[fh].off] = *h;
						let o = s.fields[fi].off;
						out[o..o + 8].copy_from_slice(&0u64.to_be_bytes());
					}
				}
				fix_frame(s, &mut out);
				out
			}
			Op::Era { fv, fh, fe, ver, height, eb, nv } => {
				let mut out = b.clone();
				let o = s.fields[*fv].off;
				out[o..o + 2].copy_from_slice(&ver.to_be_bytes());
				let o = s.fields[*fh].off;
				out[o..o + 8].copy_from_slice(&height.to_be_bytes());
				out[s.fields[*fe].off] = *eb;
				if *eb >= 1 && *eb <= 63 && fe + 1 < s.fields.len() {
					// nonces below 2^edge_bits, packed by the repository's own encoder (proof size of the chain type in force)
					let fnon = &s.fields[fe + 1];
					let n = grin_core::global::proofsize();
					let mask: u64 = if *eb >= 63 { u64::MAX >> 1 } else { (1u64 << *eb) - 1 };
					let mut st = (*height).wrapping_mul(0x9E3779B97F4A7C15) ^ ((*eb as u64) << 32) ^ *ver as u64;
					let mut v: Vec<u64> = (0..n).map(|_| splitmix(&mut st) & (mask >> 1)).collect();
					if *nv != 2 {
						v.sort_unstable();
						// strictly ascending
						for i in 1..v.len() {
							if v[i] <= v[i - 1] {
								v[i] = v[i - 1] + 1;
							}
						}
					}
					let nonces: Vec<u64> = match nv {
						0 => v.iter().enumerate().map(|(i, x)| ((x << 1) | (i as u64 & 1)) & mask).collect(),
						_ => v.iter().map(|x| x & mask).collect(),
					};
					let packed = grin_core::pow::Proof { edge_bits: *eb, nonces }.pack_nonces();
					let mut o2 = out[..fnon.off].to_vec();
					o2.extend_from_slice(&packed);
					o2.extend_from_slice(&out[fnon.off + fnon.w..]);
					out = o2;
				}
				fix_frame(s, &mut out);
				out
			}
			Op::Silent { cut } => b[..(*cut).min(b.len())].to_vec(),
			Op::FrameLen { len } => {
				// the whole announced body is present (up to 12 MB), so that a frame admitted by the header check is read in full
				let cap = (*len).min(12_000_000) as usize;
				let mut out = b[..b.len().min(11)].to_vec();
				if out.len() == 11 {
					out[3..11].copy_from_slice(&len.to_be_bytes());
					let body = &b[11..];
					if body.is_empty() {
						out.resize(11 + cap, 0);
					} else {
						while out.len() < 11 + cap {
							let take = body.len().min(11 + cap - out.len());
							out.extend_from_slice(&body[..take]);
						}
					}
				}
				out
			}
			Op::Splice { f, from, g, insert } => {
				let fl = &s.fields[*f];
				let d = &self.seeds[*from].1;
				let dg = &d.fields[*g];
				let donor = &d.bytes[dg.off..dg.off + dg.w];
				let mut out = b[..fl.off].to_vec();
				out.extend_from_slice(donor);
				out.extend_from_slice(if *insert { &b[fl.off..] } else { &b[fl.off + fl.w..] });
				out
			}
		}
	}

	pub fn materialize(&self, idx: usize) -> Case {
		let d = &self.descs[idx];
		let mut st = self.seed.wrapping_mul(0x2545F4914F6CDD1D) ^ (idx as u64).wrapping_mul(0x9E3779B97F4A7C15);
		match d {
			Desc::Seed { seed, ver, rd } => {
				let (ct, s) = &self.seeds[*seed as usize];
				let same = *ver == s.ver;
				Case {
					target: self.target_index(s.target),
					ver: *ver,
					rd: *rd,
					ct: *ct,
					bytes: s.bytes.clone(),
					aux: s.aux,
					ctx: s.ctx.clone(),
					origin: json!({"gen": "seed", "seed": s.label, "enc_ver": s.ver}),
					expect_ok: s.expect_ok && same,
					expect_post: s.expect_post && same,
				}
			}
			Desc::Big { fam, n, wrap, ver, rd, ct } => {
				let mut cache = self.big_cache.lock().unwrap();
				let built = crate::alloc_track::unmeasured(|| crate::families::build(&mut cache, self.seed, *fam as usize, *n, *wrap as usize, *ver, *ct));
				let name = crate::families::FAMILIES[*fam as usize].name;
				let (target, bytes, aux, ctx) = match built {
					Some((t, b, a, c)) => (self.target_index(t), b, a, c),
					// (the encoder refused this count: an empty input for the first wrap's decoder)
					None => (self.target_index(crate::families::wraps(*fam as usize, *ct)[0].0), vec![], 0, None),
				};
				Case {
					target,
					ver: *ver,
					rd: *rd,
					ct: *ct,
					bytes,
					aux,
					ctx,
					origin: json!({"gen": "big", "fam": name, "n": n, "wrap": wrap}),
					expect_ok: false,
					expect_post: false,
				}
			}
			Desc::Mut { seed, op, ver, rd } => {
				let (ct, s) = &self.seeds[*seed as usize];
				let (_, o, plan) = &self.ops[*op as usize];
				grin_core::global::set_local_chain_type(ct.chain_type());
				Case {
					target: self.target_index(s.target),
					ver: *ver,
					rd: *rd,
					ct: *ct,
					bytes: self.apply(s, o),
					aux: s.aux | if matches!(o, Op::Silent { .. }) { crate::targets::AUX_SILENT } else { 0 },
					ctx: s.ctx.clone(),
					origin: json!({"gen": "mut", "seed": s.label, "enc_ver": s.ver, "lay": seed, "plan": &**plan, "op": format!("{:?}", o),
						"field_kind": match o { Op::Set{f,..} | Op::Drop{f} | Op::Dup{f} | Op::Splice{f,..} | Op::ProofLen{f,..} | Op::Json{f,..} | Op::JsonArray{f,..} => s.fields[*f].kind, Op::Ident{..} => "ident", Op::Era{..} => "era", Op::Repeat{..} => "repeat", Op::FrameLen{..} => "framelen", Op::Silent{..} => "silent", _ => "" }}),
					expect_ok: false,
					expect_post: false,
				}
			}
			Desc::Rnd { target, k, ver, rd, ct } => {
				let n = rnd_len(&mut st);
				let mut bytes = fill(&mut st, n);
				if self.targets[*target as usize].kind == TKind::Str {
					// API strings: a quarter hex digits only, a quarter mostly hex, the rest arbitrary (lossy UTF-8)
					match k % 4 {
						0 => bytes.iter_mut().for_each(|b| *b = b"0123456789abcdefABCDEF"[(*b % 22) as usize]),
						1 => bytes.iter_mut().for_each(|b| {
							if *b % 16 != 0 {
								*b = b"0123456789abcdef"[(*b % 16) as usize]
							}
						}),
						2 => bytes.iter_mut().for_each(|b| *b &= 0x7f),
						_ => {}
					}
				}
				Case {
					target: *target as usize,
					ver: *ver,
					rd: *rd,
					ct: *ct,
					bytes,
					aux: splitmix(&mut st) & !(3 << 62),
					ctx: None,
					origin: json!({"gen": "rnd", "k": k}),
					expect_ok: false,
					expect_post: false,
				}
			}
			Desc::Pre { seed, k, ver, rd } => {
				let (ct, s) = &self.seeds[*seed as usize];
				// keep a valid prefix up to a field boundary (or a random offset), then random bytes
				let r = splitmix(&mut st);
				let cut = if r & 1 == 0 && !s.fields.is_empty() {
					s.fields[(r >> 8) as usize % s.fields.len()].off
				} else {
					(r >> 8) as usize % (s.bytes.len() + 1)
				};
				let n = rnd_len(&mut st);
				let mut bytes = s.bytes[..cut].to_vec();
				bytes.extend_from_slice(&fill(&mut st, n));
				// sometimes keep the valid tail after a random middle
				if r & 6 == 6 && cut + n < s.bytes.len() {
					bytes.extend_from_slice(&s.bytes[cut + n..]);
				}
				Case {
					target: self.target_index(s.target),
					ver: *ver,
					rd: *rd,
					ct: *ct,
					bytes,
					aux: if r & 8 == 0 { s.aux } else { splitmix(&mut st) & !(3 << 62) },
					ctx: s.ctx.clone(),
					origin: json!({"gen": "prefix", "seed": s.label, "enc_ver": s.ver, "k": k, "cut": cut}),
					expect_ok: false,
					expect_post: false,
				}
			}
			Desc::Reg { n, ver, rd } => {
				let r = &self.regs[*n as usize];
				Case {
					target: r.0,
					ver: *ver,
					rd: *rd,
					ct: Ct::Auto,
					bytes: r.1.clone(),
					aux: r.2,
					ctx: r.3.clone(),
					origin: json!({"gen": "regress", "label": r.4}),
					expect_ok: false,
					expect_post: false,
				}
			}
			Desc::Frame { ty, k, ver, ct } => {
				// a well-formed frame header of type `ty` announcing exactly the body that follows; the body is random or a
				// valid body of some message with a random tail; sometimes a second frame follows
				let r = splitmix(&mut st);
				let mut body = if r & 1 == 0 {
					let n = rnd_len(&mut st);
					fill(&mut st, n)
				} else {
					let ser: Vec<&(Ct, SeedEnc)> = self
						.seeds
						.iter()
						.filter(|(c, s)| c == ct && s.target != "Codec::read" && !s.target.contains("from_hex") && !s.target.starts_with("msg::"))
						.collect();
					let s = &ser[(r >> 8) as usize % ser.len()].1;
					let cut = (r >> 32) as usize % (s.bytes.len() + 1);
					let mut b = s.bytes[..cut].to_vec();
					if r & 2 == 0 {
						let n = rnd_len(&mut st) % 64;
						b.extend_from_slice(&fill(&mut st, n));
					} else {
						b.extend_from_slice(&s.bytes[cut..]);
					}
					b
				};
				body.truncate(60_000);
				let magic: [u8; 2] = if *ct == Ct::Main { [97, 61] } else { [73, 43] };
				let mut bytes = vec![magic[0], magic[1], *ty];
				let announced = match (r >> 4) & 7 {
					0 => body.len() as u64 + 1 + (r >> 40) % 16,
					1 => (body.len() as u64).saturating_sub(1 + (r >> 40) % 8),
					_ => body.len() as u64,
				};
				bytes.extend_from_slice(&announced.to_be_bytes());
				bytes.extend_from_slice(&body);
				if (r >> 7) & 3 == 0 {
					// a Ping frame after it
					bytes.extend_from_slice(&[magic[0], magic[1], 3, 0, 0, 0, 0, 0, 0, 0, 16]);
					bytes.extend_from_slice(&fill(&mut st, 16));
				}
				Case {
					target: self.target_index("Codec::read"),
					ver: *ver,
					rd: Rd::Bin,
					ct: *ct,
					bytes,
					aux: 0,
					ctx: None,
					origin: json!({"gen": "frame", "ty": ty, "k": k, "announced": announced, "body_len": body.len()}),
					expect_ok: false,
					expect_post: false,
				}
			}
		}
	}
}
