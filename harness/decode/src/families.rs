//! "Many valid items": families of encodings that the harness can build, with the repository's own encoders, at any
//! item count.  spec/Decode.tla (`BigCounts`) chooses the counts from the limit constants of the decoders (half the
//! limit, the limit, one more), on both chain types; each (family, count) is decoded through every wrap of the family
//! (the bare decoder, the containers, the codec frame) and pushed through the post-decode steps of that decoder.
use crate::cases::Ct;
use crate::fieldw::encode;
use crate::seeds::{ctx_of, with_root};
use crate::serve;
use crate::targets::aux_explicit;
use chrono::{Duration, Utc};
use grin_core::core::hash::{Hash, Hashed};
use grin_core::core::pmmr::segment::SegmentIdentifier;
use grin_core::core::transaction::{
	FeeFields, Input, Inputs, KernelFeatures, NRDRelativeHeight, Output, OutputFeatures, Transaction, TransactionBody, TxKernel,
};
use grin_core::core::{Block, BlockHeader};
use grin_core::global;
use grin_core::pow::{self, Difficulty, Proof};
use grin_core::ser::Writeable;
use grin_keychain::BlindingFactor;
use grin_p2p::msg::{Headers, Locator, MsgHeader, PeerAddrs, Type};
use grin_p2p::types::PeerAddr;
use grin_util::secp::pedersen::{Commitment, RangeProof};
use grin_util::secp::Signature;
use rand::rngs::StdRng;
use rand::{Rng, SeedableRng};
use std::net::{Ipv4Addr, Ipv6Addr, SocketAddr, SocketAddrV4, SocketAddrV6};
use std::sync::OnceLock;

pub struct Family {
	pub name: &'static str,
	/// how the specification derives the counts: "weight" (max_block_weight / unit), "count" (the named limit constant),
	/// "height" (segment identifier heights from the lowest served one)
	pub kind: &'static str,
	pub unit: u32,
	pub limit: &'static str,
	pub cts: &'static [Ct],
}

pub const FAMILIES: &[Family] = &[
	Family { name: "body.inputs", kind: "weight", unit: 1, limit: "", cts: &[Ct::Auto, Ct::Main] },
	Family { name: "body.outputs", kind: "weight", unit: 21, limit: "", cts: &[Ct::Auto, Ct::Main] },
	Family { name: "body.kernels", kind: "weight", unit: 3, limit: "", cts: &[Ct::Auto, Ct::Main] },
	Family { name: "body.mix", kind: "weight", unit: 25, limit: "", cts: &[Ct::Auto, Ct::Main] },
	Family { name: "peeraddrs", kind: "count", unit: 0, limit: "MAX_PEER_ADDRS", cts: &[Ct::Auto] },
	Family { name: "locator", kind: "count", unit: 0, limit: "MAX_LOCATORS", cts: &[Ct::Auto] },
	Family { name: "headers", kind: "count", unit: 0, limit: "MAX_BLOCK_HEADERS", cts: &[Ct::Auto] },
	Family { name: "seg.kernel", kind: "height", unit: 0, limit: "", cts: &[Ct::Main] },
	Family { name: "seg.bitmap", kind: "height", unit: 0, limit: "", cts: &[Ct::Main] },
	Family { name: "seg.output", kind: "height", unit: 0, limit: "", cts: &[Ct::Main] },
	Family { name: "seg.rangeproof", kind: "height", unit: 0, limit: "", cts: &[Ct::Main] },
];

pub fn index_of(name: &str) -> Option<usize> {
	FAMILIES.iter().position(|f| f.name == name)
}

/// lowest identifier height the adapter serves for the segment families (the real constants, see serve.rs)
pub fn lo_height(name: &str) -> u32 {
	serve::lowest_height(name.trim_start_matches("seg.")) as u32
}

/// (decoder, frame type of the codec form) of every wrap of a family on a chain type
pub fn wraps(fam: usize, ct: Ct) -> Vec<(&'static str, Option<Type>)> {
	let auto = ct == Ct::Auto;
	match FAMILIES[fam].name {
		n if n.starts_with("body.") => {
			let mut v = vec![
				("TransactionBody::read", None),
				("Transaction::read", None),
				("Block::read", None),
				("Codec::read", Some(Type::Transaction)),
			];
			if auto {
				v.push(("UntrustedBlock::read", None));
				v.push(("Codec::read", Some(Type::Block)));
			}
			v
		}
		"peeraddrs" => vec![("PeerAddrs::read", None), ("Codec::read", Some(Type::PeerAddrs))],
		"locator" => vec![("Locator::read", None), ("Codec::read", Some(Type::GetHeaders))],
		"headers" => vec![("Codec::read", Some(Type::Headers))],
		"seg.kernel" => vec![("SegmentResponse<TxKernel>::read", None), ("Codec::read", Some(Type::KernelSegment))],
		"seg.bitmap" => vec![("OutputBitmapSegmentResponse::read", None), ("Codec::read", Some(Type::OutputBitmapSegment))],
		"seg.output" => vec![("OutputSegmentResponse::read", None), ("Codec::read", Some(Type::OutputSegment))],
		"seg.rangeproof" => vec![("SegmentResponse<RangeProof>::read", None), ("Codec::read", Some(Type::RangeProofSegment))],
		_ => vec![],
	}
}

/// the value built for (family, count, chain type): kept so that consecutive cases re-encode instead of re-building
pub struct Built {
	pub key: (usize, u32, Ct),
	body: Option<TransactionBody>,
	addrs: Option<PeerAddrs>,
	locator: Option<Locator>,
}

struct G {
	rng: StdRng,
}
impl G {
	fn bytes(&mut self, n: usize) -> Vec<u8> {
		let mut v = vec![0u8; n];
		self.rng.fill(&mut v[..]);
		v
	}
	fn commit(&mut self) -> Commitment {
		let mut b = self.bytes(33);
		b[0] = 8 + (b[0] & 1);
		Commitment::from_vec(b)
	}
	fn kernel(&mut self, k: usize) -> TxKernel {
		let fee = FeeFields::new(0, 1 + (k as u64 % 1000)).expect("fee");
		let features = match k % 4 {
			0 => KernelFeatures::Plain { fee },
			1 => KernelFeatures::Coinbase,
			2 => KernelFeatures::HeightLocked { fee, lock_height: 1 },
			_ => KernelFeatures::NoRecentDuplicate {
				fee,
				relative_height: NRDRelativeHeight::new(1 + (k as u64 % 1000)).expect("nrd"),
			},
		};
		let mut s = [0u8; 64];
		s.copy_from_slice(&self.bytes(64));
		TxKernel {
			features,
			excess: self.commit(),
			excess_sig: Signature::from_raw_data(&s).expect("sig"),
		}
	}
	fn output(&mut self, k: usize) -> Output {
		let mut p = [0u8; 675];
		p.copy_from_slice(&self.bytes(675));
		let f = if k % 7 == 1 { OutputFeatures::Coinbase } else { OutputFeatures::Plain };
		Output::new(f, self.commit(), RangeProof { proof: p, plen: 675 })
	}
	fn addr(&mut self, k: usize) -> PeerAddr {
		let port = self.rng.gen::<u16>();
		if k % 2 == 0 {
			let b = self.bytes(4);
			PeerAddr(SocketAddr::V4(SocketAddrV4::new(Ipv4Addr::new(b[0], b[1], b[2], b[3]), port)))
		} else {
			let mut a = [0u8; 16];
			a.copy_from_slice(&self.bytes(16));
			a[0] = 0x20;
			PeerAddr(SocketAddr::V6(SocketAddrV6::new(Ipv6Addr::from(a), port, 0, 0)))
		}
	}
}

fn plain_header(height: u64) -> BlockHeader {
	let mut h = BlockHeader::default();
	h.height = height;
	h.timestamp = Utc::now() - Duration::seconds(3600);
	h.output_mmr_size = 1 + height;
	h.kernel_mmr_size = 1 + height;
	h.pow.total_difficulty = Difficulty::from_num(1000);
	h.pow.secondary_scaling = 100;
	h
}

/// a header with a valid proof of work (chain type AutomatedTesting: instant), mined once per process
fn mined_header() -> BlockHeader {
	static H: OnceLock<BlockHeader> = OnceLock::new();
	H.get_or_init(|| {
		crate::alloc_track::unmeasured(|| {
			let mut h = plain_header(2);
			pow::pow_size(&mut h, Difficulty::min_dma(), global::proofsize(), global::min_edge_bits()).expect("mine");
			h
		})
	})
	.clone()
}

fn unmined_header() -> BlockHeader {
	let mut h = plain_header(2);
	let eb = 29u8;
	h.pow.proof = Proof {
		edge_bits: eb,
		nonces: (0..global::proofsize() as u64).map(|i| 1000 + 7 * i).collect(),
	};
	h
}

fn framed<T: Writeable>(ty: Type, body: &T, ver: u32) -> Option<Vec<u8>> {
	let (b, _) = encode(body, ver)?;
	let (mut h, _) = encode(&MsgHeader::new(ty, b.len() as u64), ver)?;
	h.extend_from_slice(&b);
	Some(h)
}

fn enc<T: Writeable>(x: &T, ver: u32, frame: Option<Type>) -> Option<Vec<u8>> {
	match frame {
		Some(ty) => framed(ty, x, ver),
		None => encode(x, ver).map(|(b, _)| b),
	}
}

struct RawBody(Vec<u8>);
impl Writeable for RawBody {
	fn write<W: grin_core::ser::Writer>(&self, w: &mut W) -> Result<(), grin_core::ser::Error> {
		w.write_fixed_bytes(&self.0)
	}
}

/// (decoder, bytes, check parameters) of one case; None when the encoder refuses (e.g. the count does not fit)
pub fn build(
	cache: &mut Option<Built>,
	seed: u64,
	fam: usize,
	n: u32,
	wrap: usize,
	ver: u32,
	ct: Ct,
) -> Option<(&'static str, Vec<u8>, u64, Option<Vec<u8>>)> {
	global::set_local_chain_type(ct.chain_type());
	let ws = wraps(fam, ct);
	let (target, frame) = *ws.get(wrap)?;
	let name = FAMILIES[fam].name;
	let key = (fam, n, ct);
	if cache.as_ref().map(|b| b.key) != Some(key) {
		let mut g = G {
			rng: StdRng::seed_from_u64(seed ^ 0xb16_fa31 ^ ((fam as u64) << 40) ^ ((n as u64) << 8) ^ ct as u64),
		};
		let mut b = Built { key, body: None, addrs: None, locator: None };
		let n = n as usize;
		if name.starts_with("body.") {
			let (ni, no, nk) = match name {
				"body.inputs" => (n, 0, 0),
				"body.outputs" => (0, n, 0),
				"body.kernels" => (0, 0, n),
				_ => (n, n, n),
			};
			let inputs: Vec<Input> = (0..ni).map(|_| Input::new(OutputFeatures::Plain, g.commit())).collect();
			let outputs: Vec<Output> = (0..no).map(|k| g.output(k)).collect();
			let kernels: Vec<TxKernel> = (0..nk).map(|k| g.kernel(k)).collect();
			b.body = Some(TransactionBody::init(Inputs::from(&inputs[..]), &outputs, &kernels, false).ok()?);
		} else if name == "peeraddrs" {
			b.addrs = Some(PeerAddrs { peers: (0..n).map(|k| g.addr(k)).collect() });
		} else if name == "locator" {
			b.locator = Some(Locator {
				hashes: (0..n).map(|_| Hash::from_vec(&g.bytes(32))).collect(),
			});
		}
		*cache = Some(b);
	}
	let b = cache.as_ref()?;
	if let Some(body) = &b.body {
		let bytes = match (target, frame) {
			("TransactionBody::read", _) => enc(body, ver, None)?,
			("Transaction::read", _) | (_, Some(Type::Transaction)) => {
				let tx = Transaction {
					offset: BlindingFactor::from_slice(&[7u8; 32]),
					body: body.clone(),
				};
				enc(&tx, ver, frame)?
			}
			("Block::read", _) => {
				let blk = Block {
					header: if ct == Ct::Auto { mined_header() } else { unmined_header() },
					body: body.clone(),
				};
				enc(&blk, ver, None)?
			}
			_ => {
				let blk = Block {
					header: mined_header(),
					body: body.clone(),
				};
				enc(&blk, ver, frame)?
			}
		};
		return Some((target, bytes, 0, None));
	}
	if let Some(a) = &b.addrs {
		return Some((target, enc(a, ver, frame)?, 0, None));
	}
	if let Some(l) = &b.locator {
		if l.hashes.len() > 255 {
			return None;
		}
		return Some((target, enc(l, ver, frame)?, 0, None));
	}
	if name == "headers" {
		if n > 65535 {
			return None;
		}
		let h = mined_header();
		let hs = Headers {
			headers: (0..n).map(|_| h.clone()).collect(),
		};
		return Some((target, enc(&hs, ver, frame)?, 0, None));
	}
	if name.starts_with("seg.") {
		if n > 255 {
			return None;
		}
		let kind = name.trim_start_matches("seg.");
		let id = SegmentIdentifier { height: n as u8, idx: 0 };
		let (_, kept) = crate::alloc_track::unmeasured(|| serve::serve_all(id, ver, true));
		serve::reset();
		let body = kept.into_iter().find(|(k, _)| *k == kind)?.1;
		let (size, root) = serve::fixture_env(kind);
		let other = Hash::from_vec(&[0x33u8; 32]);
		let prunable = kind == "output" || kind == "rangeproof";
		let aux = aux_explicit(size, prunable);
		let ctx = if kind == "output" || kind == "bitmap" {
			ctx_of(with_root(root, other, size), other)
		} else {
			ctx_of(root, other)
		};
		let bytes = match frame {
			Some(ty) => framed(ty, &RawBody(body), ver)?,
			None => body,
		};
		return Some((target, bytes, aux, ctx));
	}
	None
}

#[allow(dead_code)]
fn _unused(h: &BlockHeader) -> Hash {
	h.hash()
}
