//! The stratum server's share submission (`{"method": "submit", "params": {...}}` on the mining port): the REAL text of
//! `SubmitParams`, `parse_params` and `Handler::handle_submit`, copied by build.rs out of
//! servers/src/mining/stratumserver.rs of the tree under test and compiled here (OUT_DIR/stratum_extracted.rs).
//! HARNESS GLUE (not grin code): `Handler`, `State`, `WorkersList`, `RpcError` and the chain stand-in below supply
//! what that text refers to; the job a share is submitted for is one block template at a fixed height, the worker is
//! logged in, `process_block` (reached only by a share that meets the network difficulty) refuses.
//! The log macros evaluate their arguments for the levels a node logs by default (error, warn, info).
use grin_chain as chain;
use grin_core::core::hash::Hashed;
use grin_core::core::{Block, BlockHeader};
use grin_core::global;
use grin_core::pow::{self, Difficulty};
use grin_util::{RwLock, ToHex};
use serde_derive::{Deserialize, Serialize};
use serde_json::Value;

macro_rules! error { ($($t:tt)*) => {{ let _ = format!($($t)*); }} }
macro_rules! warn { ($($t:tt)*) => {{ let _ = format!($($t)*); }} }
macro_rules! info { ($($t:tt)*) => {{ let _ = format!($($t)*); }} }

#[derive(Debug)]
pub struct RpcError {
	pub code: i32,
	pub message: String,
}
#[allow(dead_code)]
impl RpcError {
	fn of(code: i32, m: &str) -> RpcError {
		RpcError { code, message: m.to_string() }
	}
	pub fn internal_error() -> Self {
		Self::of(32603, "Internal error")
	}
	pub fn too_late() -> Self {
		Self::of(-32503, "Solution submitted too late")
	}
	pub fn cannot_validate() -> Self {
		Self::of(-32502, "Failed to validate solution")
	}
	pub fn too_low_difficulty() -> Self {
		Self::of(-32501, "Share rejected due to low difficulty")
	}
	pub fn invalid_request() -> Self {
		Self::of(-32600, "Invalid Request")
	}
}

#[derive(Clone, Default)]
pub struct WorkerStats {
	pub id: String,
	pub num_accepted: u64,
	pub num_rejected: u64,
	pub num_stale: u64,
	pub num_blocks_found: u64,
}
#[derive(Default)]
pub struct StratumStats {
	pub blocks_found: u16,
	pub edge_bits: u16,
	pub worker_stats: Vec<WorkerStats>,
}
#[derive(Clone)]
pub struct Worker {
	pub id: usize,
	pub login: Option<String>,
}
pub struct WorkersList {
	pub stratum_stats: RwLock<StratumStats>,
}
#[allow(dead_code)]
impl WorkersList {
	pub fn get_worker(&self, worker_id: usize) -> Result<Worker, RpcError> {
		Ok(Worker { id: worker_id, login: Some("miner".to_string()) })
	}
	pub fn get_stats(&self, worker_id: usize) -> Result<WorkerStats, RpcError> {
		self.stratum_stats.read().worker_stats.get(worker_id).cloned().ok_or_else(RpcError::internal_error)
	}
	pub fn update_stats(&self, worker_id: usize, f: impl FnOnce(&mut WorkerStats)) {
		let mut s = self.stratum_stats.write();
		f(&mut s.worker_stats[worker_id]);
	}
	pub fn update_edge_bits(&self, edge_bits: u16) {
		self.stratum_stats.write().edge_bits = edge_bits;
	}
}

pub struct FakeChain;
impl FakeChain {
	pub fn process_block(&self, _b: Block, _opts: chain::Options) -> Result<Option<chain::Tip>, chain::Error> {
		Err(chain::Error::Other("the harness has no chain".to_string()))
	}
}

pub struct State {
	pub current_block_versions: Vec<Block>,
	pub current_difficulty: u64,
	pub minimum_share_difficulty: u64,
}

pub struct Handler {
	id: String,
	workers: WorkersList,
	chain: FakeChain,
	current_state: RwLock<State>,
}

include!(concat!(env!("OUT_DIR"), "/stratum_extracted.rs"));

/// height of the block template the shares are submitted for
pub const JOB_HEIGHT: u64 = 5;

pub fn job_header() -> BlockHeader {
	let mut h = BlockHeader::default();
	h.height = JOB_HEIGHT;
	h.pow.total_difficulty = Difficulty::from_num(1000);
	h.pow.secondary_scaling = 100;
	h
}

/// `network`: the share difficulty needed to count as a block (u64::MAX: never; 0: always -> `process_block`)
pub fn handler(network: u64) -> Handler {
	let mut b = Block::default();
	b.header = job_header();
	Handler {
		id: "0".to_string(),
		workers: WorkersList {
			stratum_stats: RwLock::new(StratumStats {
				worker_stats: vec![WorkerStats { id: "0".to_string(), ..Default::default() }],
				..Default::default()
			}),
		},
		chain: FakeChain,
		current_state: RwLock::new(State {
			current_block_versions: vec![b],
			current_difficulty: network,
			minimum_share_difficulty: 1,
		}),
	}
}

/// the request's `params` handed to the real `handle_submit`; Ok = the share was accepted
pub fn submit(params: Value, network: u64) -> bool {
	handler(network).handle_submit(Some(params), 0).is_ok()
}

/// a share that the unchanged handler accepts (chain type AutomatedTesting: the template is mined here)
pub fn valid_params() -> String {
	let mut h = job_header();
	pow::pow_size(&mut h, Difficulty::min_dma(), global::proofsize(), global::min_edge_bits()).expect("mine");
	let pow: Vec<String> = h.pow.proof.nonces.iter().map(|n| n.to_string()).collect();
	format!(
		"{{\"height\":{},\"job_id\":0,\"nonce\":{},\"edge_bits\":{},\"pow\":[{}]}}",
		JOB_HEIGHT,
		h.pow.nonce,
		h.pow.proof.edge_bits,
		pow.join(",")
	)
}

#[allow(dead_code)]
fn _unused(b: &Block) -> String {
	b.hash().to_hex()
}
