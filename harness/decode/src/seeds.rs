//! Valid encodings ("seeds"): real values encoded by the repository's own `Writeable` impls through the
//! field-recording writer.  One seed = (target, encoding version, bytes, field map, check parameters).
use crate::fieldw::{encode, Field};
use crate::targets::aux_explicit;
use chrono::{Duration, Utc};
use grin_chain::txhashset::{BitmapAccumulator, BitmapSegment};
use grin_core::core::hash::Hash;
use grin_core::core::merkle_proof::MerkleProof;
use grin_core::core::pmmr::segment::{Segment, SegmentIdentifier, SegmentProof};
use grin_core::core::pmmr::{self, ReadablePMMR, ReadonlyPMMR, VecBackend, PMMR};
use grin_core::core::transaction::{
	CommitWrapper, FeeFields, Input, Inputs, KernelFeatures, NRDRelativeHeight, Output, OutputFeatures,
	OutputIdentifier, Transaction, TransactionBody, TxKernel,
};
use grin_core::core::{Block, BlockHeader, CompactBlock, ShortId};
use grin_core::global;
use grin_core::pow::{self, Difficulty, Proof};
use grin_core::ser::{self, PMMRIndexHashable, PMMRable, ProtocolVersion, Readable, Writeable};
use grin_keychain::BlindingFactor;
use grin_p2p::msg::{
	BanReason, GetPeerAddrs, Hand, Headers, Locator, MsgHeader, OutputBitmapSegmentResponse, OutputSegmentResponse,
	PeerAddrs, PeerError, Ping, Pong, SegmentRequest, SegmentResponse, Shake, TxHashSetArchive, TxHashSetRequest, Type,
};
use grin_p2p::types::{Capabilities, PeerAddr, ReasonForBan};
use grin_util::secp::pedersen::{Commitment, RangeProof};
use grin_util::secp::Signature;
use grin_util::ToHex;
use rand::rngs::StdRng;
use rand::{Rng, SeedableRng};
use std::net::{Ipv4Addr, Ipv6Addr, SocketAddr, SocketAddrV4, SocketAddrV6};

pub const VERSIONS: [u32; 4] = [1, 2, 3, 1000];

#[derive(Clone)]
pub struct SeedEnc {
	pub target: &'static str,
	pub label: String,
	pub ver: u32,
	pub bytes: Vec<u8>,
	pub fields: Vec<Field>,
	pub aux: u64,
	pub ctx: Option<Vec<u8>>,
	/// the unmutated seed must decode (and, where set, pass its stateless checks) on chain type "auto"
	pub expect_ok: bool,
	pub expect_post: bool,
	/// 0-based field indices of a segment identifier (height u8, idx u64) inside this encoding
	pub ident: Option<(usize, usize)>,
	/// 0-based field index of the hash count of a segment proof inside this encoding
	pub proof: Option<usize>,
	/// repeated groups inside this encoding: (count field, first field of the first item, last field of the first item,
	/// last field of the last item), 0-based
	pub groups: Vec<(usize, usize, usize, usize)>,
	/// 0-based field indices (version u16, height u64, edge_bits u8) of the first block header inside this encoding
	/// (the packed nonces are the field after edge_bits)
	pub hdr: Option<(usize, usize, usize)>,
}

/// number of fields of an encoded block header
pub const HEADER_FIELDS: usize = 16;

pub fn fval(s: &SeedEnc, i: usize) -> u64 {
	let f = &s.fields[i];
	let mut v = 0u64;
	for b in &s.bytes[f.off..f.off + f.w.min(8)] {
		v = (v << 8) | *b as u64;
	}
	v
}

fn is_codec(s: &SeedEnc, labels: &[&str]) -> bool {
	s.target == "Codec::read" && labels.iter().any(|l| s.label.starts_with(l))
}

/// the first block header of the encoding
fn find_header(s: &SeedEnc) -> Option<(usize, usize, usize)> {
	let t = s.target;
	let o = if ["BlockHeader::read", "UntrustedBlockHeader::read", "Block::read", "UntrustedBlock::read", "CompactBlock::read", "UntrustedCompactBlock::read"]
		.contains(&t)
	{
		0
	} else if is_codec(s, &["headersv"]) {
		5
	} else if is_codec(s, &["headerv", "blockv", "compactblockv", "validblockv", "validcompactblockv"]) {
		4
	} else {
		return None;
	};
	let k = |i: usize| s.fields.get(i).map(|f| f.kind).unwrap_or("");
	if k(o) == "u16" && k(o + 1) == "u64" && k(o + 14) == "u8" && k(o + 15) == "b" {
		Some((o, o + 1, o + 14))
	} else {
		None
	}
}

/// walk `n` items starting at field `i`; `item_end(i)` = index of the last field of the item starting at i
fn walk<F: Fn(usize) -> Option<usize>>(s: &SeedEnc, c: usize, start: usize, n: u64, item_end: F, out: &mut Vec<(usize, usize, usize, usize)>) -> Option<usize> {
	let mut i = start;
	let mut first: Option<(usize, usize)> = None;
	for _ in 0..n {
		let z = item_end(i)?;
		if z >= s.fields.len() {
			return None;
		}
		if first.is_none() {
			first = Some((i, z));
		}
		i = z + 1;
	}
	if let Some((a, z)) = first {
		out.push((c, a, z, i - 1));
	}
	Some(i)
}

/// repeated groups (count field + items) of the encodings whose shape the harness knows
fn find_groups(s: &SeedEnc) -> Vec<(usize, usize, usize, usize)> {
	let mut out = vec![];
	let t = s.target;
	let nf = s.fields.len();
	let kind = |i: usize| s.fields.get(i).map(|f| f.kind).unwrap_or("");
	let width = |i: usize| s.fields.get(i).map(|f| f.w).unwrap_or(0);
	// an item that ends at the first "b" field of width `w` at or after i
	let until_b = |w: usize| move |i: usize| (i..nf.min(i + 8)).find(|&j| kind(j) == "b" && width(j) == w);
	let body = |o: usize, out: &mut Vec<(usize, usize, usize, usize)>| -> Option<usize> {
		if !(kind(o) == "u64" && kind(o + 1) == "u64" && kind(o + 2) == "u64") {
			return None;
		}
		let (ni, no, nk) = (fval(s, o), fval(s, o + 1), fval(s, o + 2));
		if ni > 64 || no > 64 || nk > 64 {
			return None;
		}
		let i = walk(s, o, o + 3, ni, until_b(33), out)?;
		// an output: features, commitment, length prefix, proof bytes
		let i = walk(s, o + 1, i, no, |i| if kind(i + 2) == "len" { Some(i + 3) } else { None }, out)?;
		walk(s, o + 2, i, nk, until_b(64), out)
	};
	if t == "PeerAddrs::read" || is_codec(s, &["peeraddrsv"]) {
		let o = if t == "Codec::read" { 4 } else { 0 };
		if kind(o) == "u32" {
			walk(s, o, o + 1, fval(s, o), |i| Some(i + 2), &mut out);
		}
	} else if t == "Locator::read" || is_codec(s, &["getheadersv"]) {
		let o = if t == "Codec::read" { 4 } else { 0 };
		if kind(o) == "u8" {
			walk(s, o, o + 1, fval(s, o), |i| Some(i), &mut out);
		}
	} else if t == "MerkleProof::read" {
		if kind(1) == "u64" {
			walk(s, 1, 2, fval(s, 1), |i| Some(i), &mut out);
		}
	} else if t == "SegmentProof::read" {
		if kind(0) == "u64" {
			walk(s, 0, 1, fval(s, 0), |i| Some(i), &mut out);
		}
	} else if t == "TransactionBody::read" {
		body(0, &mut out);
	} else if t == "Transaction::read" || is_codec(s, &["txv", "stemtxv", "validtxv"]) {
		body(if t == "Codec::read" { 5 } else { 1 }, &mut out);
	} else if t == "Block::read" || t == "UntrustedBlock::read" || is_codec(s, &["blockv", "validblockv"]) {
		body(if t == "Codec::read" { 4 + HEADER_FIELDS } else { HEADER_FIELDS }, &mut out);
	} else if t == "CompactBlock::read" || t == "UntrustedCompactBlock::read" || is_codec(s, &["compactblockv", "validcompactblockv"]) {
		// header, nonce, three counts, full outputs, full kernels, short ids
		let o = (if t == "Codec::read" { 4 } else { 0 }) + HEADER_FIELDS + 1;
		if kind(o) == "u64" && kind(o + 1) == "u64" && kind(o + 2) == "u64" && fval(s, o) <= 64 && fval(s, o + 1) <= 64 && fval(s, o + 2) <= 64 {
			if let Some(i) = walk(s, o, o + 3, fval(s, o), |i| if kind(i + 2) == "len" { Some(i + 3) } else { None }, &mut out) {
				if let Some(i) = walk(s, o + 1, i, fval(s, o + 1), until_b(64), &mut out) {
					walk(s, o + 2, i, fval(s, o + 2), |i| Some(i), &mut out);
				}
			}
		}
	} else if t == "BitmapSegment::read" || t == "OutputBitmapSegmentResponse::read" || is_codec(s, &["bitmapseg"]) {
		// identifier (u8, u64), u16 number of blocks; a block: u8 chunks, u8 mode, raw bytes | u16 count + u16 indices
		let o = match t {
			"BitmapSegment::read" => 0,
			"OutputBitmapSegmentResponse::read" => 1,
			_ => 5,
		};
		if kind(o) == "u8" && kind(o + 1) == "u64" && kind(o + 2) == "u16" {
			let block_end = |i: usize| -> Option<usize> {
				if kind(i) != "u8" || kind(i + 1) != "u8" {
					return None;
				}
				if fval(s, i + 1) == 0 {
					Some(if fval(s, i) == 0 { i + 1 } else { i + 2 })
				} else if kind(i + 2) == "u16" {
					Some(i + 2 + fval(s, i + 2) as usize)
				} else {
					None
				}
			};
			walk(s, o + 2, o + 3, fval(s, o + 2), block_end, &mut out);
		}
	} else if is_codec(s, &["headersv"]) {
		if kind(4) == "u16" {
			walk(s, 4, 5, fval(s, 4), |i| Some(i + HEADER_FIELDS - 1), &mut out);
		}
	}
	// every group must lie inside the field list and its count field must be an integer
	out.retain(|(c, a, z, e)| *c < nf && *a <= *z && *z <= *e && *e < nf && ["u8", "u16", "u32", "u64"].contains(&kind(*c)));
	out
}

/// the identifier is the first (u8, u64) field pair after the frame header (codec) / the leading block hash (responses)
fn find_ident(s: &SeedEnc) -> Option<(usize, usize)> {
	let t = s.target;
	let start = if t == "Codec::read" {
		if !s.label.contains("seg") {
			return None;
		}
		4
	} else if t.contains("Segment") {
		0
	} else {
		return None;
	};
	(start..s.fields.len().saturating_sub(1))
		.find(|&i| s.fields[i].kind == "u8" && s.fields[i + 1].kind == "u64")
		.map(|i| (i, i + 1))
}

/// the segment proof is the last item of a segment (responses append one more hash): a u64 count followed by that many
/// 32-byte hashes
fn find_proof(s: &SeedEnc) -> Option<usize> {
	let t = s.target;
	let is_seg = (t.contains("Segment") && !t.contains("SegmentRequest") && !t.contains("SegmentIdentifier"))
		|| (t == "Codec::read" && s.label.contains("seg") && !s.label.starts_with("get"));
	if !is_seg {
		return None;
	}
	let n = s.fields.len();
	let r = s.fields.iter().rev().take_while(|f| f.kind == "b" && f.w == 32).count();
	if r >= n {
		return None;
	}
	let j = n - 1 - r;
	let f = &s.fields[j];
	if f.kind != "u64" {
		return None;
	}
	let mut b = [0u8; 8];
	b.copy_from_slice(&s.bytes[f.off..f.off + 8]);
	let v = u64::from_be_bytes(b) as usize;
	let trailing_root = t.starts_with("Output") || (t == "Codec::read" && (s.label == "outseg" || s.label == "bitmapseg"));
	if (trailing_root && v + 1 == r) || (!trailing_root && v == r) {
		Some(j)
	} else {
		None
	}
}

pub struct Gen {
	rng: StdRng,
	pub out: Vec<SeedEnc>,
	auto: bool,
}

impl Gen {
	fn bytes(&mut self, n: usize) -> Vec<u8> {
		(0..n).map(|_| self.rng.gen::<u8>()).collect()
	}
	fn hash(&mut self) -> Hash {
		Hash::from_vec(&self.bytes(32))
	}
	fn commit(&mut self) -> Commitment {
		let mut b = self.bytes(33);
		b[0] = 8 + (b[0] & 1);
		Commitment::from_vec(b)
	}
	fn sig(&mut self) -> Signature {
		let mut s = [0u8; 64];
		s.copy_from_slice(&self.bytes(64));
		Signature::from_raw_data(&s).expect("sig")
	}
	fn proof(&mut self) -> RangeProof {
		let mut p = [0u8; 675];
		p.copy_from_slice(&self.bytes(675));
		RangeProof { proof: p, plen: 675 }
	}
	fn fee(&mut self) -> FeeFields {
		FeeFields::new(self.rng.gen_range(0, 4), self.rng.gen_range(1, 1 << 30)).expect("fee")
	}
	fn kernel(&mut self, kind: usize) -> TxKernel {
		let features = match kind % 4 {
			0 => KernelFeatures::Plain { fee: self.fee() },
			1 => KernelFeatures::Coinbase,
			2 => KernelFeatures::HeightLocked {
				fee: self.fee(),
				lock_height: self.rng.gen_range(0, 3),
			},
			_ => KernelFeatures::NoRecentDuplicate {
				fee: self.fee(),
				relative_height: NRDRelativeHeight::new(self.rng.gen_range(1, 1000)).expect("nrd"),
			},
		};
		TxKernel {
			features,
			excess: self.commit(),
			excess_sig: self.sig(),
		}
	}
	fn feat(k: usize) -> OutputFeatures {
		if k % 2 == 1 {
			OutputFeatures::Coinbase
		} else {
			OutputFeatures::Plain
		}
	}
	fn output(&mut self, k: usize) -> Output {
		let c = self.commit();
		let p = self.proof();
		Output::new(Self::feat(k), c, p)
	}
	fn outid(&mut self, k: usize) -> OutputIdentifier {
		OutputIdentifier::new(Self::feat(k), &self.commit())
	}
	fn input(&mut self, k: usize) -> Input {
		Input::new(Self::feat(k), self.commit())
	}
	fn body(&mut self, ni: usize, no: usize, nk: usize, block: bool) -> TransactionBody {
		let inputs: Vec<Input> = (0..ni).map(|k| self.input(if block { k } else { 0 })).collect();
		let outputs: Vec<Output> = (0..no).map(|k| self.output(if block { k + 1 } else { 0 })).collect();
		let kernels: Vec<TxKernel> = (0..nk).map(|k| self.kernel(if block { k + 1 } else { k * 2 })).collect();
		TransactionBody::init(Inputs::from(&inputs[..]), &outputs, &kernels, false).expect("body")
	}
	fn tx(&mut self, ni: usize, no: usize, nk: usize) -> Transaction {
		let b = self.body(ni, no, nk, false);
		let off = BlindingFactor::from_slice(&self.bytes(32));
		Transaction { offset: off, body: b }
	}
	fn header(&mut self, height: u64) -> BlockHeader {
		let mut h = BlockHeader::default();
		h.height = height;
		h.timestamp = Utc::now() - Duration::seconds(self.rng.gen_range(60, 100_000));
		h.prev_hash = self.hash();
		h.prev_root = self.hash();
		h.output_root = self.hash();
		h.range_proof_root = self.hash();
		h.kernel_root = self.hash();
		h.total_kernel_offset = BlindingFactor::from_slice(&self.bytes(32));
		h.output_mmr_size = 1 + height;
		h.kernel_mmr_size = 1 + height;
		h.pow.nonce = self.rng.gen_range(0, 1 << 40);
		h.pow.total_difficulty = Difficulty::from_num(self.rng.gen_range(10, 1 << 30));
		h.pow.secondary_scaling = self.rng.gen_range(1, 2000);
		if self.auto {
			pow::pow_size(&mut h, Difficulty::min_dma(), global::proofsize(), global::min_edge_bits()).expect("mine");
		} else {
			// no cuckatoo31 miner here: a well-formed proof that fails the cycle check
			let eb = if self.rng.gen::<bool>() { 31 } else { 29 };
			let mut n: Vec<u64> = (0..global::proofsize()).map(|_| self.rng.gen_range(0, 1u64 << eb)).collect();
			n.sort_unstable();
			h.pow.proof = Proof { edge_bits: eb, nonces: n };
		}
		h
	}
	fn addr(&mut self, k: usize) -> PeerAddr {
		let port = self.rng.gen::<u16>();
		if k % 2 == 0 {
			let b = self.bytes(4);
			PeerAddr(SocketAddr::V4(SocketAddrV4::new(Ipv4Addr::new(b[0], b[1], b[2], b[3]), port)))
		} else {
			let mut a = [0u8; 16];
			a.copy_from_slice(&self.bytes(16));
			a[0] = 0x20;
			PeerAddr(SocketAddr::V6(SocketAddrV6::new(Ipv6Addr::from(a), port, 0, 0)))
		}
	}

	/// record `x` encoded at every protocol version that yields a distinct encoding
	fn add<T: Writeable>(&mut self, target: &'static str, label: &str, x: &T, aux: u64, ctx: Option<Vec<u8>>, post: bool) {
		let mut seen: Vec<Vec<u8>> = vec![];
		for v in VERSIONS.iter() {
			if let Some((bytes, fields)) = encode(x, *v) {
				if seen.contains(&bytes) {
					continue;
				}
				seen.push(bytes.clone());
				self.out.push(SeedEnc {
					target,
					label: label.to_string(),
					ver: *v,
					bytes,
					fields,
					aux,
					ctx: ctx.clone(),
					expect_ok: self.auto,
					expect_post: self.auto && post,
					ident: None,
					proof: None,
					groups: vec![],
					hdr: None,
				});
			}
		}
	}
	fn add0<T: Writeable>(&mut self, target: &'static str, label: &str, x: &T) {
		self.add(target, label, x, 0, None, false)
	}
}

/// A coinbase-only block and a 1-input 1-output transaction that pass full stateless validation (`Block::validate`,
/// `Transaction::validate`): real commitments, range proofs and kernel signatures, made with fixed signing nonces so
/// that every process regenerates the same bytes.
fn valid_crypto(g: &mut Gen) -> Option<(Block, Transaction)> {
	use grin_core::libtx::{proof, reward, ProofBuilder};
	use grin_keychain::{ExtKeychain, ExtKeychainPath, Keychain, SwitchCommitmentType};
	use grin_util::secp::key::SecretKey;
	let kc = ExtKeychain::from_seed(&g.bytes(32), false).ok()?;
	let pb = ProofBuilder::new(&kc);
	let sw = SwitchCommitmentType::Regular;
	let kid = |n: u32| ExtKeychainPath::new(1, n, 0, 0, 0).to_identifier();
	let (out, kern) = reward::output(&kc, &pb, &kid(1), 0, true).ok()?;
	let mut h = g.header(2);
	h.total_kernel_offset = BlindingFactor::zero();
	if g.auto {
		pow::pow_size(&mut h, Difficulty::min_dma(), global::proofsize(), global::min_edge_bits()).ok()?;
	}
	let body = TransactionBody::init(Inputs::default(), &[out], &[kern], false).ok()?;
	let blk = Block { header: h, body };
	let (vin, vout) = (60_000_000u64, 50_000_000u64);
	let cin = kc.commit(vin, &kid(2), sw).ok()?;
	let cout = kc.commit(vout, &kid(3), sw).ok()?;
	let rp = proof::create(&kc, &pb, vout, &kid(3), sw, cout, None).ok()?;
	let sk_in = kc.derive_key(vin, &kid(2), sw).ok()?;
	let sk_out = kc.derive_key(vout, &kid(3), sw).ok()?;
	let secp = kc.secp();
	let excess_key = secp.blind_sum(vec![sk_out], vec![sk_in]).ok()?;
	let features = KernelFeatures::Plain {
		fee: FeeFields::new(0, vin - vout).ok()?,
	};
	let msg = features.kernel_sig_msg().ok()?;
	let excess = secp.commit(0, excess_key.clone()).ok()?;
	let pubkey = excess.to_pubkey(secp).ok()?;
	let nonce = SecretKey::from_slice(secp, &[2u8; 32]).ok()?;
	let sig = grin_util::secp::aggsig::sign_single(secp, &msg, &excess_key, Some(&nonce), None, None, Some(&pubkey), None).ok()?;
	let kernel = TxKernel {
		features,
		excess,
		excess_sig: sig,
	};
	let inputs = [Input::new(OutputFeatures::Plain, cin)];
	let body = TransactionBody::init(Inputs::from(&inputs[..]), &[Output::new(OutputFeatures::Plain, cout, rp)], &[kernel], false).ok()?;
	let tx = Transaction {
		offset: BlindingFactor::zero(),
		body,
	};
	Some((blk, tx))
}

/// value tokens of a JSON text: strings that are not object keys (quotes included) and numbers / true / false / null
fn json_value_fields(t: &str) -> Vec<Field> {
	let b = t.as_bytes();
	let mut out = vec![];
	let mut i = 0;
	while i < b.len() {
		match b[i] {
			b'[' => {
				// a whole array is a field of its own ("ja": its length is mutated), followed by the fields of its elements
				let mut depth = 0i32;
				let mut j = i;
				let mut in_str = false;
				while j < b.len() {
					match b[j] {
						b'\\' if in_str => j += 1,
						b'"' => in_str = !in_str,
						b'[' | b'{' if !in_str => depth += 1,
						b']' | b'}' if !in_str => {
							depth -= 1;
							if depth == 0 {
								break;
							}
						}
						_ => {}
					}
					j += 1;
				}
				if j < b.len() {
					out.push(Field { off: i, w: j + 1 - i, kind: "ja" });
				}
				i += 1;
			}
			b'"' => {
				let start = i;
				i += 1;
				while i < b.len() && b[i] != b'"' {
					if b[i] == b'\\' {
						i += 1;
					}
					i += 1;
				}
				i += 1; // closing quote
				let mut j = i;
				while j < b.len() && (b[j] == b' ' || b[j] == b'\n') {
					j += 1;
				}
				if !(j < b.len() && b[j] == b':') {
					out.push(Field { off: start, w: i.min(b.len()) - start, kind: "js" });
				}
			}
			c if c == b'-' || c.is_ascii_digit() || c == b't' || c == b'f' || c == b'n' => {
				let start = i;
				while i < b.len() && !matches!(b[i], b',' | b'}' | b']' | b' ' | b'\n') {
					i += 1;
				}
				out.push(Field { off: start, w: i - start, kind: "jn" });
			}
			_ => i += 1,
		}
	}
	out
}

fn segproof(g: &mut Gen, n: usize) -> SegmentProof {
	let mut bytes = (n as u64).to_be_bytes().to_vec();
	for _ in 0..n {
		bytes.extend_from_slice(&g.bytes(32));
	}
	ser::deserialize_default(&mut &bytes[..]).expect("segment proof")
}

/// a real MMR of n elements and the segments cut from it, with the true root
fn mmr_segments<T, F>(g: &mut Gen, n: u64, mk: F, ids: &[(u8, u64, bool)]) -> (Vec<(Segment<T::E>, u64, bool, Hash)>, MerkleProof, u64, Hash, Vec<u8>)
where
	T: PMMRable + PMMRIndexHashable,
	T::E: Readable + Writeable + std::fmt::Debug,
	F: Fn(&mut Gen, usize) -> T,
{
	let mut be: VecBackend<T> = VecBackend::new();
	{
		let mut m = PMMR::new(&mut be);
		for k in 0..n {
			let e = mk(g, k as usize);
			m.push(&e).expect("push");
		}
	}
	let size = be.size();
	let ro = ReadonlyPMMR::at(&be, size);
	let root = ro.root().expect("root");
	let mut out = vec![];
	for (h, idx, prunable) in ids {
		let id = SegmentIdentifier { height: *h, idx: *idx };
		let s = Segment::from_pmmr(id, &ro, *prunable).expect("segment");
		out.push((s, size, *prunable, root));
	}
	let mp = ro.merkle_proof(pmmr::insertion_to_pmmr_index(n / 2)).expect("merkle proof");
	let elem = be.data.as_ref().map(|d| ser::ser_vec(&d[(n / 2) as usize], ProtocolVersion(1)).expect("element")).unwrap_or_default();
	(out, mp, size, root, elem)
}

pub fn ctx_of(root: Hash, other: Hash) -> Option<Vec<u8>> {
	let mut v = root.to_vec();
	v.extend_from_slice(&other.to_vec());
	Some(v)
}

/// root expected by `validate_with(.., last_pos = mmr_size + 7, other, other_is_left = true)`
pub fn with_root(root: Hash, other: Hash, size: u64) -> Hash {
	(other, root).hash_with_index(size + 7)
}

fn frame<T: Writeable>(ty: Type, body: &T, ver: u32) -> Option<(Vec<u8>, Vec<Field>)> {
	let (b, bf) = encode(body, ver)?;
	let (mut h, mut hf) = encode(&MsgHeader::new(ty, b.len() as u64), ver)?;
	let off = h.len();
	h.extend_from_slice(&b);
	for f in bf {
		hf.push(Field { off: f.off + off, w: f.w, kind: f.kind });
	}
	Some((h, hf))
}

pub fn build(seed: u64, auto: bool) -> Vec<SeedEnc> {
	let mut g = Gen {
		rng: StdRng::seed_from_u64(seed ^ 0x5eed_dec0de),
		out: vec![],
		auto,
	};
	// ---- leaves
	let h = g.hash();
	g.add0("Hash::read", "hash", &h);
	g.add0("ShortId::read", "shortid", &ShortId::from_bytes(&[1, 2, 3, 4, 5, 6]));
	for k in 0..4 {
		let kern = g.kernel(k);
		g.add0("KernelFeatures::read", &format!("kf{}", k), &kern.features);
		g.add("TxKernel::read", &format!("kernel{}", k), &kern, 0, None, false);
	}
	for k in 0..2 {
		let i = g.input(k);
		g.add0("Input::read", &format!("input{}", k), &i);
		let o = g.output(k);
		g.add0("Output::read", &format!("output{}", k), &o);
		g.add0("OutputIdentifier::read", &format!("outid{}", k), &o.identifier);
	}
	let cw: CommitWrapper = g.commit().into();
	g.add0("CommitWrapper::read", "commit", &cw);
	let rp = g.proof();
	g.add0("RangeProof::read", "rangeproof", &rp);
	// ---- bodies, transactions
	for (ni, no, nk) in [(0usize, 0usize, 0usize), (1, 1, 1), (2, 1, 3), (3, 2, 2)].iter() {
		let b = g.body(*ni, *no, *nk, true);
		g.add("TransactionBody::read", &format!("body{}{}{}", ni, no, nk), &b, 0, None, true);
	}
	for (ni, no, nk) in [(1usize, 1usize, 1usize), (2, 2, 2), (0, 1, 1), (3, 1, 4)].iter() {
		let t = g.tx(*ni, *no, *nk);
		g.add("Transaction::read", &format!("tx{}{}{}", ni, no, nk), &t, 0, None, true);
	}
	// ---- headers, blocks
	let hd = g.header(1);
	g.add("BlockHeader::read", "header", &hd, 0, None, true);
	g.add("UntrustedBlockHeader::read", "header", &hd, 0, None, true);
	g.add0("Proof::read", "proof", &hd.pow.proof);
	g.add0("ProofOfWork::read", "pow", &hd.pow);
	let mut blocks = vec![];
	for (ni, no, nk) in [(0usize, 1usize, 1usize), (2, 2, 3)].iter() {
		let blk = Block {
			header: g.header(2),
			body: g.body(*ni, *no, *nk, true),
		};
		let l = format!("block{}{}{}", ni, no, nk);
		g.add("Block::read", &l, &blk, 0, None, true);
		g.add("UntrustedBlock::read", &l, &blk, 0, None, true);
		let cb: CompactBlock = blk.clone().into();
		g.add("CompactBlock::read", &l, &cb, 0, None, true);
		g.add("UntrustedCompactBlock::read", &l, &cb, 0, None, true);
		blocks.push(blk);
	}
	// ---- fully valid block and transaction (chain type auto only: two range proofs cost ~0.1 s per process)
	let valid = if auto { valid_crypto(&mut g) } else { None };
	if let Some((blk, tx)) = &valid {
		g.add("Block::read", "validblock", blk, 0, None, true);
		g.add("UntrustedBlock::read", "validblock", blk, 0, None, true);
		let cb: CompactBlock = blk.clone().into();
		g.add("CompactBlock::read", "validblock", &cb, 0, None, true);
		g.add("UntrustedCompactBlock::read", "validblock", &cb, 0, None, true);
		g.add("Transaction::read", "validtx", tx, 0, None, true);
	}
	// ---- Merkle proofs, segments
	for n in [0usize, 1, 3].iter() {
		let mp = MerkleProof {
			mmr_size: 10,
			path: (0..*n).map(|_| g.hash()).collect(),
		};
		g.add("MerkleProof::read", &format!("path{}", n), &mp, 0, None, false);
	}
	let sid = SegmentIdentifier { height: 7, idx: 3 };
	g.add0("SegmentIdentifier::read", "segid", &sid);
	for n in [0usize, 2].iter() {
		let sp = segproof(&mut g, *n);
		g.add0("SegmentProof::read", &format!("proof{}", n), &sp);
	}
	let ids = [(2u8, 0u64, false), (2, 2, false), (0, 4, false), (1, 1, true), (3, 1, true)];
	let other = g.hash();
	let block_hash = g.hash();
	{
		let (segs, mp, _, mroot, elem) = mmr_segments::<OutputIdentifier, _>(&mut g, 11, |g, k| g.outid(k), &ids);
		// check parameters of a proof that verifies: position of the proven leaf, root || (unused) || the element
		let mut mctx = mroot.to_vec();
		mctx.extend_from_slice(&other.to_vec());
		mctx.extend_from_slice(&elem);
		g.add("MerkleProof::read", "real", &mp, pmmr::insertion_to_pmmr_index(11 / 2), Some(mctx.clone()), true);
		g.out.push(SeedEnc {
			target: "MerkleProof::from_hex",
			label: "realhex".into(),
			ver: 1000,
			bytes: mp.to_hex().into_bytes(),
			fields: vec![Field { off: 0, w: 16, kind: "b" }, Field { off: 16, w: 16, kind: "b" }, Field { off: 32, w: 64, kind: "b" }],
			aux: pmmr::insertion_to_pmmr_index(11 / 2),
			ctx: Some(mctx),
			expect_ok: true,
			expect_post: true,
			ident: None,
			proof: None,
			groups: vec![],
			hdr: None,
		});
		for (s, size, pr, root) in segs {
			let l = format!("h{}i{}{}", s.id().height, s.id().idx, if pr { "p" } else { "" });
			let aux = aux_explicit(size, pr);
			let ctx = ctx_of(with_root(root, other, size), other);
			g.add("Segment<OutputIdentifier>::read", &l, &s, aux, ctx.clone(), true);
			let r = OutputSegmentResponse {
				response: SegmentResponse { block_hash, segment: s },
				output_bitmap_root: other,
			};
			g.add("OutputSegmentResponse::read", &l, &r, aux, ctx, true);
		}
	}
	{
		let (segs, _, _, _, _) = mmr_segments::<RangeProof, _>(&mut g, 7, |g, _| g.proof(), &[(1, 0, false), (2, 1, true)]);
		for (s, size, pr, root) in segs {
			let l = format!("h{}i{}{}", s.id().height, s.id().idx, if pr { "p" } else { "" });
			let aux = aux_explicit(size, pr);
			let ctx = ctx_of(root, other);
			g.add("Segment<RangeProof>::read", &l, &s, aux, ctx.clone(), true);
			let r = SegmentResponse { block_hash, segment: s };
			g.add("SegmentResponse<RangeProof>::read", &l, &r, aux, ctx, true);
		}
	}
	{
		let (segs, _, _, _, _) = mmr_segments::<TxKernel, _>(&mut g, 9, |g, k| g.kernel(k), &[(2, 1, false), (3, 1, false), (1, 0, false)]);
		for (s, size, _, root) in segs {
			let l = format!("h{}i{}", s.id().height, s.id().idx);
			let aux = aux_explicit(size, false);
			let ctx = ctx_of(root, other);
			g.add("Segment<TxKernel>::read", &l, &s, aux, ctx.clone(), true);
			let r = SegmentResponse { block_hash, segment: s };
			g.add("SegmentResponse<TxKernel>::read", &l, &r, aux, ctx, true);
		}
	}
	// (bits, density per mille, segment height, segment idx): sparse -> index list, dense -> negative list, middle -> raw
	// (the two small ones: exactly the 2^height chunks of a full height-1 segment, and a single-chunk height-0 segment)
	for (nbits, dens, h, idx) in
		[(3000u64, 20u64, 2u8, 0u64), (70_000, 500, 6, 1), (200_000, 995, 7, 0), (9000, 960, 3, 1), (5000, 300, 1, 1), (5000, 200, 0, 3)].iter()
	{
		let mut acc = BitmapAccumulator::new();
		let set: Vec<u64> = (0..*nbits).filter(|i| g.rng.gen_range(0, 1000) < *dens || i % 1024 == 0).collect();
		acc.init(set, *nbits).expect("accumulator");
		let ro = acc.readonly_pmmr();
		let size = ro.unpruned_size();
		let root = ro.root().expect("root");
		let id = SegmentIdentifier { height: *h, idx: *idx };
		let seg = Segment::from_pmmr(id, &ro, false).expect("bitmap segment");
		let bs = BitmapSegment::from(seg);
		let l = format!("bits{}h{}i{}", nbits, h, idx);
		let aux = aux_explicit(size, false);
		let ctx = ctx_of(with_root(root, other, size), other);
		g.add("BitmapSegment::read", &l, &bs, aux, ctx.clone(), true);
		let r = OutputBitmapSegmentResponse {
			block_hash,
			segment: bs,
			output_root: other,
		};
		g.add("OutputBitmapSegmentResponse::read", &l, &r, aux, ctx, true);
	}
	// ---- p2p bodies
	let td = Difficulty::from_num(g.rng.gen_range(1, 1 << 40));
	let genesis = g.hash();
	for (k, ua) in ["MW/Grin 5.4.0", ""].iter().enumerate() {
		let hand = Hand {
			version: ProtocolVersion(1000),
			capabilities: Capabilities::default(),
			nonce: g.rng.gen(),
			genesis,
			total_difficulty: td,
			sender_addr: g.addr(k),
			receiver_addr: g.addr(k + 1),
			user_agent: ua.to_string(),
		};
		g.add0("Hand::read", &format!("hand{}", k), &hand);
		if let Some((b, f)) = frame(Type::Hand, &hand, 1) {
			push_frame(&mut g, "msg::read_message<Hand>", &format!("hand{}", k), b, f, 1);
		}
		let shake = Shake {
			version: ProtocolVersion(3),
			capabilities: Capabilities::default(),
			genesis,
			total_difficulty: td,
			user_agent: ua.to_string(),
		};
		g.add0("Shake::read", &format!("shake{}", k), &shake);
		if let Some((b, f)) = frame(Type::Shake, &shake, 1) {
			push_frame(&mut g, "msg::read_message<Shake>", &format!("shake{}", k), b, f, 1);
		}
	}
	let ping = Ping { total_difficulty: td, height: 77 };
	g.add0("Ping::read", "ping", &ping);
	let pong = Pong { total_difficulty: td, height: 78 };
	g.add0("Pong::read", "pong", &pong);
	let gpa = GetPeerAddrs {
		capabilities: Capabilities::default(),
	};
	g.add0("GetPeerAddrs::read", "getpeeraddrs", &gpa);
	for n in [0usize, 1, 3].iter() {
		let pa = PeerAddrs {
			peers: (0..*n).map(|k| g.addr(k)).collect(),
		};
		g.add0("PeerAddrs::read", &format!("addrs{}", n), &pa);
	}
	for k in 0..2 {
		let a = g.addr(k);
		g.add0("PeerAddr::read", &format!("addr{}", k), &a);
	}
	let pe = PeerError {
		code: 3,
		message: "bad things".to_string(),
	};
	g.add0("PeerError::read", "peererror", &pe);
	for n in [0usize, 2, 20].iter() {
		let loc = Locator {
			hashes: (0..*n).map(|_| g.hash()).collect(),
		};
		g.add0("Locator::read", &format!("locator{}", n), &loc);
	}
	let ban = BanReason {
		ban_reason: ReasonForBan::BadBlock,
	};
	g.add0("BanReason::read", "ban", &ban);
	let req = TxHashSetRequest { hash: genesis, height: 1000 };
	g.add0("TxHashSetRequest::read", "txhashsetreq", &req);
	let arch = TxHashSetArchive {
		hash: genesis,
		height: 1000,
		bytes: 300,
	};
	g.add0("TxHashSetArchive::read", "txhashsetarchive", &arch);
	let sreq = SegmentRequest {
		block_hash,
		identifier: sid,
	};
	g.add0("SegmentRequest::read", "segreq", &sreq);
	if let Some((b, f)) = encode(&MsgHeader::new(Type::Block, 1234), 1) {
		g.out.push(SeedEnc {
			target: "MsgHeaderWrapper::read",
			label: "msgheader".into(),
			ver: 1,
			bytes: b,
			fields: f,
			aux: 0,
			ctx: None,
			expect_ok: true,
			expect_post: false,
			ident: None,
			proof: None,
			groups: vec![],
			hdr: None,
		});
	}
	// ---- API strings
	let mp = MerkleProof {
		mmr_size: 7,
		path: vec![g.hash(), g.hash()],
	};
	let hex = mp.to_hex();
	let n = hex.len();
	for t in ["MerkleProof::from_hex", "util::from_hex"].iter() {
		g.out.push(SeedEnc {
			target: t,
			label: "hex".into(),
			ver: 1000,
			bytes: hex.clone().into_bytes(),
			// one field per byte pair group: mmr_size, path_len, hashes (hex digits)
			fields: vec![
				Field { off: 0, w: 16, kind: "b" },
				Field { off: 16, w: 16, kind: "b" },
				Field { off: 32, w: n - 32, kind: "b" },
			],
			aux: 0,
			ctx: None,
			expect_ok: true,
			expect_post: false,
			ident: None,
			proof: None,
			groups: vec![],
			hdr: None,
		});
	}
	// hex arguments of the API handlers: a commitment, a hash, a transaction (pool push, protocol version 1)
	let api_tx = match &valid {
		Some((_, tx)) => tx.clone(),
		None => g.tx(2, 1, 2),
	};
	let api_tx_hex = encode(&api_tx, 1).map(|(b, f)| (crate::worker::hex(&b), f));
	let commit_hex = crate::worker::hex(&g.commit().0);
	let hash_hex = g.hash().to_hex();
	let mut strs: Vec<(&'static str, &str, String, Vec<Field>, bool)> = vec![
		("util::from_hex", "commit", commit_hex.clone(), vec![Field { off: 0, w: 2, kind: "b" }, Field { off: 2, w: 64, kind: "b" }], true),
		("util::from_hex", "hash", hash_hex.clone(), vec![Field { off: 0, w: 32, kind: "b" }, Field { off: 32, w: 32, kind: "b" }], true),
		("Hash::from_hex", "hash", hash_hex, vec![Field { off: 0, w: 32, kind: "b" }, Field { off: 32, w: 32, kind: "b" }], true),
	];
	if let Some((h, f)) = api_tx_hex {
		// the binary field map, in hex digits
		let hf: Vec<Field> = f.iter().map(|x| Field { off: 2 * x.off, w: 2 * x.w, kind: "b" }).collect();
		strs.push(("api::push_tx_hex", "tx", h, hf, true));
	}
	// JSON-RPC parameter of foreign push_transaction: one field per JSON value token (string with its quotes: "js",
	// number / literal: "jn"); object keys are left alone
	let json_tx = serde_json::to_string(&api_tx).expect("tx json");
	strs.push(("json::Transaction", "txjson", json_tx.clone(), json_value_fields(&json_tx), true));
	// a share submitted to the stratum server: on AutomatedTesting one that is accepted (the template is mined here), else a
	// well-formed one that fails the cycle check
	let share = if auto {
		crate::stratum::valid_params()
	} else {
		let n: Vec<String> = (0..global::proofsize() as u64).map(|i| (1000 + 77 * i).to_string()).collect();
		format!("{{\"height\":{},\"job_id\":0,\"nonce\":7,\"edge_bits\":31,\"pow\":[{}]}}", crate::stratum::JOB_HEIGHT, n.join(","))
	};
	strs.push(("stratum::submit", "share", share.clone(), json_value_fields(&share), true));
	for (t, l, text, fields, ok) in strs {
		g.out.push(SeedEnc {
			target: t,
			label: l.into(),
			ver: 1000,
			bytes: text.into_bytes(),
			fields,
			aux: 0,
			ctx: None,
			expect_ok: ok,
			expect_post: auto && t == "stratum::submit",
			ident: None,
			proof: None,
			groups: vec![],
			hdr: None,
		});
	}
	// ---- frames for the codec: one per message type, then streams
	let hdrs = Headers {
		headers: (0..3).map(|k| g.header(k % 3)).collect(),
	};
	let tx = g.tx(1, 1, 1);
	let cb: CompactBlock = blocks[1].clone().into();
	let seg_out = g.out.iter().find(|s| s.target == "OutputSegmentResponse::read").cloned();
	let seg_bm = g.out.iter().find(|s| s.target == "OutputBitmapSegmentResponse::read").cloned();
	let seg_rp = g.out.iter().find(|s| s.target == "SegmentResponse<RangeProof>::read").cloned();
	let seg_k = g.out.iter().find(|s| s.target == "SegmentResponse<TxKernel>::read").cloned();
	let mut frames: Vec<(String, Vec<u8>, Vec<Field>)> = vec![];
	// check parameters (MMR size, expected roots) of the segment frames: those of the body's own seed
	let mut frame_env: Vec<(String, u64, Option<Vec<u8>>)> = vec![];
	macro_rules! fr {
		($l:expr, $ty:expr, $b:expr) => {
			for v in [1u32, 3].iter() {
				if let Some((b, f)) = frame($ty, $b, *v) {
					if !frames.iter().any(|x| x.1 == b) {
						frames.push((format!("{}v{}", $l, v), b, f));
					}
				}
			}
		};
	}
	fr!("ping", Type::Ping, &ping);
	fr!("pong", Type::Pong, &pong);
	fr!("getpeeraddrs", Type::GetPeerAddrs, &gpa);
	fr!("peeraddrs", Type::PeerAddrs, &PeerAddrs { peers: vec![g.addr(0), g.addr(1)] });
	fr!("getheaders", Type::GetHeaders, &Locator { hashes: vec![genesis, block_hash] });
	fr!("header", Type::Header, &hd);
	fr!("headers", Type::Headers, &hdrs);
	fr!("headers0", Type::Headers, &Headers { headers: vec![] });
	fr!("getblock", Type::GetBlock, &genesis);
	fr!("block", Type::Block, &blocks[1]);
	if let Some((blk, vtx)) = &valid {
		fr!("validblock", Type::Block, blk);
		fr!("validtx", Type::Transaction, vtx);
		let vcb: CompactBlock = blk.clone().into();
		fr!("validcompactblock", Type::CompactBlock, &vcb);
	}
	fr!("getcompactblock", Type::GetCompactBlock, &genesis);
	fr!("compactblock", Type::CompactBlock, &cb);
	fr!("stemtx", Type::StemTransaction, &tx);
	fr!("tx", Type::Transaction, &tx);
	fr!("txhashsetreq", Type::TxHashSetRequest, &req);
	fr!("banreason", Type::BanReason, &ban);
	fr!("gettx", Type::GetTransaction, &genesis);
	fr!("txkernel", Type::TransactionKernel, &genesis);
	fr!("getbitmapseg", Type::GetOutputBitmapSegment, &sreq);
	fr!("getoutseg", Type::GetOutputSegment, &sreq);
	fr!("getrpseg", Type::GetRangeProofSegment, &sreq);
	fr!("getkernseg", Type::GetKernelSegment, &sreq);
	fr!("hand", Type::Hand, &ping);
	fr!("error", Type::Error, &pe);
	struct Raw(Vec<u8>);
	impl Writeable for Raw {
		fn write<W: ser::Writer>(&self, w: &mut W) -> Result<(), ser::Error> {
			w.write_fixed_bytes(&self.0)
		}
	}
	for (l, ty, s) in [
		("outseg", Type::OutputSegment, &seg_out),
		("bitmapseg", Type::OutputBitmapSegment, &seg_bm),
		("rpseg", Type::RangeProofSegment, &seg_rp),
		("kernseg", Type::KernelSegment, &seg_k),
	]
	.iter()
	{
		if let Some(s) = s {
			// keep the body's own field map
			if let Some((mut hb, mut hf)) = encode(&MsgHeader::new(*ty, s.bytes.len() as u64), 1) {
				let off = hb.len();
				hb.extend_from_slice(&s.bytes);
				for f in s.fields.iter() {
					hf.push(Field { off: f.off + off, w: f.w, kind: f.kind });
				}
				frames.push((l.to_string(), hb, hf));
				frame_env.push((l.to_string(), s.aux, s.ctx.clone()));
			}
		}
	}
	// archive announcement followed by its attachment, then another message
	if let Some((mut b, mut f)) = frame(Type::TxHashSetArchive, &arch, 1) {
		let att = g.bytes(300);
		f.push(Field { off: b.len(), w: 300, kind: "b" });
		b.extend_from_slice(&att);
		if let Some((pb, pf)) = frame(Type::Ping, &ping, 1) {
			for x in pf {
				f.push(Field { off: x.off + b.len(), w: x.w, kind: x.kind });
			}
			b.extend_from_slice(&pb);
		}
		frames.push(("archive+attachment+ping".into(), b, f));
	}
	// unknown message type with a body
	if let Some((mut b, mut f)) = frame(Type::Ping, &Raw(g.bytes(40)), 1) {
		b[2] = 99;
		f.truncate(5);
		frames.push(("unknown".into(), b, f));
	}
	// a stream of several messages
	{
		let mut b = vec![];
		let mut f = vec![];
		for name in ["pingv1", "headersv1", "txv1", "peeraddrsv1", "headers0v1", "getheadersv1"].iter() {
			if let Some(x) = frames.iter().find(|x| &x.0 == name) {
				for y in x.2.iter() {
					f.push(Field { off: y.off + b.len(), w: y.w, kind: y.kind });
				}
				b.extend_from_slice(&x.1);
			}
		}
		frames.push(("stream".into(), b, f));
	}
	for (l, b, f) in frames {
		let ver = if l.ends_with("v3") { 3 } else { 1 };
		push_frame(&mut g, "Codec::read", &l, b, f, ver);
		if let Some((_, aux, ctx)) = frame_env.iter().find(|x| x.0 == l) {
			let last = g.out.last_mut().expect("frame");
			last.aux = *aux;
			last.ctx = ctx.clone();
		}
	}
	for s in g.out.iter_mut() {
		s.ident = find_ident(s);
		s.proof = find_proof(s);
		s.groups = find_groups(s);
		s.hdr = find_header(s);
	}
	g.out
}

fn push_frame(g: &mut Gen, target: &'static str, label: &str, bytes: Vec<u8>, fields: Vec<Field>, ver: u32) {
	let auto = g.auto;
	g.out.push(SeedEnc {
		target,
		label: label.to_string(),
		ver,
		bytes,
		fields,
		aux: 0,
		ctx: None,
		expect_ok: auto && label != "hand" && label != "error" && !label.starts_with("handv") && !label.starts_with("errorv"),
		expect_post: false,
		ident: None,
		proof: None,
		groups: vec![],
		hdr: None,
	});
}
