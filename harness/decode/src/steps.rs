//! Post-decode steps: the conversions, accessors and stateless checks that the message handlers
//! (p2p/src/protocol.rs, servers/src/common/adapters.rs, the desegmenter, the pool, the API handlers) apply to a freshly
//! decoded, still untrusted value before any chain state is consulted.  Every step runs inside the supervised call of its
//! decoder; the step in progress is remembered so that a panic / abort / hang is attributed to it
//! (`decode:BitmapSegment::into_segment:panic:...`), and every step execution is counted (anti-vacuity: each step of the
//! catalogue in spec/Decode.tla `PostSteps` must have run).
use std::cell::{Cell, RefCell};
use std::collections::BTreeMap;

thread_local! {
	static CUR: Cell<&'static str> = const { Cell::new("") };
	static ANNOUNCE: Cell<bool> = const { Cell::new(false) };
	static COUNTS: RefCell<BTreeMap<&'static str, [u64; 2]>> = const { RefCell::new(BTreeMap::new()) };
}

fn raw_stdout(s: &str) {
	unsafe {
		libc::write(1, s.as_ptr() as *const libc::c_void, s.len());
	}
}

/// before each case: no step in progress (the decoder itself is running)
pub fn reset() {
	CUR.with(|c| c.set(""));
}

/// the step that was in progress when the call ended ("" = the decoder itself)
pub fn current() -> &'static str {
	CUR.with(|c| c.get())
}

/// single-case confirmation runs announce every step on stdout ("S <name>") so that the parent can attribute an abort
/// or a hang of the whole process
pub fn set_announce(b: bool) {
	ANNOUNCE.with(|a| a.set(b));
}

/// run one post-decode step; `f` returns whether the step returned Ok / Some / a value (true) or an error (false)
pub fn st<F: FnOnce() -> bool>(name: &'static str, f: F) -> bool {
	let prev = CUR.with(|c| c.replace(name));
	if ANNOUNCE.with(|a| a.get()) {
		raw_stdout(&format!("S {}\n", name));
	}
	let ok = f();
	// (not reached when `f` panics: `current()` then still names the step)
	CUR.with(|c| c.set(prev));
	COUNTS.with(|m| {
		let mut m = m.borrow_mut();
		let e = m.entry(name).or_insert([0, 0]);
		e[0] += 1;
		if ok {
			e[1] += 1;
		}
	});
	ok
}

/// a panicking step is counted too (run, not ok)
pub fn count_panicked(name: &'static str) {
	if name.is_empty() {
		return;
	}
	COUNTS.with(|m| {
		m.borrow_mut().entry(name).or_insert([0, 0])[0] += 1;
	});
}

pub fn take_counts() -> BTreeMap<&'static str, [u64; 2]> {
	COUNTS.with(|m| std::mem::take(&mut *m.borrow_mut()))
}
