//! C04 harness (engine `header`): binds spec/Difficulty.tla and spec/Header.tla to the real code.
//!
//!  diff-replay --cases F --out F      direction A: TLC-enumerated windows -> consensus::next_difficulty
//!  diff-record --out F --seed S --n N direction B: random windows on all four chain types -> events
//!  chain --dir D --out F --diffout F --seed S --len N [--sync 1]
//!                                     direction B: real-PoW AutomatedTesting chain, every single-field
//!                                     header mutation through process_block_header / sync_block_headers /
//!                                     process_block and UntrustedBlockHeader::read.  Every call is made
//!                                     with the option sets the node really uses (servers/src): NONE for
//!                                     broadcast headers/blocks, SYNC for header sync and for blocks fetched
//!                                     by body sync (also out of order: orphan pool, re-processed with the
//!                                     options stored with the orphan), MINE for self-mined blocks; plus
//!                                     SKIP_POW combinations (test chains only).
use chrono::{DateTime, Duration, Utc};
use grin_chain as chain;
use grin_core as core;
use grin_keychain as keychain;

use chain::types::{NoopAdapter, Options, Tip};
use chain::Chain;
use core::consensus::{self, HeaderDifficultyInfo};
use core::core::hash::{Hash, Hashed};
use core::core::pmmr;
use core::core::{Block, BlockHeader, HeaderVersion, UntrustedBlockHeader};
use core::global::{self, ChainTypes};
use core::libtx::{self, reward};
use core::pow::{self, Difficulty};
use core::{genesis, ser};
use keychain::{ExtKeychain, ExtKeychainPath, Keychain};
use serde_json::{json, Value};
use std::collections::HashMap;
use std::panic::{catch_unwind, AssertUnwindSafe};
use std::sync::Arc;
use vcommon::{quiet_panics, read_ndjson, Args, NdWriter};

const MAX_SOLS: u32 = 10;
const CLAMP_I32: u64 = 2_000_000_000;

struct Rng(u64);
impl Rng {
	fn new(seed: u64) -> Rng {
		Rng(seed.wrapping_mul(0x9E37_79B9_7F4A_7C15) ^ 0xD1B5_4A32_D192_ED03)
	}
	fn next(&mut self) -> u64 {
		// splitmix64
		self.0 = self.0.wrapping_add(0x9E37_79B9_7F4A_7C15);
		let mut z = self.0;
		z = (z ^ (z >> 30)).wrapping_mul(0xBF58_476D_1CE4_E5B9);
		z = (z ^ (z >> 27)).wrapping_mul(0x94D0_49BB_1331_11EB);
		z ^ (z >> 31)
	}
	fn below(&mut self, n: u64) -> u64 {
		self.next() % n
	}
	fn pick<T: Copy>(&mut self, v: &[T]) -> T {
		v[self.below(v.len() as u64) as usize]
	}
}

fn ct_of(name: &str) -> ChainTypes {
	match name {
		"AutomatedTesting" => ChainTypes::AutomatedTesting,
		"UserTesting" => ChainTypes::UserTesting,
		"Testnet" => ChainTypes::Testnet,
		"Mainnet" => ChainTypes::Mainnet,
		x => panic!("chain type {}", x),
	}
}

/// (ts, difficulty, secondary_scaling, is_secondary), LATEST first
type Win = Vec<(u64, u64, u32, bool)>;

/// The real function under the given chain type; a panic is data.
fn real_next(ct: ChainTypes, height: u64, w: &Win) -> Result<(u64, u32), String> {
	global::set_local_chain_type(ct);
	let v: Vec<HeaderDifficultyInfo> = w
		.iter()
		.map(|e| HeaderDifficultyInfo::new(None, e.0, Difficulty::from_num(e.1), e.2, e.3))
		.collect();
	match catch_unwind(AssertUnwindSafe(|| consensus::next_difficulty(height, v))) {
		Ok(r) => Ok((r.difficulty.to_num(), r.secondary_scaling)),
		Err(_) => Err("panic".to_string()),
	}
}

/// Expand the run-length description used by MC_Difficulty (segments EARLIEST first).
fn expand(c: &Value) -> Win {
	let base = c["base"].as_u64().unwrap();
	let scal = c["scal"].as_u64().unwrap() as u32;
	let mut early: Win = vec![];
	let mut ts = base;
	for s in c["segs"].as_array().unwrap() {
		let n = s["n"].as_u64().unwrap();
		let dt = s["dt"].as_u64().unwrap();
		let d = s["d"].as_u64().unwrap();
		let sec = s["sec"].as_bool().unwrap();
		for _ in 0..n {
			if !early.is_empty() {
				ts += dt;
			}
			early.push((ts, d, scal, sec));
		}
	}
	early.reverse();
	early
}

fn diff_replay(a: &Args) {
	let cases = read_ndjson(a.req("cases"));
	let mut out = NdWriter::create(a.req("out"));
	let (mut compared, mut undefined, mut undefined_panics, mut wtema, mut dma, mut padded) = (0u64, 0u64, 0u64, 0u64, 0u64, 0u64);
	let mut mism = 0u64;
	for c in &cases {
		let w = expand(c);
		let chk: u64 = w.iter().map(|e| e.0 % 1000).sum();
		if w.len() as u64 != c["n"].as_u64().unwrap() || chk != c["chk"].as_u64().unwrap() {
			eprintln!("window expansion disagrees with the specification's: {}", c);
			std::process::exit(2);
		}
		let ct = ct_of(c["ct"].as_str().unwrap());
		let h = c["h"].as_u64().unwrap();
		let r = real_next(ct, h, &w);
		if !c["def"].as_bool().unwrap() {
			// outside the function's domain (no header of a chain has such a window): nothing demanded
			undefined += 1;
			if r.is_err() {
				undefined_panics += 1;
			}
			continue;
		}
		compared += 1;
		if c["v"].as_u64().unwrap() >= 5 {
			wtema += 1
		} else {
			dma += 1;
			if w.len() < 61 {
				padded += 1
			}
		}
		let exp = (c["diff"].as_u64().unwrap(), c["rscal"].as_u64().unwrap() as u32);
		// determinism: a second evaluation must agree with the first
		let r2 = real_next(ct, h, &w);
		let ok = r == Ok(exp) && r2 == r;
		if !ok {
			mism += 1;
			if mism <= 50 {
				let what = if r.is_err() {
					"panic"
				} else if r2 != r {
					"nondeterministic"
				} else if r.as_ref().unwrap().0 != exp.0 {
					"difficulty"
				} else {
					"scaling"
				};
				out.put(&json!({"case": c, "what": what, "expected": [exp.0, exp.1],
					"observed": match &r { Ok(x) => json!([x.0, x.1]), Err(e) => json!(e) }}));
			}
		}
	}
	out.finish();
	println!(
		"{}",
		json!({"cases": cases.len(), "compared": compared, "mismatches": mism, "undefined": undefined,
			"undefined_panics": undefined_panics, "wtema": wtema, "dma": dma, "dma_padded": padded})
	);
}

fn win_json(w: &Win) -> Value {
	Value::Array(
		w.iter()
			.map(|e| json!([e.0, e.1, e.2, if e.3 { 1 } else { 0 }]))
			.collect(),
	)
}

fn diff_event(ct: &str, h: u64, w: &Win, r: &Result<(u64, u32), String>, src: &str) -> Value {
	match r {
		Ok(x) => json!({"k": "Diff", "ct": ct, "h": h, "w": win_json(w), "diff": x.0, "scal": x.1, "src": src}),
		Err(_) => json!({"k": "Diff", "ct": ct, "h": h, "w": win_json(w), "diff": -1, "scal": -1, "src": src}),
	}
}

/// Random windows inside the 32-bit exactness range of Difficulty.tla (InRange).
fn diff_record(a: &Args) {
	let mut rng = Rng::new(a.u64("seed", 1));
	let n = a.u64("n", 400);
	let mut out = NdWriter::create(a.req("out"));
	let cts = ["AutomatedTesting", "UserTesting", "Testnet", "Mainnet"];
	let heights: [&[u64]; 4] = [
		&[1, 2, 3, 5, 6, 8, 9, 11, 12, 13, 14, 100, 5000],
		&[1, 4, 7, 10, 11, 12, 15, 70],
		&[1, 59, 60, 61, 62, 11648, 185039, 185040, 298080, 552960, 642239, 642240, 642241, 900000],
		&[1, 2, 60, 61, 62, 63, 11647, 11648, 23296, 262079, 262080, 524160, 786240, 1048319, 1048320, 1048321, 1500000],
	];
	let lens = [1usize, 2, 3, 4, 7, 20, 45, 59, 60, 61, 62, 63, 90];
	for i in 0..n {
		let k = (i % 4) as usize;
		let ct = ct_of(cts[k]);
		global::set_local_chain_type(ct);
		let h = if rng.below(4) == 0 { 1 + rng.below(1_200_000) } else { rng.pick(heights[k]) };
		let wtema = consensus::header_version(h) >= HeaderVersion(5);
		let mut len = rng.pick(&lens);
		if wtema && len < 2 {
			len = 2;
		}
		// per-window regime
		let dmax: u64 = rng.pick(&[1u64, 5, 120, 600, 7200, 100_000]);
		let top: u64 = if wtema { rng.pick(&[40u64, 20_000, 149_000]) } else { rng.pick(&[8u64, 1000, 60_000, 524_288]) };
		let smax: u64 = rng.pick(&[30u64, 2000, 390_000]);
		let secp = rng.below(5); // 0: none .. 4: all
		let mut ts: u64 = rng.pick(&[0u64, 50, 100_000, 870_652_800, 1_600_000_000]) + rng.below(1000);
		let mut early: Win = vec![];
		for j in 0..len {
			if j > 0 {
				ts += 1 + rng.below(dmax);
			}
			let d = 1 + rng.below(top);
			let s = rng.below(smax + 1) as u32;
			early.push((ts, d, s, rng.below(4) < secp));
		}
		early.reverse();
		let r = real_next(ct, h, &early);
		out.put(&diff_event(cts[k], h, &early, &r, "random"));
	}
	let cnt = out.n;
	out.finish();
	println!("{}", json!({"events": cnt}));
}

// ------------------------------------------------------------------------------------------
// real chain scenario

struct Reg {
	ids: HashMap<Hash, i64>,
}
impl Reg {
	fn id(&mut self, h: Hash) -> i64 {
		let n = self.ids.len() as i64;
		*self.ids.entry(h).or_insert(n)
	}
}

fn ts_of(secs: i64) -> DateTime<Utc> {
	DateTime::from_naive_utc_and_offset(DateTime::<Utc>::from_timestamp(secs, 0).unwrap().naive_utc(), Utc)
}

/// Record of one header for the trace: integers and abstract flags only.
fn hrec(reg: &mut Reg, h: &BlockHeader, root_ok: bool, body_ok: bool) -> Value {
	let id = reg.id(h.hash());
	let prev = reg.ids.get(&h.prev_hash).copied().unwrap_or(-1);
	let eb = h.pow.edge_bits();
	let pow_valid = catch_unwind(AssertUnwindSafe(|| pow::verify_size(h).is_ok())).unwrap_or(false);
	// graph_weight underflows for edge bits below the base (such headers are refused before it is used)
	let pow_diff = if eb >= global::base_edge_bits() {
		catch_unwind(AssertUnwindSafe(|| h.pow.to_difficulty(h.height).to_num())).unwrap_or(0)
	} else {
		0
	};
	json!({"id": id, "prev": prev, "height": h.height, "ts": h.timestamp.timestamp(), "version": h.version.0,
		"total": h.pow.total_difficulty.to_num(), "scaling": h.pow.secondary_scaling, "eb": eb,
		"powValid": pow_valid, "powDiff": pow_diff.min(CLAMP_I32),
		"outs": h.output_mmr_count().min(CLAMP_I32), "kerns": h.kernel_mmr_count().min(CLAMP_I32),
		"rootOK": root_ok, "bodyOK": body_ok})
}

/// Search nonces for a cycle (real solver) such that `pred` holds for the header carrying it.
fn mine(h: &mut BlockHeader, eb: u8, tries: u64, pred: &dyn Fn(&BlockHeader) -> bool) -> bool {
	h.pow.proof.edge_bits = eb;
	for _ in 0..tries {
		let mut ctx = global::create_pow_context::<u32>(h.height, eb, global::proofsize(), MAX_SOLS).unwrap();
		ctx.set_header_nonce(h.pre_pow(), None, true).unwrap();
		if let Ok(proofs) = ctx.find_cycles() {
			for p in proofs {
				h.pow.proof = p;
				h.pow.proof.edge_bits = eb;
				if pred(h) {
					return true;
				}
			}
		}
		h.pow.nonce = h.pow.nonce.wrapping_add(1);
	}
	false
}

/// Break the cycle of a properly mined header (proof nonces only; the reviewer's recipe): the result
/// is not a valid proof but the hash of its nonces still reaches `target`.
fn forge(h: &mut BlockHeader, target: u64) -> bool {
	let mask = (1u64 << h.pow.proof.edge_bits) - 1;
	let n = h.pow.proof.nonces.len();
	for k in (0..n).rev() {
		// (from 2: +-1 on the last nonce is the `proof_tampered` mutation)
		for delta in 2..400u64 {
			let mut x = h.clone();
			x.pow.proof.nonces[k] = (x.pow.proof.nonces[k] + delta) & mask;
			if x.hash() == h.hash() || pow::verify_size(&x).is_ok() {
				continue;
			}
			if x.pow.to_difficulty(x.height).to_num() < target {
				continue;
			}
			*h = x;
			return true;
		}
	}
	false
}

fn class<T, E: std::fmt::Debug>(r: std::thread::Result<Result<T, E>>) -> (String, String) {
	match r {
		Ok(Ok(_)) => ("accept".into(), "".into()),
		Ok(Err(e)) => {
			let mut s = format!("{:?}", e);
			s.truncate(60);
			("reject".into(), s)
		}
		Err(_) => ("panic".into(), "panic".into()),
	}
}

/// The options one call is made with.
#[derive(Clone, Copy, PartialEq)]
struct O {
	skip: bool,
	sync: bool,
	mine: bool,
}
const NONE: O = O { skip: false, sync: false, mine: false };
const SYNC: O = O { skip: false, sync: true, mine: false };
const MINE: O = O { skip: false, sync: false, mine: true };
const SKIP: O = O { skip: true, sync: false, mine: false };
const SYNC_SKIP: O = O { skip: true, sync: true, mine: false };
impl O {
	fn bits(&self) -> Options {
		let mut o = Options::NONE;
		if self.skip {
			o |= Options::SKIP_POW;
		}
		if self.sync {
			o |= Options::SYNC;
		}
		if self.mine {
			o |= Options::MINE;
		}
		o
	}
	fn names(&self) -> Vec<&'static str> {
		let mut v = vec![];
		if self.skip {
			v.push("SKIP_POW");
		}
		if self.sync {
			v.push("SYNC");
		}
		if self.mine {
			v.push("MINE");
		}
		v
	}
	fn tag(&self) -> String {
		let n = self.names();
		if n.is_empty() {
			"NONE".to_string()
		} else {
			n.join("+")
		}
	}
}

struct Node {
	chain: Chain,
	reg: Reg,
	out: NdWriter,
	delivered: u64,
	accepted: u64,
	by_mut: HashMap<String, (u64, u64)>,
	/// "<entry point>:<options>" -> (accepted, rejected, orphaned)
	by_opts: HashMap<String, (u64, u64, u64)>,
	/// "<entry point>:<options>" -> deliveries of a header whose ONLY defect is its cycle
	/// (proof invalid, hash of the proof reaches the claimed difficulty), without SKIP_POW
	forged_by_path: HashMap<String, u64>,
}

impl Node {
	fn new(chain: Chain, out: NdWriter) -> Node {
		Node {
			chain,
			reg: Reg { ids: HashMap::new() },
			out,
			delivered: 0,
			accepted: 0,
			by_mut: HashMap::new(),
			by_opts: HashMap::new(),
			forged_by_path: HashMap::new(),
		}
	}

	fn note(&mut self, m: &str, verdict: &str) {
		self.delivered += 1;
		let e = self.by_mut.entry(m.to_string()).or_insert((0, 0));
		if verdict == "accept" {
			self.accepted += 1;
			e.0 += 1;
		} else {
			e.1 += 1;
		}
	}

	fn note_path(&mut self, k: &str, o: O, m: &str, verdict: &str) {
		let key = format!("{}:{}", k, o.tag());
		let e = self.by_opts.entry(key.clone()).or_insert((0, 0, 0));
		match verdict {
			"accept" => e.0 += 1,
			"orphan" => e.2 += 1,
			_ => e.1 += 1,
		}
		if m == "proof_forged" && !o.skip {
			*self.forged_by_path.entry(key).or_insert(0) += 1;
		}
	}

	fn stored(&self, h: &BlockHeader) -> bool {
		self.chain.get_block_header(&h.hash()).is_ok()
	}

	fn deliver_header(&mut self, h: &BlockHeader, rec: &Value, m: &str, o: O) {
		let opts = o.bits();
		let (v, e) = class(catch_unwind(AssertUnwindSafe(|| self.chain.process_block_header(h, opts))));
		self.note(m, &v);
		self.note_path("Header", o, m, &v);
		let st = self.stored(h);
		self.out.put(&json!({"k": "Header", "skip": o.skip, "opts": o.names(), "mut": m, "h": rec, "verdict": v, "stored": st, "err": e}));
	}

	fn deliver_sync(&mut self, hs: &[BlockHeader], recs: &[Value], m: &str, o: O) {
		let opts = o.bits();
		let sync_head: Tip = self.chain.header_head().unwrap();
		let (v, e) = class(catch_unwind(AssertUnwindSafe(|| self.chain.sync_block_headers(hs, sync_head, opts))));
		self.note(m, &v);
		self.note_path("Sync", o, m, &v);
		let st: Vec<bool> = hs.iter().map(|h| self.stored(h)).collect();
		self.out.put(&json!({"k": "Sync", "skip": o.skip, "opts": o.names(), "mut": m, "hs": recs, "verdict": v, "stored": st, "err": e}));
	}

	/// Returns the verdict class: accept / reject / orphan (parked until the parent's body arrives) / panic.
	fn deliver_block(&mut self, b: &Block, rec: &Value, m: &str, o: O) -> String {
		let opts = o.bits();
		let r = catch_unwind(AssertUnwindSafe(|| self.chain.process_block(b.clone(), opts)));
		let orphan = matches!(r, Ok(Err(chain::Error::Orphan)));
		let (mut v, e) = class(r);
		if orphan {
			v = "orphan".into();
		}
		self.note(m, &v);
		self.note_path("Block", o, m, &v);
		let st = self.stored(&b.header);
		self.out.put(&json!({"k": "Block", "skip": o.skip, "opts": o.names(), "mut": m, "h": rec, "verdict": v, "stored": st, "err": e}));
		v
	}

	fn deliver_read(&mut self, h: &BlockHeader, rec: &Value, m: &str) {
		let bytes = ser::ser_vec(h, ser::ProtocolVersion(2)).unwrap();
		let now = Utc::now().timestamp();
		let (v, e) = class(catch_unwind(AssertUnwindSafe(|| {
			ser::deserialize::<UntrustedBlockHeader, _>(&mut &bytes[..], ser::ProtocolVersion(2), ser::DeserializationMode::default())
		})));
		self.note(m, &v);
		self.out.put(&json!({"k": "Read", "skip": false, "now": now, "mut": m, "h": rec, "verdict": v, "err": e}));
	}
}

fn mmr_size_for(leaves: u64) -> u64 {
	pmmr::insertion_to_pmmr_index(leaves)
}

fn init_chain(dir: &str, genesis: &Block) -> Chain {
	let _ = std::fs::remove_dir_all(dir);
	std::fs::create_dir_all(dir).unwrap();
	Chain::init(dir.to_string(), Arc::new(NoopAdapter {}), genesis.clone(), pow::verify_size, false, None).unwrap()
}

fn chain_scenario(a: &Args) {
	global::set_local_chain_type(ChainTypes::AutomatedTesting);
	let seed = a.u64("seed", 1);
	let mut rng = Rng::new(seed);
	let len = a.u64("len", 16);
	let dir = a.req("dir").to_string();
	let do_sync = a.u64("sync", 1) == 1;
	let eb0 = global::min_edge_bits();
	let mut seed_bytes = [7u8; 32];
	seed_bytes[..8].copy_from_slice(&seed.to_le_bytes());
	let kc = ExtKeychain::from_seed(&seed_bytes, false).unwrap();

	// genesis: built once, MMR sizes consistent with its body
	let key_id = ExtKeychain::derive_key_id(0, 1, 0, 0, 0);
	let rw = reward::output(&kc, &libtx::ProofBuilder::new(&kc), &key_id, 0, false).unwrap();
	let mut gen = genesis::genesis_dev().with_reward(rw.0, rw.1);
	gen.header.output_mmr_size = 1;
	gen.header.kernel_mmr_size = 1;

	let chain = init_chain(&format!("{}/a", dir), &gen);
	let mut node = Node::new(chain, NdWriter::create(a.req("out")));
	let mut dout = NdWriter::create(a.req("diffout"));
	let grec = hrec(&mut node.reg, &gen.header, true, true);
	node.out.put(&json!({"k": "Reset", "ct": "AutomatedTesting", "genesis": grec}));

	// block-time plan: a fast prefix drives the difficulty above the floor of 20 that every
	// edge_bits-10 proof reaches, so that the proof-of-work target clause is exercised
	let fast = 8 + rng.below(3);
	let all_deltas: [i64; 5] = [1, 30, 60, 120, 7200];

	let mut honest: Vec<Block> = vec![gen.clone()];
	let mut win: Win = vec![(gen.header.timestamp.timestamp() as u64, gen.header.pow.total_difficulty.to_num(), gen.header.pow.secondary_scaling, false)];
	let mut max_target = 0u64;
	let mut exact_found = 0u64;
	let mut low_found = 0u64;
	let mut forged_found = 0u64;
	// the mutated blocks of every height, kept for the body sync of the second node
	let mut saved: Vec<Vec<(&'static str, Block, bool, bool)>> = vec![vec![]];

	for height in 1..=len {
		let prev = honest.last().unwrap().header.clone();
		let iter = chain::store::DifficultyIter::from(prev.hash(), node.chain.store());
		let nd = consensus::next_difficulty(height, iter);
		let target = nd.difficulty.to_num();
		max_target = max_target.max(target);
		// direction B for Difficulty.tla: the window as the harness knows it and the value the chain used
		dout.put(&diff_event("AutomatedTesting", height, &win, &Ok((target, nd.secondary_scaling)), "chain"));

		let delta: i64 = if height <= fast { rng.pick(&[1i64, 1, 1, 2]) } else { rng.pick(&all_deltas) };
		let key_id = ExtKeychainPath::new(1, height as u32, 0, 0, 0).to_identifier();
		let rw = reward::output(&kc, &libtx::ProofBuilder::new(&kc), &key_id, 0, false).unwrap();
		let mut b = Block::new(&prev, &[], nd.difficulty, rw).unwrap();
		b.header.timestamp = prev.timestamp + Duration::seconds(delta);
		b.header.pow.secondary_scaling = nd.secondary_scaling;
		node.chain.set_txhashset_roots(&mut b).unwrap();
		b.header.pow.nonce = rng.below(1 << 40);
		let ok = mine(&mut b.header, eb0, 1_000_000, &|h| h.pow.to_difficulty(h.height).to_num() >= target);
		assert!(ok, "mining honest block");

		// honest delivery, rotating over the entry points and over the options the node uses:
		// a block it mined itself (MINE), a broadcast header / block (NONE), header sync and
		// a block fetched by body sync (SYNC)
		let rec = hrec(&mut node.reg, &b.header, true, true);
		let bo = rng.pick(&[NONE, SYNC, MINE]);
		let so = rng.pick(&[SYNC, SYNC, NONE]);
		match height % 3 {
			0 => {
				node.deliver_block(&b, &rec, "honest", bo);
			}
			1 => {
				node.deliver_read(&b.header, &rec, "honest");
				node.deliver_header(&b.header, &rec, "honest", NONE);
				node.deliver_block(&b, &rec, "honest", bo);
			}
			_ => {
				node.deliver_sync(&[b.header.clone()], &[rec.clone()], "honest", so);
				node.deliver_header(&b.header, &rec, "honest", NONE);
				node.deliver_block(&b, &rec, "honest", bo);
			}
		}
		if node.chain.head().unwrap().last_block_h != b.hash() {
			// The honest block was refused or is not the head: the trace decides whether that is
			// a violation; the scenario cannot continue on top of it.
			eprintln!("honest block at height {} did not become the head; stopping scenario", height);
			break;
		}

		// ---- single-field mutations of this header (siblings of the honest block) ----
		let hh = b.header.clone();
		let now = Utc::now().timestamp();
		let ftl = global::get_future_time_limit() as i64;
		let pc_out = prev.output_mmr_count();
		let pc_kern = prev.kernel_mmr_count();
		// (name, header, root_ok, body_ok, remine: 0 none / 1 reach own target / 2 below / 3 exact /
		//  4 forge: break the cycle, keep the hash of the proof at or above the target, edge bits)
		let mut muts: Vec<(&'static str, BlockHeader, bool, bool, u8, u8)> = vec![];
		let mut add = |n: &'static str, f: &dyn Fn(&mut BlockHeader), root_ok: bool, body_ok: bool, re: u8, eb: u8| {
			let mut h = hh.clone();
			f(&mut h);
			muts.push((n, h, root_ok, body_ok, re, eb));
		};
		add("height_plus", &|h| h.height += 1, true, true, 1, eb0);
		add("height_minus", &|h| h.height -= 1, true, true, 1, eb0);
		add("height_plus3", &|h| h.height += 3, true, true, 1, eb0);
		add("ts_equal", &|h| h.timestamp = prev.timestamp, true, true, 1, eb0);
		add("ts_before", &|h| h.timestamp = prev.timestamp - Duration::seconds(1), true, true, 1, eb0);
		add("ts_next", &|h| h.timestamp = prev.timestamp + Duration::seconds(if delta == 1 { 2 } else { 1 }), true, true, 1, eb0);
		add("ts_future", &|h| h.timestamp = ts_of(now + ftl + 3600), true, true, 1, eb0);
		add("ts_near_future", &|h| h.timestamp = ts_of(now + ftl - 120), true, true, 1, eb0);
		add("version_plus", &|h| h.version = HeaderVersion(h.version.0 + 1), true, true, 1, eb0);
		add("version_minus", &|h| h.version = HeaderVersion(h.version.0 - 1), true, true, 1, eb0);
		add("prev_unknown", &|h| h.prev_hash = Hash::from_vec(&[0xEEu8; 32]), true, true, 1, eb0);
		if height >= 2 {
			add("prev_grandparent", &|h| h.prev_hash = prev.prev_hash, true, true, 1, eb0);
		}
		add("prev_root_bad", &|h| { let mut v = h.prev_root.to_vec(); v[5] ^= 0x10; h.prev_root = Hash::from_vec(&v); }, false, true, 1, eb0);
		add("total_plus1", &|h| h.pow.total_difficulty = Difficulty::from_num(h.pow.total_difficulty.to_num() + 1), true, true, 1, eb0);
		add("total_minus1", &|h| h.pow.total_difficulty = Difficulty::from_num(h.pow.total_difficulty.to_num() - 1), true, true, 1, eb0);
		add("total_eq_prev", &|h| h.pow.total_difficulty = prev.pow.total_difficulty, true, true, 1, eb0);
		add("total_below_prev", &|h| h.pow.total_difficulty = Difficulty::from_num(prev.pow.total_difficulty.to_num() - 1), true, true, 1, eb0);
		add("scaling_plus1", &|h| h.pow.secondary_scaling += 1, true, true, 1, eb0);
		add("scaling_minus1", &|h| h.pow.secondary_scaling = if h.pow.secondary_scaling == 0 { 7 } else { h.pow.secondary_scaling - 1 }, true, true, 1, eb0);
		add("nonce_stale", &|h| h.pow.nonce = h.pow.nonce.wrapping_add(1), true, true, 0, eb0);
		add("proof_tampered", &|h| { let k = h.pow.proof.nonces.len() - 1; h.pow.proof.nonces[k] ^= 1; }, true, true, 0, eb0);
		add("proof_forged", &|_| {}, true, true, 4, eb0);
		add("edge_bits_below", &|_| {}, true, true, 1, eb0 - 1);
		add("edge_bits_up", &|_| {}, true, true, 1, eb0 + 1);
		add("edge_bits_29", &|h| h.pow.proof.edge_bits = 29, true, true, 0, 29);
		if target > 20 {
			add("pow_low", &|_| {}, true, true, 2, eb0);
		}
		if target >= 20 && target <= 90 {
			add("pow_exact", &|_| {}, true, true, 3, eb0);
		}
		add("honest_variant", &|h| h.pow.nonce = h.pow.nonce.wrapping_add(1 << 41), true, true, 1, eb0);
		add("outputs_none", &|h| h.output_mmr_size = prev.output_mmr_size, true, false, 1, eb0);
		add("kernels_none", &|h| h.kernel_mmr_size = prev.kernel_mmr_size, true, false, 1, eb0);
		if pc_out >= 2 {
			add("outputs_less", &|h| h.output_mmr_size = mmr_size_for(pc_out - 1), true, false, 1, eb0);
		}
		add("too_heavy", &|h| h.output_mmr_size = mmr_size_for(pc_out + 12), true, false, 1, eb0);
		add("heaviest", &|h| { h.output_mmr_size = mmr_size_for(pc_out + 11); h.kernel_mmr_size = mmr_size_for(pc_kern + 6); }, true, false, 1, eb0);
		add("outputs_plus1", &|h| h.output_mmr_size = mmr_size_for(pc_out + 2), true, false, 1, eb0);
		add("global_weight", &|h| h.output_mmr_size = mmr_size_for(12 * (h.height + 1) + 1), true, false, 1, eb0);
		drop(add);

		let mut saved_here: Vec<(&'static str, Block, bool, bool)> = vec![];
		for (name, mut h, root_ok, body_ok, re, eb) in muts {
			let own_target = h.pow.total_difficulty.to_num().wrapping_sub(prev.pow.total_difficulty.to_num());
			let mined = match re {
				0 => true,
				1 => {
					if eb < global::base_edge_bits() {
						mine(&mut h, eb, 200_000, &|_| true)
					} else if own_target > 100_000 {
						// no proof can reach a wrapped-around target: any valid cycle will do
						mine(&mut h, eb, 200_000, &|_| true)
					} else {
						mine(&mut h, eb, 1_000_000, &|x| x.pow.to_difficulty(x.height).to_num() >= own_target)
					}
				}
				2 => mine(&mut h, eb, 200_000, &|x| x.pow.to_difficulty(x.height).to_num() < target),
				3 => mine(&mut h, eb, 6_000, &|x| x.pow.to_difficulty(x.height).to_num() == target),
				_ => forge(&mut h, target),
			};
			if !mined {
				continue;
			}
			if name == "pow_exact" {
				exact_found += 1;
			}
			if name == "pow_low" {
				low_found += 1;
			}
			if name == "proof_forged" {
				forged_found += 1;
			}
			if h == hh {
				continue;
			}
			// the header hash covers the proof only: a mutation that keeps the proof keeps the hash,
			// i.e. the node treats it as the header it already knows (no duplicate full block delivery)
			let same_hash = h.hash() == hh.hash();
			let rec = hrec(&mut node.reg, &h, root_ok, body_ok);
			node.deliver_read(&h, &rec, name);
			let mb = Block { header: h.clone(), body: b.body.clone() };
			// every entry point with every option set the node uses, in a random order (a header the
			// property allows is validated from scratch by the first call only; a refused one by all)
			// 0/1: process_block_header NONE/SYNC-or-MINE  2/3/4: sync_block_headers NONE/SYNC/MINE
			// 5/6/7: process_block NONE/SYNC/MINE
			let mut plan: Vec<u8> = vec![0, 2, 3, 5, 6, 7];
			plan.push(rng.pick(&[1u8, 4]));
			for i in (1..plan.len()).rev() {
				let j = rng.below(i as u64 + 1) as usize;
				plan.swap(i, j);
			}
			let ho = rng.pick(&[SYNC, MINE]);
			let mut block_done = same_hash;
			for step in plan {
				match step {
					0 => node.deliver_header(&h, &rec, name, NONE),
					1 => node.deliver_header(&h, &rec, name, ho),
					2 => node.deliver_sync(&[h.clone()], &[rec.clone()], name, NONE),
					3 => node.deliver_sync(&[h.clone()], &[rec.clone()], name, SYNC),
					4 => node.deliver_sync(&[h.clone()], &[rec.clone()], name, MINE),
					_ => {
						// (a block the node took is not delivered again: that is "duplicate block")
						if !block_done {
							let o = [NONE, SYNC, MINE][(step - 5) as usize];
							if node.deliver_block(&mb, &rec, name, o) == "accept" {
								block_done = true;
							}
						}
					}
				}
			}
			// SKIP_POW skips exactly the PoW clauses, with or without SYNC (only for headers that cannot
			// out-work the honest one)
			if ["nonce_stale", "proof_tampered", "proof_forged", "scaling_plus1", "edge_bits_below", "ts_equal", "version_plus"].contains(&name) {
				if rng.below(2) == 0 {
					node.deliver_header(&h, &rec, name, SKIP);
				} else {
					node.deliver_header(&h, &rec, name, SYNC_SKIP);
				}
				if !same_hash {
					node.deliver_sync(&[h.clone()], &[rec.clone()], name, SYNC_SKIP);
				}
			}
			if !same_hash {
				saved_here.push((name, mb, root_ok, body_ok));
			}
		}
		saved.push(saved_here);

		win.insert(0, (b.header.timestamp.timestamp() as u64, target, b.header.pow.secondary_scaling, b.header.pow.is_secondary()));
		honest.push(b);
	}

	// ---- a second node that syncs the way the node does: header sync (chunks of honest headers
	//      with Options::SYNC, each first tried with one header of the chunk replaced by a
	//      mutation), then body sync (blocks with Options::SYNC, partly out of order, so that
	//      blocks wait in the orphan pool and are processed later with the options kept there;
	//      mutated blocks of the same heights in between) ----
	let mut sync_chunks = 0u64;
	let mut body_synced = 0u64;
	let mut body_head_ok = true;
	if do_sync && honest.len() > 3 {
		let chain_b = init_chain(&format!("{}/b", dir), &gen);
		let mut nb = Node::new(chain_b, node.out);
		nb.delivered = node.delivered;
		nb.accepted = node.accepted;
		nb.by_mut = node.by_mut;
		nb.by_opts = node.by_opts;
		nb.forged_by_path = node.forged_by_path;
		let grec = hrec(&mut nb.reg, &gen.header, true, true);
		nb.out.put(&json!({"k": "Reset", "ct": "AutomatedTesting", "genesis": grec}));
		let mut i = 1usize;
		while i < honest.len() {
			let n = (1 + rng.below(4) as usize).min(honest.len() - i);
			let hs: Vec<BlockHeader> = honest[i..i + n].iter().map(|b| b.header.clone()).collect();
			let so = if rng.below(4) == 0 { NONE } else { SYNC };
			// corrupted version of the chunk first
			let pos = rng.below(n as u64) as usize;
			let kind = rng.below(10);
			let mut bad = hs.clone();
			let parent = honest[i + pos - 1].header.clone();
			let ptotal = parent.pow.total_difficulty.to_num();
			let (mname, root_ok, remine) = {
				let h = &mut bad[pos];
				match kind {
					0 => { h.timestamp = parent.timestamp; ("ts_equal", true, true) }
					1 => { h.pow.total_difficulty = Difficulty::from_num(h.pow.total_difficulty.to_num() + 1); ("total_plus1", true, true) }
					2 => { h.pow.secondary_scaling += 1; ("scaling_plus1", true, true) }
					3 => { let mut v = h.prev_root.to_vec(); v[0] ^= 1; h.prev_root = Hash::from_vec(&v); ("prev_root_bad", false, true) }
					4 => { h.version = HeaderVersion(h.version.0 + 1); ("version_plus", true, true) }
					5 => { h.height += 1; ("height_plus", true, true) }
					6 => { h.timestamp = h.timestamp + Duration::seconds(1); ("ts_plus1", true, true) }
					7 => { h.pow.nonce = h.pow.nonce.wrapping_add(1); ("nonce_stale", true, false) }
					_ => {
						let t = h.pow.total_difficulty.to_num() - ptotal;
						if forge(h, t) { ("proof_forged", true, false) } else { let k = h.pow.proof.nonces.len() - 1; h.pow.proof.nonces[k] ^= 1; ("proof_tampered", true, false) }
					}
				}
			};
			if remine {
				let h = &mut bad[pos];
				let t = h.pow.total_difficulty.to_num() - ptotal;
				mine(h, eb0, 1_000_000, &|x| x.pow.to_difficulty(x.height).to_num() >= t);
			}
			let recs: Vec<Value> = bad.iter().enumerate().map(|(j, h)| hrec(&mut nb.reg, h, if j == pos { root_ok } else { true }, true)).collect();
			nb.deliver_sync(&bad, &recs, mname, so);
			// then the honest chunk
			let recs: Vec<Value> = hs.iter().map(|h| hrec(&mut nb.reg, h, true, true)).collect();
			nb.deliver_sync(&hs, &recs, "honest", so);
			sync_chunks += 1;
			i += n;
		}

		// body sync
		let top = honest.len() - 1;
		let mut lo = 1usize;
		while lo <= top {
			let n = (1 + rng.below(3) as usize).min(top - lo + 1);
			// the group's blocks arrive highest first: all but the lowest wait as orphans
			for hgt in (lo..lo + n).rev() {
				// some mutated blocks of this height first (their parent's body may still be missing)
				let cands = &saved[hgt];
				let mut must: Vec<usize> = cands.iter().enumerate().filter(|(_, c)| c.0 == "proof_forged" || c.0 == "proof_tampered").map(|(k, _)| k).collect();
				for _ in 0..4 {
					if !cands.is_empty() {
						must.push(rng.below(cands.len() as u64) as usize);
					}
				}
				must.sort();
				must.dedup();
				for k in must {
					let (name, mb, root_ok, body_ok) = &cands[k];
					let rec = hrec(&mut nb.reg, &mb.header, *root_ok, *body_ok);
					let o = rng.pick(&[SYNC, SYNC, SYNC, NONE, MINE]);
					nb.deliver_block(mb, &rec, name, o);
				}
				let b = &honest[hgt];
				let rec = hrec(&mut nb.reg, &b.header, true, true);
				let o = if rng.below(6) == 0 { NONE } else { SYNC };
				nb.deliver_block(b, &rec, "honest", o);
				body_synced += 1;
			}
			lo += n;
		}
		// every honest block was delivered: the node must be on the honest chain now (the blocks
		// parked in the orphan pool are processed without a call of their own)
		// (a benign variant of the last block that arrived first stays the head: equal work)
		let head = nb.chain.head().unwrap();
		body_head_ok = head.height == top as u64
			&& head.total_difficulty == honest[top].header.total_difficulty()
			&& honest.iter().all(|b| nb.chain.get_block(&b.hash()).is_ok());
		node = nb;
	}

	let events = node.out.n;
	let by: serde_json::Map<String, Value> = node.by_mut.iter().map(|(k, v)| (k.clone(), json!([v.0, v.1]))).collect();
	let byo: serde_json::Map<String, Value> = node.by_opts.iter().map(|(k, v)| (k.clone(), json!([v.0, v.1, v.2]))).collect();
	let fbp: serde_json::Map<String, Value> = node.forged_by_path.iter().map(|(k, v)| (k.clone(), json!(v))).collect();
	node.out.finish();
	let dn = dout.n;
	dout.finish();
	println!(
		"{}",
		json!({"events": events, "diff_events": dn, "height": honest.len() - 1, "delivered": node.delivered, "accepted": node.accepted,
			"max_target": max_target, "pow_exact_found": exact_found, "pow_low_found": low_found, "sync_chunks": sync_chunks,
			"forged_found": forged_found, "body_synced": body_synced, "body_head_ok": body_head_ok,
			"by_options_accept_reject_orphan": byo, "forged_by_path": fbp,
			"by_mutation": by})
	);
}

fn main() {
	quiet_panics();
	let argv: Vec<String> = std::env::args().skip(1).collect();
	let a = Args::parse(&argv);
	match a.pos.get(0).map(|s| s.as_str()) {
		Some("diff-replay") => diff_replay(&a),
		Some("diff-record") => diff_record(&a),
		Some("chain") => chain_scenario(&a),
		_ => {
			eprintln!("usage: h_header diff-replay|diff-record|chain ...");
			std::process::exit(2)
		}
	}
}
