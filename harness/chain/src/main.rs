//! Chain engine: replays behaviours generated from spec/Chain.tla on a real grin_chain::Chain
//! and compares the result class and the projected state after every delivery
//! (properties C01-history, C02, C03, C06, C13).
use chrono::Duration;
use grin_chain::types::NoopAdapter;
use grin_chain::{Chain, Error as ChainError, Options};
use grin_core::core::hash::{Hash, Hashed};
use grin_core::core::pmmr;
use grin_core::core::{Block, FeeFields, KernelFeatures, NRDRelativeHeight, Output, Transaction, TxKernel};
use grin_core::libtx::aggsig;
use grin_keychain::BlindingFactor;
use grin_util::secp::key::SecretKey;
use grin_core::global::{self, ChainTypes};
use grin_core::libtx::{self, build, reward, ProofBuilder};
use grin_core::pow::{self, Difficulty};
use grin_core::{consensus, genesis};
use grin_keychain::{ExtKeychain, ExtKeychainPath, Identifier, Keychain, SwitchCommitmentType};
use grin_util::secp::pedersen::Commitment;
use grin_util::static_secp_instance;
use serde_json::{json, Value};
use std::collections::{BTreeMap, BTreeSet, HashMap};
use std::sync::{Arc, Mutex, OnceLock};
use vcommon::*;

pub const UNIT: u64 = 15_000_000_000; // 1 model unit = 15 grin; reward = 4 units

fn keychain() -> ExtKeychain {
	ExtKeychain::from_seed(&[7u8; 32], false).unwrap()
}

fn kid_coinbase(b: u64) -> Identifier {
	ExtKeychainPath::new(3, 1, b as u32, 0, 0).to_identifier()
}

fn kid_pool(c: u64) -> Identifier {
	ExtKeychainPath::new(3, 2, c as u32, 0, 0).to_identifier()
}

type RewardCache = Mutex<HashMap<(u64, u64), (Output, TxKernel)>>;
static REWARDS: OnceLock<RewardCache> = OnceLock::new();
static TXS: OnceLock<Mutex<HashMap<String, Transaction>>> = OnceLock::new();
static GENESIS: OnceLock<Block> = OnceLock::new();
// long trunks: the trunk blocks (their proof nonce is random) and a chain directory that has already
// processed them are built once per process and copied for the builder and the node
static TRUNK_BLOCKS: OnceLock<Mutex<HashMap<String, (Vec<Block>, String)>>> = OnceLock::new();
const TEMPLATE_FROM: u64 = 30;

fn copy_dir(from: &str, to: &str) {
	let _ = std::fs::remove_dir_all(to);
	std::fs::create_dir_all(to).unwrap();
	for e in std::fs::read_dir(from).unwrap() {
		let e = e.unwrap();
		let dst = format!("{}/{}", to, e.file_name().to_string_lossy());
		if e.file_type().unwrap().is_dir() {
			copy_dir(&e.path().to_string_lossy(), &dst);
		} else {
			std::fs::copy(e.path(), &dst).unwrap();
		}
	}
}

fn reward_for(b: u64, value_units_over_base: u64) -> (Output, TxKernel) {
	// value = 60 grin + fees; `value_units_over_base` = fees in units (incl. any over-claim)
	let cache = REWARDS.get_or_init(|| Mutex::new(HashMap::new()));
	if let Some(r) = cache.lock().unwrap().get(&(b, value_units_over_base)) {
		return r.clone();
	}
	let kc = keychain();
	let r = reward::output(
		&kc,
		&ProofBuilder::new(&kc),
		&kid_coinbase(b),
		value_units_over_base * UNIT,
		false,
	)
	.unwrap();
	cache
		.lock()
		.unwrap()
		.insert((b, value_units_over_base), r.clone());
	r
}

fn the_genesis() -> Block {
	GENESIS
		.get_or_init(|| {
			let r = reward_for(0, 0);
			let mut g = genesis::genesis_dev().with_reward(r.0, r.1);
			// header MMR sizes consistent with the body (like the mainnet/testnet genesis)
			g.header.output_mmr_size = 1;
			g.header.kernel_mmr_size = 1;
			g
		})
		.clone()
}

/// Records the adapter notifications (block_accepted + status) of the node under test.
pub struct RecAdapter {
	pub log: Mutex<Vec<(Hash, String, Hash)>>,
}

impl grin_chain::types::ChainAdapter for RecAdapter {
	fn block_accepted(&self, b: &Block, status: grin_chain::types::BlockStatus, _opts: Options) {
		use grin_chain::types::BlockStatus::*;
		let (st, fp) = match status {
			Next { prev } => ("next", prev.last_block_h),
			Fork { fork_point, .. } => ("fork", fork_point.last_block_h),
			Reorg { fork_point, .. } => ("reorg", fork_point.last_block_h),
		};
		self.log.lock().unwrap().push((b.hash(), st.to_string(), fp));
	}
}

pub fn init_chain_rec(dir: &str, adapter: Arc<RecAdapter>) -> Chain {
	Chain::init(dir.to_string(), adapter, the_genesis(), pow::verify_size, false, None).expect("chain init")
}

pub fn init_chain(dir: &str) -> Chain {
	Chain::init(
		dir.to_string(),
		Arc::new(NoopAdapter {}),
		the_genesis(),
		pow::verify_size,
		false,
		None,
	)
	.expect("chain init")
}

pub struct Blk {
	pub parent: u64,
	pub height: u64,
	pub diff: u64,
	pub ins: Vec<u64>,
	pub outs: Vec<u64>,
	pub lock: u64,
	pub flag: String,
}

pub struct World {
	pub tree: BTreeMap<u64, Blk>,
	pub pool: HashMap<u64, u64>,
	pub blocks: HashMap<u64, Block>,
	pub id_of: HashMap<Hash, u64>,
	pub commit_of: BTreeMap<u64, Commitment>, // model commit id -> real commitment
	pub outputs: HashMap<Commitment, Output>, // every output of every minted block (first occurrence)
}

fn parse_tree(beh: &Value) -> (BTreeMap<u64, Blk>, HashMap<u64, u64>) {
	let mut tree = BTreeMap::new();
	let t = &beh["tree"];
	// ToJson renders a function with domain 0..k as an array (index = id) or as an object
	let entries: Vec<(u64, &Value)> = match t {
		Value::Array(a) => a.iter().enumerate().map(|(i, v)| (i as u64, v)).collect(),
		Value::Object(o) => o.iter().map(|(k, v)| (k.parse().unwrap(), v)).collect(),
		_ => panic!("tree"),
	};
	for (id, v) in entries {
		let arr = |x: &Value| -> Vec<u64> {
			x.as_array()
				.map(|a| a.iter().map(|y| y.as_u64().unwrap()).collect())
				.unwrap_or_default()
		};
		tree.insert(
			id,
			Blk {
				parent: v["parent"].as_u64().unwrap(),
				height: v["height"].as_u64().unwrap(),
				diff: v["diff"].as_u64().unwrap(),
				ins: arr(&v["tx"]["ins"]),
				outs: arr(&v["tx"]["outs"]),
				lock: v["tx"]["lock"].as_u64().unwrap(),
				flag: v["flag"].as_str().unwrap().to_string(),
			},
		);
	}
	let mut pool = HashMap::new();
	if let Some(o) = beh["pool"].as_object() {
		for (k, v) in o {
			pool.insert(k.parse().unwrap(), v.as_u64().unwrap());
		}
	}
	(tree, pool)
}

fn block_fee(b: &Blk) -> u64 {
	if b.outs.is_empty() {
		0
	} else {
		1
	}
}

fn commit_value_units(w_tree: &BTreeMap<u64, Blk>, pool: &HashMap<u64, u64>, c: u64) -> u64 {
	if c < 100 {
		4 + if c == 0 { 0 } else { w_tree.get(&c).map(block_fee).unwrap_or(0) }
	} else {
		pool[&c]
	}
}

fn build_tx(tree: &BTreeMap<u64, Blk>, pool: &HashMap<u64, u64>, b: &Blk) -> Transaction {
	let key = format!(
		"{:?}|{:?}|{}|{:?}",
		b.ins,
		b.outs,
		b.lock,
		b.ins
			.iter()
			.map(|c| commit_value_units(tree, pool, *c))
			.collect::<Vec<_>>()
	);
	let cache = TXS.get_or_init(|| Mutex::new(HashMap::new()));
	if let Some(t) = cache.lock().unwrap().get(&key) {
		return t.clone();
	}
	let kc = keychain();
	let pb = ProofBuilder::new(&kc);
	let mut elems = vec![];
	for c in &b.ins {
		let v = commit_value_units(tree, pool, *c) * UNIT;
		if *c < 100 {
			elems.push(build::coinbase_input(v, kid_coinbase(*c)));
		} else {
			elems.push(build::input(v, kid_pool(*c)));
		}
	}
	for c in &b.outs {
		elems.push(build::output(pool[c] * UNIT, kid_pool(*c)));
	}
	let fee = FeeFields::new(0, UNIT).unwrap();
	let tx = if b.lock >= 1000 {
		// no-recent-duplicate kernel with a fixed excess per key (the same excess is reused by design)
		let key = (b.lock - 1000) / 10;
		let rel = (b.lock - 1000) % 10;
		let mut kernel = TxKernel::with_features(KernelFeatures::NoRecentDuplicate {
			fee,
			relative_height: NRDRelativeHeight::new(rel).expect("nrd rel"),
		});
		let msg = kernel.msg_to_sign().unwrap();
		let secp = static_secp_instance();
		let secp = secp.lock();
		let skey = SecretKey::from_slice(&secp, &[40 + key as u8; 32]).unwrap();
		let excess = BlindingFactor::from_secret_key(skey.clone());
		kernel.excess = secp.commit(0, skey).unwrap();
		let pubkey = kernel.excess.to_pubkey(&secp).unwrap();
		kernel.excess_sig = aggsig::sign_with_blinding(&secp, &msg, &excess, Some(&pubkey)).unwrap();
		drop(secp);
		build::transaction_with_kernel(&elems, kernel, excess, &kc, &pb).expect("build nrd tx")
	} else {
		let features = if b.lock == 0 {
			KernelFeatures::Plain { fee }
		} else {
			KernelFeatures::HeightLocked {
				fee,
				lock_height: b.lock,
			}
		};
		build::transaction(features, &elems, &kc, &pb).expect("build tx")
	};
	cache.lock().unwrap().insert(key, tx.clone());
	tx
}

fn flip(h: &Hash) -> Hash {
	let mut v = h.to_vec();
	v[0] ^= 0x55;
	v[31] ^= 0xaa;
	Hash::from_vec(&v)
}

/// Build every block of the tree with honest roots computed on a builder chain that receives
/// all blocks in id (= topological) order; apply the corruption flags afterwards.
pub fn build_world(beh: &Value, dir: &str) -> World {
	let (tree, pool) = parse_tree(beh);
	let trunk = beh["trunk"].as_u64().unwrap_or(0);
	let tkey = format!(
		"{}|{:?}",
		trunk,
		(1..=trunk).map(|k| (tree[&k].ins.clone(), tree[&k].outs.clone(), tree[&k].diff)).collect::<Vec<_>>()
	);
	let mut cached: Option<Vec<Block>> = None;
	if trunk >= TEMPLATE_FROM {
		let cache = TRUNK_BLOCKS.get_or_init(|| Mutex::new(HashMap::new()));
		if let Some((bs, tdir)) = cache.lock().unwrap().get(&tkey) {
			copy_dir(tdir, &format!("{}/builder", dir));
			copy_dir(tdir, &format!("{}/node", dir));
			cached = Some(bs.clone());
		}
	}
	let mut builder = init_chain(&format!("{}/builder", dir));
	let g = the_genesis();
	let mut blocks: HashMap<u64, Block> = HashMap::new();
	let mut id_of = HashMap::new();
	let mut commit_of = BTreeMap::new();
	blocks.insert(0, g.clone());
	id_of.insert(g.hash(), 0);
	commit_of.insert(0, g.outputs()[0].commitment());
	let kc = keychain();
	for (c, v) in &pool {
		commit_of.insert(
			*c,
			kc.commit(*v * UNIT, &kid_pool(*c), SwitchCommitmentType::Regular)
				.unwrap(),
		);
	}
	if let Some(bs) = &cached {
		for (k, blk) in bs.iter().enumerate() {
			let id = k as u64 + 1;
			id_of.insert(blk.hash(), id);
			commit_of.insert(id, reward_for(id, block_fee(&tree[&id])).0.commitment());
			blocks.insert(id, blk.clone());
		}
	}
	for (id, b) in &tree {
		if *id == 0 || (cached.is_some() && *id <= trunk) {
			continue;
		}
		let prev = blocks[&b.parent].header.clone();
		let txs: Vec<Transaction> = if b.outs.is_empty() {
			vec![]
		} else {
			vec![build_tx(&tree, &pool, b)]
		};
		let over = if b.flag == "badSums" { 1 } else { 0 };
		let rw = reward_for(*id, block_fee(b) + over);
		let cb_commit = rw.0.commitment();
		let mut blk = Block::new(&prev, &txs, Difficulty::from_num(b.diff), rw).expect("block new");
		blk.header.timestamp = prev.timestamp
			+ if b.flag == "badTime" {
				Duration::seconds(0)
			} else {
				Duration::seconds(60)
			};
		if builder.set_txhashset_roots(&mut blk).is_err() {
			// invalid on its fork (or parent unknown): honest prev_root and arithmetically consistent sizes
			let _ = builder.set_prev_root_only(&mut blk.header);
			let ol = pmmr::n_leaves(prev.output_mmr_size) + blk.outputs().len() as u64;
			let kl = pmmr::n_leaves(prev.kernel_mmr_size) + blk.kernels().len() as u64;
			blk.header.output_mmr_size = pmmr::insertion_to_pmmr_index(ol);
			blk.header.kernel_mmr_size = pmmr::insertion_to_pmmr_index(kl);
		}
		match b.flag.as_str() {
			"badRoot" => blk.header.output_root = flip(&blk.header.output_root),
			"badKernelRoot" => blk.header.kernel_root = flip(&blk.header.kernel_root),
			"badSize" => {
				let l = pmmr::n_leaves(blk.header.output_mmr_size) + 1;
				blk.header.output_mmr_size = pmmr::insertion_to_pmmr_index(l);
			}
			"badPrevRoot" => blk.header.prev_root = flip(&blk.header.prev_root),
			_ => {}
		}
		let _ = builder.process_block(blk.clone(), Options::SKIP_POW);
		id_of.insert(blk.hash(), *id);
		commit_of.insert(*id, cb_commit);
		blocks.insert(*id, blk);
		if cached.is_none() && trunk >= TEMPLATE_FROM && *id == trunk {
			// the builder has processed exactly the trunk: keep a copy as this process's template
			let tdir = format!("{}/../template_{}", dir, std::process::id());
			drop(builder);
			copy_dir(&format!("{}/builder", dir), &tdir);
			copy_dir(&tdir, &format!("{}/node", dir));
			let bs: Vec<Block> = (1..=trunk).map(|k| blocks[&k].clone()).collect();
			TRUNK_BLOCKS
				.get_or_init(|| Mutex::new(HashMap::new()))
				.lock()
				.unwrap()
				.insert(tkey.clone(), (bs, tdir));
			builder = init_chain(&format!("{}/builder", dir));
		}
	}
	let mut outputs: HashMap<Commitment, Output> = HashMap::new();
	for id in tree.keys() {
		if let Some(b) = blocks.get(id) {
			for o in b.outputs() {
				outputs.entry(o.commitment()).or_insert_with(|| o.clone());
			}
		}
	}
	World {
		tree,
		pool,
		blocks,
		id_of,
		commit_of,
		outputs,
	}
}

pub fn class_of(r: &Result<Option<grin_chain::Tip>, ChainError>) -> String {
	match r {
		Ok(Some(_)) => "ok_head".into(),
		Ok(None) => "ok_fork".into(),
		Err(ChainError::Orphan) => "orphan".into(),
		Err(ChainError::Unfit(_)) | Err(ChainError::OldBlock) => "known".into(),
		Err(_) => "reject".into(),
	}
}

fn path_to(tree: &BTreeMap<u64, Blk>, mut b: u64) -> Vec<u64> {
	let mut p = vec![b];
	while b != 0 {
		b = tree[&b].parent;
		p.push(b);
	}
	p.reverse();
	p
}

fn ids(v: &Value) -> BTreeSet<u64> {
	v.as_array()
		.map(|a| a.iter().map(|x| x.as_u64().unwrap()).collect())
		.unwrap_or_default()
}

/// Compare the real chain with the model projection; push mismatches.
/// `obs` receives differences in behaviour that no listed property speaks about (body tail, adapter
/// notifications): recorded in the evidence, never a violation.
fn compare(w: &World, chain: &Chain, proj: &Value, step: usize, mism: &mut Vec<Value>, obs_only: &mut Vec<Value>, deep: bool) {
	let mut bad = |what: &str, exp: Value, obs: Value| {
		mism.push(json!({"step": step, "what": what, "expected": exp, "observed": obs}));
	};
	let head = chain.head().unwrap();
	let hid = w.id_of.get(&head.last_block_h).cloned();
	if hid != proj["head"].as_u64() {
		bad("head", proj["head"].clone(), json!(hid));
	}
	let hh = chain.header_head().unwrap();
	let hhid = w.id_of.get(&hh.last_block_h).cloned();
	if hhid != proj["hhead"].as_u64() {
		bad("hhead", proj["hhead"].clone(), json!(hhid));
	}
	// unspent set with creation heights
	let mut exp_unspent: BTreeMap<u64, u64> = BTreeMap::new();
	for u in proj["unspent"].as_array().unwrap() {
		exp_unspent.insert(u["c"].as_u64().unwrap(), u["h"].as_u64().unwrap());
	}
	let mut obs_unspent: BTreeMap<u64, u64> = BTreeMap::new();
	for (c, commit) in &w.commit_of {
		match chain.get_unspent(*commit) {
			Ok(Some((oid, pos))) => {
				obs_unspent.insert(*c, pos.height);
				// the position must hold exactly this output
				match chain.get_unspent_output_at(pos.pos - 1) {
					Ok(o) => {
						if o.commitment() != *commit || o.commitment() != oid.commitment() {
							bad("unspent_pos_commit", json!(c), json!(pos.pos));
						}
						// ... with the range proof it was created with (the rangeproof MMR is parallel)
						if let Some(orig) = w.outputs.get(commit) {
							if orig.proof != o.proof {
								bad("unspent_pos_proof", json!(c), json!(pos.pos));
							}
						}
					}
					Err(e) => bad("unspent_at_pos_missing", json!(c), json!(format!("{:?}", e))),
				}
			}
			Ok(None) => {}
			Err(e) => bad("get_unspent_err", json!(c), json!(format!("{:?}", e))),
		}
	}
	if exp_unspent != obs_unspent {
		bad("unspent", json!(exp_unspent), json!(obs_unspent));
	}
	let nleaves = pmmr::n_leaves(chain.txhashset().read().output_mmr_size());
	if Some(nleaves) != proj["nleaves"].as_u64() {
		bad("nleaves", proj["nleaves"].clone(), json!(nleaves));
	}
	// enumeration of the unspent set by position agrees with the count
	if let Ok((_, _, outs)) = chain.unspent_outputs_by_pmmr_index(1, 10_000, None) {
		if outs.len() != exp_unspent.len() {
			bad("unspent_enum_count", json!(exp_unspent.len()), json!(outs.len()));
		}
	}
	if let Some(t) = proj["tail"].as_i64() {
		let obs = chain.tail().map(|x| x.height as i64).unwrap_or(-1);
		if obs != t {
			obs_only.push(json!({"step": step, "what": "tail", "expected": t, "observed": obs}));
		}
	}
	let exp_orph = ids(&proj["orph"]);
	let exp_hdrs = ids(&proj["hdrs"]);
	let exp_bodies = ids(&proj["bodies"]);
	let mut obs_orph = BTreeSet::new();
	let mut obs_hdrs = BTreeSet::new();
	let mut obs_bodies = BTreeSet::new();
	for (id, b) in &w.blocks {
		let h = b.hash();
		if chain.is_orphan(&h) {
			obs_orph.insert(*id);
		}
		if chain.get_block_header(&h).is_ok() {
			obs_hdrs.insert(*id);
		}
		if chain.get_block(&h).is_ok() {
			obs_bodies.insert(*id);
		}
	}
	if exp_orph != obs_orph {
		bad("orphans", json!(exp_orph), json!(obs_orph));
	}
	if exp_hdrs != obs_hdrs {
		bad("headers_stored", json!(exp_hdrs), json!(obs_hdrs));
	}
	if exp_bodies != obs_bodies {
		bad("bodies_stored", json!(exp_bodies), json!(obs_bodies));
	}
	// stored running sums of best-chain blocks (C01 history clause): recomputed from the MODEL's
	// unspent set and kernel list with the real commitment arithmetic
	if let Some(mh) = proj["head"].as_u64() {
		let path = path_to(&w.tree, mh);
		for b in ids(&proj["bestsums"]) {
			if chain.get_block_sums(&w.blocks[&b].hash()).is_err() {
				bad("sums_missing", json!(b), json!(null));
			}
		}
		let secp = static_secp_instance();
		let secp = secp.lock();
		let pos: Vec<Commitment> = exp_unspent.keys().map(|c| w.commit_of[c]).collect();
		let kerns: Vec<Commitment> = path
			.iter()
			.flat_map(|b| w.blocks[b].kernels().iter().map(|k| k.excess()))
			.collect();
		// utxo_sum = unspent outputs minus the height-determined supply (genesis included)
		let supply = consensus::REWARD * (w.tree[&mh].height + 1);
		let us = secp
			.commit_value(supply)
			.and_then(|sc| secp.commit_sum(pos, vec![sc]));
		let ks = secp.commit_sum(kerns, vec![]);
		match (chain.get_block_sums(&w.blocks[&mh].hash()), us, ks) {
			(Ok(s), Ok(us), Ok(ks)) => {
				if s.utxo_sum != us {
					bad("utxo_sum", json!(mh), json!("differs"));
				}
				if s.kernel_sum != ks {
					bad("kernel_sum", json!(mh), json!("differs"));
				}
			}
			(Err(e), _, _) => bad("head_sums_missing", json!(mh), json!(format!("{:?}", e))),
			_ => {}
		}
	}
	if deep {
		if let Err(e) = chain.validate(false) {
			bad("validate_full", json!("ok"), json!(format!("{:?}", e)));
		}
	}
}

fn replay_one(beh: &Value, dir: &str, deep_every: bool, twin: bool) -> Value {
	let _ = std::fs::remove_dir_all(dir);
	std::fs::create_dir_all(dir).unwrap();
	let w = build_world(beh, dir);
	let node_dir = format!("{}/node", dir);
	let adapter = Arc::new(RecAdapter { log: Mutex::new(vec![]) });
	let mut chain = Some(init_chain_rec(&node_dir, adapter.clone()));
	let trunk = beh["trunk"].as_u64().unwrap_or(0);
	if trunk < TEMPLATE_FROM {
		for k in 1..=trunk {
			let _ = chain
				.as_ref()
				.unwrap()
				.process_block(w.blocks[&k].clone(), Options::SKIP_POW);
		}
	} else if chain.as_ref().unwrap().head().unwrap().last_block_h != w.blocks[&trunk].hash() {
		panic!("templated node is not at the trunk head");
	}
	let mut mism: Vec<Value> = vec![];
	let mut obs_only: Vec<Value> = vec![];
	let steps = beh["steps"].as_array().unwrap();
	let mut classes = vec![];
	for (i, s) in steps.iter().enumerate() {
		let k = s["k"].as_str().unwrap();
		let b = s["b"].as_u64().unwrap();
		let res = match k {
			"ProcessHeader" => {
				let c = chain.as_ref().unwrap();
				let r = std::panic::catch_unwind(std::panic::AssertUnwindSafe(|| {
					c.process_block_header(&w.blocks[&b].header, Options::SKIP_POW)
				}));
				match r {
					Ok(Ok(())) => "ok".to_string(),
					Ok(Err(_)) => "reject".to_string(),
					Err(_) => "panic".to_string(),
				}
			}
			"ProcessBlock" => {
				let c = chain.as_ref().unwrap();
				adapter.log.lock().unwrap().clear();
				let r = std::panic::catch_unwind(std::panic::AssertUnwindSafe(|| {
					c.process_block(w.blocks[&b].clone(), Options::SKIP_POW)
				}));
				// the notifications of this call: (block, status, fork point), in order
				if let Some(exp) = s["notes"].as_array() {
					let obs: Vec<Value> = adapter
						.log
						.lock()
						.unwrap()
						.iter()
						.map(|(h, st, fp)| json!({"b": w.id_of.get(h), "st": st, "fp": if st == "next" { Value::Null } else { json!(w.id_of.get(fp)) }}))
						.collect();
					let expv: Vec<Value> = exp
						.iter()
						.map(|e| json!({"b": e["b"], "st": e["st"], "fp": if e["st"] == "next" { Value::Null } else { e["fp"].clone() }}))
						.collect();
					if obs != expv {
						obs_only.push(json!({"step": i, "what": "notifications", "expected": expv, "observed": obs}));
					}
				}
				match r {
					Ok(r) => class_of(&r),
					Err(_) => "panic".to_string(),
				}
			}
			"SyncHeaders" => {
				// the last `cnt` headers of the path to b, as one sync batch
				let c = chain.as_ref().unwrap();
				let cnt = s["cnt"].as_u64().unwrap() as usize;
				let path = path_to(&w.tree, b);
				let hs: Vec<_> = path[path.len() - cnt..].iter().map(|x| w.blocks[x].header.clone()).collect();
				let r = std::panic::catch_unwind(std::panic::AssertUnwindSafe(|| {
					// the caller's sync head: any header it knows (default: the header head)
					let sync_head = match s["sh"].as_u64() {
						Some(sh) if s["ret"].as_str().is_some() => grin_chain::Tip::from_header(&w.blocks[&sh].header),
						_ => c.header_head().unwrap(),
					};
					c.sync_block_headers(&hs, sync_head, Options::SKIP_POW)
				}));
				if let (Ok(Ok(ret)), Some(exp)) = (&r, s["ret"].as_str()) {
					let obs = if ret.is_some() { "some" } else { "none" };
					if exp != "-" && exp != obs {
						mism.push(json!({"step": i, "what": "sync_head_returned", "b": b, "sh": s["sh"], "expected": exp, "observed": obs}));
					}
				}
				match r {
					Ok(Ok(_)) => "ok".to_string(),
					Ok(Err(_)) => "reject".to_string(),
					Err(_) => "panic".to_string(),
				}
			}
			"Compact" => {
				let c = chain.as_ref().unwrap();
				match std::panic::catch_unwind(std::panic::AssertUnwindSafe(|| c.compact())) {
					Ok(Ok(())) => "ok".to_string(),
					Ok(Err(_)) => "reject".to_string(),
					Err(_) => "panic".to_string(),
				}
			}
			"ResetHead" => {
				let c = chain.as_ref().unwrap();
				let tip = grin_chain::Tip::from_header(&w.blocks[&b].header);
				match std::panic::catch_unwind(std::panic::AssertUnwindSafe(|| c.reset_chain_head(tip, true))) {
					Ok(Ok(())) => "ok".to_string(),
					Ok(Err(_)) => "reject".to_string(),
					Err(_) => "panic".to_string(),
				}
			}
			"Probe" => {
				// read-only rewind of the body state to an ancestor of the head; its roots and sizes must be
				// those of the ancestor's header
				let c = chain.as_ref().unwrap();
				let hdr = w.blocks[&b].header.clone();
				let r = std::panic::catch_unwind(std::panic::AssertUnwindSafe(|| {
					let hp = c.header_pmmr();
					let ts = c.txhashset();
					let mut hp = hp.write();
					let mut ts = ts.write();
					let uat = ids(&s["uat"]);
					grin_chain::txhashset::extending_readonly(&mut hp, &mut ts, |ext, batch| {
						ext.extension.rewind(&hdr, batch)?;
						ext.extension.validate_roots(&hdr)?;
						ext.extension.validate_sizes(&hdr)?;
						// the rewound view exposes exactly the outputs unspent at that block, with their data
						let view = ext.extension.utxo_view(ext.header_extension);
						for (cid, commit) in &w.commit_of {
							let inputs = grin_core::core::Inputs::CommitOnly(vec![(*commit).into()]);
							match view.validate_inputs(&inputs, batch) {
								Ok(v) => {
									if !uat.contains(cid) {
										return Err(ChainError::Other(format!("probe: {} spendable but not unspent at the target", cid)));
									}
									let o = view.get_unspent_output_at(v[0].1.pos - 1)?;
									if o.commitment() != *commit {
										return Err(ChainError::Other(format!("probe: wrong output at position of {}", cid)));
									}
								}
								Err(_) => {
									if uat.contains(cid) {
										return Err(ChainError::Other(format!("probe: {} unspent at the target but not available", cid)));
									}
								}
							}
						}
						Ok(())
					})
				}));
				match r {
					Ok(Ok(())) => "ok".to_string(),
					Ok(Err(_)) => "reject".to_string(),
					Err(_) => "panic".to_string(),
				}
			}
			"QueryTx" => {
				// the pool-facing queries on a transaction built from the model's description
				let c = chain.as_ref().unwrap();
				let arr = |x: &Value| -> Vec<u64> { x.as_array().map(|a| a.iter().map(|y| y.as_u64().unwrap()).collect()).unwrap_or_default() };
				let qb = Blk {
					parent: 0,
					height: 0,
					diff: 1,
					ins: arr(&s["tx"]["ins"]),
					outs: arr(&s["tx"]["outs"]),
					lock: s["tx"]["lock"].as_u64().unwrap(),
					flag: "ok".into(),
				};
				let r = std::panic::catch_unwind(std::panic::AssertUnwindSafe(|| {
					let tx = build_tx(&w.tree, &w.pool, &qb);
					(c.validate_tx(&tx).is_ok(), c.verify_coinbase_maturity(&tx.inputs()).is_ok(), c.verify_tx_lock_height(&tx).is_ok())
				}));
				match r {
					Ok((u, m, l)) => {
						let exp = &s["res"];
						let obs = json!({"utxo": u, "mat": m, "lock": l});
						if exp["utxo"] != obs["utxo"] || exp["mat"] != obs["mat"] || exp["lock"] != obs["lock"] {
							mism.push(json!({"step": i, "what": "tx_query", "tx": s["tx"], "expected": exp, "observed": obs}));
						}
						"query".to_string()
					}
					Err(_) => "panic".to_string(),
				}
			}
			"Reopen" => {
				chain = None;
				let ad = adapter.clone();
				match std::panic::catch_unwind(std::panic::AssertUnwindSafe(|| init_chain_rec(&node_dir, ad))) {
					Ok(c) => {
						chain = Some(c);
						"ok".to_string()
					}
					Err(_) => "panic".to_string(),
				}
			}
			x => panic!("unknown step {}", x),
		};
		classes.push(res.clone());
		if k != "QueryTx" && res != s["res"].as_str().unwrap_or("?") {
			mism.push(json!({"step": i, "what": "result", "k": k, "b": b,
				"flag": w.tree.get(&b).map(|x| x.flag.clone()), "expected": s["res"], "observed": res}));
		}
		if chain.is_none() {
			break;
		}
		let last = i + 1 == steps.len();
		compare(&w, chain.as_ref().unwrap(), &s["proj"], i, &mut mism, &mut obs_only, last || deep_every);
		if !mism.is_empty() {
			break; // first divergence: later steps would only echo it
		}
	}
	// Twin: a node that only ever saw the winning path must have identical roots (C03 "state equals
	// the one reached by applying the winning chain alone"; C15 path independence of the bitmap root)
	let mut twin_checked = false;
	if twin && mism.is_empty() && chain.is_some() && !steps.is_empty() {
		if let Some(mh) = steps[steps.len() - 1]["proj"]["head"].as_u64() {
			let t = init_chain(&format!("{}/twin", dir));
			for b in path_to(&w.tree, mh).iter().skip(1) {
				let _ = t.process_block(w.blocks[b].clone(), Options::SKIP_POW);
			}
			let c = chain.as_ref().unwrap();
			let th = t.head().unwrap().last_block_h;
			if th != w.blocks[&mh].hash() {
				mism.push(json!({"step": steps.len(), "what": "twin_head", "expected": mh, "observed": w.id_of.get(&th)}));
			} else {
				let r1 = c.txhashset().read().roots().unwrap();
				let r2 = t.txhashset().read().roots().unwrap();
				if r1.output_roots.pmmr_root != r2.output_roots.pmmr_root {
					mism.push(json!({"step": steps.len(), "what": "twin_output_root", "expected": "equal", "observed": "differs"}));
				}
				if r1.output_roots.bitmap_root != r2.output_roots.bitmap_root {
					mism.push(json!({"step": steps.len(), "what": "twin_bitmap_root", "expected": "equal", "observed": "differs"}));
				}
				if r1.rproof_root != r2.rproof_root {
					mism.push(json!({"step": steps.len(), "what": "twin_rproof_root", "expected": "equal", "observed": "differs"}));
				}
				if r1.kernel_root != r2.kernel_root {
					mism.push(json!({"step": steps.len(), "what": "twin_kernel_root", "expected": "equal", "observed": "differs"}));
				}
				twin_checked = true;
			}
		}
	}
	drop(chain);
	let _ = std::fs::remove_dir_all(dir);
	json!({"steps": steps.len(), "classes": classes, "mismatches": mism, "twin": twin_checked, "observations": obs_only})
}

fn replay(args: &Args) -> i32 {
	let cases = Arc::new(read_ndjson(args.req("cases")));
	let out_path = args.req("out").to_string();
	let work = args.req("work").to_string();
	let threads = args.u64("threads", 8) as usize;
	let deep = args.get("deep").is_some();
	let twin = args.get("twin").is_some();
	let results: Arc<Mutex<Vec<Option<Value>>>> = Arc::new(Mutex::new(vec![None; cases.len()]));
	let next = Arc::new(Mutex::new(0usize));
	let mut hs = vec![];
	for t in 0..threads {
		let cases = cases.clone();
		let results = results.clone();
		let next = next.clone();
		let work = work.clone();
		hs.push(std::thread::spawn(move || {
			global::set_local_chain_type(ChainTypes::AutomatedTesting);
			global::set_local_nrd_enabled(true);
			loop {
				let i = {
					let mut n = next.lock().unwrap();
					let i = *n;
					*n += 1;
					i
				};
				if i >= cases.len() {
					break;
				}
				let dir = format!("{}/t{}", work, t);
				let r = std::panic::catch_unwind(std::panic::AssertUnwindSafe(|| {
					replay_one(&cases[i], &dir, deep, twin)
				}));
				let v = match r {
					Ok(v) => v,
					Err(_) => json!({"steps": 0, "classes": [], "mismatches": [], "harness_panic": true}),
				};
				results.lock().unwrap()[i] = Some(v);
			}
		}));
	}
	for h in hs {
		h.join().unwrap();
	}
	let mut out = NdWriter::create(&out_path);
	for r in results.lock().unwrap().iter() {
		out.put(r.as_ref().unwrap());
	}
	out.finish();
	0
}

fn main() {
	quiet_panics();
	global::set_local_chain_type(ChainTypes::AutomatedTesting);
	global::set_local_nrd_enabled(true);
	let _ = consensus::REWARD;
	let _ = libtx::ProofBuilder::new(&keychain());
	let a: Vec<String> = std::env::args().skip(1).collect();
	let args = Args::parse(&a);
	let rc = match args.pos.get(0).map(|s| s.as_str()) {
		Some("replay") => replay(&args),
		_ => {
			eprintln!("chain replay --cases F --out F --work DIR [--threads N] [--deep]");
			2
		}
	};
	std::process::exit(rc);
}
