//! Chain engine: replays behaviours generated from spec/Chain.tla on a real grin_chain::Chain
//! and compares the result class and the projected state after every delivery
//! (properties C01-history, C02, C03, C06, C13).
use chrono::Duration;
use grin_chain::types::NoopAdapter;
use grin_chain::{Chain, Error as ChainError, Options};
use grin_core::core::hash::{Hash, Hashed};
use grin_core::core::pmmr;
use grin_core::core::{Block, FeeFields, KernelFeatures, NRDRelativeHeight, Output, Transaction, TxKernel};
use grin_core::libtx::aggsig;
use grin_keychain::BlindingFactor;
use grin_util::secp::key::SecretKey;
use grin_core::global::{self, ChainTypes};
use grin_core::libtx::{self, build, reward, ProofBuilder};
use grin_core::pow::{self, Difficulty};
use grin_core::{consensus, genesis};
use grin_keychain::{ExtKeychain, ExtKeychainPath, Identifier, Keychain, SwitchCommitmentType};
use grin_util::secp::pedersen::Commitment;
use grin_util::static_secp_instance;
use serde_json::{json, Value};
use std::collections::{BTreeMap, BTreeSet, HashMap};
use std::sync::{Arc, Mutex, OnceLock};
use vcommon::*;

pub const UNIT: u64 = 15_000_000_000; // 1 model unit = 15 grin; reward = 4 units

fn keychain() -> ExtKeychain {
	ExtKeychain::from_seed(&[7u8; 32], false).unwrap()
}

fn kid_coinbase(b: u64) -> Identifier {
	ExtKeychainPath::new(3, 1, b as u32, 0, 0).to_identifier()
}

fn kid_pool(c: u64) -> Identifier {
	ExtKeychainPath::new(3, 2, c as u32, 0, 0).to_identifier()
}

type RewardCache = Mutex<HashMap<(u64, u64), (Output, TxKernel)>>;
static REWARDS: OnceLock<RewardCache> = OnceLock::new();
static TXS: OnceLock<Mutex<HashMap<String, Transaction>>> = OnceLock::new();
static GENESIS: OnceLock<Block> = OnceLock::new();
// long trunks: the trunk blocks (their proof nonce is random) and a chain directory that has already
// processed them are built once per process and copied for the builder and the node
static TRUNK_BLOCKS: OnceLock<Mutex<HashMap<String, (Vec<Block>, String)>>> = OnceLock::new();
const TEMPLATE_FROM: u64 = 30;

fn copy_dir(from: &str, to: &str) {
	let _ = std::fs::remove_dir_all(to);
	std::fs::create_dir_all(to).unwrap();
	for e in std::fs::read_dir(from).unwrap() {
		let e = e.unwrap();
		let dst = format!("{}/{}", to, e.file_name().to_string_lossy());
		if e.file_type().unwrap().is_dir() {
			copy_dir(&e.path().to_string_lossy(), &dst);
		} else {
			std::fs::copy(e.path(), &dst).unwrap();
		}
	}
}

fn reward_for(b: u64, value_units_over_base: u64) -> (Output, TxKernel) {
	// value = 60 grin + fees; `value_units_over_base` = fees in units (incl. any over-claim)
	let cache = REWARDS.get_or_init(|| Mutex::new(HashMap::new()));
	if let Some(r) = cache.lock().unwrap().get(&(b, value_units_over_base)) {
		return r.clone();
	}
	let kc = keychain();
	let r = reward::output(
		&kc,
		&ProofBuilder::new(&kc),
		&kid_coinbase(b),
		value_units_over_base * UNIT,
		false,
	)
	.unwrap();
	cache
		.lock()
		.unwrap()
		.insert((b, value_units_over_base), r.clone());
	r
}

fn the_genesis() -> Block {
	GENESIS
		.get_or_init(|| {
			let r = reward_for(0, 0);
			let mut g = genesis::genesis_dev().with_reward(r.0, r.1);
			// header MMR sizes consistent with the body (like the mainnet/testnet genesis)
			g.header.output_mmr_size = 1;
			g.header.kernel_mmr_size = 1;
			g
		})
		.clone()
}

/// Records the adapter notifications (block_accepted + status) of the node under test.
pub struct RecAdapter {
	pub log: Mutex<Vec<(Hash, String, Hash)>>,
}

impl grin_chain::types::ChainAdapter for RecAdapter {
	fn block_accepted(&self, b: &Block, status: grin_chain::types::BlockStatus, _opts: Options) {
		use grin_chain::types::BlockStatus::*;
		let (st, fp) = match status {
			Next { prev } => ("next", prev.last_block_h),
			Fork { fork_point, .. } => ("fork", fork_point.last_block_h),
			Reorg { fork_point, .. } => ("reorg", fork_point.last_block_h),
		};
		self.log.lock().unwrap().push((b.hash(), st.to_string(), fp));
	}
}

pub fn init_chain_rec(dir: &str, adapter: Arc<RecAdapter>) -> Chain {
	Chain::init(dir.to_string(), adapter, the_genesis(), pow::verify_size, false, None).expect("chain init")
}

pub fn init_chain(dir: &str) -> Chain {
	Chain::init(
		dir.to_string(),
		Arc::new(NoopAdapter {}),
		the_genesis(),
		pow::verify_size,
		false,
		None,
	)
	.expect("chain init")
}

/// One transaction of the model: input / output commitment ids and the kernel code (`lock`).
#[derive(Clone, Debug, Default)]
pub struct TxD {
	pub ins: Vec<u64>,
	pub outs: Vec<u64>,
	pub lock: u64,
}

impl TxD {
	fn from_json(v: &Value) -> TxD {
		let arr = |x: &Value| -> Vec<u64> {
			x.as_array()
				.map(|a| a.iter().map(|y| y.as_u64().unwrap()).collect())
				.unwrap_or_default()
		};
		if v.is_null() {
			return TxD::default();
		}
		TxD {
			ins: arr(&v["ins"]),
			outs: arr(&v["outs"]),
			lock: v["lock"].as_u64().unwrap_or(0),
		}
	}
	fn has_tx(&self) -> bool {
		!self.outs.is_empty()
	}
}

pub struct Blk {
	pub parent: u64,
	pub height: u64,
	pub diff: u64,
	pub tx: TxD,
	pub tx2: TxD, // second transaction of the block (empty = none)
	pub flag: String,
}

impl Blk {
	fn txs(&self) -> Vec<&TxD> {
		[&self.tx, &self.tx2].iter().filter(|t| t.has_tx()).cloned().collect()
	}
}

pub struct World {
	pub tree: BTreeMap<u64, Blk>,
	pub pool: HashMap<u64, u64>,
	pub blocks: HashMap<u64, Block>,
	pub id_of: HashMap<Hash, u64>,
	pub commit_of: BTreeMap<u64, Commitment>, // model commit id -> real commitment
	pub outputs: HashMap<Commitment, Output>, // every output of every minted block (first occurrence)
}

fn parse_tree(beh: &Value) -> (BTreeMap<u64, Blk>, HashMap<u64, u64>) {
	let mut tree = BTreeMap::new();
	let t = &beh["tree"];
	// ToJson renders a function with domain 0..k as an array (index = id) or as an object
	let entries: Vec<(u64, &Value)> = match t {
		Value::Array(a) => a.iter().enumerate().map(|(i, v)| (i as u64, v)).collect(),
		Value::Object(o) => o.iter().map(|(k, v)| (k.parse().unwrap(), v)).collect(),
		_ => panic!("tree"),
	};
	for (id, v) in entries {
		tree.insert(
			id,
			Blk {
				parent: v["parent"].as_u64().unwrap(),
				height: v["height"].as_u64().unwrap(),
				diff: v["diff"].as_u64().unwrap(),
				tx: TxD::from_json(&v["tx"]),
				tx2: TxD::from_json(&v["tx2"]),
				flag: v["flag"].as_str().unwrap().to_string(),
			},
		);
	}
	let mut pool = HashMap::new();
	if let Some(o) = beh["pool"].as_object() {
		for (k, v) in o {
			pool.insert(k.parse().unwrap(), v.as_u64().unwrap());
		}
	}
	(tree, pool)
}

fn block_fee(b: &Blk) -> u64 {
	b.txs().len() as u64
}

fn commit_value_units(w_tree: &BTreeMap<u64, Blk>, pool: &HashMap<u64, u64>, c: u64) -> u64 {
	if c < 100 {
		4 + if c == 0 { 0 } else { w_tree.get(&c).map(block_fee).unwrap_or(0) }
	} else {
		pool[&c]
	}
}

fn build_tx(tree: &BTreeMap<u64, Blk>, pool: &HashMap<u64, u64>, b: &TxD) -> Transaction {
	let key = format!(
		"{:?}|{:?}|{}|{:?}",
		b.ins,
		b.outs,
		b.lock,
		b.ins
			.iter()
			.map(|c| commit_value_units(tree, pool, *c))
			.collect::<Vec<_>>()
	);
	let cache = TXS.get_or_init(|| Mutex::new(HashMap::new()));
	if let Some(t) = cache.lock().unwrap().get(&key) {
		return t.clone();
	}
	let kc = keychain();
	let pb = ProofBuilder::new(&kc);
	let mut elems = vec![];
	for c in &b.ins {
		let v = commit_value_units(tree, pool, *c) * UNIT;
		if *c < 100 {
			elems.push(build::coinbase_input(v, kid_coinbase(*c)));
		} else {
			elems.push(build::input(v, kid_pool(*c)));
		}
	}
	for c in &b.outs {
		elems.push(build::output(pool[c] * UNIT, kid_pool(*c)));
	}
	let fee = FeeFields::new(0, UNIT).unwrap();
	let tx = if b.lock >= 1000 {
		// no-recent-duplicate kernel with a fixed excess per key (the same excess is reused by design)
		let key = (b.lock - 1000) / 10;
		let rel = (b.lock - 1000) % 10;
		let mut kernel = TxKernel::with_features(KernelFeatures::NoRecentDuplicate {
			fee,
			relative_height: NRDRelativeHeight::new(rel).expect("nrd rel"),
		});
		let msg = kernel.msg_to_sign().unwrap();
		let secp = static_secp_instance();
		let secp = secp.lock();
		let skey = SecretKey::from_slice(&secp, &[40 + key as u8; 32]).unwrap();
		let excess = BlindingFactor::from_secret_key(skey.clone());
		kernel.excess = secp.commit(0, skey).unwrap();
		let pubkey = kernel.excess.to_pubkey(&secp).unwrap();
		kernel.excess_sig = aggsig::sign_with_blinding(&secp, &msg, &excess, Some(&pubkey)).unwrap();
		drop(secp);
		build::transaction_with_kernel(&elems, kernel, excess, &kc, &pb).expect("build nrd tx")
	} else {
		let features = if b.lock == 0 {
			KernelFeatures::Plain { fee }
		} else {
			KernelFeatures::HeightLocked {
				fee,
				lock_height: b.lock,
			}
		};
		build::transaction(features, &elems, &kc, &pb).expect("build tx")
	};
	cache.lock().unwrap().insert(key, tx.clone());
	tx
}

/// The fixed kernel excess of NRD key `key` (see build_tx).
fn nrd_excess(key: u64) -> Commitment {
	let secp = static_secp_instance();
	let secp = secp.lock();
	let skey = SecretKey::from_slice(&secp, &[40 + key as u8; 32]).unwrap();
	secp.commit(0, skey).unwrap()
}

fn flip(h: &Hash) -> Hash {
	let mut v = h.to_vec();
	v[0] ^= 0x55;
	v[31] ^= 0xaa;
	Hash::from_vec(&v)
}

/// Build every block of the tree with honest roots computed on a builder chain that receives
/// all blocks in id (= topological) order; apply the corruption flags afterwards.
pub fn build_world(beh: &Value, dir: &str) -> World {
	let (tree, pool) = parse_tree(beh);
	let trunk = beh["trunk"].as_u64().unwrap_or(0);
	let tkey = format!(
		"{}|{:?}",
		trunk,
		(1..=trunk).map(|k| (tree[&k].tx.ins.clone(), tree[&k].tx.outs.clone(), tree[&k].diff)).collect::<Vec<_>>()
	);
	let mut cached: Option<Vec<Block>> = None;
	if trunk >= TEMPLATE_FROM {
		let cache = TRUNK_BLOCKS.get_or_init(|| Mutex::new(HashMap::new()));
		if let Some((bs, tdir)) = cache.lock().unwrap().get(&tkey) {
			copy_dir(tdir, &format!("{}/builder", dir));
			copy_dir(tdir, &format!("{}/node", dir));
			cached = Some(bs.clone());
		}
	}
	let mut builder = init_chain(&format!("{}/builder", dir));
	let g = the_genesis();
	let mut blocks: HashMap<u64, Block> = HashMap::new();
	let mut id_of = HashMap::new();
	let mut commit_of = BTreeMap::new();
	blocks.insert(0, g.clone());
	id_of.insert(g.hash(), 0);
	commit_of.insert(0, g.outputs()[0].commitment());
	let kc = keychain();
	for (c, v) in &pool {
		commit_of.insert(
			*c,
			kc.commit(*v * UNIT, &kid_pool(*c), SwitchCommitmentType::Regular)
				.unwrap(),
		);
	}
	if let Some(bs) = &cached {
		for (k, blk) in bs.iter().enumerate() {
			let id = k as u64 + 1;
			id_of.insert(blk.hash(), id);
			commit_of.insert(id, reward_for(id, block_fee(&tree[&id])).0.commitment());
			blocks.insert(id, blk.clone());
		}
	}
	for (id, b) in &tree {
		if *id == 0 || (cached.is_some() && *id <= trunk) {
			continue;
		}
		let prev = blocks[&b.parent].header.clone();
		// Block::new aggregates the (disjoint) transactions: union of inputs / outputs, one kernel each
		let txs: Vec<Transaction> = b.txs().iter().map(|t| build_tx(&tree, &pool, t)).collect();
		let over = if b.flag == "badSums" { 1 } else { 0 };
		let rw = reward_for(*id, block_fee(b) + over);
		let cb_commit = rw.0.commitment();
		let mut blk = Block::new(&prev, &txs, Difficulty::from_num(b.diff), rw).expect("block new");
		blk.header.timestamp = prev.timestamp
			+ if b.flag == "badTime" {
				Duration::seconds(0)
			} else {
				Duration::seconds(60)
			};
		if builder.set_txhashset_roots(&mut blk).is_err() {
			// invalid on its fork (or parent unknown): honest prev_root and arithmetically consistent sizes
			let _ = builder.set_prev_root_only(&mut blk.header);
			let ol = pmmr::n_leaves(prev.output_mmr_size) + blk.outputs().len() as u64;
			let kl = pmmr::n_leaves(prev.kernel_mmr_size) + blk.kernels().len() as u64;
			blk.header.output_mmr_size = pmmr::insertion_to_pmmr_index(ol);
			blk.header.kernel_mmr_size = pmmr::insertion_to_pmmr_index(kl);
		}
		match b.flag.as_str() {
			"badRoot" => blk.header.output_root = flip(&blk.header.output_root),
			"badKernelRoot" => blk.header.kernel_root = flip(&blk.header.kernel_root),
			"badRproofRoot" => blk.header.range_proof_root = flip(&blk.header.range_proof_root),
			"badKernelSize" => {
				let l = pmmr::n_leaves(blk.header.kernel_mmr_size) + 1;
				blk.header.kernel_mmr_size = pmmr::insertion_to_pmmr_index(l);
			}
			"badSize" => {
				let l = pmmr::n_leaves(blk.header.output_mmr_size) + 1;
				blk.header.output_mmr_size = pmmr::insertion_to_pmmr_index(l);
			}
			"badPrevRoot" => blk.header.prev_root = flip(&blk.header.prev_root),
			_ => {}
		}
		let _ = builder.process_block(blk.clone(), Options::SKIP_POW);
		id_of.insert(blk.hash(), *id);
		commit_of.insert(*id, cb_commit);
		blocks.insert(*id, blk);
		if cached.is_none() && trunk >= TEMPLATE_FROM && *id == trunk {
			// the builder has processed exactly the trunk: keep a copy as this process's template
			let tdir = format!("{}/../template_{}", dir, std::process::id());
			drop(builder);
			copy_dir(&format!("{}/builder", dir), &tdir);
			copy_dir(&tdir, &format!("{}/node", dir));
			let bs: Vec<Block> = (1..=trunk).map(|k| blocks[&k].clone()).collect();
			TRUNK_BLOCKS
				.get_or_init(|| Mutex::new(HashMap::new()))
				.lock()
				.unwrap()
				.insert(tkey.clone(), (bs, tdir));
			builder = init_chain(&format!("{}/builder", dir));
		}
	}
	let mut outputs: HashMap<Commitment, Output> = HashMap::new();
	for id in tree.keys() {
		if let Some(b) = blocks.get(id) {
			for o in b.outputs() {
				outputs.entry(o.commitment()).or_insert_with(|| o.clone());
			}
		}
	}
	World {
		tree,
		pool,
		blocks,
		id_of,
		commit_of,
		outputs,
	}
}

pub fn class_of(r: &Result<Option<grin_chain::Tip>, ChainError>) -> String {
	match r {
		Ok(Some(_)) => "ok_head".into(),
		Ok(None) => "ok_fork".into(),
		Err(ChainError::Orphan) => "orphan".into(),
		Err(ChainError::Unfit(_)) | Err(ChainError::OldBlock) => "known".into(),
		Err(_) => "reject".into(),
	}
}

fn path_to(tree: &BTreeMap<u64, Blk>, mut b: u64) -> Vec<u64> {
	let mut p = vec![b];
	while b != 0 {
		b = tree[&b].parent;
		p.push(b);
	}
	p.reverse();
	p
}

fn ids(v: &Value) -> BTreeSet<u64> {
	v.as_array()
		.map(|a| a.iter().map(|x| x.as_u64().unwrap()).collect())
		.unwrap_or_default()
}

/// Compare the real chain with the model projection; push mismatches.
/// `obs` receives differences in behaviour that no listed property speaks about (body tail, adapter
/// notifications): recorded in the evidence, never a violation.
fn compare(
	w: &World,
	chain: &Chain,
	proj: &Value,
	step: usize,
	mism: &mut Vec<Value>,
	obs_only: &mut Vec<Value>,
	deep: bool,
	known_pos: &mut HashMap<u64, u64>,
) {
	let mut bad = |what: &str, exp: Value, obs: Value| {
		mism.push(json!({"step": step, "what": what, "expected": exp, "observed": obs}));
	};
	let head = chain.head().unwrap();
	let hid = w.id_of.get(&head.last_block_h).cloned();
	if hid != proj["head"].as_u64() {
		bad("head", proj["head"].clone(), json!(hid));
	}
	let hh = chain.header_head().unwrap();
	let hhid = w.id_of.get(&hh.last_block_h).cloned();
	if hhid != proj["hhead"].as_u64() {
		bad("hhead", proj["hhead"].clone(), json!(hhid));
	}
	// unspent set with creation heights
	let mut exp_unspent: BTreeMap<u64, u64> = BTreeMap::new();
	for u in proj["unspent"].as_array().unwrap() {
		exp_unspent.insert(u["c"].as_u64().unwrap(), u["h"].as_u64().unwrap());
	}
	let mut obs_unspent: BTreeMap<u64, u64> = BTreeMap::new();
	let mut pos_of: BTreeMap<u64, u64> = BTreeMap::new(); // model commit id -> real position (1-based) of the unspent instance
	for (c, commit) in &w.commit_of {
		match chain.get_unspent(*commit) {
			Ok(Some((oid, pos))) => {
				obs_unspent.insert(*c, pos.height);
				pos_of.insert(*c, pos.pos);
				known_pos.insert(*c, pos.pos);
				// the position must hold exactly this output
				match chain.get_unspent_output_at(pos.pos - 1) {
					Ok(o) => {
						if o.commitment() != *commit || o.commitment() != oid.commitment() {
							bad("unspent_pos_commit", json!(c), json!(pos.pos));
						}
						// ... with the range proof it was created with (the rangeproof MMR is parallel)
						if let Some(orig) = w.outputs.get(commit) {
							if orig.proof != o.proof {
								bad("unspent_pos_proof", json!(c), json!(pos.pos));
							}
						}
					}
					Err(e) => bad("unspent_at_pos_missing", json!(c), json!(format!("{:?}", e))),
				}
			}
			Ok(None) => {}
			Err(e) => bad("get_unspent_err", json!(c), json!(format!("{:?}", e))),
		}
	}
	if exp_unspent != obs_unspent {
		bad("unspent", json!(exp_unspent), json!(obs_unspent));
	}
	let nleaves = pmmr::n_leaves(chain.txhashset().read().output_mmr_size());
	if Some(nleaves) != proj["nleaves"].as_u64() {
		bad("nleaves", proj["nleaves"].clone(), json!(nleaves));
	}
	// sizes of the kernel and range-proof MMRs the model predicts (one kernel per block and per transaction)
	{
		let ts = chain.txhashset();
		let ts = ts.read();
		let nk = pmmr::n_leaves(ts.kernel_mmr_size());
		if let Some(e) = proj["nkernels"].as_u64() {
			if nk != e {
				bad("nkernels", json!(e), json!(nk));
			}
		}
		if ts.rangeproof_mmr_size() != ts.output_mmr_size() {
			bad("rproof_mmr_size", json!(ts.output_mmr_size()), json!(ts.rangeproof_mmr_size()));
		}
	}
	// head of the recent-kernel (NRD) index per excess key = the model's latest occurrence on the best chain
	if let Some(tops) = proj["nrdtop"].as_array() {
		use grin_chain::linked_list::ListIndex;
		let store = chain.store();
		let batch = store.batch();
		if let Ok(batch) = &batch {
			let idx = grin_chain::store::nrd_recent_kernel_index();
			for (j, e) in tops.iter().enumerate() {
				let key = j as u64 + 1;
				let obs = match idx.peek_pos(batch, nrd_excess(key)) {
					Ok(Some(p)) => p.height as i64,
					Ok(None) => -1,
					Err(_) => -2,
				};
				if Some(obs) != e.as_i64() {
					bad("nrd_index_head", json!({"key": key, "height": e}), json!(obs));
				}
			}
		}
	}
	// Enumeration of the unspent set (Chain::unspent_outputs_by_pmmr_index) = EnumOf / EnumPage / EnumUpTo of the model:
	// the unspent outputs in MMR order (block-wise: the order inside one block is by commitment bytes), with the
	// range proofs they were created with; the same set whatever the page size; bounded by the output MMR size of an
	// ancestor exactly the currently unspent outputs created up to it.  An error is a mismatch.
	if exp_unspent == obs_unspent {
		let id_of_commit: HashMap<Commitment, u64> = w.commit_of.iter().map(|(c, k)| (*k, *c)).collect();
		let to_ids = |outs: &Vec<Output>| -> Vec<Value> {
			outs.iter().map(|o| json!(id_of_commit.get(&o.commitment()))).collect()
		};
		// expected order: by the real position (cross-checked above against the model height by height)
		let mut by_pos: Vec<(u64, u64)> = pos_of.iter().map(|(c, p)| (*p, *c)).collect();
		by_pos.sort();
		let exp_seq: Vec<Value> = by_pos.iter().map(|(_, c)| json!(c)).collect();
		// ... which must be the model's MMR order block by block
		if let Some(en) = proj["enum"].as_array() {
			let hs_model: Vec<u64> = en.iter().map(|c| exp_unspent[&c.as_u64().unwrap()]).collect();
			let hs_real: Vec<u64> = by_pos.iter().map(|(_, c)| exp_unspent[c]).collect();
			let mut a: Vec<u64> = en.iter().map(|c| c.as_u64().unwrap()).collect();
			let mut b: Vec<u64> = by_pos.iter().map(|(_, c)| *c).collect();
			a.sort();
			b.sort();
			if hs_model != hs_real || a != b {
				bad("unspent_enum_order", json!(en), json!(exp_seq));
			}
		}
		let size = chain.txhashset().read().output_mmr_size();
		match chain.unspent_outputs_by_pmmr_index(1, 10_000, None) {
			Ok((_, last, outs)) => {
				if to_ids(&outs) != exp_seq {
					bad("unspent_enum", json!(exp_seq), json!(to_ids(&outs)));
				} else {
					for o in &outs {
						if let Some(orig) = w.outputs.get(&o.commitment()) {
							if orig.proof != o.proof || orig.features() != o.features() {
								bad("unspent_enum_proof", json!(id_of_commit.get(&o.commitment())), json!("differs"));
								break;
							}
						}
					}
				}
				if last != size {
					bad("unspent_enum_last_index", json!(size), json!(last));
				}
			}
			Err(e) => bad("unspent_enum_err", json!("ok"), json!(format!("{:?}", e))),
		}
		// pages of 1..3 outputs, each resumed behind the position the previous one returned
		let page = 1 + (step as u64 % 3);
		let mut start = 1u64;
		let mut walked: Vec<Value> = vec![];
		let mut err: Option<String> = None;
		let mut guard = 0;
		while start <= size && guard < 20_000 {
			guard += 1;
			match chain.unspent_outputs_by_pmmr_index(start, page, None) {
				Ok((ret, _, outs)) => {
					if outs.len() as u64 > page {
						err = Some(format!("page of {} holds {}", page, outs.len()));
						break;
					}
					walked.extend(to_ids(&outs));
					if ret < start {
						err = Some(format!("no progress: start {} returned {}", start, ret));
						break;
					}
					start = ret + 1;
				}
				Err(e) => {
					err = Some(format!("{:?}", e));
					break;
				}
			}
		}
		if let Some(e) = err {
			bad("unspent_enum_paged_err", json!("ok"), json!(e));
		} else if walked != exp_seq {
			bad("unspent_enum_paged", json!({"page": page, "seq": exp_seq}), json!(walked));
		}
		// bounded by the output MMR size of an ancestor of the head
		if let (Some(a), Some(cs)) = (proj["enumAt"]["b"].as_u64(), proj["enumAt"]["cs"].as_array()) {
			let upto = w.blocks[&a].header.output_mmr_size;
			let exp_b: Vec<Value> = by_pos
				.iter()
				.filter(|(_, c)| cs.iter().any(|x| x.as_u64() == Some(*c)))
				.map(|(_, c)| json!(c))
				.collect();
			if exp_b.len() != cs.len() {
				bad("unspent_enum_bounded_model", json!(cs), json!(exp_b));
			}
			match chain.unspent_outputs_by_pmmr_index(1, 10_000, Some(upto)) {
				Ok((_, last, outs)) => {
					if to_ids(&outs) != exp_b {
						bad("unspent_enum_bounded", json!({"ancestor": a, "seq": exp_b}), json!(to_ids(&outs)));
					}
					if last != upto {
						bad("unspent_enum_bounded_last_index", json!(upto), json!(last));
					}
				}
				Err(e) => bad("unspent_enum_bounded_err", json!("ok"), json!(format!("{:?}", e))),
			}
		}
	}
	if let Some(t) = proj["tail"].as_i64() {
		let obs = chain.tail().map(|x| x.height as i64).unwrap_or(-1);
		if obs != t {
			obs_only.push(json!({"step": step, "what": "tail", "expected": t, "observed": obs}));
		}
	}
	let exp_orph = ids(&proj["orph"]);
	let exp_hdrs = ids(&proj["hdrs"]);
	let exp_bodies = ids(&proj["bodies"]);
	let mut obs_orph = BTreeSet::new();
	let mut obs_hdrs = BTreeSet::new();
	let mut obs_bodies = BTreeSet::new();
	for (id, b) in &w.blocks {
		let h = b.hash();
		if chain.is_orphan(&h) {
			obs_orph.insert(*id);
		}
		if chain.get_block_header(&h).is_ok() {
			obs_hdrs.insert(*id);
		}
		if chain.get_block(&h).is_ok() {
			obs_bodies.insert(*id);
		}
	}
	if exp_orph != obs_orph {
		bad("orphans", json!(exp_orph), json!(obs_orph));
	}
	if exp_hdrs != obs_hdrs {
		bad("headers_stored", json!(exp_hdrs), json!(obs_hdrs));
	}
	if exp_bodies != obs_bodies {
		bad("bodies_stored", json!(exp_bodies), json!(obs_bodies));
	}
	// stored running sums of best-chain blocks (C01 history clause): recomputed from the MODEL's
	// unspent set and kernel list with the real commitment arithmetic
	if let Some(mh) = proj["head"].as_u64() {
		let path = path_to(&w.tree, mh);
		for b in ids(&proj["bestsums"]) {
			if chain.get_block_sums(&w.blocks[&b].hash()).is_err() {
				bad("sums_missing", json!(b), json!(null));
			}
		}
		let secp = static_secp_instance();
		let secp = secp.lock();
		let pos: Vec<Commitment> = exp_unspent.keys().map(|c| w.commit_of[c]).collect();
		let kerns: Vec<Commitment> = path
			.iter()
			.flat_map(|b| w.blocks[b].kernels().iter().map(|k| k.excess()))
			.collect();
		// utxo_sum = unspent outputs minus the height-determined supply (genesis included)
		let supply = consensus::REWARD * (w.tree[&mh].height + 1);
		let us = secp
			.commit_value(supply)
			.and_then(|sc| secp.commit_sum(pos, vec![sc]));
		let ks = secp.commit_sum(kerns, vec![]);
		match (chain.get_block_sums(&w.blocks[&mh].hash()), us, ks) {
			(Ok(s), Ok(us), Ok(ks)) => {
				if s.utxo_sum != us {
					bad("utxo_sum", json!(mh), json!("differs"));
				}
				if s.kernel_sum != ks {
					bad("kernel_sum", json!(mh), json!("differs"));
				}
			}
			(Err(e), _, _) => bad("head_sums_missing", json!(mh), json!(format!("{:?}", e))),
			_ => {}
		}
	}
	if deep {
		if let Err(e) = chain.validate(false) {
			bad("validate_full", json!("ok"), json!(format!("{:?}", e)));
		}
	}
}

/// Best-chain state a failing / non-head-moving call must leave alone (C06 RejectLeavesState on the real node):
/// the four state roots, the three MMR sizes, and for the given best-chain blocks the stored running sums and
/// spend records, by value.
fn snapshot(w: &World, chain: &Chain, best: &BTreeSet<u64>) -> BTreeMap<String, String> {
	let mut m = BTreeMap::new();
	{
		let ts = chain.txhashset();
		let ts = ts.read();
		match ts.roots() {
			Ok(r) => {
				m.insert("output_root".to_string(), format!("{:?}", r.output_roots.pmmr_root));
				m.insert("bitmap_root".to_string(), format!("{:?}", r.output_roots.bitmap_root));
				m.insert("rproof_root".to_string(), format!("{:?}", r.rproof_root));
				m.insert("kernel_root".to_string(), format!("{:?}", r.kernel_root));
			}
			Err(e) => {
				m.insert("roots".to_string(), format!("{:?}", e));
			}
		}
		m.insert("output_mmr_size".to_string(), ts.output_mmr_size().to_string());
		m.insert("rproof_mmr_size".to_string(), ts.rangeproof_mmr_size().to_string());
		m.insert("kernel_mmr_size".to_string(), ts.kernel_mmr_size().to_string());
	}
	let store = chain.store();
	if let Ok(batch) = store.batch() {
		for b in best {
			if let Some(blk) = w.blocks.get(b) {
				let h = blk.hash();
				m.insert(format!("sums:{}", b), format!("{:?}", chain.get_block_sums(&h).map(|s| (s.utxo_sum, s.kernel_sum)).map_err(|_| "missing")));
				if *b != 0 {
					m.insert(format!("spent:{}", b), format!("{:?}", batch.get_spent_index(&h).map_err(|_| "missing")));
				}
			}
		}
	}
	m
}

fn replay_one(beh: &Value, dir: &str, deep_every: bool, twin: bool, vfail: bool) -> Value {
	// the node's NRD feature flag follows the behaviour's shape ("nrdoff": NRD kernels are minted but the flag is off)
	global::set_local_nrd_enabled(beh["shapes"].as_str() != Some("nrdoff"));
	let _ = std::fs::remove_dir_all(dir);
	std::fs::create_dir_all(dir).unwrap();
	let w = build_world(beh, dir);
	let node_dir = format!("{}/node", dir);
	let adapter = Arc::new(RecAdapter { log: Mutex::new(vec![]) });
	let mut chain = Some(init_chain_rec(&node_dir, adapter.clone()));
	let trunk = beh["trunk"].as_u64().unwrap_or(0);
	if trunk < TEMPLATE_FROM {
		for k in 1..=trunk {
			let _ = chain
				.as_ref()
				.unwrap()
				.process_block(w.blocks[&k].clone(), Options::SKIP_POW);
		}
	} else if chain.as_ref().unwrap().head().unwrap().last_block_h != w.blocks[&trunk].hash() {
		panic!("templated node is not at the trunk head");
	}
	let mut mism: Vec<Value> = vec![];
	let mut obs_only: Vec<Value> = vec![];
	let mut known_pos: HashMap<u64, u64> = HashMap::new();
	let steps = beh["steps"].as_array().unwrap();
	let mut classes = vec![];
	let mut prev_head: Option<u64> = Some(trunk);
	let mut prev_best: BTreeSet<u64> = path_to(&w.tree, trunk).into_iter().collect();
	for (i, s) in steps.iter().enumerate() {
		let k = s["k"].as_str().unwrap();
		let b = s["b"].as_u64().unwrap();
		let pre = snapshot(&w, chain.as_ref().unwrap(), &prev_best);
		let res = match k {
			"ProcessHeader" => {
				let c = chain.as_ref().unwrap();
				let r = std::panic::catch_unwind(std::panic::AssertUnwindSafe(|| {
					c.process_block_header(&w.blocks[&b].header, Options::SKIP_POW)
				}));
				match r {
					Ok(Ok(())) => "ok".to_string(),
					Ok(Err(_)) => "reject".to_string(),
					Err(_) => "panic".to_string(),
				}
			}
			"ProcessBlock" => {
				let c = chain.as_ref().unwrap();
				adapter.log.lock().unwrap().clear();
				let r = std::panic::catch_unwind(std::panic::AssertUnwindSafe(|| {
					c.process_block(w.blocks[&b].clone(), Options::SKIP_POW)
				}));
				// the notifications of this call: (block, status, fork point), in order
				if let Some(exp) = s["notes"].as_array() {
					let obs: Vec<Value> = adapter
						.log
						.lock()
						.unwrap()
						.iter()
						.map(|(h, st, fp)| json!({"b": w.id_of.get(h), "st": st, "fp": if st == "next" { Value::Null } else { json!(w.id_of.get(fp)) }}))
						.collect();
					let expv: Vec<Value> = exp
						.iter()
						.map(|e| json!({"b": e["b"], "st": e["st"], "fp": if e["st"] == "next" { Value::Null } else { e["fp"].clone() }}))
						.collect();
					// C03 observes "ChainAdapter::block_accepted status per delivery".  Verdict: one notification per
					// accepted block of the call (the block, then the retried orphans) in order; Fork iff that block
					// did not become the head; the fork point of a Fork.  Next-vs-Reorg (computed against the header
					// chain, DESIGN 9.3) stays an observation outside the properties.
					let coarse = |v: &Vec<Value>| -> Vec<Value> {
						v.iter()
							.map(|e| {
								let fork = e["st"] == "fork";
								json!({"b": e["b"], "st": if fork { "fork" } else { "head" }, "fp": if fork { e["fp"].clone() } else { Value::Null }})
							})
							.collect()
					};
					if coarse(&obs) != coarse(&expv) {
						mism.push(json!({"step": i, "what": "notifications", "b": b, "expected": coarse(&expv), "observed": coarse(&obs)}));
					} else if obs != expv {
						obs_only.push(json!({"step": i, "what": "notifications", "expected": expv, "observed": obs}));
					}
				}
				match r {
					Ok(r) => class_of(&r),
					Err(_) => "panic".to_string(),
				}
			}
			"SyncHeaders" => {
				// the last `cnt` headers of the path to b, as one sync batch
				let c = chain.as_ref().unwrap();
				let cnt = s["cnt"].as_u64().unwrap() as usize;
				let path = path_to(&w.tree, b);
				let hs: Vec<_> = path[path.len() - cnt..].iter().map(|x| w.blocks[x].header.clone()).collect();
				let r = std::panic::catch_unwind(std::panic::AssertUnwindSafe(|| {
					// the caller's sync head: any header it knows (default: the header head)
					let sync_head = match s["sh"].as_u64() {
						Some(sh) if s["ret"].as_str().is_some() => grin_chain::Tip::from_header(&w.blocks[&sh].header),
						_ => c.header_head().unwrap(),
					};
					c.sync_block_headers(&hs, sync_head, Options::SKIP_POW)
				}));
				if let (Ok(Ok(ret)), Some(exp)) = (&r, s["ret"].as_str()) {
					let obs = if ret.is_some() { "some" } else { "none" };
					if exp != "-" && exp != obs {
						mism.push(json!({"step": i, "what": "sync_head_returned", "b": b, "sh": s["sh"], "expected": exp, "observed": obs}));
					}
				}
				match r {
					Ok(Ok(_)) => "ok".to_string(),
					Ok(Err(_)) => "reject".to_string(),
					Err(_) => "panic".to_string(),
				}
			}
			"Compact" => {
				let c = chain.as_ref().unwrap();
				match std::panic::catch_unwind(std::panic::AssertUnwindSafe(|| c.compact())) {
					Ok(Ok(())) => "ok".to_string(),
					Ok(Err(_)) => "reject".to_string(),
					Err(_) => "panic".to_string(),
				}
			}
			"ResetHead" => {
				let c = chain.as_ref().unwrap();
				let tip = grin_chain::Tip::from_header(&w.blocks[&b].header);
				match std::panic::catch_unwind(std::panic::AssertUnwindSafe(|| c.reset_chain_head(tip, true))) {
					Ok(Ok(())) => "ok".to_string(),
					Ok(Err(_)) => "reject".to_string(),
					Err(_) => "panic".to_string(),
				}
			}
			"Probe" => {
				// read-only rewind of the body state to an ancestor of the head; its roots and sizes must be
				// those of the ancestor's header
				let c = chain.as_ref().unwrap();
				let hdr = w.blocks[&b].header.clone();
				let r = std::panic::catch_unwind(std::panic::AssertUnwindSafe(|| {
					let hp = c.header_pmmr();
					let ts = c.txhashset();
					let mut hp = hp.write();
					let mut ts = ts.write();
					let uat = ids(&s["uat"]);
					grin_chain::txhashset::extending_readonly(&mut hp, &mut ts, |ext, batch| {
						ext.extension.rewind(&hdr, batch)?;
						ext.extension.validate_roots(&hdr)?;
						ext.extension.validate_sizes(&hdr)?;
						// the rewound view exposes exactly the outputs unspent at that block, with their data
						let view = ext.extension.utxo_view(ext.header_extension);
						for (cid, commit) in &w.commit_of {
							let inputs = grin_core::core::Inputs::CommitOnly(vec![(*commit).into()]);
							match view.validate_inputs(&inputs, batch) {
								Ok(v) => {
									if !uat.contains(cid) {
										return Err(ChainError::Other(format!("probe: {} spendable but not unspent at the target", cid)));
									}
									let o = view.get_unspent_output_at(v[0].1.pos - 1)?;
									if o.commitment() != *commit {
										return Err(ChainError::Other(format!("probe: wrong output at position of {}", cid)));
									}
								}
								Err(_) => {
									if uat.contains(cid) {
										return Err(ChainError::Other(format!("probe: {} unspent at the target but not available", cid)));
									}
								}
							}
						}
						Ok(())
					})
				}));
				match r {
					Ok(Ok(())) => "ok".to_string(),
					Ok(Err(_)) => "reject".to_string(),
					Err(_) => "panic".to_string(),
				}
			}
			"QueryTx" => {
				// the pool-facing queries on a transaction built from the model's description
				let c = chain.as_ref().unwrap();
				let c_get_pos = |commit: &Commitment| -> Option<u64> { c.get_unspent(*commit).ok().flatten().map(|x| x.1.pos) };
				let q1 = TxD::from_json(&s["tx"]);
				let q2 = TxD::from_json(&s["tx2"]);
				let id_of_commit: HashMap<Commitment, u64> = w.commit_of.iter().map(|(c, k)| (*k, *c)).collect();
				let r = std::panic::catch_unwind(std::panic::AssertUnwindSafe(|| {
					let mut tx = build_tx(&w.tree, &w.pool, &q1);
					if q2.has_tx() {
						// what the pool holds after aggregation: both kernels in one transaction
						tx = grin_core::core::transaction::aggregate(&[tx, build_tx(&w.tree, &w.pool, &q2)]).expect("aggregate");
					}
					// Chain::validate_inputs: the outputs the inputs would spend, with position and creation height
					let vi = c.validate_inputs(&tx.inputs()).map(|v| {
						let mut x: Vec<(Option<u64>, u64, u64)> = v.iter().map(|(oid, p)| (id_of_commit.get(&oid.commitment()).cloned(), p.height, p.pos)).collect();
						x.sort();
						x
					});
					(c.validate_tx(&tx).is_ok(), c.verify_coinbase_maturity(&tx.inputs()).is_ok(), c.verify_tx_lock_height(&tx).is_ok(), vi)
				}));
				match r {
					Ok((u, m, l, vi)) => {
						let exp = &s["res"];
						let obs = json!({"utxo": u, "mat": m, "lock": l});
						if exp["utxo"] != obs["utxo"] || exp["mat"] != obs["mat"] || exp["lock"] != obs["lock"] {
							mism.push(json!({"step": i, "what": "tx_query", "tx": s["tx"], "tx2": s["tx2"], "expected": exp, "observed": obs}));
						}
						if let Some(found) = exp["found"].as_bool() {
							match (&vi, found) {
								(Ok(v), true) => {
									let mut e: Vec<(Option<u64>, u64)> = exp["spent"].as_array().map(|a| a.iter().map(|x| (x["c"].as_u64(), x["h"].as_u64().unwrap())).collect()).unwrap_or_default();
									e.sort();
									let o: Vec<(Option<u64>, u64)> = v.iter().map(|x| (x.0, x.1)).collect();
									// and the positions are the ones get_unspent reports
									let pos_ok = v.iter().all(|x| x.0.map(|c| c_get_pos(&w.commit_of[&c]) == Some(x.2)).unwrap_or(false));
									if e != o || !pos_ok {
										mism.push(json!({"step": i, "what": "validate_inputs", "tx": s["tx"], "tx2": s["tx2"], "expected": exp["spent"], "observed": format!("{:?}", v)}));
									}
								}
								(Err(_), false) => {}
								(Ok(v), false) => mism.push(json!({"step": i, "what": "validate_inputs", "tx": s["tx"], "tx2": s["tx2"], "expected": "err", "observed": format!("{:?}", v)})),
								(Err(e), true) => mism.push(json!({"step": i, "what": "validate_inputs", "tx": s["tx"], "tx2": s["tx2"], "expected": exp["spent"], "observed": format!("{:?}", e)})),
							}
						}
						"query".to_string()
					}
					Err(_) => "panic".to_string(),
				}
			}
			"Reindex" => {
				// a restart on a damaged output_pos index: entries lost, stale / misdirected entries present
				let damaged = std::panic::catch_unwind(std::panic::AssertUnwindSafe(|| -> Result<(), ChainError> {
					let c = chain.as_ref().unwrap();
					let size = c.txhashset().read().output_mmr_size();
					let store = c.store();
					let mut batch = store.batch()?;
					for d in ids(&s["del"]) {
						batch.delete_output_pos_height(&w.commit_of[&d])?;
					}
					for st in s["stale"].as_array().cloned().unwrap_or_default() {
						let key = st["c"].as_u64().unwrap();
						// the position the key is pointed at: the (unspent) instance of another commitment, the last
						// position a spent one was seen at, or one beyond the MMR
						let pos = match st["at"].as_u64() {
							Some(at) if st["live"].as_bool() == Some(true) => c.get_unspent(w.commit_of[&at])?.map(|x| x.1.pos).unwrap_or(size + 3),
							Some(at) => known_pos.get(&at).cloned().unwrap_or(size + 3),
							None => size + 3,
						};
						// (an entry that happens to be the key's own correct one is no damage: the rebuild cannot and
						// need not re-derive the height of an entry it keeps)
						if c.get_unspent(w.commit_of[&key])?.map(|x| x.1.pos) == Some(pos) {
							continue;
						}
						batch.save_output_pos_height(&w.commit_of[&key], grin_chain::types::CommitPos { pos, height: 1 })?;
					}
					batch.commit()?;
					Ok(())
				}));
				chain = None;
				let ad = adapter.clone();
				match (damaged, std::panic::catch_unwind(std::panic::AssertUnwindSafe(|| init_chain_rec(&node_dir, ad)))) {
					(Ok(Ok(())), Ok(c)) => {
						chain = Some(c);
						"ok".to_string()
					}
					(Ok(Err(e)), _) => panic!("could not damage the index: {:?}", e),
					_ => "panic".to_string(),
				}
			}
			"Reopen" => {
				chain = None;
				let ad = adapter.clone();
				match std::panic::catch_unwind(std::panic::AssertUnwindSafe(|| init_chain_rec(&node_dir, ad))) {
					Ok(c) => {
						chain = Some(c);
						"ok".to_string()
					}
					Err(_) => "panic".to_string(),
				}
			}
			x => panic!("unknown step {}", x),
		};
		classes.push(res.clone());
		if k != "QueryTx" && res != s["res"].as_str().unwrap_or("?") {
			mism.push(json!({"step": i, "what": "result", "k": k, "b": b,
				"flag": w.tree.get(&b).map(|x| x.flag.clone()), "expected": s["res"], "observed": res}));
		}
		if chain.is_none() {
			break;
		}
		let last = i + 1 == steps.len();
		// RejectLeavesState / CompactIsStutter: whatever the call was and however it ended, if the model's head did not
		// move the roots, sizes, stored sums and spend records of the best chain are the ones sampled before the call
		// (compaction removes sums / spend records below the new tail: those still predicted are compared)
		let cur_best = ids(&s["proj"]["bestsums"]);
		if s["proj"]["head"].as_u64() == prev_head {
			let post = snapshot(&w, chain.as_ref().unwrap(), &prev_best);
			for (key, v) in &pre {
				let is_blk = key.starts_with("sums:") || key.starts_with("spent:");
				if is_blk {
					let id: u64 = key.split(':').nth(1).unwrap().parse().unwrap();
					if !cur_best.contains(&id) {
						continue;
					}
				}
				if post.get(key) != Some(v) {
					let what = format!("untouched:{}", key.split(':').next().unwrap());
					mism.push(json!({"step": i, "what": what, "k": k, "res": res, "key": key, "expected": v, "observed": post.get(key)}));
					break;
				}
			}
		}
		prev_head = s["proj"]["head"].as_u64();
		prev_best = cur_best;
		// full validation (MMR hashes, roots and sizes against the head header, kernel sums, range proofs, kernel
		// signatures) after every call that fails or does not move the head, on the sampled behaviours
		let unmoved = res == "reject" || res == "ok_fork" || res == "known" || res == "orphan";
		compare(&w, chain.as_ref().unwrap(), &s["proj"], i, &mut mism, &mut obs_only, last || deep_every || (vfail && unmoved), &mut known_pos);
		if !mism.is_empty() {
			break; // first divergence: later steps would only echo it
		}
	}
	// Twin: a node that only ever saw the winning path must have identical roots (C03 "state equals
	// the one reached by applying the winning chain alone"; C15 path independence of the bitmap root)
	let mut twin_checked = false;
	if twin && mism.is_empty() && chain.is_some() && !steps.is_empty() {
		if let Some(mh) = steps[steps.len() - 1]["proj"]["head"].as_u64() {
			let t = init_chain(&format!("{}/twin", dir));
			for b in path_to(&w.tree, mh).iter().skip(1) {
				let _ = t.process_block(w.blocks[b].clone(), Options::SKIP_POW);
			}
			let c = chain.as_ref().unwrap();
			let th = t.head().unwrap().last_block_h;
			if th != w.blocks[&mh].hash() {
				mism.push(json!({"step": steps.len(), "what": "twin_head", "expected": mh, "observed": w.id_of.get(&th)}));
			} else {
				let r1 = c.txhashset().read().roots().unwrap();
				let r2 = t.txhashset().read().roots().unwrap();
				if r1.output_roots.pmmr_root != r2.output_roots.pmmr_root {
					mism.push(json!({"step": steps.len(), "what": "twin_output_root", "expected": "equal", "observed": "differs"}));
				}
				if r1.output_roots.bitmap_root != r2.output_roots.bitmap_root {
					mism.push(json!({"step": steps.len(), "what": "twin_bitmap_root", "expected": "equal", "observed": "differs"}));
				}
				if r1.rproof_root != r2.rproof_root {
					mism.push(json!({"step": steps.len(), "what": "twin_rproof_root", "expected": "equal", "observed": "differs"}));
				}
				if r1.kernel_root != r2.kernel_root {
					mism.push(json!({"step": steps.len(), "what": "twin_kernel_root", "expected": "equal", "observed": "differs"}));
				}
				twin_checked = true;
			}
		}
	}
	drop(chain);
	let _ = std::fs::remove_dir_all(dir);
	json!({"steps": steps.len(), "classes": classes, "mismatches": mism, "twin": twin_checked, "observations": obs_only})
}

fn replay(args: &Args) -> i32 {
	let cases = Arc::new(read_ndjson(args.req("cases")));
	let out_path = args.req("out").to_string();
	let work = args.req("work").to_string();
	let threads = args.u64("threads", 8) as usize;
	let deep = args.get("deep").is_some();
	let twin = args.get("twin").is_some();
	// full validation after every failing call on every vfail-th behaviour of this process (0 = never)
	let vfail = args.u64("vfail", 0);
	let results: Arc<Mutex<Vec<Option<Value>>>> = Arc::new(Mutex::new(vec![None; cases.len()]));
	let next = Arc::new(Mutex::new(0usize));
	let mut hs = vec![];
	for t in 0..threads {
		let cases = cases.clone();
		let results = results.clone();
		let next = next.clone();
		let work = work.clone();
		hs.push(std::thread::spawn(move || {
			global::set_local_chain_type(ChainTypes::AutomatedTesting);
			global::set_local_nrd_enabled(true);
			loop {
				let i = {
					let mut n = next.lock().unwrap();
					let i = *n;
					*n += 1;
					i
				};
				if i >= cases.len() {
					break;
				}
				let dir = format!("{}/t{}", work, t);
				let r = std::panic::catch_unwind(std::panic::AssertUnwindSafe(|| {
					replay_one(&cases[i], &dir, deep, twin, vfail > 0 && i as u64 % vfail == 0)
				}));
				let v = match r {
					Ok(v) => v,
					Err(_) => json!({"steps": 0, "classes": [], "mismatches": [], "harness_panic": true}),
				};
				results.lock().unwrap()[i] = Some(v);
			}
		}));
	}
	for h in hs {
		h.join().unwrap();
	}
	let mut out = NdWriter::create(&out_path);
	for r in results.lock().unwrap().iter() {
		out.put(r.as_ref().unwrap());
	}
	out.finish();
	0
}

fn main() {
	quiet_panics();
	global::set_local_chain_type(ChainTypes::AutomatedTesting);
	global::set_local_nrd_enabled(true);
	let _ = consensus::REWARD;
	let _ = libtx::ProofBuilder::new(&keychain());
	let a: Vec<String> = std::env::args().skip(1).collect();
	let args = Args::parse(&a);
	let rc = match args.pos.get(0).map(|s| s.as_str()) {
		Some("replay") => replay(&args),
		_ => {
			eprintln!("chain replay --cases F --out F --work DIR [--threads N] [--deep]");
			2
		}
	};
	std::process::exit(rc);
}
