//! Handshake cases (Handshake.tla: AcceptOutcome / InitiateOutcome) against the real
//! `Handshake::accept` / `Handshake::initiate`, the other end being a raw peer on loopback.
use grin_core::core::hash::Hash;
use grin_core::pow::Difficulty;
use grin_core::ser::ProtocolVersion;
use grin_p2p::handshake::Handshake;
use grin_p2p::msg::{read_message, write_message, Hand, Msg, Shake, Type};
use grin_p2p::types::{Capabilities, P2PConfig, PeerAddr};
use grin_p2p::verif_export::Tracker;
use grin_p2p::Error;
use serde_json::{json, Value};
use std::io::Write;
use std::net::{TcpListener, TcpStream};
use std::panic::{catch_unwind, AssertUnwindSafe};
use std::sync::Arc;
use std::thread;
use std::time::Duration;
use vcommon::*;

pub fn genesis(same: bool) -> Hash {
	Hash::from_vec(&[if same { 0x11 } else { 0x22 }; 32])
}

pub fn msg_bytes<T: grin_core::ser::Writeable>(t: Type, m: T, v: u32) -> Vec<u8> {
	let msg = Msg::new(t, m, ProtocolVersion(v)).expect("serialise");
	let mut out = vec![];
	write_message(&mut out, &msg, Arc::new(Tracker::new())).expect("write");
	out
}

/// Append `extra` bytes to the body of a frame and announce them in its length field.
pub fn pad_frame(b: &mut Vec<u8>, extra: usize) {
	if extra > 0 {
		let len = (b.len() - 11 + extra) as u64;
		b[3..11].copy_from_slice(&len.to_be_bytes());
		b.extend(std::iter::repeat(0xee).take(extra));
	}
}

/// Bytes that follow a handshake header announcing more than its limit: must stay unread.
pub const TAIL: usize = 40;

/// Replace the frame by its 11 header bytes announcing `over` body bytes, followed by TAIL bytes.
pub fn announce(b: &mut Vec<u8>, over: u64) {
	b.truncate(11);
	b[3..11].copy_from_slice(&over.to_be_bytes());
	b.extend(std::iter::repeat(0xee).take(TAIL));
}

fn write_split(s: &mut TcpStream, b: &[u8], at: usize) -> std::io::Result<()> {
	let at = at.min(b.len());
	s.set_nodelay(true)?;
	s.write_all(&b[..at])?;
	thread::sleep(Duration::from_millis(2));
	s.write_all(&b[at..])
}

pub fn classify(r: &Result<grin_p2p::PeerInfo, Error>) -> Value {
	match r {
		Ok(pi) => json!({"res": "ok", "version": pi.version.value()}),
		Err(Error::GenesisMismatch { .. }) => json!({"res": "genesis", "version": 0}),
		Err(Error::PeerWithSelf) => json!({"res": "self", "version": 0}),
		Err(e) => json!({"res": format!("other:{:?}", e), "version": 0}),
	}
}

/// Let the handshake object send a real Hand (so that its nonce enters the ring) to a raw peer
/// and return that nonce.
fn learn_nonce(hs: &Handshake) -> Result<u64, String> {
	let l = TcpListener::bind("127.0.0.1:0").map_err(|e| e.to_string())?;
	let addr = l.local_addr().map_err(|e| e.to_string())?;
	let peer = thread::spawn(move || -> Result<u64, String> {
		let (mut s, _) = l.accept().map_err(|e| e.to_string())?;
		let _ = s.set_read_timeout(Some(Duration::from_secs(10)));
		let hand: Hand = read_message(&mut s, ProtocolVersion::local(), Type::Hand).map_err(|e| format!("{:?}", e))?;
		let shake = Shake {
			version: ProtocolVersion::local(),
			capabilities: Capabilities::UNKNOWN,
			genesis: hand.genesis,
			total_difficulty: Difficulty::min_dma(),
			user_agent: "raw".to_string(),
		};
		s.write_all(&msg_bytes(Type::Shake, shake, 1000)).map_err(|e| e.to_string())?;
		Ok(hand.nonce)
	});
	let mut conn = TcpStream::connect(addr).map_err(|e| e.to_string())?;
	let r = hs.initiate(
		Capabilities::UNKNOWN,
		Difficulty::min_dma(),
		PeerAddr("127.0.0.1:5000".parse().unwrap()),
		&mut conn,
	);
	let nonce = peer.join().map_err(|_| "peer panicked".to_string())??;
	r.map_err(|e| format!("priming initiate failed: {:?}", e))?;
	Ok(nonce)
}

fn accept_case(rv: u32, same: bool, in_ring: bool, cut: usize, extra: usize, over: Option<u64>) -> Result<Value, String> {
	let hs = Handshake::new(genesis(true), P2PConfig::default());
	let nonce = if in_ring { learn_nonce(&hs)? } else { 0x1234_5678_9abc_def0 };
	let l = TcpListener::bind("127.0.0.1:0").map_err(|e| e.to_string())?;
	let addr = l.local_addr().map_err(|e| e.to_string())?;
	let peer = thread::spawn(move || -> Result<Value, String> {
		let mut s = TcpStream::connect(addr).map_err(|e| e.to_string())?;
		let hand = Hand {
			version: ProtocolVersion(rv),
			capabilities: Capabilities::UNKNOWN,
			nonce,
			genesis: genesis(same),
			total_difficulty: Difficulty::min_dma(),
			sender_addr: PeerAddr("127.0.0.1:5001".parse().unwrap()),
			receiver_addr: PeerAddr(addr),
			user_agent: "raw".to_string(),
		};
		let mut b = msg_bytes(Type::Hand, hand, rv);
		pad_frame(&mut b, extra);
		if let Some(o) = over {
			announce(&mut b, o);
		}
		write_split(&mut s, &b, cut).map_err(|e| e.to_string())?;
		let _ = s.set_read_timeout(Some(Duration::from_secs(10)));
		match read_message::<Shake, _>(&mut s, ProtocolVersion(rv.min(1000)), Type::Shake) {
			Ok(sh) => Ok(json!({"shake": true, "version": sh.version.value(), "genesis_ok": sh.genesis == genesis(true)})),
			Err(_) => Ok(json!({"shake": false})),
		}
	});
	let (mut conn, _) = l.accept().map_err(|e| e.to_string())?;
	crate::alloc_track::reset();
	let r = catch_unwind(AssertUnwindSafe(|| {
		hs.accept(Capabilities::UNKNOWN, Difficulty::min_dma(), &mut conn)
	}));
	let alloc = crate::alloc_track::max_request();
	let unread = settle_unread(&conn, over);
	drop(conn);
	let wire = peer.join().map_err(|_| "peer panicked".to_string())??;
	let mut v = match r {
		Ok(r) => classify(&r),
		Err(_) => json!({"res": "panic", "version": 0}),
	};
	v["wire"] = wire;
	v["alloc"] = json!(alloc);
	v["unread"] = json!(unread);
	Ok(v)
}

/// What is left in the socket behind a refused header (the peer wrote TAIL bytes behind it in the
/// same or the following segment: give them a moment to arrive).
fn settle_unread(conn: &TcpStream, over: Option<u64>) -> i32 {
	if over.is_none() {
		return -1;
	}
	let t0 = std::time::Instant::now();
	let mut n = crate::run::unread(conn);
	while n < TAIL as i32 && t0.elapsed() < Duration::from_secs(3) {
		thread::sleep(Duration::from_millis(2));
		n = crate::run::unread(conn);
	}
	n
}

fn initiate_case(rv: u32, same: bool, cut: usize, extra: usize, over: Option<u64>) -> Result<Value, String> {
	let hs = Handshake::new(genesis(true), P2PConfig::default());
	let l = TcpListener::bind("127.0.0.1:0").map_err(|e| e.to_string())?;
	let addr = l.local_addr().map_err(|e| e.to_string())?;
	let peer = thread::spawn(move || -> Result<Value, String> {
		let (mut s, _) = l.accept().map_err(|e| e.to_string())?;
		let _ = s.set_read_timeout(Some(Duration::from_secs(10)));
		let hand: Hand = read_message(&mut s, ProtocolVersion::local(), Type::Hand).map_err(|e| format!("{:?}", e))?;
		let shake = Shake {
			version: ProtocolVersion(rv),
			capabilities: Capabilities::UNKNOWN,
			genesis: genesis(same),
			total_difficulty: Difficulty::min_dma(),
			user_agent: "raw".to_string(),
		};
		let mut b = msg_bytes(Type::Shake, shake, rv);
		pad_frame(&mut b, extra);
		if let Some(o) = over {
			announce(&mut b, o);
		}
		write_split(&mut s, &b, cut).map_err(|e| e.to_string())?;
		// keep the socket until the other side has decided (it looks at what is left unread)
		let _ = s.set_read_timeout(Some(Duration::from_secs(10)));
		let mut buf = [0u8; 64];
		let _ = std::io::Read::read(&mut s, &mut buf);
		Ok(json!({"hand_version": hand.version.value(), "genesis_ok": hand.genesis == genesis(true)}))
	});
	let mut conn = TcpStream::connect(addr).map_err(|e| e.to_string())?;
	crate::alloc_track::reset();
	let r = catch_unwind(AssertUnwindSafe(|| {
		hs.initiate(
			Capabilities::UNKNOWN,
			Difficulty::min_dma(),
			PeerAddr("127.0.0.1:5000".parse().unwrap()),
			&mut conn,
		)
	}));
	let alloc = crate::alloc_track::max_request();
	let unread = settle_unread(&conn, over);
	drop(conn);
	let wire = peer.join().map_err(|_| "peer panicked".to_string())??;
	let mut v = match r {
		Ok(r) => classify(&r),
		Err(_) => json!({"res": "panic", "version": 0}),
	};
	v["wire"] = wire;
	v["alloc"] = json!(alloc);
	v["unread"] = json!(unread);
	Ok(v)
}

/// Raw connected pair on loopback: (dialling end, listening end).
fn pair(l: &TcpListener) -> Result<(TcpStream, TcpStream), String> {
	let addr = l.local_addr().map_err(|e| e.to_string())?;
	let a = TcpStream::connect(addr).map_err(|e| e.to_string())?;
	let (b, _) = l.accept().map_err(|e| e.to_string())?;
	Ok((a, b))
}

fn closed_or(r: &Result<grin_p2p::PeerInfo, Error>) -> Value {
	match r {
		Ok(_) | Err(Error::GenesisMismatch { .. }) | Err(Error::PeerWithSelf) => classify(r),
		// the other end went away / the Hand could not be written
		Err(_) => json!({"res": "closed", "version": 0}),
	}
}

/// One scripted behaviour of MC_HandshakeRing on ONE real `Handshake` object: every connection of
/// the script is performed for real (the other end being a raw peer, or the object itself for a
/// self-dial) and its outcome compared with the one Handshake.tla computed.
fn ring_case(c: &Value, out: &mut NdWriter) -> Result<(usize, usize), String> {
	let hs = Arc::new(Handshake::new(genesis(true), P2PConfig::default()));
	let conns = c["conns"].as_array().ok_or("ring case without conns")?;
	let cap = c["cap"].as_u64().unwrap_or(100) as usize;
	let raw_l = TcpListener::bind("127.0.0.1:0").map_err(|e| e.to_string())?;
	let self_l = TcpListener::bind("127.0.0.1:0").map_err(|e| e.to_string())?;
	let self_addr = PeerAddr(self_l.local_addr().map_err(|e| e.to_string())?);
	let (mut outbound, mut reported) = (0usize, 0usize);
	let mut ring_before = 0usize;
	for ev in conns {
		let kind = ev["kind"].as_str().unwrap_or("");
		let k = ev["k"].as_u64().unwrap_or(0);
		// observed (resA, resI); Null = decided by the raw peer, not by the code under test
		let (obs_a, obs_i): (Value, Value) = match kind {
			"lost" => {
				let (mut a, b) = pair(&raw_l)?;
				// the Hand cannot be written: `initiate` fails after next_nonce()
				a.shutdown(std::net::Shutdown::Write).map_err(|e| e.to_string())?;
				let r = catch_unwind(AssertUnwindSafe(|| {
					hs.initiate(Capabilities::UNKNOWN, Difficulty::min_dma(), self_addr, &mut a)
				}));
				drop(b);
				outbound += 1;
				match r {
					Ok(r) => (Value::Null, closed_or(&r)),
					Err(_) => (Value::Null, json!({"res": "panic", "version": 0})),
				}
			}
			"raw" => {
				let (mut a, mut b) = pair(&raw_l)?;
				let peer = thread::spawn(move || -> Result<(), String> {
					let _ = b.set_read_timeout(Some(Duration::from_secs(10)));
					let hand: Hand = read_message(&mut b, ProtocolVersion::local(), Type::Hand).map_err(|e| format!("{:?}", e))?;
					let shake = Shake {
						version: ProtocolVersion::local(),
						capabilities: Capabilities::UNKNOWN,
						genesis: hand.genesis,
						total_difficulty: Difficulty::min_dma(),
						user_agent: "raw".to_string(),
					};
					b.write_all(&msg_bytes(Type::Shake, shake, 1000)).map_err(|e| e.to_string())
				});
				let r = catch_unwind(AssertUnwindSafe(|| {
					hs.initiate(Capabilities::UNKNOWN, Difficulty::min_dma(), self_addr, &mut a)
				}));
				peer.join().map_err(|_| "raw peer panicked".to_string())??;
				outbound += 1;
				match r {
					Ok(r) => (Value::Null, closed_or(&r)),
					Err(_) => (Value::Null, json!({"res": "panic", "version": 0})),
				}
			}
			"in" => {
				let (mut a, mut b) = pair(&raw_l)?;
				let nonce = 0x5eed_0000_0000_0000u64 + k;
				let rcv = PeerAddr(raw_l.local_addr().map_err(|e| e.to_string())?);
				let peer = thread::spawn(move || -> Result<bool, String> {
					let hand = Hand {
						version: ProtocolVersion::local(),
						capabilities: Capabilities::UNKNOWN,
						nonce,
						genesis: genesis(true),
						total_difficulty: Difficulty::min_dma(),
						sender_addr: PeerAddr("127.0.0.1:5001".parse().unwrap()),
						receiver_addr: rcv,
						user_agent: "raw".to_string(),
					};
					a.write_all(&msg_bytes(Type::Hand, hand, 1000)).map_err(|e| e.to_string())?;
					let _ = a.set_read_timeout(Some(Duration::from_secs(10)));
					Ok(read_message::<Shake, _>(&mut a, ProtocolVersion::local(), Type::Shake).is_ok())
				});
				let r = catch_unwind(AssertUnwindSafe(|| {
					hs.accept(Capabilities::UNKNOWN, Difficulty::min_dma(), &mut b)
				}));
				drop(b);
				let shaken = peer.join().map_err(|_| "raw peer panicked".to_string())??;
				match r {
					Ok(r) => {
						let mut v = classify(&r);
						if v["res"] == json!("ok") && !shaken {
							v["res"] = json!("ok_without_shake");
						}
						(v, Value::Null)
					}
					Err(_) => (json!({"res": "panic", "version": 0}), Value::Null),
				}
			}
			"self" => {
				// the node dials an address that is its own listener: `accept` runs on the same object
				let hs2 = hs.clone();
				let l2 = self_l.try_clone().map_err(|e| e.to_string())?;
				let acc = thread::spawn(move || -> Result<Value, String> {
					let (mut b, _) = l2.accept().map_err(|e| e.to_string())?;
					let r = catch_unwind(AssertUnwindSafe(|| {
						hs2.accept(Capabilities::UNKNOWN, Difficulty::min_dma(), &mut b)
					}));
					Ok(match r {
						Ok(r) => classify(&r),
						Err(_) => json!({"res": "panic", "version": 0}),
					})
				});
				let mut a = TcpStream::connect(self_addr.0).map_err(|e| e.to_string())?;
				let r = catch_unwind(AssertUnwindSafe(|| {
					hs.initiate(Capabilities::UNKNOWN, Difficulty::min_dma(), self_addr, &mut a)
				}));
				let oa = acc.join().map_err(|_| "accept thread panicked".to_string())??;
				outbound += 1;
				match r {
					Ok(r) => (oa, closed_or(&r)),
					Err(_) => (oa, json!({"res": "panic", "version": 0})),
				}
			}
			other => return Err(format!("unknown script entry {}", other)),
		};
		// compare with the model: result class and negotiated version of the side(s) under test
		let mut bad: Option<(&str, String)> = None;
		for (side, obs, exp) in [("accept", &obs_a, &ev["resA"]), ("initiate", &obs_i, &ev["resI"])] {
			if obs.is_null() || bad.is_some() {
				continue;
			}
			let (eres, ores) = (exp["res"].as_str().unwrap_or("?"), obs["res"].as_str().unwrap_or("?"));
			if eres != "ok" && ores == "ok" {
				bad = Some(("accepted", format!("{} returned Ok (version {}), the model demands {}", side, obs["version"], eres)));
			} else if eres == "ok" && ores != "ok" {
				bad = Some(("refused", format!("{} returned {}, the model demands ok v{}", side, ores, exp["version"])));
			} else if eres == "ok" && obs["version"] != exp["version"] {
				bad = Some(("version", format!("{} negotiated {} expected {}", side, obs["version"], exp["version"])));
			} else if eres != ores && !(eres == "closed" && side == "initiate") {
				bad = Some(("reason", format!("{} refused with {}, the model says {}", side, ores, eres)));
			}
		}
		if let Some((what, detail)) = bad {
			if reported < 3 {
				out.put(&json!({
					"case": c, "what": what, "kind": kind, "k": k,
					"when": if ring_before + 1 >= cap { "ring_full" } else { "ring_filling" },
					"outbound": outbound,
					"detail": format!("connection #{} ({}), outbound initiation #{} of this Handshake: {}", k, kind, outbound, detail),
					"observed": {"resA": obs_a, "resI": obs_i},
				}));
			}
			reported += 1;
		}
		ring_before = ev["ring_len"].as_u64().unwrap_or(0) as usize;
	}
	Ok((conns.len(), outbound))
}

pub fn run(args: &Args) -> i32 {
	let cases = read_ndjson(args.req("cases"));
	let mut out = NdWriter::create(args.req("out"));
	let local = ProtocolVersion::local().value() as u64;
	let (mut executed, mut skipped) = (0, 0);
	let (mut ring_conns, mut ring_outbound) = (0usize, 0usize);
	for (i, c) in cases.iter().enumerate() {
		if c["role"] == json!("ring") {
			match ring_case(c, &mut out) {
				Ok((n, o)) => {
					ring_conns += n;
					ring_outbound = ring_outbound.max(o);
					executed += 1;
				}
				Err(e) => out.put(&json!({"case": {"role": "ring"}, "what": "io", "kind": "ring", "when": "", "detail": e})),
			}
			continue;
		}
		// the local version of the code under test is the constant PROTOCOL_VERSION
		if c["lv"].as_u64().unwrap() != local {
			skipped += 1;
			continue;
		}
		let rv = c["rv"].as_u64().unwrap() as u32;
		let same = c["same_genesis"].as_bool().unwrap();
		let in_ring = c["nonce_in_ring"].as_bool().unwrap();
		let role = c["role"].as_str().unwrap();
		let extra = c["extra"].as_u64().unwrap_or(0) as usize;
		let over: Option<u64> = match c["over"].as_str() {
			Some(w) if !w.is_empty() => Some(w.parse().expect("over")),
			_ => None,
		};
		let cut = if over.is_some() { 1 + (i * 7) % 10 } else { 1 + (i * 7) % 60 };
		let obs = match role {
			"accept" => accept_case(rv, same, in_ring, cut, extra, over),
			_ => initiate_case(rv, same, cut, extra, over),
		};
		executed += 1;
		let obs = match obs {
			Ok(o) => o,
			Err(e) => {
				out.put(&json!({"case": c, "what": "io", "detail": e}));
				continue;
			}
		};
		let exp = &c["expect"];
		let eres = exp["res"].as_str().unwrap();
		let ores = obs["res"].as_str().unwrap();
		let mut bad: Option<(&str, String)> = None;
		if eres == "ok" {
			if ores != "ok" {
				bad = Some(("refused", format!("expected version {} got {}", exp["version"], ores)));
			} else if obs["version"] != exp["version"] {
				bad = Some(("version", format!("negotiated {} expected {}", obs["version"], exp["version"])));
			} else if role == "accept"
				&& !(obs["wire"]["shake"] == json!(true)
					&& obs["wire"]["version"] == json!(local)
					&& obs["wire"]["genesis_ok"] == json!(true))
			{
				bad = Some(("shake", format!("reply on the wire {}", obs["wire"])));
			} else if role == "initiate"
				&& !(obs["wire"]["hand_version"] == json!(local) && obs["wire"]["genesis_ok"] == json!(true))
			{
				bad = Some(("hand", format!("hand on the wire {}", obs["wire"])));
			}
		} else if eres == "toolarge" {
			// a header announcing more than the limit of Hand / Shake: refused on the 11 header bytes,
			// nothing of what follows read, nothing sized by the announced length
			if ores == "ok" || ores == "panic" {
				bad = Some(("accepted", format!("header announcing {} body bytes: {} returned {}", c["over"], role, ores)));
			} else if obs["alloc"].as_u64().unwrap_or(0) > (1 << 20) {
				bad = Some(("alloc", format!("{} bytes requested in one allocation while refusing a header announcing {}", obs["alloc"], c["over"])));
			} else if obs["unread"].as_i64().unwrap_or(-1) != TAIL as i64 {
				bad = Some(("body_read", format!("{} of the {} bytes behind the refused header are left in the socket", obs["unread"], TAIL)));
			} else if role == "accept" && obs["wire"]["shake"] == json!(true) {
				bad = Some(("shake_on_refusal", format!("{}", obs["wire"])));
			}
		} else if eres == "badlen" {
			// a Hand / Shake body longer than the message: any refusal will do
			if ores == "ok" {
				bad = Some((
					"trailing_bytes_accepted",
					format!("{} byte(s) behind the {} message in its frame, handshake completed (v{})", extra, if role == "accept" { "Hand" } else { "Shake" }, obs["version"]),
				));
			}
		} else {
			// both reasons present: either refusal satisfies the property
			let either = !same && in_ring;
			let refused_ok = ores == eres || (either && (ores == "genesis" || ores == "self"));
			if !refused_ok {
				bad = Some(("accepted", format!("expected {} got {} v{}", eres, ores, obs["version"])));
			} else if role == "accept" && obs["wire"]["shake"] == json!(true) {
				bad = Some(("shake_on_refusal", format!("{}", obs["wire"])));
			}
		}
		if let Some((what, detail)) = bad {
			out.put(&json!({"case": c, "what": what, "detail": detail, "observed": obs}));
		}
	}
	let n = out.n;
	out.finish();
	println!(
		"{}",
		json!({"executed": executed, "not_realisable": skipped, "mismatches": n,
			"ring_connections": ring_conns, "ring_max_outbound_on_one_object": ring_outbound})
	);
	0
}
