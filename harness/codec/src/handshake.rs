//! Handshake cases (Handshake.tla: AcceptOutcome / InitiateOutcome) against the real
//! `Handshake::accept` / `Handshake::initiate`, the other end being a raw peer on loopback.
use grin_core::core::hash::Hash;
use grin_core::pow::Difficulty;
use grin_core::ser::ProtocolVersion;
use grin_p2p::handshake::Handshake;
use grin_p2p::msg::{read_message, write_message, Hand, Msg, Shake, Type};
use grin_p2p::types::{Capabilities, P2PConfig, PeerAddr};
use grin_p2p::verif_export::Tracker;
use grin_p2p::Error;
use serde_json::{json, Value};
use std::io::Write;
use std::net::{TcpListener, TcpStream};
use std::panic::{catch_unwind, AssertUnwindSafe};
use std::sync::Arc;
use std::thread;
use std::time::Duration;
use vcommon::*;

fn genesis(same: bool) -> Hash {
	Hash::from_vec(&[if same { 0x11 } else { 0x22 }; 32])
}

fn msg_bytes<T: grin_core::ser::Writeable>(t: Type, m: T, v: u32) -> Vec<u8> {
	let msg = Msg::new(t, m, ProtocolVersion(v)).expect("serialise");
	let mut out = vec![];
	write_message(&mut out, &msg, Arc::new(Tracker::new())).expect("write");
	out
}

fn write_split(s: &mut TcpStream, b: &[u8], at: usize) -> std::io::Result<()> {
	let at = at.min(b.len());
	s.set_nodelay(true)?;
	s.write_all(&b[..at])?;
	thread::sleep(Duration::from_millis(2));
	s.write_all(&b[at..])
}

fn classify(r: &Result<grin_p2p::PeerInfo, Error>) -> Value {
	match r {
		Ok(pi) => json!({"res": "ok", "version": pi.version.value()}),
		Err(Error::GenesisMismatch { .. }) => json!({"res": "genesis", "version": 0}),
		Err(Error::PeerWithSelf) => json!({"res": "self", "version": 0}),
		Err(e) => json!({"res": format!("other:{:?}", e), "version": 0}),
	}
}

/// Let the handshake object send a real Hand (so that its nonce enters the ring) to a raw peer
/// and return that nonce.
fn learn_nonce(hs: &Handshake) -> Result<u64, String> {
	let l = TcpListener::bind("127.0.0.1:0").map_err(|e| e.to_string())?;
	let addr = l.local_addr().map_err(|e| e.to_string())?;
	let peer = thread::spawn(move || -> Result<u64, String> {
		let (mut s, _) = l.accept().map_err(|e| e.to_string())?;
		let _ = s.set_read_timeout(Some(Duration::from_secs(10)));
		let hand: Hand = read_message(&mut s, ProtocolVersion::local(), Type::Hand).map_err(|e| format!("{:?}", e))?;
		let shake = Shake {
			version: ProtocolVersion::local(),
			capabilities: Capabilities::UNKNOWN,
			genesis: hand.genesis,
			total_difficulty: Difficulty::min_dma(),
			user_agent: "raw".to_string(),
		};
		s.write_all(&msg_bytes(Type::Shake, shake, 1000)).map_err(|e| e.to_string())?;
		Ok(hand.nonce)
	});
	let mut conn = TcpStream::connect(addr).map_err(|e| e.to_string())?;
	let r = hs.initiate(
		Capabilities::UNKNOWN,
		Difficulty::min_dma(),
		PeerAddr("127.0.0.1:5000".parse().unwrap()),
		&mut conn,
	);
	let nonce = peer.join().map_err(|_| "peer panicked".to_string())??;
	r.map_err(|e| format!("priming initiate failed: {:?}", e))?;
	Ok(nonce)
}

fn accept_case(rv: u32, same: bool, in_ring: bool, cut: usize) -> Result<Value, String> {
	let hs = Handshake::new(genesis(true), P2PConfig::default());
	let nonce = if in_ring { learn_nonce(&hs)? } else { 0x1234_5678_9abc_def0 };
	let l = TcpListener::bind("127.0.0.1:0").map_err(|e| e.to_string())?;
	let addr = l.local_addr().map_err(|e| e.to_string())?;
	let peer = thread::spawn(move || -> Result<Value, String> {
		let mut s = TcpStream::connect(addr).map_err(|e| e.to_string())?;
		let hand = Hand {
			version: ProtocolVersion(rv),
			capabilities: Capabilities::UNKNOWN,
			nonce,
			genesis: genesis(same),
			total_difficulty: Difficulty::min_dma(),
			sender_addr: PeerAddr("127.0.0.1:5001".parse().unwrap()),
			receiver_addr: PeerAddr(addr),
			user_agent: "raw".to_string(),
		};
		let b = msg_bytes(Type::Hand, hand, rv);
		write_split(&mut s, &b, cut).map_err(|e| e.to_string())?;
		let _ = s.set_read_timeout(Some(Duration::from_secs(10)));
		match read_message::<Shake, _>(&mut s, ProtocolVersion(rv.min(1000)), Type::Shake) {
			Ok(sh) => Ok(json!({"shake": true, "version": sh.version.value(), "genesis_ok": sh.genesis == genesis(true)})),
			Err(_) => Ok(json!({"shake": false})),
		}
	});
	let (mut conn, _) = l.accept().map_err(|e| e.to_string())?;
	let r = catch_unwind(AssertUnwindSafe(|| {
		hs.accept(Capabilities::UNKNOWN, Difficulty::min_dma(), &mut conn)
	}));
	drop(conn);
	let wire = peer.join().map_err(|_| "peer panicked".to_string())??;
	let mut v = match r {
		Ok(r) => classify(&r),
		Err(_) => json!({"res": "panic", "version": 0}),
	};
	v["wire"] = wire;
	Ok(v)
}

fn initiate_case(rv: u32, same: bool, cut: usize) -> Result<Value, String> {
	let hs = Handshake::new(genesis(true), P2PConfig::default());
	let l = TcpListener::bind("127.0.0.1:0").map_err(|e| e.to_string())?;
	let addr = l.local_addr().map_err(|e| e.to_string())?;
	let peer = thread::spawn(move || -> Result<Value, String> {
		let (mut s, _) = l.accept().map_err(|e| e.to_string())?;
		let _ = s.set_read_timeout(Some(Duration::from_secs(10)));
		let hand: Hand = read_message(&mut s, ProtocolVersion::local(), Type::Hand).map_err(|e| format!("{:?}", e))?;
		let shake = Shake {
			version: ProtocolVersion(rv),
			capabilities: Capabilities::UNKNOWN,
			genesis: genesis(same),
			total_difficulty: Difficulty::min_dma(),
			user_agent: "raw".to_string(),
		};
		let b = msg_bytes(Type::Shake, shake, rv);
		write_split(&mut s, &b, cut).map_err(|e| e.to_string())?;
		Ok(json!({"hand_version": hand.version.value(), "genesis_ok": hand.genesis == genesis(true)}))
	});
	let mut conn = TcpStream::connect(addr).map_err(|e| e.to_string())?;
	let r = catch_unwind(AssertUnwindSafe(|| {
		hs.initiate(
			Capabilities::UNKNOWN,
			Difficulty::min_dma(),
			PeerAddr("127.0.0.1:5000".parse().unwrap()),
			&mut conn,
		)
	}));
	let wire = peer.join().map_err(|_| "peer panicked".to_string())??;
	let mut v = match r {
		Ok(r) => classify(&r),
		Err(_) => json!({"res": "panic", "version": 0}),
	};
	v["wire"] = wire;
	Ok(v)
}

pub fn run(args: &Args) -> i32 {
	let cases = read_ndjson(args.req("cases"));
	let mut out = NdWriter::create(args.req("out"));
	let local = ProtocolVersion::local().value() as u64;
	let (mut executed, mut skipped) = (0, 0);
	for (i, c) in cases.iter().enumerate() {
		// the local version of the code under test is the constant PROTOCOL_VERSION
		if c["lv"].as_u64().unwrap() != local {
			skipped += 1;
			continue;
		}
		let rv = c["rv"].as_u64().unwrap() as u32;
		let same = c["same_genesis"].as_bool().unwrap();
		let in_ring = c["nonce_in_ring"].as_bool().unwrap();
		let role = c["role"].as_str().unwrap();
		let cut = 1 + (i * 7) % 60;
		let obs = match role {
			"accept" => accept_case(rv, same, in_ring, cut),
			_ => initiate_case(rv, same, cut),
		};
		executed += 1;
		let obs = match obs {
			Ok(o) => o,
			Err(e) => {
				out.put(&json!({"case": c, "what": "io", "detail": e}));
				continue;
			}
		};
		let exp = &c["expect"];
		let eres = exp["res"].as_str().unwrap();
		let ores = obs["res"].as_str().unwrap();
		let mut bad: Option<(&str, String)> = None;
		if eres == "ok" {
			if ores != "ok" {
				bad = Some(("refused", format!("expected version {} got {}", exp["version"], ores)));
			} else if obs["version"] != exp["version"] {
				bad = Some(("version", format!("negotiated {} expected {}", obs["version"], exp["version"])));
			} else if role == "accept"
				&& !(obs["wire"]["shake"] == json!(true)
					&& obs["wire"]["version"] == json!(local)
					&& obs["wire"]["genesis_ok"] == json!(true))
			{
				bad = Some(("shake", format!("reply on the wire {}", obs["wire"])));
			} else if role == "initiate"
				&& !(obs["wire"]["hand_version"] == json!(local) && obs["wire"]["genesis_ok"] == json!(true))
			{
				bad = Some(("hand", format!("hand on the wire {}", obs["wire"])));
			}
		} else {
			// both reasons present: either refusal satisfies the property
			let either = !same && in_ring;
			let refused_ok = ores == eres || (either && (ores == "genesis" || ores == "self"));
			if !refused_ok {
				bad = Some(("accepted", format!("expected {} got {} v{}", eres, ores, obs["version"])));
			} else if role == "accept" && obs["wire"]["shake"] == json!(true) {
				bad = Some(("shake_on_refusal", format!("{}", obs["wire"])));
			}
		}
		if let Some((what, detail)) = bad {
			out.put(&json!({"case": c, "what": what, "detail": detail, "observed": obs}));
		}
	}
	let n = out.n;
	out.finish();
	println!("{}", json!({"executed": executed, "not_realisable": skipped, "mismatches": n}));
	0
}
