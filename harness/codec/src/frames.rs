//! Abstract frames of Codec.tla rendered to real bytes, and real messages projected back to the
//! abstraction (type number, item count, content digest).
use grin_core::core::hash::{Hash, Hashed};
use grin_core::core::{BlockHeader, SegmentIdentifier};
use grin_core::global;
use grin_core::pow::{self, Difficulty};
use grin_core::ser::{self, ProtocolVersion};
use grin_p2p::msg::{
	BanReason, GetPeerAddrs, Headers, Locator, Message, Msg, PeerAddrs, Ping, Pong, SegmentRequest,
	TxHashSetArchive, TxHashSetRequest, Type,
};
use grin_p2p::types::{Capabilities, PeerAddr, ReasonForBan};
use grin_p2p::verif_export::Tracker;
use serde_json::{json, Value};
use std::fs::File;
use std::io::Write;
use std::sync::Arc;

pub const HDR: usize = 11;
pub const OTHER_MAGIC: [u8; 2] = [73, 43];
pub const TESTNET_MAGIC: [u8; 2] = [83, 59];
pub const MAINNET_MAGIC: [u8; 2] = [97, 61];

/// The network of this process as Codec.tla names it, and its two magic bytes (msg.rs).
pub fn net_name() -> &'static str {
	match global::get_chain_type() {
		global::ChainTypes::Mainnet => "main",
		global::ChainTypes::Testnet => "test",
		_ => "other",
	}
}
pub fn magic_of(net: &str) -> [u8; 2] {
	match net {
		"main" => MAINNET_MAGIC,
		"test" => TESTNET_MAGIC,
		_ => OTHER_MAGIC,
	}
}
/// The two magic bytes a frame carries (`mv` of Codec.tla).
pub fn magic_bytes(f: &Frame, fi: usize) -> [u8; 2] {
	let m = magic_of(net_name());
	match (f.magic, f.mv.as_str()) {
		(true, _) => m,
		(_, "main") | (_, "test") | (_, "other") => magic_of(&f.mv),
		(_, "b1") => [m[0] ^ 0x20, m[1]],
		(_, "b12") => [m[0] ^ 0x04, m[1] ^ 0x10],
		(_, "b2") => [m[0], m[1] ^ 0x40],
		// frames drawn by the harness itself (direction B): alternate
		_ => {
			if fi % 2 == 0 {
				[m[0], m[1] ^ 0x40]
			} else if m == MAINNET_MAGIC {
				TESTNET_MAGIC
			} else {
				MAINNET_MAGIC
			}
		}
	}
}

#[derive(Clone, Debug)]
pub struct Frame {
	pub k: String,
	pub t: u8,
	pub magic: bool,
	pub len: u64,
	pub body: usize,
	pub need: i64,
	pub count: u64,
	pub items: usize,
	pub extra: usize,
	pub att: usize,
	/// sizes of the items, repeated cyclically (headers: header sizes; counted: the item size)
	pub mix: Vec<usize>,
	/// (built) protocol version the body is serialised with, composition of the object
	pub ver: u32,
	pub obj: Value,
	/// which magic bytes the frame carries: ok | main | test | other | b1 | b2 | b12
	pub mv: String,
}

impl Default for Frame {
	fn default() -> Frame {
		Frame {
			k: String::new(),
			t: 0,
			magic: true,
			len: 0,
			body: 0,
			need: 0,
			count: 0,
			items: 0,
			extra: 0,
			att: 0,
			mix: vec![],
			ver: 0,
			obj: Value::Null,
			mv: String::new(),
		}
	}
}

impl Frame {
	pub fn from_json(v: &Value) -> Frame {
		Frame {
			k: v["k"].as_str().unwrap().to_string(),
			t: v["t"].as_u64().unwrap() as u8,
			magic: v["magic"].as_bool().unwrap(),
			// an announced length beyond TLC's integers travels as a decimal string
			len: match v["wlen"].as_str() {
				Some(w) if !w.is_empty() => w.parse::<u64>().expect("wlen"),
				_ => v["len"].as_u64().unwrap(),
			},
			mix: v["mix"]
				.as_array()
				.map(|a| a.iter().map(|x| x.as_u64().unwrap() as usize).collect())
				.unwrap_or_default(),
			ver: v["ver"].as_u64().unwrap_or(0) as u32,
			obj: v["obj"].clone(),
			mv: v["mv"].as_str().unwrap_or("").to_string(),
			body: v["body"].as_u64().unwrap() as usize,
			need: v["need"].as_i64().unwrap(),
			count: v["count"].as_u64().unwrap(),
			items: v["items"].as_u64().unwrap() as usize,
			extra: v["extra"].as_u64().unwrap() as usize,
			att: v["att"].as_u64().unwrap() as usize,
		}
	}
	pub fn label(&self) -> String {
		format!(
			"{}:t{}:len{}:body{}:count{}:items{}:extra{}:att{}{}{}{}",
			self.k,
			self.t,
			self.len,
			self.body,
			self.count,
			self.items,
			self.extra,
			self.att,
			if self.magic { String::new() } else { format!(":badmagic({})", self.mv) },
			if self.mix.len() > 1 { format!(":mix{:?}", self.mix) } else { String::new() },
			if self.k == "built" { format!(":{}@v{}", self.obj["kind"].as_str().unwrap_or("?"), self.ver) } else { String::new() },
		)
	}
	/// Codec.tla ItemSize / ItemEnd: size of the j-th item (0-based here) and the offset behind the first j items
	pub fn item_size(&self, j: usize) -> usize {
		if self.mix.is_empty() {
			257
		} else {
			self.mix[j % self.mix.len()]
		}
	}
	pub fn item_end(&self, j: usize) -> usize {
		(0..j).map(|i| self.item_size(i)).sum()
	}
}

/// What was put on the wire for one frame.
pub struct Sent {
	pub bytes: Vec<u8>,
	/// digest of the message content (types other than Headers / attachments)
	pub digest: String,
	/// hashes of the headers carried, in order
	pub hashes: Vec<String>,
	pub att: Vec<u8>,
}

pub fn hex(b: &[u8]) -> String {
	let mut s = String::with_capacity(b.len() * 2);
	for x in b {
		s.push_str(&format!("{:02x}", x));
	}
	s
}

pub fn hx(h: &Hash) -> String {
	hex(h.as_bytes())
}

/// Valid (PoW-verified) block headers for the AutomatedTesting parameters, all distinct: `n` of the
/// minimum size (10 edge bits, 257 bytes) and a few at 11 and 12 edge bits (258 and 259 bytes; a
/// proof of work takes edge_bits x proof size bits).  Empty on the networks whose proof of work
/// cannot be produced here.
pub struct Pool {
	pub headers: Vec<BlockHeader>,
	pub raw: Vec<Vec<u8>>,
	pub hashes: Vec<String>,
	/// indices into the three vectors by serialised size
	pub by_size: std::collections::BTreeMap<usize, Vec<usize>>,
}

impl Pool {
	pub fn mine(n: usize) -> Pool {
		let mut p = Pool {
			headers: vec![],
			raw: vec![],
			hashes: vec![],
			by_size: Default::default(),
		};
		if net_name() != "other" {
			return p;
		}
		let min = global::min_edge_bits();
		let larger = if n >= 16 { 8 } else { 3 };
		for (bits, count) in [(min, n), (min + 1, larger), (min + 2, larger)] {
			for i in 0..count as u64 {
				let mut h = BlockHeader::default();
				h.height = i % 3; // header version 1 on AutomatedTesting
				h.prev_hash = Hash::from_vec(&[(i + 1) as u8; 32]);
				h.pow.nonce = i * 1000 + (bits as u64) * 1_000_000;
				h.pow.total_difficulty = Difficulty::from_num(10 + i);
				pow::pow_size(&mut h, Difficulty::min_dma(), global::proofsize(), bits).expect("mine header");
				// (the solver labels every proof with the minimum edge bits)
				h.pow.proof.edge_bits = bits;
				assert!(pow::verify_size(&h).is_ok());
				let raw = ser::ser_vec(&h, ProtocolVersion(1)).expect("ser header");
				p.by_size.entry(raw.len()).or_default().push(p.raw.len());
				p.raw.push(raw);
				p.hashes.push(hx(&h.hash()));
				p.headers.push(h);
			}
		}
		p
	}

	/// index of the header used for item j of frame fi when the model asks for `size` bytes
	pub fn pick(&self, size: usize, fi: usize, j: usize) -> usize {
		match self.by_size.get(&size) {
			Some(v) if !v.is_empty() => v[(fi * 5 + j) % v.len()],
			_ => panic!("no header of {} bytes in the pool", size),
		}
	}
}

fn hash_of(fi: usize, j: usize) -> Hash {
	let mut b = [0u8; 32];
	for (x, v) in b.iter_mut().enumerate() {
		*v = (fi * 31 + j * 7 + x * 3 + 1) as u8;
	}
	Hash::from_vec(&b)
}

fn addr_of(fi: usize, j: usize) -> PeerAddr {
	let s = format!("10.{}.{}.{}:{}", fi % 200, (j / 250) % 250, j % 250 + 1, 3000 + j);
	PeerAddr(s.parse().unwrap())
}

fn addr6_of(fi: usize, j: usize) -> PeerAddr {
	let s = format!("[2001:db8:{:x}::{:x}:{:x}]:{}", fi % 200 + 1, j / 250 + 1, j % 250 + 1, 3000 + j);
	PeerAddr(s.parse().unwrap())
}

/// the entries of a PeerAddrs frame are IPv6 when the model gives them 19 bytes
fn v6(f: &Frame) -> bool {
	f.mix.first() == Some(&19)
}

fn be16(v: u16) -> [u8; 2] {
	v.to_be_bytes()
}

pub fn att_bytes(fi: usize, n: usize) -> Vec<u8> {
	let mut x: u32 = 0x9e3779b9u32.wrapping_mul(fi as u32 + 1) | 1;
	(0..n)
		.map(|_| {
			x = x.wrapping_mul(1664525).wrapping_add(1013904223);
			(x >> 24) as u8
		})
		.collect()
}

/// Honest content of a body of type t (hand-written big-endian layout), and its digest.
/// `count` is the value of the count field, `items` the number of items actually carried.
fn content(f: &Frame, fi: usize, pool: &Pool) -> (Vec<u8>, String, Vec<String>) {
	let mut b: Vec<u8> = vec![];
	let mut hashes = vec![];
	let digest;
	match f.t {
		3 | 4 => {
			let (d, h) = (7 + fi as u64, 1000 + fi as u64);
			b.extend_from_slice(&d.to_be_bytes());
			b.extend_from_slice(&h.to_be_bytes());
			digest = format!("{}:{}", d, h);
		}
		5 => {
			let c = Capabilities::HEADER_HIST | Capabilities::PEER_LIST;
			b.extend_from_slice(&c.bits().to_be_bytes());
			digest = format!("{}", c.bits());
		}
		6 => {
			let items = if f.k == "raw" { f.count as usize } else { f.items };
			b.extend_from_slice(&(f.count as u32).to_be_bytes());
			let mut d = vec![];
			for j in 0..items {
				let a = if v6(f) { addr6_of(fi, j) } else { addr_of(fi, j) };
				match a.0 {
					std::net::SocketAddr::V4(v4) => {
						b.push(0);
						b.extend_from_slice(&v4.ip().octets());
						b.extend_from_slice(&be16(v4.port()));
					}
					std::net::SocketAddr::V6(a6) => {
						b.push(1);
						for seg in a6.ip().segments().iter() {
							b.extend_from_slice(&be16(*seg));
						}
						b.extend_from_slice(&be16(a6.port()));
					}
				}
				if (j as u64) < f.count {
					d.push(format!("{}", a.0));
				}
			}
			digest = d.join(",");
		}
		7 => {
			let items = if f.k == "raw" { f.count as usize } else { f.items };
			b.push(f.count as u8);
			let mut d = vec![];
			for j in 0..items {
				let h = hash_of(fi, j);
				b.extend_from_slice(h.as_bytes());
				if (j as u64) < f.count {
					d.push(hx(&h));
				}
			}
			digest = d.join(",");
		}
		8 => {
			let i = pool.pick(257, fi, 0);
			b.extend_from_slice(&pool.raw[i]);
			digest = pool.hashes[i].clone();
		}
		9 => {
			let items = if f.k == "raw" { f.count as usize } else { f.items };
			b.extend_from_slice(&be16(f.count as u16));
			for j in 0..items {
				let i = pool.pick(f.item_size(j), fi, j);
				b.extend_from_slice(&pool.raw[i]);
				hashes.push(pool.hashes[i].clone());
			}
			for _ in 0..f.extra {
				b.push(0xff);
			}
			digest = String::new();
		}
		10 | 12 | 19 | 20 => {
			let h = hash_of(fi, 0);
			b.extend_from_slice(h.as_bytes());
			digest = hx(&h);
		}
		16 => {
			let h = hash_of(fi, 1);
			b.extend_from_slice(h.as_bytes());
			b.extend_from_slice(&(77 + fi as u64).to_be_bytes());
			digest = format!("{}:{}", hx(&h), 77 + fi as u64);
		}
		17 => {
			let h = hash_of(fi, 2);
			b.extend_from_slice(h.as_bytes());
			b.extend_from_slice(&(88 + fi as u64).to_be_bytes());
			b.extend_from_slice(&(f.att as u64).to_be_bytes());
			digest = format!("{}:{}:{}", hx(&h), 88 + fi as u64, f.att);
		}
		18 => {
			b.extend_from_slice(&(ReasonForBan::BadBlockHeader as i32).to_be_bytes());
			digest = format!("{}", ReasonForBan::BadBlockHeader as i32);
		}
		21 | 23 | 25 | 27 => {
			let h = hash_of(fi, 3);
			b.extend_from_slice(h.as_bytes());
			b.push(9);
			b.extend_from_slice(&(5 + fi as u64).to_be_bytes());
			digest = format!("{}:{}:{}", hx(&h), 9, 5 + fi as u64);
		}
		_ => {
			digest = String::new();
		}
	}
	(b, digest, hashes)
}

/// Render a frame: 11-byte header (possibly malformed) + body bytes present in the stream + attachment.
pub fn render(f: &Frame, fi: usize, pool: &Pool) -> Sent {
	if f.k == "built" {
		// serialised by the node's own writer at the version of the connection; a failure shows as a
		// layout that differs from the model's
		let (bytes, digest) = match crate::objects::built_msg(f.t, &f.obj, f.ver) {
			Ok((m, d)) => {
				let mut out: Vec<u8> = vec![];
				match grin_p2p::msg::write_message(&mut out, &m, Arc::new(Tracker::new())) {
					Ok(()) => (out, d),
					Err(e) => (vec![], format!("write_message: {:?}", e)),
				}
			}
			Err(e) => (vec![], e),
		};
		return Sent {
			bytes,
			digest,
			hashes: vec![],
			att: vec![],
		};
	}
	let (mut c, digest, hashes) = content(f, fi, pool);
	// body present in the stream: honest prefix, cut or padded to `body` bytes
	if c.len() > f.body {
		c.truncate(f.body);
	}
	while c.len() < f.body {
		c.push(0xff);
	}
	let mut bytes = Vec::with_capacity(HDR + c.len() + f.att);
	bytes.extend_from_slice(&magic_bytes(f, fi));
	bytes.push(f.t);
	bytes.extend_from_slice(&f.len.to_be_bytes());
	bytes.extend_from_slice(&c);
	let att = att_bytes(fi, f.att);
	bytes.extend_from_slice(&att);
	Sent {
		bytes,
		digest,
		hashes,
		att,
	}
}

fn honest(f: &Frame) -> bool {
	match f.k.as_str() {
		"fixed" | "archive" => true,
		"counted" => f.count as usize == f.items && f.need >= 0,
		"headers" => f.count as usize == f.items && f.extra == 0,
		_ => false,
	}
}

/// The same frame produced by the repository's own writer (`Msg::new` + `write_message`):
/// must be byte-identical to `render` for honest frames.
pub fn real_writer_bytes(
	f: &Frame,
	fi: usize,
	pool: &Pool,
	version: u32,
	tmp: &str,
) -> Option<Result<Vec<u8>, String>> {
	if !honest(f) {
		return None;
	}
	let v = ProtocolVersion(version);
	let e = |x: grin_p2p::Error| format!("{:?}", x);
	let msg: Result<Msg, String> = match f.t {
		3 => Msg::new(
			Type::Ping,
			Ping {
				total_difficulty: Difficulty::from_num(7 + fi as u64),
				height: 1000 + fi as u64,
			},
			v,
		)
		.map_err(e),
		4 => Msg::new(
			Type::Pong,
			Pong {
				total_difficulty: Difficulty::from_num(7 + fi as u64),
				height: 1000 + fi as u64,
			},
			v,
		)
		.map_err(e),
		5 => Msg::new(
			Type::GetPeerAddrs,
			GetPeerAddrs {
				capabilities: Capabilities::HEADER_HIST | Capabilities::PEER_LIST,
			},
			v,
		)
		.map_err(e),
		6 => Msg::new(
			Type::PeerAddrs,
			PeerAddrs {
				peers: (0..f.items).map(|j| if v6(f) { addr6_of(fi, j) } else { addr_of(fi, j) }).collect(),
			},
			v,
		)
		.map_err(e),
		7 => Msg::new(
			Type::GetHeaders,
			Locator {
				hashes: (0..f.items).map(|j| hash_of(fi, j)).collect(),
			},
			v,
		)
		.map_err(e),
		8 => Msg::new(Type::Header, pool.headers[pool.pick(257, fi, 0)].clone(), v).map_err(e),
		9 => Msg::new(
			Type::Headers,
			Headers {
				headers: (0..f.items)
					.map(|j| pool.headers[pool.pick(f.item_size(j), fi, j)].clone())
					.collect(),
			},
			v,
		)
		.map_err(e),
		10 => Msg::new(Type::GetBlock, hash_of(fi, 0), v).map_err(e),
		12 => Msg::new(Type::GetCompactBlock, hash_of(fi, 0), v).map_err(e),
		19 => Msg::new(Type::GetTransaction, hash_of(fi, 0), v).map_err(e),
		20 => Msg::new(Type::TransactionKernel, hash_of(fi, 0), v).map_err(e),
		16 => Msg::new(
			Type::TxHashSetRequest,
			TxHashSetRequest {
				hash: hash_of(fi, 1),
				height: 77 + fi as u64,
			},
			v,
		)
		.map_err(e),
		17 => {
			let m = Msg::new(
				Type::TxHashSetArchive,
				TxHashSetArchive {
					hash: hash_of(fi, 2),
					height: 88 + fi as u64,
					bytes: f.att as u64,
				},
				v,
			)
			.map_err(e);
			match m {
				Ok(mut m) => {
					let path = format!("{}/att_{}_{:?}.bin", tmp, f.att, std::thread::current().id());
					let r = (|| -> std::io::Result<File> {
						let mut w = File::create(&path)?;
						w.write_all(&att_bytes(fi, f.att))?;
						w.sync_all()?;
						File::open(&path)
					})();
					match r {
						Ok(file) => {
							m.add_attachment(file);
							Ok(m)
						}
						Err(e) => Err(format!("tmp file: {}", e)),
					}
				}
				Err(e) => Err(e),
			}
		}
		18 => Msg::new(
			Type::BanReason,
			BanReason {
				ban_reason: ReasonForBan::BadBlockHeader,
			},
			v,
		)
		.map_err(e),
		21 | 23 | 25 | 27 => Msg::new(
			match f.t {
				21 => Type::GetOutputBitmapSegment,
				23 => Type::GetOutputSegment,
				25 => Type::GetRangeProofSegment,
				_ => Type::GetKernelSegment,
			},
			SegmentRequest {
				block_hash: hash_of(fi, 3),
				identifier: SegmentIdentifier {
					height: 9,
					idx: 5 + fi as u64,
				},
			},
			v,
		)
		.map_err(e),
		_ => return None,
	};
	Some(msg.and_then(|m| {
		let mut out: Vec<u8> = vec![];
		grin_p2p::msg::write_message(&mut out, &m, Arc::new(Tracker::new()))
			.map_err(|e| format!("{:?}", e))?;
		Ok(out)
	}))
}

/// Projection of a real message: (type number, item count, digest)
pub fn describe(m: Message) -> (u8, u64, String) {
	match m {
		Message::Unknown(t) => (t, 0, "unknown".into()),
		Message::Ping(p) => (3, 0, format!("{}:{}", p.total_difficulty.to_num(), p.height)),
		Message::Pong(p) => (4, 0, format!("{}:{}", p.total_difficulty.to_num(), p.height)),
		Message::GetPeerAddrs(g) => (5, 0, format!("{}", g.capabilities.bits())),
		Message::PeerAddrs(p) => (
			6,
			p.peers.len() as u64,
			p.peers
				.iter()
				.map(|a| format!("{}", a.0))
				.collect::<Vec<_>>()
				.join(","),
		),
		Message::GetHeaders(l) => (
			7,
			l.hashes.len() as u64,
			l.hashes.iter().map(hx).collect::<Vec<_>>().join(","),
		),
		Message::Header(h) => {
			let bh: BlockHeader = h.into();
			(8, 0, hx(&bh.hash()))
		}
		Message::Headers(d) => (9, d.headers.len() as u64, String::new()),
		Message::GetBlock(h) => (10, 0, hx(&h)),
		Message::Block(b) => {
			let b: grin_core::core::Block = b.into();
			(11, 0, crate::objects::digest_of(&b))
		}
		Message::GetCompactBlock(h) => (12, 0, hx(&h)),
		Message::CompactBlock(b) => {
			let b: grin_core::core::CompactBlock = b.into();
			(13, 0, crate::objects::digest_of(&b))
		}
		Message::StemTransaction(tx) => (14, 0, crate::objects::digest_of(&tx)),
		Message::Transaction(tx) => (15, 0, crate::objects::digest_of(&tx)),
		Message::TxHashSetRequest(r) => (16, 0, format!("{}:{}", hx(&r.hash), r.height)),
		Message::TxHashSetArchive(a) => (17, 0, format!("{}:{}:{}", hx(&a.hash), a.height, a.bytes)),
		Message::BanReason(b) => (18, 0, format!("{}", b.ban_reason as i32)),
		Message::GetTransaction(h) => (19, 0, hx(&h)),
		Message::TransactionKernel(h) => (20, 0, hx(&h)),
		Message::GetOutputBitmapSegment(r) => (21, 0, seg(&r)),
		Message::OutputBitmapSegment(r) => (22, 0, crate::objects::digest_of(&r)),
		Message::GetOutputSegment(r) => (23, 0, seg(&r)),
		Message::OutputSegment(r) => (24, 0, crate::objects::digest_of(&r)),
		Message::GetRangeProofSegment(r) => (25, 0, seg(&r)),
		Message::RangeProofSegment(r) => (26, 0, crate::objects::digest_of(&r)),
		Message::GetKernelSegment(r) => (27, 0, seg(&r)),
		Message::KernelSegment(r) => (28, 0, crate::objects::digest_of(&r)),
		Message::Attachment(_, _) => (255, 0, String::new()),
	}
}

fn seg(r: &SegmentRequest) -> String {
	format!("{}:{}:{}", hx(&r.block_hash), r.identifier.height, r.identifier.idx)
}

/// Wire constants of this build, compared by the driver with the constants of the TLC configs.
pub fn consts() -> i32 {
	let pool = Pool::mine(1);
	let mbs = global::max_block_weight() / grin_core::consensus::OUTPUT_WEIGHT * 708;
	// the magic bytes the node's own writer puts on the wire on this network
	let mut hdr: Vec<u8> = vec![];
	let ping = Msg::new(
		Type::Ping,
		Ping {
			total_difficulty: Difficulty::from_num(1),
			height: 1,
		},
		ProtocolVersion(1),
	);
	if let Ok(m) = ping {
		let _ = grin_p2p::msg::write_message(&mut hdr, &m, Arc::new(Tracker::new()));
	}
	println!(
		"{}",
		json!({
			"HDR": grin_p2p::msg::MsgHeader::LEN,
			"net": net_name(),
			"magic_written": hdr.iter().take(2).cloned().collect::<Vec<u8>>(),
			"magic_model": magic_of(net_name()).to_vec(),
			"header_sizes": pool.by_size.keys().cloned().collect::<Vec<usize>>(),
			"BH": pool.raw.first().map(|r| r.len()).unwrap_or(0),
			"BHMAX": global::header_size_bytes(63),
			"MaxBlockSize": mbs,
			"MAX_BLOCK_HEADERS": grin_p2p::MAX_BLOCK_HEADERS,
			"MAX_LOCATORS": grin_p2p::MAX_LOCATORS,
			"MAX_PEER_ADDRS": grin_p2p::MAX_PEER_ADDRS,
			"PROTOCOL_VERSION": ProtocolVersion::local().value(),
		})
	);
	0
}
