//! Direction A: every TLC-emitted stream is written to a loopback socket under many
//! fragmentations and read back by the real `Codec`; the results are compared with what
//! `ExpectedSeq` of Codec.tla demands.
use crate::alloc_track;
use crate::frames::*;
use chrono::Utc;
use grin_core::core::hash::Hashed;
use grin_core::ser::ProtocolVersion;
use grin_p2p::msg::Message;
use grin_p2p::types::AttachmentMeta;
use grin_p2p::verif_export::Codec;
use grin_p2p::Error;
use rand::rngs::StdRng;
use rand::{Rng, SeedableRng};
use serde_json::{json, Value};
use std::io::{ErrorKind, Read, Write};
use std::net::{Shutdown, TcpListener, TcpStream};
use std::os::unix::io::AsRawFd;
use std::panic::{catch_unwind, AssertUnwindSafe};
use std::path::PathBuf;
use std::sync::atomic::{AtomicBool, AtomicUsize, Ordering};
use std::sync::{Arc, Mutex};
use std::thread;
use std::time::{Duration, Instant};
use vcommon::*;

pub const VERSIONS: [u32; 4] = [1, 2, 3, 1000];
/// A read that refuses a frame on its header may not request more than this in one allocation.
const REFUSAL_ALLOC_MAX: usize = 1 << 20;

#[derive(Clone, Debug)]
pub enum Obs {
	Msg { t: u8, n: u64, digest: String },
	Headers { hashes: Vec<String>, remaining: u64 },
	Att { read: usize, left: usize, data: Vec<u8> },
	Unknown(u8),
	Err { class: String, alloc: usize },
	Eof,
	Panic(String),
	Stall,
}

impl Obs {
	pub fn brief(&self) -> Value {
		match self {
			Obs::Msg { t, n, .. } => json!({"r":"msg","t":t,"n":n}),
			Obs::Headers { hashes, remaining } => json!({"r":"headers","n":hashes.len(),"rem":remaining}),
			Obs::Att { read, left, .. } => json!({"r":"att","n":read,"rem":left}),
			Obs::Unknown(t) => json!({"r":"unknown","t":t}),
			Obs::Err { class, alloc } => json!({"r":"err","class":class,"alloc":alloc}),
			Obs::Eof => json!({"r":"eof"}),
			Obs::Panic(s) => json!({"r":"panic","msg":s}),
			Obs::Stall => json!({"r":"stall"}),
		}
	}
}

pub struct ReadOut {
	pub obs: Vec<Obs>,
	pub timeouts: u32,
	pub bytes_read: u64,
	pub max_alloc: usize,
}

fn err_class(e: &Error) -> String {
	match e {
		Error::Serialization(s) => format!("Serialization({:?})", s),
		Error::Connection(io) => format!("Connection({:?})", io.kind()),
		other => format!("{:?}", other),
	}
}

/// The reading peer: what conn.rs does with a `Codec`, minus the handler.
pub fn read_all(stream: TcpStream, version: u32, done: &AtomicBool, watchdog: Duration) -> ReadOut {
	let mut out = ReadOut {
		obs: vec![],
		timeouts: 0,
		bytes_read: 0,
		max_alloc: 0,
	};
	let t0 = Instant::now();
	let r = catch_unwind(AssertUnwindSafe(|| {
		let mut codec = Codec::new(ProtocolVersion(version), stream);
		loop {
			alloc_track::reset();
			let (res, n) = codec.read();
			let alloc = alloc_track::max_request();
			out.bytes_read += n;
			if alloc > out.max_alloc {
				out.max_alloc = alloc;
			}
			match res {
				Ok(Message::TxHashSetArchive(a)) => {
					let meta = AttachmentMeta {
						size: a.bytes as usize,
						hash: a.hash,
						height: a.height,
						start_time: Utc::now(),
						path: PathBuf::new(),
					};
					let (t, n, digest) = describe(Message::TxHashSetArchive(a));
					out.obs.push(Obs::Msg { t, n, digest });
					codec.expect_attachment(Arc::new(meta));
				}
				Ok(Message::Attachment(up, bytes)) => out.obs.push(Obs::Att {
					read: up.read,
					left: up.left,
					data: bytes.map(|b| b.to_vec()).unwrap_or_default(),
				}),
				Ok(Message::Headers(d)) => out.obs.push(Obs::Headers {
					hashes: d.headers.iter().map(|h| hx(&h.hash())).collect(),
					remaining: d.remaining,
				}),
				Ok(Message::Unknown(t)) => out.obs.push(Obs::Unknown(t)),
				Ok(m) => {
					let (t, n, digest) = describe(m);
					out.obs.push(Obs::Msg { t, n, digest });
				}
				Err(Error::Connection(ref e))
					if e.kind() == ErrorKind::TimedOut || e.kind() == ErrorKind::WouldBlock =>
				{
					// conn.rs: try_break! => continue
					out.timeouts += 1;
					if t0.elapsed() > watchdog {
						out.obs.push(Obs::Stall);
						break;
					}
				}
				Err(Error::Connection(ref e)) if e.kind() == ErrorKind::UnexpectedEof => {
					out.obs.push(Obs::Eof);
					break;
				}
				Err(e) => {
					out.obs.push(Obs::Err {
						class: err_class(&e),
						alloc,
					});
					break;
				}
			}
		}
	}));
	if let Err(p) = r {
		let msg = p
			.downcast_ref::<String>()
			.cloned()
			.or_else(|| p.downcast_ref::<&str>().map(|s| s.to_string()))
			.unwrap_or_else(|| "panic".into());
		out.obs.push(Obs::Panic(msg));
	}
	done.store(true, Ordering::SeqCst);
	out
}

#[derive(Clone, Debug)]
pub struct Plan {
	pub cuts: Vec<usize>,
	/// pause after each fragment (microseconds)
	pub gaps_us: Vec<u64>,
	/// wait until the reader has drained the socket before sending the next fragment
	pub sync: bool,
	pub kind: &'static str,
}

pub fn unread(s: &TcpStream) -> i32 {
	let mut n: libc::c_int = 0;
	let r = unsafe { libc::ioctl(s.as_raw_fd(), libc::FIONREAD, &mut n) };
	if r < 0 {
		-1
	} else {
		n
	}
}

pub struct RunOut {
	pub read: ReadOut,
	pub leftover: Vec<u8>,
	pub io_error: Option<String>,
	/// longest unplanned pause between two writes (scheduling stalls void a run: the property
	/// only speaks about fragment gaps inside the I/O timeouts)
	pub max_gap_ms: u64,
}

/// One socket run: the writer sends `bytes` cut as planned, the real codec reads on the other end.
pub fn run_once(listener: &TcpListener, bytes: &[u8], plan: &Plan, version: u32) -> RunOut {
	let io = |e: std::io::Error| format!("{}", e);
	let setup = (|| -> Result<(TcpStream, TcpStream, TcpStream), String> {
		let w = TcpStream::connect(listener.local_addr().map_err(io)?).map_err(io)?;
		w.set_nodelay(true).map_err(io)?;
		let (r, _) = listener.accept().map_err(io)?;
		let probe = r.try_clone().map_err(io)?;
		Ok((w, r, probe))
	})();
	let (mut w, r, mut probe) = match setup {
		Ok(x) => x,
		Err(e) => {
			return RunOut {
				read: ReadOut {
					obs: vec![],
					timeouts: 0,
					bytes_read: 0,
					max_alloc: 0,
				},
				leftover: vec![],
				io_error: Some(e),
				max_gap_ms: 0,
			}
		}
	};
	let done = Arc::new(AtomicBool::new(false));
	let mut io_error = None;
	let mut leftover = vec![];
	let mut max_gap_ms = 0u64;
	let read = thread::scope(|s| {
		let d2 = done.clone();
		let reader = s.spawn(move || read_all(r, version, &d2, Duration::from_secs(40)));
		let d3 = done.clone();
		let probe_w = probe.try_clone();
		let writer = s.spawn(move || -> Result<u64, String> {
			let probe_w = probe_w.map_err(|e| format!("{}", e))?;
			let mut start = 0usize;
			let mut max_gap = 0u64;
			let mut last_write = Instant::now();
			let mut ends: Vec<usize> = plan.cuts.iter().map(|c| (*c).min(bytes.len())).collect();
			ends.push(bytes.len());
			for (i, &end) in ends.iter().enumerate() {
				if end > start {
					let planned = if i > 0 { plan.gaps_us.get(i - 1).cloned().unwrap_or(0) / 1000 } else { 0 };
					let waited = last_write.elapsed().as_millis() as u64;
					if !d3.load(Ordering::SeqCst) {
						max_gap = max_gap.max(waited.saturating_sub(planned));
					}
					if let Err(e) = w.write_all(&bytes[start..end]) {
						// the reader may have gone away after a refusal
						if d3.load(Ordering::SeqCst) {
							break;
						}
						return Err(format!("write: {}", e));
					}
					last_write = Instant::now();
					start = end;
				}
				if i + 1 < ends.len() {
					if plan.sync {
						let t0 = Instant::now();
						while unread(&probe_w) > 0
							&& !d3.load(Ordering::SeqCst)
							&& t0.elapsed() < Duration::from_secs(5)
						{
							thread::yield_now();
						}
					}
					let g = plan.gaps_us.get(i).cloned().unwrap_or(0);
					if g > 0 {
						thread::sleep(Duration::from_micros(g));
					}
				}
			}
			let _ = w.shutdown(Shutdown::Write);
			Ok(max_gap)
		});
		let read = reader.join().unwrap_or_else(|_| ReadOut {
			obs: vec![Obs::Panic("reader thread".into())],
			timeouts: 0,
			bytes_read: 0,
			max_alloc: 0,
		});
		done.store(true, Ordering::SeqCst);
		// whatever the codec did not take out of the socket is still there (draining also
		// unblocks a writer that is still sending after a refusal)
		let _ = probe.set_read_timeout(Some(Duration::from_secs(15)));
		let mut buf = vec![0u8; 65536];
		loop {
			match probe.read(&mut buf) {
				Ok(0) => break,
				Ok(n) => leftover.extend_from_slice(&buf[..n]),
				Err(e) => {
					if e.kind() != ErrorKind::ConnectionReset {
						io_error = Some(format!("leftover read: {}", e));
					}
					break;
				}
			}
		}
		match writer.join() {
			Ok(Ok(g)) => max_gap_ms = g,
			Ok(Err(e)) => io_error = Some(e),
			Err(_) => io_error = Some("writer panicked".into()),
		}
		read
	});
	RunOut {
		read,
		leftover,
		io_error,
		max_gap_ms,
	}
}

pub struct Case {
	pub id: usize,
	pub frames: Vec<Frame>,
	pub expect: Vec<Value>,
	pub classes: Vec<String>,
	pub total: usize,
	pub starts: Vec<usize>,
	/// Codec.tla: candidate boundaries at which `Silence` is enabled (SilenceOK)
	pub silent: Vec<usize>,
	/// Codec.tla AllocBound per frame: largest single allocation request a read of this frame may make
	pub alloc_max: Vec<usize>,
	/// Codec.tla WriterVersion: the protocol version the built frames of the stream are serialised
	/// with, which is then the version of the connection (0: the stream does not depend on it)
	pub version: u32,
}

impl Case {
	pub fn from_json(id: usize, v: &Value) -> Case {
		Case {
			id,
			frames: v["frames"].as_array().unwrap().iter().map(Frame::from_json).collect(),
			expect: v["expect"].as_array().unwrap().clone(),
			classes: v["classes"]
				.as_array()
				.unwrap()
				.iter()
				.map(|x| x.as_str().unwrap().to_string())
				.collect(),
			total: v["total"].as_u64().unwrap() as usize,
			version: v["version"].as_u64().unwrap_or(0) as u32,
			starts: v["starts"]
				.as_array()
				.unwrap()
				.iter()
				.map(|x| x.as_u64().unwrap() as usize)
				.collect(),
			alloc_max: v["alloc_max"]
				.as_array()
				.map(|a| a.iter().map(|x| x.as_u64().unwrap() as usize).collect())
				.unwrap_or_default(),
			silent: {
				let mut v: Vec<usize> = v["silent"]
					.as_array()
					.map(|a| a.iter().map(|x| x.as_u64().unwrap() as usize).collect())
					.unwrap_or_default();
				v.sort();
				v
			},
		}
	}

	/// SilenceOK of Codec.tla: a pause longer than the header timeout is inside the property's
	/// quantifier between two frames and from the end of the 11 header bytes to the end of the frame.
	pub fn silence_ok(&self, p: usize) -> bool {
		self.frames.iter().enumerate().any(|(i, f)| {
			let b = self.starts[i];
			p == b || (p >= b + HDR && p < b + HDR + f.body + f.att)
		})
	}
}

pub struct Mismatch {
	pub what: String,
	pub detail: String,
	pub fi: usize,
}

/// Compare what the real codec returned with the expectation of the specification.
/// Batch grouping of Headers and chunking of attachments are free; totals, order, the
/// remaining/left bookkeeping and the contents are not.
pub fn compare(case: &Case, sent: &[Sent], stream: &[u8], out: &RunOut) -> Option<Mismatch> {
	let obs = &out.read.obs;
	let mm = |what: &str, fi: usize, detail: String| {
		Some(Mismatch {
			what: what.to_string(),
			detail,
			fi,
		})
	};
	if let Some(e) = &out.io_error {
		return mm("io", 0, e.clone());
	}
	let mut oi = 0usize;
	let mut errored = false;
	for e in &case.expect {
		let fi = e["fi"].as_u64().unwrap() as usize - 1;
		let f = &case.frames[fi];
		let r = e["r"].as_str().unwrap();
		// results that are never acceptable
		let bad = |o: &Obs| match o {
			Obs::Panic(m) => Some(("panic", m.clone())),
			Obs::Stall => Some(("stall", String::new())),
			_ => None,
		};
		match r {
			"msg" | "unknown" => {
				let o = match obs.get(oi) {
					Some(o) => o,
					None => return mm("missing", fi, "no result".into()),
				};
				if let Some((w, d)) = bad(o) {
					return mm(w, fi, d);
				}
				match (r, o) {
					("unknown", Obs::Unknown(t)) => {
						if *t as u64 != e["t"].as_u64().unwrap() {
							return mm("type", fi, format!("unknown type {}", t));
						}
					}
					("msg", Obs::Msg { t, n, digest }) => {
						if *t as u64 != e["t"].as_u64().unwrap() {
							return mm("type", fi, format!("got type {}", t));
						}
						if *n != e["n"].as_u64().unwrap() {
							return mm("count", fi, format!("got {} items", n));
						}
						if *digest != sent[fi].digest {
							return mm("content", fi, format!("got {} sent {}", digest, sent[fi].digest));
						}
					}
					(_, Obs::Err { class, .. }) if e["lax"].as_bool().unwrap() => {
						// left open by the property: refused after reading the frame
						let consumed = stream.len() - out.leftover.len();
						let end = case.starts[fi] + HDR + f.len as usize;
						if consumed != end || oi + 1 != obs.len() {
							return mm("leftover", fi, format!("{} consumed {} frame end {}", class, consumed, end));
						}
						return None;
					}
					(_, Obs::Err { class, .. }) => return mm("unexpected_err", fi, class.clone()),
					(_, Obs::Eof) => return mm("eof", fi, "stream ended early".into()),
					(_, o) => return mm("type", fi, format!("got {}", o.brief())),
				}
				oi += 1;
			}
			"headers" => {
				let want = &sent[fi].hashes;
				let n = e["n"].as_u64().unwrap() as usize;
				let mut got: Vec<String> = vec![];
				let mut first = true;
				loop {
					let o = match obs.get(oi) {
						Some(o) => o,
						None => return mm("missing", fi, "no headers result".into()),
					};
					if let Some((w, d)) = bad(o) {
						return mm(w, fi, d);
					}
					match o {
						Obs::Headers { hashes, remaining } => {
							got.extend(hashes.iter().cloned());
							if got.len() > n {
								return mm("headers_total", fi, format!("{} > {}", got.len(), n));
							}
							if *remaining != (n - got.len()) as u64 {
								return mm(
									"remaining",
									fi,
									format!("remaining {} after {} of {}", remaining, got.len(), n),
								);
							}
							if hashes.is_empty() && n > 0 {
								return mm("headers_total", fi, "empty batch".into());
							}
							oi += 1;
							first = false;
							if got.len() == n {
								break;
							}
						}
						Obs::Err { class, .. } => {
							return mm(
								"unexpected_err",
								fi,
								format!("{} after {} of {} headers", class, got.len(), n),
							)
						}
						Obs::Eof => return mm("eof", fi, format!("after {} of {} headers", got.len(), n)),
						o => return mm("type", fi, format!("got {} (first={})", o.brief(), first)),
					}
				}
				if &got != want {
					return mm("headers_order", fi, "header sequence differs".into());
				}
			}
			"att" => {
				let n = e["n"].as_u64().unwrap() as usize;
				let mut got: Vec<u8> = vec![];
				loop {
					let o = match obs.get(oi) {
						Some(o) => o,
						None => return mm("missing", fi, "no attachment result".into()),
					};
					if let Some((w, d)) = bad(o) {
						return mm(w, fi, d);
					}
					match o {
						Obs::Att { read, left, data } => {
							if *read != data.len() {
								return mm("att_total", fi, format!("read {} data {}", read, data.len()));
							}
							got.extend_from_slice(data);
							if got.len() > n || *left != n - got.len() {
								return mm("att_total", fi, format!("left {} after {} of {}", left, got.len(), n));
							}
							oi += 1;
							if *left == 0 {
								break;
							}
						}
						Obs::Err { class, .. } => return mm("unexpected_err", fi, class.clone()),
						Obs::Eof => return mm("eof", fi, format!("after {} of {} attachment bytes", got.len(), n)),
						o => return mm("type", fi, format!("got {}", o.brief())),
					}
				}
				if got != sent[fi].att {
					return mm("att_content", fi, "attachment bytes differ".into());
				}
			}
			"err" => {
				// batches already streamed from a Headers frame refused later for its count
				let mut streamed: Vec<String> = vec![];
				while let Some(Obs::Headers { hashes, .. }) = obs.get(oi) {
					if case.classes[fi] != "badcount" {
						return mm("err_expected", fi, "headers delivered from a frame to refuse".into());
					}
					streamed.extend(hashes.iter().cloned());
					oi += 1;
				}
				if streamed.len() > sent[fi].hashes.len() || streamed[..] != sent[fi].hashes[..streamed.len()] {
					return mm("headers_order", fi, "streamed headers are not a prefix of the frame".into());
				}
				let o = match obs.get(oi) {
					Some(o) => o,
					None => return mm("missing", fi, "no result".into()),
				};
				if let Some((w, d)) = bad(o) {
					return mm(w, fi, d);
				}
				match o {
					Obs::Err { alloc, class } => {
						let consumed = stream.len() - out.leftover.len();
						let (lo, hi) = (e["lo"].as_u64().unwrap() as usize, e["hi"].as_u64().unwrap() as usize);
						if consumed < lo || consumed > hi {
							return mm(
								"leftover",
								fi,
								format!("{}: consumed {} not in {}..{}", class, consumed, lo, hi),
							);
						}
						// "refused without ... allocating the announced body": neither the announced
						// length nor an announced item count may size an allocation
						let bound = case.alloc_max.get(fi).cloned().unwrap_or(REFUSAL_ALLOC_MAX);
						if *alloc > bound {
							return mm(
								"alloc",
								fi,
								format!(
									"{} bytes requested in one allocation while refusing a frame of {} body bytes (count field {}, bound {})",
									alloc, f.body, f.count, bound
								),
							);
						}
					}
					Obs::Eof => {
						return mm(
							"err_expected",
							fi,
							format!("read on to the end of the stream ({} left)", out.leftover.len()),
						)
					}
					// the body is longer than what its items need and the frame was delivered all the same
					Obs::Msg { t, .. } if case.classes[fi] == "trailing" && *t == f.t => {
						return mm(
							"trailing_bytes_accepted",
							fi,
							format!(
								"frame of type {} announcing {} body bytes, of which its items need {}, was returned as a message",
								f.t, f.len, f.need
							),
						)
					}
					// the body is shorter than what the message needs and a message was returned all the same
					Obs::Msg { t, .. } if case.classes[fi] == "baddecode" && *t == f.t && f.need > f.len as i64 => {
						return mm(
							"short_body_accepted",
							fi,
							format!(
								"frame of type {} with a body of {} byte(s), of which its content needs {}, was returned as a message",
								f.t, f.len, f.need
							),
						)
					}
					o => return mm("err_expected", fi, format!("got {}", o.brief())),
				}
				oi += 1;
				errored = true;
			}
			_ => return mm("case", fi, format!("bad expectation {}", e)),
		}
	}
	// no read of any frame of this stream may ask the allocator for more than the largest bound
	if let Some(cap) = case.alloc_max.iter().max() {
		if out.read.max_alloc > *cap {
			return mm(
				"alloc",
				0,
				format!("{} bytes requested in one allocation, the frames of the stream allow {}", out.read.max_alloc, cap),
			);
		}
	}
	// the unread rest must be the tail of what was written
	let cut = stream.len() - out.leftover.len().min(stream.len());
	if out.leftover[..] != stream[cut..] {
		return mm("leftover", 0, "socket rest is not the tail of the stream".into());
	}
	if !errored {
		match obs.get(oi) {
			Some(Obs::Eof) => {}
			Some(o) => return mm("spurious", case.frames.len() - 1, format!("extra result {}", o.brief())),
			None => return mm("missing", case.frames.len() - 1, "no end of stream".into()),
		}
		if !out.leftover.is_empty() {
			return mm("leftover", case.frames.len() - 1, format!("{} bytes unread", out.leftover.len()));
		}
		oi += 1;
	}
	if oi != obs.len() {
		return mm("spurious", case.frames.len() - 1, format!("extra result {}", obs[oi].brief()));
	}
	None
}

/// Structural offsets of a stream (frame starts, header/body/attachment ends, item and batch edges).
fn landmarks(case: &Case) -> Vec<usize> {
	let mut v = vec![];
	for (i, f) in case.frames.iter().enumerate() {
		let b = case.starts[i];
		let e = b + HDR + f.body;
		let mut pts = vec![b, b + 2, b + 3, b + HDR, b + HDR + 2, e, e + f.att];
		if f.t == 9 {
			for j in [1usize, 2, 3, 31, 32, 33, 64, f.items.saturating_sub(1), f.items] {
				pts.push(b + HDR + 2 + f.item_end(j.min(f.items)));
			}
			pts.push(b + HDR + 2 + 310);
			pts.push(b + HDR + 2 + f.item_end(1.min(f.items)) + 310);
		}
		if f.att > 0 {
			pts.push(e + 48_000);
			pts.push(e + 96_000);
		}
		for p in pts {
			for d in [-2i64, -1, 0, 1, 2] {
				let q = p as i64 + d;
				if q > 0 && (q as usize) < case.total {
					v.push(q as usize);
				}
			}
		}
	}
	v.sort();
	v.dedup();
	v
}

fn plans(case: &Case, rng: &mut StdRng, thorough: bool) -> Vec<Plan> {
	let mut v = vec![Plan {
		cuts: vec![],
		gaps_us: vec![],
		sync: false,
		kind: "whole",
	}];
	let total = case.total;
	if total < 2 {
		return v;
	}
	// every single split point (short streams), else every structural one plus a random sample
	let singles: Vec<usize> = if total <= 600 {
		(1..total).collect()
	} else if total > 1_000_000 {
		// megabytes of body (limits of the other networks): the structural points of the first frame only
		let mut s: Vec<usize> = vec![3, HDR, HDR + 1, total / 2, total - 1];
		s.retain(|c| *c > 0 && *c < total);
		s
	} else {
		let mut s = landmarks(case);
		s.extend(1..24.min(total));
		for _ in 0..(if thorough { 60 } else { 16 }) {
			s.push(rng.gen_range(1, total));
		}
		s.sort();
		s.dedup();
		s
	};
	for c in singles {
		v.push(Plan {
			cuts: vec![c],
			gaps_us: vec![if c % 7 == 0 { 300 } else { 0 }],
			sync: true,
			kind: "single",
		});
	}
	// seeded random multi-splits with 0-5 ms gaps
	let lm = landmarks(case);
	for k in 0..(if total > 1_000_000 { 1 } else if thorough { 10 } else { 3 }) {
		let n = rng.gen_range(2, 7);
		let mut cuts: Vec<usize> = (0..n)
			.map(|_| {
				if !lm.is_empty() && rng.gen_range(0, 3) == 0 {
					lm[rng.gen_range(0, lm.len())]
				} else {
					rng.gen_range(1, total)
				}
			})
			.collect();
		cuts.sort();
		cuts.dedup();
		let gaps = cuts.iter().map(|_| rng.gen_range(0, 5001)).collect();
		v.push(Plan {
			cuts,
			gaps_us: gaps,
			sync: k % 2 == 0,
			kind: "multi",
		});
	}
	// byte-by-byte delivery of short streams
	if total <= 120 {
		v.push(Plan {
			cuts: (1..total).collect(),
			gaps_us: vec![],
			sync: true,
			kind: "bytewise",
		});
	}
	v
}

/// The peer stays silent between two frames for longer than the header timeout.
fn idle_plan(case: &Case) -> Plan {
	Plan {
		cuts: vec![case.starts[1]],
		gaps_us: vec![2_300_000],
		sync: true,
		kind: "idle",
	}
}

/// A place inside a frame (after its 11 header bytes) where the peer may go silent for longer
/// than the header timeout: the body timeout governs there (Codec.tla: Silence with tmo = "body").
struct GapCand {
	ci: usize,
	pos: usize,
	group: String,
}

fn gap_candidates(case: &Case, rng: &mut StdRng, out: &mut Vec<GapCand>) {
	if case.total > 200_000 {
		return;
	}
	for (i, f) in case.frames.iter().enumerate() {
		// only frames that are read to their end, behind frames that are read to their end
		if !["msg", "headers", "unknown"].contains(&case.classes[i].as_str()) {
			break;
		}
		let ord = if i == 0 { "first" } else { "later" };
		let hb = case.starts[i] + HDR;
		let e = hb + f.body;
		let end = e + f.att;
		let mut add = |pos: usize, region: &str| {
			if pos < case.total && pos >= hb && pos < end.max(hb + 1) && case.silence_ok(pos) {
				out.push(GapCand {
					ci: case.id,
					pos,
					group: format!("{}:{}", region, ord),
				});
			}
		};
		if f.body > 0 {
			add(hb, "hdr_end");
		}
		if case.classes[i] == "headers" {
			if f.body >= 2 {
				add(hb + 1, "count");
			}
			if f.items > 0 {
				let j = rng.gen_range(0, f.items.min(32));
				add(hb + 2 + f.item_end(j) + rng.gen_range(1, 257), "item_batch1");
				if f.items.min(32) > 1 {
					add(hb + 2 + f.item_end(rng.gen_range(1, f.items.min(32))), "item_edge");
				}
			}
			if f.items > 32 {
				let j = rng.gen_range(32, f.items);
				add(hb + 2 + f.item_end(j) + rng.gen_range(0, 257), "item_later");
			}
		} else if f.body >= 2 {
			add(hb + rng.gen_range(1, f.body), "body");
			if f.body >= 3 {
				add(e - 1, "body_last");
			}
		}
		if f.att > 0 {
			add(e, "att_start");
			if f.att >= 2 {
				add(e + rng.gen_range(1, f.att.min(48_000)), "att_chunk1");
			}
			if f.att > 48_001 {
				add(e + rng.gen_range(48_001, f.att), "att_later");
			}
		}
		// boundaries of the model at which Silence is enabled inside this frame
		let inside: Vec<usize> = case.silent.iter().cloned().filter(|c| *c > hb && *c < end).collect();
		if !inside.is_empty() {
			add(inside[rng.gen_range(0, inside.len())], "model_cut");
		}
	}
}

/// Pick `n` silent-in-a-body runs spread over the groups (region of the frame x first/later frame).
fn pick_gap_jobs(cases: &[Case], seed: u64, n: usize, double_every: usize) -> Vec<(usize, Plan, String)> {
	let mut seedb = [0u8; 32];
	seedb[..8].copy_from_slice(&seed.to_le_bytes());
	seedb[8..16].copy_from_slice(b"bodygap!");
	let mut rng: StdRng = SeedableRng::from_seed(seedb);
	let mut cands = vec![];
	for c in cases {
		gap_candidates(c, &mut rng, &mut cands);
	}
	let mut groups: std::collections::BTreeMap<String, Vec<GapCand>> = Default::default();
	for c in cands {
		groups.entry(c.group.clone()).or_default().push(c);
	}
	let mut keys: Vec<String> = groups.keys().cloned().collect();
	// seeded rotation so that different seeds start with different groups
	if !keys.is_empty() {
		let r = rng.gen_range(0, keys.len());
		keys.rotate_left(r);
	}
	let mut jobs: Vec<(usize, Plan, String)> = vec![];
	let mut used = std::collections::HashSet::new();
	let mut round = 0;
	while jobs.len() < n && round < 64 {
		for k in &keys {
			if jobs.len() >= n {
				break;
			}
			let g = &groups[k];
			let c = &g[rng.gen_range(0, g.len())];
			if !used.insert((c.ci, c.pos)) {
				continue;
			}
			let mut cuts = vec![c.pos];
			let mut gaps = vec![rng.gen_range(2_300_000, 2_600_001)];
			// now and then a second silence later in the same stream (a body or a frame boundary)
			if double_every > 0 && jobs.len() % double_every == double_every - 1 {
				let later: Vec<usize> = cases[c.ci].silent.iter().cloned().filter(|p| *p > c.pos + 1).collect();
				if !later.is_empty() {
					cuts.push(later[rng.gen_range(0, later.len())]);
					gaps.push(rng.gen_range(2_300_000, 2_600_001));
				}
			}
			jobs.push((
				c.ci,
				Plan {
					cuts,
					gaps_us: gaps,
					sync: true,
					kind: "bodygap",
				},
				k.clone(),
			));
		}
		round += 1;
	}
	jobs
}

/// Render a case to bytes (layout checked against the model's offsets).
fn render_case(case: &Case, pool: &Pool) -> Result<(Vec<Sent>, Vec<u8>), String> {
	let sent: Vec<Sent> = case.frames.iter().enumerate().map(|(fi, f)| render(f, fi, pool)).collect();
	let mut stream: Vec<u8> = vec![];
	for (fi, f) in case.frames.iter().enumerate() {
		if sent[fi].bytes.len() != HDR + f.body + f.att || stream.len() != case.starts[fi] {
			return Err(format!(
				"layout of frame {} differs from the model: {} bytes at offset {}, the model has {} at {}{}",
				fi,
				sent[fi].bytes.len(),
				stream.len(),
				HDR + f.body + f.att,
				case.starts[fi],
				if sent[fi].bytes.is_empty() { format!(" ({})", sent[fi].digest) } else { String::new() }
			));
		}
		stream.extend_from_slice(&sent[fi].bytes);
	}
	if stream.len() != case.total {
		return Err("total length differs from the model".into());
	}
	Ok((sent, stream))
}

struct Shared {
	results: Mutex<Vec<Value>>,
	/// 0 runs, 1 single, 2 multi, 3 idle, 4 timeouts seen, 5 writer-checked frames, 6 max alloc, 7 bytes,
	/// 8 bodygap runs, 9 timeouts seen in bodygap runs
	counters: Vec<AtomicUsize>,
	voids: AtomicUsize,
	gap_groups: Mutex<std::collections::BTreeMap<String, usize>>,
}

/// One plan on one stream: run (repeating void runs), compare, report.  Returns true on a mismatch.
fn exec_plan(
	sh: &Shared,
	listener: &TcpListener,
	case: &Case,
	sent: &[Sent],
	stream: &[u8],
	plan: &Plan,
	version: u32,
	corrupt: bool,
	report: bool,
) -> bool {
	// A run in which the machine stalled (an unplanned pause of a second, or a read
	// timeout although the peer was never silent) is outside the property's
	// quantifier ("within the I/O timeouts"): it is void and repeated.
	let silent = plan.gaps_us.iter().any(|g| *g >= 1_500_000);
	let mut out = run_once(listener, stream, plan, version);
	let mut attempts = 1;
	while (out.max_gap_ms > 1000 || (!silent && out.read.timeouts > 0) || out.io_error.is_some()) && attempts < 4 {
		sh.voids.fetch_add(1, Ordering::Relaxed);
		out = run_once(listener, stream, plan, version);
		attempts += 1;
	}
	if out.io_error.is_none() && (out.max_gap_ms > 1000 || (!silent && out.read.timeouts > 0)) {
		out.io_error = Some(format!(
			"stalled run (gap {} ms, {} timeouts) 4 times",
			out.max_gap_ms, out.read.timeouts
		));
	}
	let c = &sh.counters;
	c[0].fetch_add(1, Ordering::Relaxed);
	c[7].fetch_add(stream.len(), Ordering::Relaxed);
	match plan.kind {
		"single" => c[1].fetch_add(1, Ordering::Relaxed),
		"multi" | "bytewise" => c[2].fetch_add(1, Ordering::Relaxed),
		"idle" => c[3].fetch_add(1, Ordering::Relaxed),
		"bodygap" => {
			c[9].fetch_add(out.read.timeouts as usize, Ordering::Relaxed);
			c[8].fetch_add(1, Ordering::Relaxed)
		}
		_ => 0,
	};
	c[4].fetch_add(out.read.timeouts as usize, Ordering::Relaxed);
	c[6].fetch_max(out.read.max_alloc, Ordering::Relaxed);
	if corrupt {
		// self-test of the comparison: pretend the codec returned one result less
		if out.read.obs.len() >= 2 {
			out.read.obs.remove(0);
		}
	}
	if let Some(m) = compare(case, sent, stream, &out) {
		if report {
			let f = &case.frames[m.fi];
			sh.results.lock().unwrap().push(json!({
				"case": case.id, "what": m.what, "detail": m.detail, "frame": m.fi,
				"k": f.k, "t": f.t, "count": f.count, "items": f.items, "class": case.classes[m.fi],
				"label": f.label(),
				"plan": {"cuts": plan.cuts, "gaps_us": plan.gaps_us, "sync": plan.sync, "version": version, "kind": plan.kind},
				"observed": out.read.obs.iter().map(|o| o.brief()).collect::<Vec<_>>(),
				"read_timeouts": out.read.timeouts,
				"leftover": out.leftover.len(), "bytes_read": out.read.bytes_read,
			}));
		}
		return true;
	}
	false
}

pub fn replay(args: &Args) -> i32 {
	let cases_json = read_ndjson(args.req("cases"));
	let tmp = args.req("tmp").to_string();
	let seed = args.u64("seed", 1);
	let thorough = args.get("thorough").is_some();
	let threads = args.u64("threads", 8) as usize;
	let only_plan: Option<Value> = args.get("plan").map(|s| serde_json::from_str(s).expect("plan json"));
	let corrupt = args.get("corrupt").is_some();
	let pool = Arc::new(Pool::mine(64));
	let cases: Vec<Case> = cases_json
		.iter()
		.enumerate()
		.map(|(i, v)| Case::from_json(i, v))
		.collect();
	let cases = Arc::new(cases);
	let next = Arc::new(AtomicUsize::new(0));
	let sh = Arc::new(Shared {
		results: Mutex::new(vec![]),
		counters: (0..10).map(|_| AtomicUsize::new(0)).collect(),
		voids: AtomicUsize::new(0),
		gap_groups: Mutex::new(Default::default()),
	});

	// ---- runs with a silent peer (2.3 - 2.6 s): they mostly sleep, so they get their own threads
	// and overlap with everything else.
	let mut slow: Vec<(usize, Plan)> = vec![];
	if only_plan.is_none() && !corrupt {
		// (a) silence between two frames, spread evenly over the eligible streams
		let eligible: Vec<usize> = cases
			.iter()
			.filter(|c| c.frames.len() >= 2 && c.total <= 4000 && c.expect.len() >= 2)
			.map(|c| c.id)
			.collect();
		let want_idle = if thorough { 32 } else { 12 };
		let step = (eligible.len() / want_idle).max(1);
		for ci in eligible
			.iter()
			.enumerate()
			.filter(|(j, _)| (j + seed as usize) % step == 0)
			.map(|(_, c)| *c)
			.take(want_idle + 2)
		{
			slow.push((ci, idle_plan(&cases[ci])));
		}
		// (b) silence in the middle of a body / a header item / an attachment chunk
		let gaps = pick_gap_jobs(&cases, seed, if thorough { 72 } else { 28 }, if thorough { 4 } else { 7 });
		for (ci, p, g) in gaps {
			*sh.gap_groups.lock().unwrap().entry(g).or_insert(0) += 1;
			slow.push((ci, p));
		}
	}
	let slow = Arc::new(slow);
	let slow_next = Arc::new(AtomicUsize::new(0));
	let mut hs = vec![];
	for _ in 0..slow.len().min(48) {
		let (cases, slow, slow_next, sh, pool) = (cases.clone(), slow.clone(), slow_next.clone(), sh.clone(), pool.clone());
		hs.push(thread::spawn(move || {
			let listener = TcpListener::bind("127.0.0.1:0").expect("bind loopback");
			loop {
				let j = slow_next.fetch_add(1, Ordering::SeqCst);
				if j >= slow.len() {
					break;
				}
				let (ci, plan) = &slow[j];
				let case = &cases[*ci];
				let (sent, stream) = match render_case(case, &pool) {
					Ok(x) => x,
					Err(_) => continue, // reported by the main pass
				};
				// every pause of these plans must be one that the model allows
				for (c, g) in plan.cuts.iter().zip(plan.gaps_us.iter()) {
					if *g >= 1_500_000 && !case.silence_ok(*c) {
						sh.results.lock().unwrap().push(json!({"case": ci, "what": "render", "detail": format!("silent cut {} outside SilenceOK", c),
							"k": case.frames[0].k, "t": case.frames[0].t, "label": case.frames[0].label(), "plan": {}}));
					}
				}
				let version = if case.version > 0 { case.version } else { VERSIONS[(ci + j) % 4] };
				exec_plan(&sh, &listener, case, &sent, &stream, plan, version, false, true);
			}
		}));
	}

	// ---- the main pass: every stream under the single / multi / bytewise fragmentations
	for w in 0..threads {
		let (cases, next, sh, pool, tmp) = (cases.clone(), next.clone(), sh.clone(), pool.clone(), tmp.clone());
		let only_plan = only_plan.clone();
		hs.push(thread::spawn(move || {
			let listener = TcpListener::bind("127.0.0.1:0").expect("bind loopback");
			loop {
				let ci = next.fetch_add(1, Ordering::SeqCst);
				if ci >= cases.len() {
					break;
				}
				let case = &cases[ci];
				let mut seedb = [0u8; 32];
				seedb[..8].copy_from_slice(&seed.to_le_bytes());
				seedb[8..16].copy_from_slice(&(ci as u64).to_le_bytes());
				let mut rng: StdRng = SeedableRng::from_seed(seedb);
				// render, and check the rendering against the repository's own writer
				let mut bad_render = None;
				let rendered = render_case(case, &pool);
				if let Ok((sent, _)) = &rendered {
					for (fi, f) in case.frames.iter().enumerate() {
						if let Some(r) = real_writer_bytes(f, fi, &pool, VERSIONS[(ci + fi) % 4], &tmp) {
							sh.counters[5].fetch_add(1, Ordering::Relaxed);
							match r {
								Ok(b) if b == sent[fi].bytes => {}
								Ok(b) => {
									bad_render = Some(format!(
										"write_message produced {} bytes, model layout {} ({})",
										b.len(),
										sent[fi].bytes.len(),
										f.label()
									))
								}
								Err(e) => bad_render = Some(format!("write_message failed: {} ({})", e, f.label())),
							}
						}
					}
				}
				let (sent, stream) = match (rendered, bad_render) {
					(Ok(x), None) => x,
					(Err(e), _) | (_, Some(e)) => {
						sh.results.lock().unwrap().push(json!({"case": ci, "what": "render", "detail": e,
							"k": case.frames[0].k, "t": case.frames[0].t, "label": case.frames[0].label(), "plan": {}}));
						continue;
					}
				};
				let mut ps = plans(case, &mut rng, thorough);
				if let Some(p) = &only_plan {
					ps = vec![Plan {
						cuts: p["cuts"].as_array().unwrap().iter().map(|x| x.as_u64().unwrap() as usize).collect(),
						gaps_us: p["gaps_us"].as_array().unwrap().iter().map(|x| x.as_u64().unwrap()).collect(),
						sync: p["sync"].as_bool().unwrap_or(true),
						kind: "replay",
					}];
				}
				let mut reported = 0;
				for (pi, plan) in ps.iter().enumerate() {
					let version = match &only_plan {
						Some(p) => p["version"].as_u64().unwrap_or(1000) as u32,
						None if case.version > 0 => case.version,
						None => VERSIONS[(ci + pi) % 4],
					};
					if exec_plan(&sh, &listener, case, &sent, &stream, plan, version, corrupt && pi == 0, reported < 2) {
						reported += 1;
					}
				}
				if w == 0 && ci % 50 == 0 {
					eprintln!("case {} / {}", ci, cases.len());
				}
			}
		}));
	}
	for h in hs {
		let _ = h.join();
	}
	let mut out = NdWriter::create(args.req("out"));
	let res = sh.results.lock().unwrap();
	for r in res.iter() {
		out.put(r);
	}
	out.finish();
	let c = |i: usize| sh.counters[i].load(Ordering::Relaxed);
	let stats = json!({
		"cases": cases.len(), "runs": c(0),
		"single_split_runs": c(1),
		"multi_split_runs": c(2),
		"idle_runs": c(3),
		"timeouts_observed": c(4),
		"frames_checked_against_write_message": c(5),
		"max_single_alloc": c(6),
		"bytes_sent": c(7),
		"bodygap_runs": c(8),
		"bodygap_read_timeouts": c(9),
		"bodygap_planned": slow.iter().filter(|(_, p)| p.kind == "bodygap").count(),
		"bodygap_regions": json!(*sh.gap_groups.lock().unwrap()),
		"mismatches": res.len(),
		"void_runs_repeated": sh.voids.load(Ordering::Relaxed),
	});
	println!("{}", stats);
	0
}
