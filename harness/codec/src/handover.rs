//! CodecHandover.tla plans: a raw peer writes its handshake message (Shake / Hand) and the frames
//! that follow it, cut into writes as planned (ONE write when the plan has no cuts); the real
//! `Handshake::initiate` / `accept` reads the handshake message and the real `Codec` continues on
//! the same socket.  What the codec returns must be the frames that follow, all of them.
use crate::frames::*;
use crate::handshake::{classify, genesis, msg_bytes};
use crate::run::{compare, read_all, unread, Case, ReadOut, RunOut, VERSIONS};
use grin_core::pow::Difficulty;
use grin_core::ser::ProtocolVersion;
use grin_p2p::handshake::Handshake;
use grin_p2p::msg::{read_message, Hand, Shake, Type};
use grin_p2p::types::{Capabilities, P2PConfig, PeerAddr};
use serde_json::{json, Value};
use std::io::{Read, Write};
use std::net::{Shutdown, TcpListener, TcpStream};
use std::panic::{catch_unwind, AssertUnwindSafe};
use std::sync::atomic::AtomicBool;
use std::sync::mpsc;
use std::thread;
use std::time::{Duration, Instant};
use vcommon::*;

static MODEL_HS_SIZE: std::sync::atomic::AtomicUsize = std::sync::atomic::AtomicUsize::new(usize::MAX);

/// Off of CodecHandover.tla with the real sizes: message 0 is the handshake message.
fn resolve(cuts: &Value, sizes: &[usize]) -> Result<Vec<usize>, String> {
	// the byte-exact sweep of the model covers offsets up to its own handshake message size
	if sizes[0] > MODEL_HS_SIZE.load(std::sync::atomic::Ordering::Relaxed) {
		return Err(format!("model: handshake message of {} bytes is longer than the model's", sizes[0]));
	}
	let mut v = vec![];
	for c in cuts.as_array().ok_or("cuts")? {
		let f = c["f"].as_u64().ok_or("cut.f")? as usize;
		if f >= sizes.len() {
			return Err(format!("cut in message {} of {}", f, sizes.len()));
		}
		let start: usize = sizes[..f].iter().sum();
		let body = sizes[f] - HDR;
		let off = match c["at"].as_str().unwrap_or("") {
			"h5" => 5,
			"hdr" => HDR,
			"mid" => HDR + body / 2,
			"last" => sizes[f] - 1,
			"end" => sizes[f],
			// byte-exact split point of the model's (longest) handshake message; not realisable if
			// the real message is shorter
			"b" => {
				let k = c["k"].as_u64().ok_or("cut.k")? as usize;
				if k >= sizes[f] {
					return Err("beyond".to_string());
				}
				k
			}
			x => return Err(format!("cut place {}", x)),
		};
		v.push(start + off);
	}
	Ok(v)
}

/// Write `bytes` cut at `cuts`; between two writes wait until the reader has drained the socket.
fn write_planned(w: &mut TcpStream, probe: TcpStream, bytes: &[u8], cuts: &[usize]) -> Result<(), String> {
	w.set_nodelay(true).map_err(|e| e.to_string())?;
	let mut start = 0;
	let mut ends: Vec<usize> = cuts.iter().map(|c| (*c).min(bytes.len())).collect();
	ends.push(bytes.len());
	for (i, end) in ends.iter().enumerate() {
		if *end > start {
			w.write_all(&bytes[start..*end]).map_err(|e| format!("write: {}", e))?;
			start = *end;
		}
		if i + 1 < ends.len() {
			let t0 = Instant::now();
			while unread(&probe) > 0 && t0.elapsed() < Duration::from_secs(2) {
				thread::yield_now();
			}
			thread::sleep(Duration::from_millis(1));
		}
	}
	let _ = w.shutdown(Shutdown::Write);
	// our handle on the reader's socket must go, or that socket never closes
	drop(probe);
	// keep our end until the reader is gone
	let _ = w.set_read_timeout(Some(Duration::from_secs(20)));
	let mut buf = [0u8; 512];
	loop {
		match w.read(&mut buf) {
			Ok(0) | Err(_) => break,
			Ok(_) => {}
		}
	}
	Ok(())
}

fn no_read() -> ReadOut {
	ReadOut {
		obs: vec![],
		timeouts: 0,
		bytes_read: 0,
		max_alloc: 0,
	}
}

/// Returns (handshake outcome, what the codec read behind it, io error).
fn one(role: &str, rv: u32, follow: Vec<u8>, cuts_sym: Value, follow_sizes: Vec<usize>) -> Result<(Value, ReadOut), String> {
	let io = |e: std::io::Error| e.to_string();
	let hs = Handshake::new(genesis(true), P2PConfig::default());
	let l = TcpListener::bind("127.0.0.1:0").map_err(io)?;
	let addr = l.local_addr().map_err(io)?;
	let done = AtomicBool::new(false);
	if role == "initiate" {
		// the raw peer accepts, reads the Hand and answers Shake + what follows
		let mut conn = TcpStream::connect(addr).map_err(io)?;
		let probe = conn.try_clone().map_err(io)?;
		let peer = thread::spawn(move || -> Result<(), String> {
			let (mut s, _) = l.accept().map_err(|e| e.to_string())?;
			let _ = s.set_read_timeout(Some(Duration::from_secs(10)));
			let hand: Hand = read_message(&mut s, ProtocolVersion::local(), Type::Hand).map_err(|e| format!("{:?}", e))?;
			let shake = Shake {
				version: ProtocolVersion(rv),
				capabilities: Capabilities::UNKNOWN,
				genesis: hand.genesis,
				total_difficulty: Difficulty::min_dma(),
				user_agent: "raw".to_string(),
			};
			let mut bytes = msg_bytes(Type::Shake, shake, rv);
			let mut sizes = vec![bytes.len()];
			sizes.extend(follow_sizes);
			bytes.extend_from_slice(&follow);
			let cuts = resolve(&cuts_sym, &sizes)?;
			write_planned(&mut s, probe, &bytes, &cuts)
		});
		let r = catch_unwind(AssertUnwindSafe(|| {
			hs.initiate(
				Capabilities::UNKNOWN,
				Difficulty::min_dma(),
				PeerAddr("127.0.0.1:5000".parse().unwrap()),
				&mut conn,
			)
		}));
		let (outcome, read) = match r {
			Ok(r) => {
				let o = classify(&r);
				match r {
					Ok(pi) => (o, read_all(conn.try_clone().map_err(io)?, pi.version.value(), &done, Duration::from_secs(20))),
					Err(_) => (o, no_read()),
				}
			}
			Err(_) => (json!({"res": "panic", "version": 0}), no_read()),
		};
		drop(conn);
		peer.join().map_err(|_| "raw peer panicked".to_string())??;
		Ok((outcome, read))
	} else {
		// the raw peer dials and writes Hand + what follows
		let (tx, rx) = mpsc::channel::<TcpStream>();
		let peer = thread::spawn(move || -> Result<(), String> {
			let mut s = TcpStream::connect(addr).map_err(|e| e.to_string())?;
			let probe = rx.recv_timeout(Duration::from_secs(10)).map_err(|e| e.to_string())?;
			let hand = Hand {
				version: ProtocolVersion(rv),
				capabilities: Capabilities::UNKNOWN,
				nonce: 0x0bad_cafe_0000_0001,
				genesis: genesis(true),
				total_difficulty: Difficulty::min_dma(),
				sender_addr: PeerAddr("127.0.0.1:5001".parse().unwrap()),
				receiver_addr: PeerAddr(addr),
				user_agent: "raw".to_string(),
			};
			let mut bytes = msg_bytes(Type::Hand, hand, rv);
			let mut sizes = vec![bytes.len()];
			sizes.extend(follow_sizes);
			bytes.extend_from_slice(&follow);
			let cuts = resolve(&cuts_sym, &sizes)?;
			write_planned(&mut s, probe, &bytes, &cuts)
		});
		let (mut conn, _) = l.accept().map_err(io)?;
		tx.send(conn.try_clone().map_err(io)?).map_err(|e| e.to_string())?;
		let r = catch_unwind(AssertUnwindSafe(|| {
			hs.accept(Capabilities::UNKNOWN, Difficulty::min_dma(), &mut conn)
		}));
		let (outcome, read) = match r {
			Ok(r) => {
				let o = classify(&r);
				match r {
					Ok(pi) => (o, read_all(conn.try_clone().map_err(io)?, pi.version.value(), &done, Duration::from_secs(20))),
					Err(_) => (o, no_read()),
				}
			}
			Err(_) => (json!({"res": "panic", "version": 0}), no_read()),
		};
		drop(conn);
		peer.join().map_err(|_| "raw peer panicked".to_string())??;
		Ok((outcome, read))
	}
}

pub fn run(args: &Args) -> i32 {
	let cases = read_ndjson(args.req("cases"));
	let mut out = NdWriter::create(args.req("out"));
	let pool = Pool::mine(8);
	let (mut executed, mut coalesced, mut messages, mut beyond, mut hs_splits) = (0usize, 0usize, 0usize, 0usize, 0usize);
	for (i, c) in cases.iter().enumerate() {
		let case = Case::from_json(i, c);
		if let Some(m) = c["hs_model_size"].as_u64() {
			MODEL_HS_SIZE.store(m as usize, std::sync::atomic::Ordering::Relaxed);
		}
		let role = c["role"].as_str().unwrap_or("initiate");
		let rv = VERSIONS[i % 4];
		let sent: Vec<Sent> = case.frames.iter().enumerate().map(|(fi, f)| render(f, fi, &pool)).collect();
		let follow: Vec<u8> = sent.iter().flat_map(|s| s.bytes.iter().cloned()).collect();
		let sizes: Vec<usize> = sent.iter().map(|s| s.bytes.len()).collect();
		if follow.len() != case.total {
			out.put(&json!({"case": c, "what": "render", "detail": "layout differs from the model", "frame": 0}));
			continue;
		}
		// a run that failed for a reason of the machine (sockets) is repeated once
		let mut res = one(role, rv, follow.clone(), c["cuts"].clone(), sizes.clone());
		if res.is_err() && res.as_ref().err().map(|e| e != "beyond" && !e.starts_with("model")).unwrap_or(false) {
			res = one(role, rv, follow.clone(), c["cuts"].clone(), sizes.clone());
		}
		executed += 1;
		if c["coalesced"] == json!(true) {
			coalesced += 1;
		}
		if c["cuts"].as_array().map(|a| a.iter().any(|x| x["at"] == json!("b"))).unwrap_or(false) {
			hs_splits += 1;
		}
		let (outcome, read) = match res {
			Ok(x) => x,
			Err(e) if e == "beyond" => {
				executed -= 1;
				beyond += 1;
				continue;
			}
			Err(e) => {
				out.put(&json!({"case": c, "what": "io", "detail": e, "frame": 0}));
				continue;
			}
		};
		let expected_version = rv.min(ProtocolVersion::local().value());
		if outcome["res"] != json!("ok") || outcome["version"] != json!(expected_version) {
			out.put(&json!({"case": c, "what": "handshake_failed", "frame": 0,
				"detail": format!("{} returned {} (peer version {})", role, outcome, rv)}));
			continue;
		}
		messages += read.obs.len().saturating_sub(1);
		let observed: Vec<Value> = read.obs.iter().map(|o| o.brief()).collect();
		let ro = RunOut {
			read,
			leftover: vec![],
			io_error: None,
			max_gap_ms: 0,
		};
		if let Some(m) = compare(&case, &sent, &follow, &ro) {
			out.put(&json!({"case": c, "what": m.what, "detail": m.detail, "frame": m.fi, "peer_version": rv,
				"observed": observed, "read_timeouts": ro.read.timeouts}));
		}
	}
	let n = out.n;
	out.finish();
	println!(
		"{}",
		json!({"executed": executed, "coalesced_plans": coalesced, "not_realisable": beyond, "handshake_message_split_points": hs_splits, "results_read_behind_handshakes": messages, "mismatches": n})
	);
	0
}
