//! Frames of kind "built" of Codec.tla: messages whose wire form depends on the protocol version
//! (transactions, blocks, compact blocks, PMMR segment responses).  The objects are built once per
//! process with the node's own constructors (libtx, Block::new, CompactBlock::from,
//! Segment::from_parts) for the composition the model names, serialised with `Msg::new` at the
//! version of the connection and compared by a digest of their canonical (version 1000) form.
use crate::frames::hex;
use grin_core::core::hash::Hash;
use grin_core::core::transaction::{self, NRDRelativeHeight};
use grin_core::core::transaction::{CommitWrapper, Input, Inputs, OutputFeatures};
use grin_core::core::{
	Block, BlockHeader, CompactBlock, FeeFields, KernelFeatures, OutputIdentifier, Segment, SegmentIdentifier,
	SegmentProof, Transaction, TxKernel,
};
use grin_core::global;
use grin_core::libtx::{build, reward, ProofBuilder};
use grin_core::pow::{self, Difficulty};
use grin_core::ser::{self, ProtocolVersion, Writeable};
use grin_keychain::{ExtKeychain, ExtKeychainPath, Keychain};
use grin_chain::txhashset::BitmapChunk;
use grin_p2p::msg::{Msg, OutputBitmapSegmentResponse, OutputSegmentResponse, SegmentResponse, Type};
use grin_util::secp::pedersen::RangeProof;
use serde_json::Value;
use std::sync::OnceLock;

pub struct Objects {
	pub tx1: Transaction,
	pub tx3: Transaction,
	pub block1: Block,
	pub cblock1: CompactBlock,
	pub kernels: Vec<TxKernel>,
	pub proofs: Vec<RangeProof>,
	pub outputs: Vec<OutputIdentifier>,
}

static OBJECTS: OnceLock<Objects> = OnceLock::new();

fn kid(n: u32) -> grin_keychain::Identifier {
	ExtKeychainPath::new(2, 19, n, 0, 0).to_identifier()
}

fn one_kernel_tx(kc: &ExtKeychain, n: u32, features: KernelFeatures) -> Transaction {
	let pb = ProofBuilder::new(kc);
	build::transaction(
		features,
		&[build::input(1_000_000 + n as u64, kid(10 + n)), build::output(900_000, kid(20 + n))],
		kc,
		&pb,
	)
	.expect("build tx")
}

/// Inputs that know the features of the outputs they spend: the form a node relays to peers below
/// protocol version 3 (bare commitments cannot be written for them); written as bare
/// commitments from version 3 on.
fn with_input_features(inputs: &Inputs) -> Inputs {
	let commits: Vec<CommitWrapper> = inputs.into();
	let mut v: Vec<Input> = commits.iter().map(|c| Input::new(OutputFeatures::Plain, c.commitment())).collect();
	v.sort_unstable();
	Inputs::from(&v[..])
}

pub fn objects() -> &'static Objects {
	OBJECTS.get_or_init(|| {
		let kc = ExtKeychain::from_seed(&[19u8; 32], false).unwrap();
		let pb = ProofBuilder::new(&kc);
		let fee = |n: u64| FeeFields::new(0, 100_000 + n).unwrap();
		let plain = one_kernel_tx(&kc, 1, KernelFeatures::Plain { fee: fee(1) });
		let hl = one_kernel_tx(
			&kc,
			2,
			KernelFeatures::HeightLocked {
				fee: fee(2),
				lock_height: 77,
			},
		);
		let nrd = one_kernel_tx(
			&kc,
			3,
			KernelFeatures::NoRecentDuplicate {
				fee: fee(3),
				relative_height: NRDRelativeHeight::new(1440).unwrap(),
			},
		);
		let mut tx3 = transaction::aggregate(&[plain.clone(), hl.clone(), nrd.clone()]).expect("aggregate");
		tx3.body.inputs = with_input_features(&tx3.body.inputs);
		let mut tx1 = plain.clone();
		tx1.body.inputs = with_input_features(&tx1.body.inputs);
		// a block at height 1 (header version 1 here) with the coinbase and tx1, really mined
		let prev = BlockHeader::default();
		let rw = reward::output(&kc, &pb, &kid(1), tx1.fee(), false).expect("reward");
		let mut block1 = Block::new(&prev, &[tx1.clone()], Difficulty::min_dma(), rw).expect("block");
		pow::pow_size(
			&mut block1.header,
			Difficulty::min_dma(),
			global::proofsize(),
			global::min_edge_bits(),
		)
		.expect("mine block");
		block1.body.inputs = with_input_features(&block1.body.inputs);
		let cblock1: CompactBlock = block1.clone().into();
		let mut kernels: Vec<TxKernel> = tx3.kernels().to_vec();
		kernels.extend(block1.kernels().iter().filter(|k| k.is_coinbase()).cloned());
		let proofs: Vec<RangeProof> = tx3.outputs().iter().map(|o| o.proof).collect();
		let outputs: Vec<OutputIdentifier> = tx3.outputs().iter().map(|o| o.identifier()).collect();
		Objects {
			tx1,
			tx3,
			block1,
			cblock1,
			kernels,
			proofs,
			outputs,
		}
	})
}

fn hash_n(n: u8) -> Hash {
	Hash::from_vec(&[n; 32])
}

/// A segment proof of n hashes (its constructor is private: through its own reader).
fn seg_proof(n: usize) -> SegmentProof {
	let mut b = (n as u64).to_be_bytes().to_vec();
	for i in 0..n {
		b.extend_from_slice(hash_n(0xa0 + i as u8).as_bytes());
	}
	ser::deserialize(&mut &b[..], ProtocolVersion(1), ser::DeserializationMode::default()).expect("segment proof")
}

fn segment<T>(nh: usize, leaves: Vec<T>, np: usize) -> Segment<T> {
	let nl = leaves.len() as u64;
	Segment::from_parts(
		SegmentIdentifier { height: 3, idx: 1 },
		(0..nh as u64).map(|i| 100 + 2 * i).collect(),
		(0..nh).map(|i| hash_n(0x40 + i as u8)).collect(),
		(0..nl).map(|i| 8 + 3 * i).collect(),
		leaves,
		seg_proof(np),
	)
}

/// kernels in the order the model lists their features
fn kernels_of(o: &Value) -> Result<Vec<TxKernel>, String> {
	let ob = objects();
	let mut v = vec![];
	for k in o["kern"].as_array().ok_or("obj.kern")? {
		let want = k.as_str().unwrap_or("");
		let found = ob.kernels.iter().find(|x| match (want, &x.features) {
			("plain", KernelFeatures::Plain { .. }) => true,
			("coinbase", KernelFeatures::Coinbase) => true,
			("heightlocked", KernelFeatures::HeightLocked { .. }) => true,
			("nrd", KernelFeatures::NoRecentDuplicate { .. }) => true,
			_ => false,
		});
		v.push(found.ok_or(format!("no kernel with features {}", want))?.clone());
	}
	Ok(v)
}

fn n(o: &Value, k: &str) -> usize {
	o[k].as_u64().unwrap_or(0) as usize
}

fn fnv(b: &[u8]) -> String {
	let mut h: u64 = 0xcbf29ce484222325;
	for x in b {
		h ^= *x as u64;
		h = h.wrapping_mul(0x100000001b3);
	}
	format!("{}:{:016x}:{}", b.len(), h, hex(&b[..b.len().min(8)]))
}

/// Digest of the canonical form of a message content.
pub fn digest_of<W: Writeable>(w: &W) -> String {
	match ser::ser_vec(w, ProtocolVersion(1000)) {
		Ok(b) => fnv(&b),
		Err(e) => format!("unserialisable:{:?}", e),
	}
}

fn check_tx(o: &Value, tx: &Transaction) -> Result<(), String> {
	if tx.inputs().len() != n(o, "nin") || tx.outputs().len() != n(o, "nout") || tx.kernels().len() != o["kern"].as_array().map(|a| a.len()).unwrap_or(0) {
		return Err(format!("the built transaction does not have the composition {}", o));
	}
	Ok(())
}

/// The frame of type `t` carrying the object of composition `o`, serialised by `Msg::new` at
/// `version`: (Msg, digest of the content).
pub fn built_msg(t: u8, o: &Value, version: u32) -> Result<(Msg, String), String> {
	let ob = objects();
	let v = ProtocolVersion(version);
	let e = |x: grin_p2p::Error| format!("Msg::new: {:?}", x);
	let kind = o["kind"].as_str().unwrap_or("");
	match (kind, t) {
		("tx", 14) | ("tx", 15) => {
			let tx = if n(o, "nin") == 1 { &ob.tx1 } else { &ob.tx3 };
			check_tx(o, tx)?;
			let ty = if t == 14 { Type::StemTransaction } else { Type::Transaction };
			Ok((Msg::new(ty, tx, v).map_err(e)?, digest_of(tx)))
		}
		("block", 11) => {
			let b = &ob.block1;
			if b.inputs().len() != n(o, "nin") || b.outputs().len() != n(o, "nout") || b.kernels().len() != 2 {
				return Err(format!("the built block does not have the composition {}", o));
			}
			Ok((Msg::new(Type::Block, b, v).map_err(e)?, digest_of(b)))
		}
		("cblock", 13) => {
			let cb = &ob.cblock1;
			if cb.out_full().len() != n(o, "nout") || cb.kern_full().len() != 1 || cb.kern_ids().len() != n(o, "ids") {
				return Err(format!("the built compact block does not have the composition {}", o));
			}
			Ok((Msg::new(Type::CompactBlock, cb, v).map_err(e)?, digest_of(cb)))
		}
		("kseg", 28) => {
			let ks = kernels_of(o)?;
			if ks.len() != n(o, "nl") {
				return Err("kseg: nl differs from the kernels listed".into());
			}
			let r = SegmentResponse {
				block_hash: hash_n(0x71),
				segment: segment(n(o, "nh"), ks, n(o, "np")),
			};
			let d = digest_of(&r);
			Ok((Msg::new(Type::KernelSegment, r, v).map_err(e)?, d))
		}
		("rseg", 26) => {
			let leaves: Vec<RangeProof> = ob.proofs.iter().cloned().take(n(o, "nl")).collect();
			if leaves.len() != n(o, "nl") {
				return Err("rseg: not enough proofs".into());
			}
			let r = SegmentResponse {
				block_hash: hash_n(0x72),
				segment: segment(n(o, "nh"), leaves, n(o, "np")),
			};
			let d = digest_of(&r);
			Ok((Msg::new(Type::RangeProofSegment, r, v).map_err(e)?, d))
		}
		("oseg", 24) => {
			let leaves: Vec<OutputIdentifier> = ob.outputs.iter().cloned().take(n(o, "nl")).collect();
			if leaves.len() != n(o, "nl") {
				return Err("oseg: not enough outputs".into());
			}
			let r = OutputSegmentResponse {
				response: SegmentResponse {
					block_hash: hash_n(0x73),
					segment: segment(n(o, "nh"), leaves, n(o, "np")),
				},
				output_bitmap_root: hash_n(0x74),
			};
			let d = digest_of(&r);
			Ok((Msg::new(Type::OutputSegment, r, v).map_err(e)?, d))
		}
		("bseg", 22) => {
			// one block of `nl` chunks with `ids` bits set
			let mut chunks: Vec<BitmapChunk> = (0..n(o, "nl")).map(|_| BitmapChunk::new()).collect();
			if chunks.is_empty() {
				return Err("bseg: no chunk".into());
			}
			let nc = chunks.len();
			for i in 0..n(o, "ids") {
				chunks[i % nc].set(17 + 97 * (i as u64 / nc as u64), true);
			}
			let seg: Segment<BitmapChunk> = Segment::from_parts(
				SegmentIdentifier { height: 3, idx: 0 },
				vec![],
				vec![],
				(0..nc as u64).collect(),
				chunks,
				seg_proof(n(o, "np")),
			);
			let r = OutputBitmapSegmentResponse {
				block_hash: hash_n(0x75),
				segment: seg.into(),
				output_root: hash_n(0x76),
			};
			let d = digest_of(&r);
			Ok((Msg::new(Type::OutputBitmapSegment, r, v).map_err(e)?, d))
		}
		_ => Err(format!("no builder for object kind {:?} in a frame of type {}", kind, t)),
	}
}
