//! CodecPeer.tla scenarios on a real `Peer`: `Peer::accept` / `Peer::connect` run the handshake
//! with a raw peer of protocol version rv and start the real reader / writer threads
//! (`conn::listen`); the raw peer writes its messages serialised with the negotiated version and
//! reads with the real `Codec` of that version.  What reaches the node's NetAdapter and what the
//! raw peer decodes are compared with the sequences the model lists.
use crate::frames::{describe, hex, hx, Pool};
use crate::handshake::{genesis, msg_bytes};
use crate::objects::{digest_of, objects};
use chrono::prelude::{DateTime, Utc};
use grin_chain as chain;
use grin_chain::txhashset::BitmapChunk;
use grin_core::core::hash::{Hash, Hashed};
use grin_core::core::{self, OutputIdentifier, Segment, SegmentIdentifier, TxKernel};
use grin_core::pow::Difficulty;
use grin_core::ser::ProtocolVersion;
use grin_p2p::handshake::Handshake;
use grin_p2p::msg::{read_message, GetPeerAddrs, Hand, Locator, Message, Ping, Shake, Type};
use grin_p2p::types::{Capabilities, NetAdapter, P2PConfig, PeerAddr, PeerInfo, TxHashSetRead};
use grin_p2p::verif_export::Codec;
use grin_p2p::{ChainAdapter, Error, Peer};
use grin_util::secp::pedersen::RangeProof;
use serde_json::{json, Value};
use std::fs::File;
use std::io::{ErrorKind, Write};
use std::net::{Shutdown, TcpListener, TcpStream};
use std::panic::{catch_unwind, AssertUnwindSafe};
use std::path::PathBuf;
use std::sync::atomic::{AtomicBool, Ordering};
use std::sync::{Arc, Mutex};
use std::thread;
use std::time::{Duration, Instant};
use vcommon::*;

const NODE_DIFF: u64 = 4242;
const NODE_HEIGHT: u64 = 17;

type Log = Arc<Mutex<Vec<(String, String)>>>;

/// The node's NetAdapter: records what the Protocol handler hands over, answers requests with the
/// fixed objects.
struct Recorder {
	log: Log,
	pool: Arc<Pool>,
}

impl Recorder {
	fn put(&self, name: &str, digest: String) {
		self.log.lock().unwrap().push((name.to_string(), digest));
	}
}

fn located(pool: &Pool) -> Vec<core::BlockHeader> {
	// 33 headers of three different sizes: two batches on the receiving side
	(0..33).map(|j| pool.headers[pool.pick(257 + j % 3, 3, j)].clone()).collect()
}

fn addrs() -> Vec<PeerAddr> {
	vec![
		PeerAddr("10.1.2.3:3414".parse().unwrap()),
		PeerAddr("[2001:db8::7]:13414".parse().unwrap()),
		PeerAddr("192.168.7.9:3414".parse().unwrap()),
	]
}

fn locator() -> Vec<Hash> {
	vec![Hash::from_vec(&[0x31; 32]), Hash::from_vec(&[0x32; 32])]
}

fn join_hashes(v: &[Hash]) -> String {
	v.iter().map(hx).collect::<Vec<_>>().join(",")
}

impl ChainAdapter for Recorder {
	fn total_difficulty(&self) -> Result<Difficulty, chain::Error> {
		Ok(Difficulty::from_num(NODE_DIFF))
	}
	fn total_height(&self) -> Result<u64, chain::Error> {
		Ok(NODE_HEIGHT)
	}
	fn get_transaction(&self, h: Hash) -> Option<core::Transaction> {
		self.put("gettx", hx(&h));
		Some(objects().tx3.clone())
	}
	fn tx_kernel_received(&self, h: Hash, _: &PeerInfo) -> Result<bool, chain::Error> {
		self.put("txkernel", hx(&h));
		Ok(true)
	}
	fn transaction_received(&self, tx: core::Transaction, stem: bool) -> Result<bool, chain::Error> {
		self.put(if stem { "stemtx" } else { "tx" }, digest_of(&tx));
		Ok(true)
	}
	fn compact_block_received(&self, cb: core::CompactBlock, _: &PeerInfo) -> Result<bool, chain::Error> {
		self.put("cblock", digest_of(&cb));
		Ok(true)
	}
	fn header_received(&self, bh: core::BlockHeader, _: &PeerInfo) -> Result<bool, chain::Error> {
		self.put("header", hx(&bh.hash()));
		Ok(true)
	}
	fn block_received(&self, b: core::Block, _: &PeerInfo, _: chain::Options) -> Result<bool, chain::Error> {
		self.put("block", digest_of(&b));
		Ok(true)
	}
	fn headers_received(&self, hs: &[core::BlockHeader], _: &PeerInfo) -> Result<bool, chain::Error> {
		self.put("headers", join_hashes(&hs.iter().map(|h| h.hash()).collect::<Vec<_>>()));
		Ok(true)
	}
	fn locate_headers(&self, loc: &[Hash]) -> Result<Vec<core::BlockHeader>, chain::Error> {
		self.put("getheaders", join_hashes(loc));
		Ok(located(&self.pool))
	}
	fn get_block(&self, h: Hash, _: &PeerInfo) -> Option<core::Block> {
		self.put("getblock", hx(&h));
		Some(objects().block1.clone())
	}
	fn txhashset_read(&self, _h: Hash) -> Option<TxHashSetRead> {
		None
	}
	fn txhashset_archive_header(&self) -> Result<core::BlockHeader, chain::Error> {
		Err(chain::Error::Other("no archive".into()))
	}
	fn txhashset_receive_ready(&self) -> bool {
		false
	}
	fn txhashset_write(&self, _h: Hash, _f: File, _: &PeerInfo) -> Result<bool, chain::Error> {
		Ok(false)
	}
	fn txhashset_download_update(&self, _: DateTime<Utc>, _: u64, _: u64) -> bool {
		false
	}
	fn get_tmp_dir(&self) -> PathBuf {
		PathBuf::from("/nonexistent")
	}
	fn get_tmpfile_pathname(&self, n: String) -> PathBuf {
		PathBuf::from("/nonexistent").join(n)
	}
	fn get_kernel_segment(&self, _: Hash, _: SegmentIdentifier) -> Result<Segment<TxKernel>, chain::Error> {
		Err(chain::Error::Other("no segment".into()))
	}
	fn get_bitmap_segment(&self, _: Hash, _: SegmentIdentifier) -> Result<(Segment<BitmapChunk>, Hash), chain::Error> {
		Err(chain::Error::Other("no segment".into()))
	}
	fn get_output_segment(&self, _: Hash, _: SegmentIdentifier) -> Result<(Segment<OutputIdentifier>, Hash), chain::Error> {
		Err(chain::Error::Other("no segment".into()))
	}
	fn get_rangeproof_segment(&self, _: Hash, _: SegmentIdentifier) -> Result<Segment<RangeProof>, chain::Error> {
		Err(chain::Error::Other("no segment".into()))
	}
	fn receive_bitmap_segment(&self, _: Hash, _: Hash, _: Segment<BitmapChunk>) -> Result<bool, chain::Error> {
		Ok(false)
	}
	fn receive_output_segment(&self, _: Hash, _: Hash, _: Segment<OutputIdentifier>) -> Result<bool, chain::Error> {
		Ok(false)
	}
	fn receive_rangeproof_segment(&self, _: Hash, _: Segment<RangeProof>) -> Result<bool, chain::Error> {
		Ok(false)
	}
	fn receive_kernel_segment(&self, _: Hash, _: Segment<TxKernel>) -> Result<bool, chain::Error> {
		Ok(false)
	}
}

impl NetAdapter for Recorder {
	fn find_peer_addrs(&self, c: Capabilities) -> Vec<PeerAddr> {
		self.put("getpeers", format!("{}", c.bits()));
		addrs()
	}
	fn peer_addrs_received(&self, v: Vec<PeerAddr>) {
		self.put("peeraddrs", v.iter().map(|a| format!("{}", a.0)).collect::<Vec<_>>().join(","));
	}
	fn peer_difficulty(&self, _: PeerAddr, d: Difficulty, h: u64) {
		self.put("ping", format!("{}:{}", d.to_num(), h));
	}
	fn is_banned(&self, _: PeerAddr) -> bool {
		false
	}
}

const GETTX_HASH: u8 = 0x51;
const GETBLOCK_HASH: u8 = 0x52;

/// The bytes the raw peer writes for the inbound message `name`, and what the node's adapter must
/// record for it.
fn inbound(name: &str, k: usize, nv: u32, pool: &Pool) -> Result<(Vec<u8>, String), String> {
	let ob = objects();
	Ok(match name {
		"ping" => {
			let (d, h) = (900 + k as u64, 50 + k as u64);
			(
				msg_bytes(
					Type::Ping,
					Ping {
						total_difficulty: Difficulty::from_num(d),
						height: h,
					},
					nv,
				),
				format!("{}:{}", d, h),
			)
		}
		"tx" => (msg_bytes(Type::Transaction, &ob.tx3, nv), digest_of(&ob.tx3)),
		"stemtx" => (msg_bytes(Type::StemTransaction, &ob.tx3, nv), digest_of(&ob.tx3)),
		"getpeers" => {
			let c = Capabilities::PEER_LIST;
			(msg_bytes(Type::GetPeerAddrs, GetPeerAddrs { capabilities: c }, nv), format!("{}", c.bits()))
		}
		"gettx" => {
			let h = Hash::from_vec(&[GETTX_HASH; 32]);
			(msg_bytes(Type::GetTransaction, h, nv), hx(&h))
		}
		"getblock" => {
			let h = Hash::from_vec(&[GETBLOCK_HASH; 32]);
			(msg_bytes(Type::GetBlock, h, nv), hx(&h))
		}
		"getheaders" => (msg_bytes(Type::GetHeaders, Locator { hashes: locator() }, nv), join_hashes(&locator())),
		"header" => {
			let i = pool.pick(258, 1, 0);
			(msg_bytes(Type::Header, &pool.headers[i], nv), pool.hashes[i].clone())
		}
		"cblock" => (msg_bytes(Type::CompactBlock, &ob.cblock1, nv), digest_of(&ob.cblock1)),
		"block" => (msg_bytes(Type::Block, &ob.block1, nv), digest_of(&ob.block1)),
		x => return Err(format!("no inbound message {}", x)),
	})
}

/// (type number, digest) the raw peer must decode for the message `name` coming from the node.
fn outbound_expect(name: &str, pool: &Pool) -> Result<(u8, String), String> {
	let ob = objects();
	Ok(match name {
		"pong" => (4, format!("{}:{}", NODE_DIFF, NODE_HEIGHT)),
		"peeraddrs" => (6, addrs().iter().map(|a| format!("{}", a.0)).collect::<Vec<_>>().join(",")),
		"tx" => (15, digest_of(&ob.tx3)),
		"block" => (11, digest_of(&ob.block1)),
		"headers" => (9, join_hashes(&located(pool).iter().map(|h| h.hash()).collect::<Vec<_>>())),
		"ping" => (3, format!("{}:{}", NODE_DIFF + 1, NODE_HEIGHT + 1)),
		"stemtx" => (14, digest_of(&ob.tx3)),
		"header" => (8, pool.hashes[pool.pick(259, 2, 0)].clone()),
		"cblock" => (13, digest_of(&ob.cblock1)),
		"getheaders" => (7, join_hashes(&locator())),
		x => return Err(format!("no outbound message {}", x)),
	})
}

fn node_send(peer: &Peer, name: &str, pool: &Pool) -> Result<(), String> {
	let ob = objects();
	let r = match name {
		"ping" => peer.send_ping(Difficulty::from_num(NODE_DIFF + 1), NODE_HEIGHT + 1),
		"stemtx" => peer.send_stem_transaction(&ob.tx3),
		"header" => peer.send_header(&pool.headers[pool.pick(259, 2, 0)]).map(|_| ()),
		"cblock" => peer.send_compact_block(&ob.cblock1).map(|_| ()),
		"getheaders" => peer.send_header_request(locator()),
		x => return Err(format!("no Peer::send_ for {}", x)),
	};
	r.map_err(|e| format!("Peer::send_{}: {:?}", name, e))
}

/// The raw peer's reader: the real Codec at the negotiated version; header batches of one list merged.
fn remote_reader(s: TcpStream, nv: u32, stop: Arc<AtomicBool>, got: Log) {
	let _ = catch_unwind(AssertUnwindSafe(|| {
		let mut codec = Codec::new(ProtocolVersion(nv), s);
		let mut batch: Vec<Hash> = vec![];
		loop {
			let (res, _) = codec.read();
			match res {
				Ok(Message::Headers(d)) => {
					batch.extend(d.headers.iter().map(|h| h.hash()));
					if d.remaining == 0 {
						got.lock().unwrap().push(("9".into(), join_hashes(&batch)));
						batch.clear();
					}
				}
				Ok(m) => {
					let (t, _, digest) = describe(m);
					got.lock().unwrap().push((format!("{}", t), digest));
				}
				Err(Error::Connection(ref e)) if e.kind() == ErrorKind::TimedOut || e.kind() == ErrorKind::WouldBlock => {
					if stop.load(Ordering::SeqCst) {
						break;
					}
				}
				Err(Error::Connection(ref e)) if e.kind() == ErrorKind::UnexpectedEof => break,
				Err(e) => {
					got.lock().unwrap().push(("garbled".into(), format!("{:?}", e)));
					break;
				}
			}
			if stop.load(Ordering::SeqCst) {
				break;
			}
		}
	}));
}

fn one(c: &Value, pool: Arc<Pool>, corrupt: bool) -> Result<Option<Value>, String> {
	let io = |e: std::io::Error| e.to_string();
	let role = c["role"].as_str().unwrap_or("accept").to_string();
	let rv = c["rv"].as_u64().unwrap_or(1000) as u32;
	let nv_model = c["nv"].as_u64().unwrap_or(0) as u32;
	let hs = Handshake::new(genesis(true), P2PConfig::default());
	let l = TcpListener::bind("127.0.0.1:0").map_err(io)?;
	let addr = l.local_addr().map_err(io)?;
	let log: Log = Arc::new(Mutex::new(vec![]));
	let adapter = Arc::new(Recorder {
		log: log.clone(),
		pool: pool.clone(),
	});
	// the remote peer knows the wire forms up to its own version and the node's
	let wire_v = rv.min(1000);
	// ---- handshake: the node through Peer::accept / Peer::connect, the raw peer by hand
	let (peer, mut remote): (Peer, TcpStream) = if role == "accept" {
		let raw = thread::spawn(move || -> Result<(TcpStream, u32), String> {
			let mut s = TcpStream::connect(addr).map_err(|e| e.to_string())?;
			s.set_nodelay(true).map_err(|e| e.to_string())?;
			let hand = Hand {
				version: ProtocolVersion(rv),
				capabilities: Capabilities::UNKNOWN,
				nonce: 0x0bad_cafe_0000_0002,
				genesis: genesis(true),
				total_difficulty: Difficulty::min_dma(),
				sender_addr: PeerAddr("127.0.0.1:5001".parse().unwrap()),
				receiver_addr: PeerAddr(addr),
				user_agent: "raw".to_string(),
			};
			s.write_all(&msg_bytes(Type::Hand, hand, wire_v)).map_err(|e| e.to_string())?;
			let _ = s.set_read_timeout(Some(Duration::from_secs(10)));
			let sh: Shake = read_message(&mut s, ProtocolVersion(wire_v), Type::Shake).map_err(|e| format!("no Shake: {:?}", e))?;
			Ok((s, sh.version.value()))
		});
		let (conn, _) = l.accept().map_err(io)?;
		let p = Peer::accept(conn, Capabilities::UNKNOWN, Difficulty::min_dma(), &hs, adapter.clone());
		let (s, _their) = raw.join().map_err(|_| "raw peer panicked".to_string())??;
		(p.map_err(|e| format!("Peer::accept: {:?}", e))?, s)
	} else {
		let raw = thread::spawn(move || -> Result<TcpStream, String> {
			let (mut s, _) = l.accept().map_err(|e| e.to_string())?;
			s.set_nodelay(true).map_err(|e| e.to_string())?;
			let _ = s.set_read_timeout(Some(Duration::from_secs(10)));
			let hand: Hand = read_message(&mut s, ProtocolVersion(wire_v), Type::Hand).map_err(|e| format!("no Hand: {:?}", e))?;
			let shake = Shake {
				version: ProtocolVersion(rv),
				capabilities: Capabilities::UNKNOWN,
				genesis: hand.genesis,
				total_difficulty: Difficulty::min_dma(),
				user_agent: "raw".to_string(),
			};
			s.write_all(&msg_bytes(Type::Shake, shake, wire_v)).map_err(|e| e.to_string())?;
			Ok(s)
		});
		let conn = TcpStream::connect(addr).map_err(io)?;
		let p = Peer::connect(
			conn,
			Capabilities::UNKNOWN,
			Difficulty::min_dma(),
			PeerAddr("127.0.0.1:5000".parse().unwrap()),
			&hs,
			adapter.clone(),
		);
		let s = raw.join().map_err(|_| "raw peer panicked".to_string())??;
		(p.map_err(|e| format!("Peer::connect: {:?}", e))?, s)
	};
	let mut bad: Option<(String, String, String)> = None; // (what, message name, detail)
	let nv = peer.info.version.value();
	if nv != nv_model {
		bad = Some(("version".into(), "handshake".into(), format!("PeerInfo.version {} , the model negotiates {}", nv, nv_model)));
	}
	// ---- the connection: the raw peer writes with the negotiated version and reads with the real Codec
	let stop = Arc::new(AtomicBool::new(false));
	let got: Log = Arc::new(Mutex::new(vec![]));
	let rd = {
		let (s2, stop2, got2) = (remote.try_clone().map_err(io)?, stop.clone(), got.clone());
		// self-test of the comparison: the raw peer decodes with a version of another wire form
		let reader_v = if !corrupt {
			nv_model
		} else if nv_model <= 2 {
			1000
		} else {
			1
		};
		thread::spawn(move || remote_reader(s2, reader_v, stop2, got2))
	};
	let ops = c["ops"].as_array().cloned().unwrap_or_default();
	let mut exp_handed: Vec<(String, String)> = vec![];
	for (k, op) in ops.iter().enumerate() {
		let (dir, name) = (op[0].as_str().unwrap_or(""), op[1].as_str().unwrap_or(""));
		if dir == "in" {
			let (bytes, digest) = inbound(name, k, nv_model, &pool)?;
			exp_handed.push((name.to_string(), digest));
			if let Err(e) = remote.write_all(&bytes) {
				bad = bad.or(Some(("closed".into(), name.into(), format!("the node closed the connection: {}", e))));
				break;
			}
		} else {
			node_send(&peer, name, &pool)?;
		}
	}
	let names = |v: &Value| -> Vec<String> { v.as_array().map(|a| a.iter().map(|x| x.as_str().unwrap_or("").to_string()).collect()).unwrap_or_default() };
	let (answers, sends) = (names(&c["answers"]), names(&c["sends"]));
	if names(&c["handed"]) != exp_handed.iter().map(|x| x.0.clone()).collect::<Vec<_>>() && bad.is_none() {
		return Err("the scenario's `handed` is not its inbound messages".into());
	}
	// quiescence: everything expected has arrived (or 12 s), then a moment for what must NOT arrive
	let t0 = Instant::now();
	while t0.elapsed() < Duration::from_secs(12) {
		let (h, g) = (log.lock().unwrap().len(), got.lock().unwrap().len());
		let garbled = got.lock().unwrap().iter().any(|x| x.0 == "garbled");
		if (h >= exp_handed.len() && g >= answers.len() + sends.len()) || garbled || !peer.is_connected() {
			break;
		}
		thread::sleep(Duration::from_millis(10));
	}
	thread::sleep(Duration::from_millis(450));
	stop.store(true, Ordering::SeqCst);
	let handed = log.lock().unwrap().clone();
	let got_v = got.lock().unwrap().clone();
	// ---- node side: what reached the adapter is what was written, in order
	if bad.is_none() {
		for (i, e) in exp_handed.iter().enumerate() {
			match handed.get(i) {
				None => {
					bad = Some(("lost".into(), e.0.clone(), format!("inbound message #{} ({}) never reached the adapter; it got {:?}", i + 1, e.0, handed.iter().map(|x| x.0.clone()).collect::<Vec<_>>())));
					break;
				}
				Some(h) if h.0 != e.0 => {
					bad = Some(("type".into(), e.0.clone(), format!("inbound message #{} written as {} reached the adapter as {}", i + 1, e.0, h.0)));
					break;
				}
				Some(h) if h.1 != e.1 => {
					bad = Some(("content".into(), e.0.clone(), format!("inbound {} reached the adapter with other content ({} / {})", e.0, h.1, e.1)));
					break;
				}
				_ => {}
			}
		}
		if bad.is_none() && handed.len() > exp_handed.len() {
			let x = &handed[exp_handed.len()];
			bad = Some(("spurious".into(), x.0.clone(), format!("the adapter got {} more event(s), first {}", handed.len() - exp_handed.len(), x.0)));
		}
	}
	// ---- remote side: answers in request order, own sends in call order, each exactly once
	if bad.is_none() {
		let mut exp_a = vec![];
		for n in &answers {
			exp_a.push((n.clone(), outbound_expect(n, &pool)?));
		}
		let mut exp_s = vec![];
		for n in &sends {
			exp_s.push((n.clone(), outbound_expect(n, &pool)?));
		}
		let a_types: Vec<String> = ["pong", "peeraddrs", "tx", "block", "headers"].iter().map(|n| format!("{}", outbound_expect(n, &pool).unwrap().0)).collect();
		let (mut ia, mut is) = (0usize, 0usize);
		for g in got_v.iter() {
			if g.0 == "garbled" {
				bad = Some(("garbled".into(), "read".into(), format!("the raw peer's codec (version {}) failed after {} message(s): {}", nv_model, ia + is, g.1)));
				break;
			}
			let is_answer = a_types.contains(&g.0);
			let (exp, idx, what) = if is_answer { (&exp_a, &mut ia, "answer") } else { (&exp_s, &mut is, "send") };
			match exp.get(*idx) {
				None => {
					bad = Some(("duplicate".into(), format!("t{}", g.0), format!("the raw peer read an unexpected {} of type {} after all {} expected ones (written more than once?)", what, g.0, exp.len())));
					break;
				}
				Some((n, (t, d))) => {
					if format!("{}", t) != g.0 {
						bad = Some(("type".into(), n.clone(), format!("{} #{}: {} (type {}) expected, type {} read", what, *idx + 1, n, t, g.0)));
						break;
					}
					if *d != g.1 {
						bad = Some(("content".into(), n.clone(), format!("{} {} read with other content by a version {} codec ({} / {})", what, n, nv_model, &g.1[..g.1.len().min(60)], &d[..d.len().min(60)])));
						break;
					}
				}
			}
			*idx += 1;
		}
		if bad.is_none() && (ia < exp_a.len() || is < exp_s.len()) {
			let n = if ia < exp_a.len() { exp_a[ia].0.clone() } else { exp_s[is].0.clone() };
			bad = Some(("lost".into(), n.clone(), format!("{} of {} answers and {} of {} own messages arrived; missing {}", ia, exp_a.len(), is, exp_s.len(), n)));
		}
	}
	peer.stop();
	let _ = remote.shutdown(Shutdown::Both);
	let _ = rd.join();
	peer.wait();
	Ok(bad.map(|(what, name, detail)| {
		json!({"case": c, "what": what, "name": name, "detail": detail,
			"handed": handed.iter().map(|x| x.0.clone()).collect::<Vec<_>>(),
			"got": got_v.iter().map(|x| x.0.clone()).collect::<Vec<_>>()})
	}))
}

pub fn run(args: &Args) -> i32 {
	let cases = read_ndjson(args.req("cases"));
	let corrupt = args.get("corrupt").is_some();
	let pool = Arc::new(Pool::mine(8));
	let _ = objects();
	let _ = hex(&[]);
	let results: Arc<Mutex<Vec<(usize, Result<Option<Value>, String>)>>> = Arc::new(Mutex::new(vec![]));
	let cases = Arc::new(cases);
	let next = Arc::new(std::sync::atomic::AtomicUsize::new(0));
	let mut hs = vec![];
	for _ in 0..cases.len().min(48) {
		let (cases, next, results, pool) = (cases.clone(), next.clone(), results.clone(), pool.clone());
		hs.push(thread::spawn(move || loop {
			let i = next.fetch_add(1, Ordering::SeqCst);
			if i >= cases.len() {
				break;
			}
			let mut r = one(&cases[i], pool.clone(), corrupt);
			if r.is_err() {
				// a failure of the machine (sockets): once more
				r = one(&cases[i], pool.clone(), corrupt);
			}
			results.lock().unwrap().push((i, r));
		}));
	}
	for h in hs {
		let _ = h.join();
	}
	let mut out = NdWriter::create(args.req("out"));
	let mut res = results.lock().unwrap();
	res.sort_by_key(|x| x.0);
	let (mut executed, mut messages) = (0usize, 0usize);
	for (i, r) in res.iter() {
		match r {
			Ok(None) => {
				executed += 1;
				messages += cases[*i]["ops"].as_array().map(|a| a.len()).unwrap_or(0) + cases[*i]["answers"].as_array().map(|a| a.len()).unwrap_or(0);
			}
			Ok(Some(m)) => {
				executed += 1;
				out.put(m);
			}
			Err(e) => out.put(&json!({"case": cases[*i], "what": "io", "name": "session", "detail": e})),
		}
	}
	let n = out.n;
	out.finish();
	println!("{}", json!({"executed": executed, "sessions": cases.len(), "messages_exchanged": messages, "mismatches": n}));
	0
}
