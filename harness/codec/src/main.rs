//! C19 engine: peer message framing (Codec.tla) and handshake (Handshake.tla) against the real
//! `Codec`, `conn::listen` and `Handshake` on loopback sockets.
//!
//!   h_codec replay    --cases F --out F --tmp DIR [--seed N] [--thorough] [--threads N]
//!   h_codec handshake --cases F --out F
//!   h_codec handover  --cases F --out F                       (handshake -> codec on one socket)
//!   h_codec peer      --cases F --out F                       (a real Peer facing a raw peer)
//!   h_codec record    --out F --tmp DIR --seed N --seqs N       (direction B, conn::listen)
//!   h_codec consts    [--chain mainnet|testnet]                 (wire constants of the build)
//!   (replay also takes --chain: the process then runs as a node of that network)
mod alloc_track;
mod frames;
mod handover;
mod handshake;
mod listenrec;
mod objects;
mod peer;
mod run;

use grin_core::global;
use vcommon::*;

#[global_allocator]
static GLOBAL: alloc_track::Tracking = alloc_track::Tracking;

fn main() {
	quiet_panics();
	let a: Vec<String> = std::env::args().skip(1).collect();
	let args = Args::parse(&a);
	// one chain type for every thread (network magic, codec limits and header validation depend on it)
	global::init_global_chain_type(match args.get("chain") {
		Some("mainnet") => global::ChainTypes::Mainnet,
		Some("testnet") => global::ChainTypes::Testnet,
		_ => global::ChainTypes::AutomatedTesting,
	});
	// NRD kernels are part of the built transactions (their reader consults this flag)
	global::init_global_nrd_enabled(true);
	let rc = match args.pos.get(0).map(|s| s.as_str()) {
		Some("replay") => run::replay(&args),
		Some("handshake") => handshake::run(&args),
		Some("handover") => handover::run(&args),
		Some("record") => listenrec::record(&args),
		Some("peer") => peer::run(&args),
		Some("consts") => frames::consts(),
		_ => {
			eprintln!("h_codec replay|handshake|record|consts");
			2
		}
	};
	std::process::exit(rc);
}
