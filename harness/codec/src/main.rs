//! C19 engine: peer message framing (Codec.tla) and handshake (Handshake.tla) against the real
//! `Codec`, `conn::listen` and `Handshake` on loopback sockets.
//!
//!   h_codec replay    --cases F --out F --tmp DIR [--seed N] [--thorough] [--threads N]
//!   h_codec handshake --cases F --out F
//!   h_codec handover  --cases F --out F                       (handshake -> codec on one socket)
//!   h_codec record    --out F --tmp DIR --seed N --seqs N       (direction B, conn::listen)
//!   h_codec consts                                              (wire constants of the build)
mod alloc_track;
mod frames;
mod handover;
mod handshake;
mod listenrec;
mod run;

use grin_core::global;
use vcommon::*;

#[global_allocator]
static GLOBAL: alloc_track::Tracking = alloc_track::Tracking;

fn main() {
	quiet_panics();
	// one chain type for every thread (codec limits and header validation depend on it)
	global::init_global_chain_type(global::ChainTypes::AutomatedTesting);
	let a: Vec<String> = std::env::args().skip(1).collect();
	let args = Args::parse(&a);
	let rc = match args.pos.get(0).map(|s| s.as_str()) {
		Some("replay") => run::replay(&args),
		Some("handshake") => handshake::run(&args),
		Some("handover") => handover::run(&args),
		Some("record") => listenrec::record(&args),
		Some("consts") => frames::consts(),
		_ => {
			eprintln!("h_codec replay|handshake|record|consts");
			2
		}
	};
	std::process::exit(rc);
}
