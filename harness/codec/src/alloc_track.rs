//! Counting allocator: per-thread largest single request since the last reset, and a hard cap
//! so that a decoder that trusts an announced length cannot hurt the machine (the process
//! aborts instead; the driver reports the abort as data).
use std::alloc::{GlobalAlloc, Layout, System};
use std::cell::Cell;

pub struct Tracking;

pub const CAP: usize = 256 << 20;

thread_local! {
	static MAX_REQ: Cell<usize> = const { Cell::new(0) };
}

#[inline]
fn note(sz: usize) {
	let _ = MAX_REQ.try_with(|c| {
		if sz > c.get() {
			c.set(sz)
		}
	});
}

pub fn reset() {
	let _ = MAX_REQ.try_with(|c| c.set(0));
}

pub fn max_request() -> usize {
	MAX_REQ.try_with(|c| c.get()).unwrap_or(0)
}

unsafe impl GlobalAlloc for Tracking {
	unsafe fn alloc(&self, l: Layout) -> *mut u8 {
		note(l.size());
		if l.size() > CAP {
			return std::ptr::null_mut();
		}
		System.alloc(l)
	}
	unsafe fn alloc_zeroed(&self, l: Layout) -> *mut u8 {
		note(l.size());
		if l.size() > CAP {
			return std::ptr::null_mut();
		}
		System.alloc_zeroed(l)
	}
	unsafe fn dealloc(&self, p: *mut u8, l: Layout) {
		System.dealloc(p, l)
	}
	unsafe fn realloc(&self, p: *mut u8, l: Layout, new_size: usize) -> *mut u8 {
		note(new_size);
		if new_size > CAP {
			return std::ptr::null_mut();
		}
		System.realloc(p, l, new_size)
	}
}
