//! Direction B: random frame sequences are written (fragmented) to a socket served by the real
//! `conn::listen` read loop; what reaches the `MessageHandler` is recorded and later validated
//! by spec/trace/CodecTrace.tla against Codec.tla.
use crate::frames::*;
use chrono::Utc;
use grin_core::core::hash::Hashed;
use grin_core::ser::ProtocolVersion;
use grin_p2p::msg::{Consumed, Message};
use grin_p2p::types::AttachmentMeta;
use grin_p2p::verif_export::{listen, MessageHandler, Tracker};
use grin_p2p::Error;
use rand::rngs::StdRng;
use rand::{Rng, SeedableRng};
use serde_json::{json, Value};
use std::fs::{self, File};
use std::io::{Read, Write};
use std::net::{Shutdown, TcpListener, TcpStream};
use std::path::PathBuf;
use std::sync::{Arc, Mutex};
use std::thread;
use std::time::Duration;
use vcommon::*;

struct Recorder {
	log: Arc<Mutex<Vec<Value>>>,
	dir: String,
	id: usize,
}

impl MessageHandler for Recorder {
	fn consume(&self, message: Message) -> Result<Consumed, Error> {
		let mut log = self.log.lock().unwrap();
		match message {
			Message::Headers(d) => {
				log.push(json!({"r": "headers", "t": 9, "n": d.headers.len(), "rem": d.remaining,
					"hashes": d.headers.iter().map(|h| hx(&h.hash())).collect::<Vec<_>>()}));
				Ok(Consumed::None)
			}
			Message::Attachment(up, _) => {
				log.push(json!({"r": "att", "t": 17, "n": up.read, "rem": up.left}));
				Ok(Consumed::None)
			}
			Message::TxHashSetArchive(a) => {
				let n = log.iter().filter(|x| x["t"] == json!(17) && x["r"] == json!("msg")).count();
				let path = PathBuf::from(format!("{}/listen_att_{}_{}.bin", self.dir, self.id, n));
				let _ = fs::remove_file(&path);
				let file = File::create(&path)?;
				let meta = AttachmentMeta {
					size: a.bytes as usize,
					hash: a.hash,
					height: a.height,
					start_time: Utc::now(),
					path: path.clone(),
				};
				let (t, n2, digest) = describe(Message::TxHashSetArchive(a));
				log.push(json!({"r": "msg", "t": t, "n": n2, "rem": 0, "digest": digest, "path": path.to_string_lossy()}));
				Ok(Consumed::Attachment(Arc::new(meta), file))
			}
			m => {
				let (t, n, digest) = describe(m);
				log.push(json!({"r": "msg", "t": t, "n": n, "rem": 0, "digest": digest}));
				Ok(Consumed::None)
			}
		}
	}
}

fn frame_json(f: &Frame) -> Value {
	json!({"k": f.k, "t": f.t, "magic": f.magic, "len": f.len, "body": f.body, "need": f.need,
		"count": f.count, "items": f.items, "extra": f.extra, "att": f.att})
}

fn fixed(t: u8, sz: usize) -> Frame {
	Frame {
		k: "fixed".into(),
		t,
		magic: true,
		len: sz as u64,
		body: sz,
		need: sz as i64,
		count: 0,
		items: 0,
		extra: 0,
		att: 0,
	}
}

fn random_frame(rng: &mut StdRng, last: bool) -> Frame {
	let bh = 257usize;
	let pick = rng.gen_range(0, if last { 13 } else { 10 });
	match pick {
		0 => fixed(3, 16),
		1 => fixed([4u8, 5, 10, 12, 16, 18, 19, 20, 21, 23, 25, 27][rng.gen_range(0, 12)], 0),
		2 => {
			let c = [0usize, 1, 2, 5, 40][rng.gen_range(0, 5)];
			Frame {
				k: "counted".into(),
				t: 6,
				magic: true,
				len: (4 + 7 * c) as u64,
				body: 4 + 7 * c,
				need: (4 + 7 * c) as i64,
				count: c as u64,
				items: c,
				extra: 0,
				att: 0,
			}
		}
		3 => {
			let c = [0usize, 1, 3, 20][rng.gen_range(0, 4)];
			Frame {
				k: "counted".into(),
				t: 7,
				magic: true,
				len: (1 + 32 * c) as u64,
				body: 1 + 32 * c,
				need: (1 + 32 * c) as i64,
				count: c as u64,
				items: c,
				extra: 0,
				att: 0,
			}
		}
		4 | 5 => {
			let n = [1usize, 2, 31, 32, 33, 64, 65, 100][rng.gen_range(0, 8)];
			Frame {
				k: "headers".into(),
				t: 9,
				magic: true,
				len: (2 + n * bh) as u64,
				body: 2 + n * bh,
				need: 0,
				count: n as u64,
				items: n,
				extra: 0,
				att: 0,
			}
		}
		6 => {
			let a = [0usize, 1, 500, 47_999, 48_000, 48_001, 100_000][rng.gen_range(0, 7)];
			Frame {
				k: "archive".into(),
				t: 17,
				magic: true,
				len: 48,
				body: 48,
				need: 48,
				count: 0,
				items: 0,
				extra: 0,
				att: a,
			}
		}
		7 | 8 => {
			let l = [0usize, 1, 40, 3000][rng.gen_range(0, 4)];
			Frame {
				k: "unknown".into(),
				t: [99u8, 200, 250][rng.gen_range(0, 3)],
				magic: true,
				len: l as u64,
				body: l,
				need: 0,
				count: 0,
				items: 0,
				extra: 0,
				att: 0,
			}
		}
		9 => fixed(8, bh),
		// a frame that must end the connection (only as the last one)
		10 => Frame {
			k: "raw".into(),
			t: 3,
			magic: true,
			len: 65,
			body: 40,
			need: 0,
			count: 0,
			items: 0,
			extra: 0,
			att: 0,
		},
		11 => Frame {
			k: "raw".into(),
			t: 4,
			magic: false,
			len: 16,
			body: 16,
			need: 16,
			count: 0,
			items: 0,
			extra: 0,
			att: 0,
		},
		_ => Frame {
			k: "headers".into(),
			t: 9,
			magic: true,
			len: (2 + 2 * bh) as u64,
			body: 2 + 2 * bh,
			need: 0,
			count: 3,
			items: 2,
			extra: 0,
			att: 0,
		},
	}
}

fn fix_sizes(f: &mut Frame) {
	// `fixed(t, 0)` placeholders get the natural size of their type
	if f.k == "fixed" && f.body == 0 {
		let sz = match f.t {
			3 | 4 => 16,
			5 | 18 => 4,
			10 | 12 | 19 | 20 => 32,
			16 => 40,
			21 | 23 | 25 | 27 => 41,
			_ => 0,
		};
		f.len = sz as u64;
		f.body = sz;
		f.need = sz as i64;
	}
}

pub fn record(args: &Args) -> i32 {
	let seed = args.u64("seed", 1);
	let nseq = args.u64("seqs", 16) as usize;
	let tmp = args.req("tmp").to_string();
	let pool = Arc::new(Pool::mine(64));
	let mut seedb = [0u8; 32];
	seedb[..8].copy_from_slice(&seed.to_le_bytes());
	seedb[31] = 0xb;
	let mut rng: StdRng = SeedableRng::from_seed(seedb);
	// plan all sequences first (deterministic in the seed), then run them in parallel
	let mut plans = vec![];
	for id in 0..nseq {
		let n = rng.gen_range(1, 6);
		let mut frames: Vec<Frame> = (0..n).map(|i| random_frame(&mut rng, i + 1 == n)).collect();
		frames.iter_mut().for_each(fix_sizes);
		let version = crate::run::VERSIONS[rng.gen_range(0, 4)];
		let ncuts = rng.gen_range(0, 6);
		let cutseed: u64 = rng.gen();
		plans.push((id, frames, version, ncuts, cutseed));
	}
	let mut handles = vec![];
	for (id, frames, version, ncuts, cutseed) in plans {
		let pool = pool.clone();
		let tmp = tmp.clone();
		handles.push(thread::spawn(move || -> Result<Vec<Value>, String> {
			let io = |e: std::io::Error| e.to_string();
			let sent: Vec<Sent> = frames.iter().enumerate().map(|(fi, f)| render(f, fi, &pool)).collect();
			let stream: Vec<u8> = sent.iter().flat_map(|s| s.bytes.iter().cloned()).collect();
			let mut sb = [0u8; 32];
			sb[..8].copy_from_slice(&cutseed.to_le_bytes());
			let mut rng: StdRng = SeedableRng::from_seed(sb);
			let mut cuts: Vec<usize> = (0..ncuts).map(|_| rng.gen_range(1, stream.len().max(2))).collect();
			cuts.sort();
			cuts.dedup();
			let l = TcpListener::bind("127.0.0.1:0").map_err(io)?;
			let mut w = TcpStream::connect(l.local_addr().map_err(io)?).map_err(io)?;
			w.set_nodelay(true).map_err(io)?;
			let (r, _) = l.accept().map_err(io)?;
			let log = Arc::new(Mutex::new(vec![]));
			let (_conn, stop) = listen(
				r,
				ProtocolVersion(version),
				Arc::new(Tracker::new()),
				Recorder {
					log: log.clone(),
					dir: tmp.clone(),
					id,
				},
			)
			.map_err(io)?;
			let mut start = 0;
			cuts.push(stream.len());
			for c in cuts.iter() {
				let c = (*c).min(stream.len());
				if c > start {
					if w.write_all(&stream[start..c]).is_err() {
						break; // the reader closed after a refusal
					}
					start = c;
				}
				thread::sleep(Duration::from_micros(rng.gen_range(0, 3000)));
			}
			let _ = w.shutdown(Shutdown::Write);
			// the read loop ends on end-of-stream (or on the refusal) and shuts the socket down
			let _ = w.set_read_timeout(Some(Duration::from_secs(20)));
			let mut buf = [0u8; 256];
			let closed;
			loop {
				match w.read(&mut buf) {
					Ok(0) => {
						closed = true;
						break;
					}
					Ok(_) => {}
					Err(e) => {
						closed = e.kind() == std::io::ErrorKind::ConnectionReset;
						break;
					}
				}
			}
			stop.stop();
			// events: the sequence, the deliveries (batches / chunks merged per frame), the end
			let mut ev = vec![json!({"k": "Reset", "id": id, "version": version,
				"frames": frames.iter().map(frame_json).collect::<Vec<_>>()})];
			let log = log.lock().unwrap();
			let mut i = 0;
			// frame index of the next delivery: walk the frames that deliver something
			while i < log.len() {
				let e = &log[i];
				let r = e["r"].as_str().unwrap();
				if r == "headers" || r == "att" {
					// merge the run that belongs to one list / one attachment
					let mut n = 0u64;
					let mut ok = true;
					let mut hashes: Vec<Value> = vec![];
					let mut rem;
					loop {
						let x = &log[i];
						n += x["n"].as_u64().unwrap();
						rem = x["rem"].as_u64().unwrap();
						if r == "headers" {
							hashes.extend(x["hashes"].as_array().unwrap().iter().cloned());
						}
						i += 1;
						if rem == 0 || i >= log.len() || log[i]["r"] != json!(r) {
							break;
						}
						// bookkeeping: what remains after this batch is what the following ones carry
						let next_total: u64 = log[i]["n"].as_u64().unwrap() + log[i]["rem"].as_u64().unwrap();
						ok = ok && rem == next_total;
					}
					let mut content_ok = ok;
					if r == "headers" {
						// the list must be the carried headers of some Headers frame, in order
						content_ok = content_ok
							&& sent.iter().any(|s| {
								s.hashes.len() >= hashes.len()
									&& s.hashes[..hashes.len()]
										.iter()
										.zip(hashes.iter())
										.all(|(a, b)| json!(a) == *b)
							});
					}
					ev.push(json!({"k": "Deliver", "r": r, "t": e["t"], "n": n, "rem": rem, "ok": content_ok}));
				} else {
					let t = e["t"].as_u64().unwrap() as u8;
					let content_ok = sent
						.iter()
						.zip(frames.iter())
						.any(|(s, f)| f.t == t && s.digest == e["digest"].as_str().unwrap_or(""));
					ev.push(json!({"k": "Deliver", "r": "msg", "t": t, "n": e["n"], "rem": 0, "ok": content_ok}));
					i += 1;
				}
			}
			// attachment files hold exactly the streamed bytes
			let mut files_ok = true;
			let mut k = 0;
			for (fi, f) in frames.iter().enumerate() {
				if f.t == 17 && f.k == "archive" {
					let path = format!("{}/listen_att_{}_{}.bin", tmp, id, k);
					k += 1;
					if let Ok(b) = fs::read(&path) {
						files_ok = files_ok && b == sent[fi].att;
						let _ = fs::remove_file(&path);
					}
				}
			}
			ev.push(json!({"k": "Closed", "closed": closed, "files_ok": files_ok, "deliveries": log.len()}));
			Ok(ev)
		}));
	}
	let mut out = NdWriter::create(args.req("out"));
	let mut failed = 0;
	let mut deliveries = 0;
	for h in handles {
		match h.join() {
			Ok(Ok(ev)) => {
				deliveries += ev.len() - 2;
				for e in ev {
					out.put(&e);
				}
			}
			Ok(Err(e)) => {
				eprintln!("record: {}", e);
				failed += 1;
			}
			Err(_) => failed += 1,
		}
	}
	let n = out.n;
	out.finish();
	println!("{}", json!({"sequences": nseq, "events": n, "merged_deliveries": deliveries, "io_failures": failed}));
	if failed > 0 {
		return 2;
	}
	0
}
