//! Direction B: random frame sequences are written (fragmented) to a socket served by the real
//! `conn::listen` read loop; what reaches the `MessageHandler` is recorded and later validated
//! by spec/trace/CodecTrace.tla against Codec.tla.
use crate::frames::*;
use chrono::Utc;
use grin_core::core::hash::Hashed;
use grin_core::ser::ProtocolVersion;
use grin_p2p::msg::{Consumed, Message};
use grin_p2p::types::AttachmentMeta;
use grin_p2p::verif_export::{listen, MessageHandler, Tracker};
use grin_p2p::Error;
use rand::rngs::StdRng;
use rand::{Rng, SeedableRng};
use serde_json::{json, Value};
use std::fs::{self, File};
use std::io::{Read, Write};
use std::net::{Shutdown, TcpListener, TcpStream};
use std::path::PathBuf;
use std::sync::{Arc, Mutex};
use std::thread;
use std::time::Duration;
use vcommon::*;

struct Recorder {
	log: Arc<Mutex<Vec<Value>>>,
	dir: String,
	id: usize,
}

impl MessageHandler for Recorder {
	fn consume(&self, message: Message) -> Result<Consumed, Error> {
		let mut log = self.log.lock().unwrap();
		match message {
			Message::Headers(d) => {
				log.push(json!({"r": "headers", "t": 9, "n": d.headers.len(), "rem": d.remaining,
					"hashes": d.headers.iter().map(|h| hx(&h.hash())).collect::<Vec<_>>()}));
				Ok(Consumed::None)
			}
			Message::Attachment(up, _) => {
				log.push(json!({"r": "att", "t": 17, "n": up.read, "rem": up.left}));
				Ok(Consumed::None)
			}
			Message::TxHashSetArchive(a) => {
				let n = log.iter().filter(|x| x["t"] == json!(17) && x["r"] == json!("msg")).count();
				let path = PathBuf::from(format!("{}/listen_att_{}_{}.bin", self.dir, self.id, n));
				let _ = fs::remove_file(&path);
				let file = File::create(&path)?;
				let meta = AttachmentMeta {
					size: a.bytes as usize,
					hash: a.hash,
					height: a.height,
					start_time: Utc::now(),
					path: path.clone(),
				};
				let (t, n2, digest) = describe(Message::TxHashSetArchive(a));
				log.push(json!({"r": "msg", "t": t, "n": n2, "rem": 0, "digest": digest, "path": path.to_string_lossy()}));
				Ok(Consumed::Attachment(Arc::new(meta), file))
			}
			m => {
				let (t, n, digest) = describe(m);
				log.push(json!({"r": "msg", "t": t, "n": n, "rem": 0, "digest": digest}));
				Ok(Consumed::None)
			}
		}
	}
}

fn frame_json(f: &Frame) -> Value {
	// (an announced length beyond TLC's integers is 2^30 in the model, see Codec.tla RawWire)
	let mut v = json!({"k": f.k, "t": f.t, "magic": f.magic, "len": f.len.min(1 << 30), "body": f.body, "need": f.need,
		"count": f.count, "items": f.items, "extra": f.extra, "att": f.att});
	// optional fields of Codec.tla frames
	if !f.mix.is_empty() {
		v["mix"] = json!(f.mix);
	}
	if f.k == "built" {
		v["ver"] = json!(f.ver);
		v["obj"] = f.obj.clone();
	}
	v
}

fn fixed(t: u8, sz: usize) -> Frame {
	Frame {
		k: "fixed".into(),
		t,
		magic: true,
		len: sz as u64,
		body: sz,
		need: sz as i64,
		count: 0,
		items: 0,
		extra: 0,
		att: 0,
		..Default::default()
	}
}

fn random_frame(rng: &mut StdRng, last: bool) -> Frame {
	let bh = 257usize;
	let pick = rng.gen_range(0, if last { 13 } else { 10 });
	match pick {
		0 => fixed(3, 16),
		1 => fixed([4u8, 5, 10, 12, 16, 18, 19, 20, 21, 23, 25, 27][rng.gen_range(0, 12)], 0),
		2 => {
			let c = [0usize, 1, 2, 5, 40][rng.gen_range(0, 5)];
			Frame {
				k: "counted".into(),
				t: 6,
				magic: true,
				len: (4 + 7 * c) as u64,
				body: 4 + 7 * c,
				need: (4 + 7 * c) as i64,
				count: c as u64,
				items: c,
				extra: 0,
				att: 0,
				..Default::default()
			}
		}
		3 => {
			let c = [0usize, 1, 3, 20][rng.gen_range(0, 4)];
			Frame {
				k: "counted".into(),
				t: 7,
				magic: true,
				len: (1 + 32 * c) as u64,
				body: 1 + 32 * c,
				need: (1 + 32 * c) as i64,
				count: c as u64,
				items: c,
				extra: 0,
				att: 0,
				..Default::default()
			}
		}
		4 | 5 => {
			let n = [1usize, 2, 31, 32, 33, 64, 65, 100][rng.gen_range(0, 8)];
			Frame {
				k: "headers".into(),
				t: 9,
				magic: true,
				len: (2 + n * bh) as u64,
				body: 2 + n * bh,
				need: 0,
				count: n as u64,
				items: n,
				extra: 0,
				att: 0,
				..Default::default()
			}
		}
		6 => {
			let a = [0usize, 1, 500, 47_999, 48_000, 48_001, 100_000][rng.gen_range(0, 7)];
			Frame {
				k: "archive".into(),
				t: 17,
				magic: true,
				len: 48,
				body: 48,
				need: 48,
				count: 0,
				items: 0,
				extra: 0,
				att: a,
				..Default::default()
			}
		}
		7 | 8 => {
			let l = [0usize, 1, 40, 3000][rng.gen_range(0, 4)];
			Frame {
				k: "unknown".into(),
				t: [99u8, 200, 250][rng.gen_range(0, 3)],
				magic: true,
				len: l as u64,
				body: l,
				need: 0,
				count: 0,
				items: 0,
				extra: 0,
				att: 0,
				..Default::default()
			}
		}
		9 => fixed(8, bh),
		// a frame that must end the connection (only as the last one)
		10 => Frame {
			k: "raw".into(),
			t: 3,
			magic: true,
			len: 65,
			body: 40,
			need: 0,
			count: 0,
			items: 0,
			extra: 0,
			att: 0,
			..Default::default()
		},
		11 => Frame {
			k: "raw".into(),
			t: 4,
			magic: false,
			len: 16,
			body: 16,
			need: 16,
			count: 0,
			items: 0,
			extra: 0,
			att: 0,
			..Default::default()
		},
		_ => Frame {
			k: "headers".into(),
			t: 9,
			magic: true,
			len: (2 + 2 * bh) as u64,
			body: 2 + 2 * bh,
			need: 0,
			count: 3,
			items: 2,
			extra: 0,
			att: 0,
			..Default::default()
		},
	}
}

fn fix_sizes(f: &mut Frame) {
	// `fixed(t, 0)` placeholders get the natural size of their type
	if f.k == "fixed" && f.body == 0 {
		let sz = match f.t {
			3 | 4 => 16,
			5 | 18 => 4,
			10 | 12 | 19 | 20 => 32,
			16 => 40,
			21 | 23 | 25 | 27 => 41,
			_ => 0,
		};
		f.len = sz as u64;
		f.body = sz;
		f.need = sz as i64;
	}
}

fn refusal_kind(f: &Frame) -> &'static str {
	if !f.magic {
		"bad_magic"
	} else if f.k == "raw" && f.len == 65 {
		"over_limit"
	} else if f.k == "headers" && f.count as usize != f.items {
		"bad_count"
	} else {
		""
	}
}

struct SeqPlan {
	id: usize,
	frames: Vec<Frame>,
	kinds: Vec<String>,
	version: u32,
	ncuts: usize,
	cutseed: u64,
	/// index of the TLC-emitted case this sequence was taken from (-1: drawn here)
	case: i64,
}

/// One sequence through the real `conn::listen`: events Reset, Deliver*, Closed.
fn run_seq(p: &SeqPlan, pool: &Pool, tmp: &str) -> Result<Vec<Value>, String> {
	let (id, frames, version) = (p.id, &p.frames, p.version);
	let io = |e: std::io::Error| e.to_string();
	let sent: Vec<Sent> = frames.iter().enumerate().map(|(fi, f)| render(f, fi, pool)).collect();
	let stream: Vec<u8> = sent.iter().flat_map(|s| s.bytes.iter().cloned()).collect();
	let mut sb = [0u8; 32];
	sb[..8].copy_from_slice(&p.cutseed.to_le_bytes());
	let mut rng: StdRng = SeedableRng::from_seed(sb);
	let mut cuts: Vec<usize> = (0..p.ncuts).map(|_| rng.gen_range(1, stream.len().max(2))).collect();
	cuts.sort();
	cuts.dedup();
	let l = TcpListener::bind("127.0.0.1:0").map_err(io)?;
	let mut w = TcpStream::connect(l.local_addr().map_err(io)?).map_err(io)?;
	w.set_nodelay(true).map_err(io)?;
	let (r, _) = l.accept().map_err(io)?;
	let log = Arc::new(Mutex::new(vec![]));
	let (_conn, stop) = listen(
		r,
		ProtocolVersion(version),
		Arc::new(Tracker::new()),
		Recorder {
			log: log.clone(),
			dir: tmp.to_string(),
			id,
		},
	)
	.map_err(io)?;
	let mut start = 0;
	cuts.push(stream.len());
	for c in cuts.iter() {
		let c = (*c).min(stream.len());
		if c > start {
			if w.write_all(&stream[start..c]).is_err() {
				break; // the reader closed after a refusal
			}
			start = c;
		}
		thread::sleep(Duration::from_micros(rng.gen_range(0, 3000)));
	}
	// Does the reader end the connection by itself?  (A stream with a frame that must be refused:
	// wait for it; the waiting time does not enter the verdict, only whether the socket was closed
	// while our side was still open.)
	let expect_close = p.kinds.iter().any(|k| !k.is_empty());
	let mut buf = [0u8; 256];
	let wait_closed = |w: &mut TcpStream, d: Duration, buf: &mut [u8]| -> bool {
		let _ = w.set_read_timeout(Some(d));
		loop {
			match w.read(buf) {
				Ok(0) => return true,
				Ok(_) => {}
				Err(e) => return e.kind() == std::io::ErrorKind::ConnectionReset || e.kind() == std::io::ErrorKind::BrokenPipe,
			}
		}
	};
	let before_eof = wait_closed(&mut w, if expect_close { Duration::from_secs(5) } else { Duration::from_millis(30) }, &mut buf);
	let mut closed = before_eof;
	if !closed {
		let _ = w.shutdown(Shutdown::Write);
		// the read loop ends on end-of-stream and shuts the socket down
		closed = wait_closed(&mut w, Duration::from_secs(20), &mut buf);
	}
	stop.stop();
	// events: the sequence, the deliveries (batches / chunks merged per frame), the end
	let mut ev = vec![json!({"k": "Reset", "id": id, "version": version, "case": p.case, "kinds": p.kinds,
		"frames": frames.iter().map(frame_json).collect::<Vec<_>>()})];
	let log = log.lock().unwrap();
	let mut i = 0;
	// frame index of the next delivery: walk the frames that deliver something
	while i < log.len() {
		let e = &log[i];
		let r = e["r"].as_str().unwrap();
		if r == "headers" || r == "att" {
			// merge the run that belongs to one list / one attachment
			let mut n = 0u64;
			let mut ok = true;
			let mut hashes: Vec<Value> = vec![];
			let mut rem;
			loop {
				let x = &log[i];
				n += x["n"].as_u64().unwrap();
				rem = x["rem"].as_u64().unwrap();
				if r == "headers" {
					hashes.extend(x["hashes"].as_array().unwrap().iter().cloned());
				}
				i += 1;
				if rem == 0 || i >= log.len() || log[i]["r"] != json!(r) {
					break;
				}
				// bookkeeping: what remains after this batch is what the following ones carry
				let next_total: u64 = log[i]["n"].as_u64().unwrap() + log[i]["rem"].as_u64().unwrap();
				ok = ok && rem == next_total;
			}
			let mut content_ok = ok;
			if r == "headers" {
				// the list must be the carried headers of some Headers frame, in order
				content_ok = content_ok
					&& sent.iter().any(|s| {
						s.hashes.len() >= hashes.len()
							&& s.hashes[..hashes.len()]
								.iter()
								.zip(hashes.iter())
								.all(|(a, b)| json!(a) == *b)
					});
			}
			ev.push(json!({"k": "Deliver", "r": r, "t": e["t"], "n": n, "rem": rem, "ok": content_ok}));
		} else {
			let t = e["t"].as_u64().unwrap() as u8;
			let content_ok = sent
				.iter()
				.zip(frames.iter())
				.any(|(s, f)| f.t == t && s.digest == e["digest"].as_str().unwrap_or(""));
			ev.push(json!({"k": "Deliver", "r": "msg", "t": t, "n": e["n"], "rem": 0, "ok": content_ok}));
			i += 1;
		}
	}
	// attachment files hold exactly the streamed bytes
	let mut files_ok = true;
	let mut k = 0;
	for (fi, f) in frames.iter().enumerate() {
		if f.t == 17 && f.k == "archive" {
			let path = format!("{}/listen_att_{}_{}.bin", tmp, id, k);
			k += 1;
			if let Ok(b) = fs::read(&path) {
				files_ok = files_ok && b == sent[fi].att;
				let _ = fs::remove_file(&path);
			}
		}
	}
	ev.push(json!({"k": "Closed", "closed": closed, "before_eof": before_eof, "files_ok": files_ok, "deliveries": log.len()}));
	Ok(ev)
}

pub fn record(args: &Args) -> i32 {
	let seed = args.u64("seed", 1);
	let nseq = args.u64("seqs", 16) as usize;
	let tmp = args.req("tmp").to_string();
	let pool = Arc::new(Pool::mine(64));
	let mut seedb = [0u8; 32];
	seedb[..8].copy_from_slice(&seed.to_le_bytes());
	seedb[31] = 0xb;
	let mut rng: StdRng = SeedableRng::from_seed(seedb);
	// plan all sequences first (deterministic in the seed), then run them in parallel
	let mut plans: Vec<SeqPlan> = vec![];
	for id in 0..nseq {
		let n = rng.gen_range(1, 6);
		// a frame that must end the connection: as the last one, now and then in the middle
		let mut frames: Vec<Frame> = (0..n)
			.map(|i| {
				let bad_ok = i + 1 == n || rng.gen_range(0, 5) == 0;
				random_frame(&mut rng, bad_ok)
			})
			.collect();
		frames.iter_mut().for_each(fix_sizes);
		let version = crate::run::VERSIONS[rng.gen_range(0, 4)];
		let ncuts = rng.gen_range(0, 6);
		let cutseed: u64 = rng.gen();
		let kinds = frames.iter().map(|f| refusal_kind(f).to_string()).collect();
		plans.push(SeqPlan {
			id,
			frames,
			kinds,
			version,
			ncuts,
			cutseed,
			case: -1,
		});
	}
	// streams emitted by TLC (MC_Codec: a refused frame followed by valid ones, ...): each in one
	// write and under a seeded fragmentation
	let mut from_model = 0;
	if let Some(cp) = args.get("cases") {
		for (ci, v) in read_ndjson(cp).iter().enumerate() {
			let frames: Vec<Frame> = v["frames"].as_array().unwrap().iter().map(Frame::from_json).collect();
			let kinds: Vec<String> = v["kinds"]
				.as_array()
				.map(|a| a.iter().map(|x| x.as_str().unwrap_or("").to_string()).collect())
				.unwrap_or_else(|| frames.iter().map(|_| String::new()).collect());
			// built frames are serialised with the version of the connection (Codec.tla WriterVersion)
			let case_version = v["version"].as_u64().unwrap_or(0) as u32;
			for rep in 0..2 {
				let id = plans.len();
				plans.push(SeqPlan {
					id,
					frames: frames.clone(),
					kinds: kinds.clone(),
					version: if case_version > 0 { case_version } else { crate::run::VERSIONS[(ci + rep) % 4] },
					ncuts: if rep == 0 { 0 } else { rng.gen_range(1, 5) },
					cutseed: rng.gen(),
					case: v["case_id"].as_i64().unwrap_or(ci as i64),
				});
				from_model += 1;
			}
		}
	}
	let total = plans.len();
	let plans = Arc::new(plans);
	let next = Arc::new(std::sync::atomic::AtomicUsize::new(0));
	let results: Arc<Mutex<Vec<(usize, Result<Vec<Value>, String>)>>> = Arc::new(Mutex::new(vec![]));
	let mut handles = vec![];
	for _ in 0..total.min(64) {
		let (plans, next, results, pool, tmp) = (plans.clone(), next.clone(), results.clone(), pool.clone(), tmp.clone());
		handles.push(thread::spawn(move || loop {
			let j = next.fetch_add(1, std::sync::atomic::Ordering::SeqCst);
			if j >= plans.len() {
				break;
			}
			let r = run_seq(&plans[j], &pool, &tmp);
			results.lock().unwrap().push((j, r));
		}));
	}
	let mut failed = 0;
	for h in handles {
		if h.join().is_err() {
			failed += 1;
		}
	}
	let mut out = NdWriter::create(args.req("out"));
	let mut deliveries = 0;
	let mut res = results.lock().unwrap();
	res.sort_by_key(|x| x.0);
	let mut closed_by_reader = 0;
	for (_, r) in res.iter() {
		match r {
			Ok(ev) => {
				deliveries += ev.len() - 2;
				if ev.last().map(|e| e["before_eof"] == json!(true)).unwrap_or(false) {
					closed_by_reader += 1;
				}
				for e in ev {
					out.put(e);
				}
			}
			Err(e) => {
				eprintln!("record: {}", e);
				failed += 1;
			}
		}
	}
	let n = out.n;
	out.finish();
	println!(
		"{}",
		json!({"sequences": total, "random_sequences": nseq, "model_sequences": from_model, "events": n,
			"merged_deliveries": deliveries, "closed_by_reader_before_eof": closed_by_reader, "io_failures": failed})
	);
	if failed > 0 {
		return 2;
	}
	0
}
