//! C18 engine, directed scenarios added for the coverage-gap audit:
//!
//!   pages    DatabaseIterator key paging across the 10 000-key page boundary (KV!OutIterNext page-shaped, KV!PageWalk /
//!            IterInOrder, SnapStable): 25 003 keys in one space; a store iterator (opened through a SECOND Store handle of the
//!            same environment) is walked to the end while another thread commits deletes and inserts in every page, at and
//!            between the page boundaries; the same for Batch::iter over uncommitted writes of a batch and of its child.
//!   rewrite  the resize gate under data that is REWRITTEN while another thread's reader pins an old snapshot (freed pages are
//!            not reusable: the file grows although the live data does not). KV!NeedsResize measures by LAST PAGE (`used`), as
//!            LMDB does when it allocates: when that says an enlargement is due, a batch() of a thread that holds nothing
//!            must park (KV!BeginWait) and find the enlarged map (KV!Resize, Admit) - KV!ResizeGate, NoMapFull. The reader
//!            works through a second Store handle (shared EnvState: open_txs_count / resizing across handles), which is
//!            dropped and opened again in the middle of the run.
use super::*;
use std::collections::BTreeMap;

const PAGE: usize = 10_000;

fn kb4(k: u64) -> [u8; 4] {
	(k as u32).to_be_bytes()
}

fn key4_of(b: &[u8]) -> Result<u64, String> {
	if b.len() != 4 {
		return Err(format!("foreign key {:?}", b));
	}
	Ok(u32::from_be_bytes([b[0], b[1], b[2], b[3]]) as u64)
}

fn conv4(x: Option<Result<KVPair, SErr>>) -> Result<Option<(u64, u64)>, String> {
	match x {
		None => Ok(None),
		Some(Err(e)) => Err(format!("{:?}", e)),
		Some(Ok((k, v))) => Ok(Some((key4_of(&k)?, decode_blob(&v)?))),
	}
}

/// the second handle on the environment, the way p2p's PeerStore sits next to the ChainStore
pub fn open_second(dir: &str) -> Result<Store, SErr> {
	Store::new(dir, Some("peer"), Some("peers"), vec![b'P', b'R', b'X'], None, None)
}

/// A writer on a thread of its own (the property: "other threads"); every call is awaited with a bound.
struct Writer {
	tx: mpsc::Sender<Vec<(u64, Option<u64>)>>,
	rx: mpsc::Receiver<Result<(), String>>,
}

impl Writer {
	fn start(store: Arc<Store>, space: u8) -> Writer {
		let (tx, crx) = mpsc::channel::<Vec<(u64, Option<u64>)>>();
		let (rtx, rx) = mpsc::channel();
		std::thread::spawn(move || {
			while let Ok(ops) = crx.recv() {
				let r = catch_unwind(AssertUnwindSafe(|| -> Result<(), String> {
					let mut b = store.batch().map_err(|e| format!("batch:{}", errs(e)))?;
					for (k, v) in ops {
						match v {
							Some(v) => b.put_ser(Some(space), &kb4(k), &Blob { v, len: 0 }).map_err(|e| format!("put:{}", errs(e)))?,
							None => b.delete(Some(space), &kb4(k)).map_err(|e| format!("delete:{}", errs(e)))?,
						}
					}
					b.commit().map_err(|e| format!("commit:{}", errs(e)))
				}))
				.unwrap_or_else(|_| Err("panic:panic in code under test".to_string()));
				if rtx.send(r).is_err() {
					break;
				}
			}
		});
		Writer { tx, rx }
	}
	/// one committed batch; applies it to the reference map
	fn commit(&self, model: &mut BTreeMap<u64, u64>, ops: Vec<(u64, Option<u64>)>, hang_s: u64) -> Result<(), String> {
		for (k, v) in &ops {
			match v {
				Some(v) => {
					model.insert(*k, *v);
				}
				None => {
					model.remove(k);
				}
			}
		}
		self.tx.send(ops).map_err(|_| "harness:writer gone".to_string())?;
		match self.rx.recv_timeout(Duration::from_secs(hang_s)) {
			Ok(r) => r,
			Err(_) => Err("hang:writer batch did not return".to_string()),
		}
	}
}

/// first difference between what an iterator handed out and the expected ordered list
fn first_diff(got: &[(u64, u64)], exp: &[(u64, u64)]) -> Option<Value> {
	let n = got.len().min(exp.len());
	for i in 0..n {
		if got[i] != exp[i] {
			let kind = if i > 0 && got[i].0 <= got[i - 1].0 {
				"repeated_or_unordered"
			} else if got[i].0 > exp[i].0 {
				"skipped"
			} else if got[i].0 < exp[i].0 {
				"phantom"
			} else {
				"wrong_value"
			};
			return Some(json!({"kind": kind, "index": i, "page": i / PAGE + 1, "got": [got[i].0, got[i].1], "expected": [exp[i].0, exp[i].1],
				"got_len": got.len(), "expected_len": exp.len()}));
		}
	}
	if got.len() < exp.len() {
		return Some(json!({"kind": "ended_early", "index": n, "page": n / PAGE + 1, "expected": [exp[n].0, exp[n].1], "got_len": got.len(), "expected_len": exp.len()}));
	}
	if got.len() > exp.len() {
		return Some(json!({"kind": "too_many", "index": n, "page": n / PAGE + 1, "got": [got[n].0, got[n].1], "got_len": got.len(), "expected_len": exp.len()}));
	}
	None
}

/// walks `it` until `upto` items have been handed out in total (or to the end); a walk that exceeds `cap` items is cut
fn walk(it: &mut It, got: &mut Vec<(u64, u64)>, upto: usize, cap: usize) -> Result<bool, String> {
	while got.len() < upto {
		if got.len() >= cap {
			return Ok(true);
		}
		match conv4(it.next())? {
			Some(p) => got.push(p),
			None => return Ok(true),
		}
	}
	Ok(false)
}

/// uncommitted deletes and odd-key puts in every page of the key space, through the batch (or child batch) `b`
fn edit(b: &mut Batch, view: &mut BTreeMap<u64, u64>, round: u64, rng: &mut StdRng, nkeys: u64) -> Result<(), String> {
	const SP: u8 = b'R';
	for pg in 0..=(nkeys as usize / PAGE) {
		let base = (pg * PAGE) as u64;
		for j in 0..4u64 {
			let i = (base + rng.gen_range(0, PAGE as u64)).min(nkeys).max(1);
			if j % 2 == 0 {
				b.delete(Some(SP), &kb4(2 * i)).map_err(|e| format!("delete:{}", errs(e)))?;
				view.remove(&(2 * i));
			} else {
				let v = 7_000_000 * round + i;
				b.put_ser(Some(SP), &kb4(2 * i + 1), &Blob { v, len: 0 }).map_err(|e| format!("put:{}", errs(e)))?;
				view.insert(2 * i + 1, v);
			}
		}
	}
	Ok(())
}

/// `pages --dir D [--keys N] [--seed S] [--hang S]`
pub fn pages(args: &Args) -> i32 {
	let dir = args.req("dir").to_string();
	let nkeys = args.u64("keys", 30_011);
	let seed = args.u64("seed", 1);
	let hang_s = args.u64("hang", 60);
	let _ = std::fs::remove_dir_all(&dir);
	let store = Arc::new(open_store(&dir).expect("open"));
	let (tx, rx) = mpsc::channel::<Value>();
	{
		let (store, dir) = (store.clone(), dir.clone());
		std::thread::spawn(move || {
			let r = catch_unwind(AssertUnwindSafe(|| pages_worker(store, &dir, nkeys, seed, hang_s)));
			let _ = tx.send(match r {
				Ok(Ok(v)) => v,
				Ok(Err(e)) => fail_value(&e),
				Err(_) => json!({"class": "panic", "op": "scenario", "error": "panic in code under test"}),
			});
		});
	}
	drop(store);
	match rx.recv_timeout(Duration::from_secs(hang_s * 4)) {
		Ok(v) => emit_and_exit(v),
		Err(_) => emit_and_exit(json!({"class": "hang", "bound_s": hang_s * 4})),
	}
}

fn fail_value(e: &str) -> Value {
	let (op, msg) = match e.find(':') {
		Some(i) => (e[..i].to_string(), e[i + 1..].to_string()),
		None => ("scenario".to_string(), e.to_string()),
	};
	let class = if op == "harness" {
		"harness"
	} else if op == "hang" {
		"hang"
	} else if op == "panic" {
		"panic"
	} else if msg.contains("MAP_FULL") || msg.contains("MapFull") {
		"mapfull"
	} else {
		"error"
	};
	json!({"class": class, "op": op, "error": msg})
}

fn pages_worker(store: Arc<Store>, dir: &str, nkeys: u64, seed: u64, hang_s: u64) -> Result<Value, String> {
	const SP: u8 = b'R';
	let mut rng = rng_of(seed, 77);
	let mut model: BTreeMap<u64, u64> = BTreeMap::new();
	let w = Writer::start(store.clone(), SP);
	// even keys 2, 4, .. 2 * nkeys (odd keys are inserted later, between them), 500 per batch (a batch stays far below the
	// 10 % head-room); the map is enlarged on the way (nobody else has a transaction open)
	let mut k = 1u64;
	while k <= nkeys {
		let hi = (k + 499).min(nkeys);
		w.commit(&mut model, (k..=hi).map(|i| (2 * i, Some(i))).collect(), hang_s).map_err(|e| format!("fill_{}", e))?;
		k = hi + 1;
	}
	// no enlargement may be due when the readers start (their iterators would defer it and park the writer they wait for):
	// a batch() with nothing else open carries it out at once
	let data_file = format!("{}/multi_lmdb/data.mdb", std::fs::canonicalize(dir).map(|p| p.to_string_lossy().to_string()).unwrap_or(dir.to_string()));
	// (the walks below make the file grow by some 130 pages under their pinned snapshots: filler values in another space, written
	// with nothing else open, take the data past the next enlargement first if it is that near)
	let mut filler = 0u64;
	loop {
		let map = map_region(&data_file).map(|m| m.1).unwrap_or(0);
		if map == 0 {
			return Err("harness:data file is not mapped".to_string());
		}
		if ((data_pages(dir) + 140) * 4096) as f64 <= 0.9 * map as f64 {
			break;
		}
		filler += 1;
		if filler > 60 {
			return Err("harness:no room made for the walks".to_string());
		}
		one_put(&store, 60_000 + filler, 32 * 1024).map_err(|e| format!("filler_put:{}", e))?;
	}
	let second = open_second(dir).map_err(|e| format!("second_handle:{}", errs(e)))?;
	let fill_pages = data_pages(dir);
	let mut problems: Vec<Value> = vec![];
	let mut walks = vec![];
	let cap = 3 * nkeys as usize + 1000;
	// a commit that touches every page of the key space: deletes and odd-key inserts around the positions given
	let churn = |model: &mut BTreeMap<u64, u64>, round: u64, rng: &mut StdRng| -> Result<usize, String> {
		let mut ops = vec![];
		for pg in 0..=(nkeys as usize / PAGE) {
			let base = (pg * PAGE) as u64;
			for _ in 0..2 {
				let i = base + rng.gen_range(0, PAGE as u64).min(nkeys.saturating_sub(base + 1));
				let i = i.max(1);
				if rng.gen_range(0, 2) == 0 {
					ops.push((2 * i, None));
				} else {
					ops.push((2 * i + 1, Some(1_000_000 * round + i)));
				}
			}
			// right at the boundary: the last keys of this page and the first of the next
			for d in 0..3u64 {
				let i = base + PAGE as u64 - 1 + d;
				if i >= 1 && i <= nkeys {
					ops.push(if d % 2 == 0 { (2 * i, None) } else { (2 * i - 1, Some(1_000_000 * round + i)) });
				}
			}
		}
		let n = ops.len();
		w.commit(model, ops, hang_s).map_err(|e| format!("churn_{}", e))?;
		Ok(n)
	};
	// (1) store iterator through the SECOND handle, held across commits of another thread (first handle)
	for (name, stops) in [("boundaries", vec![PAGE, 2 * PAGE]), ("inside_pages", vec![PAGE / 2, PAGE + 1, 2 * PAGE - 1, 2 * PAGE + 2])] {
		let exp: Vec<(u64, u64)> = model.iter().map(|(a, b)| (*a, *b)).collect();
		let mut it: It = second.iter(Some(SP), deser_pair as DeserFn).map_err(|e| format!("iter:{}", errs(e)))?;
		let mut got = vec![];
		let mut ended = false;
		let mut churned = 0;
		for (ri, stop) in stops.iter().enumerate() {
			if !ended {
				ended = walk(&mut it, &mut got, *stop, cap).map_err(|e| format!("iter_next:{}", e))?;
			}
			churned += churn(&mut model, ri as u64 + 1, &mut rng)?;
		}
		if !ended {
			walk(&mut it, &mut got, usize::MAX, cap).map_err(|e| format!("iter_next:{}", e))?;
		}
		// an exhausted iterator stays exhausted
		let again = conv4(it.next()).map_err(|e| format!("iter_next:{}", e))?;
		drop(it);
		if let Some(mut d) = first_diff(&got, &exp) {
			d["where"] = json!("store_iter");
			d["walk"] = json!(name);
			problems.push(d);
		} else if again.is_some() {
			problems.push(json!({"kind": "resumed_after_end", "where": "store_iter", "walk": name, "index": got.len(), "page": got.len() / PAGE + 1}));
		}
		walks.push(json!({"walk": name, "where": "store_iter", "items": got.len(), "pages_turned": got.len() / PAGE, "ops_committed_meanwhile": churned}));
		if !problems.is_empty() {
			break;
		}
	}
	// the second handle goes away, the first one lives on (Drop for Store: stores_count)
	drop(second);
	// (2) a fresh iterator of the first handle sees everything committed, across all pages
	if problems.is_empty() {
		let exp: Vec<(u64, u64)> = model.iter().map(|(a, b)| (*a, *b)).collect();
		let mut it: It = store.iter(Some(SP), deser_pair as DeserFn).map_err(|e| format!("iter:{}", errs(e)))?;
		let mut got = vec![];
		walk(&mut it, &mut got, usize::MAX, cap).map_err(|e| format!("iter_next:{}", e))?;
		drop(it);
		if let Some(mut d) = first_diff(&got, &exp) {
			d["where"] = json!("store_iter_fresh");
			problems.push(d);
		}
		walks.push(json!({"walk": "fresh", "where": "store_iter_fresh", "items": got.len(), "pages_turned": got.len() / PAGE}));
	}
	// (3) Batch::iter: the batch's own uncommitted writes, and its child's, in every page; dropped at the end (no trace)
	if problems.is_empty() {
		let committed = model.clone();
		let mut view = model.clone();
		let mut b = store.batch().map_err(|e| format!("batch:{}", errs(e)))?;
		edit(&mut b, &mut view, 1, &mut rng, nkeys)?;
		{
			let exp: Vec<(u64, u64)> = view.iter().map(|(a, b)| (*a, *b)).collect();
			let mut it: It = b.iter(Some(SP), deser_pair as DeserFn).map_err(|e| format!("batch_iter:{}", errs(e)))?;
			let mut got = vec![];
			walk(&mut it, &mut got, usize::MAX, cap).map_err(|e| format!("batch_iter_next:{}", e))?;
			if let Some(mut d) = first_diff(&got, &exp) {
				d["where"] = json!("batch_iter");
				problems.push(d);
			}
			walks.push(json!({"walk": "batch", "where": "batch_iter", "items": got.len(), "pages_turned": got.len() / PAGE}));
		}
		if problems.is_empty() {
			let parent_view = view.clone();
			{
				let mut c = b.child().map_err(|e| format!("child:{}", errs(e)))?;
				edit(&mut c, &mut view, 2, &mut rng, nkeys)?;
				let exp: Vec<(u64, u64)> = view.iter().map(|(a, b)| (*a, *b)).collect();
				let mut it: It = c.iter(Some(SP), deser_pair as DeserFn).map_err(|e| format!("batch_iter:{}", errs(e)))?;
				let mut got = vec![];
				walk(&mut it, &mut got, usize::MAX, cap).map_err(|e| format!("batch_iter_next:{}", e))?;
				if let Some(mut d) = first_diff(&got, &exp) {
					d["where"] = json!("child_iter");
					problems.push(d);
				}
				walks.push(json!({"walk": "child", "where": "child_iter", "items": got.len(), "pages_turned": got.len() / PAGE}));
				drop(it);
				// the child is dropped: the parent's view is what it was
			}
			if problems.is_empty() {
				let exp: Vec<(u64, u64)> = parent_view.iter().map(|(a, b)| (*a, *b)).collect();
				let mut it: It = b.iter(Some(SP), deser_pair as DeserFn).map_err(|e| format!("batch_iter:{}", errs(e)))?;
				let mut got = vec![];
				walk(&mut it, &mut got, usize::MAX, cap).map_err(|e| format!("batch_iter_next:{}", e))?;
				if let Some(mut d) = first_diff(&got, &exp) {
					d["where"] = json!("batch_iter_after_child_drop");
					problems.push(d);
				}
			}
		}
		drop(b);
		if problems.is_empty() {
			let exp: Vec<(u64, u64)> = committed.iter().map(|(a, b)| (*a, *b)).collect();
			let mut it: It = store.iter(Some(SP), deser_pair as DeserFn).map_err(|e| format!("iter:{}", errs(e)))?;
			let mut got = vec![];
			walk(&mut it, &mut got, usize::MAX, cap).map_err(|e| format!("iter_next:{}", e))?;
			if let Some(mut d) = first_diff(&got, &exp) {
				d["where"] = json!("store_iter_after_drop");
				problems.push(d);
			}
		}
	}
	let pages_min = walks.iter().map(|w| w["pages_turned"].as_u64().unwrap_or(0)).min().unwrap_or(0);
	let class = if !problems.is_empty() {
		"mismatch"
	} else if pages_min < 2 {
		"not_exercised"
	} else {
		"ok"
	};
	Ok(json!({"class": class, "keys": nkeys, "pages_after_fill": fill_pages, "pages_final": data_pages(dir), "filler_batches": filler, "final_keys": model.len(), "walks": walks, "problems": problems,
		"map_bytes": std::fs::canonicalize(dir).ok().and_then(|p| map_region(&format!("{}/multi_lmdb/data.mdb", p.to_string_lossy()))).map(|m| m.1)}))
}

// ------------------------------------------------------------------------------------------

/// `rewrite --dir D [--batches N] [--wait-ms MS] [--hang S]`
pub fn rewrite(args: &Args) -> i32 {
	let dir = args.req("dir").to_string();
	let batches = args.u64("batches", 24);
	let wait_ms = args.u64("wait-ms", 700);
	let hang_s = args.u64("hang", 30);
	let _ = std::fs::remove_dir_all(&dir);
	let store = Arc::new(open_store(&dir).expect("open"));
	let cdir = std::fs::canonicalize(&dir).map(|p| p.to_string_lossy().to_string()).unwrap_or(dir.clone());
	let data_file = format!("{}/multi_lmdb/data.mdb", cdir);
	const NKEYS: u64 = 40;
	const LEN: usize = 16 * 1024;
	let mut model: HashMap<u64, u64> = HashMap::new();
	// 640 KiB of 16 KiB values in the 1 MiB test-mode map, nothing else open
	let mut k = 1;
	while k <= NKEYS {
		let r = (|| -> Result<(), String> {
			let mut b = store.batch().map_err(|e| format!("batch:{}", errs(e)))?;
			for key in k..(k + 2).min(NKEYS + 1) {
				b.put_ser(Some(b'P'), &kb(key), &Blob { v: key, len: LEN }).map_err(|e| format!("put:{}", errs(e)))?;
			}
			b.commit().map_err(|e| format!("commit:{}", errs(e)))
		})();
		if let Err(e) = r {
			let mut v = fail_value(&e);
			v["phase"] = json!("fill");
			emit_and_exit(v);
		}
		for key in k..(k + 2).min(NKEYS + 1) {
			model.insert(key, key);
		}
		k += 2;
	}
	let map0 = map_region(&data_file).map(|m| m.1).unwrap_or(0);
	let pages_filled = data_pages(&dir);
	// the reader: a second handle on the environment, an iterator pinned on the snapshot after the fill
	let mut second = match open_second(&dir) {
		Ok(s) => Some(s),
		Err(e) => emit_and_exit(json!({"class": "error", "op": "second_handle", "error": errs(e)})),
	};
	let snap0: Vec<(u64, u64)> = {
		let mut v: Vec<(u64, u64)> = model.iter().map(|(a, b)| (*a, *b)).collect();
		v.sort();
		v
	};
	let mut snap_exp = snap0.clone();
	let mut held: Option<It> = match second.as_ref().unwrap().iter(Some(b'P'), deser_pair as DeserFn) {
		Ok(it) => Some(it),
		Err(e) => emit_and_exit(json!({"class": "error", "op": "iter", "error": errs(e)})),
	};
	let mut seen: Vec<(u64, u64)> = vec![];
	let mut gates: Vec<Value> = vec![];
	let mut reopened_second = 0;
	let mut snapshots_checked = 0;
	// ends the pinned iterator: everything it hands out is the snapshot it was opened on, whole values
	let close_reader = |held: &mut Option<It>, seen: &mut Vec<(u64, u64)>, exp: &Vec<(u64, u64)>| -> Result<(), Value> {
		if let Some(mut it) = held.take() {
			loop {
				match conv_item(it.next()) {
					Ok(Some(p)) => seen.push(p),
					Ok(None) => break,
					Err(e) => return Err(json!({"class": "error", "op": "iter_next", "error": e})),
				}
				if seen.len() > 1000 {
					break;
				}
			}
			drop(it);
			if seen != exp {
				return Err(json!({"class": "snapshot_changed", "op": "iter_next", "seen": pairs_json(&seen[..seen.len().min(50)]), "expected": pairs_json(exp)}));
			}
			seen.clear();
		}
		Ok(())
	};
	for bi in 0..batches {
		// one item of the pinned iterator per batch: the read transaction is in use all along
		if let Some(it) = held.as_mut() {
			if seen.len() + 1 < snap_exp.len() {
				match conv_item(it.next()) {
					Ok(Some(p)) => seen.push(p),
					Ok(None) => {}
					Err(e) => emit_and_exit(json!({"class": "error", "op": "iter_next", "error": e, "batch": bi})),
				}
			}
		}
		// KV!NeedsResize, measured as LMDB measures when it allocates: by the last page of the data file
		let due = resize_due(&dir, &data_file);
		let pages_before = data_pages(&dir);
		let map_before = map_region(&data_file).map(|m| m.1).unwrap_or(0);
		let (got_tx, got_rx) = mpsc::channel::<()>();
		let (res_tx, res_rx) = mpsc::channel::<Result<(), String>>();
		let wstore = store.clone();
		let keys: Vec<u64> = (0..3).map(|j| 1 + (bi * 3 + j) % NKEYS).collect();
		let v = 1000 + bi;
		let wkeys = keys.clone();
		std::thread::spawn(move || {
			let r = catch_unwind(AssertUnwindSafe(|| -> Result<(), String> {
				let mut b = wstore.batch().map_err(|e| format!("batch:{}", errs(e)))?;
				let _ = got_tx.send(());
				for key in wkeys {
					b.put_ser(Some(b'P'), &kb(key), &Blob { v, len: LEN }).map_err(|e| format!("put:{}", errs(e)))?;
				}
				b.commit().map_err(|e| format!("commit:{}", errs(e)))
			}))
			.unwrap_or_else(|_| Err("panic:panic in code under test".to_string()));
			drop(wstore);
			let _ = res_tx.send(r);
		});
		let reader_open = held.is_some();
		let mut admitted = got_rx.recv_timeout(Duration::from_millis(wait_ms)).is_ok();
		if !admitted && !due {
			// a slow machine must not be mistaken for the gate
			admitted = got_rx.recv_timeout(Duration::from_millis(8 * wait_ms)).is_ok();
		}
		let map_now = map_region(&data_file).map(|m| m.1).unwrap_or(0);
		if reader_open && map_now != map_before {
			emit_and_exit(json!({"class": "remapped", "batch": bi, "map_before": map_before, "map_after": map_now, "pages": pages_before,
				"due_by_last_page": due, "writer_batch_returned": admitted}));
		}
		if admitted && due && map_now == map_before {
			// KV!ResizeGate: Begin(t) on a map that needs enlarging only if t holds another transaction - this writer holds none
			let res = res_rx.recv_timeout(Duration::from_secs(hang_s)).unwrap_or_else(|_| Err("hang:batch did not finish".to_string()));
			emit_and_exit(json!({"class": "due_not_enlarged", "batch": bi, "pages": pages_before, "map_bytes": map_before,
				"used_fraction_by_last_page": (pages_before.saturating_sub(1) * 4096) as f64 / map_before as f64,
				"reader_open": reader_open, "rewritten_batches": bi, "batch_result": res.err(), "gates": gates,
				"live_value_bytes": NKEYS as usize * LEN}));
		}
		if !admitted {
			// parked at the gate (KV!BeginWait): the enlargement waits for the pinned reader
			if let Err(v) = close_reader(&mut held, &mut seen, &snap_exp) {
				emit_and_exit(v);
			}
			snapshots_checked += 1;
			let t = Instant::now();
			if got_rx.recv_timeout(Duration::from_secs(hang_s)).is_err() {
				let e = res_rx.try_recv().ok().and_then(|r| r.err());
				emit_and_exit(json!({"class": if e.is_some() { "error" } else { "hang" }, "op": "batch", "phase": "batch_after_reader_closed", "error": e,
					"batch": bi, "pages": pages_before, "map_bytes": map_before, "bound_s": hang_s}));
			}
			let map_after = map_region(&data_file).map(|m| m.1).unwrap_or(0);
			gates.push(json!({"batch": bi, "due_by_last_page": due, "pages": pages_before, "map_before": map_before, "map_after": map_after,
				"gate_wait_ms": t.elapsed().as_millis() as u64}));
			if due && map_after <= map_before {
				let res = res_rx.recv_timeout(Duration::from_secs(hang_s)).unwrap_or_else(|_| Err("hang:batch did not finish".to_string()));
				emit_and_exit(json!({"class": "due_not_enlarged", "batch": bi, "pages": pages_before, "map_bytes": map_before, "after": "gate_wait",
					"used_fraction_by_last_page": (pages_before.saturating_sub(1) * 4096) as f64 / map_before as f64,
					"reader_open": false, "batch_result": res.err(), "gates": gates}));
			}
		}
		match res_rx.recv_timeout(Duration::from_secs(hang_s)) {
			Ok(Ok(())) => {
				for key in keys {
					model.insert(key, v);
				}
			}
			Ok(Err(e)) => {
				let mut f = fail_value(&e);
				f["batch"] = json!(bi);
				f["phase"] = json!("rewrite");
				f["pages"] = json!(data_pages(&dir));
				f["map_bytes"] = json!(map_region(&data_file).map(|m| m.1));
				f["due_by_last_page_at_batch"] = json!(due);
				f["reader_open"] = json!(reader_open);
				f["batch_value_bytes"] = json!(3 * LEN);
				emit_and_exit(f);
			}
			Err(_) => emit_and_exit(json!({"class": "hang", "op": "commit", "phase": "rewrite", "batch": bi, "bound_s": hang_s})),
		}
		if held.is_none() {
			// the second handle is dropped and opened again (Drop for Store / Store::new on a live environment), a new reader
			// pins the current snapshot
			second.take();
			match open_second(&dir) {
				Ok(s) => second = Some(s),
				Err(e) => emit_and_exit(json!({"class": "error", "op": "second_handle_reopen", "error": errs(e), "batch": bi})),
			}
			reopened_second += 1;
			snap_exp = model.iter().map(|(a, b)| (*a, *b)).collect();
			snap_exp.sort();
			held = match second.as_ref().unwrap().iter(Some(b'P'), deser_pair as DeserFn) {
				Ok(it) => Some(it),
				Err(e) => emit_and_exit(json!({"class": "error", "op": "iter", "error": errs(e), "batch": bi})),
			};
		}
	}
	if let Err(v) = close_reader(&mut held, &mut seen, &snap_exp) {
		emit_and_exit(v);
	}
	snapshots_checked += 1;
	drop(second);
	// everything committed is there (first handle, after the second one has gone)
	let mut fin: Vec<(u64, u64)> = match store.iter(Some(b'P'), deser_pair as DeserFn) {
		Ok(it) => match collect_iter(it) {
			Ok(v) => v,
			Err(e) => emit_and_exit(json!({"class": "error", "op": "final_iter", "error": e})),
		},
		Err(e) => emit_and_exit(json!({"class": "error", "op": "final_iter", "error": errs(e)})),
	};
	fin.sort();
	let mut exp: Vec<(u64, u64)> = model.iter().map(|(a, b)| (*a, *b)).collect();
	exp.sort();
	if fin != exp {
		emit_and_exit(json!({"class": "lost", "op": "final_iter", "got": pairs_json(&fin), "expected": pairs_json(&exp)}));
	}
	let map_final = map_region(&data_file).map(|m| m.1).unwrap_or(0);
	let enlarged = gates.iter().any(|g| g["due_by_last_page"] == true && g["map_after"].as_u64() > g["map_before"].as_u64());
	emit_and_exit(json!({"class": if enlarged { "ok" } else { "not_exercised" }, "batches": batches, "gates": gates, "map_initial": map0, "map_final": map_final,
		"pages_after_fill": pages_filled, "pages_final": data_pages(&dir), "live_value_bytes": NKEYS as usize * LEN,
		"second_handle_reopened": reopened_second, "pinned_snapshots_checked": snapshots_checked}))
}

// ------------------------------------------------------------------------------------------

/// `prodsize --dir D [--batches N]`
/// Production-mode sizing (KV!NeedsResize `mapSize < Chunk`, NewSize = Chunk; MC_KV_prodchunk): with a production chain type the
/// allocation chunk is 128 MiB and the map a fresh environment starts with is smaller: the first batch() has to enlarge it to
/// one chunk, nothing else ever does; 3 MiB written in 64 KiB batches then fit (they would not in the initial map).
pub fn prodsize(args: &Args) -> i32 {
	let dir = args.req("dir").to_string();
	let batches = args.u64("batches", 48);
	let _ = std::fs::remove_dir_all(&dir);
	global::set_local_chain_type(global::ChainTypes::Mainnet);
	let store = match open_store(&dir) {
		Ok(s) => s,
		Err(e) => emit_and_exit(json!({"class": "error", "op": "open", "error": errs(e)})),
	};
	let cdir = std::fs::canonicalize(&dir).map(|p| p.to_string_lossy().to_string()).unwrap_or(dir.clone());
	let data_file = format!("{}/multi_lmdb/data.mdb", cdir);
	let map0 = map_region(&data_file).map(|m| m.1).unwrap_or(0);
	let chunk = grin_store::lmdb::ALLOC_CHUNK_SIZE_DEFAULT as u64;
	if map0 == 0 || map0 >= chunk {
		emit_and_exit(json!({"class": "not_exercised", "map_initial": map0, "chunk": chunk}));
	}
	let mut map_first = 0;
	for bi in 0..batches {
		let r = (|| -> Result<(), String> {
			let mut b = store.batch().map_err(|e| format!("batch:{}", errs(e)))?;
			if bi == 0 {
				map_first = map_region(&data_file).map(|m| m.1).unwrap_or(0);
				if map_first < chunk {
					return Err(format!("due_not_enlarged:map {} -> {}", map0, map_first));
				}
			}
			for j in 0..4 {
				let key = 1 + bi * 4 + j;
				b.put_ser(Some(b'P'), &kb(key), &Blob { v: key, len: 16 * 1024 }).map_err(|e| format!("put:{}", errs(e)))?;
			}
			b.commit().map_err(|e| format!("commit:{}", errs(e)))
		})();
		if let Err(e) = r {
			let mut v = fail_value(&e);
			if e.starts_with("due_not_enlarged") {
				v["class"] = json!("due_not_enlarged");
			}
			v["batch"] = json!(bi);
			v["map_initial"] = json!(map0);
			v["map_bytes"] = json!(map_region(&data_file).map(|m| m.1));
			v["pages"] = json!(data_pages(&dir));
			v["chunk"] = json!(chunk);
			emit_and_exit(v);
		}
	}
	let got = match store.iter(Some(b'P'), deser_pair as DeserFn).map_err(errs).and_then(collect_iter) {
		Ok(v) => v,
		Err(e) => emit_and_exit(json!({"class": "error", "op": "final_iter", "error": e})),
	};
	let exp: Vec<(u64, u64)> = (1..=batches * 4).map(|k| (k, k)).collect();
	if got != exp {
		emit_and_exit(json!({"class": "lost", "op": "final_iter", "got_len": got.len(), "expected_len": exp.len()}));
	}
	emit_and_exit(json!({"class": "ok", "map_initial": map0, "map_after_first_batch": map_first, "chunk": chunk, "batches": batches,
		"pages_final": data_pages(&dir), "bytes_written": batches * 4 * 16 * 1024}))
}

// ------------------------------------------------------------------------------------------

/// `crashresize-child --dir D --log F --mode pending|resized|committed` (internal): the process that dies.
/// Rewrites 16 KiB values under a pinned reader until the enlargement is due, then abort()s
///   pending    while the writer's batch() is parked at the gate (resizing flag up, reader still open),
///   resized    right after the parked batch() has come back on the enlarged map (nothing written through it yet),
///   committed  right after the first commit on the enlarged map.
/// Every commit that has RETURNED is logged (fsynced line) before the next step.
pub fn crashresize_child(args: &Args) -> i32 {
	use std::io::Write;
	let dir = args.req("dir").to_string();
	let mode = args.req("mode").to_string();
	let mut log = std::fs::OpenOptions::new().create(true).append(true).open(args.req("log")).expect("log");
	let mut note = |v: Value| {
		writeln!(log, "{}", v).unwrap();
		log.sync_all().unwrap();
	};
	let _ = std::fs::remove_dir_all(&dir);
	let store = Arc::new(open_store(&dir).expect("open"));
	let cdir = std::fs::canonicalize(&dir).map(|p| p.to_string_lossy().to_string()).unwrap_or(dir.clone());
	let data_file = format!("{}/multi_lmdb/data.mdb", cdir);
	const LEN: usize = 16 * 1024;
	let mut bi = 0u64;
	// 40 keys filled, then rewritten 3 per batch
	let mut next_batch = |bi: u64| -> (Vec<u64>, u64) {
		if bi < 20 {
			(vec![1 + bi * 2, 2 + bi * 2], 1 + bi)
		} else {
			((0..3).map(|j| 1 + ((bi - 20) * 3 + j) % 40).collect(), 1 + bi)
		}
	};
	loop {
		let reader = if bi >= 20 { Some(store.iter(Some(b'P'), deser_pair as DeserFn).expect("iter")) } else { None };
		let (keys, v) = next_batch(bi);
		let (got_tx, got_rx) = mpsc::channel::<()>();
		let (go_tx, go_rx) = mpsc::channel::<()>();
		let (res_tx, res_rx) = mpsc::channel::<Result<(), String>>();
		let wstore = store.clone();
		let wkeys = keys.clone();
		std::thread::spawn(move || {
			let r = (|| -> Result<(), String> {
				let mut b = wstore.batch().map_err(errs)?;
				let _ = got_tx.send(());
				let _ = go_rx.recv();
				for key in wkeys {
					b.put_ser(Some(b'P'), &kb(key), &Blob { v, len: LEN }).map_err(errs)?;
				}
				b.commit().map_err(errs)
			})();
			let _ = res_tx.send(r);
		});
		let map_before = map_region(&data_file).map(|m| m.1).unwrap_or(0);
		let mut parked = false;
		if got_rx.recv_timeout(Duration::from_millis(700)).is_err() {
			if resize_due(&dir, &data_file) || got_rx.recv_timeout(Duration::from_secs(6)).is_err() {
				parked = true;
			}
		}
		if parked {
			note(json!({"k": "parked", "batch": bi, "map": map_before, "pages": data_pages(&dir)}));
			if mode == "pending" {
				std::process::abort();
			}
			drop(reader);
			if got_rx.recv_timeout(Duration::from_secs(30)).is_err() {
				note(json!({"k": "hang", "batch": bi}));
				return 3;
			}
			note(json!({"k": "admitted", "batch": bi, "map": map_region(&data_file).map(|m| m.1)}));
			if mode == "resized" {
				std::process::abort();
			}
		} else {
			drop(reader);
		}
		let _ = go_tx.send(());
		match res_rx.recv_timeout(Duration::from_secs(30)) {
			Ok(Ok(())) => note(json!({"k": "commit", "batch": bi, "keys": keys, "v": v})),
			Ok(Err(e)) => {
				note(json!({"k": "error", "batch": bi, "error": e}));
				return 4;
			}
			Err(_) => {
				note(json!({"k": "hang", "batch": bi}));
				return 3;
			}
		}
		if parked && mode == "committed" {
			std::process::abort();
		}
		bi += 1;
		if bi > 80 {
			note(json!({"k": "never_parked"}));
			return 5;
		}
	}
}

/// `crashresize --dir D [--modes pending,resized,committed]`: kills a process around a map enlargement and restarts on its files
/// (KV!Crash in a state with `resizing` up / right after KV!Resize / after the first Commit on the new map; CrashDurable,
/// NoMapFull afterwards): every commit that had returned is there, whole, nothing else; the restarted store takes the
/// next rewrites (48 KiB batches, a reader of another thread pinned) without running out of space.
pub fn crashresize(args: &Args) -> i32 {
	let dir = args.req("dir").to_string();
	let modes: Vec<String> = args.get("modes").unwrap_or("pending,resized,committed").split(',').map(|s| s.to_string()).collect();
	let exe = std::env::current_exe().expect("exe");
	let mut runs = vec![];
	for mode in modes {
		let d = format!("{}/{}", dir, mode);
		let _ = std::fs::remove_dir_all(&d);
		std::fs::create_dir_all(&d).expect("mkdir");
		let logp = format!("{}/child.log", dir);
		let _ = std::fs::remove_file(&logp);
		let st = std::process::Command::new(&exe)
			.args(["crashresize-child", "--dir", &d, "--log", &logp, "--mode", &mode])
			.stdout(std::process::Stdio::null())
			.stderr(std::process::Stdio::null())
			.status()
			.expect("spawn");
		let evs = read_ndjson(&logp);
		use std::os::unix::process::ExitStatusExt;
		let last = evs.last().cloned().unwrap_or(json!({}));
		if st.signal() != Some(6) {
			// the child did not die where it was meant to: its own report says why (an error of the store is data)
			let class = match last["k"].as_str() {
				Some("error") if last["error"].as_str().unwrap_or("").contains("MAP_FULL") => "mapfull",
				Some("error") => "error",
				Some("hang") => "hang",
				_ => "harness",
			};
			emit_and_exit(json!({"class": class, "op": "child", "mode": mode, "status": format!("{:?}", st), "last": last}));
		}
		let mut model: HashMap<u64, u64> = HashMap::new();
		for e in &evs {
			if e["k"] == "commit" {
				for k in e["keys"].as_array().unwrap() {
					model.insert(k.as_u64().unwrap(), e["v"].as_u64().unwrap());
				}
			}
		}
		let map_child = evs.iter().rev().find_map(|e| e["map"].as_u64());
		// restart
		let store = match open_store(&d) {
			Ok(s) => Arc::new(s),
			Err(e) => emit_and_exit(json!({"class": "error", "op": "reopen", "mode": mode, "error": errs(e)})),
		};
		let cdir = std::fs::canonicalize(&d).map(|p| p.to_string_lossy().to_string()).unwrap_or(d.clone());
		let data_file = format!("{}/multi_lmdb/data.mdb", cdir);
		let map_reopened = map_region(&data_file).map(|m| m.1).unwrap_or(0);
		let check = |store: &Store, model: &HashMap<u64, u64>, op: &str| -> Result<(), Value> {
			let mut got = store.iter(Some(b'P'), deser_pair as DeserFn).map_err(errs).and_then(collect_iter).map_err(|e| json!({"class": "error", "op": op, "error": e}))?;
			got.sort();
			let mut exp: Vec<(u64, u64)> = model.iter().map(|(a, b)| (*a, *b)).collect();
			exp.sort();
			if got != exp {
				let diff: Vec<Value> = exp.iter().filter(|p| !got.contains(p)).take(5).map(|p| json!([p.0, p.1, got.iter().find(|g| g.0 == p.0).map(|g| g.1)])).collect();
				return Err(json!({"class": "lost", "op": op, "differences_key_expected_got": diff, "got_len": got.len(), "expected_len": exp.len()}));
			}
			Ok(())
		};
		if let Err(mut v) = check(&store, &model, "contents_after_restart") {
			v["mode"] = json!(mode);
			emit_and_exit(v);
		}
		// the restarted store goes on: rewrites under a pinned reader of another thread (this one), the writer on a thread of its own
		let mut enlarged_after = false;
		for bi in 0..8u64 {
			let reader = store.iter(Some(b'P'), deser_pair as DeserFn);
			let keys: Vec<u64> = (0..3).map(|j| 1 + (bi * 3 + j) % 40).collect();
			let v = 5000 + bi;
			let (got_tx, got_rx) = mpsc::channel::<()>();
			let (res_tx, res_rx) = mpsc::channel::<Result<(), String>>();
			let wstore = store.clone();
			let wkeys = keys.clone();
			std::thread::spawn(move || {
				let r = (|| -> Result<(), String> {
					let mut b = wstore.batch().map_err(|e| format!("batch:{}", errs(e)))?;
					let _ = got_tx.send(());
					for key in wkeys {
						b.put_ser(Some(b'P'), &kb(key), &Blob { v, len: 16 * 1024 }).map_err(|e| format!("put:{}", errs(e)))?;
					}
					b.commit().map_err(|e| format!("commit:{}", errs(e)))
				})();
				drop(wstore);
				let _ = res_tx.send(r);
			});
			let map_b = map_region(&data_file).map(|m| m.1).unwrap_or(0);
			if got_rx.recv_timeout(Duration::from_millis(700)).is_err() && (resize_due(&d, &data_file) || got_rx.recv_timeout(Duration::from_secs(6)).is_err()) {
				drop(reader);
				if got_rx.recv_timeout(Duration::from_secs(30)).is_err() {
					emit_and_exit(json!({"class": "hang", "op": "batch", "phase": "after_restart", "mode": mode, "batch": bi, "bound_s": 30}));
				}
				enlarged_after |= map_region(&data_file).map(|m| m.1).unwrap_or(0) > map_b;
			} else {
				drop(reader);
			}
			match res_rx.recv_timeout(Duration::from_secs(30)) {
				Ok(Ok(())) => {
					for k in keys {
						model.insert(k, v);
					}
				}
				Ok(Err(e)) => {
					let mut f = fail_value(&e);
					f["mode"] = json!(mode);
					f["phase"] = json!("after_restart");
					f["batch"] = json!(bi);
					f["map_reopened"] = json!(map_reopened);
					f["map_child"] = json!(map_child);
					f["pages"] = json!(data_pages(&d));
					emit_and_exit(f);
				}
				Err(_) => emit_and_exit(json!({"class": "hang", "op": "commit", "phase": "after_restart", "mode": mode, "batch": bi, "bound_s": 30})),
			}
		}
		if let Err(mut v) = check(&store, &model, "contents_after_more_writes") {
			v["mode"] = json!(mode);
			emit_and_exit(v);
		}
		runs.push(json!({"mode": mode, "child_commits": evs.iter().filter(|e| e["k"] == "commit").count(), "child_last": last["k"], "map_child": map_child,
			"map_reopened": map_reopened, "map_final": map_region(&data_file).map(|m| m.1), "enlarged_after_restart": enlarged_after, "pages_final": data_pages(&d)}));
		drop(store);
		let _ = std::fs::remove_dir_all(&d);
	}
	emit_and_exit(json!({"class": "ok", "runs": runs}))
}
