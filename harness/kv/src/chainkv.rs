//! C18, chain/src/store.rs: the TLC behaviours of KV.tla replayed on a real grin_chain::ChainStore through its typed accessors
//! (ChainStore::batch / Batch::child / commit and the batch-scoped getters the block pipeline relies on). Same model, same
//! expectations as `replay`; the abstraction map is
//!   space 1, key k, value v  <->  block sums of block hash [k; 32]: BlockSums { utxo_sum: [v; 33], kernel_sum: [v + 100; 33] }
//!                                 (even behaviours)  or  the spent index of that block: [CommitPos { pos: v, height: k }; v] (odd ones)
//!   space 2, key k, value v  <->  output_pos index entry of commitment [k; 33]: CommitPos { pos: v, height: 10 + v }
//! After every action every inside read at the innermost level (get_block_sums / get_spent_index / get_output_pos_height /
//! get_output_pos / output_pos_iter) and every outside read (ChainStore::get_block_sums / get_output_pos_height) must equal
//! the model's projection. Crash = the ChainStore is dropped with the batch open and opened again.
use super::*;
use grin_chain::store::Batch as CBatch;
use grin_chain::types::CommitPos;
use grin_chain::ChainStore;
use grin_core::core::hash::Hash;
use grin_core::core::BlockSums;
use grin_util::secp::pedersen::Commitment;

const BLOCK_SPENT_PREFIX: u8 = b'S';
const BLOCK_SUMS_PREFIX: u8 = b'M';

fn hash_of(k: u64) -> Hash {
	Hash::from_vec(&[k as u8; 32])
}
fn commit_of(k: u64) -> Commitment {
	Commitment::from_vec(vec![k as u8; 33])
}

struct CRun<'a> {
	steps: &'a [Value],
	pos: usize,
	nk: u64,
	spent: bool,
	checks: u64,
	mism: Vec<Value>,
	counts: &'a mut std::collections::BTreeMap<String, u64>,
}

enum CFlow {
	Commit(usize),
	Drop(usize),
	Crash(usize),
	End,
	Abort,
}

fn class_of<T>(r: &Result<T, SErr>) -> String {
	match r {
		Ok(_) => "ok".to_string(),
		Err(e) => format!("{:?}", e).chars().take(120).collect(),
	}
}

fn lists(v: &Value) -> Vec<Vec<(u64, u64)>> {
	(0..2)
		.map(|sp| {
			v.get(sp)
				.and_then(|x| x.as_array())
				.map(|a| a.iter().map(|p| (p[0].as_u64().unwrap(), p[1].as_u64().unwrap())).collect())
				.unwrap_or_default()
		})
		.collect()
}

impl<'a> CRun<'a> {
	fn miss(&mut self, step: usize, op: &str, sp: u64, key: u64, expected: Value, observed: Value) {
		if self.mism.len() < 8 {
			self.mism.push(json!({"step": step, "op": op, "sp": sp, "key": key, "expected": expected, "observed": observed, "spent_index": self.spent}));
		}
	}
	fn next_step(&mut self) -> Option<(usize, String)> {
		if self.pos >= self.steps.len() || !self.mism.is_empty() {
			return None;
		}
		let i = self.pos;
		self.pos += 1;
		CUR_STEP.store(i as u64, SeqCst);
		PROGRESS.fetch_add(1, SeqCst);
		let k = self.steps[i]["a"]["k"].as_str().unwrap_or("?").to_string();
		*self.counts.entry(k.clone()).or_insert(0) += 1;
		Some((i, k))
	}
	/// every read of the projected state after step i
	fn after(&mut self, i: usize, store: &ChainStore, b: Option<&CBatch>) {
		let step = self.steps[i].clone();
		if let Some(b) = b {
			let exp = lists(&step["in"]);
			for key in 1..=self.nk {
				let e1 = exp[0].iter().find(|p| p.0 == key).map(|p| p.1);
				if self.spent {
					let got = match b.get_spent_index(&hash_of(key)) {
						Ok(v) => {
							if v.is_empty() || v.iter().any(|c| c.pos != v[0].pos || c.height != key) || v.len() as u64 != v[0].pos {
								Some(u64::MAX)
							} else {
								Some(v[0].pos)
							}
						}
						Err(SErr::NotFoundErr(_)) => None,
						Err(e) => {
							self.miss(i, "get_spent_index", 1, key, json!(e1), json!({"error": format!("{:?}", e)}));
							None
						}
					};
					self.checks += 1;
					if got != e1 {
						self.miss(i, "batch.get_spent_index", 1, key, json!(e1), json!(got));
					}
				} else {
					let got = match b.get_block_sums(&hash_of(key)) {
						Ok(s) => {
							let v = s.utxo_sum.0[0] as u64;
							if s.utxo_sum != commit_of(v) || s.kernel_sum != commit_of(v + 100) {
								Some(u64::MAX)
							} else {
								Some(v)
							}
						}
						Err(SErr::NotFoundErr(_)) => None,
						Err(e) => {
							self.miss(i, "get_block_sums", 1, key, json!(e1), json!({"error": format!("{:?}", e)}));
							None
						}
					};
					self.checks += 1;
					if got != e1 {
						self.miss(i, "batch.get_block_sums", 1, key, json!(e1), json!(got));
					}
				}
				let e2 = exp[1].iter().find(|p| p.0 == key).map(|p| p.1);
				let got = match b.get_output_pos_height(&commit_of(key)) {
					Ok(x) => x.map(|c| if c.height == 10 + c.pos { c.pos } else { u64::MAX }),
					Err(e) => {
						self.miss(i, "get_output_pos_height", 2, key, json!(e2), json!({"error": format!("{:?}", e)}));
						None
					}
				};
				self.checks += 1;
				if got != e2 {
					self.miss(i, "batch.get_output_pos_height", 2, key, json!(e2), json!(got));
				}
				let got = b.get_output_pos(&commit_of(key)).ok().map(|p| p + 1);
				self.checks += 1;
				if got != e2 {
					self.miss(i, "batch.get_output_pos", 2, key, json!(e2), json!(got));
				}
			}
			// the whole output_pos index, in key order
			let got: Result<Vec<(u64, u64)>, String> = match b.output_pos_iter() {
				Ok(it) => it
					.map(|x| match x {
						Ok((k, c)) if k.len() == 33 && k.iter().all(|y| *y == k[0]) && c.height == 10 + c.pos => Ok((k[0] as u64, c.pos)),
						Ok((k, c)) => Err(format!("foreign entry {:?} {:?}", k, c)),
						Err(e) => Err(format!("{:?}", e)),
					})
					.collect(),
				Err(e) => Err(format!("{:?}", e)),
			};
			self.checks += 1;
			match got {
				Ok(l) if l == exp[1] => {}
				other => self.miss(i, "batch.output_pos_iter", 2, 0, pairs_json(&exp[1]), json!(format!("{:?}", other))),
			}
		}
		let exp = lists(&step["out"]);
		for key in 1..=self.nk {
			if !self.spent {
				let e1 = exp[0].iter().find(|p| p.0 == key).map(|p| p.1);
				let got = match store.get_block_sums(&hash_of(key)) {
					Ok(s) => Some(s.utxo_sum.0[0] as u64),
					Err(SErr::NotFoundErr(_)) => None,
					Err(e) => {
						self.miss(i, "store.get_block_sums", 1, key, json!(e1), json!({"error": format!("{:?}", e)}));
						None
					}
				};
				self.checks += 1;
				if got != e1 {
					self.miss(i, "store.get_block_sums", 1, key, json!(e1), json!(got));
				}
			}
			let e2 = exp[1].iter().find(|p| p.0 == key).map(|p| p.1);
			let got = store.get_output_pos_height(&commit_of(key)).ok().flatten().map(|c| c.pos);
			self.checks += 1;
			if got != e2 {
				self.miss(i, "store.get_output_pos_height", 2, key, json!(e2), json!(got));
			}
		}
	}

	fn level(&mut self, store: &ChainStore, b: &mut CBatch, depth: usize) -> CFlow {
		loop {
			let (i, k) = match self.next_step() {
				Some(x) => x,
				None => return CFlow::End,
			};
			let a = self.steps[i]["a"].clone();
			match k.as_str() {
				"Put" | "Del" => {
					let sp = a["sp"].as_u64().unwrap();
					let key = a["key"].as_u64().unwrap();
					let v = a["val"].as_u64().unwrap_or(0);
					let r = match (sp, k.as_str(), self.spent) {
						(1, "Put", false) => b.save_block_sums(&hash_of(key), BlockSums { utxo_sum: commit_of(v), kernel_sum: commit_of(v + 100) }),
						(1, "Del", false) => b.delete(Some(BLOCK_SUMS_PREFIX), hash_of(key).as_ref()),
						(1, "Put", true) => b.save_spent_index(&hash_of(key), &vec![CommitPos { pos: v, height: key }; v as usize]),
						(1, "Del", true) => b.delete(Some(BLOCK_SPENT_PREFIX), hash_of(key).as_ref()),
						(_, "Put", _) => b.save_output_pos_height(&commit_of(key), CommitPos { pos: v, height: 10 + v }),
						_ => b.delete_output_pos_height(&commit_of(key)),
					};
					if r.is_err() {
						self.miss(i, &k, sp, key, json!("ok"), json!(class_of(&r)));
					}
					self.after(i, store, Some(&*b));
				}
				"Child" => {
					let flow = {
						let mut c = match b.child() {
							Ok(c) => c,
							Err(e) => {
								self.miss(i, "Child", 0, 0, json!("ok"), json!(format!("{:?}", e)));
								return CFlow::Abort;
							}
						};
						self.after(i, store, Some(&c));
						match self.level(store, &mut c, depth + 1) {
							CFlow::Commit(j) => {
								let r = c.commit();
								if r.is_err() {
									self.miss(j, "CommitChild", 0, 0, json!("ok"), json!(class_of(&r)));
								}
								Some(j)
							}
							CFlow::Drop(j) => {
								drop(c);
								Some(j)
							}
							CFlow::Crash(j) => return CFlow::Crash(j),
							CFlow::End => return CFlow::End,
							CFlow::Abort => return CFlow::Abort,
						}
					};
					if let Some(j) = flow {
						self.after(j, store, Some(&*b));
					}
				}
				"CommitChild" if depth >= 2 => return CFlow::Commit(i),
				"DropChild" if depth >= 2 => return CFlow::Drop(i),
				"Commit" if depth == 1 => return CFlow::Commit(i),
				"Drop" if depth == 1 => return CFlow::Drop(i),
				"Crash" => return CFlow::Crash(i),
				// store iterators / reads in flight of the KV layer: no ChainStore counterpart, the state does not change
				"OutIterOpen" | "OutIterNext" | "OutIterClose" | "ReadBegin" | "ReadEnd" => self.after(i, store, Some(&*b)),
				_ => {
					self.miss(i, "malformed", 0, 0, json!(k), json!(depth));
					return CFlow::Abort;
				}
			}
		}
	}
}

fn run_chain_behaviour(dir: &str, nk: u64, spent: bool, steps: &[Value], counts: &mut std::collections::BTreeMap<String, u64>) -> (u64, Vec<Value>) {
	let _ = std::fs::remove_dir_all(dir);
	let mut run = CRun { steps, pos: 0, nk, spent, checks: 0, mism: vec![], counts };
	let mut pending: Option<usize> = None;
	'epoch: loop {
		let store = match ChainStore::new(dir, None) {
			Ok(s) => s,
			Err(e) => {
				run.miss(pending.unwrap_or(0), "open", 0, 0, json!("ok"), json!(format!("{:?}", e)));
				break;
			}
		};
		if let Some(j) = pending.take() {
			run.after(j, &store, None);
		}
		loop {
			let (i, k) = match run.next_step() {
				Some(x) => x,
				None => break 'epoch,
			};
			match k.as_str() {
				"Begin" => {
					let mut b = match store.batch() {
						Ok(b) => b,
						Err(e) => {
							run.miss(i, "Begin", 0, 0, json!("ok"), json!(format!("{:?}", e)));
							break 'epoch;
						}
					};
					run.after(i, &store, Some(&b));
					match run.level(&store, &mut b, 1) {
						CFlow::Commit(j) => {
							let r = b.commit();
							if r.is_err() {
								run.miss(j, "Commit", 0, 0, json!("ok"), json!(class_of(&r)));
							}
							run.after(j, &store, None);
						}
						CFlow::Drop(j) => {
							drop(b);
							run.after(j, &store, None);
						}
						CFlow::Crash(j) => {
							drop(b);
							pending = Some(j);
							drop(store);
							continue 'epoch;
						}
						_ => break 'epoch,
					}
				}
				"Crash" => {
					pending = Some(i);
					drop(store);
					continue 'epoch;
				}
				"OutIterOpen" | "OutIterNext" | "OutIterClose" | "ReadBegin" | "ReadEnd" => run.after(i, &store, None),
				_ => {
					run.miss(i, "malformed", 0, 0, json!(k), json!(0));
					break 'epoch;
				}
			}
		}
	}
	(run.checks, run.mism)
}

/// `chainreplay --cases F --out F --dir D [--nk N]`
pub fn chainreplay(args: &Args) -> i32 {
	let cases = read_ndjson(args.req("cases"));
	let outp = args.req("out").to_string();
	let dir = args.req("dir").to_string();
	let nk = args.u64("nk", 3);
	let hang_s = args.u64("hang", 20);
	{
		let outp = outp.clone();
		std::thread::spawn(move || {
			let mut last = (0u64, Instant::now());
			loop {
				std::thread::sleep(Duration::from_millis(250));
				if DONE.load(SeqCst) {
					return;
				}
				let p = PROGRESS.load(SeqCst);
				if p != last.0 {
					last = (p, Instant::now());
				} else if last.1.elapsed() > Duration::from_secs(hang_s) {
					let h = json!({"hang": true, "behaviour": CUR_BEH.load(SeqCst), "after_step": CUR_STEP.load(SeqCst)});
					std::fs::write(format!("{}.hang", outp), h.to_string()).unwrap();
					std::process::exit(0);
				}
			}
		});
	}
	let mut out = NdWriter::create(&outp);
	let mut counts = std::collections::BTreeMap::new();
	let mut total = 0u64;
	for (bi, c) in cases.iter().enumerate() {
		CUR_BEH.store(bi as u64, SeqCst);
		CUR_STEP.store(0, SeqCst);
		PROGRESS.fetch_add(1, SeqCst);
		let steps = c.as_array().expect("behaviour = array of steps").clone();
		let spent = bi % 2 == 1;
		let d = format!("{}/c", dir);
		let r = catch_unwind(AssertUnwindSafe(|| run_chain_behaviour(&d, nk, spent, &steps, &mut counts)));
		let (checks, mism) = match r {
			Ok(x) => x,
			Err(_) => (0, vec![json!({"step": CUR_STEP.load(SeqCst), "op": "panic", "observed": "panic in code under test"})]),
		};
		total += checks;
		out.put(&json!({"i": bi, "steps": steps.len(), "checks": checks, "spent_index": spent, "mismatches": mism}));
	}
	DONE.store(true, SeqCst);
	out.finish();
	println!("{}", json!({"behaviours": cases.len(), "checks": total, "actions": counts}));
	0
}
