//! C18 engine: grin_store::Store / Batch / child() / iterators / map resize against spec/KV.tla.
//!
//!   replay       direction A: TLC behaviours replayed on a real Store, every read compared
//!   record       direction B(i): writers + reader + iterator threads, interval-stamped trace
//!   crash        direction B(ii): child processes abort()ing right before / after commit()
//!   crash-child  (internal) the process that dies
//!   gate         directed: deferred enlargement behind another thread's iterator
//!   nested       directed: one thread holds an iterator, looks items up, writes and opens more transactions while
//!                the map crosses 90 % (KV!Begin under one's own iterator, KV!NoHolderParked / GateLive)
//!   bigbatch     directed: ONE batch that needs more than what is free in the map (KV!NoMapFull without SmallBatches)
//!   reopen       directed: a db grown past one chunk is closed and reopened; the map comes back as it was persisted and the
//!                first write - under the writer's own iterator - has the room it had before (KV!Crash, HeadroomKept)
//!   squeeze      directed (KV!NoMapFull without SqueezedFits): a batch below 10 % of the map opened by a thread that holds its own iterator on
//!                a map that is more than 90 % full (no enlargement can take place before it)
//!   inflight     directed: a single-key read stopped in the middle of its value while a writer needs the
//!                enlargement (KV!ReadBegin .. ReadEnd, KV!CountAgrees / NoRemapUnderTxn)
use grin_core::global;
use grin_core::ser::{self, Readable, Reader, Writeable, Writer};
use grin_store::{Batch, DatabaseIterator, Error as SErr, Store};
use rand::rngs::StdRng;
use rand::{Rng, SeedableRng};
use serde_json::{json, Value};
use std::cell::RefCell;
use std::collections::HashMap;
use std::panic::{catch_unwind, AssertUnwindSafe};
use std::sync::atomic::{AtomicBool, AtomicU64, Ordering::SeqCst};
use std::sync::{mpsc, Arc, Mutex};
use std::time::{Duration, Instant};
use vcommon::*;

mod chainkv;
mod extra;

fn main() {
	quiet_panics();
	global::init_global_chain_type(global::ChainTypes::AutomatedTesting);
	global::set_local_chain_type(global::ChainTypes::AutomatedTesting);
	let a: Vec<String> = std::env::args().skip(1).collect();
	let args = Args::parse(&a);
	let rc = match args.pos.get(0).map(|s| s.as_str()) {
		Some("replay") => replay(&args),
		Some("record") => record(&args),
		Some("crash") => crash_parent(&args),
		Some("crash-child") => crash_child(&args),
		Some("race") => race(&args),
		Some("gate") => gate(&args),
		Some("nested") => nested(&args),
		Some("inflight") => inflight(&args),
		Some("squeeze") => squeeze(&args),
		Some("bigbatch") => bigbatch(&args),
		Some("reopen") => reopen(&args),
		Some("pages") => extra::pages(&args),
		Some("prodsize") => extra::prodsize(&args),
		Some("crashresize") => extra::crashresize(&args),
		Some("crashresize-child") => extra::crashresize_child(&args),
		Some("chainreplay") => chainkv::chainreplay(&args),
		Some("rewrite") => extra::rewrite(&args),
		_ => {
			eprintln!("kv replay|record|crash|race|gate|nested|inflight");
			2
		}
	};
	std::process::exit(rc);
}

// ------------------------------------------------------------------------------------------
// abstraction map: model value v <-> Blob, key k <-> 2 big-endian bytes, space <-> prefix db

/// Value: (v, len) header followed by `len` filler bytes derived from v (torn reads are detectable).
#[derive(Clone, Debug, PartialEq)]
struct Blob {
	v: u64,
	len: usize,
}

fn fill(v: u64, len: usize) -> Vec<u8> {
	(0..len).map(|i| (v as usize * 31 + i * 7 + (i >> 8)) as u8).collect()
}

impl Writeable for Blob {
	fn write<W: Writer>(&self, w: &mut W) -> Result<(), ser::Error> {
		w.write_u64(self.v)?;
		w.write_u64(self.len as u64)?;
		w.write_fixed_bytes(fill(self.v, self.len))
	}
}

impl Readable for Blob {
	fn read<R: Reader>(r: &mut R) -> Result<Blob, ser::Error> {
		let v = r.read_u64()?;
		let len = r.read_u64()? as usize;
		let bytes = r.read_fixed_bytes(len)?;
		if bytes != fill(v, len) {
			return Err(ser::Error::CorruptedData);
		}
		Ok(Blob { v, len })
	}
}

/// Independent decoder for the raw bytes an iterator hands out.
fn decode_blob(b: &[u8]) -> Result<u64, String> {
	if b.len() < 16 {
		return Err(format!("short value ({} bytes)", b.len()));
	}
	let mut x = [0u8; 8];
	x.copy_from_slice(&b[0..8]);
	let v = u64::from_be_bytes(x);
	x.copy_from_slice(&b[8..16]);
	let len = u64::from_be_bytes(x) as usize;
	if b.len() != 16 + len || b[16..] != fill(v, len)[..] {
		return Err(format!("corrupt value v={} len={} got {} bytes", v, len, b.len()));
	}
	Ok(v)
}

// ------------------------------------------------------------------------------------------
// A single-key read caught in flight (KV!ReadBegin .. ReadEnd): Store::get_ser of a value whose Readable stops
// half way through its bytes - inside the read transaction, the second half still unread in the memory map -
// until it is released.

enum ReaderMsg {
	/// the read transaction is open and half of the value has been read
	InFlight,
	Done(Result<Option<u64>, String>),
}

thread_local! {
	static PAUSE: RefCell<Option<(mpsc::Sender<ReaderMsg>, mpsc::Receiver<()>)>> = RefCell::new(None);
}

/// Same bytes as Blob; pauses once (when its thread has armed PAUSE) between the two halves of the value.
struct PausedBlob {
	v: u64,
}

impl Readable for PausedBlob {
	fn read<R: Reader>(r: &mut R) -> Result<PausedBlob, ser::Error> {
		let v = r.read_u64()?;
		let len = r.read_u64()? as usize;
		let h = len / 2;
		let mut bytes = r.read_fixed_bytes(h)?;
		if let Some((tx, rx)) = PAUSE.with(|p| p.borrow_mut().take()) {
			let _ = tx.send(ReaderMsg::InFlight);
			let _ = rx.recv();
		}
		bytes.extend(r.read_fixed_bytes(len - h)?);
		if bytes != fill(v, len) {
			return Err(ser::Error::CorruptedData);
		}
		Ok(PausedBlob { v })
	}
}

struct Inflight {
	release: mpsc::Sender<()>,
	msgs: mpsc::Receiver<ReaderMsg>,
	/// the call came back without pausing (absent key: nothing to deserialize)
	early: Option<Result<Option<u64>, String>>,
}

/// Starts store.get_ser(s, key) on a thread of its own and returns once it is in flight (or already over).
fn start_paused_read(store: Arc<Store>, s: Option<u8>, key: u64, wait: Duration) -> Result<Inflight, String> {
	let (mtx, mrx) = mpsc::channel();
	let (rtx, rrx) = mpsc::channel();
	let mtx2 = mtx.clone();
	std::thread::spawn(move || {
		PAUSE.with(|p| *p.borrow_mut() = Some((mtx2, rrx)));
		let r = catch_unwind(AssertUnwindSafe(|| {
			store.get_ser::<PausedBlob>(s, &kb(key), None).map(|x| x.map(|b| b.v)).map_err(errs)
		}));
		PAUSE.with(|p| *p.borrow_mut() = None);
		drop(store);
		let _ = mtx.send(ReaderMsg::Done(r.unwrap_or_else(|_| Err("panic in Store::get_ser".to_string()))));
	});
	match mrx.recv_timeout(wait) {
		Ok(ReaderMsg::InFlight) => Ok(Inflight { release: rtx, msgs: mrx, early: None }),
		Ok(ReaderMsg::Done(r)) => Ok(Inflight { release: rtx, msgs: mrx, early: Some(r) }),
		Err(_) => Err("Store::get_ser neither paused nor returned".to_string()),
	}
}

impl Inflight {
	fn in_flight(&self) -> bool {
		self.early.is_none()
	}
	/// Lets the read go on; None if it does not come back within `wait`.
	fn finish(self, wait: Duration) -> Option<Result<Option<u64>, String>> {
		if let Some(r) = self.early {
			return Some(r);
		}
		let _ = self.release.send(());
		match self.msgs.recv_timeout(wait) {
			Ok(ReaderMsg::Done(r)) => Some(r),
			Ok(ReaderMsg::InFlight) => Some(Err("paused twice".to_string())),
			Err(_) => None,
		}
	}
}

fn kb(k: u64) -> [u8; 2] {
	(k as u16).to_be_bytes()
}

fn key_of(b: &[u8]) -> Result<u64, String> {
	if b.len() != 2 {
		return Err(format!("foreign key {:?}", b));
	}
	Ok(u16::from_be_bytes([b[0], b[1]]) as u64)
}

#[derive(Clone, Copy)]
struct Cfg {
	ns: u64,
	nk: u64,
	/// map the last key space to the default (unprefixed) database
	defdb: bool,
}

impl Cfg {
	fn space(&self, sp: u64) -> Option<u8> {
		if self.defdb && sp == self.ns {
			None
		} else {
			Some(b'O' + sp as u8) // 1 -> 'P', 2 -> 'Q', ...
		}
	}
}

fn open_store(dir: &str) -> Result<Store, SErr> {
	Store::new(dir, None, Some("kv"), vec![b'P', b'Q', b'R'], None, None)
}

type KVPair = (Vec<u8>, Vec<u8>);
type DeserFn = fn(&[u8], &[u8]) -> Result<KVPair, SErr>;
fn deser_pair(k: &[u8], v: &[u8]) -> Result<KVPair, SErr> {
	Ok((k.to_vec(), v.to_vec()))
}
type It<'a> = DatabaseIterator<'a, DeserFn, KVPair>;

fn conv_item(x: Option<Result<KVPair, SErr>>) -> Result<Option<(u64, u64)>, String> {
	match x {
		None => Ok(None),
		Some(Err(e)) => Err(format!("{:?}", e)),
		Some(Ok((k, v))) => Ok(Some((key_of(&k)?, decode_blob(&v)?))),
	}
}

fn collect_iter(it: It) -> Result<Vec<(u64, u64)>, String> {
	let mut res = vec![];
	for x in it {
		match conv_item(Some(x))? {
			Some(p) => res.push(p),
			None => {}
		}
	}
	Ok(res)
}

fn pairs_json(v: &[(u64, u64)]) -> Value {
	Value::Array(v.iter().map(|(a, b)| json!([a, b])).collect())
}

fn errs(e: SErr) -> String {
	format!("{:?}", e)
}

// ------------------------------------------------------------------------------------------
// Direction A

static PROGRESS: AtomicU64 = AtomicU64::new(0);
static CUR_BEH: AtomicU64 = AtomicU64::new(0);
static CUR_STEP: AtomicU64 = AtomicU64::new(0);
static DONE: AtomicBool = AtomicBool::new(false);

enum OutCmd {
	Probe,
	IterOpen(usize, u64),
	IterNext(usize),
	IterClose(usize),
	Quit,
}

struct SpaceObs {
	gets: Vec<Result<Option<u64>, String>>,
	exists: Vec<Result<bool, String>>,
	iter: Result<Vec<(u64, u64)>, String>,
}

enum OutRes {
	Probe(Vec<SpaceObs>),
	Next(Result<Option<(u64, u64)>, String>),
	Done(Result<(), String>),
}

/// The "other thread": every outside read of a behaviour is executed here.
fn out_thread(store: &Store, cfg: Cfg, rx: mpsc::Receiver<OutCmd>, tx: mpsc::Sender<OutRes>) {
	let mut its: Vec<Option<It>> = vec![];
	for _ in 0..4 {
		its.push(None);
	}
	while let Ok(cmd) = rx.recv() {
		let res = match cmd {
			OutCmd::Quit => break,
			OutCmd::Probe => {
				let mut obs = vec![];
				for sp in 1..=cfg.ns {
					let s = cfg.space(sp);
					let mut o = SpaceObs {
						gets: vec![],
						exists: vec![],
						iter: Ok(vec![]),
					};
					for k in 1..=cfg.nk {
						o.gets.push(
							store
								.get_ser::<Blob>(s, &kb(k), None)
								.map(|x| x.map(|b| b.v))
								.map_err(errs),
						);
						o.exists.push(store.exists(s, &kb(k)).map_err(errs));
					}
					o.iter = match store.iter(s, deser_pair as DeserFn) {
						Ok(it) => collect_iter(it),
						Err(e) => Err(errs(e)),
					};
					obs.push(o);
				}
				OutRes::Probe(obs)
			}
			OutCmd::IterOpen(r, sp) => match store.iter(cfg.space(sp), deser_pair as DeserFn) {
				Ok(it) => {
					its[r] = Some(it);
					OutRes::Done(Ok(()))
				}
				Err(e) => OutRes::Done(Err(errs(e))),
			},
			OutCmd::IterNext(r) => match its[r].as_mut() {
				Some(it) => OutRes::Next(conv_item(it.next())),
				None => OutRes::Next(Err("iterator not open".to_string())),
			},
			OutCmd::IterClose(r) => {
				its[r] = None;
				OutRes::Done(Ok(()))
			}
		};
		if tx.send(res).is_err() {
			break;
		}
	}
	// iterators (read transactions) are closed here, before the store goes away
}

trait ToJ {
	fn j(&self) -> Value;
}
impl ToJ for () {
	fn j(&self) -> Value {
		json!("ok")
	}
}
impl ToJ for bool {
	fn j(&self) -> Value {
		json!(*self)
	}
}
impl ToJ for Option<u64> {
	fn j(&self) -> Value {
		json!(*self)
	}
}
impl ToJ for Option<(u64, u64)> {
	fn j(&self) -> Value {
		match self {
			Some((a, b)) => json!([a, b]),
			None => json!([]),
		}
	}
}
impl ToJ for Vec<(u64, u64)> {
	fn j(&self) -> Value {
		pairs_json(self)
	}
}

enum Flow {
	CommitChild(usize),
	DropChild(usize),
	Commit(usize),
	Drop(usize),
	Crash(usize),
	End,
	Abort,
}

struct Replay<'a> {
	cfg: Cfg,
	steps: &'a [Value],
	pos: usize,
	checks: u64,
	mism: Vec<Value>,
	tx: mpsc::Sender<OutCmd>,
	rx: mpsc::Receiver<OutRes>,
	counts: &'a mut std::collections::BTreeMap<String, u64>,
	/// the store of the current epoch (reads in flight run on threads of their own)
	store: Option<Arc<Store>>,
	inflight: HashMap<u64, Inflight>,
}

fn expected_lists(cfg: &Cfg, v: &Value) -> Vec<Vec<(u64, u64)>> {
	let mut res = vec![];
	for sp in 0..cfg.ns as usize {
		let mut l = vec![];
		if let Some(a) = v.get(sp).and_then(|x| x.as_array()) {
			for p in a {
				l.push((p[0].as_u64().unwrap(), p[1].as_u64().unwrap()));
			}
		}
		res.push(l);
	}
	res
}

impl<'a> Replay<'a> {
	fn miss(&mut self, step: usize, op: &str, sp: u64, key: u64, expected: Value, observed: Value) {
		if self.mism.len() < 8 {
			self.mism.push(json!({"step": step, "action": self.steps[step]["a"], "op": op, "sp": sp, "key": key,
				"expected": expected, "observed": observed}));
		}
	}

	fn cmp<T: PartialEq + ToJ>(
		&mut self,
		step: usize,
		op: &str,
		sp: u64,
		key: u64,
		exp: T,
		obs: Result<T, String>,
	) {
		self.checks += 1;
		match obs {
			Ok(o) if o == exp => {}
			Ok(o) => self.miss(step, op, sp, key, exp.j(), o.j()),
			Err(e) => self.miss(step, op, sp, key, exp.j(), json!({ "error": e })),
		}
	}

	fn expect_ok(&mut self, step: usize, op: &str, r: Result<(), SErr>) -> bool {
		self.checks += 1;
		match r {
			Ok(()) => true,
			Err(e) => {
				self.miss(step, op, 0, 0, json!("ok"), json!({ "error": errs(e) }));
				false
			}
		}
	}

	fn out(&mut self, c: OutCmd) -> Option<OutRes> {
		if self.tx.send(c).is_err() {
			return None;
		}
		self.rx.recv().ok()
	}

	/// After every state-changing action: every read the model can make, inside and outside.
	fn after(&mut self, step: usize, inside: Option<&Batch>) {
		PROGRESS.fetch_add(1, SeqCst);
		CUR_STEP.store(step as u64, SeqCst);
		let cfg = self.cfg;
		let st = &self.steps[step];
		let exp_in = expected_lists(&cfg, &st["in"]);
		let exp_out = expected_lists(&cfg, &st["out"]);
		let d = st["d"].as_u64().unwrap();
		if (d > 0) != inside.is_some() {
			self.miss(step, "depth", 0, 0, json!(d), json!(inside.is_some()));
		}
		if let Some(b) = inside {
			for sp in 1..=cfg.ns {
				let s = cfg.space(sp);
				let el = exp_in[sp as usize - 1].clone();
				for k in 1..=cfg.nk {
					let e = el.iter().find(|p| p.0 == k).map(|p| p.1);
					let g = b.get_ser::<Blob>(s, &kb(k), None).map(|x| x.map(|b| b.v)).map_err(errs);
					self.cmp(step, "Get", sp, k, e, g);
					let x = b.exists(s, &kb(k)).map_err(errs);
					self.cmp(step, "Exists", sp, k, e.is_some(), x);
				}
				let it = match b.iter(s, deser_pair as DeserFn) {
					Ok(it) => collect_iter(it),
					Err(e) => Err(errs(e)),
				};
				self.cmp(step, "Iter", sp, 0, el, it);
			}
		}
		match self.out(OutCmd::Probe) {
			Some(OutRes::Probe(obs)) => {
				for (i, o) in obs.into_iter().enumerate() {
					let sp = i as u64 + 1;
					let el = exp_out[i].clone();
					for k in 1..=cfg.nk {
						let e = el.iter().find(|p| p.0 == k).map(|p| p.1);
						self.cmp(step, "OutGet", sp, k, e, o.gets[k as usize - 1].clone());
						self.cmp(step, "OutExists", sp, k, e.is_some(), o.exists[k as usize - 1].clone());
					}
					self.cmp(step, "OutIter", sp, 0, el, o.iter);
				}
			}
			_ => self.miss(step, "OutProbe", 0, 0, json!("answer"), json!("outside reader thread died")),
		}
	}

	/// outside iterator actions; true if handled
	fn out_action(&mut self, i: usize, k: &str) -> bool {
		let a = self.steps[i]["a"].clone();
		let r = a["r"].as_u64().unwrap_or(1) as usize;
		match k {
			"OutIterOpen" => {
				let sp = a["sp"].as_u64().unwrap();
				match self.out(OutCmd::IterOpen(r, sp)) {
					Some(OutRes::Done(x)) => self.cmp(i, "OutIterOpen", sp, 0, (), x),
					_ => self.miss(i, "OutIterOpen", sp, 0, json!("ok"), json!("no answer")),
				}
			}
			"OutIterNext" => {
				let e = a["res"].as_array().unwrap();
				let exp = if e.is_empty() {
					None
				} else {
					Some((e[0].as_u64().unwrap(), e[1].as_u64().unwrap()))
				};
				match self.out(OutCmd::IterNext(r)) {
					Some(OutRes::Next(x)) => self.cmp(i, "OutIterNext", 0, 0, exp, x),
					_ => self.miss(i, "OutIterNext", 0, 0, exp.j(), json!("no answer")),
				}
			}
			"OutIterClose" => {
				let _ = self.out(OutCmd::IterClose(r));
			}
			"ReadBegin" => {
				let t = a["t"].as_u64().unwrap_or(2);
				let sp = a["sp"].as_u64().unwrap();
				let key = a["key"].as_u64().unwrap();
				let store = self.store.clone().expect("store of the epoch");
				match start_paused_read(store, self.cfg.space(sp), key, Duration::from_secs(3600)) {
					Ok(f) => {
						self.checks += 1;
						self.inflight.insert(t, f);
					}
					Err(e) => self.miss(i, "ReadBegin", sp, key, json!("in flight"), json!({ "error": e })),
				}
			}
			"ReadEnd" => {
				let t = a["t"].as_u64().unwrap_or(2);
				let sp = a["sp"].as_u64().unwrap_or(0);
				let key = a["key"].as_u64().unwrap_or(0);
				let e = a["res"].as_u64().unwrap_or(0);
				let exp = if e == 0 { None } else { Some(e) };
				match self.inflight.remove(&t) {
					Some(f) => match f.finish(Duration::from_secs(3600)) {
						Some(x) => self.cmp(i, "ReadEnd", sp, key, exp, x),
						None => self.miss(i, "ReadEnd", sp, key, exp.j(), json!("no answer")),
					},
					None => self.miss(i, "ReadEnd", sp, key, exp.j(), json!("no read in flight")),
				}
			}
			_ => return false,
		}
		true
	}

	fn next_step(&mut self) -> Option<(usize, String)> {
		if self.pos >= self.steps.len() || !self.mism.is_empty() {
			return None;
		}
		let i = self.pos;
		self.pos += 1;
		let k = self.steps[i]["a"]["k"].as_str().unwrap().to_string();
		*self.counts.entry(k.clone()).or_insert(0) += 1;
		Some((i, k))
	}
}

fn run_level(b: &mut Batch, depth: usize, rs: &mut Replay) -> Flow {
	loop {
		let (i, k) = match rs.next_step() {
			Some(x) => x,
			None => return Flow::End,
		};
		let a = rs.steps[i]["a"].clone();
		match k.as_str() {
			"Put" | "Del" => {
				let sp = a["sp"].as_u64().unwrap();
				let key = a["key"].as_u64().unwrap();
				let s = rs.cfg.space(sp);
				let r = if k == "Put" {
					let v = a["val"].as_u64().unwrap();
					b.put_ser(s, &kb(key), &Blob { v, len: (v as usize * 5) % 23 })
				} else {
					b.delete(s, &kb(key))
				};
				rs.expect_ok(i, &k, r);
				rs.after(i, Some(&*b));
			}
			"Child" => {
				let flow = {
					let mut c = match b.child() {
						Ok(c) => c,
						Err(e) => {
							rs.miss(i, "Child", 0, 0, json!("ok"), json!({ "error": errs(e) }));
							return Flow::Abort;
						}
					};
					rs.after(i, Some(&c));
					match run_level(&mut c, depth + 1, rs) {
						Flow::CommitChild(j) => Ok((j, Some(c.commit()))),
						Flow::DropChild(j) => {
							drop(c);
							Ok((j, None))
						}
						other => {
							drop(c);
							Err(other)
						}
					}
				};
				match flow {
					Ok((j, r)) => {
						if let Some(r) = r {
							rs.expect_ok(j, "CommitChild", r);
						}
						rs.after(j, Some(&*b));
					}
					Err(other) => return other,
				}
			}
			"CommitChild" if depth >= 2 => return Flow::CommitChild(i),
			"DropChild" if depth >= 2 => return Flow::DropChild(i),
			"Commit" if depth == 1 => return Flow::Commit(i),
			"Drop" if depth == 1 => return Flow::Drop(i),
			"Crash" => return Flow::Crash(i),
			_ => {
				if rs.out_action(i, &k) {
					rs.after(i, Some(&*b));
				} else {
					rs.miss(i, "malformed", 0, 0, json!(k), json!(depth));
					return Flow::Abort;
				}
			}
		}
	}
}

/// Steps at depth 0 until the behaviour ends or the store has to be reopened (Crash).
fn run_top(store: &Store, rs: &mut Replay, pending_after: Option<usize>) -> Option<usize> {
	if let Some(j) = pending_after {
		rs.after(j, None);
	}
	loop {
		let (i, k) = match rs.next_step() {
			Some(x) => x,
			None => return None,
		};
		match k.as_str() {
			"Begin" => {
				let batch = store.batch();
				match batch {
				Ok(mut b) => {
					rs.after(i, Some(&b));
					match run_level(&mut b, 1, rs) {
						Flow::Commit(j) => {
							let r = b.commit();
							rs.expect_ok(j, "Commit", r);
							rs.after(j, None);
						}
						Flow::Drop(j) => {
							drop(b);
							rs.after(j, None);
						}
						Flow::Crash(j) => {
							drop(b);
							return Some(j);
						}
						_ => {
							drop(b);
							return None;
						}
					}
				}
				Err(e) => {
					rs.miss(i, "Begin", 0, 0, json!("ok"), json!({ "error": errs(e) }));
					return None;
				}
				}
			}
			"Crash" => return Some(i),
			_ => {
				if rs.out_action(i, &k) {
					rs.after(i, None);
				} else {
					rs.miss(i, "malformed", 0, 0, json!(k), json!(0));
					return None;
				}
			}
		}
	}
}

fn run_behaviour(
	dir: &str,
	cfg: Cfg,
	steps: &[Value],
	counts: &mut std::collections::BTreeMap<String, u64>,
) -> (u64, Vec<Value>) {
	let _ = std::fs::remove_dir_all(dir);
	let (tx, _rx0) = mpsc::channel();
	let (_tx0, rx) = mpsc::channel();
	let mut rs = Replay {
		cfg,
		steps,
		pos: 0,
		checks: 0,
		mism: vec![],
		tx,
		rx,
		counts,
		store: None,
		inflight: HashMap::new(),
	};
	let mut pending: Option<usize> = None;
	let mut last_checked = 0usize;
	// one epoch per process life: a Crash step closes everything without committing and reopens
	loop {
		let store = match open_store(dir) {
			Ok(s) => Arc::new(s),
			Err(e) => {
				rs.mism.push(json!({"step": rs.pos, "op": "open", "observed": errs(e)}));
				break;
			}
		};
		let (ctx, crx) = mpsc::channel();
		let (rtx, rrx) = mpsc::channel();
		rs.tx = ctx;
		rs.rx = rrx;
		rs.store = Some(store.clone());
		let crashed = std::thread::scope(|s| {
			let st: &Store = &store;
			s.spawn(move || out_thread(st, cfg, crx, rtx));
			let r = catch_unwind(AssertUnwindSafe(|| run_top(st, &mut rs, pending)));
			let _ = rs.tx.send(OutCmd::Quit);
			// the epoch ends (Crash / end of the behaviour): reads still in flight are let go, their results dropped
			for (_, f) in rs.inflight.drain() {
				let _ = f.finish(Duration::from_secs(3600));
			}
			rs.store = None;
			match r {
				Ok(r) => r,
				Err(p) => std::panic::resume_unwind(p),
			}
		});
		drop(store);
		if rs.pos > 0 {
			last_checked = rs.pos - 1;
		}
		match crashed {
			Some(j) => pending = Some(j),
			None => break,
		}
	}
	// durability: whatever the last step said is committed must be there after a clean reopen
	if rs.mism.is_empty() && !steps.is_empty() {
		if let Ok(store) = open_store(dir) {
			let (ctx, crx) = mpsc::channel();
			let (rtx, rrx) = mpsc::channel();
			rs.tx = ctx;
			rs.rx = rrx;
			std::thread::scope(|s| {
				let st = &store;
				s.spawn(move || out_thread(st, cfg, crx, rtx));
				// outside part of the last executed step only (no batch is open any more)
				let j = last_checked;
				let exp_out = expected_lists(&cfg, &steps[j]["out"]);
				if let Some(OutRes::Probe(obs)) = rs.out(OutCmd::Probe) {
					for (i, o) in obs.into_iter().enumerate() {
						rs.cmp(j, "ReopenIter", i as u64 + 1, 0, exp_out[i].clone(), o.iter);
					}
				}
				let _ = rs.tx.send(OutCmd::Quit);
			});
		}
	}
	let _ = std::fs::remove_dir_all(dir);
	(rs.checks, rs.mism)
}

fn replay(args: &Args) -> i32 {
	let cases = read_ndjson(args.req("cases"));
	let outp = args.req("out").to_string();
	let dir = args.req("dir").to_string();
	let cfg0 = Cfg {
		ns: args.u64("ns", 2),
		nk: args.u64("nk", 3),
		defdb: false,
	};
	let hang_s = args.u64("hang", 20);
	// watchdog: a call into the store that never returns is data (a hang), not a tool problem
	{
		let outp = outp.clone();
		std::thread::spawn(move || {
			let mut last = (0u64, Instant::now());
			loop {
				std::thread::sleep(Duration::from_millis(250));
				if DONE.load(SeqCst) {
					return;
				}
				let p = PROGRESS.load(SeqCst);
				if p != last.0 {
					last = (p, Instant::now());
				} else if last.1.elapsed() > Duration::from_secs(hang_s) {
					let h = json!({"hang": true, "behaviour": CUR_BEH.load(SeqCst), "after_step": CUR_STEP.load(SeqCst)});
					std::fs::write(format!("{}.hang", outp), h.to_string()).unwrap();
					std::process::exit(0);
				}
			}
		});
	}
	let mut out = NdWriter::create(&outp);
	let mut counts = std::collections::BTreeMap::new();
	let mut total_checks = 0u64;
	for (bi, c) in cases.iter().enumerate() {
		CUR_BEH.store(bi as u64, SeqCst);
		CUR_STEP.store(0, SeqCst);
		PROGRESS.fetch_add(1, SeqCst);
		let steps = c.as_array().expect("behaviour = array of steps").clone();
		let cfg = Cfg {
			defdb: bi % 2 == 1,
			..cfg0
		};
		let d = format!("{}/b", dir);
		let r = catch_unwind(AssertUnwindSafe(|| run_behaviour(&d, cfg, &steps, &mut counts)));
		let (checks, mism) = match r {
			Ok(x) => x,
			Err(_) => (0, vec![json!({"step": CUR_STEP.load(SeqCst), "op": "panic", "observed": "panic in code under test"})]),
		};
		total_checks += checks;
		out.put(&json!({"i": bi, "steps": steps.len(), "checks": checks, "defdb": cfg.defdb, "mismatches": mism}));
	}
	DONE.store(true, SeqCst);
	out.finish();
	println!("{}", json!({"behaviours": cases.len(), "checks": total_checks, "actions": counts}));
	0
}

// ------------------------------------------------------------------------------------------
// Direction B (i): threads

struct Shared {
	order: AtomicU64,    // serial order of batches (taken while holding the write transaction)
	commits: AtomicU64,  // commit index allocator (taken while holding the write transaction)
	started: AtomicU64,  // highest commit index whose commit() has been called
	finished: AtomicU64, // highest commit index whose commit() has returned
	vid: AtomicU64,      // unique value ids
	stop: AtomicBool,
	failed: AtomicBool,
	log: Mutex<Vec<(u64, Vec<Value>)>>,
	errors: Mutex<Vec<Value>>,
	file_len: Mutex<(u64, u64, u64)>, // (last length seen at batch begin, max growth, samples)
	data_file: String,
	t0: Instant,
	beats: Vec<Beat>, // one per worker thread: what it is doing and since when (hang detection)
}

/// Heartbeat of one worker thread: the store call it is in (or OP_IDLE between calls) and when it last moved.
struct Beat {
	used: AtomicBool,
	done: AtomicBool,
	role: AtomicU64, // 0 writer, 1 reader, 2 iterator, 3 burst reader
	op: AtomicU64,
	t_ms: AtomicU64,
}
const MAX_THREADS: usize = 32;
const OP_IDLE: u64 = 0;
const OP_BATCH: u64 = 1; // Store::batch()
const OP_WRITE: u64 = 2; // put / delete / child / reads through the open batch
const OP_COMMIT: u64 = 3;
const OP_GET: u64 = 4; // Store::get_ser
const OP_EXISTS: u64 = 5; // Store::exists
const OP_ITER: u64 = 6; // Store::iter
const OP_ITER_NEXT: u64 = 7;
fn op_name(op: u64) -> &'static str {
	match op {
		OP_IDLE => "idle",
		OP_BATCH => "batch",
		OP_WRITE => "batch_ops",
		OP_COMMIT => "commit",
		OP_GET => "get_ser",
		OP_EXISTS => "exists",
		OP_ITER => "iter",
		OP_ITER_NEXT => "iter_next",
		_ => "?",
	}
}
fn role_name(r: u64) -> &'static str {
	match r {
		0 => "writer",
		1 => "reader",
		2 => "iterator",
		_ => "burst_reader",
	}
}

impl Shared {
	fn new(dir: &str) -> Shared {
		Shared {
			order: AtomicU64::new(0),
			commits: AtomicU64::new(0),
			started: AtomicU64::new(0),
			finished: AtomicU64::new(0),
			vid: AtomicU64::new(0),
			stop: AtomicBool::new(false),
			failed: AtomicBool::new(false),
			log: Mutex::new(vec![]),
			errors: Mutex::new(vec![]),
			file_len: Mutex::new((0, 0, 0)),
			data_file: format!("{}/multi_lmdb/data.mdb", dir),
			t0: Instant::now(),
			beats: (0..MAX_THREADS)
				.map(|_| Beat {
					used: AtomicBool::new(false),
					done: AtomicBool::new(false),
					role: AtomicU64::new(0),
					op: AtomicU64::new(OP_IDLE),
					t_ms: AtomicU64::new(0),
				})
				.collect(),
		}
	}
	fn now_ms(&self) -> u64 {
		self.t0.elapsed().as_millis() as u64
	}
	fn register(&self, tid: usize, role: u64) {
		let b = &self.beats[tid];
		b.role.store(role, SeqCst);
		b.t_ms.store(self.now_ms(), SeqCst);
		b.used.store(true, SeqCst);
	}
	/// The thread `tid` enters the store call `op` (or leaves one: OP_IDLE).
	fn beat(&self, tid: usize, op: u64) {
		let b = &self.beats[tid];
		b.op.store(op, SeqCst);
		b.t_ms.store(self.now_ms(), SeqCst);
	}
	fn retire(&self, tid: usize) {
		self.beats[tid].done.store(true, SeqCst);
	}
	/// (tid, role, op, idle ms) of the threads that are still running
	fn live(&self) -> Vec<(usize, u64, u64, u64)> {
		let now = self.now_ms();
		self.beats
			.iter()
			.enumerate()
			.filter(|(_, b)| b.used.load(SeqCst) && !b.done.load(SeqCst))
			.map(|(i, b)| (i, b.role.load(SeqCst), b.op.load(SeqCst), now.saturating_sub(b.t_ms.load(SeqCst))))
			.collect()
	}
	fn error(&self, op: &str, e: String) {
		let class = if e.contains("resized while") {
			"resize_with_open_reader"
		} else if e.contains("MAP_FULL") || e.contains("NotEnoughSpace") || e.contains("MapFull") {
			"mapfull"
		} else if e.contains("corrupt") || e.contains("Corrupt") {
			"corrupt"
		} else {
			"failed"
		};
		self.errors.lock().unwrap().push(json!({"op": op, "class": class, "error": e}));
		self.failed.store(true, SeqCst);
		self.stop.store(true, SeqCst);
	}
	/// growth of the data file (its high-water mark of used pages) per batch, sampled under the write lock
	fn sample_file(&self) {
		if let Ok(m) = std::fs::metadata(&self.data_file) {
			let mut g = self.file_len.lock().unwrap();
			if g.0 != 0 && m.len() > g.0 && m.len() - g.0 > g.1 {
				g.1 = m.len() - g.0;
			}
			g.0 = m.len();
			g.2 += 1;
		}
	}
}

/// Per-batch allocation budget: the assumption BatchMax of the specification, in bytes of values.
/// needs_resize() (checked when a batch is opened, BEFORE the writer mutex is taken) leaves >= 10 %
/// of the map free: 24 usable pages of the initial 1 MiB test-mode map, to be shared by the batches
/// of all writer threads that can be queued at once (one big-value writer + one small-value writer
/// here). 40 KiB of values are <= 12 overflow pages; the copy-on-write of b-tree, main-db and
/// free-list pages costs a handful more (measured, reported as max_batch_growth_pages).
const BATCH_BYTES: usize = 40 * 1024;
struct Budget {
	bytes: usize,
	big_left: u32,
}

struct WriterCtx<'a> {
	cfg: Cfg,
	sh: &'a Shared,
	rng: StdRng,
	big: bool,
	hot: u64,
	pace: u64,
	cursor: u64,
	tid: usize,
}

impl<'a> WriterCtx<'a> {
	fn pick(&mut self) -> (u64, u64) {
		let sp = self.rng.gen_range(1, self.cfg.ns + 1);
		let k = self.rng.gen_range(1, self.hot.min(self.cfg.nk) + 1);
		(sp, k)
	}

	/// One nesting level of a random batch program; false on error.
	fn level(&mut self, b: &mut Batch, depth: usize, ev: &mut Vec<Value>, bud: &mut Budget) -> bool {
		let n = self.rng.gen_range(1, 6);
		for _ in 0..n {
			if self.pace > 0 && self.rng.gen_range(0, 100) < 35 {
				// hold the write transaction while other threads read
				std::thread::sleep(Duration::from_micros(self.rng.gen_range(0, self.pace)));
			}
			self.sh.beat(self.tid, OP_WRITE);
			let c = self.rng.gen_range(0, 100);
			let (mut sp, mut k) = self.pick();
			if c < 54 && (!self.big || self.rng.gen_range(0, 100) < 75) {
				k = 1 + (k - 1) % 8; // small overwrites / deletes mostly hit the first keys
			}
			let mut s = self.cfg.space(sp);
			if c < 42 {
				let mut len = self.rng.gen_range(0, 200);
				if self.big && bud.big_left > 0 && self.rng.gen_range(0, 100) < 60 {
					let hi = if bud.big_left >= 2 { 20 * 1024 + 1 } else { bud.bytes.min(BATCH_BYTES) };
					if hi > 20 * 1024 {
						len = self.rng.gen_range(20 * 1024, hi + 1) - 16;
						bud.big_left -= 1;
						if self.cfg.nk > 8 && self.rng.gen_range(0, 100) < 80 {
							// mostly walk over the upper keys so that live data (and the map) keeps growing
							sp = 1 + self.cursor % self.cfg.ns;
							k = 9 + (self.cursor / self.cfg.ns) % (self.cfg.nk - 8);
							s = self.cfg.space(sp);
							self.cursor += 1;
						}
					}
				}
				if len + 16 > bud.bytes {
					continue;
				}
				bud.bytes -= len + 16;
				let v = self.sh.vid.fetch_add(1, SeqCst) + 1;
				if let Err(e) = b.put_ser(s, &kb(k), &Blob { v, len }) {
					self.sh.error("put", errs(e));
					return false;
				}
				ev.push(json!({"k": "Put", "sp": sp, "key": k, "val": v}));
			} else if c < 54 {
				if let Err(e) = b.delete(s, &kb(k)) {
					self.sh.error("delete", errs(e));
					return false;
				}
				ev.push(json!({"k": "Del", "sp": sp, "key": k}));
			} else if c < 64 {
				match b.get_ser::<Blob>(s, &kb(k), None) {
					Ok(x) => ev.push(json!({"k": "Get", "sp": sp, "key": k, "res": x.map(|b| b.v).unwrap_or(0)})),
					Err(e) => {
						self.sh.error("batch.get", errs(e));
						return false;
					}
				}
			} else if c < 72 {
				match b.exists(s, &kb(k)) {
					Ok(x) => ev.push(json!({"k": "Exists", "sp": sp, "key": k, "res": x})),
					Err(e) => {
						self.sh.error("batch.exists", errs(e));
						return false;
					}
				}
			} else if c < 78 {
				let r = match b.iter(s, deser_pair as DeserFn) {
					Ok(it) => collect_iter(it),
					Err(e) => Err(errs(e)),
				};
				match r {
					Ok(l) => ev.push(json!({"k": "Iter", "sp": sp, "res": pairs_json(&l)})),
					Err(e) => {
						self.sh.error("batch.iter", e);
						return false;
					}
				}
			} else if depth < 3 {
				match b.child() {
					Ok(mut ch) => {
						ev.push(json!({"k": "Child"}));
						if !self.level(&mut ch, depth + 1, ev, bud) {
							return false;
						}
						if self.rng.gen_range(0, 100) < 60 {
							if let Err(e) = ch.commit() {
								self.sh.error("child.commit", errs(e));
								return false;
							}
							ev.push(json!({"k": "CommitChild"}));
						} else {
							drop(ch);
							ev.push(json!({"k": "DropChild"}));
						}
					}
					Err(e) => {
						self.sh.error("child", errs(e));
						return false;
					}
				}
			}
		}
		true
	}

	/// One batch; Ok(Some(events)) when it was committed or dropped cleanly.
	fn batch(&mut self, store: &Store, force_commit: bool) -> bool {
		let mut ev = vec![];
		self.sh.beat(self.tid, OP_BATCH);
		let mut b = match store.batch() {
			Ok(b) => b,
			Err(e) => {
				self.sh.beat(self.tid, OP_IDLE);
				self.sh.error("batch", errs(e));
				return false;
			}
		};
		self.sh.beat(self.tid, OP_WRITE);
		// from here to commit/drop this thread holds LMDB's writer mutex
		let ord = self.sh.order.fetch_add(1, SeqCst);
		self.sh.sample_file();
		self.hot = 4 + self.sh.commits.load(SeqCst) / 2;
		ev.push(json!({"k": "Begin"}));
		let mut bud = Budget {
			bytes: BATCH_BYTES,
			big_left: self.rng.gen_range(1, 3),
		};
		let ok = self.level(&mut b, 1, &mut ev, &mut bud);
		if !ok {
			drop(b);
			self.sh.beat(self.tid, OP_IDLE);
			self.sh.log.lock().unwrap().push((ord, ev));
			return false;
		}
		if force_commit || self.rng.gen_range(0, 100) < 85 {
			let idx = self.sh.commits.fetch_add(1, SeqCst) + 1;
			self.sh.started.fetch_max(idx, SeqCst);
			self.sh.beat(self.tid, OP_COMMIT);
			match b.commit() {
				Ok(()) => {
					self.sh.finished.fetch_max(idx, SeqCst);
					ev.push(json!({"k": "Commit", "idx": idx}));
				}
				Err(e) => {
					self.sh.beat(self.tid, OP_IDLE);
					self.sh.error("commit", errs(e));
					self.sh.log.lock().unwrap().push((ord, ev));
					return false;
				}
			}
		} else {
			drop(b);
			ev.push(json!({"k": "Drop"}));
		}
		self.sh.beat(self.tid, OP_IDLE);
		self.sh.log.lock().unwrap().push((ord, ev));
		true
	}
}

/// (address, length) of the memory map of the environment's data file, from /proc/self/maps.
/// mdb_env_set_mapsize() replaces this mapping; LMDB (and KV!Resize) require that no transaction
/// is open in the process at that moment.
fn map_region(data_file: &str) -> Option<(u64, u64)> {
	let maps = std::fs::read_to_string("/proc/self/maps").ok()?;
	for line in maps.lines() {
		if line.ends_with(data_file) {
			let range = line.split_whitespace().next()?;
			let mut it = range.split('-');
			let a = u64::from_str_radix(it.next()?, 16).ok()?;
			let b = u64::from_str_radix(it.next()?, 16).ok()?;
			return Some((a, b - a));
		}
	}
	None
}

fn rng_of(seed: u64, salt: u64) -> StdRng {
	SeedableRng::seed_from_u64(seed.wrapping_mul(0x9E37_79B9_7F4A_7C15).wrapping_add(salt))
}

/// All keys of all spaces through a fresh iterator + get + exists, stamped lo = hi = idx.
fn observe_all(store: &Store, cfg: &Cfg, idx: u64, obs: &mut Vec<Value>, sh: &Shared) {
	for sp in 1..=cfg.ns {
		let s = cfg.space(sp);
		match store.iter(s, deser_pair as DeserFn) {
			Ok(it) => match collect_iter(it) {
				Ok(l) => obs.push(json!({"k": "OutIter", "sp": sp, "res": pairs_json(&l), "lo": idx, "hi": idx})),
				Err(e) => sh.error("final.iter", e),
			},
			Err(e) => sh.error("final.iter", errs(e)),
		}
		for k in 1..=cfg.nk {
			match store.get_ser::<Blob>(s, &kb(k), None) {
				Ok(x) => obs.push(json!({"k": "OutGet", "sp": sp, "key": k, "res": x.map(|b| b.v).unwrap_or(0), "lo": idx, "hi": idx})),
				Err(e) => sh.error("final.get", errs(e)),
			}
		}
	}
}

/// Serial batch groups + interval-stamped observations -> one trace, each observation placed
/// right after the Commit event with idx = hi (so that every version it may refer to exists).
fn merge_trace(groups: Vec<(u64, Vec<Value>)>, mut obs: Vec<Value>) -> Vec<Value> {
	let mut groups = groups;
	let mut out = vec![];
	groups.sort_by_key(|g| g.0);
	obs.sort_by_key(|o| o["hi"].as_u64().unwrap());
	let mut oi = 0;
	let mut flush = |c: u64, out: &mut Vec<Value>| {
		while oi < obs.len() && obs[oi]["hi"].as_u64().unwrap() <= c {
			out.push(obs[oi].clone());
			oi += 1;
		}
	};
	flush(0, &mut out);
	for (_, evs) in groups {
		for e in evs {
			let c = if e["k"] == "Commit" { e["idx"].as_u64() } else { None };
			out.push(e);
			if let Some(c) = c {
				flush(c, &mut out);
			}
		}
	}
	flush(u64::MAX, &mut out);
	out
}

/// Commit events get keep = the oldest version any later observation of the same run refers to
/// (lets the trace specification forget older versions; it never widens what is accepted).
fn annotate_keep(evs: &mut Vec<Value>) {
	let mut min_lo = u64::MAX;
	for e in evs.iter_mut().rev() {
		if e["k"] == "Reset" {
			min_lo = u64::MAX;
		} else if let Some(lo) = e.get("lo").and_then(|x| x.as_u64()) {
			min_lo = min_lo.min(lo);
		} else if e["k"] == "Commit" {
			let idx = e["idx"].as_u64().unwrap();
			e["keep"] = json!(min_lo.min(idx));
		}
	}
}

fn map_size_of(dir: &str) -> Option<usize> {
	let p = format!("{}/multi_lmdb", dir);
	let env = unsafe {
		let mut o = heed::EnvOpenOptions::new().read_txn_without_tls();
		o.max_dbs(24).open(&p).ok()?
	};
	let sz = env.info().map_size;
	Some(sz)
}

fn record(args: &Args) -> i32 {
	let dir = args.req("dir").to_string();
	let seed = args.u64("seed", 1);
	let nbatches = args.u64("batches", 120);
	let cfg = Cfg {
		ns: args.u64("ns", 2),
		nk: args.u64("nk", 60),
		defdb: seed % 2 == 1,
	};
	let nwriters = args.u64("writers", 2);
	let pace = args.u64("pace", 3000);
	let min_pages = args.u64("min-pages", 480); // data file high-water mark to reach (forces resizes)
	let max_batches = args.u64("max-batches", 900);
	// truly parallel short read transactions (no pauses): several threads closing read transactions at the same
	// instant, all the time, in particular right before every enlargement of the map
	let nburst = args.u64("burst", 6).min(12);
	// a store call that has not returned after hang_s seconds while every other thread is stuck too, confirmed
	// for confirm_s more seconds with a fresh probe call, is a hang (data, not a tool problem)
	let hang_s = args.u64("hang", 30);
	let confirm_s = args.u64("confirm", 15);
	let single_hang_s = args.u64("single-hang", 120);
	let _ = std::fs::remove_dir_all(&dir);
	let store = match open_store(&dir) {
		Ok(s) => Arc::new(s),
		Err(e) => {
			eprintln!("open: {:?}", e);
			return 2;
		}
	};
	let cdir = std::fs::canonicalize(&dir).map(|p| p.to_string_lossy().to_string()).unwrap_or(dir.clone());
	let sh = Arc::new(Shared::new(&cdir));
	let mut handles = vec![];
	let mut next_tid = 0usize;
	for w in 0..nwriters {
		let (store, sh) = (store.clone(), sh.clone());
		let tid = next_tid;
		next_tid += 1;
		sh.register(tid, 0);
		handles.push(std::thread::spawn(move || {
			let mut wc = WriterCtx {
				cfg,
				sh: &sh,
				rng: rng_of(seed, 100 + w),
				big: w == 0,
				hot: 4,
				pace,
				cursor: 0,
				tid,
			};
			while !sh.stop.load(SeqCst) {
				let c = sh.commits.load(SeqCst);
				if c >= max_batches || (c >= nbatches && data_pages(&sh.data_file[..sh.data_file.len() - 20]) >= min_pages) {
					break;
				}
				if !wc.batch(&store, false) {
					break;
				}
				if pace > 0 {
					std::thread::sleep(Duration::from_micros(wc.rng.gen_range(0, 2 * pace)));
				}
			}
			sh.retire(tid);
			vec![]
		}));
	}
	// reader: single-key reads on fresh read transactions
	{
		let (store, sh) = (store.clone(), sh.clone());
		let tid = next_tid;
		next_tid += 1;
		sh.register(tid, 1);
		handles.push(std::thread::spawn(move || {
			let mut rng = rng_of(seed, 7);
			let mut obs = vec![];
			while !sh.stop.load(SeqCst) {
				let sp = rng.gen_range(1, cfg.ns + 1);
				let k = rng.gen_range(1, cfg.nk.min(6 + sh.commits.load(SeqCst) / 2) + 1);
				let s = cfg.space(sp);
				let lo = sh.finished.load(SeqCst);
				if rng.gen_range(0, 2) == 0 {
					sh.beat(tid, OP_GET);
					let r = store.get_ser::<Blob>(s, &kb(k), None);
					sh.beat(tid, OP_IDLE);
					let hi = sh.started.load(SeqCst);
					match r {
						Ok(x) => obs.push(json!({"k": "OutGet", "sp": sp, "key": k, "res": x.map(|b| b.v).unwrap_or(0), "lo": lo, "hi": hi})),
						Err(e) => {
							sh.error("get_ser", errs(e));
							break;
						}
					}
				} else {
					sh.beat(tid, OP_EXISTS);
					let r = store.exists(s, &kb(k));
					sh.beat(tid, OP_IDLE);
					let hi = sh.started.load(SeqCst);
					match r {
						Ok(x) => obs.push(json!({"k": "OutExists", "sp": sp, "key": k, "res": x, "lo": lo, "hi": hi})),
						Err(e) => {
							sh.error("exists", errs(e));
							break;
						}
					}
				}
				std::thread::sleep(Duration::from_micros(rng.gen_range(100, 900)));
			}
			sh.retire(tid);
			obs
		}));
	}
	// burst readers: back-to-back single-key reads, every one a read transaction of its own that is opened and
	// closed (enter_tx / TxCounter::drop) in parallel with those of the other burst readers. Every 64th
	// observation is kept for the trace (at most 150 per thread); all are checked for integrity by Blob::read.
	let burst_reads = Arc::new(AtomicU64::new(0));
	for bno in 0..nburst {
		let (store, sh) = (store.clone(), sh.clone());
		let burst_reads = burst_reads.clone();
		let tid = next_tid;
		next_tid += 1;
		sh.register(tid, 3);
		handles.push(std::thread::spawn(move || {
			let mut rng = rng_of(seed, 40 + bno);
			let mut obs = vec![];
			let mut n = 0u64;
			while !sh.stop.load(SeqCst) {
				let sp = rng.gen_range(1, cfg.ns + 1);
				let k = rng.gen_range(1, cfg.nk.min(6 + sh.commits.load(SeqCst) / 2) + 1);
				let s = cfg.space(sp);
				let keep = n % 64 == 0 && obs.len() < 150;
				n += 1;
				let lo = if keep { sh.finished.load(SeqCst) } else { 0 };
				if (n + bno) % 2 == 0 {
					sh.beat(tid, OP_GET);
					let r = store.get_ser::<Blob>(s, &kb(k), None);
					sh.beat(tid, OP_IDLE);
					match r {
						Ok(x) => {
							if keep {
								let hi = sh.started.load(SeqCst);
								obs.push(json!({"k": "OutGet", "sp": sp, "key": k, "res": x.map(|b| b.v).unwrap_or(0), "lo": lo, "hi": hi}));
							}
						}
						Err(e) => {
							sh.error("get_ser", errs(e));
							break;
						}
					}
				} else {
					sh.beat(tid, OP_EXISTS);
					let r = store.exists(s, &kb(k));
					sh.beat(tid, OP_IDLE);
					match r {
						Ok(x) => {
							if keep {
								let hi = sh.started.load(SeqCst);
								obs.push(json!({"k": "OutExists", "sp": sp, "key": k, "res": x, "lo": lo, "hi": hi}));
							}
						}
						Err(e) => {
							sh.error("exists", errs(e));
							break;
						}
					}
				}
			}
			burst_reads.fetch_add(n, SeqCst);
			sh.retire(tid);
			obs
		}));
	}
	// iterators: whole key spaces; the iterator (its read transaction) is held while commits go on.
	// The first one sometimes holds for longer than the resize waiter's polling period, the second scans quickly.
	for it_no in 0..2u64 {
		let (store, sh) = (store.clone(), sh.clone());
		let tid = next_tid;
		next_tid += 1;
		sh.register(tid, 2);
		handles.push(std::thread::spawn(move || {
			let mut rng = rng_of(seed, 8 + it_no);
			let mut obs = vec![];
			while !sh.stop.load(SeqCst) {
				let sp = rng.gen_range(1, cfg.ns + 1);
				let lo = sh.finished.load(SeqCst);
				sh.beat(tid, OP_ITER);
				let it = store.iter(cfg.space(sp), deser_pair as DeserFn);
				sh.beat(tid, OP_IDLE);
				let hi = sh.started.load(SeqCst);
				let mut it: It = match it {
					Ok(it) => it,
					Err(e) => {
						sh.error("iter", errs(e));
						break;
					}
				};
				let mode = if it_no == 0 { rng.gen_range(0, 10) } else { rng.gen_range(0, 6) };
				let m1 = map_region(&sh.data_file);
				let mut l = vec![];
				let mut n = 0;
				let r = loop {
					sh.beat(tid, OP_ITER_NEXT);
					let item = conv_item(it.next());
					sh.beat(tid, OP_IDLE);
					match item {
						Ok(Some(p)) => l.push(p),
						Ok(None) => break Ok(()),
						Err(e) => break Err(e),
					}
					n += 1;
					if mode < 5 {
						std::thread::sleep(Duration::from_micros(rng.gen_range(50, 1500)));
					} else if mode >= 7 && n == 2 {
						// long hold: longer than the resize waiter's polling period
						std::thread::sleep(Duration::from_millis(rng.gen_range(150, 400)));
					}
				};
				if mode == 6 {
					std::thread::sleep(Duration::from_millis(rng.gen_range(20, 160)));
				}
				let m2 = map_region(&sh.data_file);
				drop(it);
				if let (Some(a), Some(b)) = (m1, m2) {
					if a != b {
						sh.error("iter", format!("map resized while an iterator (read transaction) was open: {:?} -> {:?}", a, b));
						break;
					}
				}
				match r {
					Ok(()) => obs.push(json!({"k": "OutIter", "sp": sp, "res": pairs_json(&l), "lo": lo, "hi": hi})),
					Err(e) => {
						sh.error("iter.next", e);
						break;
					}
				}
				std::thread::sleep(Duration::from_micros(rng.gen_range(100, 3000)));
			}
			sh.retire(tid);
			obs
		}));
	}
	let _ = next_tid;
	// watchdog: hang detection. The process is ended from here when a hang is confirmed (the stuck threads
	// cannot be joined); the verdict is the last line on stdout like every other result of this command.
	let all_joined = Arc::new(AtomicBool::new(false));
	let stalls_recovered = Arc::new(AtomicU64::new(0));
	let watchdog = {
		let (store, sh) = (store.clone(), sh.clone());
		let (all_joined, stalls_recovered) = (all_joined.clone(), stalls_recovered.clone());
		let dir = dir.clone();
		std::thread::spawn(move || loop {
			std::thread::sleep(Duration::from_millis(250));
			if all_joined.load(SeqCst) {
				return;
			}
			let live = sh.live();
			if live.is_empty() {
				continue;
			}
			let in_call = |x: &(usize, u64, u64, u64), ms: u64| x.2 != OP_IDLE && x.3 >= ms;
			let all_stuck = live.iter().all(|x| in_call(x, hang_s * 1000));
			let one_stuck = live.iter().any(|x| in_call(x, single_hang_s * 1000));
			if !all_stuck && !one_stuck {
				continue;
			}
			// re-confirm: a fresh store call on a fresh thread must not return either, and nobody may move
			let (ptx, prx) = mpsc::channel::<bool>();
			let pstore = store.clone();
			std::thread::spawn(move || {
				let r = pstore.exists(Some(b'P'), &kb(1));
				let _ = ptx.send(r.is_ok());
			});
			let probe_returned = prx.recv_timeout(Duration::from_secs(confirm_s)).is_ok();
			let live2 = sh.live();
			let still_all = !live2.is_empty() && live2.iter().all(|x| in_call(x, (hang_s + confirm_s) * 1000));
			let still_one = live2.iter().any(|x| in_call(x, (single_hang_s + confirm_s) * 1000));
			let confirmed = (all_stuck && still_all && !probe_returned) || (one_stuck && still_one);
			if !confirmed {
				stalls_recovered.fetch_add(1, SeqCst);
				continue;
			}
			let threads: Vec<Value> = live2
				.iter()
				.map(|x| json!({"thread": x.0, "role": role_name(x.1), "in": op_name(x.2), "stuck_ms": x.3}))
				.collect();
			let mut writer_ops: Vec<&str> = live2.iter().filter(|x| x.1 == 0 && x.2 != OP_IDLE).map(|x| op_name(x.2)).collect();
			writer_ops.sort();
			writer_ops.dedup();
			let kind = if all_stuck && still_all && !probe_returned { "all_blocked" } else { "single_thread" };
			println!(
				"{}",
				json!({"hang": {"kind": kind, "threads": threads, "writer_in": writer_ops.join("+"), "probe_exists_returned": probe_returned,
					"bound_s": if kind == "all_blocked" { hang_s + confirm_s } else { single_hang_s + confirm_s },
					"commits": sh.commits.load(SeqCst), "data_pages": data_pages(&dir), "map_bytes": map_region(&sh.data_file).map(|m| m.1)},
					"errors": [], "commits": sh.commits.load(SeqCst)})
			);
			use std::io::Write;
			let _ = std::io::stdout().flush();
			std::process::exit(0);
		})
	};
	let t0 = Instant::now();
	let mut obs: Vec<Value> = vec![];
	let mut panicked = false;
	for (i, h) in handles.into_iter().enumerate() {
		match h.join() {
			Ok(o) => obs.extend(o),
			Err(_) => {
				panicked = true;
				sh.error("thread", format!("panic in thread {}", i));
			}
		}
		if i as u64 + 1 == nwriters {
			sh.stop.store(true, SeqCst);
		}
	}
	let _ = panicked;
	let wall = t0.elapsed().as_millis() as u64;
	all_joined.store(true, SeqCst);
	let _ = watchdog.join(); // it holds a handle of the store, which is closed and reopened below
	let concurrent_obs = obs.len();
	let total = sh.commits.load(SeqCst);
	// nothing committed is lost: full observation now, and again after closing and reopening
	let mut tail = vec![];
	if !sh.failed.load(SeqCst) {
		observe_all(&store, &cfg, total, &mut tail, &sh);
	}
	drop(store);
	let mut tail2 = vec![];
	if !sh.failed.load(SeqCst) {
		match open_store(&dir) {
			Ok(s2) => observe_all(&s2, &cfg, total, &mut tail2, &sh),
			Err(e) => sh.error("reopen", errs(e)),
		}
	}
	let map_size = map_size_of(&dir);
	let mut out = NdWriter::create(args.req("out"));
	let groups = std::mem::replace(&mut *sh.log.lock().unwrap(), vec![]);
	let ngroups = groups.len();
	let mut all = merge_trace(groups, obs);
	all.extend(tail);
	all.push(json!({"k": "Crash"}));
	all.extend(tail2);
	annotate_keep(&mut all);
	for e in &all {
		out.put(e);
	}
	let n = out.n;
	out.finish();
	let fl = *sh.file_len.lock().unwrap();
	let errors = sh.errors.lock().unwrap().clone();
	println!(
		"{}",
		json!({"events": n, "batches": ngroups, "commits": total, "concurrent_observations": concurrent_obs,
			"map_size": map_size, "data_file_bytes": fl.0, "max_batch_growth_pages": fl.1 / 4096, "errors": errors,
			"defdb": cfg.defdb, "wall_ms": wall, "burst_reader_threads": nburst, "burst_reads": burst_reads.load(SeqCst),
			"stalls_recovered": stalls_recovered.load(SeqCst)})
	);
	let _ = std::fs::remove_dir_all(&dir);
	0
}

// ------------------------------------------------------------------------------------------
// Direction B (ii): process death around commit()

fn crash_child(args: &Args) -> i32 {
	let dir = args.req("dir").to_string();
	let seed = args.u64("seed", 1);
	let mode = args.req("mode").to_string();
	let n = args.u64("n", 5);
	let cfg = Cfg {
		ns: args.u64("ns", 2),
		nk: args.u64("nk", 60),
		defdb: seed % 2 == 1,
	};
	let evp = args.req("events").to_string();
	let store = match open_store(&dir) {
		Ok(s) => s,
		Err(e) => {
			eprintln!("open: {:?}", e);
			return 3;
		}
	};
	let sh = Shared::new(&dir);
	let mut wc = WriterCtx {
		cfg,
		sh: &sh,
		rng: rng_of(seed, 55),
		big: true,
		hot: cfg.nk,
		pace: 0,
		cursor: seed % 17,
		tid: 0,
	};
	while sh.commits.load(SeqCst) < n {
		if !wc.batch(&store, false) {
			eprintln!("{}", json!(*sh.errors.lock().unwrap()));
			return 3;
		}
		wc.hot = cfg.nk;
	}
	// the batch that dies
	let mut ev = vec![json!({"k": "Begin"})];
	let mut b = match store.batch() {
		Ok(b) => b,
		Err(e) => {
			eprintln!("batch: {:?}", e);
			return 3;
		}
	};
	let mut bud = Budget {
		bytes: BATCH_BYTES,
		big_left: 1,
	};
	let mut tries = 0;
	while ev.iter().filter(|e| e["k"] == "Put" || e["k"] == "Del").count() < 3 && tries < 50 {
		tries += 1;
		if !wc.level(&mut b, 1, &mut ev, &mut bud) {
			eprintln!("{}", json!(*sh.errors.lock().unwrap()));
			return 3;
		}
	}
	// everything the parent needs is on disk before the critical instant
	let mut out = NdWriter::create(&evp);
	let groups = std::mem::replace(&mut *sh.log.lock().unwrap(), vec![]);
	for e in &merge_trace(groups, vec![]) {
		out.put(e);
	}
	for e in &ev {
		out.put(e);
	}
	out.finish();
	std::fs::File::open(&evp).and_then(|f| f.sync_all()).unwrap();
	if mode == "before" {
		std::process::abort();
	}
	match b.commit() {
		Ok(()) => std::process::abort(),
		Err(e) => {
			eprintln!("commit: {:?}", e);
			3
		}
	}
}

fn crash_parent(args: &Args) -> i32 {
	let dir = args.req("dir").to_string();
	let seed = args.u64("seed", 1);
	let runs = args.u64("runs", 6);
	let nk = args.u64("nk", 60);
	let mut out: Vec<Value> = vec![];
	let exe = std::env::current_exe().unwrap();
	let mut summary = vec![];
	let mut problems = vec![];
	for r in 0..runs {
		let mode = if r % 2 == 0 { "before" } else { "after" };
		let d = format!("{}/c{}", dir, r);
		let _ = std::fs::remove_dir_all(&d);
		std::fs::create_dir_all(&d).unwrap();
		let evp = format!("{}/events.ndjson", d);
		let s = seed * 100 + r;
		let n = 2 + (s % 5);
		let st = std::process::Command::new(&exe)
			.args(&["crash-child", "--dir", &d, "--mode", mode, "--seed", &s.to_string(), "--n", &n.to_string(),
				"--events", &evp, "--nk", &nk.to_string()])
			.output()
			.expect("spawn child");
		use std::os::unix::process::ExitStatusExt;
		let sig = st.status.signal();
		if sig != Some(6) {
			// the child did not reach its abort(): an operation failed (or it died differently)
			problems.push(json!({"run": r, "mode": mode, "seed": s, "signal": sig, "code": st.status.code(),
				"stderr": String::from_utf8_lossy(&st.stderr).chars().take(400).collect::<String>()}));
			continue;
		}
		let evs = read_ndjson(&evp);
		let commits = evs.iter().filter(|e| e["k"] == "Commit").count() as u64;
		out.push(json!({"k": "Reset", "run": r, "mode": mode, "seed": s}));
		out.extend(evs.iter().cloned());
		let total = if mode == "after" {
			out.push(json!({"k": "Commit", "idx": commits + 1}));
			commits + 1
		} else {
			commits
		};
		out.push(json!({"k": "Crash"}));
		let cfg = Cfg {
			ns: 2,
			nk,
			defdb: s % 2 == 1,
		};
		let sh = Shared::new(&d);
		let mut obs = vec![];
		match open_store(&d) {
			Ok(store) => observe_all(&store, &cfg, total, &mut obs, &sh),
			Err(e) => sh.error("reopen", errs(e)),
		}
		for e in sh.errors.lock().unwrap().iter() {
			problems.push(json!({"run": r, "mode": mode, "seed": s, "reopen_error": e}));
		}
		out.extend(obs);
		summary.push(json!({"run": r, "mode": mode, "seed": s, "committed_batches": commits, "events": evs.len()}));
		let _ = std::fs::remove_dir_all(&d);
	}
	annotate_keep(&mut out);
	let mut w = NdWriter::create(args.req("out"));
	for e in &out {
		w.put(e);
	}
	let n = w.n;
	w.finish();
	println!("{}", json!({"events": n, "runs": summary, "problems": problems}));
	0
}

// ------------------------------------------------------------------------------------------
// Probe: is the head-room promised at batch() still there when the batch gets the write lock?
// maybe_resize() runs BEFORE the LMDB writer mutex is taken; a second writer that commits in
// between is not accounted for. `race --mode raced|control`.
fn data_pages(dir: &str) -> u64 {
	std::fs::metadata(format!("{}/multi_lmdb/data.mdb", dir)).map(|m| m.len() / 4096).unwrap_or(0)
}

fn one_put(store: &Store, key: u64, len: usize) -> Result<(), String> {
	let mut b = store.batch().map_err(errs)?;
	b.put_ser(Some(b'P'), &kb(key), &Blob { v: key, len }).map_err(errs)?;
	b.commit().map_err(errs)
}

fn race(args: &Args) -> i32 {
	let dir = args.req("dir").to_string();
	let raced = args.req("mode") == "raced";
	let _ = std::fs::remove_dir_all(&dir);
	let store = Arc::new(open_store(&dir).expect("open"));
	// fill (single writer) to just below the 90 % threshold of the 256-page map: 224..228 pages
	let mut key = 1;
	while data_pages(&dir) < 205 {
		one_put(&store, key, 8 * 1024).expect("fill");
		key += 1;
	}
	while data_pages(&dir) < 227 {
		one_put(&store, key, 100).expect("fill");
		key += 1;
	}
	let before = data_pages(&dir);
	let (tx, rx) = mpsc::channel::<()>();
	let s2 = store.clone();
	// writer B: 40 KiB, well below 10 % of the map
	let b_thread = std::thread::spawn(move || -> Result<(), String> {
		let mut b = s2.batch().map_err(errs)?;
		b.put_ser(Some(b'P'), &kb(9001), &Blob { v: 9001, len: 40 * 1024 }).map_err(errs)?;
		if raced {
			tx.send(()).unwrap();
			std::thread::sleep(Duration::from_millis(400));
		}
		let r = b.commit().map_err(errs);
		if !raced {
			tx.send(()).unwrap();
		}
		r
	});
	// writer A: 72 KiB, also below 10 % (102 KiB) of the map; in `raced` mode it calls batch() while B is open
	rx.recv().unwrap();
	let a_res = (|| -> Result<(), String> {
		let mut b = store.batch().map_err(errs)?;
		b.put_ser(Some(b'P'), &kb(9002), &Blob { v: 9002, len: 60 * 1024 }).map_err(errs)?;
		b.put_ser(Some(b'P'), &kb(9003), &Blob { v: 9003, len: 12 * 1024 }).map_err(errs)?;
		b.commit().map_err(errs)
	})();
	let b_res = b_thread.join().unwrap();
	println!(
		"{}",
		json!({"mode": if raced {"raced"} else {"control"}, "pages_before": before, "pages_after": data_pages(&dir),
			"writer_b": b_res.err(), "writer_a": a_res.err()})
	);
	0
}

// ------------------------------------------------------------------------------------------
// Directed scenario: the enlargement of the map is DEFERRED because another thread holds an open
// iterator (read transaction); the batch that asked for it waits at the gate and, once the reader
// has closed and the map has been enlarged, writes far more than what was left in the old map
// (but well within the head-room a resize guarantees: used <= 65 % of the new map).
//   KV.tla: BeginWait .. (OutIterClose) .. Resize .. Admit .. Put .. Commit, invariant NoMapFull.
// `gate --dir D [--big BYTES] [--wait-ms MS] [--hang S]`
enum GateCmd {
	Small(u64),
	Big,
}

fn gate(args: &Args) -> i32 {
	let dir = args.req("dir").to_string();
	let big = args.u64("big", 200 * 1024) as usize;
	let wait_ms = args.u64("wait-ms", 500);
	let hang_s = args.u64("hang", 30);
	let _ = std::fs::remove_dir_all(&dir);
	let store = Arc::new(open_store(&dir).expect("open"));
	let cdir = std::fs::canonicalize(&dir).map(|p| p.to_string_lossy().to_string()).unwrap_or(dir.clone());
	let data_file = format!("{}/multi_lmdb/data.mdb", cdir);
	let finish = |v: Value| -> i32 {
		println!("{}", v);
		use std::io::Write;
		let _ = std::io::stdout().flush();
		// threads may be stuck inside the store: never join, never unwind through them
		std::process::exit(0);
	};
	// phase 1 (single thread, nothing else open): fill to about 78 % of the 256-page test-mode map
	let mut key = 1u64;
	while data_pages(&dir) < 200 {
		if let Err(e) = one_put(&store, key, 8 * 1024) {
			return finish(json!({"reached": false, "class": "fill_error", "error": e}));
		}
		key += 1;
	}
	let map0 = map_region(&data_file).map(|m| m.1).unwrap_or(0);
	// phase 2: small batches from a writer thread while THIS thread holds an open iterator, until a batch()
	// call does not come back: it needs the enlargement, which has to wait for the iterator
	let mut second: Option<Store> = None;
	let mut second_opened = 0u64;
	for it_no in 0..400u64 {
		// the reader works through a SECOND Store handle on the environment (as p2p's PeerStore next to the ChainStore): the
		// gate's counters (EnvState.open_txs_count / resizing) are shared by all handles; the handle is opened afresh every
		// 16th round and dropped with its iterator (Drop for Store: stores_count)
		if second.is_none() || it_no % 16 == 0 {
			second = None;
			second = match extra::open_second(&dir) {
				Ok(s) => Some(s),
				Err(e) => return finish(json!({"reached": false, "class": "second_handle_error", "error": errs(e)})),
			};
			second_opened += 1;
		}
		let held = match second.as_ref().unwrap().iter(Some(b'P'), deser_pair as DeserFn) {
			Ok(it) => it,
			Err(e) => return finish(json!({"reached": false, "class": "iter_error", "error": errs(e)})),
		};
		let (enter_tx, enter_rx) = mpsc::channel::<()>();
		let (got_tx, got_rx) = mpsc::channel::<()>();
		let (cmd_tx, cmd_rx) = mpsc::channel::<GateCmd>();
		let (res_tx, res_rx) = mpsc::channel::<Result<(), String>>();
		let wstore = store.clone();
		std::thread::spawn(move || {
			let r = catch_unwind(AssertUnwindSafe(|| -> Result<(), String> {
				let _ = enter_tx.send(());
				let mut b = wstore.batch().map_err(errs)?;
				let _ = got_tx.send(());
				match cmd_rx.recv().map_err(|e| e.to_string())? {
					GateCmd::Small(k) => b.put_ser(Some(b'P'), &kb(k), &Blob { v: k, len: 4 * 1024 }).map_err(|e| format!("put:{}", errs(e)))?,
					GateCmd::Big => {
						// raw bytes in Blob layout (Blob::read refuses fixed-size reads this long)
						let mut bytes = 9000u64.to_be_bytes().to_vec();
						bytes.extend_from_slice(&((big - 16) as u64).to_be_bytes());
						bytes.extend(fill(9000, big - 16));
						b.put(Some(b'P'), &kb(9000), &bytes).map_err(|e| format!("put:{}", errs(e)))?
					}
				}
				b.commit().map_err(|e| format!("commit:{}", errs(e)))
			}))
			.unwrap_or_else(|_| Err("panic:panic in code under test (writer thread)".to_string()));
			let _ = res_tx.send(r);
		});
		if enter_rx.recv_timeout(Duration::from_secs(hang_s)).is_err() {
			return finish(json!({"reached": false, "class": "harness", "error": "writer thread did not start"}));
		}
		// the writer is inside Store::batch() now; a call that is not back after wait_ms is taken to be parked at
		// the gate when the fill level says an enlargement is due (file pages >= 232 of 256: last page number
		// 231 -> 90.2 %), otherwise only after a much longer wait (a slow machine must not be mistaken for it)
		let mut got = got_rx.recv_timeout(Duration::from_millis(wait_ms));
		if let Err(mpsc::RecvTimeoutError::Timeout) = got {
			if data_pages(&dir) < 232 {
				got = got_rx.recv_timeout(Duration::from_millis(10 * wait_ms));
			}
		}
		// KV!ResizeGate: whatever the writer's batch() did, the map is not replaced under our open iterator
		let map_now = map_region(&data_file).map(|m| m.1).unwrap_or(0);
		if map_now != map0 {
			return finish(json!({"reached": true, "class": "remapped", "iterations": it_no, "map_before": map0, "map_after": map_now,
				"pages": data_pages(&dir), "writer_batch_returned": got.is_ok()}));
		}
		match got {
			Ok(()) => {
				// no enlargement pending: an ordinary small batch
				let _ = cmd_tx.send(GateCmd::Small(key));
				key += 1;
				match res_rx.recv_timeout(Duration::from_secs(hang_s)) {
					Ok(Ok(())) => {}
					Ok(Err(e)) => return finish(json!({"reached": false, "class": "fill_error", "error": e, "iterations": it_no})),
					Err(_) => return finish(json!({"reached": false, "class": "hang", "phase": "small_batch", "iterations": it_no, "bound_s": hang_s})),
				}
				drop(held);
			}
			Err(mpsc::RecvTimeoutError::Disconnected) => {
				let e = res_rx.recv().ok().and_then(|r| r.err()).unwrap_or_default();
				return finish(json!({"reached": false, "class": "fill_error", "error": e, "iterations": it_no}));
			}
			Err(mpsc::RecvTimeoutError::Timeout) => {
				// the writer is parked at the gate (KV!BeginWait); the enlargement waits for our iterator
				let pages_at_wait = data_pages(&dir);
				let map_at_wait = map_region(&data_file).map(|m| m.1).unwrap_or(0);
				let t_close = Instant::now();
				drop(held); // KV!OutIterClose: OpenTxs = 0 from here on
				if got_rx.recv_timeout(Duration::from_secs(hang_s)).is_err() {
					let e = res_rx.try_recv().ok().and_then(|r| r.err());
					if let Some(e) = e {
						return finish(json!({"reached": true, "class": "error", "phase": "batch", "error": e, "iterations": it_no,
							"pages_at_wait": pages_at_wait, "map_at_wait": map_at_wait}));
					}
					return finish(json!({"reached": true, "class": "hang", "phase": "batch_after_reader_closed", "iterations": it_no,
						"pages_at_wait": pages_at_wait, "map_at_wait": map_at_wait, "bound_s": hang_s}));
				}
				let waited_ms = t_close.elapsed().as_millis() as u64;
				let map_after = map_region(&data_file).map(|m| m.1).unwrap_or(0);
				let _ = cmd_tx.send(GateCmd::Big);
				let res = match res_rx.recv_timeout(Duration::from_secs(hang_s)) {
					Ok(r) => r,
					Err(_) => {
						return finish(json!({"reached": true, "class": "hang", "phase": "big_write", "iterations": it_no,
							"pages_at_wait": pages_at_wait, "map_at_wait": map_at_wait, "map_after": map_after, "bound_s": hang_s}))
					}
				};
				let mut class = "ok";
				let mut error = None;
				if let Err(e) = res {
					class = if e.contains("MAP_FULL") || e.contains("MapFull") || e.contains("NotEnoughSpace") { "mapfull" } else { "error" };
					error = Some(e);
				} else {
					// the committed value is there, whole
					let found = match store.iter(Some(b'P'), deser_pair as DeserFn) {
						Ok(it) => it
							.filter_map(|x| x.ok())
							.find(|(k, _)| k[..] == kb(9000)[..])
							.map(|(_, v)| (v.len(), decode_blob(&v))),
						Err(e) => Some((0, Err(errs(e)))),
					};
					match found {
						Some((n, Ok(9000))) if n == big => {}
						other => {
							class = "lost";
							error = Some(format!("{:?}", other));
						}
					}
				}
				return finish(json!({"reached": true, "class": class, "error": error, "iterations": it_no, "small_batches": key - 1,
					"pages_at_wait": pages_at_wait, "map_initial": map0, "map_at_wait": map_at_wait, "map_after_gate": map_after,
					"map_final": map_region(&data_file).map(|m| m.1).unwrap_or(0), "pages_final": data_pages(&dir),
					"big_bytes": big, "second_handle_opened": second_opened, "gate_wait_ms": waited_ms, "recognised_waiting_after_ms": wait_ms}));
			}
		}
	}
	finish(json!({"reached": false, "class": "never_needed_resize", "pages": data_pages(&dir)}))
}

// ------------------------------------------------------------------------------------------
// Directed scenarios for the per-thread side of the resize gate (KV!Entered / Left / CanEnter).
// Both record what they see (store iterators held across other calls, reads in flight) for spec/trace/KVTrace.tla.

/// What the scenario's threads are doing, for the supervisor (the command's main thread): a store call that does
/// not come back is DATA (a hang verdict on stdout, exit 0) - the stuck threads are never joined.
struct Sup {
	t0: Instant,
	op: AtomicU64,
	t_ms: AtomicU64,
	round: AtomicU64,
	kind: AtomicU64,
}
const S_OPS: [&str; 12] = [
	"idle", "grow_batch", "iter", "iter_next", "exists", "get_ser", "batch", "put", "commit", "iter_second", "iter_close",
	"helper_batch",
];
const S_IDLE: u64 = 0;
const S_GROW: u64 = 1;
const S_ITER: u64 = 2;
const S_NEXT: u64 = 3;
const S_EXISTS: u64 = 4;
const S_GET: u64 = 5;
const S_BATCH: u64 = 6;
const S_PUT: u64 = 7;
const S_COMMIT: u64 = 8;
const S_ITER2: u64 = 9;
const S_CLOSE: u64 = 10;
const S_HELPER: u64 = 11;
const K_PLAIN: u64 = 0;
const K_OWN: u64 = 1;
const K_OTHER: u64 = 2;
fn kind_name(k: u64) -> &'static str {
	match k {
		K_OWN => "own_batch",
		K_OTHER => "other_threads_batch",
		_ => "no_resize_due",
	}
}

impl Sup {
	fn new() -> Sup {
		Sup {
			t0: Instant::now(),
			op: AtomicU64::new(S_IDLE),
			t_ms: AtomicU64::new(0),
			round: AtomicU64::new(0),
			kind: AtomicU64::new(K_PLAIN),
		}
	}
	fn beat(&self, op: u64) {
		self.op.store(op, SeqCst);
		self.t_ms.store(self.t0.elapsed().as_millis() as u64, SeqCst);
	}
	fn stuck_ms(&self) -> u64 {
		(self.t0.elapsed().as_millis() as u64).saturating_sub(self.t_ms.load(SeqCst))
	}
}

fn emit_and_exit(v: Value) -> ! {
	println!("{}", v);
	use std::io::Write;
	let _ = std::io::stdout().flush();
	// threads may be stuck inside the store: never join, never unwind through them
	std::process::exit(0);
}

/// (space, key) of the n-th cell: spaces alternate, keys ascend
fn cell_of(c: u64) -> (u64, u64) {
	(1 + c % 2, 1 + c / 2)
}

/// would needs_resize() ask for an enlargement now? (file pages = last page number + 1)
fn resize_due(dir: &str, data_file: &str) -> bool {
	let map = map_region(data_file).map(|m| m.1).unwrap_or(0);
	map > 0 && (data_pages(dir).saturating_sub(1) * 4096) as f32 / map as f32 > 0.9
}

/// One model thread of a scenario: store calls with their trace events.
struct Scn {
	store: Arc<Store>,
	sup: Arc<Sup>,
	cfg: Cfg,
	ev: Vec<Value>,
	commits: u64,
	vid: u64,
}

impl Scn {
	/// Begin, Put, Commit of thread `t`
	fn put_commit(&mut self, op: u64, t: u64, sp: u64, key: u64, len: usize) -> Result<(), String> {
		self.sup.beat(op);
		let mut b = self.store.batch().map_err(|e| format!("batch:{}", errs(e)))?;
		self.ev.push(json!({"k": "Begin", "t": t}));
		self.sup.beat(S_PUT);
		self.vid += 1;
		let v = self.vid;
		b.put_ser(self.cfg.space(sp), &kb(key), &Blob { v, len }).map_err(|e| format!("put:{}", errs(e)))?;
		self.ev.push(json!({"k": "Put", "sp": sp, "key": key, "val": v}));
		self.sup.beat(S_COMMIT);
		b.commit().map_err(|e| format!("commit:{}", errs(e)))?;
		self.commits += 1;
		self.ev.push(json!({"k": "Commit", "idx": self.commits}));
		self.sup.beat(S_IDLE);
		Ok(())
	}
	fn exists(&mut self, t: u64, sp: u64, key: u64) -> Result<bool, String> {
		self.sup.beat(S_EXISTS);
		let r = self.store.exists(self.cfg.space(sp), &kb(key)).map_err(|e| format!("exists:{}", errs(e)))?;
		self.ev.push(json!({"k": "OutExists", "t": t, "sp": sp, "key": key, "res": r, "lo": self.commits, "hi": self.commits}));
		self.sup.beat(S_IDLE);
		Ok(r)
	}
	fn get(&mut self, t: u64, sp: u64, key: u64) -> Result<Option<u64>, String> {
		self.sup.beat(S_GET);
		let r = self
			.store
			.get_ser::<Blob>(self.cfg.space(sp), &kb(key), None)
			.map(|x| x.map(|b| b.v))
			.map_err(|e| format!("get_ser:{}", errs(e)))?;
		self.ev.push(json!({"k": "OutGet", "t": t, "sp": sp, "key": key, "res": r.unwrap_or(0), "lo": self.commits, "hi": self.commits}));
		self.sup.beat(S_IDLE);
		Ok(r)
	}
	fn iter_open<'a>(&mut self, op: u64, t: u64, r: u64, sp: u64) -> Result<It<'a>, String> {
		self.sup.beat(op);
		let it = self.store.iter(self.cfg.space(sp), deser_pair as DeserFn).map_err(|e| format!("iter:{}", errs(e)))?;
		self.ev.push(json!({"k": "OutIterOpen", "t": t, "r": r, "sp": sp}));
		self.sup.beat(S_IDLE);
		Ok(it)
	}
	fn iter_next(&mut self, r: u64, it: &mut It) -> Result<Option<(u64, u64)>, String> {
		self.sup.beat(S_NEXT);
		let x = conv_item(it.next()).map_err(|e| format!("iter_next:{}", e))?;
		self.ev.push(json!({"k": "OutIterNext", "r": r, "res": x.j()}));
		self.sup.beat(S_IDLE);
		Ok(x)
	}
	fn iter_close(&mut self, r: u64, it: It) {
		self.sup.beat(S_CLOSE);
		drop(it);
		self.ev.push(json!({"k": "OutIterClose", "r": r}));
		self.sup.beat(S_IDLE);
	}
	/// everything committed, read now and again after closing and reopening; the trace ends there
	fn finish_trace(mut self, dir: &str) -> Result<Vec<Value>, String> {
		let sh = Shared::new(dir);
		let mut tail = vec![];
		observe_all(&self.store, &self.cfg, self.commits, &mut tail, &sh);
		let cfg = self.cfg;
		let commits = self.commits;
		let mut all = std::mem::replace(&mut self.ev, vec![]);
		drop(self);
		all.extend(tail);
		all.push(json!({"k": "Crash"}));
		let mut tail2 = vec![];
		match open_store(dir) {
			Ok(s2) => observe_all(&s2, &cfg, commits, &mut tail2, &sh),
			Err(e) => sh.error("reopen", errs(e)),
		}
		all.extend(tail2);
		if let Some(e) = sh.errors.lock().unwrap().first() {
			return Err(format!("final:{}", e));
		}
		annotate_keep(&mut all);
		Ok(all)
	}
}

/// `nested --dir D --out TRACE [--seed N] [--hang S] [--max-rounds N]`
/// ONE thread (model thread 1) does what chain code does with an index: it holds a store iterator, looks the item
/// up (Store::exists / get_ser: a second transaction opened and closed under the iterator), writes (Store::batch()
/// under the iterator) and opens more transactions - round after round while the data grows past 90 % of the map.
/// In the first round in which an enlargement is due it is the thread's OWN batch() that asks for it (it must be let
/// through the gate: it holds the iterator the enlargement waits for); at the next crossing ANOTHER thread's batch()
/// asks and parks, and the iterator's thread then opens one more transaction of every kind. KV: Begin(t) with
/// mark[t] > 0, NoHolderParked, GateLive. The order of the two kinds depends on the seed.
fn nested(args: &Args) -> i32 {
	let dir = args.req("dir").to_string();
	let outp = args.req("out").to_string();
	let seed = args.u64("seed", 1);
	let hang_s = args.u64("hang", 15);
	let max_rounds = args.u64("max-rounds", 160);
	let _ = std::fs::remove_dir_all(&dir);
	let store = Arc::new(open_store(&dir).expect("open"));
	let cdir = std::fs::canonicalize(&dir).map(|p| p.to_string_lossy().to_string()).unwrap_or(dir.clone());
	let data_file = format!("{}/multi_lmdb/data.mdb", cdir);
	let sup = Arc::new(Sup::new());
	sup.beat(S_IDLE);
	let (done_tx, done_rx) = mpsc::channel::<Result<(Vec<Value>, Value), String>>();
	{
		let (store, sup, dir, data_file) = (store.clone(), sup.clone(), dir.clone(), data_file.clone());
		std::thread::spawn(move || {
			let r = catch_unwind(AssertUnwindSafe(|| nested_worker(store, sup, &dir, &data_file, seed, max_rounds)));
			let _ = done_tx.send(r.unwrap_or_else(|_| Err("panic:panic in code under test".to_string())));
		});
	}
	drop(store);
	loop {
		match done_rx.recv_timeout(Duration::from_millis(50)) {
			Ok(Ok((trace, mut summary))) => {
				let mut w = NdWriter::create(&outp);
				for e in &trace {
					w.put(e);
				}
				summary["events"] = json!(w.n);
				w.finish();
				let _ = std::fs::remove_dir_all(&dir);
				emit_and_exit(summary);
			}
			Ok(Err(e)) => {
				let (op, msg) = match e.find(':') {
					Some(i) => (e[..i].to_string(), e[i + 1..].to_string()),
					None => ("scenario".to_string(), e.clone()),
				};
				let class = if op == "harness" {
					"harness"
				} else if msg.contains("MAP_FULL") || msg.contains("MapFull") {
					"mapfull"
				} else if op == "panic" {
					"panic"
				} else if op == "remap" {
					"remapped"
				} else {
					"error"
				};
				emit_and_exit(json!({"class": class, "op": op, "error": msg, "round": sup.round.load(SeqCst),
					"kind": kind_name(sup.kind.load(SeqCst))}));
			}
			Err(mpsc::RecvTimeoutError::Disconnected) => emit_and_exit(json!({"class": "harness", "error": "worker vanished"})),
			Err(mpsc::RecvTimeoutError::Timeout) => {
				if sup.op.load(SeqCst) != S_IDLE && sup.stuck_ms() >= hang_s * 1000 {
					emit_and_exit(json!({"class": "hang", "in": S_OPS[sup.op.load(SeqCst) as usize], "round": sup.round.load(SeqCst),
						"kind": kind_name(sup.kind.load(SeqCst)), "bound_s": hang_s, "data_pages": data_pages(&dir),
						"map_bytes": map_region(&data_file).map(|m| m.1)}));
				}
			}
		}
	}
}

/// KV!ResizeGate / NoRemapUnderTxn seen from the thread that holds the iterator: the mapping it was opened on is still there
fn remap_check(at_open: Option<(u64, u64)>, data_file: &str) -> Result<(), String> {
	let now = map_region(data_file);
	if now != at_open {
		return Err(format!("remap:{:?} -> {:?}", at_open, now));
	}
	Ok(())
}

fn nested_worker(store: Arc<Store>, sup: Arc<Sup>, dir: &str, data_file: &str, seed: u64, max_rounds: u64) -> Result<(Vec<Value>, Value), String> {
	let cfg = Cfg { ns: 2, nk: 100, defdb: false };
	let mut scn = Scn { store: store.clone(), sup: sup.clone(), cfg, ev: vec![], commits: 0, vid: 0 };
	// the "index": three small entries at the front of space 1 (the items the iterator walks over and looks up)
	for key in 1..=3 {
		scn.put_commit(S_GROW, 1, 1, key, 100)?;
	}
	let mut cell = 6u64; // cells 0..5 = keys 1..3 of both spaces
	let order = if seed % 2 == 1 { [K_OWN, K_OTHER] } else { [K_OTHER, K_OWN] };
	let mut crossings = 0usize;
	let mut due_rounds: Vec<Value> = vec![];
	let mut rounds = 0;
	let mut extra = 0;
	for round in 0..max_rounds {
		rounds = round + 1;
		sup.round.store(round, SeqCst);
		sup.kind.store(K_PLAIN, SeqCst);
		// the data grows (no other transaction open on this thread)
		let (gsp, gkey) = cell_of(cell);
		cell += 1;
		if gkey > cfg.nk {
			return Err("harness:out of cells".to_string());
		}
		scn.put_commit(S_GROW, 1, gsp, gkey, 32 * 1024)?;
		let due = resize_due(dir, data_file);
		let kind = if due && crossings < 2 { order[crossings] } else { K_PLAIN };
		sup.kind.store(kind, SeqCst);
		let map_before = map_region(data_file).map(|m| m.1).unwrap_or(0);
		// (1) the iterator, held to the end of the round; (2) its first item looked up: transactions opened and
		// closed under the iterator
		let mut it = scn.iter_open(S_ITER, 1, 1, 1)?;
		let map_open = map_region(data_file);
		let first = scn.iter_next(1, &mut it)?;
		let k1 = first.map(|p| p.0).unwrap_or(1);
		scn.exists(1, 1, k1)?;
		scn.get(1, 1, k1)?;
		scn.get(1, gsp, gkey)?;
		let pending;
		if kind == K_OTHER {
			// another thread (model thread 2) asks for a batch: an enlargement is due, it has to wait for our iterator
			let (got_tx, got_rx) = mpsc::channel::<()>();
			let (go_tx, go_rx) = mpsc::channel::<()>();
			let (res_tx, res_rx) = mpsc::channel::<Result<(), String>>();
			let hstore = store.clone();
			let hv = scn.vid + 1;
			scn.vid += 1;
			let hs = cfg.space(2);
			std::thread::spawn(move || {
				let r = (|| -> Result<(), String> {
					let mut b = hstore.batch().map_err(|e| format!("batch:{}", errs(e)))?;
					let _ = got_tx.send(());
					let _ = go_rx.recv();
					b.put_ser(hs, &kb(2), &Blob { v: hv, len: 100 }).map_err(|e| format!("put:{}", errs(e)))?;
					b.commit().map_err(|e| format!("commit:{}", errs(e)))
				})();
				drop(hstore);
				let _ = res_tx.send(r);
			});
			let admitted = got_rx.recv_timeout(Duration::from_millis(400)).is_ok();
			pending = !admitted;
			// (4) one more transaction of every kind on the thread that holds the iterator
			scn.exists(1, 1, k1)?;
			scn.get(1, 1, 2)?;
			let mut it2 = scn.iter_open(S_ITER2, 1, 2, 2)?;
			scn.iter_next(2, &mut it2)?;
			scn.iter_close(2, it2);
			scn.iter_next(1, &mut it)?;
			remap_check(map_open, data_file)?;
			scn.iter_close(1, it);
			// the other thread's batch goes on once the iterator is closed (and the map has been enlarged)
			sup.beat(S_HELPER);
			if !admitted {
				let _ = got_rx.recv();
			}
			scn.ev.push(json!({"k": "Begin", "t": 2}));
			let _ = go_tx.send(());
			match res_rx.recv() {
				Ok(Ok(())) => {}
				Ok(Err(e)) => return Err(format!("helper_{}", e)),
				Err(_) => return Err("harness:helper vanished".to_string()),
			}
			scn.ev.push(json!({"k": "Put", "sp": 2, "key": 2, "val": hv}));
			scn.commits += 1;
			scn.ev.push(json!({"k": "Commit", "idx": scn.commits}));
			sup.beat(S_IDLE);
		} else {
			// this thread's own batch under its iterator: if an enlargement is due it can only be requested here
			// (it has to wait for the iterator) and the batch is let through the gate
			scn.put_commit(S_BATCH, 1, 1, 2, 100)?;
			// is an enlargement pending now? a transaction of a thread that holds nothing has to wait then
			let (ptx, prx) = mpsc::channel::<()>();
			let pstore = store.clone();
			std::thread::spawn(move || {
				let _ = pstore.exists(Some(b'P'), &kb(1));
				drop(pstore);
				let _ = ptx.send(());
			});
			pending = prx.recv_timeout(Duration::from_millis(if due { 150 } else { 20 })).is_err();
			// (4) one more transaction of every kind
			scn.exists(1, 1, k1)?;
			scn.get(1, 1, 2)?;
			let mut it2 = scn.iter_open(S_ITER2, 1, 2, 2)?;
			scn.iter_next(2, &mut it2)?;
			scn.iter_close(2, it2);
			scn.iter_next(1, &mut it)?;
			remap_check(map_open, data_file)?;
			scn.iter_close(1, it);
			if pending {
				sup.beat(S_HELPER);
				let _ = prx.recv();
				sup.beat(S_IDLE);
			}
		}
		if due && kind != K_PLAIN {
			// the enlargement that was waiting for the iterator is carried out by a helper thread of the store
			let t = Instant::now();
			while map_region(data_file).map(|m| m.1).unwrap_or(0) == map_before && t.elapsed() < Duration::from_secs(10) {
				std::thread::sleep(Duration::from_millis(10));
			}
			due_rounds.push(json!({"round": round, "kind": kind_name(kind), "pending_seen": pending, "map_before": map_before,
				"map_after": map_region(data_file).map(|m| m.1).unwrap_or(0), "data_pages": data_pages(dir)}));
			crossings += 1;
		}
		if crossings >= 2 {
			extra += 1;
			if extra > 2 {
				break;
			}
		}
	}
	let exercised = due_rounds.len() >= 2 && due_rounds.iter().all(|d| d["pending_seen"] == true && d["map_after"].as_u64() > d["map_before"].as_u64());
	// KV!ResizeGate / NeedsResize (measured by the LAST PAGE of the data file, as LMDB measures when it allocates): an
	// enlargement was due, a batch() was called (by this thread under its iterator, or by another thread), every transaction
	// has been closed since - and the map is what it was: the enlargement was never asked for
	let not_enlarged = due_rounds.iter().find(|d| d["map_after"].as_u64() <= d["map_before"].as_u64() && d["pending_seen"] == false).cloned();
	let commits = scn.commits;
	let map_final = map_region(data_file).map(|m| m.1);
	drop(store);
	let trace = scn.finish_trace(dir)?;
	Ok((
		trace,
		json!({"class": if exercised { "ok" } else if not_enlarged.is_some() { "due_not_enlarged" } else { "not_exercised" },
			"not_enlarged": not_enlarged, "rounds": rounds, "commits": commits, "due_rounds": due_rounds,
			"order": [kind_name(order[0]), kind_name(order[1])], "map_final": map_final}),
	))
}

/// `inflight --dir D --out TRACE [--hang S] [--commits N]`
/// A reader thread (model thread 2) is stopped in the middle of Store::get_ser - its read transaction open, half of
/// the value still unread in the memory map - while a writer thread (model thread 1) commits more than the map can
/// hold. The enlargement has to wait for that read (KV!CountAgrees: EVERY open transaction is counted; KV!Resize
/// only at cnt = 0; NoRemapUnderTxn): the writer stalls in batch(), the mapping of the data file stays where it is;
/// once the read is released it yields exactly the committed value, the map is enlarged and the writer finishes.
fn inflight(args: &Args) -> i32 {
	let dir = args.req("dir").to_string();
	let outp = args.req("out").to_string();
	let hang_s = args.u64("hang", 15);
	let ncommits = args.u64("commits", 40);
	let _ = std::fs::remove_dir_all(&dir);
	let store = Arc::new(open_store(&dir).expect("open"));
	let cdir = std::fs::canonicalize(&dir).map(|p| p.to_string_lossy().to_string()).unwrap_or(dir.clone());
	let data_file = format!("{}/multi_lmdb/data.mdb", cdir);
	let cfg = Cfg { ns: 2, nk: 100, defdb: false };
	let sup = Arc::new(Sup::new());
	let mut scn = Scn { store: store.clone(), sup: sup.clone(), cfg, ev: vec![], commits: 0, vid: 0 };
	let fail = |class: &str, e: String| -> ! { emit_and_exit(json!({"class": class, "error": e})) };
	// the value the reader will be caught in (two halves of 32 KiB), then data up to about 80 % of the map
	if let Err(e) = scn.put_commit(S_GROW, 1, 1, 1, 64 * 1024) {
		fail(if e.contains("MAP_FULL") { "mapfull" } else { "error" }, e);
	}
	let target_v = scn.vid;
	let mut cell = 2u64;
	while data_pages(&dir) < 200 {
		let (sp, key) = cell_of(cell);
		cell += 1;
		if let Err(e) = scn.put_commit(S_GROW, 1, sp, key, 32 * 1024) {
			fail(if e.contains("MAP_FULL") { "mapfull" } else { "error" }, e);
		}
	}
	// KV!ReadBegin(2, 1, 1)
	let read = match start_paused_read(store.clone(), cfg.space(1), 1, Duration::from_secs(hang_s)) {
		Ok(r) if r.in_flight() => r,
		Ok(_) => fail("harness", "the read came back without pausing".to_string()),
		Err(e) => emit_and_exit(json!({"class": "hang", "phase": "read_start", "error": e, "bound_s": hang_s})),
	};
	scn.ev.push(json!({"k": "ReadBegin", "t": 2, "sp": 1, "key": 1}));
	let map0 = map_region(&data_file);
	let commits_at_read = scn.commits;
	// the writer: 32 KiB per commit, more than the map can hold
	let log = Arc::new(Mutex::new((scn.ev.split_off(0), scn.commits, scn.vid)));
	let progress = Arc::new(AtomicU64::new(0));
	let (wres_tx, wres_rx) = mpsc::channel::<Result<(), String>>();
	{
		let (wstore, log, progress) = (store.clone(), log.clone(), progress.clone());
		let first_cell = cell;
		std::thread::spawn(move || {
			let r = catch_unwind(AssertUnwindSafe(|| -> Result<(), String> {
				for i in 0..ncommits {
					let (sp, key) = cell_of(first_cell + i);
					let mut b = wstore.batch().map_err(|e| format!("batch:{}", errs(e)))?;
					let mut g = log.lock().unwrap();
					g.0.push(json!({"k": "Begin", "t": 1}));
					g.2 += 1;
					let v = g.2;
					b.put_ser(cfg.space(sp), &kb(key), &Blob { v, len: 32 * 1024 }).map_err(|e| format!("put:{}", errs(e)))?;
					g.0.push(json!({"k": "Put", "sp": sp, "key": key, "val": v}));
					b.commit().map_err(|e| format!("commit:{}", errs(e)))?;
					g.1 += 1;
					let idx = g.1;
					g.0.push(json!({"k": "Commit", "idx": idx}));
					drop(g);
					progress.store(i + 1, SeqCst);
				}
				Ok(())
			}));
			drop(wstore);
			let _ = wres_tx.send(r.unwrap_or_else(|_| Err("panic:panic in code under test".to_string())));
		});
	}
	// watch: does the mapping change under the read? does the writer stall?
	let t0 = Instant::now();
	let mut last = (0u64, Instant::now());
	let mut writer_res: Option<Result<(), String>> = None;
	let stalled = loop {
		std::thread::sleep(Duration::from_millis(5));
		let m = map_region(&data_file);
		if m != map0 {
			// KV!NoRemapUnderTxn violated: say so BEFORE the read touches the rest of its value
			let done = progress.load(SeqCst);
			let first = json!({"class": "remapped", "map_before": map0.map(|x| [x.0, x.1]), "map_after": m.map(|x| [x.0, x.1]),
				"writer_commits_done": done, "data_pages": data_pages(&dir), "read_released": false});
			println!("{}", first);
			use std::io::Write;
			let _ = std::io::stdout().flush();
			let after = match read.finish(Duration::from_secs(hang_s)) {
				Some(Ok(Some(v))) if v == target_v => "committed_value".to_string(),
				Some(Ok(x)) => format!("wrong_value:{:?}", x),
				Some(Err(e)) => format!("error:{}", e),
				None => "no_answer".to_string(),
			};
			let mut second = first.clone();
			second["read_released"] = json!(true);
			second["read_after_remap"] = json!(after);
			emit_and_exit(second);
		}
		if let Ok(r) = wres_rx.try_recv() {
			writer_res = Some(r);
			break false;
		}
		let p = progress.load(SeqCst);
		if p != last.0 {
			last = (p, Instant::now());
		} else if last.1.elapsed() >= Duration::from_millis(1500) && resize_due(&dir, &data_file) {
			break true;
		}
		if t0.elapsed() >= Duration::from_secs(4 * hang_s) {
			emit_and_exit(json!({"class": "inconclusive", "error": "the writer neither stalled nor finished", "writer_commits_done": p,
				"data_pages": data_pages(&dir)}));
		}
	};
	if !stalled {
		// the writer came to an end with the read still in flight and the mapping unchanged
		let _ = read.finish(Duration::from_secs(hang_s));
		match writer_res {
			Some(Err(e)) => {
				let class = if e.contains("MAP_FULL") || e.contains("MapFull") { "mapfull" } else { "error" };
				emit_and_exit(json!({"class": class, "phase": "writer_under_inflight_read", "error": e, "writer_commits_done": progress.load(SeqCst)}))
			}
			_ => emit_and_exit(json!({"class": "not_exercised", "error": "all commits fitted into the map", "data_pages": data_pages(&dir)})),
		}
	}
	let stalled_at = progress.load(SeqCst);
	let pages_at_stall = data_pages(&dir);
	// KV!ReadEnd(2): the rest of the value is read now
	let t_rel = Instant::now();
	let got = read.finish(Duration::from_secs(hang_s));
	log.lock().unwrap().0.push(json!({"k": "ReadEnd", "t": 2, "res": match &got { Some(Ok(Some(v))) => *v, _ => 0 }}));
	match got {
		Some(Ok(Some(v))) if v == target_v => {}
		Some(Ok(x)) => emit_and_exit(json!({"class": "wrong_value", "expected": target_v, "observed": x, "stalled_at": stalled_at})),
		Some(Err(e)) => emit_and_exit(json!({"class": "read_error", "error": e, "stalled_at": stalled_at})),
		None => emit_and_exit(json!({"class": "hang", "phase": "read_after_release", "bound_s": hang_s, "stalled_at": stalled_at})),
	}
	// the enlargement takes place, the writer goes on to the end
	let wres = match wres_rx.recv_timeout(Duration::from_secs(2 * hang_s)) {
		Ok(r) => r,
		Err(_) => emit_and_exit(json!({"class": "hang", "phase": "writer_after_read_released", "bound_s": 2 * hang_s, "stalled_at": stalled_at,
			"writer_commits_done": progress.load(SeqCst), "map_bytes": map_region(&data_file).map(|m| m.1)})),
	};
	if let Err(e) = wres {
		let class = if e.contains("MAP_FULL") || e.contains("MapFull") { "mapfull" } else { "error" };
		emit_and_exit(json!({"class": class, "phase": "writer_after_read_released", "error": e, "stalled_at": stalled_at}));
	}
	let resumed_ms = t_rel.elapsed().as_millis() as u64;
	let map1 = map_region(&data_file);
	{
		let mut g = log.lock().unwrap();
		scn.ev = g.0.split_off(0);
		scn.commits = g.1;
		scn.vid = g.2;
	}
	let commits = scn.commits;
	drop(store);
	let trace = match scn.finish_trace(&dir) {
		Ok(t) => t,
		Err(e) => emit_and_exit(json!({"class": "error", "phase": "final_observation", "error": e})),
	};
	let mut w = NdWriter::create(&outp);
	for e in &trace {
		w.put(e);
	}
	let n = w.n;
	w.finish();
	let _ = std::fs::remove_dir_all(&dir);
	emit_and_exit(json!({"class": if map1.map(|m| m.1) > map0.map(|m| m.1) { "ok" } else { "not_exercised" },
		"commits_before_read": commits_at_read, "writer_stalled_after": stalled_at, "writer_commits": ncommits, "pages_at_stall": pages_at_stall,
		"map_during_read": map0.map(|m| m.1), "map_final": map1.map(|m| m.1), "writer_finished_ms_after_release": resumed_ms,
		"commits": commits, "events": n, "read_value_ok": true}))
}

/// `squeeze --dir D --mode own_iterator|control [--bytes N]`
/// Probe, not part of the property (its quantifier has the iterators on OTHER threads; KV!squeezed): the thread that
/// opens the batch holds a store iterator itself, so the enlargement that is due cannot take place before the batch.
fn squeeze(args: &Args) -> i32 {
	let dir = args.req("dir").to_string();
	let own = args.req("mode") == "own_iterator";
	let bytes = args.u64("bytes", 96 * 1024) as usize;
	let _ = std::fs::remove_dir_all(&dir);
	let store = Arc::new(open_store(&dir).expect("open"));
	let cdir = std::fs::canonicalize(&dir).map(|p| p.to_string_lossy().to_string()).unwrap_or(dir.clone());
	let data_file = format!("{}/multi_lmdb/data.mdb", cdir);
	let mut key = 1u64;
	while !resize_due(&dir, &data_file) {
		if let Err(e) = one_put(&store, key, 8 * 1024) {
			emit_and_exit(json!({"mode": args.req("mode"), "class": "fill_error", "error": e}));
		}
		key += 1;
	}
	let pages = data_pages(&dir);
	let map0 = map_region(&data_file).map(|m| m.1);
	let held = if own { store.iter(Some(b'P'), deser_pair as DeserFn).ok() } else { None };
	let r = (|| -> Result<(), String> {
		let mut b = store.batch().map_err(|e| format!("batch:{}", errs(e)))?;
		b.put_ser(Some(b'Q'), &kb(1), &Blob { v: 1, len: bytes - 16 }).map_err(|e| format!("put:{}", errs(e)))?;
		b.commit().map_err(|e| format!("commit:{}", errs(e)))
	})();
	let map1 = map_region(&data_file).map(|m| m.1);
	drop(held);
	emit_and_exit(json!({"mode": args.req("mode"), "class": if r.is_ok() { "ok" } else { "failed" }, "error": r.err(), "pages_before": pages,
		"map_before": map0, "map_at_commit": map1, "batch_bytes": bytes}))
}

/// raw bytes in Blob layout (values too long for Blob::read's fixed-size reads)
fn blob_bytes(v: u64, len: usize) -> Vec<u8> {
	let mut bytes = v.to_be_bytes().to_vec();
	bytes.extend_from_slice(&(len as u64).to_be_bytes());
	bytes.extend(fill(v, len));
	bytes
}

/// `bigbatch --dir D --mode single|control --tenths N`
/// KV counterexample of MC_KV_bigbatch: Begin, N x Put of one unit (a tenth of the map) in ONE batch on a fresh store.
/// `control` writes the same volume in batches of 64 KiB (each far below 10 % of the map): the map is enlarged between them.
fn bigbatch(args: &Args) -> i32 {
	let dir = args.req("dir").to_string();
	let single = args.req("mode") == "single";
	let tenths = args.u64("tenths", 11) as usize;
	let _ = std::fs::remove_dir_all(&dir);
	let store = open_store(&dir).expect("open");
	let cdir = std::fs::canonicalize(&dir).map(|p| p.to_string_lossy().to_string()).unwrap_or(dir.clone());
	let data_file = format!("{}/multi_lmdb/data.mdb", cdir);
	let map0 = map_region(&data_file).map(|m| m.1).unwrap_or(1 << 20) as usize;
	let total = tenths * map0 / 10;
	let piece = 64 * 1024;
	let n = (total + piece - 1) / piece;
	let mut written = 0usize;
	let mut puts = 0usize;
	let r = (|| -> Result<(), String> {
		if single {
			let mut b = store.batch().map_err(|e| format!("batch:{}", errs(e)))?;
			for i in 0..n {
				b.put(Some(b'P'), &kb(i as u64 + 1), &blob_bytes(i as u64 + 1, piece - 16)).map_err(|e| format!("put:{}", errs(e)))?;
				written += piece;
				puts += 1;
			}
			b.commit().map_err(|e| format!("commit:{}", errs(e)))
		} else {
			for i in 0..n {
				let mut b = store.batch().map_err(|e| format!("batch:{}", errs(e)))?;
				b.put(Some(b'P'), &kb(i as u64 + 1), &blob_bytes(i as u64 + 1, piece - 16)).map_err(|e| format!("put:{}", errs(e)))?;
				b.commit().map_err(|e| format!("commit:{}", errs(e)))?;
				written += piece;
				puts += 1;
			}
			Ok(())
		}
	})();
	let map1 = map_region(&data_file).map(|m| m.1);
	let class = match &r {
		Ok(()) => "ok",
		Err(e) if e.contains("MAP_FULL") || e.contains("MapFull") => "mapfull",
		Err(_) => "error",
	};
	emit_and_exit(json!({"mode": args.req("mode"), "class": class, "error": r.err(), "tenths_of_map": tenths, "batch_bytes": total,
		"puts_done": puts, "bytes_written": written, "map_before": map0, "map_after": map1, "data_pages": data_pages(&dir)}))
}

/// `reopen --dir D [--step-bytes N]`
/// Session 1 grows the db past one chunk (several enlargements), then - iterator of the same thread open - writes
/// one record of N bytes; the store is closed and opened again (KV!Crash = restart) and session 2 does the same step
/// first thing. The environment has to come back with the map size it had (HeadroomKept): the step, which had room
/// before the restart and is far from the 90 % mark, must have it afterwards.
fn reopen(args: &Args) -> i32 {
	let dir = args.req("dir").to_string();
	let step_bytes = args.u64("step-bytes", 160 * 1024) as usize;
	let _ = std::fs::remove_dir_all(&dir);
	let cdir0 = dir.clone();
	let step = |store: &Store, key: u64| -> Result<(), String> {
		let mut it = store.iter(Some(b'P'), deser_pair as DeserFn).map_err(|e| format!("iter:{}", errs(e)))?;
		let _ = it.next();
		let mut b = store.batch().map_err(|e| format!("batch:{}", errs(e)))?;
		b.put(Some(b'Q'), &kb(key), &blob_bytes(key, step_bytes - 16)).map_err(|e| format!("put:{}", errs(e)))?;
		b.commit().map_err(|e| format!("commit:{}", errs(e)))?;
		drop(it);
		Ok(())
	};
	let data_file = |d: &str| {
		let c = std::fs::canonicalize(d).map(|p| p.to_string_lossy().to_string()).unwrap_or(d.to_string());
		format!("{}/multi_lmdb/data.mdb", c)
	};
	// session 1
	let store = open_store(&dir).expect("open");
	let df = data_file(&cdir0);
	let mut key = 1u64;
	while data_pages(&dir) < 830 {
		if let Err(e) = one_put(&store, key, 24 * 1024) {
			emit_and_exit(json!({"class": if e.contains("MAP_FULL") { "mapfull" } else { "error" }, "phase": "grow", "error": e}));
		}
		key += 1;
	}
	let s1 = step(&store, 1);
	// one more ordinary commit: whatever enlargement was pending is carried out and persisted with it
	std::thread::sleep(Duration::from_millis(300));
	let _ = one_put(&store, key, 100);
	let map1 = map_region(&df).map(|m| m.1).unwrap_or(0);
	let pages1 = data_pages(&dir);
	let due1 = resize_due(&dir, &df);
	drop(store);
	if let Err(e) = s1 {
		emit_and_exit(json!({"class": "not_exercised", "phase": "session1_step", "error": e, "map": map1, "data_pages": pages1}));
	}
	// session 2: the restarted process
	let store = match open_store(&dir) {
		Ok(s) => s,
		Err(e) => emit_and_exit(json!({"class": "error", "phase": "reopen", "error": errs(e)})),
	};
	let map2 = map_region(&df).map(|m| m.1).unwrap_or(0);
	let s2 = step(&store, 2);
	let found = store.exists(Some(b'Q'), &kb(2)).unwrap_or(false);
	let class = match &s2 {
		Ok(()) if !found => "lost",
		Ok(()) if map2 < map1 => "map_shrunk",
		Ok(()) => "ok",
		Err(e) if e.contains("MAP_FULL") || e.contains("MapFull") => "mapfull",
		Err(_) => "error",
	};
	drop(store);
	let _ = std::fs::remove_dir_all(&dir);
	emit_and_exit(json!({"class": class, "error": s2.err(), "map_before_restart": map1, "map_after_restart": map2, "data_pages": pages1,
		"resize_due_before_restart": due1, "step_bytes": step_bytes, "batches_session1": key}))
}
