//! C16 engine: segments of MMRs and state sync (PIBD / txhashset archive).
//!   component — direction A: every case emitted from spec/Segment.tla is realised on real MMRs
//!               (PMMRBackend with removals + check_compact, VecBackend) and the real
//!               Segment::from_pmmr / validate / validate_with are compared with the specification.
//!   e2e       — source Chain -> Segmenter -> Desegmenter on a header-synced receiver, in arrival orders
//!               chosen by spec/Desegmenter.tla, compared with a block-by-block twin; archive path; traces.
mod comp;
mod e2e;

use vcommon::*;

fn main() {
	quiet_panics();
	let a: Vec<String> = std::env::args().skip(1).collect();
	let args = Args::parse(&a);
	let rc = match args.pos.get(0).map(|s| s.as_str()) {
		Some("component") => comp::run(&args),
		Some("e2e") => e2e::run(&args),
		_ => {
			eprintln!("segment component|e2e ...");
			2
		}
	};
	std::process::exit(rc);
}
