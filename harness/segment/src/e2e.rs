use vcommon::*;
pub fn run(_args: &Args) -> i32 {
	2
}
