//! End to end: source Chain -> Segmenter -> (segments as bytes) -> Desegmenter on a header-synced receiver,
//! compared with the archive header, with a block-by-block twin and with the source; archive path.
//!   e2e build : builds source chain (+ optional compaction), stale segments, twin, all segments, archive zip
//!   e2e run   : executes delivery scenarios (orders chosen by spec/Desegmenter.tla) on fresh receivers,
//!               records one trace per scenario (validated by spec/trace/DesegmenterTrace.tla) and the
//!               final-state comparisons.
use crate::comp::PlainSeg;
use chrono::Duration;
use grin_chain::txhashset::{BitmapAccumulator, BitmapChunk, BitmapSegment};
use grin_chain::types::{NoStatus, NoopAdapter};
use grin_chain::{Chain, Options, SyncState};
use grin_core::core::hash::{Hash, Hashed};
use grin_core::core::pmmr::segment::{Segment, SegmentIdentifier, SegmentType};
use grin_core::core::pmmr::ReadablePMMR;
use grin_core::core::{
	Block, BlockHeader, FeeFields, KernelFeatures, OutputIdentifier, Transaction, TxKernel,
};
use grin_core::global::{self, ChainTypes};
use grin_core::libtx::{build, reward, ProofBuilder};
use grin_core::pow::{self, Difficulty};
use grin_core::ser::{self, DeserializationMode, ProtocolVersion, Readable, Writeable};
use grin_core::genesis;
use grin_keychain::{ExtKeychain, ExtKeychainPath, Identifier, Keychain, SwitchCommitmentType};
use grin_util::secp::pedersen::{Commitment, RangeProof};
use grin_util::{StopState, ToHex};
use rand::rngs::StdRng;
use rand::{Rng, SeedableRng};
use serde_json::{json, Value};
use std::collections::HashSet;
use std::fs::{self, File};
use std::io::{Read, Write};
use std::panic::{catch_unwind, AssertUnwindSafe};
use std::sync::Arc;
use vcommon::*;

/// `required` sets carry two kinds of entries: pos0 of unspent leaves, and pos0 | POISON_FLAG for every leaf the
/// root depends on under the bitmap (unspent, sibling of unspent, last position of the MMR).
const POISON_FLAG: u64 = 1 << 62;
const TREES: [&str; 4] = ["bitmap", "output", "rangeproof", "kernel"];

fn keychain() -> ExtKeychain {
	ExtKeychain::from_seed(&[7u8; 32], false).unwrap()
}
fn kid(a: u32, b: u32) -> Identifier {
	ExtKeychainPath::new(3, a, b, 0, 0).to_identifier()
}

fn pv() -> ProtocolVersion {
	crate::comp::WIRE
}

fn to_bytes<W: Writeable>(w: &W) -> Vec<u8> {
	ser::ser_vec(w, pv()).expect("ser")
}
fn from_bytes<T: Readable>(b: &[u8]) -> Result<T, ser::Error> {
	ser::deserialize(&mut &b[..], pv(), DeserializationMode::default())
}

fn init_chain(dir: &str, genesis: &Block) -> Chain {
	Chain::init(
		dir.to_string(),
		Arc::new(NoopAdapter {}),
		genesis.clone(),
		pow::verify_size,
		false,
		None,
	)
	.expect("chain init")
}

fn hx(h: &Hash) -> String {
	h.to_hex()
}

struct Utxo {
	leaf: u64, // 0-based leaf index in the output MMR
	commit: Commitment,
	key: Identifier,
	value: u64,
	coinbase: bool,
	height: u64,
	group: u64,
}

fn unspent_json(chain: &Chain, commits: &[(String, Commitment)]) -> Value {
	let mut m = serde_json::Map::new();
	for (name, c) in commits {
		let v = match chain.get_unspent(*c) {
			Ok(Some((oid, pos))) => json!({"pos": pos.pos, "h": pos.height, "f": format!("{:?}", oid.features)}),
			Ok(None) => Value::Null,
			Err(e) => json!({"err": format!("{}", e)}),
		};
		m.insert(name.clone(), v);
	}
	Value::Object(m)
}

fn roots_json(chain: &Chain, header: &BlockHeader) -> Value {
	let r = chain.txhashset().read().roots().expect("roots");
	json!({
		"output": hx(&r.output_roots.root(header)),
		"output_pmmr": hx(&r.output_roots.pmmr_root),
		"bitmap": hx(&r.output_roots.bitmap_root),
		"rangeproof": hx(&r.rproof_root),
		"kernel": hx(&r.kernel_root),
	})
}

fn header_roots_json(h: &BlockHeader) -> Value {
	json!({"output": hx(&h.output_root), "rangeproof": hx(&h.range_proof_root), "kernel": hx(&h.kernel_root)})
}

fn write_blocks(path: &str, blocks: &[Block]) {
	let mut f = File::create(path).expect("blocks file");
	for b in blocks {
		let bytes = to_bytes(b);
		f.write_all(&(bytes.len() as u64).to_be_bytes()).unwrap();
		f.write_all(&bytes).unwrap();
	}
}

fn read_blocks(path: &str) -> Vec<Block> {
	let mut buf = vec![];
	File::open(path).expect("blocks").read_to_end(&mut buf).unwrap();
	let mut res = vec![];
	let mut i = 0;
	while i < buf.len() {
		let n = u64::from_be_bytes(buf[i..i + 8].try_into().unwrap()) as usize;
		i += 8;
		res.push(from_bytes::<Block>(&buf[i..i + n]).expect("block"));
		i += n;
	}
	res
}

fn heights_arg(args: &Args) -> [u8; 4] {
	let s = args.get("heights").unwrap_or("9,11,11,11");
	let v: Vec<u8> = s.split(',').map(|x| x.parse().unwrap()).collect();
	[v[0], v[1], v[2], v[3]]
}

/// All segments of the four trees for the segmenter's header, as wire bytes.
fn dump_segments(chain: &Chain, heights: [u8; 4], dir: &str, prefix: &str) -> Value {
	let seg = chain.segmenter().expect("segmenter");
	let header = seg.header().clone();
	let n_out_leaves = grin_core::core::pmmr::n_leaves(header.output_mmr_size);
	let bitmap_leaves = (n_out_leaves + 1023) / 1024;
	let bitmap_size = grin_core::core::pmmr::insertion_to_pmmr_index(bitmap_leaves);
	let sizes = [
		bitmap_size,
		header.output_mmr_size,
		header.output_mmr_size,
		header.kernel_mmr_size,
	];
	let mut info = serde_json::Map::new();
	let mut errors: Vec<Value> = vec![];
	info.insert("height".into(), json!(header.height));
	info.insert("hash".into(), json!(hx(&header.hash())));
	info.insert("output_leaves".into(), json!(n_out_leaves));
	for (t, tree) in TREES.iter().enumerate() {
		let n = SegmentIdentifier::count_segments_required(sizes[t], heights[t]);
		let mut lasts = vec![];
		let mut complete = vec![];
		let mut nleaves = vec![];
		let mut nhashes = vec![];
		let mut nproof = vec![];
		let mut tops: Vec<u64> = vec![];
		for idx in 0..n as u64 {
			let id = SegmentIdentifier { height: heights[t], idx };
			let (first, last) = id.segment_pos_range(sizes[t]);
			lasts.push(last);
			let all_leaves = (first..=last).filter(|p| grin_core::core::pmmr::is_leaf(*p)).count();
			let path = format!("{}/{}{}_{}.seg", dir, prefix, tree, idx);
			// the Segmenter is code under test: an error or a panic while producing an honest segment is data
			type Made = (usize, usize, usize, Vec<u8>, Option<Hash>, Option<u64>);
			let made = catch_unwind(AssertUnwindSafe(|| -> Result<Made, String> {
				Ok(match *tree {
					"bitmap" => {
						let (s, root) = seg.bitmap_segment(id).map_err(|e| format!("{}", e))?;
						(s.leaf_iter().count(), s.hash_iter().count(), s.proof().size(), to_bytes(&BitmapSegment::from(s)), Some(root), None)
					}
					"output" => {
						let (s, root) = seg.output_segment(id).map_err(|e| format!("{}", e))?;
						let hp = s.hash_iter().map(|x| x.0).collect::<Vec<u64>>().first().cloned();
						(s.leaf_iter().count(), s.hash_iter().count(), s.proof().size(), to_bytes(&s), Some(root), hp)
					}
					"rangeproof" => {
						let s = seg.rangeproof_segment(id).map_err(|e| format!("{}", e))?;
						let hp = s.hash_iter().map(|x| x.0).collect::<Vec<u64>>().first().cloned();
						(s.leaf_iter().count(), s.hash_iter().count(), s.proof().size(), to_bytes(&s), None, hp)
					}
					_ => {
						let s = seg.kernel_segment(id).map_err(|e| format!("{}", e))?;
						(s.leaf_iter().count(), s.hash_iter().count(), s.proof().size(), to_bytes(&s), None, None)
					}
				})
			}));
			let (nl, nh, np, bytes, extra, hp0) = match made {
				Ok(Ok(x)) => x,
				other => {
					let why = match other {
						Ok(Err(e)) => e,
						_ => "panic".to_string(),
					};
					errors.push(json!({"tree": tree, "idx": idx, "err": why, "stale": !prefix.is_empty()}));
					complete.push(false);
					nleaves.push(0);
					nhashes.push(0);
					nproof.push(0);
					tops.push(last);
					continue;
				}
			};
			fs::write(&path, &bytes).expect("write seg");
			if let Some(r) = extra {
				fs::write(format!("{}.root", path), hx(&r)).unwrap();
			}
			complete.push(nl == all_leaves);
			nleaves.push(nl);
			nhashes.push(nh);
			nproof.push(np);
			// the position that stands for the segment once applied: its last position, or the pruned root above it
			tops.push(if nl == 0 && nh == 1 { std::cmp::max(hp0.unwrap_or(last), last) } else { last });
		}
		info.insert(
			tree.to_string(),
			json!({"height": heights[t], "size": sizes[t], "nseg": n, "last": lasts, "complete": complete,
				"leaves": nleaves, "hashes": nhashes, "proof": nproof, "top": tops}),
		);
	}
	info.insert("errors".into(), json!(errors));
	Value::Object(info)
}

pub fn run(args: &Args) -> i32 {
	global::set_local_chain_type(ChainTypes::AutomatedTesting);
	if std::env::var("VERIF_LOG").is_ok() {
		grin_util::init_test_logger();
	}
	match args.pos.get(1).map(|s| s.as_str()) {
		Some("hook") => {
			println!("{}", cfg!(seg_hook));
			0
		}
		Some("bmsize") => bmsize_phase(args),
		Some("build") => build_phase(args),
		Some("run") => run_phase(args),
		Some("serve") => serve_phase(args),
		_ => {
			eprintln!("segment e2e build|run");
			2
		}
	}
}

// ---------------------------------------------------------------------------------------------
// phase 1

fn build_phase(args: &Args) -> i32 {
	let dir = args.req("dir").to_string();
	let _ = fs::remove_dir_all(&dir);
	fs::create_dir_all(&dir).unwrap();
	let n_blocks = args.u64("blocks", 64);
	let compact_at = args.u64("compact-at", 0);
	let stale_at = args.u64("stale-at", n_blocks - 10);
	let max_outs = args.u64("max-outs", 5);
	let heights = heights_arg(args);
	let mut rng = StdRng::seed_from_u64(args.u64("seed", 1));
	let kc = keychain();
	let pb = ProofBuilder::new(&kc);

	// one genesis object for every node of the scenario (its kernel signature is randomised)
	let gr = reward::output(&kc, &pb, &kid(1, 0), 0, false).unwrap();
	let mut g = genesis::genesis_dev().with_reward(gr.0.clone(), gr.1);
	g.header.output_mmr_size = 1;
	g.header.kernel_mmr_size = 1;
	fs::write(format!("{}/genesis.bin", dir), to_bytes(&g)).unwrap();

	let src = init_chain(&format!("{}/src/chain_data", dir), &g);
	let mut blocks: Vec<Block> = vec![g.clone()];
	let mut commits: Vec<(String, Commitment)> = vec![("g".into(), gr.0.commitment())];
	let mut utxos: Vec<Utxo> = vec![Utxo { leaf: 0, commit: gr.0.commitment(), key: kid(1, 0), value: 60_000_000_000, coinbase: true, height: 0, group: 0 }];
	let mut next_key = 0u32;
	let mut stale = Value::Null;
	let mut compacted = false;
	let mut n_spends = 0u64;
	// The archive header the finished chain will serve. Shape wanted there: an ODD number of output leaves whose
	// last one (a single-leaf peak) is spent by a later block, i.e. unspent in the served state but absent from
	// the serving node's current leaf set (the Segmenter reads the PMMRs with the current leaf set).
	let a_target = {
		let x = n_blocks.saturating_sub(global::state_sync_threshold() as u64);
		x - x % global::txhashset_archive_interval()
	};
	let mut force: Option<Commitment> = None;
	let mut shape = json!({"archive_target": a_target, "odd": false, "last_spent_at": Value::Null});
	for h in 1..=n_blocks {
		let prev = blocks[(h - 1) as usize].header.clone();
		let leaves_before = commits.len() as u64;
		// the block that is head when compaction runs spends two old sibling leaves (created before the horizon):
		// they are unspent for every state between the horizon and head - 1, so compaction must keep them
		let old_pair: Option<(usize, usize)> = if h == compact_at && h > 25 {
			let ok = |u: &Utxo| u.height + 21 <= h && (!u.coinbase || u.height + 4 <= h) && u.value >= 30_000_000;
			(0..utxos.len())
				.filter(|i| ok(&utxos[*i]) && utxos[*i].leaf % 2 == 0)
				.find_map(|i| (0..utxos.len()).find(|j| ok(&utxos[*j]) && utxos[*j].leaf == utxos[i].leaf + 1).map(|j| (i, j)))
		} else {
			None
		};
		if h == compact_at {
			shape["compaction_head_spends_old_sibling_pair"] = json!(old_pair.map(|(i, j)| vec![utxos[i].leaf, utxos[j].leaf]));
		}
		// spend 1..3 matured outputs (preferably neighbours created by one transaction) into several outputs
		let spendable: Vec<usize> = (0..utxos.len())
			.filter(|i| (!utxos[*i].coinbase || utxos[*i].height + 4 <= h) && utxos[*i].value >= 200_000_000)
			.collect();
		let mut txs: Vec<Transaction> = vec![];
		let mut fees = 0u64;
		let forced_idx = force.and_then(|fc| {
			(0..utxos.len()).find(|i| {
				utxos[*i].commit == fc && (!utxos[*i].coinbase || utxos[*i].height + 4 <= h) && utxos[*i].value >= 30_000_000
			})
		});
		let want_tx = forced_idx.is_some() || old_pair.is_some() || (h == a_target && !spendable.is_empty());
		if forced_idx.is_some() || old_pair.is_some() || (!spendable.is_empty() && (want_tx || rng.gen_range(0, 10) < 9)) {
			let first = match (old_pair, forced_idx) {
				(Some((i, _)), _) => i,
				(None, Some(i)) => i,
				_ => spendable[rng.gen_range(0, spendable.len())],
			};
			if forced_idx.is_some() && old_pair.is_none() {
				force = None;
				shape["last_spent_at"] = json!(h);
			}
			let grp = utxos[first].group;
			let mut ins: Vec<usize> = vec![first];
			let want = if old_pair.is_some() { 0 } else { rng.gen_range(1, 4) };
			if let Some((_, j)) = old_pair {
				ins.push(j);
			}
			for i in &spendable {
				if ins.len() < want && *i != first && (utxos[*i].group == grp || rng.gen_range(0, 4) == 0) {
					ins.push(*i);
				}
			}
			ins.sort();
			let total: u64 = ins.iter().map(|i| utxos[*i].value).sum();
			let fee = 10_000_000u64; // 0.01 grin (values shrink as outputs are split again and again)
			let mut k = rng.gen_range(1, max_outs + 1);
			if total < 200_000_000 {
				k = 1;
			}
			if h == a_target && (commits.len() as u64 + k + 1) % 2 == 0 {
				// outputs so far + k + coinbase must be odd
				k = if k < max_outs { k + 1 } else { k - 1 };
			}
			let mut elems = vec![];
			for i in &ins {
				let u = &utxos[*i];
				elems.push(if u.coinbase {
					build::coinbase_input(u.value, u.key.clone())
				} else {
					build::input(u.value, u.key.clone())
				});
			}
			let each = (total - fee) / k;
			let mut new_utxos = vec![];
			for j in 0..k {
				let v = if j + 1 == k { total - fee - each * (k - 1) } else { each };
				next_key += 1;
				let key = kid(2, next_key);
				elems.push(build::output(v, key.clone()));
				let commit = kc.commit(v, &key, SwitchCommitmentType::Regular).expect("commit");
				new_utxos.push(Utxo { leaf: 0, commit, key, value: v, coinbase: false, height: h, group: h });
			}
			let tx = build::transaction(
				KernelFeatures::Plain { fee: FeeFields::new(0, fee).unwrap() },
				&elems,
				&kc,
				&pb,
			)
			.expect("build tx");
			for (j, o) in tx.outputs().iter().enumerate() {
				commits.push((format!("t{}_{}", h, j), o.commitment()));
			}
			for i in ins.iter().rev() {
				utxos.remove(*i);
			}
			utxos.extend(new_utxos);
			txs.push(tx);
			fees = fee;
			n_spends += 1;
		}
		let rw = reward::output(&kc, &pb, &kid(1, h as u32), fees, false).unwrap();
		commits.push((format!("c{}", h), rw.0.commitment()));
		utxos.push(Utxo { leaf: 0, commit: rw.0.commitment(), key: kid(1, h as u32), value: 60_000_000_000 + fees, coinbase: true, height: h, group: 1_000_000 + h });
		let mut blk = Block::new(&prev, &txs, Difficulty::from_num(1), rw).expect("block new");
		for (j, o) in blk.outputs().iter().enumerate() {
			let c = o.commitment();
			if let Some(u) = utxos.iter_mut().find(|u| u.commit == c) {
				u.leaf = leaves_before + j as u64;
			}
		}
		blk.header.timestamp = prev.timestamp + Duration::seconds(60);
		src.set_txhashset_roots(&mut blk).expect("roots");
		src.process_block(blk.clone(), Options::SKIP_POW).expect("process on source");
		if h == a_target {
			shape["odd"] = json!(commits.len() % 2 == 1);
			force = blk.outputs().last().map(|o| o.commitment());
		}
		blocks.push(blk);
		if h == stale_at {
			stale = dump_segments(&src, heights, &dir, "stale_");
		}
		if h == compact_at {
			src.compact().expect("compact");
			compacted = true;
		}
	}
	let archive = src.txhashset_archive_header().expect("archive header");
	let seginfo = dump_segments(&src, heights, &dir, "");
	assert_eq!(seginfo["hash"].as_str().unwrap(), hx(&archive.hash()));
	write_blocks(&format!("{}/blocks.bin", dir), &blocks);
	let names: Vec<Value> = commits.iter().map(|(n, c)| json!([n, c.to_hex()])).collect();

	// the state archive of the source for the archive header
	let mut zip_ok = false;
	match src.txhashset_read(archive.hash()) {
		Ok((_o, _k, mut f)) => {
			let mut out = File::create(format!("{}/archive.zip", dir)).unwrap();
			std::io::copy(&mut f, &mut out).unwrap();
			zip_ok = true;
		}
		Err(e) => eprintln!("txhashset_read failed: {}", e),
	}

	// block-by-block twin up to the archive header
	let twin = init_chain(&format!("{}/twin/chain_data", dir), &g);
	for b in &blocks[1..=(archive.height as usize)] {
		twin.process_block(b.clone(), Options::SKIP_POW).expect("process on twin");
	}
	// "split root" variants (receiver probe): an honest output / rangeproof segment that carries a pruned subtree
	// root gets, IN ADDITION, the hashes of that root's two children (taken from the never-compacted twin). The
	// extra hashes are redundant (the root does not depend on them), so the segment still validates; the receiver
	// must either refuse it or end with a consistent backend.
	let mut split_info = serde_json::Map::new();
	{
		let ts = twin.txhashset();
		let ts = ts.read();
		for tree in ["output", "rangeproof"] {
			let n = seginfo[tree]["nseg"].as_u64().unwrap();
			let mut made: Vec<Value> = vec![];
			for idx in 0..n {
				let path = format!("{}/{}_{}.seg", dir, tree, idx);
				let bytes = match fs::read(&path) {
					Ok(b) => b,
					Err(_) => continue,
				};
				let r: Result<Option<(u64, Vec<u8>)>, String> = if tree == "output" {
					let pm = ts.output_pmmr_at(&archive);
					split_root_variant::<OutputIdentifier>(&bytes, archive.output_mmr_size, &|p| pm.get_from_file(p))
				} else {
					let pm = ts.rangeproof_pmmr_at(&archive);
					split_root_variant::<RangeProof>(&bytes, archive.output_mmr_size, &|p| pm.get_from_file(p))
				};
				if std::env::var("VERIF_LOG_SPLIT").is_ok() {
					eprintln!("split {} {}: {:?}", tree, idx, r.as_ref().map(|x| x.as_ref().map(|y| y.0)));
				}
				if let Ok(Some((pos0, b))) = r {
					fs::write(format!("{}/split_{}_{}.seg", dir, tree, idx), &b).unwrap();
					made.push(json!({"idx": idx, "root_pos0": pos0, "root_height": grin_core::core::pmmr::bintree_postorder_height(pos0)}));
				}
			}
			split_info.insert(tree.to_string(), json!(made));
		}
	}
	let twin_proj = json!({
		"head": hx(&twin.head().unwrap().last_block_h),
		"roots": roots_json(&twin, &archive),
		"unspent": unspent_json(&twin, &commits),
		"validate": twin.validate(false).is_ok(),
	});
	let src_head = src.head().unwrap();
	let src_header = src.head_header().unwrap();
	let src_proj = json!({
		"head": hx(&src_head.last_block_h),
		"height": src_head.height,
		"roots": roots_json(&src, &src_header),
		"unspent": unspent_json(&src, &commits),
		"validate": src.validate(false).is_ok(),
	});
	let info = json!({
		"shape": shape, "blocks": n_blocks, "spends": n_spends, "compacted": compacted, "compact_at": compact_at,
		"archive": seginfo, "stale": stale, "archive_header_roots": header_roots_json(&archive),
		"twin": twin_proj, "source": src_proj, "commits": names, "zip_ok": zip_ok,
		"outputs_total": commits.len(), "split": Value::Object(split_info),
	});
	fs::write(format!("{}/info.json", dir), serde_json::to_vec(&info).unwrap()).unwrap();
	println!(
		"{}",
		json!({"archive_height": archive.height, "spends": n_spends, "outputs": commits.len(),
			"nseg": TREES.iter().map(|t| seginfo[*t]["nseg"].clone()).collect::<Vec<_>>(), "zip_ok": zip_ok})
	);
	0
}

/// The segment plus the hashes of the two children of its highest pruned subtree root (height >= 1).
fn split_root_variant<T: Clone + Readable + Writeable>(
	bytes: &[u8],
	mmr_size: u64,
	hash_at: &dyn Fn(u64) -> Option<Hash>,
) -> Result<Option<(u64, Vec<u8>)>, String> {
	use grin_core::core::pmmr::bintree_postorder_height;
	let seg: Segment<T> = from_bytes(bytes).map_err(|e| format!("{}", e))?;
	let mut ps = PlainSeg::of(&seg);
	let (first, last) = seg.segment_pos_range(mmr_size);
	// a pruned subtree root inside the segment's own range: nothing of the segment lies beneath it (a fully
	// pruned segment is represented by a root above its range and is left alone)
	let cand = |p: u64| -> bool {
		let h = bintree_postorder_height(p);
		if h < 1 {
			return false;
		}
		let sub_first = p + 2 - (1u64 << (h + 1));
		sub_first >= first
			&& p <= last
			&& !ps.hash_pos.iter().any(|q| *q >= sub_first && *q < p)
			&& !ps.leaf_pos.iter().any(|q| *q >= sub_first && *q < p)
	};
	let best = ps.hash_pos.iter().cloned().filter(|p| cand(*p)).max_by_key(|p| bintree_postorder_height(*p));
	let pos0 = match best {
		Some(p) => p,
		None => return Ok(None),
	};
	let h = bintree_postorder_height(pos0);
	let (left, right) = (pos0 - (1 << h), pos0 - 1);
	let (lh, rh) = match (hash_at(left), hash_at(right)) {
		(Some(l), Some(r)) => (l, r),
		_ => return Ok(None),
	};
	let mut all: Vec<(u64, Hash)> = ps.hash_pos.iter().cloned().zip(ps.hashes.iter().cloned()).collect();
	all.push((left, lh));
	all.push((right, rh));
	all.sort_by_key(|x| x.0);
	ps.hash_pos = all.iter().map(|x| x.0).collect();
	ps.hashes = all.iter().map(|x| x.1).collect();
	let seg2 = ps.to_segment().map_err(|e| format!("{}", e))?;
	Ok(Some((pos0, to_bytes(&seg2))))
}

// ---------------------------------------------------------------------------------------------
// component: the bitmap MMR size the desegmenter expects for an archive header with n outputs (cases from
// Desegmenter.tla: ExpectedBitmapMMRSize) against Desegmenter::expected_bitmap_mmr_size and against the MMR of
// a real BitmapAccumulator (what a serving node has) for n outputs whose last one is unspent.

fn bmsize_phase(args: &Args) -> i32 {
	let dir = args.req("dir").to_string();
	let _ = fs::remove_dir_all(&dir);
	fs::create_dir_all(&dir).unwrap();
	let cases = read_ndjson(args.req("cases"));
	let mut out = NdWriter::create(args.req("out"));
	let kc = keychain();
	let pb = ProofBuilder::new(&kc);
	let gr = reward::output(&kc, &pb, &kid(1, 0), 0, false).unwrap();
	let mut g = genesis::genesis_dev().with_reward(gr.0.clone(), gr.1);
	g.header.output_mmr_size = 1;
	g.header.kernel_mmr_size = 1;
	let chain = init_chain(&format!("{}/chain_data", dir), &g);
	for c in &cases {
		let n = c["outputs"].as_u64().unwrap();
		let mut h = g.header.clone();
		h.height = 100 + n; // a distinct header per case (the chain caches one desegmenter per header)
		h.output_mmr_size = grin_core::core::pmmr::insertion_to_pmmr_index(n);
		let spec_out_size = c["output_mmr_size"].as_u64().unwrap();
		let real = catch_unwind(AssertUnwindSafe(|| -> Result<u64, String> {
			let d = chain.desegmenter(&h).map_err(|e| format!("{}", e))?;
			let g = d.read();
			Ok(g.as_ref().unwrap().expected_bitmap_mmr_size())
		}));
		let desegmenter = match real {
			Ok(Ok(x)) => json!(x),
			Ok(Err(e)) => json!(format!("err: {}", e)),
			Err(_) => json!("panic"),
		};
		let mut acc = BitmapAccumulator::new();
		acc.init(vec![n - 1], n).expect("accumulator");
		let serving = acc.readonly_pmmr().unpruned_size();
		out.put(&json!({"outputs": n, "output_mmr_size_ok": spec_out_size == h.output_mmr_size,
			"spec": c["bitmap_mmr_size"], "desegmenter": desegmenter, "serving": serving}));
	}
	out.finish();
	0
}

// ---------------------------------------------------------------------------------------------
// serving side (spec/SegmentServe.tla): a node fed with the source's headers and blocks according to a plan
// (headers may run ahead of bodies), asked for its segmenter at the plan's Serve steps; every segment it hands
// out must validate against the roots of the header the segmenter is labelled with.

/// All segments the segmenter hands out for a few heights, validated as a syncing node would validate them
/// against `segmenter.header()`. Returns (served, invalid, errors at the default heights).
fn check_served(segmenter: &grin_chain::txhashset::Segmenter) -> (u64, Vec<Value>, Vec<Value>) {
	use grin_core::core::pmmr;
	let header = segmenter.header().clone();
	let mut served = 0u64;
	let mut invalid: Vec<Value> = vec![];
	let mut errors: Vec<Value> = vec![];
	let n_outputs = pmmr::n_leaves(header.output_mmr_size);
	let bitmap_mmr_size = pmmr::insertion_to_pmmr_index((n_outputs + 1023) / 1024);
	let mut bitmap: Option<croaring::Bitmap> = None;
	for height in [9u8, 0] {
		let mut acc = BitmapAccumulator::new();
		let mut complete = true;
		for id in SegmentIdentifier::traversal_iter(bitmap_mmr_size, height) {
			match segmenter.bitmap_segment(id) {
				Ok((seg, output_root)) => {
					served += 1;
					if let Err(e) = seg.validate_with(bitmap_mmr_size, None, header.output_root, header.output_mmr_size, output_root, true) {
						invalid.push(json!({"tree": "bitmap", "h": id.height, "idx": id.idx, "err": format!("{:?}", e)}));
						complete = false;
					}
					let (_, _, _, _, chunks, _) = seg.parts();
					for c in chunks {
						if acc.append_chunk(c).is_err() {
							complete = false;
						}
					}
				}
				Err(e) => {
					complete = false;
					if height == 9 {
						errors.push(json!({"tree": "bitmap", "h": id.height, "idx": id.idx, "err": format!("{}", e)}));
					}
				}
			}
		}
		if complete && bitmap.is_none() {
			bitmap = acc.as_bitmap().ok();
		}
	}
	let bitmap = match bitmap {
		Some(b) => b,
		None => {
			invalid.push(json!({"tree": "bitmap", "h": 9, "idx": 0, "err": "no valid bitmap could be obtained"}));
			croaring::Bitmap::new()
		}
	};
	for height in [11u8, 3, 1] {
		for id in SegmentIdentifier::traversal_iter(header.output_mmr_size, height) {
			match segmenter.output_segment(id) {
				Ok((seg, bitmap_root)) => {
					served += 1;
					if let Err(e) = seg.validate_with(header.output_mmr_size, Some(&bitmap), header.output_root, header.output_mmr_size, bitmap_root, false) {
						invalid.push(json!({"tree": "output", "h": id.height, "idx": id.idx, "err": format!("{:?}", e)}));
					}
				}
				Err(e) => {
					if height == 11 {
						errors.push(json!({"tree": "output", "h": id.height, "idx": id.idx, "err": format!("{}", e)}));
					}
				}
			}
			match segmenter.rangeproof_segment(id) {
				Ok(seg) => {
					served += 1;
					if let Err(e) = seg.validate(header.output_mmr_size, Some(&bitmap), header.range_proof_root) {
						invalid.push(json!({"tree": "rangeproof", "h": id.height, "idx": id.idx, "err": format!("{:?}", e)}));
					}
				}
				Err(e) => {
					if height == 11 {
						errors.push(json!({"tree": "rangeproof", "h": id.height, "idx": id.idx, "err": format!("{}", e)}));
					}
				}
			}
		}
		for id in SegmentIdentifier::traversal_iter(header.kernel_mmr_size, height) {
			match segmenter.kernel_segment(id) {
				Ok(seg) => {
					served += 1;
					if let Err(e) = seg.validate(header.kernel_mmr_size, None, header.kernel_root) {
						invalid.push(json!({"tree": "kernel", "h": id.height, "idx": id.idx, "err": format!("{:?}", e)}));
					}
				}
				Err(e) => {
					if height == 11 {
						errors.push(json!({"tree": "kernel", "h": id.height, "idx": id.idx, "err": format!("{}", e)}));
					}
				}
			}
		}
	}
	(served, invalid, errors)
}

fn serve_phase(args: &Args) -> i32 {
	let dir = args.req("dir").to_string();
	let work = args.req("work").to_string();
	let g: Block = from_bytes(&fs::read(format!("{}/genesis.bin", dir)).unwrap()).expect("genesis");
	let blocks = read_blocks(&format!("{}/blocks.bin", dir));
	let plans = read_ndjson(args.req("plans"));
	let mut out = NdWriter::create(args.req("out"));
	for (pi, plan) in plans.iter().enumerate() {
		let sdir = format!("{}/srv_{}", work, pi);
		let _ = fs::remove_dir_all(&sdir);
		let chain = init_chain(&format!("{}/chain_data", sdir), &g);
		let mut events: Vec<Value> = vec![];
		let mut tool_error: Option<String> = None;
		for st in plan["steps"].as_array().unwrap() {
			let k = st["k"].as_str().unwrap();
			let mut ev = json!({"k": k});
			match k {
				"Headers" => {
					let to = st["to"].as_u64().unwrap() as usize;
					let hh = chain.header_head().unwrap();
					let from = hh.height as usize + 1;
					if to >= blocks.len() || from > to {
						tool_error = Some(format!("Headers to {} from {}", to, from));
						break;
					}
					let headers: Vec<BlockHeader> = blocks[from..=to].iter().map(|b| b.header.clone()).collect();
					for chunk in headers.chunks(32) {
						if let Err(e) = chain.sync_block_headers(chunk, hh, Options::SKIP_POW) {
							tool_error = Some(format!("sync_block_headers: {}", e));
						}
					}
					ev["to"] = json!(to);
				}
				"Blocks" => {
					let to = st["to"].as_u64().unwrap() as usize;
					let from = chain.head().unwrap().height as usize + 1;
					if to >= blocks.len() || from > to {
						tool_error = Some(format!("Blocks to {} from {}", to, from));
						break;
					}
					for b in &blocks[from..=to] {
						if let Err(e) = chain.process_block(b.clone(), Options::SKIP_POW) {
							tool_error = Some(format!("process_block {}: {}", b.header.height, e));
							break;
						}
					}
					ev["to"] = json!(to);
				}
				"Compact" => {
					let r = catch_unwind(AssertUnwindSafe(|| chain.compact()));
					ev["res"] = json!(match r {
						Ok(Ok(())) => "ok".to_string(),
						Ok(Err(e)) => format!("err: {}", e),
						Err(_) => "panic".to_string(),
					});
					ev["tail"] = json!(chain.tail().map(|t| t.height).unwrap_or(0));
				}
				"Serve" => {
					let body = chain.head().unwrap();
					let r = catch_unwind(AssertUnwindSafe(|| -> Result<Value, String> {
						let seg = chain.segmenter().map_err(|e| format!("{}", e))?;
						let h = seg.header().clone();
						let (served, invalid, errors) = check_served(&seg);
						// the header must be the one of the node's own chain at that height
						let on_chain = chain.get_header_by_height(h.height).map(|x| x.hash() == h.hash()).unwrap_or(false);
						// what a block-by-block node holds at that header (only if the serving node has the body)
						Ok(json!({"for": h.height, "hash": hx(&h.hash()), "on_chain": on_chain, "served": served,
							"n_invalid": invalid.len(), "invalid": invalid.into_iter().take(6).collect::<Vec<_>>(),
							"n_errors": errors.len(), "errors": errors.into_iter().take(6).collect::<Vec<_>>()}))
					}));
					match r {
						Ok(Ok(v)) => {
							ev["res"] = json!("ok");
							ev["seg"] = v;
						}
						Ok(Err(e)) => {
							ev["res"] = json!("refused");
							ev["err"] = json!(e);
						}
						Err(p) => {
							ev["res"] = json!("panic");
							ev["err"] = json!(crate::comp::panic_msg(&p));
						}
					}
					let _ = body;
				}
				x => {
					tool_error = Some(format!("step {}", x));
				}
			}
			if tool_error.is_some() {
				break;
			}
			ev["body"] = json!(chain.head().unwrap().height);
			ev["hdr"] = json!(chain.header_head().unwrap().height);
			events.push(ev);
		}
		let mut res = json!({"name": plan["name"], "events": events});
		if let Some(e) = tool_error {
			res["tool_error"] = json!(e);
		}
		out.put(&res);
		drop(chain);
		if args.get("keep").is_none() {
			let _ = fs::remove_dir_all(&sdir);
		}
	}
	out.finish();
	0
}

// ---------------------------------------------------------------------------------------------
// phase 2

struct Rx {
	chain: Chain,
	archive: BlockHeader,
}

fn new_receiver(dir: &str, g: &Block, blocks: &[Block], archive_height: u64) -> Result<Rx, String> {
	let _ = fs::remove_dir_all(dir);
	let chain = init_chain(&format!("{}/chain_data", dir), g);
	let headers: Vec<BlockHeader> = blocks[1..].iter().map(|b| b.header.clone()).collect();
	let sync_head = chain.header_head().map_err(|e| format!("{}", e))?;
	for chunk in headers.chunks(32) {
		chain
			.sync_block_headers(chunk, sync_head, Options::SKIP_POW)
			.map_err(|e| format!("sync_block_headers: {}", e))?;
	}
	let archive = chain
		.txhashset_archive_header_header_only()
		.map_err(|e| format!("{}", e))?;
	if archive.height != archive_height {
		return Err(format!("receiver archive header {} != source {}", archive.height, archive_height));
	}
	Ok(Rx { chain, archive })
}

/// The corruption kinds of the scenarios, applied to the wire bytes of an honest segment.
fn corrupt<T: Clone + Readable + Writeable>(
	bytes: &[u8],
	kind: &str,
	alt: &dyn Fn(&mut PlainSeg<T>, usize),
	required: Option<&HashSet<u64>>,
) -> Result<Segment<T>, String> {
	let seg: Segment<T> = from_bytes(bytes).map_err(|e| format!("unreadable: {}", e))?;
	corrupt_seg(seg, kind, alt, false, required)
}

fn corrupt_seg<T: Clone + Readable + Writeable>(
	seg: Segment<T>,
	kind: &str,
	alt: &dyn Fn(&mut PlainSeg<T>, usize),
	direct: bool,
	required: Option<&HashSet<u64>>,
) -> Result<Segment<T>, String> {
	let mut ps = PlainSeg::of(&seg);
	let before = (ps.bytes_no_leaves(), ps.leaf_data.iter().map(|d| to_bytes(d)).collect::<Vec<_>>());
	// a leaf whose data the root depends on: an unspent one for the prunable trees (the data of spent leaves is
	// not authenticated by validation), any leaf otherwise; the last such leaf of the segment
	let pick = (0..ps.leaf_pos.len())
		.rev()
		.find(|i| required.map(|r| r.contains(&ps.leaf_pos[*i])).unwrap_or(true));
	match kind {
		"honest" | "stale" | "wrong_tree" | "split_root" => {}
		"alt_leaf" => match pick {
			Some(i) => alt(&mut ps, i),
			None => return Err("unavailable".into()),
		},
		// data of a leaf the root does NOT depend on (spent, sibling spent, not the last MMR position): the
		// segment still validates; only the final root check can notice
		"poison_spent" => {
			let unrequired = (0..ps.leaf_pos.len())
				.rev()
				.find(|i| required.map(|r| !r.contains(&(ps.leaf_pos[*i] | POISON_FLAG))).unwrap_or(false));
			match unrequired {
				Some(i) => alt(&mut ps, i),
				None => return Err("unavailable".into()),
			}
		}
		"omit_leaf" => match pick {
			Some(i) => {
				ps.leaf_pos.remove(i);
				ps.leaf_data.remove(i);
			}
			None => return Err("unavailable".into()),
		},
		"drop_proof" => {
			ps.proof.pop();
		}
		"alt_proof" => {
			let n = ps.proof.len();
			if n == 0 {
				return Err("unavailable".into());
			}
			ps.proof[n - 1] = junk_hash();
		}
		"wrong_id" => {
			// a fully pruned segment (no leaves, one hash standing for it) is the same object as its equally
			// pruned neighbours: relabelling it yields another honest segment, not a corruption
			if ps.leaf_pos.is_empty() {
				return Err("unavailable".into());
			}
			ps.idx += 1
		}
		x => panic!("kind {}", x),
	}
	let after = (ps.bytes_no_leaves(), ps.leaf_data.iter().map(|d| to_bytes(d)).collect::<Vec<_>>());
	if !matches!(kind, "honest" | "stale" | "wrong_tree" | "split_root") && before == after {
		return Err("unavailable".into());
	}
	if direct {
		ps.to_segment_direct().map_err(|e| format!("unreadable: {}", e))
	} else {
		ps.to_segment().map_err(|e| format!("unreadable: {}", e))
	}
}

/// Alter the data of leaf i in place (one byte of the commitment / proof / excess), so that the alteration never
/// depends on the segment having a second leaf.
fn alt_output(ps: &mut PlainSeg<OutputIdentifier>, i: usize) {
	ps.leaf_data[i].commit.0[7] ^= 0x01;
}
fn alt_rangeproof(ps: &mut PlainSeg<RangeProof>, i: usize) {
	ps.leaf_data[i].proof[7] ^= 0x01;
}
fn alt_kernel(ps: &mut PlainSeg<TxKernel>, i: usize) {
	ps.leaf_data[i].excess.0[7] ^= 0x01;
}

/// Honest delivery of one stored segment (probe driver; no corruption, no projection).
fn deliver_honest(de: &mut grin_chain::txhashset::Desegmenter, dir: &str, tree: &str, idx: u64) -> Result<(), String> {
	let path = format!("{}/{}_{}.seg", dir, tree, idx);
	let bytes = fs::read(&path).map_err(|e| format!("{}", e))?;
	let other_root = fs::read_to_string(format!("{}.root", path)).ok().map(|s| Hash::from_hex(s.trim()).unwrap());
	match tree {
		"bitmap" => {
			let bs: BitmapSegment = from_bytes(&bytes).map_err(|e| format!("{}", e))?;
			let s: Segment<BitmapChunk> = bs.into_segment().map_err(|e| format!("{}", e))?;
			de.add_bitmap_segment(s, other_root.unwrap()).map_err(|e| format!("{}", e))
		}
		"output" => de.add_output_segment(from_bytes(&bytes).map_err(|e| format!("{}", e))?, other_root).map_err(|e| format!("{}", e)),
		"rangeproof" => de.add_rangeproof_segment(from_bytes(&bytes).map_err(|e| format!("{}", e))?).map_err(|e| format!("{}", e)),
		_ => de.add_kernel_segment(from_bytes(&bytes).map_err(|e| format!("{}", e))?).map_err(|e| format!("{}", e)),
	}
}

/// OBSERVATION probe (outside C16's statement, which quantifies over sources and arrival orders, not over
/// restarts of the receiver): the receiving node is stopped after the bitmap and output segment 0 were applied
/// but before rangeproof / kernel segment 0, reopened on the same directory, and then given a complete honest
/// state sync. Returns what happened, step by step.
fn restart_probe(rdir: &str, g: &Block, blocks: &[Block], ainfo: &Value, dir: &str) -> Value {
	let mut log: Vec<Value> = vec![];
	let status = Arc::new(SyncState::new());
	let nseg = |t: &str| ainfo[t]["nseg"].as_u64().unwrap();
	let archive_height = ainfo["height"].as_u64().unwrap();
	let first = catch_unwind(AssertUnwindSafe(|| -> Result<(), String> {
		let rx = new_receiver(rdir, g, blocks, archive_height)?;
		let d = rx.chain.desegmenter(&rx.archive).map_err(|e| format!("{}", e))?;
		let mut guard = d.write();
		let de = guard.as_mut().unwrap();
		for i in 0..nseg("bitmap") {
			deliver_honest(de, dir, "bitmap", i)?;
		}
		for _ in 0..(nseg("bitmap") + 1) {
			de.apply_next_segments().map_err(|e| format!("{}", e))?;
			let _ = de.check_progress(status.clone());
		}
		deliver_honest(de, dir, "output", 0)?;
		de.apply_next_segments().map_err(|e| format!("{}", e))?;
		let _ = de.check_progress(status.clone());
		Ok(())
	}));
	log.push(json!({"phase": "first_attempt_until_output_0", "res": match &first { Ok(Ok(())) => "ok".to_string(), Ok(Err(e)) => format!("err: {}", e), Err(p) => format!("panic: {}", crate::comp::panic_msg(p)) }}));
	if !matches!(first, Ok(Ok(()))) {
		return json!({"log": log, "outcome": "not_reached"});
	}
	// the chain (and its LMDB environment) is dropped here: a clean stop
	let second = catch_unwind(AssertUnwindSafe(|| -> Result<String, String> {
		let chain = init_chain(&format!("{}/chain_data", rdir), g);
		let archive = chain.txhashset_archive_header_header_only().map_err(|e| format!("{}", e))?;
		let d = chain.desegmenter(&archive).map_err(|e| format!("{}", e))?;
		let mut guard = d.write();
		let de = guard.as_mut().unwrap();
		for i in 0..nseg("bitmap") {
			deliver_honest(de, dir, "bitmap", i).map_err(|e| format!("bitmap {}: {}", i, e))?;
		}
		for _ in 0..(nseg("bitmap") + 1) {
			de.apply_next_segments().map_err(|e| format!("apply: {}", e))?;
		}
		for t in ["output", "rangeproof", "kernel"] {
			for i in 0..nseg(t) {
				deliver_honest(de, dir, t, i).map_err(|e| format!("{} {}: {}", t, i, e))?;
			}
		}
		let mut complete = false;
		for _ in 0..(nseg("output") + nseg("kernel") + 4) {
			de.apply_next_segments().map_err(|e| format!("apply: {}", e))?;
			complete = de.check_progress(status.clone()).unwrap_or(false);
			if complete {
				break;
			}
		}
		if !complete {
			return Ok("incomplete".to_string());
		}
		de.check_update_leaf_set_state().map_err(|e| format!("leaf sets: {}", e))?;
		de.validate_complete_state(status.clone(), Arc::new(StopState::new())).map_err(|e| format!("validate: {}", e))?;
		Ok("ok".to_string())
	}));
	let outcome = match &second {
		Ok(Ok(s)) => s.clone(),
		Ok(Err(e)) => format!("err: {}", e),
		Err(p) => format!("panic: {}", crate::comp::panic_msg(p)),
	};
	log.push(json!({"phase": "reopen_then_complete_honest_sync", "res": outcome}));
	json!({"log": log, "outcome": outcome})
}

fn applied_count(h: u8, total: u64, local: u64) -> u64 {
	let n = SegmentIdentifier::count_segments_required(total, h) as u64;
	let mut k = 0;
	while k < n && (SegmentIdentifier { height: h, idx: k }).segment_pos_range(total).1 < local {
		k += 1;
	}
	k
}

fn tree_name(t: &SegmentType) -> &'static str {
	match t {
		SegmentType::Bitmap => "bitmap",
		SegmentType::Output => "output",
		SegmentType::RangeProof => "rangeproof",
		SegmentType::Kernel => "kernel",
	}
}

fn run_phase(args: &Args) -> i32 {
	let dir = args.req("dir").to_string();
	let work = args.req("work").to_string();
	let g: Block = from_bytes(&fs::read(format!("{}/genesis.bin", dir)).unwrap()).expect("genesis");
	let blocks = read_blocks(&format!("{}/blocks.bin", dir));
	let info: Value = serde_json::from_slice(&fs::read(format!("{}/info.json", dir)).unwrap()).unwrap();
	let commits: Vec<(String, Commitment)> = info["commits"]
		.as_array()
		.unwrap()
		.iter()
		.map(|x| {
			(
				x[0].as_str().unwrap().to_string(),
				Commitment::from_vec(grin_util::from_hex(x[1].as_str().unwrap()).unwrap()),
			)
		})
		.collect();
	let ainfo = &info["archive"];
	let archive_height = ainfo["height"].as_u64().unwrap();
	let heights: Vec<u8> = TREES.iter().map(|t| ainfo[*t]["height"].as_u64().unwrap() as u8).collect();
	// positions (0-based) of the outputs unspent at the archive header (from the block-by-block twin)
	let unspent_pos0: HashSet<u64> = info["twin"]["unspent"]
		.as_object()
		.unwrap()
		.values()
		.filter_map(|v| v.get("pos").and_then(|p| p.as_u64()))
		.map(|p| p - 1)
		.collect();
	let unspent_pos0: HashSet<u64> = {
		let out_size = ainfo["output"]["size"].as_u64().unwrap();
		let mut all = unspent_pos0.clone();
		for p in unspent_pos0.iter() {
			all.insert(*p | POISON_FLAG);
			let sib = if grin_core::core::pmmr::is_left_sibling(*p) { *p + 1 } else { *p - 1 };
			all.insert(sib | POISON_FLAG);
		}
		all.insert((out_size - 1) | POISON_FLAG);
		all
	};
	let scens = read_ndjson(args.req("scen"));
	let mut out = NdWriter::create(args.req("out"));
	for (si, sc) in scens.iter().enumerate() {
		let name = sc["name"].as_str().unwrap_or("?").to_string();
		let rdir = format!("{}/rx_{}", work, si);
		if sc["kind"].as_str() == Some("restart_probe") {
			let probe = restart_probe(&rdir, &g, &blocks, ainfo, &dir);
			out.put(&json!({"name": name, "kind": "restart_probe", "probe": probe, "events": [], "problems": [], "final": {}}));
			let _ = fs::remove_dir_all(&rdir);
			continue;
		}
		let mut events: Vec<Value> = vec![];
		let mut problems: Vec<Value> = vec![];
		let rx = match new_receiver(&rdir, &g, &blocks, archive_height) {
			Ok(r) => r,
			Err(e) => {
				out.put(&json!({"name": name, "tool_error": e}));
				continue;
			}
		};
		let status = Arc::new(SyncState::new());
		let stop = Arc::new(StopState::new());
		let mut finalised_ok = false;
		if sc["kind"].as_str() == Some("archive") {
			// altered archives first (each must be refused and leave the node where it was), then the honest one
			let mut zips: Vec<(String, String)> = vec![];
			if let Some(vs) = sc["variants"].as_array() {
				for v in vs {
					zips.push((v["kind"].as_str().unwrap().to_string(), v["zip"].as_str().unwrap().to_string()));
				}
			}
			zips.push(("honest".to_string(), format!("{}/archive.zip", dir)));
			for (kind, zp) in zips {
				let f = File::open(&zp).expect("zip");
				let r = catch_unwind(AssertUnwindSafe(|| rx.chain.txhashset_write(rx.archive.hash(), f, &NoStatus)));
				let (res, detail) = match &r {
					Ok(Ok(false)) => ("ok".to_string(), String::new()),
					Ok(Ok(true)) => ("refused".to_string(), "ban".to_string()),
					Ok(Err(e)) => ("refused".to_string(), format!("{}", e)),
					Err(p) => ("panic".to_string(), crate::comp::panic_msg(p)),
				};
				let head = rx.chain.head().unwrap();
				events.push(json!({"k": "ArchiveWrite", "kind": kind, "res": res, "detail": detail, "head_height": head.height}));
				if res == "ok" {
					finalised_ok = true;
					break;
				}
			}
		} else {
			// regression probe: Desegmenter::new used to panic for archive headers with <= 1024 outputs
			let d = catch_unwind(AssertUnwindSafe(|| rx.chain.desegmenter(&rx.archive)));
			let d = match d {
				Ok(Ok(d)) => d,
				Ok(Err(e)) => {
					out.put(&json!({"name": name, "tool_error": format!("desegmenter: {}", e)}));
					continue;
				}
				Err(_) => {
					let sig = if ainfo["output_leaves"].as_u64().unwrap() <= 1024 {
						"pibd:desegmenter_new:panic:single_bitmap_chunk"
					} else {
						"pibd:desegmenter_new:panic"
					};
					problems.push(json!({"sig": sig, "what": "Chain::desegmenter panicked"}));
					out.put(&json!({"name": name, "events": events, "problems": problems, "final": Value::Null}));
					continue;
				}
			};
			let default_heights = heights == vec![9u8, 11, 11, 11];
			if !default_heights {
				#[cfg(seg_hook)]
				{
					if let Some(de) = d.write().as_mut() {
						de.verif_set_segment_heights(heights[0], heights[1], heights[2], heights[3]);
					}
				}
				#[cfg(not(seg_hook))]
				{
					out.put(&json!({"name": name, "tool_error": "non-default segment heights need the cfg(grin_verif) hook"}));
					continue;
				}
			}
			let sizes: Vec<u64> = TREES.iter().map(|t| ainfo[*t]["size"].as_u64().unwrap()).collect();
			let proj = |events_len: usize| -> Value {
				let _ = events_len;
				let (o, r, k) = {
					let t = rx.chain.txhashset();
					let t = t.read();
					(t.output_mmr_size(), t.rangeproof_mmr_size(), t.kernel_mmr_size())
				};
				let mut desired: Vec<Value> = vec![];
				if let Some(de) = d.write().as_mut() {
					for s in de.next_desired_segments(3000) {
						desired.push(json!([tree_name(&s.segment_type), s.identifier.idx, s.identifier.height]));
					}
				}
				json!({
					"applied": {"output": applied_count(heights[1], sizes[1], o), "rangeproof": applied_count(heights[2], sizes[2], r),
						"kernel": applied_count(heights[3], sizes[3], k)},
					"sizes": [o, r, k],
					"desired": desired,
				})
			};
			let mut complete = false;
			let mut do_apply = |events: &mut Vec<Value>, complete: &mut bool| {
				let r = catch_unwind(AssertUnwindSafe(|| {
					let mut guard = d.write();
					let de = guard.as_mut().unwrap();
					let a = de.apply_next_segments();
					let c = de.check_progress(status.clone());
					(a.map_err(|e| format!("{}", e)), c.map_err(|e| format!("{}", e)))
				}));
				match r {
					Ok((a, c)) => {
						*complete = c.clone().unwrap_or(false);
						let mut e = json!({"k": "Apply", "res": if a.is_ok() { "ok" } else { "err" }, "complete": *complete});
						if let Err(x) = a {
							e["err"] = json!(x);
						}
						if let Err(x) = c {
							e["progress_err"] = json!(x);
						}
						e["proj"] = proj(0);
						events.push(e);
					}
					Err(_) => events.push(json!({"k": "Apply", "res": "panic", "complete": false})),
				}
			};
			let drain = sc["drain"].as_u64().unwrap_or(8);
			let mut finalised_mid = false;
			// drain (keep applying until complete or the round limit), then what state_sync.rs does once
			// check_progress reports completion
			let finish = |events: &mut Vec<Value>, complete: &mut bool, do_apply: &mut dyn FnMut(&mut Vec<Value>, &mut bool)| -> bool {
				let mut rounds = 0;
				while !*complete && rounds < drain {
					do_apply(events, complete);
					rounds += 1;
				}
				let res = if *complete {
					let r = catch_unwind(AssertUnwindSafe(|| {
						let guard = d.read();
						let de = guard.as_ref().unwrap();
						de.check_update_leaf_set_state()?;
						de.validate_complete_state(status.clone(), stop.clone())
					}));
					match r {
						Ok(Ok(())) => "ok".to_string(),
						Ok(Err(e)) => format!("err: {}", e),
						Err(_) => "panic".to_string(),
					}
				} else {
					"incomplete".to_string()
				};
				let ok = res == "ok";
				events.push(json!({"k": "Finalize", "complete": *complete, "res": if ok { "ok" } else if *complete { "err" } else { "incomplete" }, "detail": res}));
				ok
			};
			for st in sc["steps"].as_array().unwrap() {
				match st["k"].as_str().unwrap() {
					"Apply" => do_apply(&mut events, &mut complete),
					// apply until a call fails (what state_sync.rs does: the first error ends the attempt)
					"ApplyUntilErr" => {
						for _ in 0..st["max"].as_u64().unwrap_or(4) {
							do_apply(&mut events, &mut complete);
							if events.last().map(|e| e["res"] != "ok").unwrap_or(true) {
								break;
							}
						}
					}
					"Finalize" => {
						if finish(&mut events, &mut complete, &mut do_apply) {
							// finalised: nothing of the scenario (a restart after a refused attempt) applies any more
							finalised_mid = true;
							break;
						}
					}
					// the PIBD-failure restart of servers/src/grin/sync/state_sync.rs (check_run)
					"Restart" => {
						let r = catch_unwind(AssertUnwindSafe(|| -> Vec<String> {
							let mut errs = vec![];
							if let Some(de) = d.write().as_mut() {
								de.reset();
							}
							if let Err(e) = rx.chain.reset_pibd_head() {
								errs.push(format!("reset_pibd_head: {}", e));
							}
							if let Err(e) = rx.chain.reset_chain_head_to_genesis() {
								errs.push(format!("reset_chain_head_to_genesis: {}", e));
							}
							if let Err(e) = rx.chain.reset_prune_lists() {
								errs.push(format!("reset_prune_lists: {}", e));
							}
							errs
						}));
						complete = false;
						match r {
							Ok(errs) => {
								let mut e = json!({"k": "Restart", "res": if errs.is_empty() { "ok" } else { "err" }, "errs": errs});
								e["proj"] = proj(0);
								events.push(e);
							}
							Err(_) => events.push(json!({"k": "Restart", "res": "panic"})),
						}
					}
					"Add" => {
						let tree = st["tree"].as_str().unwrap();
						let idx = st["idx"].as_u64().unwrap();
						let kind = st["kind"].as_str().unwrap();
						let from_tree = st["from"].as_str().unwrap_or(tree);
						let prefix = if kind == "stale" { "stale_" } else if kind == "split_root" { "split_" } else { "" };
						let path = format!("{}/{}{}_{}.seg", dir, prefix, from_tree, idx);
						let bytes = match fs::read(&path) {
							Ok(b) => b,
							Err(_) => {
								events.push(json!({"k": "Add", "tree": tree, "idx": idx, "kind": kind, "verdict": "unavailable"}));
								continue;
							}
						};
						if kind == "stale" {
							// only a stale segment that differs from the current one is a corruption
							if let Ok(cur) = fs::read(format!("{}/{}_{}.seg", dir, from_tree, idx)) {
								if cur == bytes {
									events.push(json!({"k": "Add", "tree": tree, "idx": idx, "kind": kind, "verdict": "unavailable"}));
									continue;
								}
							}
						}
						let other_root = fs::read_to_string(format!("{}/{}_{}.seg.root", dir, tree, idx))
							.ok()
							.map(|s| Hash::from_hex(s.trim()).unwrap());
						let r = catch_unwind(AssertUnwindSafe(|| -> Result<(), String> {
							let mut guard = d.write();
							let de = guard.as_mut().unwrap();
							match tree {
								"bitmap" => {
									let bs: BitmapSegment = from_bytes(&bytes).map_err(|e| format!("unreadable: {}", e))?;
									let s0: Segment<BitmapChunk> = bs.into_segment().map_err(|e| format!("unreadable: {}", e))?;
									let s = corrupt_seg::<BitmapChunk>(s0, kind, &|ps, i| {
										let n = i + 1;
										let old = ps.leaf_data[n - 1].clone();
										let mut c = BitmapChunk::new();
										let set: Vec<u32> = old.set_iter(0).collect();
										for i in &set {
											c.set(*i as u64, true);
										}
										c.set(5, !set.contains(&5));
										ps.leaf_data[n - 1] = c;
									}, true, None)?;
									de.add_bitmap_segment(s, other_root.unwrap()).map_err(|e| format!("{}", e))
								}
								"output" => {
									let s = corrupt::<OutputIdentifier>(&bytes, kind, &alt_output, Some(&unspent_pos0))?;
									de.add_output_segment(s, other_root).map_err(|e| format!("{}", e))
								}
								"rangeproof" => {
									let s = corrupt::<RangeProof>(&bytes, kind, &alt_rangeproof, Some(&unspent_pos0))?;
									de.add_rangeproof_segment(s).map_err(|e| format!("{}", e))
								}
								_ => {
									let s = corrupt::<TxKernel>(&bytes, kind, &alt_kernel, None)?;
									de.add_kernel_segment(s).map_err(|e| format!("{}", e))
								}
							}
						}));
						let (verdict, err) = match r {
							Ok(Ok(())) => ("accept", String::new()),
							Ok(Err(e)) => (
								if e.starts_with("unreadable") {
									"unreadable"
								} else if e == "unavailable" {
									"unavailable"
								} else {
									"refuse"
								},
								e,
							),
							Err(_) => ("panic", String::new()),
						};
						let mut e = json!({"k": "Add", "tree": tree, "idx": idx, "kind": kind, "verdict": verdict, "err": err});
						if verdict != "panic" {
							e["proj"] = proj(0);
						}
						events.push(e);
					}
					x => panic!("step {}", x),
				}
			}
			finalised_ok = if finalised_mid { true } else { finish(&mut events, &mut complete, &mut do_apply) };
		}

		// ---- final-state comparisons
		let head = rx.chain.head().unwrap();
		let at_archive = head.last_block_h == rx.archive.hash();
		let roots = roots_json(&rx.chain, &rx.archive);
		let hr = &info["archive_header_roots"];
		let roots_eq_header = roots["output"] == hr["output"] && roots["rangeproof"] == hr["rangeproof"] && roots["kernel"] == hr["kernel"];
		let mut fin = json!({"finalised": finalised_ok, "head_at_archive": at_archive, "head_height": head.height, "roots_eq_header": roots_eq_header});
		if at_archive && head.height > 0 && !roots_eq_header {
			problems.push(json!({"sig": "pibd:finalised_wrong_roots", "what": "body head is the archive header but the state roots differ from it", "roots": roots, "header": hr}));
		}
		if finalised_ok {
			if !at_archive {
				problems.push(json!({"sig": "sync:final:head", "what": "finalisation returned ok but head is not the archive header"}));
			}
			let tw = &info["twin"];
			let unspent = unspent_json(&rx.chain, &commits);
			let roots_eq_twin = roots == tw["roots"];
			let unspent_eq_twin = unspent == tw["unspent"];
			let validate = match catch_unwind(AssertUnwindSafe(|| rx.chain.validate(false))) {
				Ok(Ok(())) => "ok".to_string(),
				Ok(Err(e)) => format!("err: {}", e),
				Err(_) => "panic".into(),
			};
			fin["roots_eq_twin"] = json!(roots_eq_twin);
			fin["unspent_eq_twin"] = json!(unspent_eq_twin);
			fin["validate"] = json!(validate);
			if !roots_eq_twin {
				problems.push(json!({"sig": "sync:final:roots_differ_from_twin", "what": "roots differ from the block-by-block twin", "rx": roots, "twin": tw["roots"]}));
			}
			if !unspent_eq_twin {
				let diff: Vec<Value> = commits
					.iter()
					.filter(|(n, _)| unspent[n] != tw["unspent"][n])
					.take(5)
					.map(|(n, _)| json!({"c": n, "rx": unspent[n], "twin": tw["unspent"][n]}))
					.collect();
				problems.push(json!({"sig": "sync:final:unspent_differs_from_twin", "what": "get_unspent differs from the twin", "diff": diff}));
			}
			if (validate == "ok") != tw["validate"].as_bool().unwrap() {
				problems.push(json!({"sig": "sync:final:validate", "what": format!("validate(false) = {} but twin validates", validate)}));
			}
			// the remaining blocks above the archive header must be accepted
			let mut later = "ok".to_string();
			for b in &blocks[(archive_height as usize + 1)..] {
				let r = catch_unwind(AssertUnwindSafe(|| rx.chain.process_block(b.clone(), Options::SKIP_POW)));
				match r {
					Ok(Ok(_)) => {}
					Ok(Err(e)) => {
						later = format!("block {} refused: {}", b.header.height, e);
						break;
					}
					Err(_) => {
						later = format!("block {} panic", b.header.height);
						break;
					}
				}
			}
			fin["later_blocks"] = json!(later);
			if later != "ok" {
				problems.push(json!({"sig": "sync:after:block_refused", "what": later}));
			} else {
				let sp = &info["source"];
				let h2 = rx.chain.head().unwrap();
				let hh = rx.chain.head_header().unwrap();
				let roots2 = roots_json(&rx.chain, &hh);
				let unspent2 = unspent_json(&rx.chain, &commits);
				let validate2 = match catch_unwind(AssertUnwindSafe(|| rx.chain.validate(false))) {
					Ok(Ok(())) => "ok".to_string(),
					Ok(Err(e)) => format!("err: {}", e),
					Err(_) => "panic".into(),
				};
				fin["after"] = json!({"head_eq_source": json!(hx(&h2.last_block_h)) == sp["head"], "roots_eq_source": roots2 == sp["roots"],
					"unspent_eq_source": unspent2 == sp["unspent"], "validate": validate2});
				if json!(hx(&h2.last_block_h)) != sp["head"] {
					problems.push(json!({"sig": "sync:after:head", "what": "head differs from the source after the later blocks"}));
				}
				if roots2 != sp["roots"] {
					problems.push(json!({"sig": "sync:after:roots", "what": "roots differ from the source after the later blocks"}));
				}
				if unspent2 != sp["unspent"] {
					problems.push(json!({"sig": "sync:after:unspent", "what": "unspent set differs from the source after the later blocks"}));
				}
				if validate2 != "ok" {
					problems.push(json!({"sig": "sync:after:validate", "what": validate2}));
				}
			}
		}
		out.put(&json!({"name": name, "kind": sc["kind"], "events": events, "final": fin, "problems": problems}));
		drop(rx);
		if args.get("keep").is_none() {
			let _ = fs::remove_dir_all(&rdir);
		}
	}
	out.finish();
	0
}
